(** The base invariant of the interchain / transaction-manager state under [cfg_fixed] and its
    preservation by every transaction. *)
From BX Require Import Base.Prelude Base.Fsm Model.TxFsm Model.TxMgr Model.Interchain Model.IbtpExec
     Proofs.TxFsmProofs Proofs.IbtpBasics Proofs.IbtpStep Proofs.IbtpTm Proofs.IbtpIc.
From Coq Require Import String ZifyBool ZifyN ZifyNat.
Local Open Scope N_scope.

Definition B63 : N := 9223372036854775808.

Lemma id_sort_in w y l : In y (id_sort w l) <-> In y l.
Proof. apply id_sort_in'. Qed.

(** * begun transactions *)
Definition begun (t : txm) (i : txid) : Prop := tm_rec t i <> None \/ tm_child t i <> None.

Record BInv (w : world) (t : txm) (c : ichain) : Prop := {
  b_small : forall f t0, IC c f t0 < B63;
  b_begun_le : forall f t0 x, begun t (f, t0, x) -> 1 <= x <= IC c f t0;
  b_le_begun : forall f t0 x, 1 <= x <= IC c f t0 -> begun t (f, t0, x);
  b_req_iff : forall f t0 x, i_req c (f, t0, x) <> None <-> 1 <= x <= IC c f t0;
  b_mirror_ic : forall f t0, SIC c t0 f = IC c f t0;
  b_mirror_rc : forall f t0, SRC c t0 f = RC c f t0;
  b_rc_le : forall f t0, RC c f t0 <= IC c f t0;
  b_rcpt : forall i, i_rcpt c i <> None -> begun t i;
  g_child_glob : forall i g, tm_child t i = Some g ->
                             exists gi, tm_glob t g = Some gi /\ child_lookup i (g_children gi) <> None;
  g_glob_child : forall g gi i, tm_glob t g = Some gi -> child_lookup i (g_children gi) <> None ->
                                tm_child t i = Some g;
  g_nodup : forall g gi, tm_glob t g = Some gi -> NoDup (map fst (g_children gi));
  g_excl : forall i, tm_child t i <> None -> tm_rec t i = None;
  g_samehub : forall i g sf sd, tm_child t i = Some g ->
                                svc_lookup w (fst (fst i)) = Some sf -> svc_lookup w (snd (fst i)) = Some sd ->
                                sv_hub sf = sv_hub sd
}.

Lemma binv_init w : BInv w txm_init ichain_init.
Proof.
  constructor; unfold IC, RC, SIC, SRC, begun, get_rec; simpl; intros;
    try reflexivity; try lia; try discriminate; try (unfold B63; lia); try tauto.
  all: try (match goal with H : _ \/ _ |- _ => destruct H; congruence end).
  all: try (split; [intro HH; congruence | lia]).
Qed.

(** records only ever appear *)
Lemma binv_rec_exists w t c f t0 x :
  BInv w t c -> begun t (f, t0, x) -> i_rec c f <> None /\ i_rec c t0 <> None.
Proof.
  intros I Hb. pose proof (b_begun_le _ _ _ I _ _ _ Hb) as Hle.
  pose proof (b_mirror_ic _ _ _ I f t0) as Hm. unfold IC, SIC, get_rec in *.
  split.
  - destruct (i_rec c f); [discriminate|]. simpl in Hle. lia.
  - destruct (i_rec c t0); [discriminate|]. simpl in Hm. lia.
Qed.

(** * [handle_multi] *)
Lemma handle_multi_spec kids : forall c,
  (forall k, In k kids -> atoi_ok k = true) ->
  exists c', handle_multi c kids = (c', true) /\
    (forall f t, IC c' f t = IC c f t) /\ (forall f t, SIC c' t f = SIC c t f) /\
    i_req c' = i_req c /\ i_rcpt c' = i_rcpt c /\ i_multi c' = i_multi c /\
    (forall k, i_rec c k <> None -> i_rec c' k <> None) /\
    ((forall f t, SRC c t f = RC c f t) -> forall f t, SRC c' t f = RC c' f t) /\
    (forall f t, RC c' f t = RC c f t \/ exists x, In (f, t, x) kids /\ RC c' f t = x) /\
    (forall f t, (forall x, ~ In (f, t, x) kids) -> RC c' f t = RC c f t).
Proof.
  induction kids as [|[[kf kt] kx] r IH]; intros c Hok.
  - exists c. simpl. repeat split; auto.
  - simpl. rewrite (Hok (kf, kt, kx)) by (left; reflexivity).
    set (c1 := set_dest c kf kt kx (get_rec c kf)).
    destruct (IH c1) as [c' [E [HIC [HSIC [Hreq [Hrcpt [Hmul [Hmono [Hmir [Hrc Hrc2]]]]]]]]]].
    { intros k Hk. apply Hok. right. exact Hk. }
    exists c'. split; [exact E|].
    destruct (set_dest_fields c kf kt kx (get_rec c kf)) as [F1 [F2 F3]].
    subst c1.
    repeat split.
    + intros f t. rewrite HIC. apply set_dest_IC. reflexivity.
    + intros f t. rewrite HSIC. apply set_dest_SIC. reflexivity.
    + congruence.
    + congruence.
    + congruence.
    + intros k Hk. apply Hmono. apply set_dest_rec_mono. exact Hk.
    + intro Hm. apply Hmir. intros f t.
      rewrite set_dest_SRC, set_dest_RC by reflexivity. rewrite Hm.
      rewrite (andb_comm (t =? kt)). reflexivity.
    + intros f t. destruct (Hrc f t) as [H | [x [Hin Hx]]].
      * rewrite H. rewrite set_dest_RC by reflexivity.
        destruct ((f =? kf) && (t =? kt)) eqn:Eft.
        -- right. apply andb_true_iff in Eft. destruct Eft as [E1 E2].
           apply N.eqb_eq in E1, E2. subst. exists kx. split; [left; reflexivity | reflexivity].
        -- left. reflexivity.
      * right. exists x. split; [right; exact Hin | exact Hx].
    + intros f t Hnot. rewrite Hrc2.
      * rewrite set_dest_RC by reflexivity.
        destruct ((f =? kf) && (t =? kt)) eqn:Eft; [|reflexivity].
        apply andb_true_iff in Eft. destruct Eft as [E1 E2]. apply N.eqb_eq in E1, E2. subst.
        exfalso. apply (Hnot kx). left. reflexivity.
      * intros x Hin. apply (Hnot x). right. exact Hin.
Qed.

(** * how a transaction-manager call changes the set of begun transactions *)
Lemma bm_fields sorted cur g i T failed count t t' ch :
  bm_change sorted cur g i T failed count t t' ch ->
  tm_rec t' = tm_rec t /\ tm_child t' = upd txid_eqb (tm_child t) i (Some g).
Proof.
  intro H. inversion H; subst; simpl.
  - subst t1. destruct failed; [split; reflexivity|].
    destruct (tm_add_timeout_fields cfg_fixed t hh (TGid g)) as [A [_ C]]. rewrite A, C. split; reflexivity.
  - auto.
  - match goal with Hr : tm_remove_timeout _ _ _ = Some _ |- _ => apply tm_remove_timeout_fields in Hr; destruct Hr as [R1 [R2 R3]] end.
    rewrite R1, R3. auto.
  - auto.
Qed.

Lemma rp_fields sorted i r t t' ch :
  rp_change sorted i r t t' ch ->
  tm_child t' = tm_child t /\
  (tm_rec t' = tm_rec t \/ exists v, tm_rec t i <> None /\ tm_rec t' = upd txid_eqb (tm_rec t) i (Some v)) /\
  (tm_rec t i <> None \/ tm_child t i <> None).
Proof.
  intro H. inversion H; subst; simpl.
  - split; [reflexivity|]. split.
    + right. eexists. split; [congruence | reflexivity].
    + left. congruence.
  - assert (tm_rec t1 = tm_rec t /\ tm_child t1 = tm_child t) as [R1 R3].
    { destruct rm.
      - match goal with Hr : tm_remove_timeout _ _ _ = Some _ |- _ => apply tm_remove_timeout_fields in Hr; destruct Hr as [R1 [R2 R3]] end. auto.
      - match goal with Hr : Some _ = Some _ |- _ => inversion Hr; subst end. auto. }
    rewrite R1, R3. split; [reflexivity|]. split; [left; reflexivity | right; congruence].
Qed.

Lemma begun_evolution w h b sf sd terr t t' ch :
  tm_step cfg_fixed w h b sf sd terr t = Some (TmOk t' ch) ->
  (forall j, begun t j -> begun t' j) /\
  (forall j, begun t' j -> begun t j \/ (j = b_id b /\ is_request b = true)) /\
  begun t' (b_id b) /\
  (is_request b = false -> begun t (b_id b)).
Proof.
  intro H. apply tm_step_inv in H.
  assert (Hupd : forall (v : N * N), (forall j, begun t j -> begun (set_rec t (b_id b) v) j) /\
            (forall j, begun (set_rec t (b_id b) v) j -> begun t j \/ j = b_id b) /\
            begun (set_rec t (b_id b) v) (b_id b)).
  { intro v. unfold begun. simpl. unfold upd. repeat split.
    - intros j [Hj | Hj]; [left | right; exact Hj]. destruct (txid_eqb j (b_id b)); [discriminate | exact Hj].
    - intros j [Hj | Hj]; [|left; right; exact Hj]. destruct (txid_eqb j (b_id b)) eqn:E.
      + right. apply txid_eqb_eq. exact E.
      + left. left. exact Hj.
    - left. rewrite txid_eqb_refl. discriminate. }
  inversion H; subst.
  - destruct (Hupd (timeout_height h T, st)) as [A [B C]].
    split; [exact A|]. split; [|split; [exact C | congruence]].
    intros j Hj. destruct (B j Hj); [left; assumption | right; split; assumption].
  - destruct (Hupd (hh, s')) as [A [B C]].
    split; [exact A|]. split; [|split; [exact C | congruence]].
    intros j Hj. destruct (B j Hj) as [Hb | ->]; [left; assumption|]. left. left. congruence.
  - destruct (Hupd (timeout_height h (u64_of_Z (b_T b)), st)) as [A [B C]].
    split; [exact A|]. split; [|split; [exact C | congruence]].
    intros j Hj. destruct (B j Hj); [left; assumption | right; split; assumption].
  - match goal with Hb : bm_change _ _ _ _ _ _ _ _ _ _ |- _ => apply bm_fields in Hb; destruct Hb as [R C] end.
    unfold begun. rewrite R, C. unfold upd. split; [|split; [|split]].
    + intros j [Hj | Hj]; [left; exact Hj | right]. destruct (txid_eqb j (b_id b)); [discriminate | exact Hj].
    + intros j [Hj | Hj]; [left; left; exact Hj|]. destruct (txid_eqb j (b_id b)) eqn:E.
      * right. split; [apply txid_eqb_eq; exact E | assumption].
      * left. right. exact Hj.
    + right. rewrite txid_eqb_refl. discriminate.
    + congruence.
  - match goal with Hb : rp_change _ _ _ _ _ _ |- _ => apply rp_fields in Hb; destruct Hb as [C [R Hbg]] end.
    unfold begun. rewrite C. destruct R as [R | [v [Hex R]]]; rewrite R; unfold upd.
    + split; [auto|]. split; [intros j Hj; left; exact Hj|]. split; [exact Hbg | intros _; exact Hbg].
    + split; [|split; [|split]].
      * intros j [Hj | Hj]; [left | right; exact Hj]. destruct (txid_eqb j (b_id b)); [discriminate | exact Hj].
      * intros j [Hj | Hj]; [|left; right; exact Hj]. destruct (txid_eqb j (b_id b)) eqn:E.
        -- apply txid_eqb_eq in E. subst j. left. left. exact Hex.
        -- left. left. exact Hj.
      * left. rewrite txid_eqb_refl. discriminate.
      * intros _. exact Hbg.
Qed.

(** * the group-structure clauses *)
Record GInv (w : world) (t : txm) : Prop := {
  gi_child_glob : forall i g, tm_child t i = Some g ->
                              exists gi, tm_glob t g = Some gi /\ child_lookup i (g_children gi) <> None;
  gi_glob_child : forall g gi i, tm_glob t g = Some gi -> child_lookup i (g_children gi) <> None ->
                                 tm_child t i = Some g;
  gi_nodup : forall g gi, tm_glob t g = Some gi -> NoDup (map fst (g_children gi));
  gi_excl : forall i, tm_child t i <> None -> tm_rec t i = None;
  gi_samehub : forall i g sf sd, tm_child t i = Some g ->
                                 svc_lookup w (fst (fst i)) = Some sf -> svc_lookup w (snd (fst i)) = Some sd ->
                                 sv_hub sf = sv_hub sd
}.

Lemma binv_ginv w t c : BInv w t c -> GInv w t.
Proof. intro I. destruct I. constructor; assumption. Qed.

Lemma child_lookup_keys i l : child_lookup i l <> None <-> In i (map fst l).
Proof.
  split.
  - intro H. destruct (child_lookup i l) eqn:E; [|contradiction].
    apply child_lookup_in in E. apply (in_map fst) in E. exact E.
  - intro H. destruct (in_child_lookup _ _ H) as [s E]. rewrite E. discriminate.
Qed.

Lemma cm_keys gi i r gi' rm :
  child_lookup i (g_children gi) <> None -> cm_change gi i r gi' rm ->
  map fst (g_children gi') = map fst (g_children gi) /\ g_count gi' = g_count gi /\ g_height gi' = g_height gi.
Proof.
  intros Hin H.
  assert (Hk : forall s l, child_lookup i l <> None -> map fst (child_set i s l) = map fst l).
  { intros s l Hl. rewrite child_set_keys. destruct (child_lookup i l); [reflexivity | contradiction]. }
  inversion H; subst; cbn [g_children g_count g_height]; rewrite Hk; auto.
  - rewrite children_all_keys. auto.
  - rewrite child_lookup_all. destruct (child_lookup i (g_children gi)); [discriminate | contradiction].
Qed.

Lemma bm_struct sorted cur g i T failed count t t' ch :
  bm_change sorted cur g i T failed count t t' ch ->
  exists gi', tm_glob t' = upd gid_eqb (tm_glob t) g (Some gi') /\
    map fst (g_children gi') = (match tm_glob t g with Some gi => map fst (g_children gi) | None => [] end) ++ [i] /\
    (match tm_glob t g with Some gi => child_lookup i (g_children gi) = None | None => True end).
Proof.
  intro H. inversion H; subst.
  - eexists. split; [|split].
    + simpl. subst t1. destruct failed; [reflexivity|].
      destruct (tm_add_timeout_fields cfg_fixed t hh (TGid g)) as [_ [A _]]. rewrite A. reflexivity.
    + rewrite H0. reflexivity.
    + rewrite H0. exact I.
  - eexists. split; [reflexivity|]. rewrite H0. split; [|assumption].
    cbn [g_children]. subst kids. rewrite child_set_keys, H1. reflexivity.
  - eexists. split; [|split].
    + simpl. apply tm_remove_timeout_fields in H4. destruct H4 as [_ [A _]]. rewrite A. reflexivity.
    + rewrite H0. cbn [g_children]. subst kids. rewrite child_set_keys, child_lookup_all, H1, children_all_keys. reflexivity.
    + rewrite H0. assumption.
  - eexists. split; [reflexivity|]. rewrite H0. split; [|assumption].
    cbn [g_children]. subst kids. rewrite child_set_keys, H1. reflexivity.
Qed.

Lemma ginv_add_child w t t' g gi' i :
  GInv w t -> ~ begun t i ->
  tm_rec t' = tm_rec t ->
  tm_child t' = upd txid_eqb (tm_child t) i (Some g) ->
  tm_glob t' = upd gid_eqb (tm_glob t) g (Some gi') ->
  map fst (g_children gi') = (match tm_glob t g with Some gi => map fst (g_children gi) | None => [] end) ++ [i] ->
  (forall sf sd, svc_lookup w (fst (fst i)) = Some sf -> svc_lookup w (snd (fst i)) = Some sd -> sv_hub sf = sv_hub sd) ->
  GInv w t'.
Proof.
  intros [G1 G2 G3 G4 G5] Hnb Hr Hc Hg Hkeys Hhub.
  assert (Hold : forall j, In j (match tm_glob t g with Some gi => map fst (g_children gi) | None => [] end) ->
                           tm_child t j = Some g).
  { intros j Hj. destruct (tm_glob t g) as [gi|] eqn:E; [|contradiction].
    apply (G2 g gi j E). apply child_lookup_keys. exact Hj. }
  constructor.
  - intros j g0 Hj. rewrite Hc in Hj. rewrite Hg. unfold upd in *.
    destruct (txid_eqb j i) eqn:E.
    + inversion Hj; subst g0. rewrite gid_eqb_refl. exists gi'. split; [reflexivity|].
      apply child_lookup_keys. rewrite Hkeys. apply in_or_app. right. left. symmetry. apply txid_eqb_eq. exact E.
    + destruct (G1 _ _ Hj) as [gi0 [Hg0 Hl0]]. destruct (gid_eqb g0 g) eqn:Eg.
      * apply gid_eqb_eq in Eg. subst g0. exists gi'. split; [reflexivity|].
        apply child_lookup_keys. rewrite Hkeys. apply in_or_app. left. rewrite Hg0.
        apply child_lookup_keys. exact Hl0.
      * exists gi0. split; assumption.
  - intros g0 gi0 j Hg0 Hj. rewrite Hg in Hg0. rewrite Hc. unfold upd in *.
    destruct (gid_eqb g0 g) eqn:Eg.
    + apply gid_eqb_eq in Eg. subst g0. inversion Hg0; subst gi0.
      apply child_lookup_keys in Hj. rewrite Hkeys in Hj. apply in_app_or in Hj.
      destruct Hj as [Hj | [Hj | []]].
      * destruct (txid_eqb j i); [reflexivity | apply Hold; exact Hj].
      * subst j. rewrite txid_eqb_refl. reflexivity.
    + pose proof (G2 _ _ _ Hg0 Hj) as Hcj. destruct (txid_eqb j i) eqn:E; [|exact Hcj].
      apply txid_eqb_eq in E. subst j. exfalso. apply Hnb. right. congruence.
  - intros g0 gi0 Hg0. rewrite Hg in Hg0. unfold upd in Hg0. destruct (gid_eqb g0 g) eqn:Eg.
    + inversion Hg0; subst gi0. rewrite Hkeys. apply NoDup_app_end.
      * destruct (tm_glob t g) as [gi|] eqn:E; [eapply G3; eauto | constructor].
      * intro Hin. apply Hnb. right. rewrite (Hold i Hin). discriminate.
    + eapply G3; eauto.
  - intros j Hj. rewrite Hr. rewrite Hc in Hj. unfold upd in Hj.
    destruct (txid_eqb j i) eqn:E.
    + apply txid_eqb_eq in E. subst j. destruct (tm_rec t i) eqn:Er; [|reflexivity].
      exfalso. apply Hnb. left. congruence.
    + apply G4. exact Hj.
  - intros j g0 sf0 sd0 Hj Hf0 Hd0. rewrite Hc in Hj. unfold upd in Hj.
    destruct (txid_eqb j i) eqn:E.
    + apply txid_eqb_eq in E. subst j. apply Hhub; assumption.
    + eapply G5; eauto.
Qed.

Lemma ginv_same_keys w t t' g gi gi' :
  GInv w t -> tm_glob t g = Some gi ->
  tm_rec t' = tm_rec t -> tm_child t' = tm_child t ->
  tm_glob t' = upd gid_eqb (tm_glob t) g (Some gi') ->
  map fst (g_children gi') = map fst (g_children gi) ->
  GInv w t'.
Proof.
  intros [G1 G2 G3 G4 G5] Hgl Hr Hc Hg Hkeys.
  constructor.
  - intros j g0 Hj. rewrite Hc in Hj. rewrite Hg. unfold upd.
    destruct (G1 _ _ Hj) as [gi0 [Hg0 Hl0]]. destruct (gid_eqb g0 g) eqn:Eg.
    + apply gid_eqb_eq in Eg. subst g0. exists gi'. split; [reflexivity|].
      apply child_lookup_keys. rewrite Hkeys. apply child_lookup_keys. congruence.
    + exists gi0. split; assumption.
  - intros g0 gi0 j Hg0 Hj. rewrite Hg in Hg0. rewrite Hc. unfold upd in Hg0.
    destruct (gid_eqb g0 g) eqn:Eg.
    + apply gid_eqb_eq in Eg. subst g0. inversion Hg0; subst gi0.
      apply (G2 g gi j Hgl). apply child_lookup_keys. rewrite <- Hkeys. apply child_lookup_keys. exact Hj.
    + eapply G2; eauto.
  - intros g0 gi0 Hg0. rewrite Hg in Hg0. unfold upd in Hg0. destruct (gid_eqb g0 g).
    + inversion Hg0; subst gi0. rewrite Hkeys. eapply G3; eauto.
    + eapply G3; eauto.
  - intros j Hj. rewrite Hr. rewrite Hc in Hj. apply G4. exact Hj.
  - intros j g0 sf0 sd0 Hj. rewrite Hc in Hj. eapply G5; eauto.
Qed.

Lemma ginv_set_rec w t i v :
  GInv w t -> tm_child t i = None -> GInv w (set_rec t i v).
Proof.
  intros [G1 G2 G3 G4 G5] Hn. constructor; simpl; auto.
  intros j Hj. unfold upd. destruct (txid_eqb j i) eqn:E.
  - apply txid_eqb_eq in E. subst j. contradiction.
  - apply G4. exact Hj.
Qed.

Lemma ginv_step w h b sf sd terr t t' ch :
  GInv w t ->
  svc_lookup w (b_from b) = Some sf -> svc_lookup w (b_to b) = Some sd ->
  tm_step cfg_fixed w h b sf sd terr t = Some (TmOk t' ch) ->
  (is_request b = true -> (sv_hub sf =? sv_hub sd) = true -> ~ begun t (b_id b)) ->
  GInv w t'.
Proof.
  intros GI Esf Esd H Hfresh. apply tm_step_inv in H.
  assert (Hinter : (sv_hub sf =? sv_hub sd) = false -> tm_child t (b_id b) = None).
  { intro Eh. destruct (tm_child t (b_id b)) as [g|] eqn:Ec; [|reflexivity].
    exfalso. pose proof (gi_samehub _ _ GI (b_id b) g sf sd Ec Esf Esd) as Hh.
    apply N.eqb_neq in Eh. contradiction. }
  inversion H; subst.
  - apply ginv_set_rec; auto.
  - apply ginv_set_rec; auto.
  - apply ginv_set_rec; [exact GI|].
    destruct (tm_child t (b_id b)) eqn:Ec; [|reflexivity].
    exfalso. apply (Hfresh ltac:(assumption) ltac:(assumption)). right. congruence.
  - match goal with Hb : bm_change _ _ _ _ _ _ _ _ _ _ |- _ =>
      pose proof (bm_fields _ _ _ _ _ _ _ _ _ _ Hb) as [R C];
      pose proof (bm_struct _ _ _ _ _ _ _ _ _ _ Hb) as [gi' [Hg [Hk _]]] end.
    eapply ginv_add_child; eauto.
    intros sf0 sd0 Hf0 Hd0. unfold b_id in Hf0, Hd0. simpl in Hf0, Hd0.
    rewrite Esf in Hf0. rewrite Esd in Hd0. inversion Hf0; inversion Hd0; subst.
    apply N.eqb_eq. assumption.
  - match goal with Hb : rp_change _ _ _ _ _ _ |- _ => inversion Hb; subst end.
    + apply ginv_set_rec; [exact GI|].
      destruct (tm_child t (b_id b)) eqn:Ec; [|reflexivity].
      exfalso. pose proof (gi_excl _ _ GI (b_id b)) as X. rewrite Ec in X.
      specialize (X ltac:(discriminate)). congruence.
    + match goal with Hc : cm_change _ _ _ _ _ |- _ =>
        pose proof (cm_keys _ _ _ _ _ ltac:(eassumption) Hc) as [Hk _] end.
      assert (tm_rec t1 = tm_rec t /\ tm_child t1 = tm_child t /\ tm_glob t1 = tm_glob t) as [R1 [R3 R2]].
      { destruct rm.
        - match goal with Hr : tm_remove_timeout _ _ _ = Some _ |- _ => apply tm_remove_timeout_fields in Hr; destruct Hr as [R1 [R2 R3]] end. auto.
        - match goal with Hr : Some _ = Some _ |- _ => inversion Hr; subst end. auto. }
      eapply (ginv_same_keys w t _ g gi gi'); eauto; simpl; congruence.
Qed.

(** * preservation of [BInv] *)
Lemma same_core_counters c c1 :
  same_core c c1 ->
  (forall f t, IC c1 f t = IC c f t) /\ (forall f t, RC c1 f t = RC c f t) /\
  (forall f t, SIC c1 t f = SIC c t f) /\ (forall f t, SRC c1 t f = SRC c t f) /\
  (forall k, get_rec c1 k = get_rec c k).
Proof.
  intros [A _]. assert (G : forall k, get_rec c1 k = get_rec c k) by (apply get_rec_ext; exact A).
  unfold IC, RC, SIC, SRC. repeat split; intros; rewrite G; reflexivity.
Qed.

Lemma binv_request w t t' c c1 b serial :
  BInv w t c -> same_core c c1 -> GInv w t' ->
  (forall j, begun t j -> begun t' j) ->
  (forall j, begun t' j -> begun t j \/ j = b_id b) ->
  begun t' (b_id b) ->
  b_idx b = wrap64 (IC c (b_from b) (b_to b) + 1) -> b_idx b < B63 ->
  BInv w t' (req_step c1 b (get_rec c (b_from b)) serial).
Proof.
  intros I Hsc GI Hmono Hnew Hself Hidx Hsmall.
  destruct (same_core_counters _ _ Hsc) as [EIC [ERC [ESIC [ESRC EG]]]].
  destruct Hsc as [_ [Ereq Ercpt]].
  assert (Hnw : wrap64 (IC c (b_from b) (b_to b) + 1) = IC c (b_from b) (b_to b) + 1).
  { apply wrap64_small. pose proof (b_small _ _ _ I (b_from b) (b_to b)). unfold B63, W64 in *. lia. }
  rewrite Hnw in Hidx.
  rewrite <- (EG (b_from b)).
  assert (HIC : forall f t0, IC (req_step c1 b (get_rec c1 (b_from b)) serial) f t0 =
                            if (f =? b_from b) && (t0 =? b_to b) then b_idx b else IC c f t0).
  { intros f t0. rewrite req_step_IC. rewrite !EIC, Hnw, Hidx. reflexivity. }
  assert (HRC : forall f t0, RC (req_step c1 b (get_rec c1 (b_from b)) serial) f t0 = RC c f t0).
  { intros. rewrite req_step_RC. apply ERC. }
  assert (HSIC : forall t0 f, SIC (req_step c1 b (get_rec c1 (b_from b)) serial) t0 f =
                              if (t0 =? b_to b) && (f =? b_from b) then b_idx b else SIC c t0 f).
  { intros. rewrite req_step_SIC. rewrite ESIC. reflexivity. }
  assert (HSRC : forall t0 f, SRC (req_step c1 b (get_rec c1 (b_from b)) serial) t0 f = SRC c t0 f).
  { intros. rewrite req_step_SRC. apply ESRC. }
  destruct (req_step_fields c1 b (get_rec c1 (b_from b)) serial) as [Freq [Frcpt _]].
  destruct GI as [G1 G2 G3 G4 G5].
  constructor; try assumption.
  - intros f t0. rewrite HIC. destruct ((f =? b_from b) && (t0 =? b_to b)); [exact Hsmall | apply (b_small _ _ _ I)].
  - intros f t0 x Hb. rewrite HIC. destruct (Hnew _ Hb) as [Hold | Heq].
    + pose proof (b_begun_le _ _ _ I _ _ _ Hold) as Hle.
      destruct ((f =? b_from b) && (t0 =? b_to b)) eqn:E; [|exact Hle].
      apply andb_true_iff in E. destruct E as [E1 E2]. apply N.eqb_eq in E1, E2. subst. lia.
    + unfold b_id in Heq. inversion Heq; subst. rewrite !N.eqb_refl. simpl. lia.
  - intros f t0 x Hx. rewrite HIC in Hx.
    destruct ((f =? b_from b) && (t0 =? b_to b)) eqn:E.
    + apply andb_true_iff in E. destruct E as [E1 E2]. apply N.eqb_eq in E1, E2. subst f t0.
      destruct (N.eq_dec x (b_idx b)) as [->|Hne]; [exact Hself|].
      apply Hmono. apply (b_le_begun _ _ _ I). lia.
    + apply Hmono. apply (b_le_begun _ _ _ I). exact Hx.
  - intros f t0 x. rewrite Freq, Ereq, HIC. unfold upd.
    destruct (txid_eqb (f, t0, x) (b_id b)) eqn:E.
    + apply txid_eqb_eq in E. unfold b_id in E. inversion E; subst. rewrite !N.eqb_refl. simpl.
      split; [intros _; lia | intros _; discriminate].
    + rewrite (b_req_iff _ _ _ I). apply txid_eqb_neq in E.
      destruct ((f =? b_from b) && (t0 =? b_to b)) eqn:E2; [|tauto].
      apply andb_true_iff in E2. destruct E2 as [E3 E4]. apply N.eqb_eq in E3, E4. subst f t0.
      assert (x <> b_idx b) by (intro; subst; apply E; reflexivity). lia.
  - intros f t0. rewrite HSIC, HIC, (b_mirror_ic _ _ _ I). rewrite andb_comm. reflexivity.
  - intros f t0. rewrite HSRC, HRC. apply (b_mirror_rc _ _ _ I).
  - intros f t0. rewrite HRC, HIC. pose proof (b_rc_le _ _ _ I f t0).
    destruct ((f =? b_from b) && (t0 =? b_to b)) eqn:E; [|assumption].
    apply andb_true_iff in E. destruct E as [E1 E2]. apply N.eqb_eq in E1, E2. subst. lia.
  - intros i Hi. rewrite Frcpt, Ercpt in Hi. apply Hmono. apply (b_rcpt _ _ _ I). exact Hi.
Qed.

(** what the receipt branch of [process_ibtp] may do to the counters *)
Record rc_update (t : txm) (c c2 : ichain) : Prop := {
  ru_IC : forall f t0, IC c2 f t0 = IC c f t0;
  ru_SIC : forall f t0, SIC c2 t0 f = SIC c t0 f;
  ru_req : i_req c2 = i_req c;
  ru_rcpt : i_rcpt c2 = i_rcpt c;
  ru_mirror : (forall f t0, SRC c t0 f = RC c f t0) -> forall f t0, SRC c2 t0 f = RC c2 f t0;
  ru_RC : forall f t0, RC c2 f t0 = RC c f t0 \/ begun t (f, t0, RC c2 f t0)
}.

Lemma binv_response w t t' c c2 b serial :
  BInv w t c -> rc_update t c c2 -> GInv w t' ->
  (forall j, begun t j -> begun t' j) ->
  (forall j, begun t' j -> begun t j) ->
  begun t (b_id b) ->
  BInv w t' (put_rcpt c2 (b_id b) serial).
Proof.
  intros I [UIC USIC Ureq Urcpt Umir URC] GI Hmono Hnew Hself.
  assert (E : forall k, get_rec (put_rcpt c2 (b_id b) serial) k = get_rec c2 k) by reflexivity.
  destruct GI as [G1 G2 G3 G4 G5].
  constructor; try assumption; unfold IC, RC, SIC, SRC in *; simpl i_req; simpl i_rcpt.
  - intros f t0. rewrite E, UIC. apply (b_small _ _ _ I).
  - intros f t0 x Hb. rewrite E, UIC. apply (b_begun_le _ _ _ I). apply Hnew. exact Hb.
  - intros f t0 x Hx. rewrite E, UIC in Hx. apply Hmono. apply (b_le_begun _ _ _ I). exact Hx.
  - intros f t0 x. rewrite Ureq, E, UIC. apply (b_req_iff _ _ _ I).
  - intros f t0. rewrite !E, USIC, UIC. apply (b_mirror_ic _ _ _ I).
  - intros f t0. rewrite !E. apply Umir. apply (b_mirror_rc _ _ _ I).
  - intros f t0. rewrite !E, UIC. destruct (URC f t0) as [H | H].
    + unfold RC in H. rewrite H. apply (b_rc_le _ _ _ I).
    + apply (b_begun_le _ _ _ I) in H. unfold IC, RC in H. lia.
  - intros i Hi. unfold upd in Hi. destruct (txid_eqb i (b_id b)) eqn:Ei.
    + apply txid_eqb_eq in Ei. subst i. apply Hmono. exact Hself.
    + rewrite Urcpt in Hi. apply Hmono. apply (b_rcpt _ _ _ I). exact Hi.
Qed.

Lemma rc_update_same t c c1 : same_core c c1 -> rc_update t c c1.
Proof.
  intro Hsc. destruct (same_core_counters _ _ Hsc) as [EIC [ERC [ESIC [ESRC EG]]]].
  destruct Hsc as [_ [Ereq Ercpt]].
  constructor; auto.
  - intros Hm f t0. rewrite ESRC, ERC. apply Hm.
Qed.

Lemma rc_update_set_dest t c c1 f t0 x :
  same_core c c1 -> begun t (f, t0, x) ->
  rc_update t c (set_dest c1 f t0 x (get_rec c f)).
Proof.
  intros Hsc Hb. destruct (same_core_counters _ _ Hsc) as [EIC [ERC [ESIC [ESRC EG]]]].
  destruct Hsc as [_ [Ereq Ercpt]].
  rewrite <- (EG f).
  destruct (set_dest_fields c1 f t0 x (get_rec c1 f)) as [F1 [F2 _]].
  constructor.
  - intros. rewrite set_dest_IC by reflexivity. apply EIC.
  - intros. rewrite set_dest_SIC by reflexivity. apply ESIC.
  - congruence.
  - congruence.
  - intros Hm f' t'. rewrite set_dest_SRC, set_dest_RC by reflexivity. rewrite ESRC, ERC, Hm.
    rewrite (andb_comm (t' =? t0)). reflexivity.
  - intros f' t'. rewrite set_dest_RC by reflexivity.
    destruct ((f' =? f) && (t' =? t0)) eqn:E.
    + right. apply andb_true_iff in E. destruct E as [E1 E2]. apply N.eqb_eq in E1, E2. subst. exact Hb.
    + left. apply ERC.
Qed.

Lemma rc_update_multi t c c1 kids c2 :
  same_core c c1 -> (forall k, In k kids -> begun t k) ->
  handle_multi c1 kids = (c2, true) -> rc_update t c c2.
Proof.
  intros Hsc Hb Hm. destruct (same_core_counters _ _ Hsc) as [EIC [ERC [ESIC [ESRC EG]]]].
  destruct Hsc as [_ [Ereq Ercpt]].
  (* re-run the specification lemma; atoi_ok follows from the run having succeeded *)
  assert (Hok : forall k, In k kids -> atoi_ok k = true).
  { clear - Hm. revert c1 Hm. induction kids as [|k r IH]; intros c1 Hm k0 Hk0; [destruct Hk0|].
    simpl in Hm. destruct (atoi_ok k) eqn:Ea; [|inversion Hm].
    destruct Hk0 as [Hk | Hk].
    - subst k0. exact Ea.
    - destruct k as [[f t0] x]. eapply IH; eauto. }
  destruct (handle_multi_spec kids c1 Hok) as [c' [E [HIC [HSIC [Hreq [Hrcpt [_ [_ [Hmir [Hrc _]]]]]]]]]].
  rewrite Hm in E. inversion E; subst c'.
  constructor.
  - intros. rewrite HIC. apply EIC.
  - intros. rewrite HSIC. apply ESIC.
  - congruence.
  - congruence.
  - intros Hmi. apply Hmir. intros f t0. rewrite ESRC, ERC. apply Hmi.
  - intros f t0. destruct (Hrc f t0) as [H | [x [Hin Hx]]].
    + left. rewrite H. apply ERC.
    + right. rewrite Hx. apply Hb. exact Hin.
Qed.

(** notifications only exist between different hubs, for ids whose request was recorded *)
Lemma is_notification_true w c b sf sd :
  svc_lookup w (b_from b) = Some sf -> svc_lookup w (b_to b) = Some sd ->
  is_notification w c b = true ->
  (sv_hub sf =? sv_hub sd) = false /\ is_request b = true /\ i_req c (b_id b) <> None.
Proof.
  intros Ef Ed. unfold is_notification. rewrite Ef, Ed.
  rewrite !andb_true_iff. intros [[H1 H2] H3]. apply negb_true_iff in H1.
  repeat split; auto. destruct (i_req c (b_id b)); [discriminate | discriminate].
Qed.

(** the outcome of a transaction once the audit step is known not to fail *)
Inductive hok (w : world) (h serial : N) (b : ibtp) (t : txm) (c : ichain) : txm -> ichain -> txres -> Prop :=
| HokRejected e : hok w h serial b t c t c (res_err e)
| HokDone sf sd terr notif t' ch :
    svc_lookup w (b_from b) = Some sf -> svc_lookup w (b_to b) = Some sd ->
    check_ibtp cfg_fixed w c b = ChkOk false terr notif ->
    tm_step cfg_fixed w h b sf sd terr t = Some (TmOk t' ch) ->
    let nc := notify_src_dst cfg_fixed w c h sf sd ch in
    let pc := process_ibtp w (fst nc) b (get_rec c (b_from b)) serial notif terr false (c_cur ch) (c_child ch) in
    hok w h serial b t c t' (fst pc) (Build_txres true 0 (snd pc) (snd nc) false).

Theorem binv_handle w h serial b t c t' c' r :
  BInv w t c -> b_idx b < B63 ->
  handle_ibtp cfg_fixed w h serial b t c = Some (t', c', r) ->
  BInv w t' c' /\ hok w h serial b t c t' c' r.
Proof.
  intros I Hsmall H. apply handle_fixed_inv in H.
  destruct H as [e | sf sd terr notif t' ch af Esf Esd Ec Et nc pc Haf].
  - split; [exact I | constructor].
  - destruct (check_fixed _ _ _ _ _ _ Ec) as [_ [Hnotif [_ Hidx]]].
    pose proof (begun_evolution _ _ _ _ _ _ _ _ _ Et) as [Hmono [Hnew [Hself Hresp]]].
    pose proof (notify_fields cfg_fixed w c h sf sd ch) as Hsc. fold nc in Hsc.
    assert (Hfresh : is_request b = true -> (sv_hub sf =? sv_hub sd) = true -> ~ begun t (b_id b)).
    { intros Hrq Hhub Hb.
      assert (Hn : notif = false).
      { rewrite Hnotif. unfold is_notification. rewrite Esf, Esd, Hhub. reflexivity. }
      unfold expected_index in Hidx. rewrite Hrq, Hn in Hidx. simpl in Hidx.
      pose proof (b_begun_le _ _ _ I _ _ _ Hb) as Hle.
      pose proof (b_small _ _ _ I (b_from b) (b_to b)) as Hs.
      fold (IC c (b_from b) (b_to b)) in Hidx. rewrite wrap64_small in Hidx by (unfold B63, W64 in *; lia).
      simpl in Hle. lia. }
    pose proof (ginv_step _ _ _ _ _ _ _ _ _ (binv_ginv _ _ _ I) Esf Esd Et Hfresh) as GI'.
    destruct (is_request b && negb notif) eqn:EA.
    + (* a plain request *)
      apply andb_true_iff in EA. destruct EA as [Hrq Hnn]. apply negb_true_iff in Hnn.
      assert (Epc : fst pc = req_step (fst nc) b (get_rec c (b_from b)) serial).
      { unfold pc, process_ibtp. rewrite Hrq, Hnn. reflexivity. }
      unfold expected_index in Hidx. rewrite Hrq, Hnn in Hidx. simpl in Hidx.
      assert (Hnb : ~ begun t (b_id b)).
      { intro Hb. pose proof (b_begun_le _ _ _ I _ _ _ Hb) as Hle.
        pose proof (b_small _ _ _ I (b_from b) (b_to b)) as Hs.
        fold (IC c (b_from b) (b_to b)) in Hidx. rewrite wrap64_small in Hidx by (unfold B63, W64 in *; lia).
        simpl in Hle. lia. }
      assert (I' : BInv w t' (fst pc)).
      { rewrite Epc. apply (binv_request w t t' c (fst nc) b serial I Hsc GI' Hmono); auto.
        intros j Hj. destruct (Hnew j Hj) as [? | [? _]]; auto. }
      assert (Haf' : af = false).
      { rewrite Haf, Epc. destruct (req_step_rec_new (fst nc) b (get_rec c (b_from b)) serial) as [A B].
        unfold rec_missing. destruct (i_rec _ (b_from b)); [|contradiction]. destruct (i_rec _ (b_to b)); [|contradiction].
        apply andb_false_r. }
      rewrite Haf'. split; [exact I' | eapply HokDone; eauto].
    + (* a receipt or an inter-hub notice *)
      assert (Hbg : begun t (b_id b)).
      { destruct (is_request b) eqn:Hrq; [|apply Hresp; reflexivity].
        simpl in EA. apply negb_false_iff in EA. rewrite Hnotif in EA.
        destruct (is_notification_true _ _ _ _ _ Esf Esd EA) as [_ [_ Hreq]].
        destruct b as [bf bt bi bty bT bg bx]. unfold b_id in *. simpl in *.
        apply (b_le_begun _ _ _ I). apply (b_req_iff _ _ _ I). exact Hreq. }
      assert (Hnew' : forall j, begun t' j -> begun t j).
      { intros j Hj. destruct (Hnew j Hj) as [? | [-> _]]; auto. }
      assert (Hkids : forall k, In k (c_child ch) -> begun t k).
      { apply tm_step_inv in Et. inversion Et; subst; simpl; try tauto.
        - match goal with Hr : rp_change _ _ _ _ _ _ |- _ => inversion Hr; subst; simpl; try tauto end.
          intros k Hk. apply id_sort_in in Hk.
          match goal with Hc : cm_change _ _ _ _ _ |- _ =>
            pose proof (cm_keys _ _ _ _ _ ltac:(eassumption) Hc) as [Hkk _] end.
          rewrite Hkk in Hk. right.
          rewrite (g_glob_child _ _ _ I g gi k ltac:(assumption)); [discriminate|].
          apply child_lookup_keys. exact Hk. }
      assert (Hru : exists c2, fst pc = put_rcpt c2 (b_id b) serial /\ rc_update t c c2 /\
                               (forall k, i_rec (fst nc) k <> None -> i_rec c2 k <> None)).
      { unfold pc, process_ibtp. rewrite EA.
        destruct (is_final (c_cur ch)).
        - destruct (c_child ch) as [|k0 kr] eqn:Ek.
          + eexists. split; [reflexivity|]. split.
            * apply rc_update_set_dest; [exact Hsc|]. destruct b; exact Hbg.
            * intros k Hk. apply set_dest_rec_mono. exact Hk.
          + destruct (handle_multi (fst nc) (k0 :: kr)) as [c2 ok] eqn:Ehm.
            assert (Hatoi : forall k, In k (k0 :: kr) -> atoi_ok k = true).
            { intros [[kf kt] kx] Hk. apply Hkids in Hk.
              pose proof (b_begun_le _ _ _ I _ _ _ Hk) as Hle. pose proof (b_small _ _ _ I kf kt) as Hs.
              unfold atoi_ok, B63 in *. simpl. apply N.ltb_lt. lia. }
            destruct (handle_multi_spec (k0 :: kr) (fst nc) Hatoi) as [c2' [E2 [_ [_ [_ [_ [_ [Hmono2 _]]]]]]]].
            rewrite Ehm in E2. inversion E2; subst c2' ok.
            eexists. split; [reflexivity|]. split.
            * eapply rc_update_multi; eauto.
            * exact Hmono2.
        - eexists. split; [reflexivity|]. split; [apply rc_update_same; exact Hsc | auto]. }
      destruct Hru as [c2 [Epc [Hru Hrmono]]].
      assert (I' : BInv w t' (fst pc)).
      { rewrite Epc. apply (binv_response w t t' c c2 b serial I Hru GI' Hmono Hnew' Hbg). }
      assert (Haf' : af = false).
      { rewrite Haf, Epc. destruct b as [bf bt bi bty bT bg bx]. unfold b_id in *. simpl in *.
        destruct (binv_rec_exists _ _ _ _ _ _ I Hbg) as [A B].
        destruct Hsc as [Erec _]. rewrite <- Erec in A, B.
        apply Hrmono in A. apply Hrmono in B.
        unfold rec_missing. simpl. destruct (i_rec c2 bf); [|contradiction]. destruct (i_rec c2 bt); [|contradiction].
        apply andb_false_r. }
      rewrite Haf'. split; [exact I' | eapply HokDone; eauto].
Qed.

Corollary reject_frame w h serial b t c t' c' r :
  BInv w t c -> b_idx b < B63 ->
  handle_ibtp cfg_fixed w h serial b t c = Some (t', c', r) ->
  r_ok r = false -> t' = t /\ c' = c /\ r_chains r = [].
Proof.
  intros I Hs H Hr. destruct (binv_handle _ _ _ _ _ _ _ _ _ I Hs H) as [_ K].
  inversion K; subst; [auto | discriminate].
Qed.
