(** Proofs about [Model/ExecFrame.v]: what a FAILED transaction leaves behind, for every program. *)
From BX Require Import Base.Prelude Model.Fees Model.ExecFrame Proofs.FeesProofs.
From Coq Require Import ZifyBool ZifyN ZifyNat.
Local Open Scope Z_scope.

Lemma key_eqb_eq a b : key_eqb a b = true <-> a = b.
Proof.
  destruct a as [a1 a2], b as [b1 b2]. unfold key_eqb. simpl.
  rewrite andb_true_iff, !N.eqb_eq. split; [intros [-> ->]; reflexivity | intro H; inversion H; auto].
Qed.

Lemma key_eqb_refl a : key_eqb a a = true.
Proof. apply key_eqb_eq. reflexivity. Qed.

(** value restored by undoing a whole log: the [prev] of the OLDEST entry for the key *)
Fixpoint oldest_store (l : list undo) (k : key) : option (option N) :=
  match l with
  | [] => None
  | u :: t => match oldest_store t k with
              | Some p => Some p
              | None => match u with UStore k' p => if key_eqb k k' then Some p else None | _ => None end
              end
  end.

Fixpoint oldest_bal (l : list undo) (a : N) : option Z :=
  match l with
  | [] => None
  | u :: t => match oldest_bal t a with
              | Some p => Some p
              | None => match u with UBal a' p => if (a =? a')%N then Some p else None | _ => None end
              end
  end.

Fixpoint oldest_nonce (l : list undo) (a : N) : option N :=
  match l with
  | [] => None
  | u :: t => match oldest_nonce t a with
              | Some p => Some p
              | None => match u with UNonce a' p => if (a =? a')%N then Some p else None | _ => None end
              end
  end.

Lemma undo_list_store l : forall s k,
  store (undo_list l s) k = match oldest_store l k with Some p => p | None => store s k end.
Proof.
  induction l as [|u t IH]; intros s k; simpl; [reflexivity|].
  rewrite IH. destruct (oldest_store t k); [reflexivity|].
  destruct u; simpl; try reflexivity. unfold kset. destruct (key_eqb k k0); reflexivity.
Qed.

Lemma undo_list_bal l : forall s a,
  bal (undo_list l s) a = match oldest_bal l a with Some p => p | None => bal s a end.
Proof.
  induction l as [|u t IH]; intros s a; simpl; [reflexivity|].
  rewrite IH. destruct (oldest_bal t a); [reflexivity|].
  destruct u; simpl; try reflexivity. unfold bset. destruct (a =? a0)%N; reflexivity.
Qed.

Lemma undo_list_nonce l : forall s a,
  nonce (undo_list l s) a = match oldest_nonce l a with Some p => p | None => nonce s a end.
Proof.
  induction l as [|u t IH]; intros s a; simpl; [reflexivity|].
  rewrite IH. destruct (oldest_nonce t a); [reflexivity|].
  destruct u; simpl; try reflexivity. unfold nset. destruct (a =? a0)%N; reflexivity.
Qed.

(** the state a full revert would restore *)
Definition rstore (s : st) (k : key) : option N :=
  match oldest_store (log s) k with Some p => p | None => store s k end.
Definition rbal (s : st) (a : N) : Z :=
  match oldest_bal (log s) a with Some p => p | None => bal s a end.
Definition rnonce (s : st) (a : N) : N :=
  match oldest_nonce (log s) a with Some p => p | None => nonce s a end.

Lemma revert_all_store s k : store (revert_all s) k = rstore s k.
Proof. unfold revert_all, rstore. simpl. apply undo_list_store. Qed.
Lemma revert_all_bal s a : bal (revert_all s) a = rbal s a.
Proof. unfold revert_all, rbal. simpl. apply undo_list_bal. Qed.
Lemma revert_all_nonce s a : nonce (revert_all s) a = rnonce s a.
Proof. unfold revert_all, rnonce. simpl. apply undo_list_nonce. Qed.
Lemma revert_all_log s : log (revert_all s) = [].
Proof. reflexivity. Qed.

Lemma r_nolog_store s k : log s = [] -> rstore s k = store s k.
Proof. intro H. unfold rstore. rewrite H. reflexivity. Qed.
Lemma r_nolog_bal s a : log s = [] -> rbal s a = bal s a.
Proof. intro H. unfold rbal. rewrite H. reflexivity. Qed.
Lemma r_nolog_nonce s a : log s = [] -> rnonce s a = nonce s a.
Proof. intro H. unfold rnonce. rewrite H. reflexivity. Qed.

Lemma bal_finalise s : bal (finalise s) = bal s. Proof. reflexivity. Qed.
Lemma nonce_finalise s : nonce (finalise s) = nonce s. Proof. reflexivity. Qed.
Lemma store_finalise s : store (finalise s) = store s. Proof. reflexivity. Qed.

Section NoStale.
Variable c : xcfg.
Hypothesis Hst : d_stale_changer c = false.
Hypothesis Hpm : d_prev_from_memory c = false.
Hypothesis Htb : d_revert_drops_tombstone c = false.

Lemma jprev_fixed s k : jprev c s k = store s k.
Proof. unfold jprev. rewrite Hpm, Htb. simpl. destruct (store s k); reflexivity. Qed.

Ltac eff := unfold jstore, rawstore, setbal, setnonce, postev, peek, touch, live; rewrite ?Hst, ?jprev_fixed; simpl;
            repeat match goal with |- context [match loaded ?s ?a with _ => _ end] => destruct (loaded s a) end;
            simpl; try reflexivity.

Lemma store_touch s a : store (touch s a) = store s. Proof. eff. Qed.
Lemma bal_touch s a : bal (touch s a) = bal s. Proof. eff. Qed.
Lemma nonce_touch s a : nonce (touch s a) = nonce s. Proof. eff. Qed.
Lemma log_touch s a : log (touch s a) = log s. Proof. eff. Qed.
Lemma evs_touch s a : evs (touch s a) = evs s. Proof. eff. Qed.

Lemma store_peek s k : store (peek s k) = store s. Proof. eff. Qed.
Lemma bal_peek s k : bal (peek s k) = bal s. Proof. eff. Qed.
Lemma nonce_peek s k : nonce (peek s k) = nonce s. Proof. eff. Qed.
Lemma log_peek s k : log (peek s k) = log s. Proof. eff. Qed.

Lemma store_jstore s k v : store (jstore c s k v) = kset (store s) k v. Proof. eff. Qed.
Lemma bal_jstore s k v : bal (jstore c s k v) = bal s. Proof. eff. Qed.
Lemma nonce_jstore s k v : nonce (jstore c s k v) = nonce s. Proof. eff. Qed.
Lemma log_jstore s k v : log (jstore c s k v) = UStore k (store s k) :: log s.
Proof. unfold jstore. rewrite jprev_fixed. unfold live. rewrite Hst. simpl. unfold touch. destruct (loaded s (fst k)); reflexivity. Qed.

Lemma store_rawstore s k v : store (rawstore s k v) = kset (store s) k v. Proof. eff. Qed.
Lemma bal_rawstore s k v : bal (rawstore s k v) = bal s. Proof. eff. Qed.
Lemma nonce_rawstore s k v : nonce (rawstore s k v) = nonce s. Proof. eff. Qed.
Lemma log_rawstore s k v : log (rawstore s k v) = log s. Proof. eff. Qed.

Lemma store_setbal s a v : store (setbal c s a v) = store s. Proof. eff. Qed.
Lemma bal_setbal s a v : bal (setbal c s a v) = bset (bal s) a v. Proof. eff. Qed.
Lemma nonce_setbal s a v : nonce (setbal c s a v) = nonce s. Proof. eff. Qed.
Lemma log_setbal s a v : log (setbal c s a v) = UBal a (bal s a) :: log s. Proof. eff. Qed.

Lemma store_setnonce s a v : store (setnonce c s a v) = store s. Proof. eff. Qed.
Lemma bal_setnonce s a v : bal (setnonce c s a v) = bal s. Proof. eff. Qed.
Lemma nonce_setnonce s a v : nonce (setnonce c s a v) = nset (nonce s) a v. Proof. eff. Qed.

(** how each effect changes the would-be-restored state *)
Lemma rstore_touch s a k : rstore (touch s a) k = rstore s k.
Proof. unfold rstore. rewrite log_touch, store_touch. reflexivity. Qed.
Lemma rbal_touch s a x : rbal (touch s a) x = rbal s x.
Proof. unfold rbal. rewrite log_touch, bal_touch. reflexivity. Qed.
Lemma rnonce_touch s a x : rnonce (touch s a) x = rnonce s x.
Proof. unfold rnonce. rewrite log_touch, nonce_touch. reflexivity. Qed.

Lemma rstore_peek s kk k : rstore (peek s kk) k = rstore s k.
Proof. unfold rstore. rewrite log_peek, store_peek. reflexivity. Qed.
Lemma rbal_peek s kk x : rbal (peek s kk) x = rbal s x.
Proof. unfold rbal. rewrite log_peek, bal_peek. reflexivity. Qed.
Lemma rnonce_peek s kk x : rnonce (peek s kk) x = rnonce s x.
Proof. unfold rnonce. rewrite log_peek, nonce_peek. reflexivity. Qed.

Lemma rstore_jstore s k v k0 : rstore (jstore c s k v) k0 = rstore s k0.
Proof.
  unfold rstore. rewrite log_jstore, store_jstore. simpl.
  destruct (oldest_store (log s) k0); [reflexivity|].
  unfold kset. destruct (key_eqb k0 k) eqn:K; [|reflexivity].
  apply key_eqb_eq in K. subst. reflexivity.
Qed.
Lemma rbal_jstore s k v x : rbal (jstore c s k v) x = rbal s x.
Proof. unfold rbal. rewrite log_jstore, bal_jstore. simpl. destruct (oldest_bal (log s) x); reflexivity. Qed.
Lemma rnonce_jstore s k v x : rnonce (jstore c s k v) x = rnonce s x.
Proof. unfold rnonce. rewrite log_jstore, nonce_jstore. simpl. destruct (oldest_nonce (log s) x); reflexivity. Qed.

Lemma rstore_rawstore s k v k0 :
  rstore (rawstore s k v) k0 = rstore s k0 \/ (k0 = k /\ rstore (rawstore s k v) k0 = v).
Proof.
  unfold rstore. rewrite log_rawstore, store_rawstore.
  destruct (oldest_store (log s) k0); [left; reflexivity|].
  unfold kset. destruct (key_eqb k0 k) eqn:K; [|left; reflexivity].
  apply key_eqb_eq in K. right. auto.
Qed.
Lemma rbal_rawstore s k v x : rbal (rawstore s k v) x = rbal s x.
Proof. unfold rbal. rewrite log_rawstore, bal_rawstore. reflexivity. Qed.
Lemma rnonce_rawstore s k v x : rnonce (rawstore s k v) x = rnonce s x.
Proof. unfold rnonce. rewrite log_rawstore, nonce_rawstore. reflexivity. Qed.

Lemma rstore_rawadd s k v k0 :
  rstore (rawadd c s k v) k0 = rstore s k0 \/
  (d_raw_add c = true /\ k0 = k /\ rstore (rawadd c s k v) k0 = Some v).
Proof.
  unfold rawadd. destruct (d_raw_add c).
  - destruct (rstore_rawstore s k (Some v) k0) as [H|[H1 H2]]; [left; exact H | right; auto].
  - left. apply rstore_jstore.
Qed.
Lemma rbal_rawadd s k v x : rbal (rawadd c s k v) x = rbal s x.
Proof. unfold rawadd. destruct (d_raw_add c); [apply rbal_rawstore | apply rbal_jstore]. Qed.
Lemma rnonce_rawadd s k v x : rnonce (rawadd c s k v) x = rnonce s x.
Proof. unfold rawadd. destruct (d_raw_add c); [apply rnonce_rawstore | apply rnonce_jstore]. Qed.

Lemma rstore_setbal s a v k : rstore (setbal c s a v) k = rstore s k.
Proof. unfold rstore. rewrite log_setbal, store_setbal. simpl. destruct (oldest_store (log s) k); reflexivity. Qed.
Lemma rbal_setbal s a v x : rbal (setbal c s a v) x = rbal s x.
Proof.
  unfold rbal. rewrite log_setbal, bal_setbal. simpl.
  destruct (oldest_bal (log s) x); [reflexivity|].
  unfold bset. destruct (N.eqb_spec x a); [subst; reflexivity | reflexivity].
Qed.
Lemma rnonce_setbal s a v x : rnonce (setbal c s a v) x = rnonce s x.
Proof. unfold rnonce. rewrite log_setbal, nonce_setbal. simpl. destruct (oldest_nonce (log s) x); reflexivity. Qed.

Lemma rstore_postev s i e k : rstore (postev s i e) k = rstore s k. Proof. reflexivity. Qed.
Lemma rbal_postev s i e x : rbal (postev s i e) x = rbal s x. Proof. reflexivity. Qed.
Lemma rnonce_postev s i e x : rnonce (postev s i e) x = rnonce s x. Proof. reflexivity. Qed.

(** relation between the would-be-restored states before and after running a program *)
Definition rrel (l : list (key * N)) (s s' : st) : Prop :=
  (forall a, rbal s' a = rbal s a) /\ (forall a, rnonce s' a = rnonce s a) /\
  (forall k, rstore s' k = rstore s k \/
             (d_raw_add c = true /\ exists v, In (k, v) l /\ rstore s' k = Some v)).

Lemma rrel_refl l s : rrel l s s.
Proof. repeat split; auto. Qed.

Lemma rrel_step l s s1 s' :
  (forall a, rbal s1 a = rbal s a) -> (forall a, rnonce s1 a = rnonce s a) ->
  (forall k, rstore s1 k = rstore s k) -> rrel l s1 s' -> rrel l s s'.
Proof.
  intros Hb Hn Hs [Hb' [Hn' Hs']]. split; [|split].
  - intro a. rewrite Hb', Hb. reflexivity.
  - intro a. rewrite Hn', Hn. reflexivity.
  - intro k. destruct (Hs' k) as [H|H]; [left; rewrite H; apply Hs | right; exact H].
Qed.

Lemma rrel_trans l1 l2 s s1 s' : rrel l1 s s1 -> rrel l2 s1 s' -> rrel (l1 ++ l2) s s'.
Proof.
  intros [Hb [Hn Hs]] [Hb' [Hn' Hs']]. split; [|split].
  - intro a. rewrite Hb', Hb. reflexivity.
  - intro a. rewrite Hn', Hn. reflexivity.
  - intro k. destruct (Hs' k) as [H|[F [v [Hi Hv]]]].
    + destruct (Hs k) as [H1|[F [v [Hi Hv]]]].
      * left. rewrite H, H1. reflexivity.
      * right. split; [exact F|]. exists v. split; [apply in_or_app; left; exact Hi | rewrite H; exact Hv].
    + right. split; [exact F|]. exists v. split; [apply in_or_app; right; exact Hi | exact Hv].
Qed.

Lemma run_rrel p : forall cx s s' r, run c cx p s = (s', r) -> rrel (raws c cx p s) s s'.
Proof.
  induction p as [| t | | a k IH | pk k IH | kk v k IH | kk k IH | kk v k IH | a v k IH | e k IH | callee inner IHi kok IHo kerr IHe];
    intros cx s s' r H; simpl in H; simpl raws.
  - inversion H; subst. apply rrel_refl.
  - inversion H; subst. apply rrel_refl.
  - inversion H; subst. apply rrel_refl.
  - apply IH in H. eapply rrel_step; [| | | exact H]; intros; [apply rbal_touch | apply rnonce_touch | apply rstore_touch].
  - apply IH in H. eapply rrel_step; [| | | exact H]; intros; [apply rbal_peek | apply rnonce_peek | apply rstore_peek].
  - apply IH in H. eapply rrel_step; [| | | exact H]; intros; [apply rbal_jstore | apply rnonce_jstore | apply rstore_jstore].
  - apply IH in H. eapply rrel_step; [| | | exact H]; intros; [apply rbal_jstore | apply rnonce_jstore | apply rstore_jstore].
  - apply IH in H. destruct H as [Hb [Hn Hs]]. split; [|split].
    + intro a. rewrite Hb. apply rbal_rawadd.
    + intro a. rewrite Hn. apply rnonce_rawadd.
    + intro k0. destruct (Hs k0) as [H|[F [v' [Hi Hv]]]].
      * destruct (rstore_rawadd s kk v k0) as [H1|[F [-> H2]]].
        -- left. rewrite H, H1. reflexivity.
        -- right. split; [exact F|]. exists v. split; [left; reflexivity | rewrite H; exact H2].
      * right. split; [exact F|]. exists v'. split; [right; exact Hi | exact Hv].
  - apply IH in H. eapply rrel_step; [| | | exact H]; intros; [apply rbal_setbal | apply rnonce_setbal | apply rstore_setbal].
  - apply IH in H. eapply rrel_step; [| | | exact H]; intros; reflexivity.
  - destruct (run c (callee_ctx c cx) inner s) as [s1 r1] eqn:E1.
    apply IHi in E1. destruct r1.
    + apply IHo in H. eapply rrel_trans; eassumption.
    + apply IHe in H. eapply rrel_trans; eassumption.
Qed.

Lemma do_transfer_rrel s from to v s' r : do_transfer c s from to v = (s', r) -> rrel [] s s'.
Proof.
  unfold do_transfer. destruct (v =? 0); [intro H; inversion H; apply rrel_refl|].
  destruct ((v <? 0) && negb (d_neg_amount (x_fees c))); [intro H; inversion H; apply rrel_refl|].
  destruct (bal (touch s from) from <? v).
  - intro H; inversion H; subst. repeat split; intros; [apply rbal_touch | apply rnonce_touch | left; apply rstore_touch].
  - intro H; inversion H; subst. clear H. repeat split; intros.
    + rewrite !rbal_setbal, !rbal_touch. reflexivity.
    + rewrite !rnonce_setbal, !rnonce_touch. reflexivity.
    + left. rewrite !rstore_setbal, !rstore_touch. reflexivity.
Qed.

(** fee payment only writes balances *)
Lemma store_pay_each_s adm : forall s fee, store (pay_each_s c s adm fee) = store s.
Proof. induction adm as [|a t IH]; intros s fee; simpl; [reflexivity|]. rewrite IH. apply store_setbal. Qed.
Lemma nonce_pay_each_s adm : forall s fee, nonce (pay_each_s c s adm fee) = nonce s.
Proof. induction adm as [|a t IH]; intros s fee; simpl; [reflexivity|]. rewrite IH. apply nonce_setbal. Qed.
Lemma bal_pay_each_s adm : forall s fee, bal (pay_each_s c s adm fee) = pay_each (bal s) adm fee.
Proof. induction adm as [|a t IH]; intros s fee; simpl; [reflexivity|]. rewrite IH, bal_setbal. reflexivity. Qed.

Lemma pay_each_ext adm : forall b b' fee, (forall a, b a = b' a) ->
  forall a, pay_each b adm fee a = pay_each b' adm fee a.
Proof.
  induction adm as [|x t IH]; intros b b' fee H a; simpl; [apply H|].
  apply IH. intro y. unfold bset. destruct (y =? x)%N; [rewrite H; reflexivity | apply H].
Qed.

Lemma bset_ext b b' a v : (forall x, b x = b' x) -> forall x, bset b a v x = bset b' a v x.
Proof. intros H x. unfold bset. destruct (x =? a)%N; [reflexivity | apply H]. Qed.

Definition body_raws (idx : N) (t : tx) (s0 : st) : list (key * N) :=
  if tx_invalid t then []
  else match tx_kind t with
       | KBvm body | KIbtp body => raws c (top_ctx idx t) (body s0) s0
       | _ => []
       end.

Lemma rrel_revert l s s' : rrel l s s' -> rrel l s (revert_all s').
Proof.
  intros [Hb [Hn Hs]]. split; [|split].
  - intro a. rewrite r_nolog_bal by reflexivity. rewrite revert_all_bal. apply Hb.
  - intro a. rewrite r_nolog_nonce by reflexivity. rewrite revert_all_nonce. apply Hn.
  - intro k. rewrite r_nolog_store by reflexivity. rewrite revert_all_store. apply Hs.
Qed.

Lemma tx_body_rrel idx t s0 s1 res : tx_body c idx s0 t = (s1, res) ->
  rrel (body_raws idx t s0) s0 s1 /\
  (is_ok res = false -> tx_invalid t = true \/ is_ibtp t = false \/ d_ibtp_no_revert c = false -> log s0 = [] -> log s1 = []).
Proof.
  unfold tx_body, body_raws, is_ibtp. destruct (tx_invalid t).
  { intro H; inversion H; subst. split; [apply rrel_refl | auto]. }
  destruct (tx_kind t) as [to amt | body | body |].
  - destruct (do_transfer c s0 (tx_from t) to (parse_amount amt)) as [s' r] eqn:E.
    apply do_transfer_rrel in E. intro H; inversion H; subst. destruct res; simpl.
    + split; [exact E | discriminate].
    + split; [apply rrel_revert; exact E | reflexivity].
  - destruct (run c (top_ctx idx t) (body s0) s0) as [s' r] eqn:E. apply run_rrel in E.
    intro H; inversion H; subst. destruct res; simpl.
    + split; [exact E | discriminate].
    + split; [apply rrel_revert; exact E | reflexivity].
  - destruct (run c (top_ctx idx t) (body s0) s0) as [s' r] eqn:E. apply run_rrel in E.
    intro H; inversion H; subst. destruct res; simpl.
    + split; [exact E | discriminate].
    + destruct (d_ibtp_no_revert c).
      * split; [exact E | intros _ [F|[F|F]]; discriminate].
      * split; [apply rrel_revert; exact E | reflexivity].
  - intro H; inversion H; subst. split; [apply rrel_refl | auto].
Qed.

Lemma fee_phase_failed e s s1 t res s2 :
  d_fee_after_body (x_fees c) = false ->
  (forall a, rbal s1 a = bal s a) -> (forall a, rnonce s1 a = nonce s a) ->
  (is_ok res = false -> log s1 = []) ->
  fee_phase c e s1 t res = (s2, false) ->
  (forall a, bal s2 a = spec_bal e s t a) /\
  (forall a, nonce s2 a = nonce s a) /\
  (forall k, store s2 k = rstore s1 k).
Proof.
  intros Hfab Hb0 Hn0 Hlog. unfold fee_phase, spec_bal.
  set (from := tx_from t). set (fees := gas_of t * price e).
  remember (touch s1 from) as s1t eqn:E1t.
  remember (revert_all s1t) as x eqn:Ex.
  assert (Hx : forall a, bal x a = bal s a)
    by (intro a; subst x s1t; rewrite revert_all_bal, rbal_touch; apply Hb0).
  assert (Hxn : forall a, nonce x a = nonce s a)
    by (intro a; subst x s1t; rewrite revert_all_nonce, rnonce_touch; apply Hn0).
  assert (Hxs : forall k, store x k = rstore s1 k)
    by (intro k; subst x s1t; rewrite revert_all_store, rstore_touch; reflexivity).
  destruct (Z.ltb_spec (bal s1t from) fees) as [Hlt|Hge].
  - rewrite Hfab. cbn [negb andb]. rewrite (Hx from).
    destruct (Z.ltb_spec (bal s from) fees) as [Hlt2|Hge2]; cbn [negb];
      intro H; inversion H; subst s2; clear H; (split; [|split]).
    + intro a. unfold pay_admins_s. rewrite bal_pay_each_s, bal_setbal.
      unfold pay_left, pay_admins. apply pay_each_ext. apply bset_ext. exact Hx.
    + intro a. unfold pay_admins_s. rewrite nonce_pay_each_s, nonce_setbal. apply Hxn.
    + intro k. unfold pay_admins_s. rewrite store_pay_each_s, store_setbal. apply Hxs.
    + intro a. unfold pay_admins_s. rewrite bal_pay_each_s, bal_setbal.
      unfold pay_admins. apply pay_each_ext. apply bset_ext. exact Hx.
    + intro a. unfold pay_admins_s. rewrite nonce_pay_each_s, nonce_setbal. apply Hxn.
    + intro k. unfold pay_admins_s. rewrite store_pay_each_s, store_setbal. apply Hxs.
  - intro H; inversion H as [[H2 Hok]]; clear H.
    assert (Hl : log s1 = []) by (apply Hlog; exact Hok).
    assert (Hy : forall a, bal s1t a = bal s a)
      by (intro a; subst s1t; rewrite bal_touch, <- (r_nolog_bal s1 a Hl); apply Hb0).
    rewrite (Hy from) in Hge. destruct (Z.ltb_spec (bal s from) fees); [lia|].
    split; [|split].
    + intro a. unfold pay_admins_s. rewrite bal_pay_each_s, bal_setbal.
      unfold pay_admins. rewrite (Hy from). apply pay_each_ext. apply bset_ext. exact Hy.
    + intro a. unfold pay_admins_s. rewrite nonce_pay_each_s, nonce_setbal.
      subst s1t. rewrite nonce_touch, <- (r_nolog_nonce s1 a Hl). apply Hn0.
    + intro k. unfold pay_admins_s. rewrite store_pay_each_s, store_setbal.
      subst s1t. rewrite store_touch. symmetry. apply r_nolog_store. exact Hl.
Qed.

(** what a FAILED transaction leaves behind (any program, any position, any state) *)
Theorem failed_characterised e idx s t s' rc cnt :
  d_fee_after_body (x_fees c) = false ->
  tx_invalid t = true \/ is_ibtp t = false \/ d_ibtp_no_revert c = false ->
  apply_tx c e idx s t = (s', rc, cnt) -> r_ok rc = false ->
  (forall a, bal s' a = spec_bal e s t a) /\
  (forall a, nonce s' a = spec_nonce s t a) /\
  (forall k, store s' k = store s k \/
             (d_raw_add c = true /\ exists v, In (k, v) (tx_raws c idx s t) /\ store s' k = Some v)).
Proof.
  intros Hfab Hib. unfold apply_tx.
  destruct (tx_body c idx (clear_frame s) t) as [s1 res] eqn:Eb.
  destruct (tx_body_rrel idx t (clear_frame s) s1 res Eb) as [[Hb [Hn Hs]] Hlog].
  destruct (fee_phase c e s1 t res) as [s2 ok] eqn:Ef.
  intro H; inversion H; subst; clear H. cbn [r_ok]. intros ->.
  destruct (fee_phase_failed e s s1 t res s2 Hfab) as [Hb2 [Hn2 Hs2]];
    [intro a; rewrite Hb; reflexivity | intro a; rewrite Hn; reflexivity
     | intro Hok; apply Hlog; [exact Hok | exact Hib | reflexivity] | exact Ef |].
  split; [|split].
  - intro a. rewrite bal_finalise, bal_setnonce. apply Hb2.
  - intro a. rewrite nonce_finalise, nonce_setnonce. unfold spec_nonce, nset.
    destruct (a =? tx_from t)%N; [reflexivity | apply Hn2].
  - intro k. rewrite store_finalise, store_setnonce, Hs2.
    destruct (Hs k) as [H|H]; [left; rewrite H; reflexivity | right; exact H].
Qed.

Theorem failed_frame_generic e idx s t s' rc cnt :
  d_fee_after_body (x_fees c) = false ->
  tx_invalid t = true \/ is_ibtp t = false \/ d_ibtp_no_revert c = false ->
  d_raw_add c = false \/ tx_raws c idx s t = [] ->
  apply_tx c e idx s t = (s', rc, cnt) -> r_ok rc = false ->
  frame_ok e s s' t.
Proof.
  intros Hf Hi Hr Ha Hok.
  destruct (failed_characterised e idx s t s' rc cnt Hf Hi Ha Hok) as [Hb [Hn Hs]].
  split; [|split; assumption].
  intro k. destruct (Hs k) as [H|[F [v [Hin _]]]]; [exact H|].
  destruct Hr as [Hr|Hr]; [congruence | rewrite Hr in Hin; destruct Hin].
Qed.

(** a transaction rejected before execution (bad signature, unverified proof) never runs its
    body: FAILED, and only nonce and fee remain - whatever the other flags *)
Theorem invalid_tx_frame e idx s t s' rc cnt :
  d_fee_after_body (x_fees c) = false -> tx_invalid t = true ->
  apply_tx c e idx s t = (s', rc, cnt) -> r_ok rc = false /\ frame_ok e s s' t.
Proof.
  intros Hf Hinv Ha.
  assert (Hok : r_ok rc = false).
  { revert Ha. unfold apply_tx, tx_body. rewrite Hinv. unfold fee_phase.
    destruct (bal (touch (clear_frame s) (tx_from t)) (tx_from t) <? gas_of t * price e).
    - destruct (negb (d_fee_after_body (x_fees c)) && _); intro H; inversion H; reflexivity.
    - intro H; inversion H; reflexivity. }
  split; [exact Hok|].
  eapply failed_frame_generic; [exact Hf | left; exact Hinv | right; unfold tx_raws; rewrite Hinv; reflexivity | exact Ha | exact Hok].
Qed.

End NoStale.

(** a FAILED receipt contributes nothing to Counter (repaired behaviour) *)
Theorem failed_not_delivered c e idx s t s' rc cnt :
  d_failed_events c = false -> apply_tx c e idx s t = (s', rc, cnt) -> r_ok rc = false -> cnt = [].
Proof.
  intros Hf. unfold apply_tx.
  destruct (tx_body c idx (clear_frame s) t) as [s1 res].
  destruct (fee_phase c e s1 t res) as [s2 ok].
  intro H; inversion H; subst. cbn [r_ok]. intros ->. rewrite Hf. reflexivity.
Qed.

(** ---- the index an interchain event is stamped with ---- *)

Lemma evs_touch_g s a : evs (touch s a) = evs s.
Proof. unfold touch. destruct (loaded s a); reflexivity. Qed.
Lemma evs_peek_g s k : evs (peek s k) = evs s.
Proof. unfold peek. cbn [evs]. apply evs_touch_g. Qed.
Lemma evs_jstore_g c s k v : evs (jstore c s k v) = evs s.
Proof. unfold jstore. cbn [evs]. apply evs_touch_g. Qed.
Lemma evs_rawadd_g c s k v : evs (rawadd c s k v) = evs s.
Proof. unfold rawadd. destruct (d_raw_add c); [unfold rawstore; cbn [evs]; apply evs_touch_g | apply evs_jstore_g]. Qed.
Lemma evs_setbal_g c s a v : evs (setbal c s a v) = evs s.
Proof. unfold setbal. cbn [evs]. apply evs_touch_g. Qed.
Lemma evs_setnonce_g c s a v : evs (setnonce c s a v) = evs s.
Proof. unfold setnonce. cbn [evs]. apply evs_touch_g. Qed.
Lemma evs_undo_list l : forall s, evs (undo_list l s) = evs s.
Proof. induction l as [|u t IH]; intro s; simpl; [reflexivity|]. rewrite IH. destruct u; reflexivity. Qed.
Lemma evs_revert_all s : evs (revert_all s) = evs s.
Proof. unfold revert_all. cbn [evs]. apply evs_undo_list. Qed.
Lemma evs_pay_each_s c adm : forall s fee, evs (pay_each_s c s adm fee) = evs s.
Proof. induction adm as [|a t IH]; intros s fee; simpl; [reflexivity|]. rewrite IH. apply evs_setbal_g. Qed.

(** a contract body run in context [cx] only appends events, and - when CrossInvoke hands the
    caller's transaction index to the callee - every appended event carries [cx_index cx], however
    deeply nested the posting contract is and whatever the inner frames return *)
Lemma run_events_index c : d_cross_index_nonce c = false ->
  forall p cx s s' r, run c cx p s = (s', r) ->
  exists l, evs s' = evs s ++ l /\ Forall (fun ie : N * event => fst ie = cx_index cx) l.
Proof.
  intros Hx p.
  induction p as [| t | | a k IH | pk k IH | kk v k IH | kk k IH | kk v k IH | a v k IH | e k IH | callee inner IHi kok IHo kerr IHe];
    intros cx s s' r H; simpl in H.
  - inversion H; subst. exists []. rewrite app_nil_r. split; [reflexivity | constructor].
  - inversion H; subst. exists []. rewrite app_nil_r. split; [reflexivity | constructor].
  - inversion H; subst. exists []. rewrite app_nil_r. split; [reflexivity | constructor].
  - destruct (IH _ _ _ _ H) as [l [E F]]. exists l. rewrite E, evs_touch_g. split; [reflexivity | exact F].
  - destruct (IH _ _ _ _ H) as [l [E F]]. exists l. rewrite E, evs_peek_g. split; [reflexivity | exact F].
  - destruct (IH _ _ _ _ H) as [l [E F]]. exists l. rewrite E, evs_jstore_g. split; [reflexivity | exact F].
  - destruct (IH _ _ _ _ H) as [l [E F]]. exists l. rewrite E, evs_jstore_g. split; [reflexivity | exact F].
  - destruct (IH _ _ _ _ H) as [l [E F]]. exists l. rewrite E, evs_rawadd_g. split; [reflexivity | exact F].
  - destruct (IH _ _ _ _ H) as [l [E F]]. exists l. rewrite E, evs_setbal_g. split; [reflexivity | exact F].
  - destruct (IH _ _ _ _ H) as [l [E F]]. exists ((cx_index cx, e) :: l). rewrite E. unfold postev. cbn [evs].
    rewrite <- app_assoc. split; [reflexivity | constructor; [reflexivity | exact F]].
  - destruct (run c (callee_ctx c cx) inner s) as [s1 r1] eqn:E1.
    destruct (IHi _ _ _ _ E1) as [l1 [El1 F1]].
    assert (Hci : cx_index (callee_ctx c cx) = cx_index cx) by (unfold callee_ctx; rewrite Hx; reflexivity).
    rewrite Hci in F1.
    destruct r1; [destruct (IHo _ _ _ _ H) as [l2 [El2 F2]] | destruct (IHe _ _ _ _ H) as [l2 [El2 F2]]];
      (exists (l1 ++ l2); rewrite El2, El1, <- app_assoc; split; [reflexivity | apply Forall_app; split; assumption]).
Qed.

Lemma harvest_idx valid l x idx : Forall (fun ie : N * event => fst ie = idx) l ->
  In x (harvest valid l) -> fst (fst (snd x)) = idx.
Proof.
  intros F. unfold harvest. rewrite in_flat_map. intros [[i ev] [Hin H]]. cbn [fst snd] in H.
  rewrite Forall_forall in F. specialize (F _ Hin). cbn [fst] in F.
  destruct ev; [|destruct H]. apply in_map_iff in H. destruct H as [d [<- _]]. cbn [fst snd]. exact F.
Qed.

(** every Counter entry a transaction contributes names THAT transaction's position in the block -
    also when the event was posted by a cross-invoked contract *)
Theorem counter_entries_own_index c e idx s t s' rc cnt :
  d_cross_index_nonce c = false ->
  apply_tx c e idx s t = (s', rc, cnt) ->
  forall x, In x cnt -> fst (fst (snd x)) = idx.
Proof.
  intros Hx. unfold apply_tx.
  destruct (tx_body c idx (clear_frame s) t) as [s1 res] eqn:Eb.
  destruct (fee_phase c e s1 t res) as [s2 ok] eqn:Ef.
  intro H; inversion H; subst; clear H.
  assert (Hb : Forall (fun ie : N * event => fst ie = idx) (evs s1)).
  { revert Eb. unfold tx_body. destruct (tx_invalid t); [intro H; inversion H; subst; constructor|].
    destruct (tx_kind t) as [to amt | body | body |].
    - destruct (do_transfer c (clear_frame s) (tx_from t) to (parse_amount amt)) as [sx r] eqn:E.
      assert (He : evs sx = []).
      { revert E. unfold do_transfer. destruct (parse_amount amt =? 0); [intro H; inversion H; reflexivity|].
        destruct ((parse_amount amt <? 0) && negb (d_neg_amount (x_fees c))); [intro H; inversion H; reflexivity|].
        destruct (bal (touch (clear_frame s) (tx_from t)) (tx_from t) <? parse_amount amt);
          intro H; inversion H; subst; rewrite ?evs_setbal_g, ?evs_touch_g; reflexivity. }
      intro H; inversion H; subst. destruct res; rewrite ?evs_revert_all, He; constructor.
    - destruct (run c (top_ctx idx t) (body (clear_frame s)) (clear_frame s)) as [sx r] eqn:E.
      destruct (run_events_index c Hx _ _ _ _ _ E) as [l [El F]].
      intro H; inversion H; subst. destruct res; rewrite ?evs_revert_all, El; exact F.
    - destruct (run c (top_ctx idx t) (body (clear_frame s)) (clear_frame s)) as [sx r] eqn:E.
      destruct (run_events_index c Hx _ _ _ _ _ E) as [l [El F]].
      intro H; inversion H; subst. destruct res; [rewrite El; exact F|].
      destruct (d_ibtp_no_revert c); rewrite ?evs_revert_all, El; exact F.
    - intro H; inversion H; subst. constructor. }
  assert (He2 : evs s2 = evs s1).
  { revert Ef. unfold fee_phase.
    destruct (bal (touch s1 (tx_from t)) (tx_from t) <? gas_of t * price e).
    - destruct (negb (d_fee_after_body (x_fees c)) && _); intro H; inversion H; subst;
        unfold pay_admins_s; rewrite evs_pay_each_s, evs_setbal_g, evs_revert_all, evs_touch_g; reflexivity.
    - intro H; inversion H; subst. unfold pay_admins_s. rewrite evs_pay_each_s, evs_setbal_g, evs_touch_g. reflexivity. }
  intros x Hin. destruct (negb ok && negb (d_failed_events c)); [destruct Hin|].
  refine (harvest_idx _ _ x idx _ Hin). rewrite evs_touch_g, He2. exact Hb.
Qed.

(** ... hence, with the repaired harvesting, every entry names a transaction whose receipt is
    SUCCESS or the one kept exception (target appchain not available, announced as invalid) *)

(** read-only execution leaves the ledger untouched *)
Theorem view_pure c e s t : fst (view_tx c e s t) = s.
Proof. unfold view_tx. destruct (apply_tx c e 0%N (new_block s []) t) as [[s' r] cn]. reflexivity. Qed.

(** one receipt per transaction, in order; positions of a block decompose *)
Lemma apply_txs_length c e : forall ts idx s s' rcs cn,
  apply_txs c e idx s ts = (s', rcs, cn) -> length rcs = length ts.
Proof.
  induction ts as [|t r IH]; intros idx s s' rcs cn; simpl.
  - intro H; inversion H; reflexivity.
  - destruct (apply_tx c e idx s t) as [[s1 rc] c1].
    destruct (apply_txs c e (N.succ idx) s1 r) as [[s2 rcs2] c2] eqn:E.
    intro H; inversion H; subst. simpl. f_equal. eapply IH. exact E.
Qed.

Lemma apply_txs_app c e : forall p idx s q,
  apply_txs c e idx s (p ++ q) =
  let '(s1, r1, c1) := apply_txs c e idx s p in
  let '(s2, r2, c2) := apply_txs c e (idx + N.of_nat (length p))%N s1 q in
  (s2, r1 ++ r2, c1 ++ c2).
Proof.
  induction p as [|t p IH]; intros idx s q; simpl.
  - rewrite N.add_0_r. destruct (apply_txs c e idx s q) as [[s2 r2] c2]. reflexivity.
  - destruct (apply_tx c e idx s t) as [[s1 rc] c1]. rewrite IH.
    destruct (apply_txs c e (N.succ idx) s1 p) as [[s2 r2] c2].
    replace (N.succ idx + N.of_nat (length p))%N with (idx + N.pos (Pos.of_succ_nat (length p)))%N by lia.
    destruct (apply_txs c e (idx + N.pos (Pos.of_succ_nat (length p))) s2 q) as [[s3 r3] c3].
    rewrite app_assoc. reflexivity.
Qed.

(** the announcements of a whole block: with the repaired harvesting and CrossInvoke handing down
    the caller's index, every Counter entry names a position of THIS block whose receipt is
    SUCCESS - never a FAILED transaction, never a position outside the block *)
Theorem block_counter_sound c e : d_failed_events c = false -> d_cross_index_nonce c = false ->
  forall ts idx s s' rcs cnt, apply_txs c e idx s ts = (s', rcs, cnt) ->
  forall x, In x cnt ->
  exists j, (j < length ts)%nat /\ fst (fst (snd x)) = (idx + N.of_nat j)%N /\ nth j (map r_ok rcs) false = true.
Proof.
  intros Hfe Hx ts. induction ts as [|t r IH]; intros idx s s' rcs cnt; simpl.
  - intro H; inversion H; subst. intros x [].
  - destruct (apply_tx c e idx s t) as [[s1 rc] c1] eqn:E1.
    destruct (apply_txs c e (N.succ idx) s1 r) as [[s2 rcs2] c2] eqn:E2.
    intro H; inversion H; subst; clear H. intros x Hin. apply in_app_or in Hin. destruct Hin as [Hin|Hin].
    + exists 0%nat. split; [lia|]. split.
      * rewrite (counter_entries_own_index c e idx s t s1 rc c1 Hx E1 x Hin). simpl. lia.
      * simpl. destruct (r_ok rc) eqn:Er; [reflexivity|].
        rewrite (failed_not_delivered c e idx s t s1 rc c1 Hfe E1 Er) in Hin. destruct Hin.
    + destruct (IH _ _ _ _ _ E2 x Hin) as [j [Hj [Hi Hr]]]. exists (S j). split; [lia|]. split; [|exact Hr].
      rewrite Hi. rewrite Nat2N.inj_succ. lia.
Qed.

(** the frame property at every position of a block: for the transaction at position
    [length p] of [p ++ t :: q] the theorem above applies to the state reached after [p] *)
Theorem block_position_frame c e s pre p t :
  d_stale_changer c = false -> d_prev_from_memory c = false -> d_revert_drops_tombstone c = false ->
  d_fee_after_body (x_fees c) = false ->
  tx_invalid t = true \/ is_ibtp t = false \/ d_ibtp_no_revert c = false ->
  let '(si, _, _) := apply_txs c e 0%N (new_block s pre) p in
  let '(si', rc, _) := apply_tx c e (N.of_nat (length p)) si t in
  d_raw_add c = false \/ tx_raws c (N.of_nat (length p)) si t = [] ->
  r_ok rc = false -> frame_ok e si si' t.
Proof.
  intros Hs Hpm Htb Hf Hi.
  destruct (apply_txs c e 0%N (new_block s pre) p) as [[si r1] c1].
  destruct (apply_tx c e (N.of_nat (length p)) si t) as [[si' rc] c2] eqn:E.
  intros Hr Hok. eapply failed_frame_generic; eassumption.
Qed.

(** ------------------------------------------------------------------------------------ *)
(** refutations on the faithful behaviour: one concrete witness per defect flag *)

Definition only (f : xcfg -> xcfg) : xcfg := f xcfg_fixed.
Definition env1 : fenv := {| admins := [1000%N; 1001%N]; price := 0; genesis_bal := 1000 |}.
Definition env_fee : fenv := {| admins := [1000%N; 1001%N]; price := 1; genesis_bal := 1000 |}.
Definition s_empty : st := mkSt (fun _ => None) (fun _ => 0) (fun _ => 0%N) (fun _ => None) 0%N [] [] (fun _ => true) (fun _ => None).
Definition s_rich : st := mkSt (fun _ => None) (of_alist [(1%N, 100000)]) (fun _ => 0%N) (fun _ => None) 0%N [] [] (fun _ => true) (fun _ => None).
Definition kA : key := (2001%N, 1%N).
Definition kB : key := (2001%N, 2%N).
Definition mk_tx from n k := {| tx_from := from; tx_nonce := n; tx_kind := k; tx_invalid := false |}.

Definition cfg_raw := {| d_raw_add := true; d_stub_promoted := false; d_ibtp_no_revert := false; d_failed_events := false;
                        d_stale_changer := false; d_prev_from_memory := false; d_revert_drops_tombstone := false; d_cross_index_nonce := false; x_fees := {| d_self_transfer := false; d_neg_amount := false; d_fee_after_body := false |} |}.
Definition cfg_stub := {| d_raw_add := true; d_stub_promoted := true; d_ibtp_no_revert := false; d_failed_events := false;
                        d_stale_changer := false; d_prev_from_memory := false; d_revert_drops_tombstone := false; d_cross_index_nonce := false; x_fees := {| d_self_transfer := false; d_neg_amount := false; d_fee_after_body := false |} |}.
Definition cfg_ibtp := {| d_raw_add := false; d_stub_promoted := false; d_ibtp_no_revert := true; d_failed_events := false;
                        d_stale_changer := false; d_prev_from_memory := false; d_revert_drops_tombstone := false; d_cross_index_nonce := false; x_fees := {| d_self_transfer := false; d_neg_amount := false; d_fee_after_body := false |} |}.
Definition cfg_events := {| d_raw_add := false; d_stub_promoted := false; d_ibtp_no_revert := false; d_failed_events := true;
                        d_stale_changer := false; d_prev_from_memory := false; d_revert_drops_tombstone := false; d_cross_index_nonce := false; x_fees := {| d_self_transfer := false; d_neg_amount := false; d_fee_after_body := false |} |}.
Definition cfg_stale := {| d_raw_add := false; d_stub_promoted := false; d_ibtp_no_revert := false; d_failed_events := false;
                        d_stale_changer := true; d_prev_from_memory := false; d_revert_drops_tombstone := false; d_cross_index_nonce := false; x_fees := {| d_self_transfer := false; d_neg_amount := false; d_fee_after_body := false |} |}.
Definition cfg_fab := {| d_raw_add := false; d_stub_promoted := false; d_ibtp_no_revert := false; d_failed_events := false;
                        d_stale_changer := false; d_prev_from_memory := false; d_revert_drops_tombstone := false; d_cross_index_nonce := false; x_fees := {| d_self_transfer := false; d_neg_amount := false; d_fee_after_body := true |} |}.

(** a non-journaled write followed by any failure (here: the fee) survives the revert *)
Theorem raw_add_refuted :
  let '(s', rc, _) := apply_tx cfg_raw env_fee 0%N s_empty (mk_tx 1%N 0%N (KIbtp (fun _ => RawAdd kA 7%N Done))) in
  r_ok rc = false /\ store s' kA = Some 7%N /\ store s_empty kA = None.
Proof. vm_compute. repeat split; reflexivity. Qed.

(** an outsider runs the promoted Stub.Add by name: FAILED receipt, write persists *)
Theorem stub_promoted_refuted :
  let '(s', rc, _) := apply_tx cfg_stub env1 0%N s_empty (mk_tx 1%N 0%N (KBvm (fun _ => stub_prog cfg_stub (SAdd kA 666%N)))) in
  r_ok rc = false /\ store s' kA = Some 666%N.
Proof. vm_compute. repeat split; reflexivity. Qed.

(** repaired dispatch refuses the promoted method: nothing runs *)
Example stub_refused_fixed :
  let '(s', rc, _) := apply_tx xcfg_fixed env1 0%N s_empty (mk_tx 1%N 0%N (KBvm (fun _ => stub_prog xcfg_fixed (SAdd kA 666%N)))) in
  r_ok rc = false /\ store s' kA = None.
Proof. vm_compute. repeat split; reflexivity. Qed.

(** the IBTP path fails after a journaled write and is not reverted *)
Theorem ibtp_no_revert_refuted :
  let '(s', rc, _) := apply_tx cfg_ibtp env1 0%N s_empty (mk_tx 1%N 0%N (KIbtp (fun _ => JWrite kA 5%N (Fail false)))) in
  r_ok rc = false /\ store s' kA = Some 5%N.
Proof. vm_compute. repeat split; reflexivity. Qed.

(** events of a FAILED transaction are harvested into Counter as valid deliveries *)
Theorem failed_events_refuted :
  let '(_, rc, cnt) := apply_tx cfg_events env1 3%N s_empty
        (mk_tx 1%N 0%N (KIbtp (fun _ => PostEvent (EvInterchain [(77%N, false)]) (Fail false)))) in
  r_ok rc = false /\ cnt = [(77%N, (3%N, true, false))].
Proof. vm_compute. repeat split; reflexivity. Qed.

(** second transaction of a block writes to an account object loaded by the first one: its
    journal entries go to the replaced changer and the FAILED call is not reverted *)
Theorem stale_changer_refuted :
  let '(s', rcs, _) := exec_block cfg_stale env1 s_empty []
        [mk_tx 1%N 0%N (KBvm (fun _ => JWrite kA 4%N Done));
         mk_tx 2%N 0%N (KBvm (fun _ => JWrite kB 5%N Panic))] in
  map r_ok rcs = [true; false] /\ store s' kB = Some 5%N.
Proof. vm_compute. repeat split; reflexivity. Qed.

(** the same FAILED call as first transaction of the block is reverted *)
Example stale_changer_first_position_ok :
  let '(s', rcs, _) := exec_block cfg_stale env1 s_empty []
        [mk_tx 2%N 0%N (KBvm (fun _ => JWrite kB 5%N Panic))] in
  map r_ok rcs = [false] /\ store s' kB = None.
Proof. vm_compute. repeat split; reflexivity. Qed.

(** cold cache (after a restart): the journal of a blind overwrite records "no previous value" for a
    key that is only on disk; the FAILED transaction's revert leaves the key deleted *)
Definition cfg_prevmem := {| d_raw_add := false; d_stub_promoted := false; d_ibtp_no_revert := false; d_failed_events := false;
                            d_stale_changer := false; d_prev_from_memory := true; d_revert_drops_tombstone := false; d_cross_index_nonce := false;
                            x_fees := fcfg_fixed |}.
Definition s_cold : st :=
  mkSt (fun x => if key_eqb x kA then Some 9%N else None) (fun _ => 0) (fun _ => 0%N) (fun _ => None) 0%N [] []
       (fun _ => false) (fun x => if key_eqb x kA then Some 9%N else None).

Theorem prev_from_memory_refuted :
  let '(s', rc, _) := apply_tx cfg_prevmem env_fee 0%N s_cold (mk_tx 1%N 0%N (KBvm (fun _ => JWrite kA 5%N Done))) in
  r_ok rc = false /\ store s_cold kA = Some 9%N /\ store s' kA = None.
Proof. vm_compute. repeat split; reflexivity. Qed.

(** the same transaction after the key was read (warm) is reverted correctly, and so is the cold
    case under the repaired behaviour *)
Example prev_from_memory_warm_ok :
  let '(s', rc, _) := apply_tx cfg_prevmem env_fee 0%N s_cold (mk_tx 1%N 0%N (KBvm (fun _ => Peek kA (JWrite kA 5%N Done)))) in
  r_ok rc = false /\ store s' kA = Some 9%N.
Proof. vm_compute. repeat split; reflexivity. Qed.
Example cold_overwrite_fixed_ok :
  let '(s', rc, _) := apply_tx xcfg_fixed env_fee 0%N s_cold (mk_tx 1%N 0%N (KBvm (fun _ => JWrite kA 5%N Done))) in
  r_ok rc = false /\ store s' kA = Some 9%N.
Proof. vm_compute. repeat split; reflexivity. Qed.

(** an earlier SUCCESSFUL transaction of the block deleted a committed key; the revert of a later
    FAILED write of that key drops the deletion marker: the key reads as its old value again *)
Definition cfg_tomb := {| d_raw_add := false; d_stub_promoted := false; d_ibtp_no_revert := false; d_failed_events := false;
                         d_stale_changer := false; d_prev_from_memory := false; d_revert_drops_tombstone := true; d_cross_index_nonce := false;
                         x_fees := fcfg_fixed |}.
Definition s_committed : st :=
  mkSt (fun x => if key_eqb x kA then Some 9%N else None) (fun _ => 0) (fun _ => 0%N) (fun _ => None) 0%N [] []
       (fun _ => true) (fun _ => None).

Theorem revert_drops_tombstone_refuted :
  let '(s', rcs, _) := exec_block cfg_tomb env1 s_committed []
        [mk_tx 1%N 0%N (KBvm (fun _ => JDelete kA Done));
         mk_tx 2%N 0%N (KBvm (fun _ => JWrite kA 5%N Panic))] in
  map r_ok rcs = [true; false] /\ store s' kA = Some 9%N.
Proof. vm_compute. repeat split; reflexivity. Qed.

Example revert_keeps_tombstone_fixed :
  let '(s', rcs, _) := exec_block xcfg_fixed env1 s_committed []
        [mk_tx 1%N 0%N (KBvm (fun _ => JDelete kA Done));
         mk_tx 2%N 0%N (KBvm (fun _ => JWrite kA 5%N Panic))] in
  map r_ok rcs = [true; false] /\ store s' kA = None.
Proof. vm_compute. repeat split; reflexivity. Qed.

(** fee checked after the body: a transfer the sender could not afford on top of the fee costs
    the whole balance although the fee alone was affordable *)
Theorem fee_after_body_refuted :
  let t := mk_tx 1%N 0%N (KTransfer 2%N (ADec 90000)) in
  let '(s', rc, _) := apply_tx cfg_fab env_fee 0%N s_rich t in
  r_ok rc = false /\ bal s' 1%N = 0 /\ spec_bal env_fee s_rich t 1%N = 79000.
Proof. vm_compute. repeat split; reflexivity. Qed.

(** non-vacuity of the generic theorem: a program that writes, posts an event, cross-invokes a
    callee that panics after writing, sets a balance and then fails — FAILED, and only nonce and
    fee remain *)
Definition busy_prog : prog :=
  JWrite kA 1%N (PostEvent (EvInterchain [(9%N, false)])
    (Cross 2002%N (JWrite (2002%N, 1%N) 2%N (RawAdd (2002%N, 2%N) 3%N Panic))
       Done
       (SetBal 5%N 999 (JDelete kB (Fail true))))).

Example generic_example :
  let t := mk_tx 1%N 41%N (KBvm (fun _ => busy_prog)) in
  let '(s', rc, cnt) := apply_tx xcfg_fixed env_fee 0%N s_rich t in
  r_ok rc = false /\ cnt = [] /\ store s' kA = None /\ store s' (2002%N, 2%N) = None /\
  bal s' 5%N = 0 /\ bal s' 1%N = 0 /\ bal s' 1000%N = 50000 /\ nonce s' 1%N = 42%N.
Proof. vm_compute. repeat split; reflexivity. Qed.

(** CrossInvoke hands the transaction's NONCE to the callee as its index (mutation class): a relay
    contract cross-invokes an emitter; sender 1 has nonce 2 and sits at position 0, the FAILED
    call of sender 3 sits at position 2 - and is announced to chain 9 as a valid delivery, while
    the transaction that posted the event is not announced at all *)
Definition cfg_crossidx := {| d_raw_add := false; d_stub_promoted := false; d_ibtp_no_revert := false; d_failed_events := false;
                             d_stale_changer := false; d_prev_from_memory := false; d_revert_drops_tombstone := false;
                             d_cross_index_nonce := true; x_fees := fcfg_fixed |}.
Definition relay_prog : prog := Cross 2003%N (PostEvent (EvInterchain [(9%N, false)]) Done) Done (Fail false).
Definition relay_block :=
  [mk_tx 1%N 2%N (KBvm (fun _ => relay_prog));
   mk_tx 2%N 0%N (KBvm (fun _ => JWrite kA 4%N Done));
   mk_tx 3%N 0%N (KBvm (fun _ => JWrite kB 5%N Panic))].

Theorem cross_index_nonce_refuted :
  let '(_, rcs, cnt) := exec_block cfg_crossidx env1 s_empty [] relay_block in
  map r_ok rcs = [true; true; false] /\ cnt = [(9%N, (2%N, true, false))].
Proof. vm_compute. split; reflexivity. Qed.

Example cross_index_fixed :
  let '(_, rcs, cnt) := exec_block xcfg_fixed env1 s_empty [] relay_block in
  map r_ok rcs = [true; true; false] /\ cnt = [(9%N, (0%N, true, false))].
Proof. vm_compute. split; reflexivity. Qed.

(** ------------------------------------------------------------------------------------ *)
(** Ethereum transactions: what a FAILED one leaves behind *)

Theorem eth_failed_frame cb b n t b' n' :
  eo_ok t = false -> eth_apply cb (b, n) t = (b', n') ->
  (forall a, a <> eo_from t -> a <> cb -> b' a = b a) /\
  (eo_from t <> cb -> b' (eo_from t) = b (eo_from t) - eo_gas_used t * eo_price t /\
                      b' cb = b cb + eo_gas_used t * eo_price t) /\
  (eo_from t = cb -> b' cb = b cb) /\
  (forall a, n' a = if (a =? eo_from t)%N then wrap64 (eo_nonce t + 1) else n a) /\
  (eo_gas_used t = 0 -> forall a, b' a = b a).
Proof.
  intros Hok H. unfold eth_apply in H. rewrite Hok in H. inversion H; subst; clear H.
  split; [|split; [|split; [|split]]].
  - intros a H1 H2. unfold bset. destruct (N.eqb_spec a cb); [contradiction|]. destruct (N.eqb_spec a (eo_from t)); [contradiction | reflexivity].
  - intros Hne. split.
    + unfold bset. destruct (N.eqb_spec (eo_from t) cb); [contradiction|]. rewrite N.eqb_refl. reflexivity.
    + unfold bset. rewrite N.eqb_refl. destruct (N.eqb_spec cb (eo_from t)) as [E|]; [symmetry in E; contradiction | reflexivity].
  - intros E. subst cb. unfold bset. rewrite !N.eqb_refl. lia.
  - intro a. unfold nset. reflexivity.
  - intros Hg a. rewrite Hg. unfold bset. simpl.
    destruct (N.eqb_spec a cb) as [->|]; [destruct (N.eqb_spec cb (eo_from t)) as [E|]; [rewrite <- E|]; lia|].
    destruct (N.eqb_spec a (eo_from t)) as [->|]; lia.
Qed.

(** the accounting of an Ethereum transaction, SUCCESS or FAILED, never changes the sum *)
Theorem eth_conserves dom cb b n t b' n' : NoDup dom -> In (eo_from t) dom -> In cb dom ->
  (forall r, eo_to t = Some r -> In r dom) ->
  eth_apply cb (b, n) t = (b', n') -> sumb dom b' = sumb dom b.
Proof.
  intros Hnd Hf Hc Hr H. unfold eth_apply in H. inversion H; subst; clear H.
  destruct (eo_ok t); [destruct (eo_to t) as [r|] eqn:Et|];
    repeat (rewrite sumb_bset_in by (try assumption; try (apply Hr; reflexivity))); unfold bset; lia.
Qed.

(** the boolean predicates the judge evaluates on implementation traces, as propositions *)
Definition p_store (k : xcase) : Prop :=
  (forall x, In x (changed_keys k) -> exists y, In y (succ_keys k) /\ x = y) /\ xc_other k = 0%N.

Lemma p_store_b_spec k : p_store_b k = true <-> p_store k.
Proof.
  unfold p_store_b, p_store. rewrite andb_true_iff, forallb_forall, N.eqb_eq. split; intros [H1 H2]; (split; [|exact H2]).
  - intros x Hx. specialize (H1 x Hx). apply existsb_exists in H1. destruct H1 as [y [Hy Hk]].
    exists y. split; [exact Hy | apply key_eqb_eq; exact Hk].
  - intros x Hx. destruct (H1 x Hx) as [y [Hy ->]]. apply existsb_exists. exists y. split; [exact Hy | apply key_eqb_refl].
Qed.

Definition p_counter (k : xcase) : Prop :=
  forall x : counter_entry, In x (xc_ocnt k) ->
    snd (fst (snd x)) = true ->
    nth (N.to_nat (fst (fst (snd x)))) (xc_recs k) false = true /\
    In (fst x) (nth (N.to_nat (fst (fst (snd x)))) (xc_posted k) []).

Lemma p_counter_b_spec k : p_counter_b k = true <-> p_counter k.
Proof.
  unfold p_counter_b, p_counter. rewrite forallb_forall. split; intros H x Hx.
  - intro Hv. specialize (H x Hx). rewrite Hv in H. simpl in H. apply andb_true_iff in H. destruct H as [H1 H2].
    split; [exact H1|]. apply existsb_exists in H2. destruct H2 as [y [Hy He]]. apply N.eqb_eq in He. subst y. exact Hy.
  - specialize (H x Hx). destruct (snd (fst (snd x))); [|reflexivity]. destruct (H eq_refl) as [H1 H2]. simpl.
    rewrite H1. simpl. apply existsb_exists. exists (fst x). split; [exact H2 | apply N.eqb_refl].
Qed.
