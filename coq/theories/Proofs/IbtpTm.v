(** Effect of the transaction-manager calls ([tm_step]) under [cfg_fixed] on each component of
    the transaction-manager state. *)
From BX Require Import Base.Prelude Base.Fsm Model.TxFsm Model.TxMgr Model.Interchain Model.IbtpExec
     Proofs.TxFsmProofs Proofs.IbtpBasics Proofs.IbtpStep.
From Coq Require Import String ZifyBool ZifyN ZifyNat.
Local Open Scope N_scope.

(** * timeout-list helpers *)
Lemma tm_add_timeout_fields cfg t h x :
  tm_rec (tm_add_timeout cfg t h x) = tm_rec t /\
  tm_glob (tm_add_timeout cfg t h x) = tm_glob t /\
  tm_child (tm_add_timeout cfg t h x) = tm_child t.
Proof.
  unfold tm_add_timeout. destruct (tm_tl t h) as [l|]; [destruct (_ && _)|]; simpl; auto.
Qed.
Lemma tm_remove_timeout_fields t h x t' :
  tm_remove_timeout t h x = Some t' ->
  tm_rec t' = tm_rec t /\ tm_glob t' = tm_glob t /\ tm_child t' = tm_child t.
Proof.
  unfold tm_remove_timeout. destruct (tm_tl t h) as [l|].
  - destruct (tl_remove x l); [|discriminate]. intro H. inversion H; subst. simpl. auto.
  - intro H. inversion H; subst. auto.
Qed.

(** * the single-transaction record [tm_rec] *)

(** how [tm_step] may change the record of the IBTP's own id; every other record is untouched *)
Inductive rec_change (h : N) (b : ibtp) (terr : bool) (old : option (N * N)) : option (N * N) -> change -> Prop :=
| RcSame ch : rec_change h b terr old old ch                               (* group traffic *)
| RcBegin hh ch :
    is_request b = true -> old = None \/ b_grp b = None ->
    c_prev ch = None -> c_cur ch = (if terr then ST_BEGIN_FAILURE else ST_BEGIN) ->
    c_nsrc ch = [] -> c_ndst ch = [] -> c_child ch = [] ->
    rec_change h b terr old (Some (hh, if terr then ST_BEGIN_FAILURE else ST_BEGIN)) ch
| RcNotice hh s s' ch :
    is_request b = true -> old = Some (hh, s) ->
    set_fsm s (event_of_txstatus (b_xst b)) = Some s' ->
    c_prev ch = Some s -> c_cur ch = s' -> c_nsrc ch = [] -> c_ndst ch = [] -> c_child ch = [] ->
    rec_change h b terr old (Some (hh, s')) ch
| RcReceipt hh s s' ch :
    is_request b = false -> old = Some (hh, s) ->
    set_fsm s (event_of_receipt (b_typ b)) = Some s' ->
    c_prev ch = Some s -> c_cur ch = s' -> c_nsrc ch = [] -> c_ndst ch = [] -> c_child ch = [] ->
    rec_change h b terr old (Some (hh, s')) ch.

Lemma tm_begin_multi_rec sorted t h g i T f n t' ch :
  tm_begin_multi cfg_fixed sorted t h g i T f n = Some (TmOk t' ch) -> tm_rec t' = tm_rec t.
Proof.
  unfold tm_begin_multi. destruct (tm_glob t g) as [gi|].
  - destruct (child_lookup i (g_children gi)); [discriminate|].
    destruct (negb (g_state gi =? ST_BEGIN)).
    + destruct (is_final (g_state gi) && _); [discriminate|]. intro H. inversion H; subst. reflexivity.
    + destruct f.
      * destruct (tm_remove_timeout t (g_height gi) (TGid g)) as [t1|] eqn:E; [|discriminate].
        apply tm_remove_timeout_fields in E. destruct E as [E _].
        intro H. inversion H; subst. simpl. exact E.
      * intro H. inversion H; subst. reflexivity.
  - intro H. inversion H; subst. destruct f; simpl; [reflexivity|].
    apply (tm_add_timeout_fields cfg_fixed t _ (TGid g)).
Qed.

Lemma tm_report_multi_rec sorted t i r t' ch :
  tm_rec t i = None -> tm_report cfg_fixed sorted t i r = Some (TmOk t' ch) -> tm_rec t' = tm_rec t.
Proof.
  unfold tm_report. intros ->.
  destruct (tm_child t i) as [g|]; [|discriminate].
  destruct (tm_glob t g) as [gi|]; [|discriminate].
  destruct (child_lookup i (g_children gi)); [|discriminate].
  destruct (change_multi gi i r) as [[gi' rm]|]; [|discriminate].
  destruct rm.
  - destruct (tm_remove_timeout t (g_height gi) (TGid g)) as [t1|] eqn:E; [|discriminate].
    apply tm_remove_timeout_fields in E. destruct E as [E _].
    intro H. inversion H; subst. simpl. exact E.
  - intro H. inversion H; subst. reflexivity.
Qed.

Lemma tm_step_rec w h b sf sd terr t t' ch :
  tm_step cfg_fixed w h b sf sd terr t = Some (TmOk t' ch) ->
  (forall j, j <> b_id b -> tm_rec t' j = tm_rec t j) /\
  rec_change h b terr (tm_rec t (b_id b)) (tm_rec t' (b_id b)) ch.
Proof.
  unfold tm_step. destruct (is_request b) eqn:Erq.
  - destruct (negb (sv_hub sf =? sv_hub sd)).
    + unfold tm_begin_interbxh. cbn [d_interbxh_zero_record cfg_fixed].
      destruct (tm_rec t (b_id b)) as [[hh s0]|] eqn:Er.
      * cbn [fst snd]. destruct (set_fsm s0 (event_of_txstatus (b_xst b))) as [s'|] eqn:Ef; [|discriminate].
        intro H. inversion H; subst. simpl. split.
        -- intros j Hj. apply updT_other. exact Hj.
        -- rewrite updT_same. eapply RcNotice; eauto.
      * intro H. inversion H; subst. simpl. split.
        -- intros j Hj. apply updT_other. exact Hj.
        -- rewrite updT_same. apply RcBegin; auto.
    + destruct (group_gid b) as [g|] eqn:Eg.
      * intro H. pose proof (tm_begin_multi_rec _ _ _ _ _ _ _ _ _ _ H) as E. rewrite E.
        split; [reflexivity | constructor].
      * unfold tm_begin. intro H. inversion H; subst. simpl. split.
        -- intros j Hj. apply updT_other. exact Hj.
        -- rewrite updT_same. apply RcBegin; auto.
           right. unfold group_gid in Eg. destruct (b_grp b) as [[? ?]|]; [discriminate | reflexivity].
  - destruct (tm_rec t (b_id b)) as [[hh s]|] eqn:Er.
    + unfold tm_report. rewrite Er.
      destruct (set_fsm s (event_of_receipt (b_typ b))) as [s'|] eqn:Ef; [|discriminate].
      intro H. inversion H; subst. simpl. split.
      * intros j Hj. apply updT_other. exact Hj.
      * rewrite updT_same. eapply RcReceipt; eauto.
    + intro H. pose proof (tm_report_multi_rec _ _ _ _ _ _ Er H) as E. rewrite E, Er.
      split; [reflexivity | constructor].
Qed.

(** sorting is a permutation *)
Lemma id_insert_in' w x y l : In y (id_insert w x l) <-> y = x \/ In y l.
Proof.
  induction l as [|z t IH]; simpl; [intuition congruence|].
  destruct (id_leb w x z); simpl; [intuition congruence|]. rewrite IH. intuition congruence.
Qed.
Lemma id_sort_in' w y l : In y (id_sort w l) <-> In y l.
Proof.
  unfold id_sort. induction l as [|x t IH]; simpl; [tauto|].
  rewrite id_insert_in', IH. intuition congruence.
Qed.

(** * groups: [tm_glob] and [tm_child] *)
Inductive grp_change (sf sd : svc_info) (b : ibtp) (terr : bool) (t t' : txm) (ch : change) : Prop :=
| GcNone :
    tm_glob t' = tm_glob t -> tm_child t' = tm_child t ->
    (is_request b = false -> tm_rec t (b_id b) <> None) ->
    (is_request b = true -> tm_rec t' (b_id b) <> None) ->
    c_child ch = [] ->
    grp_change sf sd b terr t t' ch
| GcNew g gi' :
    (sv_hub sf =? sv_hub sd) = true ->
    is_request b = true -> group_gid b = Some g -> tm_glob t g = None ->
    tm_glob t' = upd gid_eqb (tm_glob t) g (Some gi') ->
    tm_child t' = upd txid_eqb (tm_child t) (b_id b) (Some g) ->
    g_children gi' = [(b_id b, if terr then ST_BEGIN_FAILURE else ST_BEGIN)] ->
    g_state gi' = (if terr then ST_BEGIN_FAILURE else ST_BEGIN) ->
    g_count gi' = snd g ->
    grp_change sf sd b terr t t' ch
| GcJoin g gi gi' :
    (sv_hub sf =? sv_hub sd) = true ->
    is_request b = true -> group_gid b = Some g -> tm_glob t g = Some gi ->
    child_lookup (b_id b) (g_children gi) = None ->
    tm_glob t' = upd gid_eqb (tm_glob t) g (Some gi') ->
    tm_child t' = upd txid_eqb (tm_child t) (b_id b) (Some g) ->
    map fst (g_children gi') = map fst (g_children gi) ++ [b_id b] ->
    g_count gi' = g_count gi -> g_height gi' = g_height gi ->
    grp_change sf sd b terr t t' ch
| GcReport g gi gi' rm :
    is_request b = false -> tm_rec t (b_id b) = None -> tm_child t (b_id b) = Some g ->
    tm_glob t g = Some gi -> child_lookup (b_id b) (g_children gi) <> None ->
    change_multi gi (b_id b) (b_typ b) = Some (gi', rm) ->
    tm_glob t' = upd gid_eqb (tm_glob t) g (Some gi') ->
    tm_child t' = tm_child t ->
    (forall sorted', tm_report cfg_fixed sorted' t (b_id b) (b_typ b) <> None ->
                     True) ->
    c_prev ch = Some (g_state gi) -> c_cur ch = g_state gi' ->
    (forall k, In k (c_child ch) <-> In k (map fst (g_children gi'))) ->
    grp_change sf sd b terr t t' ch.

Lemma child_set_keys i s l :
  map fst (child_set i s l) = if match child_lookup i l with Some _ => true | None => false end
                              then map fst l else map fst l ++ [i].
Proof.
  destruct (child_lookup i l) eqn:E.
  - apply child_set_keys_existing. apply child_lookup_in in E. apply (in_map fst) in E. exact E.
  - apply child_set_keys_new. apply child_lookup_none_notin. exact E.
Qed.

Lemma tm_step_grp w h b sf sd terr t t' ch :
  tm_step cfg_fixed w h b sf sd terr t = Some (TmOk t' ch) -> grp_change sf sd b terr t t' ch.
Proof.
  unfold tm_step. destruct (is_request b) eqn:Erq.
  - destruct (sv_hub sf =? sv_hub sd) eqn:Ehub; cbn [negb].
    2:{ unfold tm_begin_interbxh. cbn [d_interbxh_zero_record cfg_fixed].
      destruct (tm_rec t (b_id b)) as [[hh s0]|] eqn:Er.
      * cbn [fst snd]. destruct (set_fsm s0 _) as [s'|]; [|discriminate].
        intro H. inversion H; subst. apply GcNone; simpl; try reflexivity; try discriminate;
          try (intro Hx; rewrite Erq in Hx; discriminate Hx);
          try (intros _; unfold upd; rewrite txid_eqb_refl; discriminate).
      * intro H. inversion H; subst. apply GcNone; simpl; try reflexivity; try discriminate;
          try (intro Hx; rewrite Erq in Hx; discriminate Hx);
          try (intros _; unfold upd; rewrite txid_eqb_refl; discriminate). }
    + destruct (group_gid b) as [g|] eqn:Eg.
      * unfold tm_begin_multi. destruct (tm_glob t g) as [gi|] eqn:Egl.
        -- destruct (child_lookup (b_id b) (g_children gi)) eqn:Ecl; [discriminate|].
           destruct (negb (g_state gi =? ST_BEGIN)).
           ++ destruct (is_final (g_state gi) && _); [discriminate|]. intro H. inversion H; subst; clear H.
              eapply (GcJoin _ _ _ _ _ _ _ g gi (Build_ginfo _ _ _ _) Ehub Erq Eg Egl Ecl); cbn [g_children g_count g_height];
                try reflexivity.
              rewrite child_set_keys, Ecl. reflexivity.
           ++ destruct terr.
              ** destruct (tm_remove_timeout t (g_height gi) (TGid g)) as [t1|] eqn:E; [|discriminate].
                 apply tm_remove_timeout_fields in E. destruct E as [_ [E2 E3]].
                 intro H. inversion H; subst; clear H.
                 eapply (GcJoin _ _ _ _ _ _ _ g gi (Build_ginfo _ _ _ _) Ehub Erq Eg Egl Ecl); cbn [g_children g_count g_height];
                   try reflexivity.
                 --- simpl. rewrite E2. reflexivity.
                 --- simpl. rewrite E3. reflexivity.
                 --- rewrite child_set_keys, child_lookup_all, Ecl, children_all_keys. reflexivity.
              ** intro H. inversion H; subst; clear H.
                 eapply (GcJoin _ _ _ _ _ _ _ g gi (Build_ginfo _ _ _ _) Ehub Erq Eg Egl Ecl); cbn [g_children g_count g_height];
                   try reflexivity.
                 rewrite child_set_keys, Ecl. reflexivity.
        -- intro H. inversion H; subst; clear H.
           eapply (GcNew _ _ _ _ _ _ _ g (Build_ginfo _ _ _ _) Ehub Erq Eg Egl); cbn [g_children g_count g_height g_state];
             try reflexivity.
           ++ destruct terr; simpl; [reflexivity|].
              destruct (tm_add_timeout_fields cfg_fixed t (timeout_height h (u64_of_Z (b_T b))) (TGid g)) as [_ [E _]].
              rewrite E. reflexivity.
           ++ destruct terr; simpl; [reflexivity|].
              destruct (tm_add_timeout_fields cfg_fixed t (timeout_height h (u64_of_Z (b_T b))) (TGid g)) as [_ [_ E]].
              rewrite E. reflexivity.
      * unfold tm_begin. intro H. inversion H; subst. apply GcNone; simpl; try reflexivity; try discriminate;
          try (intro Hx; rewrite Erq in Hx; discriminate Hx);
          try (intros _; unfold upd; rewrite txid_eqb_refl; discriminate).
  - unfold tm_report. destruct (tm_rec t (b_id b)) as [[hh s]|] eqn:Er.
    + destruct (set_fsm s _) as [s'|]; [|discriminate].
      intro H. inversion H; subst. apply GcNone; simpl; try reflexivity; try discriminate;
          try (intro Hx; rewrite Erq in Hx; discriminate Hx).
      intros _. rewrite Er. discriminate.
    + destruct (tm_child t (b_id b)) as [g|] eqn:Ec; [|discriminate].
      destruct (tm_glob t g) as [gi|] eqn:Eg; [|discriminate].
      destruct (child_lookup (b_id b) (g_children gi)) eqn:Ecl; [|discriminate].
      destruct (change_multi gi (b_id b) (b_typ b)) as [[gi' rm]|] eqn:Ecm; [|discriminate].
      assert (Hcl : child_lookup (b_id b) (g_children gi) <> None) by (rewrite Ecl; discriminate).
      destruct rm.
      * destruct (tm_remove_timeout t (g_height gi) (TGid g)) as [t1|] eqn:E; [|discriminate].
        apply tm_remove_timeout_fields in E. destruct E as [_ [E2 E3]].
        intro H. inversion H; subst; clear H.
        eapply (GcReport _ _ _ _ _ _ _ g gi gi' true Erq Er Ec Eg Hcl Ecm); simpl; try congruence; try reflexivity; auto.
        intro k. apply id_sort_in'.
      * intro H. inversion H; subst; clear H.
        eapply (GcReport _ _ _ _ _ _ _ g gi gi' false Erq Er Ec Eg Hcl Ecm); simpl; try congruence; try reflexivity; auto.
        intro k. apply id_sort_in'.
Qed.

(** [change_multi] keeps the key list, the declared count and the timeout height *)
Lemma change_multi_keys gi i r gi' rm :
  child_lookup i (g_children gi) <> None ->
  change_multi gi i r = Some (gi', rm) ->
  map fst (g_children gi') = map fst (g_children gi) /\ g_count gi' = g_count gi /\ g_height gi' = g_height gi.
Proof.
  intro Hin. unfold change_multi.
  assert (Hk : forall s l, child_lookup i l <> None -> map fst (child_set i s l) = map fst l).
  { intros s l Hl. rewrite child_set_keys. destruct (child_lookup i l); [reflexivity | contradiction]. }
  destruct ((g_state gi =? ST_BEGIN) && (r =? 2)).
  - intro H. inversion H; subst. simpl. rewrite Hk.
    + rewrite children_all_keys. auto.
    + rewrite child_lookup_all. destruct (child_lookup i (g_children gi)); [discriminate | contradiction].
  - destruct (child_lookup i (g_children gi)) as [st|] eqn:E; [|discriminate].
    destruct (set_fsm st (event_of_receipt r)) as [st'|]; [|discriminate].
    destruct (multi_finished _ _ _).
    + destruct (set_fsm (g_state gi) _); [|discriminate].
      intro H. inversion H; subst. simpl. rewrite Hk by (rewrite E; discriminate). auto.
    + intro H. inversion H; subst. simpl. rewrite Hk by (rewrite E; discriminate). auto.
Qed.
