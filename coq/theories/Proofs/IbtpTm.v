(** Effect of the transaction-manager calls ([tm_step]) under [cfg_fixed] on each component of
    the transaction-manager state. *)
From BX Require Import Base.Prelude Base.Fsm Model.TxFsm Model.TxMgr Model.Interchain Model.IbtpExec
     Proofs.TxFsmProofs Proofs.IbtpBasics Proofs.IbtpStep.
From Coq Require Import String ZifyBool ZifyN ZifyNat.
Local Open Scope N_scope.

(** * timeout-list helpers *)
Lemma tm_add_timeout_fields cfg t h x :
  tm_rec (tm_add_timeout cfg t h x) = tm_rec t /\
  tm_glob (tm_add_timeout cfg t h x) = tm_glob t /\
  tm_child (tm_add_timeout cfg t h x) = tm_child t.
Proof.
  unfold tm_add_timeout. destruct (tm_tl t h) as [l|]; [destruct (_ && _)|]; simpl; auto.
Qed.
Lemma tm_remove_timeout_fields t h x t' :
  tm_remove_timeout t h x = Some t' ->
  tm_rec t' = tm_rec t /\ tm_glob t' = tm_glob t /\ tm_child t' = tm_child t.
Proof.
  unfold tm_remove_timeout. destruct (tm_tl t h) as [l|].
  - destruct (tl_remove x l); [|discriminate]. intro H. inversion H; subst. simpl. auto.
  - intro H. inversion H; subst. auto.
Qed.

(** * the single-transaction record [tm_rec] *)

(** how [tm_step] may change the record of the IBTP's own id; every other record is untouched *)
Inductive rec_change (h : N) (b : ibtp) (terr : bool) (old : option (N * N)) : option (N * N) -> change -> Prop :=
| RcSame ch : rec_change h b terr old old ch                               (* group traffic *)
| RcBegin hh ch :
    is_request b = true -> old = None \/ b_grp b = None ->
    c_prev ch = None -> c_cur ch = (if terr then ST_BEGIN_FAILURE else ST_BEGIN) ->
    c_nsrc ch = [] -> c_ndst ch = [] -> c_child ch = [] ->
    rec_change h b terr old (Some (hh, if terr then ST_BEGIN_FAILURE else ST_BEGIN)) ch
| RcNotice hh s s' ch :
    is_request b = true -> old = Some (hh, s) ->
    set_fsm s (event_of_txstatus (b_xst b)) = Some s' ->
    c_prev ch = Some s -> c_cur ch = s' -> c_nsrc ch = [] -> c_ndst ch = [] -> c_child ch = [] ->
    rec_change h b terr old (Some (hh, s')) ch
| RcReceipt hh s s' ch :
    is_request b = false -> old = Some (hh, s) ->
    set_fsm s (event_of_receipt (b_typ b)) = Some s' ->
    c_prev ch = Some s -> c_cur ch = s' -> c_nsrc ch = [] -> c_ndst ch = [] -> c_child ch = [] ->
    rec_change h b terr old (Some (hh, s')) ch.

Lemma tm_begin_multi_rec sorted t h g i T f n t' ch :
  tm_begin_multi cfg_fixed sorted t h g i T f n = Some (TmOk t' ch) -> tm_rec t' = tm_rec t.
Proof.
  unfold tm_begin_multi. destruct (tm_glob t g) as [gi|].
  - destruct (child_lookup i (g_children gi)); [discriminate|].
    destruct (negb (g_state gi =? ST_BEGIN)).
    + destruct (is_final (g_state gi) && _); [discriminate|]. intro H. inversion H; subst. reflexivity.
    + destruct f.
      * destruct (tm_remove_timeout t (g_height gi) (TGid g)) as [t1|] eqn:E; [|discriminate].
        apply tm_remove_timeout_fields in E. destruct E as [E _].
        intro H. inversion H; subst. simpl. exact E.
      * intro H. inversion H; subst. reflexivity.
  - intro H. inversion H; subst. destruct f; simpl; [reflexivity|].
    apply (tm_add_timeout_fields cfg_fixed t _ (TGid g)).
Qed.

Lemma tm_report_multi_rec sorted t i r t' ch :
  tm_rec t i = None -> tm_report cfg_fixed sorted t i r = Some (TmOk t' ch) -> tm_rec t' = tm_rec t.
Proof.
  unfold tm_report. intros ->.
  destruct (tm_child t i) as [g|]; [|discriminate].
  destruct (tm_glob t g) as [gi|]; [|discriminate].
  destruct (child_lookup i (g_children gi)); [|discriminate].
  destruct (change_multi cfg_fixed gi i r) as [[gi' rm]|]; [|discriminate].
  destruct rm.
  - destruct (tm_remove_timeout t (g_height gi) (TGid g)) as [t1|] eqn:E; [|discriminate].
    apply tm_remove_timeout_fields in E. destruct E as [E _].
    intro H. inversion H; subst. simpl. exact E.
  - intro H. inversion H; subst. reflexivity.
Qed.

Lemma tm_step_rec w h b sf sd terr t t' ch :
  tm_step cfg_fixed w h b sf sd terr t = Some (TmOk t' ch) ->
  (forall j, j <> b_id b -> tm_rec t' j = tm_rec t j) /\
  rec_change h b terr (tm_rec t (b_id b)) (tm_rec t' (b_id b)) ch.
Proof.
  unfold tm_step. destruct (is_request b) eqn:Erq.
  - destruct (negb (sv_hub sf =? sv_hub sd)).
    + unfold tm_begin_interbxh. cbn [d_interbxh_zero_record cfg_fixed].
      destruct (tm_rec t (b_id b)) as [[hh s0]|] eqn:Er.
      * cbn [fst snd]. destruct (set_fsm s0 (event_of_txstatus (b_xst b))) as [s'|] eqn:Ef; [|discriminate].
        intro H. inversion H; subst. simpl. split.
        -- intros j Hj. apply updT_other. exact Hj.
        -- rewrite updT_same. eapply RcNotice; eauto.
      * intro H. inversion H; subst. simpl. split.
        -- intros j Hj. apply updT_other. exact Hj.
        -- rewrite updT_same. apply RcBegin; auto.
    + destruct (group_gid b) as [g|] eqn:Eg.
      * intro H. pose proof (tm_begin_multi_rec _ _ _ _ _ _ _ _ _ _ H) as E. rewrite E.
        split; [reflexivity | constructor].
      * unfold tm_begin. intro H. inversion H; subst. simpl. split.
        -- intros j Hj. apply updT_other. exact Hj.
        -- rewrite updT_same. apply RcBegin; auto.
           right. unfold group_gid in Eg. destruct (b_grp b) as [[? ?]|]; [discriminate | reflexivity].
  - destruct (tm_rec t (b_id b)) as [[hh s]|] eqn:Er.
    + unfold tm_report. rewrite Er.
      destruct (set_fsm s (event_of_receipt (b_typ b))) as [s'|] eqn:Ef; [|discriminate].
      intro H. inversion H; subst. simpl. split.
      * intros j Hj. apply updT_other. exact Hj.
      * rewrite updT_same. eapply RcReceipt; eauto.
    + intro H. pose proof (tm_report_multi_rec _ _ _ _ _ _ Er H) as E. rewrite E, Er.
      split; [reflexivity | constructor].
Qed.

(** sorting is a permutation *)
Lemma id_insert_in' w x y l : In y (id_insert w x l) <-> y = x \/ In y l.
Proof.
  induction l as [|z t IH]; simpl; [intuition congruence|].
  destruct (id_leb w x z); simpl; [intuition congruence|]. rewrite IH. intuition congruence.
Qed.
Lemma id_sort_in' w y l : In y (id_sort w l) <-> In y l.
Proof.
  unfold id_sort. induction l as [|x t IH]; simpl; [tauto|].
  rewrite id_insert_in', IH. intuition congruence.
Qed.

(** * groups: exact effect of [BeginMultiTXs] *)
Definition mk_txm (r : txid -> option (N * N)) (g : gid -> option ginfo) (c : txid -> option gid)
           (l : N -> option (list tok)) : txm := Build_txm r g c l.

Inductive bm_change (sorted : list txid -> list txid) (cur : N) (g : gid) (i : txid) (T : N) (failed : bool) (count : N)
          (t : txm) : txm -> change -> Prop :=
| BmNew :
    tm_glob t g = None ->
    let hh := timeout_height cur T in
    let st := if failed then ST_BEGIN_FAILURE else ST_BEGIN in
    let t1 := if failed then t else tm_add_timeout cfg_fixed t hh (TGid g) in
    bm_change sorted cur g i T failed count t
              (set_child (set_glob t1 g (Build_ginfo st hh [(i, st)] count)) i g)
              (Build_change None st [] [] [i] false)
| BmJoinLate gi :
    tm_glob t g = Some gi -> child_lookup i (g_children gi) = None ->
    g_state gi <> ST_BEGIN -> is_final (g_state gi) = false ->
    let kids := child_set i (g_state gi) (g_children gi) in
    bm_change sorted cur g i T failed count t
              (set_child (set_glob t g (Build_ginfo (g_state gi) (g_height gi) kids (g_count gi))) i g)
              (Build_change None (g_state gi) [] [] (sorted (map fst kids)) false)
| BmJoinFail gi t1 :
    tm_glob t g = Some gi -> child_lookup i (g_children gi) = None ->
    g_state gi = ST_BEGIN -> failed = true ->
    tm_remove_timeout t (g_height gi) (TGid g) = Some t1 ->
    let kids := child_set i ST_BEGIN_FAILURE (children_all ST_BEGIN_FAILURE (g_children gi)) in
    bm_change sorted cur g i T failed count t
              (set_child (set_glob t1 g (Build_ginfo ST_BEGIN_FAILURE (g_height gi) kids (g_count gi))) i g)
              (Build_change None ST_BEGIN_FAILURE (sorted (map fst (g_children gi)))
                            (sorted (map fst (filter (fun p => snd p =? ST_SUCCESS) (g_children gi))))
                            (sorted (map fst kids)) false)
| BmJoinOk gi :
    tm_glob t g = Some gi -> child_lookup i (g_children gi) = None ->
    g_state gi = ST_BEGIN -> failed = false ->
    let kids := child_set i ST_BEGIN (g_children gi) in
    bm_change sorted cur g i T failed count t
              (set_child (set_glob t g (Build_ginfo (g_state gi) (g_height gi) kids (g_count gi))) i g)
              (Build_change None ST_BEGIN [] [] (sorted (map fst kids)) false).

Lemma tm_begin_multi_inv sorted t cur g i T failed count t' ch :
  tm_begin_multi cfg_fixed sorted t cur g i T failed count = Some (TmOk t' ch) ->
  bm_change sorted cur g i T failed count t t' ch.
Proof.
  unfold tm_begin_multi. destruct (tm_glob t g) as [gi|] eqn:Egl.
  - destruct (child_lookup i (g_children gi)) eqn:Ecl; [discriminate|].
    destruct (g_state gi =? ST_BEGIN) eqn:Est; cbn [negb].
    + apply N.eqb_eq in Est. destruct failed.
      * destruct (tm_remove_timeout t (g_height gi) (TGid g)) as [t1|] eqn:E; [|discriminate].
        intro H. inversion H; subst. eapply BmJoinFail; eauto.
      * intro H. inversion H; subst. rewrite Est. 
        pose proof (BmJoinOk sorted cur g i T false count t gi Egl Ecl Est eq_refl) as X.
        cbv zeta in X. rewrite Est in X. exact X.
    + apply N.eqb_neq in Est. cbn [d_late_child cfg_fixed negb]. rewrite andb_true_r.
      destruct (is_final (g_state gi)) eqn:Ef; [discriminate|].
      intro H. inversion H; subst. apply BmJoinLate; assumption.
  - intro H. inversion H; subst. apply BmNew. exact Egl.
Qed.

(** * groups: exact effect of [Report] on a child *)
Inductive cm_change (gi : ginfo) (i : txid) (r : N) : ginfo -> bool -> Prop :=
| CmFail :
    g_state gi = ST_BEGIN -> r = 2 ->
    (* the reporting child itself is still waiting for its receipt *)
    set_fsm (match child_lookup i (g_children gi) with Some st => st | None => ST_BEGIN end) (event_of_receipt 2) <> None ->
    cm_change gi i r (Build_ginfo ST_BEGIN_FAILURE (g_height gi)
                                  (child_set i ST_FAILURE (children_all ST_BEGIN_FAILURE (g_children gi))) (g_count gi)) true
| CmStep st st' :
    (g_state gi =? ST_BEGIN) && (r =? 2) = false ->
    child_lookup i (g_children gi) = Some st -> set_fsm st (event_of_receipt r) = Some st' ->
    multi_finished st' (child_set i st' (g_children gi)) (g_count gi) = false ->
    cm_change gi i r (Build_ginfo (g_state gi) (g_height gi) (child_set i st' (g_children gi)) (g_count gi)) false
| CmFinish st st' gs' :
    (g_state gi =? ST_BEGIN) && (r =? 2) = false ->
    child_lookup i (g_children gi) = Some st -> set_fsm st (event_of_receipt r) = Some st' ->
    multi_finished st' (child_set i st' (g_children gi)) (g_count gi) = true ->
    set_fsm (g_state gi) (event_of_receipt r) = Some gs' ->
    cm_change gi i r (Build_ginfo gs' (g_height gi) (child_set i st' (g_children gi)) (g_count gi)) true.

Lemma change_multi_inv gi i r gi' rm :
  change_multi cfg_fixed gi i r = Some (gi', rm) -> cm_change gi i r gi' rm.
Proof.
  unfold change_multi. cbn [d_fail_after_success cfg_fixed]. destruct ((g_state gi =? ST_BEGIN) && (r =? 2)) eqn:E.
  - apply andb_true_iff in E. destruct E as [E1 E2]. apply N.eqb_eq in E1, E2. subst r.
    destruct (set_fsm _ (event_of_receipt 2)) eqn:Ef; [|discriminate].
    intro H. inversion H; subst. apply CmFail; [exact E1 | reflexivity | rewrite Ef; discriminate].
  - destruct (child_lookup i (g_children gi)) as [st|] eqn:Ecl; [|discriminate].
    destruct (set_fsm st (event_of_receipt r)) as [st'|] eqn:Ef; [|discriminate].
    destruct (multi_finished _ _ _) eqn:Em.
    + destruct (set_fsm (g_state gi) _) as [gs'|] eqn:Eg; [|discriminate].
      intro H. inversion H; subst. eapply CmFinish; eauto.
    + intro H. inversion H; subst. eapply CmStep; eauto.
Qed.

Inductive rp_change (sorted : list txid -> list txid) (i : txid) (r : N) (t : txm) : txm -> change -> Prop :=
| RpSingle hh st st' :
    tm_rec t i = Some (hh, st) -> set_fsm st (event_of_receipt r) = Some st' ->
    rp_change sorted i r t (set_rec t i (hh, st')) (change_simple (Some st) st')
| RpMulti g gi gi' rm t1 :
    tm_rec t i = None -> tm_child t i = Some g -> tm_glob t g = Some gi ->
    child_lookup i (g_children gi) <> None ->
    cm_change gi i r gi' rm ->
    (if rm then tm_remove_timeout t (g_height gi) (TGid g) else Some t) = Some t1 ->
    let prev := g_state gi in
    let cur := g_state gi' in
    let others := filter (fun p => negb (txid_eqb (fst p) i)) (g_children gi') in
    let tofail := (prev =? ST_BEGIN) && (cur =? ST_BEGIN_FAILURE) in
    let seen := filter (fun p => negb (txid_eqb (fst p) i)) (g_children gi) in
    let ndst := if tofail then map fst (filter (fun p => snd p =? ST_SUCCESS) seen) else [] in
    rp_change sorted i r t (set_glob t1 g gi')
              (Build_change (Some prev) cur (sorted (map fst others)) (sorted ndst)
                            (sorted (map fst (g_children gi')))
                            (tofail && negb (match others with [] => true | _ => false end))).

Lemma tm_report_inv sorted t i r t' ch :
  tm_report cfg_fixed sorted t i r = Some (TmOk t' ch) -> rp_change sorted i r t t' ch.
Proof.
  unfold tm_report. destruct (tm_rec t i) as [[hh st]|] eqn:Er.
  - destruct (set_fsm st (event_of_receipt r)) as [st'|] eqn:Ef; [|discriminate].
    intro H. inversion H; subst. eapply RpSingle; eauto.
  - destruct (tm_child t i) as [g|] eqn:Ec; [|discriminate].
    destruct (tm_glob t g) as [gi|] eqn:Eg; [|discriminate].
    destruct (child_lookup i (g_children gi)) eqn:Ecl; [|discriminate].
    destruct (change_multi cfg_fixed gi i r) as [[gi' rm]|] eqn:Ecm; [|discriminate].
    apply change_multi_inv in Ecm.
    cbn [d_fail_ndst_lost cfg_fixed].
    destruct (if rm then tm_remove_timeout t (g_height gi) (TGid g) else Some t) as [t1|] eqn:E1; [|discriminate].
    intro H. inversion H; subst.
    eapply (RpMulti sorted i r t g gi gi' rm t1 Er Ec Eg); [rewrite Ecl; discriminate | exact Ecm | exact E1].
Qed.

Lemma child_set_keys i s l :
  map fst (child_set i s l) = if match child_lookup i l with Some _ => true | None => false end
                              then map fst l else map fst l ++ [i].
Proof.
  destruct (child_lookup i l) eqn:E.
  - apply child_set_keys_existing. apply child_lookup_in in E. apply (in_map fst) in E. exact E.
  - apply child_set_keys_new. apply child_lookup_none_notin. exact E.
Qed.

(** [change_multi] keeps the key list, the declared count and the timeout height *)
Lemma change_multi_keys gi i r gi' rm :
  child_lookup i (g_children gi) <> None ->
  change_multi cfg_fixed gi i r = Some (gi', rm) ->
  map fst (g_children gi') = map fst (g_children gi) /\ g_count gi' = g_count gi /\ g_height gi' = g_height gi.
Proof.
  intro Hin. unfold change_multi. cbn [d_fail_after_success cfg_fixed].
  assert (Hk : forall s l, child_lookup i l <> None -> map fst (child_set i s l) = map fst l).
  { intros s l Hl. rewrite child_set_keys. destruct (child_lookup i l); [reflexivity | contradiction]. }
  destruct ((g_state gi =? ST_BEGIN) && (r =? 2)).
  - destruct (set_fsm _ _); [|discriminate]. intro H. inversion H; subst. simpl. rewrite Hk.
    + rewrite children_all_keys. auto.
    + rewrite child_lookup_all. destruct (child_lookup i (g_children gi)); [discriminate | contradiction].
  - destruct (child_lookup i (g_children gi)) as [st|] eqn:E; [|discriminate].
    destruct (set_fsm st (event_of_receipt r)) as [st'|]; [|discriminate].
    destruct (multi_finished _ _ _).
    + destruct (set_fsm (g_state gi) _); [|discriminate].
      intro H. inversion H; subst. simpl. rewrite Hk by (rewrite E; discriminate). auto.
    + intro H. inversion H; subst. simpl. rewrite Hk by (rewrite E; discriminate). auto.
Qed.

(** * the five ways [tm_step] can succeed under [cfg_fixed] *)
Inductive ts_leaf (w : world) (h : N) (b : ibtp) (sf sd : svc_info) (terr : bool) (t : txm) : txm -> change -> Prop :=
| TsInterNew :
    is_request b = true -> (sv_hub sf =? sv_hub sd) = false -> tm_rec t (b_id b) = None ->
    let T := if sv_hub sf =? 0 then 0 else u64_of_Z (b_T b) in
    let st := if terr then ST_BEGIN_FAILURE else ST_BEGIN in
    ts_leaf w h b sf sd terr t (set_rec t (b_id b) (timeout_height h T, st)) (change_simple None st)
| TsInterNotice hh s s' :
    is_request b = true -> (sv_hub sf =? sv_hub sd) = false -> tm_rec t (b_id b) = Some (hh, s) ->
    set_fsm s (event_of_txstatus (b_xst b)) = Some s' ->
    ts_leaf w h b sf sd terr t (set_rec t (b_id b) (hh, s')) (change_simple (Some s) s')
| TsBegin :
    is_request b = true -> (sv_hub sf =? sv_hub sd) = true -> group_gid b = None ->
    let st := if terr then ST_BEGIN_FAILURE else ST_BEGIN in
    ts_leaf w h b sf sd terr t (set_rec t (b_id b) (timeout_height h (u64_of_Z (b_T b)), st)) (change_simple None st)
| TsMulti g t' ch :
    is_request b = true -> (sv_hub sf =? sv_hub sd) = true -> group_gid b = Some g ->
    bm_change (id_sort w) h g (b_id b) (u64_of_Z (b_T b)) terr (snd g) t t' ch ->
    ts_leaf w h b sf sd terr t t' ch
| TsReport t' ch :
    is_request b = false ->
    rp_change (id_sort w) (b_id b) (b_typ b) t t' ch ->
    ts_leaf w h b sf sd terr t t' ch.

Lemma tm_step_inv w h b sf sd terr t t' ch :
  tm_step cfg_fixed w h b sf sd terr t = Some (TmOk t' ch) -> ts_leaf w h b sf sd terr t t' ch.
Proof.
  unfold tm_step. destruct (is_request b) eqn:Erq.
  - destruct (sv_hub sf =? sv_hub sd) eqn:Ehub; cbn [negb].
    + destruct (group_gid b) as [g|] eqn:Eg.
      * intro H. apply tm_begin_multi_inv in H. eapply TsMulti; eauto.
      * unfold tm_begin. intro H. inversion H; subst. apply TsBegin; assumption.
    + unfold tm_begin_interbxh. cbn [d_interbxh_zero_record cfg_fixed].
      destruct (tm_rec t (b_id b)) as [[hh s0]|] eqn:Er.
      * cbn [fst snd]. destruct (set_fsm s0 _) as [s'|] eqn:Ef; [|discriminate].
        intro H. inversion H; subst. eapply TsInterNotice; eauto.
      * intro H. inversion H; subst. apply TsInterNew; assumption.
  - intro H. apply tm_report_inv in H. apply TsReport; [exact Erq | exact H].
Qed.
