(** The intake cache composed with the pool: the sets the cache delivers, fed to
    ProcessTransactions in order, form a history to which all C19 theorems apply, and together
    they carry exactly the accepted transactions. *)
From BX Require Import Base.Prelude Model.Mempool Model.MempoolSpec Model.TxCache.
From BX Require Import Proofs.MempoolLib Proofs.MempoolReach Proofs.MempoolTrace3 Proofs.MempoolProofs Proofs.TxCacheProofs.
Local Open Scope N_scope.

Definition pool_history (leader : bool) (now : N) (sets : list (list tx)) : list op :=
  map (fun s => OProcess leader true now s) sets.

Lemma delivered_in_received size ops t :
  In t (concat (delivered (snd (crun size cs0 ops)))) -> In t (received ops).
Proof. intro H. rewrite <- (intake_no_loss size ops). apply in_or_app. left. exact H. Qed.

Theorem intake_compose p accts univ k ops leader now :
  (forall t, In t (received ops) -> In t univ /\ In (t_acct t) accts) ->
  let sets := delivered (snd (crun (set_size k) cs0 ops)) in
  good_history accts univ (pool_history leader now sets) /\
  model_fails p accts univ (pool_history leader now sets) = [].
Proof.
  intros Hf sets.
  assert (G : good_history accts univ (pool_history leader now sets)).
  { split.
    - unfold pool_history. induction sets as [|s r IH]; [reflexivity | exact IH].
    - intros o Ho. unfold pool_history in Ho. apply in_map_iff in Ho. destruct Ho as [s [<- Hs]].
      intros t Ht. apply Hf. apply (delivered_in_received (set_size k) ops). apply in_concat. exists s. split; assumption. }
  split; [exact G | apply no_failure_code; exact G].
Qed.
