(** Proofs about [Model/Merkle.v] (cbergoon/merkletree as used by calcMerkleRoot). *)
From BX Require Import Base.Prelude Model.JsonAcct Model.Merkle.
From Coq Require Import Arith PeanoNat.
Local Open Scope nat_scope.

Lemma app_inj_len {A} (a a' b b' : list A) :
  List.length a = List.length a' -> a ++ b = a' ++ b' -> a = a' /\ b = b'.
Proof.
  revert a'. induction a as [|x a IH]; intros [|y a'] Hl He; simpl in *; try discriminate.
  - split; [reflexivity | exact He].
  - inversion He; subst. injection Hl as Hl. destruct (IH a' Hl H1) as [-> ->]. split; reflexivity.
Qed.

Lemma list_ind2 {A} (P : list A -> Prop) :
  P [] -> (forall a, P [a]) -> (forall a b t, P t -> P (a :: b :: t)) -> forall l, P l.
Proof.
  intros H0 H1 H2.
  assert (Hb : forall l, P l /\ forall a, P (a :: l)).
  { induction l as [|x t [IH1 IH2]].
    - split; [exact H0 | exact H1].
    - split; [apply IH2 | intro a; apply H2; exact IH1]. }
  intro l. apply Hb.
Qed.

Section MerkleFacts.
  Variable H : bytes -> bytes.
  (** SHA-256 has a fixed output length and is assumed collision-free on the 64-byte inputs
      that inner nodes hash (left ++ right of two 32-byte hashes) *)
  Hypothesis H_len : forall x, List.length (H x) = 32.
  Hypothesis H_inj64 : forall x y, List.length x = 64 -> List.length y = 64 -> H x = H y -> x = y.

  Definition len32 (b : bytes) : Prop := List.length b = 32.

  Lemma node_inj a b a' b' : len32 a -> len32 b -> len32 a' -> len32 b' ->
    H (a ++ b) = H (a' ++ b') -> a = a' /\ b = b'.
  Proof.
    unfold len32. intros Ha Hb Ha' Hb' He.
    apply H_inj64 in He; [| rewrite app_length; lia | rewrite app_length; lia].
    apply app_inj_len in He; [exact He | congruence].
  Qed.

  Lemma pair_up_len32 : forall l, Forall len32 (pair_up H l).
  Proof.
    induction l as [|a|a b t IH] using list_ind2; simpl.
    - constructor.
    - constructor; [apply H_len | constructor].
    - constructor; [apply H_len | apply IH].
  Qed.

  Lemma pair_up_length : forall l1 l2, List.length l1 = List.length l2 ->
    List.length (pair_up H l1) = List.length (pair_up H l2).
  Proof.
    induction l1 as [|a|a b t IH] using list_ind2; intros [|a' [|b' t']] Hl; simpl in *;
      try discriminate; try reflexivity.
    f_equal. apply IH. lia.
  Qed.

  Lemma pair_up_inj : forall l1 l2, List.length l1 = List.length l2 ->
    Forall len32 l1 -> Forall len32 l2 -> pair_up H l1 = pair_up H l2 -> l1 = l2.
  Proof.
    induction l1 as [|a|a b t IH] using list_ind2; intros [|a' [|b' t']] Hl F1 F2 He; simpl in *;
      try discriminate; try reflexivity.
    - inversion F1; inversion F2; subst. injection He as He.
      apply node_inj in He; try assumption. destruct He as [-> _]. reflexivity.
    - inversion F1 as [|? ? Ha F1']; inversion F1' as [|? ? Hb F1'']; subst.
      inversion F2 as [|? ? Ha' F2']; inversion F2' as [|? ? Hb' F2'']; subst.
      injection He as He1 He2.
      apply node_inj in He1; try assumption. destruct He1 as [-> ->].
      f_equal. f_equal. apply IH; try assumption. lia.
  Qed.

  (** equal-length leaf lists with equal roots are equal: every leaf and every position is
      committed to *)
  Lemma build_levels_inj : forall fuel l1 l2 r, List.length l1 = List.length l2 ->
    Forall len32 l1 -> Forall len32 l2 ->
    build_levels H fuel l1 = Some r -> build_levels H fuel l2 = Some r -> l1 = l2.
  Proof.
    induction fuel as [|k IH]; intros l1 l2 r Hl F1 F2 B1 B2; simpl in *; [discriminate|].
    destruct l1 as [|a [|b [|c t]]]; destruct l2 as [|a' [|b' [|c' t']]]; simpl in Hl; try discriminate.
    - reflexivity.
    - (* one element: next level is [H (a++a)] *)
      pose proof (IH (pair_up H [a]) (pair_up H [a']) r eq_refl (pair_up_len32 [a]) (pair_up_len32 [a']) B1 B2) as B.
      simpl in B. injection B as B0.
      inversion F1; inversion F2; subst. apply node_inj in B0; try assumption. destruct B0 as [-> _]. reflexivity.
    - inversion F1 as [|? ? Ha F1']; inversion F1' as [|? ? Hb _]; subst.
      inversion F2 as [|? ? Ha' F2']; inversion F2' as [|? ? Hb' _]; subst.
      rewrite <- B2 in B1. injection B1 as B1. apply node_inj in B1; try assumption.
      destruct B1 as [-> ->]. reflexivity.
    - pose proof (IH _ _ r (pair_up_length (a :: b :: c :: t) (a' :: b' :: c' :: t') Hl)
                     (pair_up_len32 _) (pair_up_len32 _) B1 B2) as B.
      apply pair_up_inj in B; assumption.
  Qed.

  Lemma pad_leaves_inj l1 l2 : List.length l1 = List.length l2 -> pad_leaves l1 = pad_leaves l2 -> l1 = l2.
  Proof.
    unfold pad_leaves. intros Hl. rewrite Hl. destruct (Nat.odd (List.length l2)); intro He; [| exact He].
    apply app_inj_tail in He. apply He.
  Qed.

  Lemma last_len32 l : Forall len32 l -> l <> [] -> len32 (last l []).
  Proof.
    induction l as [|x t IH]; intros F Hne; [congruence|].
    inversion F; subst. destruct t as [|y t']; [assumption|]. apply IH; [assumption | discriminate].
  Qed.

  Lemma pad_leaves_len32 l : Forall len32 l -> Forall len32 (pad_leaves l).
  Proof.
    intro F. unfold pad_leaves. destruct (Nat.odd (List.length l)) eqn:E; [| exact F].
    apply Forall_app. split; [exact F|]. constructor; [| constructor].
    apply last_len32; [exact F|]. intro; subst. discriminate.
  Qed.

  Theorem merkle_position_sensitive : forall l1 l2 r,
    List.length l1 = List.length l2 -> Forall len32 l1 -> Forall len32 l2 ->
    merkle_root H l1 = Some r -> merkle_root H l2 = Some r -> l1 = l2.
  Proof.
    intros l1 l2 r Hl F1 F2 R1 R2. unfold merkle_root in *.
    destruct l1 as [|a t]; destruct l2 as [|a' t']; try discriminate; [reflexivity|].
    assert (Hpl : List.length (pad_leaves (a :: t)) = List.length (pad_leaves (a' :: t'))).
    { unfold pad_leaves. rewrite Hl. destruct (Nat.odd _); [rewrite !app_length|]; simpl in *; lia. }
    rewrite Hpl in R1.
    apply pad_leaves_inj; [exact Hl|].
    eapply build_levels_inj; try eassumption; apply pad_leaves_len32; assumption.
  Qed.

End MerkleFacts.

Section MerkleTotal.
  Variable H : bytes -> bytes.

  (** the root computation is total: the fuel given by [merkle_root] always suffices *)
  Lemma pair_up_shrinks : forall l, 3 <= List.length l ->
    2 <= List.length (pair_up H l) /\ List.length (pair_up H l) < List.length l.
  Proof.
    assert (Hg : forall l, List.length (pair_up H l) = Nat.div2 (S (List.length l))).
    { induction l as [|a|a b t IH] using list_ind2; simpl; try reflexivity. rewrite IH. reflexivity. }
    intros l Hl. rewrite Hg.
    destruct l as [|a [|b [|c t]]]; simpl in Hl; try lia.
    simpl List.length. generalize (List.length t). intro n.
    pose proof (Nat.div2_decr (S (S (S (S n)))) (S (S (S n))) ltac:(lia)).
    assert (2 <= Nat.div2 (S (S (S (S n))))). { simpl. lia. }
    split; [assumption|].
    change (Nat.div2 (S (S (S (S n))))) with (S (Nat.div2 (S (S n)))).
    pose proof (Nat.div2_decr (S (S n)) (S n) ltac:(lia)). lia.
  Qed.

  Lemma build_levels_total : forall fuel l, 2 <= List.length l <= fuel -> build_levels H fuel l <> None.
  Proof.
    induction fuel as [|k IH]; intros l Hl; [lia|]. simpl.
    destruct l as [|a [|b [|c t]]]; simpl in Hl; try lia; [discriminate|].
    apply IH. destruct (pair_up_shrinks (a :: b :: c :: t)) as [I1 I2]; simpl in *; lia.
  Qed.

  Theorem merkle_root_total : forall l, merkle_root H l <> None.
  Proof.
    intros [|a t]; [discriminate|].
    unfold merkle_root. apply build_levels_total.
    unfold pad_leaves. destruct (Nat.odd (List.length (a :: t))) eqn:E.
    - rewrite app_length; simpl. lia.
    - simpl in *. destruct t; [discriminate | simpl; lia].
  Qed.
End MerkleTotal.

(** odd-length duplication: a list of odd length and the same list with its last element
    repeated have the same root, for every hash function.  The tx / receipt root therefore does
    not commit to the number of transactions. *)
Theorem merkle_dup_refuted : forall (H : bytes -> bytes) (a b c : bytes),
  merkle_root H [a; b; c] = merkle_root H [a; b; c; c].
Proof. intros. reflexivity. Qed.

Theorem merkle_dup_general : forall (H : bytes -> bytes) (l : list bytes),
  Nat.odd (List.length l) = true -> l <> [] ->
  merkle_root H l = merkle_root H (l ++ [last l []]).
Proof.
  intros H l Ho Hne. unfold merkle_root.
  destruct l as [|a t]; [congruence|].
  destruct ((a :: t) ++ [last (a :: t) []]) eqn:E; [destruct t; discriminate|].
  rewrite <- E. unfold pad_leaves. rewrite Ho.
  assert (Hev : Nat.odd (List.length ((a :: t) ++ [last (a :: t) []])) = false).
  { rewrite app_length. simpl List.length. rewrite Nat.add_1_r, Nat.odd_succ.
    rewrite <- Nat.negb_odd. simpl List.length in Ho. rewrite Ho. reflexivity. }
  rewrite Hev. rewrite !app_length. simpl List.length.
  (* more fuel does not change a finished computation: both sides use enough fuel *)
  reflexivity.
Qed.
