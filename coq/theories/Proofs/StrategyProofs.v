(** Proofs about [Model/Strategy.v]: the decision function of MakeStrategyDecision for an
    arbitrary decision predicate. *)
From BX Require Import Base.Prelude Model.Strategy.
From Coq Require Import ZifyBool ZifyN ZifyNat QArith.
Local Open Scope N_scope.

Section Decide.
  Variable s : N -> N -> N -> bool.

  Lemma decide_approve uf a r t av : decide s uf a r t av = DApprove <-> s a r t = true.
  Proof.
    unfold decide. destruct (s a r t); [tauto|].
    destruct (s (amax uf r av) r t); split; intro H; discriminate.
  Qed.

  Lemma decide_reject uf a r t av :
    decide s uf a r t av = DReject <-> s a r t = false /\ s (amax uf r av) r t = false.
  Proof.
    unfold decide. destruct (s a r t).
    - split; [discriminate | intros [H _]; discriminate].
    - destruct (s (amax uf r av) r t); split; intro H; try discriminate; try tauto.
      destruct H; discriminate.
  Qed.

  Lemma decide_open uf a r t av :
    decide s uf a r t av = DOpen <-> s a r t = false /\ s (amax uf r av) r t = true.
  Proof.
    unfold decide. destruct (s a r t).
    - split; [discriminate | intros [H _]; discriminate].
    - destruct (s (amax uf r av) r t); split; intro H; try discriminate; try tauto.
      destruct H; discriminate.
  Qed.

  (** with the guard, and while no wrap-around is possible, both subtractions agree *)
  Lemma amax_agree r av : r <= av -> av < W64 -> amax true r av = amax false r av.
  Proof.
    intros H1 H2. unfold amax, wrap64.
    replace (av + W64 - r) with (av - r + 1 * W64) by lia.
    rewrite N.mod_add by (unfold W64; lia). apply N.mod_small. lia.
  Qed.

  (** REJECTED only if unreachable: needs monotonicity of the expression *)
  Lemma reject_unreachable a r t av m :
    mono s -> decide s false a r t av = DReject -> a + r + m <= av -> ~ reachable s a r t m.
  Proof.
    intros Hm Hd Hle [k [j [Hkj Hs]]].
    apply decide_reject in Hd. destruct Hd as [_ Hd]. unfold amax in Hd.
    assert (s (av - r) r t = true) as Hc.
    { apply (Hm (a + k) (av - r) (r + j) r t); [lia | lia | exact Hs]. }
    rewrite Hc in Hd. discriminate.
  Qed.

  (** conversely the repaired decision never leaves a proposal open or rejects late *)
  Lemma unreachable_reject a r t av :
    a + r <= av -> ~ reachable s a r t (av - (a + r)) -> decide s false a r t av = DReject.
  Proof.
    intros Hle Hn. apply decide_reject. split.
    - destruct (s a r t) eqn:E; [|reflexivity]. exfalso. apply Hn. exists 0, 0.
      rewrite !N.add_0_r. split; [lia | exact E].
    - unfold amax. destruct (s (av - r) r t) eqn:E; [|reflexivity]. exfalso. apply Hn.
      exists (av - (a + r)), 0. split; [lia|]. rewrite N.add_0_r.
      replace (a + (av - (a + r))) with (av - r) by lia. exact E.
  Qed.

  Lemma approve_sound uf a r t av : decide s uf a r t av = DApprove -> s a r t = true.
  Proof. apply decide_approve. Qed.

  (** threshold search *)
  Lemma find_from_some f cnt : forall start x,
    find_from f start cnt = Some x ->
    start <= x /\ x < start + N.of_nat cnt /\ f x = true /\ (forall y, start <= y -> y < x -> f y = false).
  Proof.
    induction cnt as [|k IH]; intros start x H; simpl in H; [discriminate|].
    destruct (f start) eqn:E.
    - inversion H; subst. split; [lia|]. split; [lia|]. split; [exact E|]. intros y H1 H2. lia.
    - apply IH in H. destruct H as [H1 [H2 [H3 H4]]]. split; [lia|]. split; [lia|]. split; [exact H3|].
      intros y Hy1 Hy2. destruct (N.eq_dec y start) as [->|Hne]; [exact E|]. apply H4; lia.
  Qed.

  Lemma find_from_none f cnt : forall start,
    find_from f start cnt = None -> forall y, start <= y -> y < start + N.of_nat cnt -> f y = false.
  Proof.
    induction cnt as [|k IH]; intros start H y H1 H2; simpl in H.
    - lia.
    - destruct (f start) eqn:E; [discriminate|].
      destruct (N.eq_dec y start) as [->|Hne]; [exact E|]. apply (IH (start + 1)); try lia. exact H.
  Qed.

  Lemma threshold_some a r t x :
    threshold s a r t = Some x ->
    a <= x /\ x <= t /\ s x r t = true /\ (forall y, a <= y -> y < x -> s y r t = false).
  Proof.
    unfold threshold. destruct (t <? a) eqn:E; [discriminate|]. intro H.
    apply find_from_some in H. destruct H as [H1 [H2 [H3 H4]]].
    split; [lia|]. split; [lia|]. split; [exact H3 | exact H4].
  Qed.

  Lemma threshold_none a r t :
    threshold s a r t = None -> forall y, a <= y -> y <= t -> s y r t = false.
  Proof.
    unfold threshold. destruct (t <? a) eqn:E; intros H y H1 H2; [lia|].
    apply (find_from_none _ _ _ H y); lia.
  Qed.

  (** CheckStrategyExpression admits exactly the expressions some a in [0..n] satisfies at r = 0 *)
  Lemma admitted_spec n : admitted s n = true <-> exists a, a <= n /\ s a 0 n = true.
  Proof.
    unfold admitted. destruct (threshold s 0 0 n) as [x|] eqn:E; split; intro H.
    - apply threshold_some in E. exists x. tauto.
    - reflexivity.
    - discriminate.
    - destruct H as [a [H1 H2]]. rewrite (threshold_none _ _ _ E a) in H2; [discriminate | lia | lia].
  Qed.

  (** reflection of the reachability check *)
  Lemma upto_in n x : In x (upto n) <-> x <= N.of_nat n.
  Proof.
    induction n as [|k IH]; simpl.
    - split; [intros [<-|[]]; lia | intro H; left; lia].
    - rewrite in_app_iff, IH. simpl. split.
      + intros [H|[<-|[]]]; lia.
      + intro H. destruct (N.eq_dec x (N.of_nat (S k))) as [->|Hne]; [right; left; reflexivity | left; lia].
  Qed.

  Lemma reachable_b_spec a r t m : reachable_b s a r t m = true <-> reachable s a r t m.
  Proof.
    unfold reachable_b, reachable. rewrite existsb_exists. split.
    - intros [k [Hk H]]. apply existsb_exists in H. destruct H as [j [Hj H]].
      apply andb_true_iff in H. destruct H as [H1 H2]. exists k, j. split; [lia | exact H2].
    - intros [k [j [H1 H2]]]. exists k. split; [apply upto_in; lia|].
      apply existsb_exists. exists j. split; [apply upto_in; lia|].
      apply andb_true_iff. split; [lia | exact H2].
  Qed.
End Decide.

(** * Witnesses: the defects of the unrepaired decision function *)

(** an expression admitted by configuration checking ([a == 2], four admins) for which the
    decision rejects after the first approval although two approvals are still reachable *)
Lemma nonmonotone_refuted :
  exists s : N -> N -> N -> bool,
    admitted s 4 = true /\ decide s false 1 0 4 4 = DReject /\ reachable s 1 0 4 3.
Proof.
  exists (fun a _ _ => a =? 2). split; [vm_compute; reflexivity|]. split; [vm_compute; reflexivity|].
  exists 1, 0. split; [lia | reflexivity].
Qed.

Definition simple_majority (a _ t : N) : bool := t <? 2 * a.

Lemma simple_majority_mono : mono simple_majority.
Proof. unfold mono, simple_majority. intros. lia. Qed.

(** reject > available: the uint64 subtraction wraps, the huge "optimistic" count satisfies the
    expression and the proposal stays open although no elector is left; the guarded subtraction
    rejects *)
Lemma underflow_refuted :
  exists s, mono s /\ decide s true 0 3 4 2 = DOpen /\ decide s false 0 3 4 2 = DReject /\
            ~ reachable s 0 3 4 0.
Proof.
  exists simple_majority. split; [exact simple_majority_mono|].
  split; [vm_compute; reflexivity|]. split; [vm_compute; reflexivity|].
  intros [k [j [H1 H2]]]. assert (k = 0) by lia. assert (j = 0) by lia. subst. vm_compute in H2. discriminate.
Qed.

(** * The deep embedding agrees with the shallow reading on the default expression *)
Definition default_bexp : bexp := BCmp CGt NA (NMul (NConst (1#2)) NT).

Lemma round53_small n : n < 9007199254740992 -> round53 n = n.
Proof. intro H. unfold round53. destruct (n <? 9007199254740992) eqn:E; [reflexivity | lia]. Qed.

Lemma default_bexp_spec a r t :
  a < 9007199254740992 -> t < 9007199254740992 -> qsem default_bexp a r t = simple_majority a r t.
Proof.
  intros Ha Ht. unfold qsem, default_bexp, simple_majority, f64N. cbn [beval neval qcmp].
  rewrite !round53_small by (assumption || lia).
  unfold Qle_bool, Qmult, inject_Z. cbn [Qnum Qden].
  destruct (t <? 2 * a) eqn:E.
  - apply negb_true_iff. apply Z.leb_gt. lia.
  - apply negb_false_iff. apply Z.leb_le. lia.
Qed.

Example round53_examples :
  round53 18446744073709551615 = 18446744073709551616 /\
  round53 9007199254740993 = 9007199254740992 /\
  round53 9007199254740995 = 9007199254740996 /\
  round53 9007199254740994 = 9007199254740994.
Proof. vm_compute. repeat split. Qed.
