(** One block under [cfg_fixed]: the transaction loop keeps the base invariant and the
    mid-block timeout invariant, [setTimeoutList] / [setTimeoutRollback] re-establish the
    block-boundary invariant, and the block function is total on well-formed operations. *)
From BX Require Import Base.Prelude Base.Fsm Model.TxFsm Model.TxMgr Model.Interchain Model.IbtpExec
     Proofs.TxFsmProofs Proofs.IbtpBasics Proofs.IbtpStep Proofs.IbtpTm Proofs.IbtpIc Proofs.IbtpInv
     Proofs.IbtpTl Proofs.IbtpTimeout.
From Coq Require Import String ZifyBool ZifyN ZifyNat.
Local Open Scope N_scope.

(** * well-formed operations: what the theorems assume about the input *)
Definition ibtp_wf (w : world) (b : ibtp) : Prop :=
  b_idx b < B63 /\ T_int64 b /\
  (forall sf, svc_lookup w (b_from b) = Some sf -> is_local sf = true).
Definition op_wf (w : world) (o : op) : Prop :=
  match o with OIbtp b _ => ibtp_wf w b | _ => True end.

(** * ghost state of the transaction loop *)
Definition done_t := list (op * txres).
Definition rcv_of (d : done_t) (i : txid) : Prop :=
  exists b p r, In (OIbtp b p, r) d /\ is_request b = false /\ b_id b = i /\
                is_response b = true /\ tx_skipped r = false.
Definition add_of (w : world) (h : N) (x : op * txres) : list (N * txid) :=
  match fst x with
  | OIbtp b _ =>
      if (match b_grp b with Some _ => true | None => false end) && is_request b then []
      else if tx_skipped (snd x) then []
      else if is_request b then
        if (b_T b <=? 0)%Z || (MAXU64 - h <=? u64_of_Z (b_T b)) then []
        else if to_remote_hub w b then []
        else [(h + u64_of_Z (b_T b), b_id b)]
      else []
  | _ => []
  end.
Definition pend_of (w : world) (h : N) (d : done_t) : list (N * txid) := flat_map (add_of w h) d.

Lemma rcv_of_app d x i : rcv_of (d ++ [x]) i <-> rcv_of d i \/ rcv_of [x] i.
Proof.
  unfold rcv_of. split.
  - intros [b [p [r [Hin H]]]]. apply in_app_or in Hin. destruct Hin as [Hin | Hin]; [left | right]; eauto 6.
  - intros [[b [p [r [Hin H]]]] | [b [p [r [Hin H]]]]]; exists b, p, r; (split; [apply in_or_app; auto | exact H]).
Qed.
Lemma pend_of_app w h d x : pend_of w h (d ++ [x]) = pend_of w h d ++ add_of w h x.
Proof. unfold pend_of. rewrite flat_map_app. simpl. rewrite app_nil_r. reflexivity. Qed.

(** * the transaction manager never leaves the domain *)
Lemma tm_step_total w h H b sf sd terr t rcv pend :
  TMid w t H rcv pend -> exists x, tm_step cfg_fixed w h b sf sd terr t = Some x.
Proof.
  intro M. unfold tm_step. destruct (is_request b).
  - destruct (negb (sv_hub sf =? sv_hub sd)); [eexists; reflexivity|].
    destruct (group_gid b) as [g|]; [|eexists; reflexivity].
    unfold tm_begin_multi. destruct (tm_glob t g) as [gi|]; [|eexists; reflexivity].
    destruct (child_lookup (b_id b) (g_children gi)); [eexists; reflexivity|].
    destruct (negb (g_state gi =? ST_BEGIN)).
    + destruct (is_final (g_state gi) && _); eexists; reflexivity.
    + destruct terr; [|eexists; reflexivity].
      destruct (tm_remove_timeout_tl t (g_height gi) (TGid g) (tok_gid_ne_empty g) (m_ok _ _ _ _ _ M (g_height gi)))
        as [t1 [E _]]. rewrite E. eexists; reflexivity.
  - unfold tm_report. destruct (tm_rec t (b_id b)) as [[hh st]|].
    + destruct (set_fsm st _); eexists; reflexivity.
    + destruct (tm_child t (b_id b)) as [g|]; [|eexists; reflexivity].
      destruct (tm_glob t g) as [gi|]; [|eexists; reflexivity].
      destruct (child_lookup (b_id b) (g_children gi)); [|eexists; reflexivity].
      destruct (change_multi cfg_fixed gi (b_id b) (b_typ b)) as [[gi' rm]|]; [|eexists; reflexivity].
      destruct rm; [|eexists; reflexivity].
      destruct (tm_remove_timeout_tl t (g_height gi) (TGid g) (tok_gid_ne_empty g) (m_ok _ _ _ _ _ M (g_height gi)))
        as [t1 [E _]]. rewrite E. eexists; reflexivity.
Qed.

Lemma handle_total w h H serial b t c rcv pend :
  TMid w t H rcv pend -> exists x, handle_ibtp cfg_fixed w h serial b t c = Some x.
Proof.
  intro M. unfold handle_ibtp.
  destruct (check_ibtp cfg_fixed w c b) as [batch terr notif|e] eqn:Ec; [|eexists; reflexivity].
  destruct (check_fixed _ _ _ _ _ _ Ec) as [_ [_ [[sf [sd [Ef [Ed _]]]] _]]]. rewrite Ef, Ed.
  destruct (tm_step_total w h H b sf sd terr t rcv pend M) as [x Ex]. rewrite Ex.
  destruct x as [t' ch | e]; [|eexists; reflexivity].
  destruct (w_audit w && _); eexists; reflexivity.
Qed.

(** * one IBTP transaction: both invariants *)
Lemma process_ret w c b rec serial notif terr cur kids :
  (is_request b && negb notif = false -> terr = false) ->
  snd (process_ibtp w c b rec serial notif terr false cur kids) = if terr then 1 else 0.
Proof.
  intro Ht. unfold process_ibtp. destruct (is_request b && negb notif) eqn:E.
  - reflexivity.
  - rewrite (Ht eq_refl). destruct (is_final cur); [|reflexivity].
    destruct kids as [|k0 kr]; [reflexivity|]. destruct (handle_multi c (k0 :: kr)) as [c1 ok]. destruct ok; reflexivity.
Qed.

Lemma add_of_accepted w h b p terr (ret : N) chains :
  ret = (if (terr : bool) then 1 else 0) ->
  add_of w h (OIbtp b p, Build_txres true 0 ret chains false) = reg_of w h b terr.
Proof.
  intros ->. unfold add_of, reg_of, tx_skipped. cbn [fst snd r_ok r_ret negb orb].
  destruct (b_grp b) as [[g n]|]; cbn [andb].
  - destruct (is_request b); cbn [andb]; [reflexivity|].
    destruct terr; cbn; reflexivity.
  - destruct (is_request b); cbn [andb].
    + destruct terr; cbn [N.eqb Pos.eqb orb negb andb]; [reflexivity|].
      destruct ((b_T b <=? 0)%Z || (MAXU64 - h <=? u64_of_Z (b_T b))); cbn [negb andb]; [reflexivity|].
      destruct (to_remote_hub w b); reflexivity.
    + destruct terr; reflexivity.
Qed.

Lemma handle_both w h H serial b p t c t' c' r d :
  BInv w t c -> TMid w t H (rcv_of d) (pend_of w h d) -> h = H + 1 -> h < W64 -> ibtp_wf w b ->
  handle_ibtp cfg_fixed w h serial b t c = Some (t', c', r) ->
  BInv w t' c' /\ TMid w t' H (rcv_of (d ++ [(OIbtp b p, r)])) (pend_of w h (d ++ [(OIbtp b p, r)])) /\
  hok w h serial b t c t' c' r.
Proof.
  intros I M Hh Hhw [Hsmall [HT Hfl]] Hhi.
  destruct (binv_handle _ _ _ _ _ _ _ _ _ I Hsmall Hhi) as [I' K].
  split; [exact I'|]. split; [|exact K].
  rewrite pend_of_app.
  destruct K as [e | sf sd terr notif t' ch Esf Esd Ec Et nc pc].
  - (* rejected *)
    assert (Ea : add_of w h (OIbtp b p, res_err e) = []).
    { unfold add_of. simpl. destruct (_ && is_request b); reflexivity. }
    rewrite Ea, app_nil_r. eapply tmid_weaken_rcv; [|exact M].
    intros i Hi. apply rcv_of_app. left. exact Hi.
  - destruct (check_fixed _ _ _ _ _ _ Ec) as [_ [Hnotif [[sf0 [sd0 [Ef0 [Ed0 [Hterr1 Hterr2]]]]] Hidx]]].
    rewrite Esf in Ef0. rewrite Esd in Ed0. inversion Ef0; inversion Ed0; subst sf0 sd0.
    pose proof (Hfl sf Esf) as Hloc.
    assert (Hfresh : is_request b = true -> (sv_hub sf =? sv_hub sd) = true -> ~ begun t (b_id b)).
    { intros Hrq Hhub Hb.
      assert (Hn : notif = false).
      { rewrite Hnotif. unfold is_notification. rewrite Esf, Esd, Hhub. reflexivity. }
      unfold expected_index in Hidx. rewrite Hrq, Hn in Hidx. simpl in Hidx.
      pose proof (b_begun_le _ _ _ I _ _ _ Hb) as Hle.
      pose proof (b_small _ _ _ I (b_from b) (b_to b)) as Hs.
      fold (IC c (b_from b) (b_to b)) in Hidx. rewrite wrap64_small in Hidx by (unfold B63, W64 in *; lia).
      simpl in Hle. lia. }
    pose proof (tmid_step w h H b sf sd terr t t' ch _ _ M (binv_ginv _ _ _ I) Hh Hhw HT Esf Esd Hloc Et Hfresh) as M'.
    rewrite (add_of_accepted w h b p terr (snd pc) (snd nc)).
    + eapply tmid_weaken_rcv; [|exact M'].
      intros i [Hi | [Hrq Hi]].
      * apply rcv_of_app. left. exact Hi.
      * apply rcv_of_app. right. exists b, p, (Build_txres true 0 (snd pc) (snd nc) false).
        split; [left; reflexivity|]. split; [exact Hrq|]. split; [symmetry; exact Hi|].
        assert (Hx : is_request b && negb notif = false) by (rewrite Hrq; reflexivity).
        destruct (Hterr2 Hx) as [Ht0 Hrs].
        assert (Hnf : notif = false).
        { rewrite Hnotif. unfold is_notification. rewrite Esf, Esd, Hrq. rewrite andb_false_r. reflexivity. }
        rewrite Hnf, orb_false_r in Hrs. split; [exact Hrs|].
        unfold tx_skipped. cbn [r_ok r_ret negb orb].
        unfold pc. rewrite process_ret by (intro; exact Ht0). rewrite Ht0. reflexivity.
    + unfold pc. apply process_ret. intro Hx. apply (Hterr2 Hx).
Qed.

(** * public calls *)
Lemma get_rec_put_zero c k x : i_rec c k = None -> get_rec (put_rec c k icrec_zero) x = get_rec c x.
Proof.
  intro Hn. unfold get_rec, put_rec. simpl. unfold upd. destruct (x =? k) eqn:E; [|reflexivity].
  apply N.eqb_eq in E. subst. rewrite Hn. reflexivity.
Qed.

Lemma binv_put_zero w t c k : BInv w t c -> i_rec c k = None -> BInv w t (put_rec c k icrec_zero).
Proof.
  intros I Hn. pose proof (get_rec_put_zero c k) as G. specialize (fun x => G x Hn).
  destruct I as [B1 B2 B3 B4 B5 B6 B7 B8 G1 G2 G3 G4 G5].
  constructor; unfold IC, RC, SIC, SRC in *; try assumption; intros.
  - rewrite G. apply B1.
  - rewrite G. apply B2. assumption.
  - rewrite G in *. apply B3. assumption.
  - rewrite G. simpl. apply B4.
  - rewrite !G. apply B5.
  - rewrite !G. apply B6.
  - rewrite !G. apply B7.
Qed.

Ltac fiveway := split; [try reflexivity|]; split; [try reflexivity|]; split; [try reflexivity|]; split; [try reflexivity|].

Lemma apply_call_inv w st touched m a b c d st' r :
  apply_call cfg_fixed w st touched m a b c d = (st', r) ->
  s_tm st' = s_tm st /\ s_h st' = s_h st /\ s_ph st' = s_ph st /\ r_chains r = [] /\
  (BInv w (s_tm st) (s_ic st) -> BInv w (s_tm st') (s_ic st')).
Proof.
  unfold apply_call. cbv zeta.
  assert (Hsame : forall r0 : txres, r_chains r0 = [] -> (st, r0) = (st', r) ->
            s_tm st' = s_tm st /\ s_h st' = s_h st /\ s_ph st' = s_ph st /\ r_chains r = [] /\
            (BInv w (s_tm st) (s_ic st) -> BInv w (s_tm st') (s_ic st'))).
  { intros r0 Hr H. inversion H; subst. split; [reflexivity|]. split; [reflexivity|]. split; [reflexivity|]. split; [exact Hr|]. auto. }
  destruct (m =? 1).
  { apply Hsame. destruct (call_get_interchain (s_ic st) a); reflexivity. }
  destruct (m =? 2).
  { unfold call_delete. cbn [d_delete_interchain cfg_fixed]. intro H. inversion H; subst; clear H. simpl. fiveway; auto. }
  destruct (m =? 3).
  { unfold call_register. destruct (svc_lookup w a) as [s|].
    - destruct (is_local s).
      + destruct (i_rec (s_ic st) a) eqn:E.
        * intro H. inversion H; subst; clear H. simpl. fiveway; auto.
        * intro H. inversion H; subst; clear H. simpl. fiveway; auto.
          intro I. apply binv_put_zero; assumption.
      + intro H. inversion H; subst; clear H. simpl. fiveway; auto.
    - destruct (w_audit w); intro H; inversion H; subst; clear H; simpl; fiveway; auto. }
  destruct (m =? 4).
  { apply Hsame. destruct (call_get_ibtp _ _ _); reflexivity. }
  destruct (m =? 5).
  { apply Hsame. destruct (svc_lookup w a) as [sf|]; [|reflexivity]. destruct (svc_lookup w b) as [sd|]; [|reflexivity].
    destruct (is_local sf); [reflexivity|]. destruct (negb (is_local sd)); [reflexivity|].
    destruct (negb (hub_avail w (sv_hub sf))); reflexivity. }
  destruct ((m =? 6) || (m =? 7)).
  { apply Hsame. reflexivity. }
  destruct (m =? 8).
  { apply Hsame. destruct (tm_status_tx _ _); reflexivity. }
  destruct (m =? 9).
  { apply Hsame. reflexivity. }
  apply Hsame. reflexivity.
Qed.

(** * the transaction loop *)
Lemma add_of_nonibtp w h o r : (forall b p, o <> OIbtp b p) -> add_of w h (o, r) = [].
Proof. intro H. unfold add_of. simpl. destruct o; try reflexivity. exfalso. eapply H; reflexivity. Qed.

Lemma rcv_of_nonibtp d o r i : (forall b p, o <> OIbtp b p) -> (rcv_of (d ++ [(o, r)]) i <-> rcv_of d i).
Proof.
  intro H. rewrite rcv_of_app. split; [|tauto]. intros [X | [b [p [r0 [[E | []] _]]]]]; [exact X|].
  inversion E; subst. exfalso. eapply H; reflexivity.
Qed.

Ltac csplit := repeat match goal with |- _ /\ _ => split end.

Lemma apply_ops_inv w h H : h = H + 1 -> h < W64 ->
  forall ops i touched st d,
  Forall (op_wf w) ops ->
  BInv w (s_tm st) (s_ic st) -> TMid w (s_tm st) H (rcv_of d) (pend_of w h d) ->
  (forall j, rcv_of d j -> begun (s_tm st) j) ->
  exists st' rs, apply_ops cfg_fixed w h i touched st ops = Some (st', rs) /\ List.length rs = List.length ops /\
    BInv w (s_tm st') (s_ic st') /\
    TMid w (s_tm st') H (rcv_of (d ++ combine ops rs)) (pend_of w h (d ++ combine ops rs)) /\
    (forall j, rcv_of (d ++ combine ops rs) j -> begun (s_tm st') j) /\
    (forall j, begun (s_tm st) j -> begun (s_tm st') j) /\
    s_h st' = s_h st /\ s_ph st' = s_ph st.
Proof.
  intros Hh Hhw. subst h. induction ops as [|o ops IH]; intros i touched st d Hwf I M R.
  - exists st, []. simpl. rewrite app_nil_r. csplit; auto.
  - inversion Hwf as [|? ? Ho Hops]; subst.
    assert (Step : exists st1 r, apply_op cfg_fixed w (H + 1) i touched st o = Some (st1, r) /\
               BInv w (s_tm st1) (s_ic st1) /\
               TMid w (s_tm st1) H (rcv_of (d ++ [(o, r)])) (pend_of w (H + 1) (d ++ [(o, r)])) /\
               (forall j, rcv_of (d ++ [(o, r)]) j -> begun (s_tm st1) j) /\
               (forall j, begun (s_tm st) j -> begun (s_tm st1) j) /\
               s_h st1 = s_h st /\ s_ph st1 = s_ph st).
    { destruct o as [b p | | m a b c d0].
      - cbn [apply_op]. destruct p; cbn [negb].
        + destruct (handle_total w (H + 1) H (1000 * (H + 1) + i) b (s_tm st) (s_ic st) _ _ M) as [[[t' c'] r] E].
          rewrite E. exists (Build_state t' c' (s_h st) (s_ph st)), r. split; [reflexivity|].
          destruct (handle_both w (H + 1) H _ b true _ _ _ _ _ d I M eq_refl Hhw Ho E) as [I' [M' K]].
          simpl. split; [exact I'|]. split; [exact M'|].
          assert (Hmono : forall j, begun (s_tm st) j -> begun t' j).
          { inversion K; subst; [auto|]. 
            match goal with Ht : tm_step _ _ _ _ _ _ _ _ = Some _ |- _ =>
              destruct (begun_evolution _ _ _ _ _ _ _ _ _ Ht) as [X _]; exact X end. }
          split; [|auto].
          intros j Hj. apply rcv_of_app in Hj. destruct Hj as [Hj | [b0 [p0 [r0 [[E0 | []] [Hq [Hid [Hrs Hok]]]]]]]].
          * apply Hmono. apply R. exact Hj.
          * inversion E0; subst b0 p0 r0. inversion K; subst; [discriminate|].
            match goal with Ht : tm_step _ _ _ _ _ _ _ _ = Some _ |- _ =>
              destruct (begun_evolution _ _ _ _ _ _ _ _ _ Ht) as [_ [_ [X _]]]; exact X end.
        + exists st, (res_err E_PROOF). split; [reflexivity|].
          assert (Ea : add_of w (H + 1) (OIbtp b false, res_err E_PROOF) = []).
          { unfold add_of. simpl. destruct (_ && is_request b); reflexivity. }
          rewrite pend_of_app, Ea, app_nil_r. csplit; auto.
          * eapply tmid_weaken_rcv; [|exact M]. intros j Hj. apply rcv_of_app. left. exact Hj.
          * intros j Hj. apply rcv_of_app in Hj. destruct Hj as [Hj | [b0 [p0 [r0 [[E0 | []] [_ [_ [_ Hok]]]]]]]]; [apply R; exact Hj|].
            inversion E0; subst. discriminate.
      - exists st, (res_ok 0). split; [reflexivity|].
        rewrite pend_of_app, add_of_nonibtp by discriminate. rewrite app_nil_r. csplit; auto.
        + eapply tmid_weaken_rcv; [|exact M]. intros j Hj. apply rcv_of_nonibtp; [discriminate | exact Hj].
        + intros j Hj. apply rcv_of_nonibtp in Hj; [apply R; exact Hj | discriminate].
      - cbn [apply_op]. destruct (apply_call cfg_fixed w st touched m a b c d0) as [st1 r] eqn:E.
        destruct (apply_call_inv _ _ _ _ _ _ _ _ _ _ E) as [Et [Eh [Ep [_ Hb]]]].
        exists st1, r. split; [reflexivity|].
        rewrite pend_of_app, add_of_nonibtp by discriminate. rewrite app_nil_r. rewrite Et.
        csplit; auto.
        + rewrite <- Et. apply Hb. exact I.
        + eapply tmid_weaken_rcv; [|exact M]. intros j Hj. apply rcv_of_nonibtp; [discriminate | exact Hj].
        + intros j Hj. apply rcv_of_nonibtp in Hj; [apply R; exact Hj | discriminate]. }
    destruct Step as [st1 [r [E1 [I1 [M1 [R1 [Mono1 [Eh1 Ep1]]]]]]]].
    destruct (IH (i + 1) (touched || touches_ic w o) st1 (d ++ [(o, r)]) Hops I1 M1 R1)
      as [st' [rs [E2 [Hlen [I' [M' [R' [Mono' [Eh' Ep']]]]]]]]].
    exists st', (r :: rs). simpl. rewrite E1, E2. split; [reflexivity|]. split; [simpl; lia|].
    rewrite <- app_assoc in M', R'. simpl in M', R'.
    csplit; auto; congruence.
Qed.

(** * [setTimeoutList] at the end of the block *)
Definition hm_in (m : hmap) (hh : N) (x : tok) : Prop := exists l, In (hh, l) m /\ In x l.

Lemma hmap_add_in k y m hh x : hm_in (hmap_add k y m) hh x <-> hm_in m hh x \/ (hh = k /\ x = y).
Proof.
  unfold hm_in. induction m as [|[k0 l0] r IH]; simpl.
  - split.
    + intros [l [[E | []] Hin]]. inversion E; subst. destruct Hin as [-> | []]. right. auto.
    + intros [[l [[] _]] | [-> ->]]. exists [y]. split; [left; reflexivity | left; reflexivity].
  - destruct (k0 =? k) eqn:E.
    + apply N.eqb_eq in E. subst k0. simpl. split.
      * intros [l [[E1 | Hin1] Hin]].
        -- inversion E1; subst. apply in_app_or in Hin. destruct Hin as [Hin | [-> | []]].
           ++ left. exists l0. split; [left; reflexivity | exact Hin].
           ++ right. auto.
        -- left. exists l. split; [right; exact Hin1 | exact Hin].
      * intros [[l [[E1 | Hin1] Hin]] | [-> ->]].
        -- inversion E1; subst. exists (l ++ [y]). split; [left; reflexivity | apply in_or_app; left; exact Hin].
        -- exists l. split; [right; exact Hin1 | exact Hin].
        -- exists (l0 ++ [y]). split; [left; reflexivity | apply in_or_app; right; left; reflexivity].
    + simpl. split.
      * intros [l [[E1 | Hin1] Hin]].
        -- inversion E1; subst. left. exists l. split; [left; reflexivity | exact Hin].
        -- destruct (proj1 IH (ex_intro _ l (conj Hin1 Hin))) as [[l1 [A B]] | X].
           ++ left. exists l1. split; [right; exact A | exact B].
           ++ right. exact X.
      * intros [[l [[E1 | Hin1] Hin]] | X].
        -- inversion E1; subst. exists l. split; [left; reflexivity | exact Hin].
        -- destruct (proj2 IH (or_introl (ex_intro _ l (conj Hin1 Hin)))) as [l1 [A B]].
           exists l1. split; [right; exact A | exact B].
        -- destruct (proj2 IH (or_intror X)) as [l1 [A B]]. exists l1. split; [right; exact A | exact B].
Qed.

(** keys are unique and every list is non-empty *)
Definition hm_wf (m : hmap) : Prop := NoDup (map fst m) /\ forall hh l, In (hh, l) m -> l <> [].
Lemma hmap_add_keys k y m : forall hh, In hh (map fst (hmap_add k y m)) <-> In hh (map fst m) \/ hh = k.
Proof.
  induction m as [|[k0 l0] r IH]; simpl; intro hh.
  - split; [intros [H | []]; right; auto | intros [[] | ->]; left; reflexivity].
  - destruct (k0 =? k) eqn:E; simpl.
    + apply N.eqb_eq in E. subst. split; [tauto | intros [H | ->]; auto].
    + rewrite IH. tauto.
Qed.
Lemma hmap_add_nodup k y m : NoDup (map fst m) -> NoDup (map fst (hmap_add k y m)).
Proof.
  induction m as [|[k0 l0] r IH]; simpl; intro Hnd; [constructor; [tauto | constructor]|].
  inversion Hnd; subst. destruct (k0 =? k) eqn:E; simpl.
  - constructor; assumption.
  - constructor.
    + rewrite hmap_add_keys. apply N.eqb_neq in E. intros [H | H]; [contradiction | congruence].
    + apply IH. assumption.
Qed.
Lemma hmap_add_nonempty k y m :
  (forall hh l, In (hh, l) m -> l <> []) -> forall hh l, In (hh, l) (hmap_add k y m) -> l <> [].
Proof.
  induction m as [|[k0 l0] r IH]; simpl; intros Hne hh l Hin.
  - destruct Hin as [E | []]. inversion E; subst. discriminate.
  - destruct (k0 =? k) eqn:E.
    + destruct Hin as [E1 | Hin]; [inversion E1; subst; destruct l0; discriminate | apply (Hne hh l); right; exact Hin].
    + destruct Hin as [E1 | Hin]; [inversion E1; subst; apply (Hne hh l); left; reflexivity|].
      apply (IH (fun hh0 l1 H0 => Hne hh0 l1 (or_intror H0)) hh l Hin).
Qed.
Lemma hmap_add_wf k y m : hm_wf m -> hm_wf (hmap_add k y m).
Proof.
  intros [Hnd Hne]. split; [apply hmap_add_nodup; exact Hnd | apply hmap_add_nonempty; exact Hne].
Qed.

(** what [stl_fold] collects: registrations (exactly [pend_of]) and removals *)
Definition rem_of (fin : txm) (x : op * txres) : list (N * txid) :=
  match fst x with
  | OIbtp b _ =>
      if (match b_grp b with Some _ => true | None => false end) && is_request b then []
      else if tx_skipped (snd x) then []
      else if is_request b then []
      else if is_response b then
        match tm_rec fin (b_id b) with Some (hh, _) => [(hh, b_id b)] | None => [] end
      else []
  | _ => []
  end.
Definition rems_of (fin : txm) (d : done_t) : list (N * txid) := flat_map (rem_of fin) d.

Definition add_all (l : list (N * txid)) (m : hmap) : hmap :=
  fold_left (fun m p => hmap_add (fst p) (TTx (snd p)) m) l m.

Lemma add_all_app l1 l2 m : add_all (l1 ++ l2) m = add_all l2 (add_all l1 m).
Proof. unfold add_all. apply fold_left_app. Qed.

Lemma stl_fold_eq w fin h : forall ops rs adds rems,
  List.length rs = List.length ops ->
  (forall b p r, In (OIbtp b p, r) (combine ops rs) -> is_request b = false -> is_response b = true ->
                 tx_skipped r = false -> begun fin (b_id b)) ->
  stl_fold cfg_fixed w fin h (StlMaps adds rems) ops rs =
  StlMaps (add_all (pend_of w h (combine ops rs)) adds) (add_all (rems_of fin (combine ops rs)) rems).
Proof.
  induction ops as [|o ops IH]; intros rs adds rems Hlen Hbg.
  - destruct rs; [|discriminate]. reflexivity.
  - destruct rs as [|r rs]; [discriminate|]. simpl in Hlen. injection Hlen as Hlen.
    cbn [stl_fold combine].
    assert (Step : stl_step cfg_fixed w fin h (StlMaps adds rems) o r =
                   StlMaps (add_all (add_of w h (o, r)) adds) (add_all (rem_of fin (o, r)) rems)).
    { unfold stl_step, add_of, rem_of. cbn [fst snd d_receipt_group_skip d_interhub_timeout d_timeout_keeps_failed cfg_fixed].
      destruct o as [b p | | m a b0 c d0]; try reflexivity.
      rewrite orb_false_r. cbn [andb negb].
      destruct ((match b_grp b with Some _ => true | None => false end) && is_request b); [reflexivity|].
      destruct (tx_skipped r) eqn:Esk; [reflexivity|].
      destruct (is_request b) eqn:Erq.
      - destruct ((b_T b <=? 0)%Z || (MAXU64 - h <=? u64_of_Z (b_T b))); [reflexivity|].
        rewrite andb_true_r. destruct (to_remote_hub w b); reflexivity.
      - destruct (is_response b) eqn:Ers; [|reflexivity].
        assert (Hb : begun fin (b_id b)).
        { apply (Hbg b p r); [left; reflexivity | exact Erq | exact Ers | exact Esk]. }
        destruct (tm_rec fin (b_id b)) as [[hh0 st0]|] eqn:Er; [reflexivity|].
        destruct (tm_child fin (b_id b)) eqn:Ec; [reflexivity|].
        exfalso. destruct Hb as [Hb | Hb]; congruence. }
    rewrite Step. rewrite IH; [|exact Hlen|].
    + unfold pend_of, rems_of. cbn [flat_map]. rewrite !add_all_app. reflexivity.
    + intros b p r0 Hin. apply (Hbg b p r0). right. exact Hin.
Qed.

Lemma add_all_in l : forall m hh x,
  hm_in (add_all l m) hh x <-> hm_in m hh x \/ exists i, x = TTx i /\ In (hh, i) l.
Proof.
  induction l as [|[k i0] r IH]; intros m hh x; simpl.
  - split; [tauto | intros [H | [i [_ []]]]; exact H].
  - unfold add_all in *. simpl. rewrite IH, hmap_add_in. simpl. split.
    + intros [[X | [-> ->]] | [i [Hx Hin]]].
      * left. exact X.
      * right. exists i0. split; [reflexivity | left; reflexivity].
      * right. exists i. split; [exact Hx | right; exact Hin].
    + intros [X | [i [Hx [E | Hin]]]].
      * left. left. exact X.
      * inversion E; subst. left. right. auto.
      * right. exists i. auto.
Qed.
Lemma add_all_wf l : forall m, hm_wf m -> hm_wf (add_all l m).
Proof.
  induction l as [|p r IH]; intros m W; [exact W|]. unfold add_all in *. simpl. apply IH. apply hmap_add_wf. exact W.
Qed.

Definition hm_ids (m : hmap) : list tok := flat_map (fun p => snd p) m.
Lemma hm_ids_in m x : In x (hm_ids m) <-> exists hh, hm_in m hh x.
Proof.
  unfold hm_ids, hm_in. rewrite in_flat_map. split.
  - intros [[hh l] [H1 H2]]. exists hh, l. auto.
  - intros [hh [l [H1 H2]]]. exists (hh, l). auto.
Qed.
Lemma nodup_insert {A} (a b : list A) y : NoDup (a ++ b) -> ~ In y (a ++ b) -> NoDup (a ++ y :: b).
Proof.
  induction a as [|z t IH]; simpl; intros Hnd Hn.
  - constructor; assumption.
  - inversion Hnd; subst. constructor.
    + rewrite in_app_iff in *. simpl. intros [H | [H | H]]; [tauto | subst; tauto | tauto].
    + apply IH; [assumption | tauto].
Qed.
Lemma hmap_add_ids_nodup k y m : NoDup (hm_ids m) -> ~ In y (hm_ids m) -> NoDup (hm_ids (hmap_add k y m)).
Proof.
  induction m as [|[k0 l0] r IH]; simpl; intros Hnd Hn.
  - constructor; [tauto | constructor].
  - destruct (k0 =? k); simpl.
    + rewrite <- app_assoc. simpl. apply nodup_insert; assumption.
    + unfold hm_ids in *. simpl in *.
      assert (NoDup l0 /\ NoDup (flat_map (fun p => snd p) r) /\ forall x, In x l0 -> ~ In x (flat_map (fun p => snd p) r)) as [A [B C]].
      { clear -Hnd. induction l0 as [|z t IHl]; simpl in *.
        - split; [constructor | split; [exact Hnd | tauto]].
        - inversion Hnd; subst. destruct (IHl H2) as [A [B C]]. split; [|split].
          + constructor; [rewrite in_app_iff in H1; tauto | exact A].
          + exact B.
          + intros x [-> | Hx]; [rewrite in_app_iff in H1; tauto | apply C; exact Hx]. }
      apply nodup_app; [exact A | apply IH; [exact B | rewrite in_app_iff in Hn; tauto]|].
      intros x Hx Hin. apply hm_ids_in in Hin. destruct Hin as [hh Hin]. apply hmap_add_in in Hin.
      destruct Hin as [Hin | [_ ->]].
      * apply (C x Hx). apply hm_ids_in. exists hh. exact Hin.
      * apply Hn. apply in_or_app. left. exact Hx.
Qed.
Lemma add_all_ids_nodup l : forall m,
  NoDup (hm_ids m) -> NoDup (map snd l) -> (forall hh i, In (hh, i) l -> ~ In (TTx i) (hm_ids m)) ->
  NoDup (hm_ids (add_all l m)).
Proof.
  induction l as [|[k i0] r IH]; intros m Hm Hl Hd; [exact Hm|].
  unfold add_all in *. simpl. simpl in Hl. inversion Hl; subst. apply IH.
  - apply hmap_add_ids_nodup; [exact Hm | apply (Hd k i0); left; reflexivity].
  - assumption.
  - intros hh i Hin Hx. apply hm_ids_in in Hx. destruct Hx as [h1 Hx]. apply hmap_add_in in Hx. simpl in Hx.
    destruct Hx as [Hx | [_ E]].
    + apply (Hd hh i (or_intror Hin)). apply hm_ids_in. exists h1. exact Hx.
    + inversion E; subst. apply H1. apply in_map_iff. exists (hh, i0). auto.
Qed.

(** ** applying the collected registrations and removals *)
Lemma hm_ids_seg m hh l : NoDup (hm_ids m) -> In (hh, l) m -> NoDup l.
Proof.
  unfold hm_ids. induction m as [|[k0 l0] r IH]; simpl; intros Hnd Hin; [contradiction|].
  assert (NoDup l0 /\ NoDup (flat_map (fun p => snd p) r)) as [A B].
  { clear -Hnd. induction l0 as [|z t IHl]; simpl in *; [split; [constructor | exact Hnd]|].
    inversion Hnd; subst. destruct (IHl H2) as [A B]. split; [|exact B].
    constructor; [rewrite in_app_iff in H1; tauto | exact A]. }
  destruct Hin as [E | Hin]; [inversion E; subst; exact A | apply IH; assumption].
Qed.

Lemma apply_adds_spec : forall adds t,
  hm_wf adds -> NoDup (hm_ids adds) ->
  (forall hh l, tm_tl t hh = Some l -> tl_ok l) ->
  (forall hh x, hm_in adds hh x -> x <> TEmpty /\ ~ listed t hh x) ->
  let t' := apply_adds t adds in
  tm_rec t' = tm_rec t /\ tm_glob t' = tm_glob t /\ tm_child t' = tm_child t /\
  (forall hh l, tm_tl t' hh = Some l -> tl_ok l) /\
  (forall hh x, x <> TEmpty -> (listed t' hh x <-> listed t hh x \/ hm_in adds hh x)).
Proof.
  induction adds as [|[k ids] r IH]; intros t W Hnd Hok Hfresh.
  - simpl. split; [reflexivity|]. split; [reflexivity|]. split; [reflexivity|]. split; [exact Hok|].
    intros hh x _. split; [intro X; left; exact X | intros [X | [l [[] _]]]; exact X].
  - cbn [apply_adds fold_left fst snd].
    set (t1 := set_tl t k (tl_write (tm_tl t k) ids)).
    destruct W as [Wk Wne]. simpl in Wk. inversion Wk as [|? ? Hknew Wk']; subst.
    assert (Hids : NoDup ids) by (eapply (hm_ids_seg ((k, ids) :: r)); [exact Hnd | left; reflexivity]).
    assert (Hne : ids <> []) by (apply (Wne k ids); left; reflexivity).
    assert (Hin_ids : forall x, In x ids -> x <> TEmpty /\ ~ listed t k x).
    { intros x Hx. apply Hfresh. exists ids. split; [left; reflexivity | exact Hx]. }
    destruct (tl_write_ok (tm_tl t k) ids) as [Hwok Hwin].
    { intros l El. eapply Hok; eauto. }
    { exact Hids. } { exact Hne. }
    { intro H. destruct (Hin_ids _ H) as [X _]. congruence. }
    { intros l x El Hx Hxi. destruct (Hin_ids _ Hxi) as [_ X]. apply X. exists l. auto. }
    assert (Hnd' : NoDup (hm_ids r)).
    { unfold hm_ids in *. simpl in Hnd. clear -Hnd. induction ids as [|z t0 IHi]; simpl in *; [exact Hnd|].
      inversion Hnd; subst. apply IHi. assumption. }
    destruct (IH t1) as [R1 [R2 [R3 [Hok' Hin']]]].
    + split; [exact Wk' | intros hh l Hl; apply (Wne hh l); right; exact Hl].
    + exact Hnd'.
    + intros hh l El. unfold t1 in El. simpl in El. unfold upd in El. destruct (hh =? k) eqn:E.
      * inversion El; subst. exact Hwok.
      * eapply Hok; eauto.
    + intros hh x [l [Hl Hx]]. assert (Hh : hh <> k).
      { intro; subst. apply Hknew. apply in_map_iff. exists (k, l). auto. }
      destruct (Hfresh hh x) as [A B]; [exists l; split; [right; exact Hl | exact Hx]|].
      split; [exact A|]. intros [l0 [E0 H0]]. apply B. unfold t1 in E0. simpl in E0.
      rewrite updN_other in E0 by exact Hh. exists l0. auto.
    + fold (apply_adds t1 r). split; [rewrite R1; reflexivity|]. split; [rewrite R2; reflexivity|].
      split; [rewrite R3; reflexivity|]. split; [exact Hok'|].
      intros hh x Hx. rewrite (Hin' hh x Hx). unfold listed at 1. unfold t1. simpl. unfold upd.
      destruct (hh =? k) eqn:E.
      * apply N.eqb_eq in E. subst hh. split.
        -- intros [[l [El Hl]] | [l [Hl Hxl]]].
           ++ inversion El; subst. apply (Hwin x Hx) in Hl. destruct Hl as [[l0 [E0 H0]] | H0].
              ** left. exists l0. auto.
              ** right. exists ids. split; [left; reflexivity | exact H0].
           ++ right. exists l. split; [right; exact Hl | exact Hxl].
        -- intros [[l0 [E0 H0]] | [l [[E1 | Hl] Hxl]]].
           ++ left. eexists. split; [reflexivity|]. apply (Hwin x Hx). left. exists l0. auto.
           ++ inversion E1; subst. left. eexists. split; [reflexivity|]. apply (Hwin x Hx). right. exact Hxl.
           ++ right. exists l. auto.
      * apply N.eqb_neq in E. split.
        -- intros [H | [l [Hl Hxl]]]; [left; exact H | right; exists l; split; [right; exact Hl | exact Hxl]].
        -- intros [H | [l [[E1 | Hl] Hxl]]]; [left; exact H | inversion E1; subst; congruence | right; exists l; auto].
Qed.

Lemma remove_all_spec : forall ids cur,
  tl_ok cur -> (forall x, In x ids -> x <> TEmpty) ->
  exists l, remove_all ids cur = Some l /\ tl_ok l /\
            (forall y, y <> TEmpty -> (In y l <-> In y cur /\ ~ In y ids)).
Proof.
  induction ids as [|x r IH]; intros cur Hok Hne.
  - exists cur. simpl. split; [reflexivity|]. split; [exact Hok|]. intros y _. tauto.
  - simpl. destruct (tl_remove_ok x cur Hok (Hne x (or_introl eq_refl))) as [l1 [E1 [Hok1 Hin1]]].
    rewrite E1. destruct (IH l1 Hok1 (fun y Hy => Hne y (or_intror Hy))) as [l [E [Hokl Hinl]]].
    exists l. split; [exact E|]. split; [exact Hokl|].
    intros y Hy. rewrite (Hinl y Hy), (Hin1 y Hy). simpl. intuition congruence.
Qed.

Lemma tl_norm_id l : tl_ok l -> tl_norm l = l.
Proof. intros [_ [Hne _]]. destruct l; [contradiction | reflexivity]. Qed.

Lemma apply_removes_spec : forall rems t,
  NoDup (map fst rems) ->
  (forall hh l, tm_tl t hh = Some l -> tl_ok l) ->
  (forall hh x, hm_in rems hh x -> x <> TEmpty) ->
  exists t', apply_removes t rems = Some t' /\
    tm_rec t' = tm_rec t /\ tm_glob t' = tm_glob t /\ tm_child t' = tm_child t /\
    (forall hh l, tm_tl t' hh = Some l -> tl_ok l) /\
    (forall hh x, x <> TEmpty -> (listed t' hh x <-> listed t hh x /\ ~ hm_in rems hh x)).
Proof.
  unfold apply_removes.
  induction rems as [|[k ids] r IH]; intros t Wk Hok Hne.
  - exists t. simpl. split; [reflexivity|]. split; [reflexivity|]. split; [reflexivity|]. split; [reflexivity|].
    split; [exact Hok|]. intros hh x _. split; [intro X; split; [exact X | intros [l [[] _]]] | intros [X _]; exact X].
  - cbn [fold_left fst snd]. simpl in Wk. inversion Wk as [|? ? Hknew Wk']; subst.
    set (cur := match tm_tl t k with Some l => l | None => [TEmpty] end).
    assert (Hcur : tl_ok cur).
    { unfold cur. destruct (tm_tl t k) eqn:E; [eapply Hok; eauto | apply tl_ok_empty]. }
    destruct (remove_all_spec ids cur Hcur) as [l [El [Hokl Hinl]]].
    { intros x Hx. apply (Hne k x). exists ids. split; [left; reflexivity | exact Hx]. }
    rewrite El. rewrite (tl_norm_id l Hokl).
    set (t1 := set_tl t k l).
    destruct (IH t1 Wk') as [t' [E' [R1 [R2 [R3 [Hok' Hin']]]]]].
    + intros hh l0 E0. unfold t1 in E0. simpl in E0. unfold upd in E0. destruct (hh =? k).
      * inversion E0; subst. exact Hokl.
      * eapply Hok; eauto.
    + intros hh x [l0 [H0 Hx]]. apply (Hne hh x). exists l0. split; [right; exact H0 | exact Hx].
    + exists t'. split; [exact E'|]. split; [rewrite R1; reflexivity|]. split; [rewrite R2; reflexivity|].
      split; [rewrite R3; reflexivity|]. split; [exact Hok'|].
      intros hh x Hx. rewrite (Hin' hh x Hx). unfold listed at 1. unfold t1. simpl. unfold upd.
      destruct (hh =? k) eqn:E.
      * apply N.eqb_eq in E. subst hh. split.
        -- intros [[l0 [E0 H0]] Hnr]. inversion E0; subst l0. apply (Hinl x Hx) in H0. destruct H0 as [H0 Hni].
           split.
           ++ unfold cur in H0. unfold listed. destruct (tm_tl t k) as [l1|]; [exists l1; auto|].
              destruct H0 as [H0 | []]. congruence.
           ++ intros [l1 [[E1 | H1] Hx1]]; [inversion E1; subst; contradiction | apply Hnr; exists l1; auto].
        -- intros [[l0 [E0 H0]] Hn]. split.
           ++ eexists. split; [reflexivity|]. apply (Hinl x Hx). split.
              ** unfold cur. rewrite E0. exact H0.
              ** intro Hi. apply Hn. exists ids. split; [left; reflexivity | exact Hi].
           ++ intros [l1 [H1 Hx1]]. apply Hn. exists l1. split; [right; exact H1 | exact Hx1].
      * apply N.eqb_neq in E. split.
        -- intros [H Hn]. split; [exact H|]. intros [l1 [[E1 | H1] Hx1]]; [inversion E1; subst; congruence | apply Hn; exists l1; auto].
        -- intros [H Hn]. split; [exact H|]. intros [l1 [H1 Hx1]]. apply Hn. exists l1. split; [right; exact H1 | exact Hx1].
Qed.

(** ** [set_timeout_list] re-establishes the block-boundary invariant (still for height H) *)
Lemma hm_wf_nil : hm_wf [].
Proof. split; [constructor | intros ? ? []]. Qed.

Lemma set_timeout_list_inv w fin H h ops rs :
  h = H + 1 -> List.length rs = List.length ops ->
  TMid w fin H (rcv_of (combine ops rs)) (pend_of w h (combine ops rs)) ->
  (forall j, rcv_of (combine ops rs) j -> begun fin j) ->
  exists t2, set_timeout_list cfg_fixed w fin h ops rs = Some t2 /\
    tm_rec t2 = tm_rec fin /\ tm_glob t2 = tm_glob fin /\ tm_child t2 = tm_child fin /\
    TInv w t2 H /\
    (forall hh x, x <> TEmpty ->
       (listed t2 hh x <-> (listed fin hh x \/ exists i, x = TTx i /\ In (hh, i) (pend_of w h (combine ops rs)))
                           /\ ~ (exists i, x = TTx i /\ In (hh, i) (rems_of fin (combine ops rs))))).
Proof.
  intros Hh Hlen M R. set (d := combine ops rs) in *.
  unfold set_timeout_list.
  rewrite (stl_fold_eq w fin h ops rs [] [] Hlen).
  2:{ intros b p r Hin Hrq Hrs Hsk. fold d in Hin. apply R. exists b, p, r. auto. }
  fold d. set (adds := add_all (pend_of w h d) []). set (rems := add_all (rems_of fin d) []).
  assert (Hadds : forall hh x, hm_in adds hh x <-> exists i, x = TTx i /\ In (hh, i) (pend_of w h d)).
  { intros hh x. unfold adds. rewrite add_all_in. split; [intros [[l [[] _]] | X]; exact X | intro X; right; exact X]. }
  assert (Hrems : forall hh x, hm_in rems hh x <-> exists i, x = TTx i /\ In (hh, i) (rems_of fin d)).
  { intros hh x. unfold rems. rewrite add_all_in. split; [intros [[l [[] _]] | X]; exact X | intro X; right; exact X]. }
  destruct (apply_adds_spec adds fin) as [A1 [A2 [A3 [Aok Ain]]]].
  { apply add_all_wf. apply hm_wf_nil. }
  { apply add_all_ids_nodup; [constructor | exact (m_pend_nodup _ _ _ _ _ M) | intros ? ? ? []]. }
  { exact (m_ok _ _ _ _ _ M). }
  { intros hh x Hx. apply Hadds in Hx. destruct Hx as [i [-> Hin]]. split; [discriminate|].
    destruct (m_pend _ _ _ _ _ M _ _ Hin) as [_ [_ X]]. exact X. }
  set (ta := apply_adds fin adds) in *.
  destruct (apply_removes_spec rems ta) as [t2 [E2 [B1 [B2 [B3 [Bok Bin]]]]]].
  { apply (add_all_wf (rems_of fin d) [] hm_wf_nil). }
  { exact Aok. }
  { intros hh x Hx. apply Hrems in Hx. destruct Hx as [i [-> _]]. discriminate. }
  exists t2. split; [exact E2|]. split; [congruence|]. split; [congruence|]. split; [congruence|].
  assert (Hmem : forall hh x, x <> TEmpty ->
            (listed t2 hh x <-> (listed fin hh x \/ exists i, x = TTx i /\ In (hh, i) (pend_of w h d))
                                /\ ~ (exists i, x = TTx i /\ In (hh, i) (rems_of fin d)))).
  { intros hh x Hx. rewrite (Bin hh x Hx), (Ain hh x Hx), Hadds, Hrems. tauto. }
  split; [|exact Hmem].
  constructor.
  - exact Bok.
  - intros hh i Hlt Hl. apply (Hmem hh (TTx i) (tok_tx_ne_empty i)) in Hl. destruct Hl as [Hsrc Hnr].
    assert (Hrec : exists s, tm_rec fin i = Some (hh, s) /\ (s = ST_BEGIN \/ rcv_of d i)).
    { destruct Hsrc as [Hl | [i0 [E Hin]]].
      - exact (m_tx _ _ _ _ _ M hh i Hlt Hl).
      - inversion E; subst i0. destruct (m_pend _ _ _ _ _ M _ _ Hin) as [_ [X _]]. exact X. }
    destruct Hrec as [s [Es [Hs | Hr]]].
    + exists s. split; [congruence | left; exact Hs].
    + exfalso. apply Hnr. exists i. split; [reflexivity|].
      destruct Hr as [b [p [r [Hin [Hrq [Hid [Hrs Hsk]]]]]]].
      unfold rems_of. apply in_flat_map. exists (OIbtp b p, r). split; [exact Hin|].
      unfold rem_of. cbn [fst snd]. rewrite Hrq, andb_false_r, Hsk, Hrs, Hid, Es. left. reflexivity.
  - intros hh i [].
  - constructor.
  - intros hh g Hlt Hl. apply (Hmem hh (TGid g) (tok_gid_ne_empty g)) in Hl. destruct Hl as [[Hl | [i [E _]]] _]; [|discriminate].
    rewrite B2, A2. exact (m_gid _ _ _ _ _ M hh g Hlt Hl).
  - intros hh i [[Hlt Hl] | []]. apply (Hmem hh (TTx i) (tok_tx_ne_empty i)) in Hl. destruct Hl as [[Hl | [i0 [E Hin]]] _].
    + apply (m_local _ _ _ _ _ M hh i). left. auto.
    + inversion E; subst i0. apply (m_local _ _ _ _ _ M hh i). right. exact Hin.
Qed.

(** * expiry: [getTimeoutIBTPsMap] and [setTimeoutRollback] *)
Definition in_l (x : tok) (l : list tok) : bool := existsb (tok_eqb x) l.
Lemma in_l_spec x l : in_l x l = true <-> In x l.
Proof.
  unfold in_l. rewrite existsb_exists. split.
  - intros [y [Hy E]]. apply tok_eqb_eq in E. subst. exact Hy.
  - intro H. exists x. split; [exact H | apply tok_eqb_refl].
Qed.

Definition rolled (gi : ginfo) : ginfo :=
  Build_ginfo ST_BEGIN_ROLLBACK (g_height gi) (children_all ST_BEGIN_ROLLBACK (g_children gi)) (g_count gi).

Lemma rollback_spec h : forall l t,
  NoDup l -> ~ In TEmpty l -> (forall g, In (TGid g) l -> tm_glob t g <> None) ->
  exists t3, timeout_rollback t h l = Some t3 /\
    tm_child t3 = tm_child t /\ tm_tl t3 = tm_tl t /\
    (forall i, tm_rec t3 i = if in_l (TTx i) l then Some (h, ST_BEGIN_ROLLBACK) else tm_rec t i) /\
    (forall g, tm_glob t3 g = if in_l (TGid g) l
                              then match tm_glob t g with Some gi => Some (rolled gi) | None => None end
                              else tm_glob t g).
Proof.
  induction l as [|x r IH]; intros t Hnd Hne Hg.
  - exists t. simpl. repeat split; auto.
  - inversion Hnd as [|? ? Hxr Hnd']; subst.
    destruct x as [|i|g].
    + exfalso. apply Hne. left. reflexivity.
    + simpl. destruct (IH (set_rec t i (h, ST_BEGIN_ROLLBACK)) Hnd') as [t3 [E [C [L [R G]]]]].
      * intro H. apply Hne. right. exact H.
      * intros g Hin. simpl. apply Hg. right. exact Hin.
      * exists t3. split; [exact E|]. split; [exact C|]. split; [exact L|]. split.
        -- intro j. rewrite R. unfold in_l. cbn [existsb tok_eqb set_rec tm_rec]. unfold upd.
           destruct (txid_eqb j i) eqn:Eij; cbn [orb].
           ++ destruct (existsb (tok_eqb (TTx j)) r); reflexivity.
           ++ reflexivity.
        -- intro g. rewrite G. unfold in_l. cbn [existsb tok_eqb orb]. reflexivity.
    + simpl. destruct (tm_glob t g) as [gi|] eqn:Egl.
      2:{ exfalso. apply (Hg g); [left; reflexivity | exact Egl]. }
      fold (rolled gi).
      destruct (IH (set_glob t g (rolled gi)) Hnd') as [t3 [E [C [L [R G]]]]].
      * intro H. apply Hne. right. exact H.
      * intros g0 Hin. simpl. unfold upd. destruct (gid_eqb g0 g); [discriminate | apply Hg; right; exact Hin].
      * exists t3. split; [exact E|]. split; [exact C|]. split; [exact L|]. split.
        -- intro j. rewrite R. unfold in_l. cbn [existsb tok_eqb orb]. reflexivity.
        -- intro g0. rewrite G. unfold in_l. cbn [existsb tok_eqb set_glob tm_glob]. unfold upd.
           destruct (gid_eqb g0 g) eqn:Eg; cbn [orb].
           ++ apply gid_eqb_eq in Eg. subst g0. rewrite Egl.
              destruct (existsb (tok_eqb (TGid g)) r) eqn:Er; [|reflexivity].
              exfalso. apply Hxr. apply in_l_spec. exact Er.
           ++ reflexivity.
Qed.

Lemma timeout_map_total w t : forall l m,
  ~ In TEmpty l -> (forall g, In (TGid g) l -> tm_glob t g <> None) ->
  exists m', timeout_map w t l m = Some m'.
Proof.
  induction l as [|x r IH]; intros m Hne Hg.
  - eexists. reflexivity.
  - destruct x as [|i|g].
    + exfalso. apply Hne. left. reflexivity.
    + simpl. apply IH; [intro H; apply Hne; right; exact H | intros g Hin; apply Hg; right; exact Hin].
    + simpl. destruct (tm_glob t g) as [gi|] eqn:E.
      * apply IH; [intro H; apply Hne; right; exact H | intros g0 Hin; apply Hg; right; exact Hin].
      * exfalso. apply (Hg g); [left; reflexivity | exact E].
Qed.

(** the list read for the current height *)
Lemma get_timeout_list_spec w t H :
  TInv w t H ->
  let l := get_timeout_list t (H + 1) in
  NoDup l /\ ~ In TEmpty l /\ (forall x, In x l <-> x <> TEmpty /\ listed t (H + 1) x).
Proof.
  intro M. unfold get_timeout_list. destruct (tm_tl t (H + 1)) as [l|] eqn:E.
  - destruct (m_ok _ _ _ _ _ M _ _ E) as [Hnd [Hne Hemp]].
    destruct l as [|x r]; [contradiction|]. destruct x as [|i|g].
    + assert (r = []) by (specialize (Hemp (or_introl eq_refl)); inversion Hemp; reflexivity). subst r.
      simpl. split; [constructor|]. split; [tauto|]. intro x. split; [contradiction|].
      intros [Hx [l [El Hin]]]. rewrite E in El. inversion El; subst. destruct Hin as [Hin | []]. congruence.
    + assert (Hnt : ~ In TEmpty (TTx i :: r)) by (intro Hin; specialize (Hemp Hin); discriminate).
      split; [exact Hnd|]. split; [exact Hnt|]. intro x. split.
      * intro Hx. split; [intro; subst; contradiction | exists (TTx i :: r); auto].
      * intros [_ [l [El Hin]]]. rewrite E in El. inversion El; subst. exact Hin.
    + assert (Hnt : ~ In TEmpty (TGid g :: r)) by (intro Hin; specialize (Hemp Hin); discriminate).
      split; [exact Hnd|]. split; [exact Hnt|]. intro x. split.
      * intro Hx. split; [intro; subst; contradiction | exists (TGid g :: r); auto].
      * intros [_ [l [El Hin]]]. rewrite E in El. inversion El; subst. exact Hin.
  - simpl. split; [constructor|]. split; [tauto|]. intro x. split; [contradiction|].
    intros [_ [l [El _]]]. rewrite E in El. discriminate.
Qed.

(** * the whole block *)
Lemma binv_tm_ext w t t' c :
  BInv w t c ->
  (forall i, tm_rec t' i <> None <-> tm_rec t i <> None) -> tm_child t' = tm_child t ->
  (forall g, match tm_glob t g with
             | Some gi => exists gi', tm_glob t' g = Some gi' /\ map fst (g_children gi') = map fst (g_children gi)
             | None => tm_glob t' g = None
             end) ->
  BInv w t' c.
Proof.
  intros [B1 B2 B3 B4 B5 B6 B7 B8 G1 G2 G3 G4 G5] Hr Hc Hg.
  assert (Hb : forall i, begun t' i <-> begun t i).
  { intro i. unfold begun. rewrite Hr, Hc. tauto. }
  constructor; auto.
  - intros f t0 x Hx. apply B2. apply Hb. exact Hx.
  - intros f t0 x Hx. apply Hb. apply B3. exact Hx.
  - intros i Hi. apply Hb. apply B8. exact Hi.
  - intros i g Hi. rewrite Hc in Hi. destruct (G1 i g Hi) as [gi [E Hl]].
    specialize (Hg g). rewrite E in Hg. destruct Hg as [gi' [E' Hk]].
    exists gi'. split; [exact E'|]. apply child_lookup_keys. rewrite Hk. apply child_lookup_keys. exact Hl.
  - intros g gi' i E' Hl. rewrite Hc. specialize (Hg g). destruct (tm_glob t g) as [gi|] eqn:E.
    + destruct Hg as [gi0 [E0 Hk]]. rewrite E' in E0. inversion E0; subst gi0.
      apply (G2 g gi i E). apply child_lookup_keys. rewrite <- Hk. apply child_lookup_keys. exact Hl.
    + congruence.
  - intros g gi' E'. specialize (Hg g). destruct (tm_glob t g) as [gi|] eqn:E.
    + destruct Hg as [gi0 [E0 Hk]]. rewrite E' in E0. inversion E0; subst gi0. rewrite Hk. eapply G3; eauto.
    + congruence.
  - intros i Hi. rewrite Hc in Hi. specialize (G4 i Hi). destruct (tm_rec t' i) eqn:E; [|reflexivity].
    exfalso. assert (tm_rec t' i <> None) by congruence. apply Hr in H. contradiction.
  - intros i g sf sd Hi. rewrite Hc in Hi. eapply G5; eauto.
Qed.

Record SInv (w : world) (st : state) : Prop := {
  si_b : BInv w (s_tm st) (s_ic st);
  si_t : TInv w (s_tm st) (s_h st)
}.

Lemma sinv_init w : SInv w state_init.
Proof. constructor; [apply binv_init | apply tinv_init]. Qed.

(** everything a block does, under [cfg_fixed], from an invariant state; [mid] is the state after
    the transactions, [t2] the transaction manager after setTimeoutList *)
Record block_facts (w : world) (st : state) (ops : list op) (st' : state) (bm : bmeta)
       (mid : state) (t2 : txm) : Prop := {
  bf_h : s_h st' = s_h st + 1;
  bf_ops : apply_ops cfg_fixed w (s_h st + 1) 0 false st ops = Some (mid, m_res bm);
  bf_len : List.length (m_res bm) = List.length ops;
  bf_mid_inv : BInv w (s_tm mid) (s_ic mid);
  bf_mid_h : s_h mid = s_h st;
  bf_ic : s_ic st' = s_ic mid;
  bf_stl : set_timeout_list cfg_fixed w (s_tm mid) (s_h st + 1) ops (m_res bm) = Some t2;
  bf_t2_rec : tm_rec t2 = tm_rec (s_tm mid);
  bf_t2_glob : tm_glob t2 = tm_glob (s_tm mid);
  bf_t2_child : tm_child t2 = tm_child (s_tm mid);
  bf_t2_inv : TInv w t2 (s_h st);
  bf_t2_mem : forall hh x, x <> TEmpty ->
       (listed t2 hh x <-> (listed (s_tm mid) hh x \/
                            exists i, x = TTx i /\ In (hh, i) (pend_of w (s_h st + 1) (combine ops (m_res bm))))
                           /\ ~ (exists i, x = TTx i /\ In (hh, i) (rems_of (s_tm mid) (combine ops (m_res bm)))));
  bf_mid_tm : TMid w (s_tm mid) (s_h st) (rcv_of (combine ops (m_res bm))) (pend_of w (s_h st + 1) (combine ops (m_res bm)));
  bf_tmap : timeout_map w t2 (get_timeout_list t2 (s_h st + 1)) (fun _ => []) = Some (m_timeout bm);
  bf_multi : m_multi bm = get_multi (s_ic mid) (s_h st + 1);
  bf_rec : forall i, tm_rec (s_tm st') i =
                     if in_l (TTx i) (get_timeout_list t2 (s_h st + 1)) then Some (s_h st + 1, ST_BEGIN_ROLLBACK)
                     else tm_rec (s_tm mid) i;
  bf_glob : forall g, tm_glob (s_tm st') g =
                      if in_l (TGid g) (get_timeout_list t2 (s_h st + 1))
                      then match tm_glob (s_tm mid) g with Some gi => Some (rolled gi) | None => None end
                      else tm_glob (s_tm mid) g;
  bf_child : tm_child (s_tm st') = tm_child (s_tm mid);
  bf_tl : tm_tl (s_tm st') = tm_tl t2
}.

Theorem exec_block_fixed w st ops :
  SInv w st -> Forall (op_wf w) ops -> s_h st + 1 < W64 ->
  exists st' bm mid t2, exec_block cfg_fixed w st ops = Some (st', bm) /\ SInv w st' /\ block_facts w st ops st' bm mid t2.
Proof.
  intros [I T] Hwf Hh.
  unfold exec_block. rewrite (wrap64_small (s_h st + 1) Hh).
  set (H := s_h st) in *. set (h := H + 1) in *.
  assert (M0 : TMid w (s_tm st) H (rcv_of []) (pend_of w h [])).
  { eapply tmid_weaken_rcv; [|exact T]. intros i []. }
  destruct (apply_ops_inv w h H eq_refl Hh ops 0 false st [] Hwf I M0) as [st1 [rs [E1 [Hlen [I1 [M1 [R1 [Mono1 [Eh1 Ep1]]]]]]]]].
  { intros j [b [p [r [[] _]]]]. }
  rewrite E1. simpl app in M1, R1.
  destruct (set_timeout_list_inv w (s_tm st1) H h ops rs eq_refl Hlen M1 R1) as [t2 [E2 [Q1 [Q2 [Q3 [T2 Hmem]]]]]].
  rewrite E2.
  destruct (get_timeout_list_spec w t2 H T2) as [Lnd [Lne Lin]]. fold h in Lnd, Lne, Lin.
  set (l := get_timeout_list t2 h) in *.
  assert (Lg : forall g, In (TGid g) l -> tm_glob t2 g <> None).
  { intros g Hin. apply Lin in Hin. destruct Hin as [_ Hl].
    destruct (m_gid _ _ _ _ _ T2 h g ltac:(unfold h; lia) Hl) as [gi [E _]]. congruence. }
  destruct (timeout_map_total w t2 l (fun _ => []) Lne Lg) as [tmap Etm]. rewrite Etm.
  destruct (rollback_spec h l t2 Lnd Lne Lg) as [t3 [E3 [C3 [L3 [R3 G3]]]]]. rewrite E3.
  eexists. eexists. exists st1, t2. split; [reflexivity|].
  assert (Lrec : forall i, In (TTx i) l -> tm_rec t2 i = Some (h, ST_BEGIN)).
  { intros i Hin. apply Lin in Hin. destruct Hin as [_ Hl].
    destruct (m_tx _ _ _ _ _ T2 h i ltac:(unfold h; lia) Hl) as [s [E [Hs | []]]]. subst s. exact E. }
  split.
  - constructor; cbn [s_tm s_ic s_h].
    + (* BInv *)
      apply (binv_tm_ext w (s_tm st1) t3 (s_ic st1) I1).
      * intro i. rewrite R3. destruct (in_l (TTx i) l) eqn:Ei.
        -- apply in_l_spec in Ei. rewrite <- Q1, (Lrec i Ei). split; discriminate.
        -- rewrite Q1. tauto.
      * congruence.
      * intro g. rewrite G3, Q2. destruct (tm_glob (s_tm st1) g) as [gi|] eqn:Eg.
        -- destruct (in_l (TGid g) l).
           ++ exists (rolled gi). split; [reflexivity|]. simpl. apply children_all_keys.
           ++ exists gi. auto.
        -- destruct (in_l (TGid g) l); reflexivity.
    + (* TInv at the new height *)
      assert (Ll : forall hh x, listed t3 hh x <-> listed t2 hh x) by (apply listed_ext; exact L3).
      constructor.
      * intros hh l0 E0. rewrite L3 in E0. exact (m_ok _ _ _ _ _ T2 hh l0 E0).
      * intros hh i Hlt Hl. apply Ll in Hl.
        destruct (m_tx _ _ _ _ _ T2 hh i ltac:(unfold h in Hlt; lia) Hl) as [s [E [Hs | []]]]. subst s.
        exists ST_BEGIN. split; [|left; reflexivity]. rewrite R3.
        destruct (in_l (TTx i) l) eqn:Ei; [|exact E].
        apply in_l_spec in Ei. rewrite (Lrec i Ei) in E. inversion E. unfold h in *. lia.
      * intros hh i [].
      * constructor.
      * intros hh g Hlt Hl. apply Ll in Hl.
        destruct (m_gid _ _ _ _ _ T2 hh g ltac:(unfold h in Hlt; lia) Hl) as [gi [E [Hs Hhh]]].
        rewrite G3. destruct (in_l (TGid g) l) eqn:Eg.
        -- apply in_l_spec in Eg. apply Lin in Eg. destruct Eg as [_ Hl'].
           destruct (m_gid _ _ _ _ _ T2 h g ltac:(unfold h; lia) Hl') as [gi' [E' [_ Hh']]].
           rewrite E in E'. inversion E'; subst gi'. unfold h in *. lia.
        -- exists gi. auto.
      * intros hh i [[Hlt Hl] | []]. apply Ll in Hl. apply (m_local _ _ _ _ _ T2 hh i). left. split; [unfold h in Hlt; lia | exact Hl].
  - constructor; cbn [s_tm s_ic s_h m_res m_timeout m_multi]; auto.
    + intro i. rewrite R3, Q1. reflexivity.
    + intro g. rewrite G3, Q2. reflexivity.
    + congruence.
Qed.
