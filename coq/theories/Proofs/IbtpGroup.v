(** Shape of one-to-many groups: which child statuses go with which global status (C05). *)
From BX Require Import Base.Prelude Base.Fsm Model.TxFsm Model.TxMgr Model.Interchain Model.IbtpExec
     Proofs.TxFsmProofs Proofs.IbtpBasics Proofs.IbtpStep Proofs.IbtpTm Proofs.IbtpIc Proofs.IbtpInv
     Proofs.IbtpTl Proofs.IbtpTimeout Proofs.IbtpBlock.
From Coq Require Import String ZifyBool ZifyN ZifyNat.
Local Open Scope N_scope.

Definition kids_in (l : list (txid * N)) (S : list N) : Prop := forall p, In p l -> In (snd p) S.
Definition full (gi : ginfo) : Prop := N.of_nat (List.length (g_children gi)) = g_count gi.

Definition shape (gi : ginfo) : Prop :=
  (g_state gi = ST_BEGIN /\ kids_in (g_children gi) [ST_BEGIN; ST_SUCCESS]) \/
  (g_state gi = ST_SUCCESS /\ kids_in (g_children gi) [ST_SUCCESS] /\ full gi) \/
  (g_state gi = ST_BEGIN_FAILURE /\ kids_in (g_children gi) [ST_BEGIN_FAILURE; ST_FAILURE]) \/
  (g_state gi = ST_FAILURE /\ kids_in (g_children gi) [ST_FAILURE] /\ full gi) \/
  (g_state gi = ST_BEGIN_ROLLBACK /\ kids_in (g_children gi) [ST_BEGIN_ROLLBACK; ST_ROLLBACK]) \/
  (g_state gi = ST_ROLLBACK /\ kids_in (g_children gi) [ST_ROLLBACK] /\ full gi).

Definition KInv (t : txm) : Prop :=
  forall g gi, tm_glob t g = Some gi -> shape gi /\ NoDup (map fst (g_children gi)).

Lemma kinv_init : KInv txm_init.
Proof. intros g gi H. discriminate. Qed.

Lemma kids_in_all s l S : In s S -> kids_in (children_all s l) S.
Proof. intros Hs p Hp. apply children_all_vals in Hp. rewrite Hp. exact Hs. Qed.

Lemma kids_in_set i s l S : NoDup (map fst l) -> kids_in l S -> In s S -> kids_in (child_set i s l) S.
Proof.
  intros Hnd Hk Hs p Hp. apply child_set_In in Hp; [|exact Hnd].
  destruct Hp as [-> | [Hp _]]; [exact Hs | apply Hk; exact Hp].
Qed.

Lemma kids_in_weaken l S S' : kids_in l S -> (forall x, In x S -> In x S') -> kids_in l S'.
Proof. intros H Hs p Hp. apply Hs. apply H. exact Hp. Qed.

Lemma children_all_nodup s l : NoDup (map fst l) -> NoDup (map fst (children_all s l)).
Proof. rewrite children_all_keys. auto. Qed.

(** ** the six statuses, concretely *)
Ltac st_cases H :=
  unfold ST_BEGIN, ST_SUCCESS, ST_FAILURE, ST_ROLLBACK, ST_BEGIN_FAILURE, ST_BEGIN_ROLLBACK in *;
  repeat match type of H with _ \/ _ => destruct H as [H | H] end.

Lemma shape_state gi : shape gi ->
  g_state gi = 0 \/ g_state gi = 1 \/ g_state gi = 2 \/ g_state gi = 3 \/ g_state gi = 4 \/ g_state gi = 5.
Proof.
  unfold shape, ST_BEGIN, ST_SUCCESS, ST_FAILURE, ST_ROLLBACK, ST_BEGIN_FAILURE, ST_BEGIN_ROLLBACK.
  intros [[E _] | [[E _] | [[E _] | [[E _] | [[E _] | [E _]]]]]]; rewrite E; tauto.
Qed.

(** ** [BeginMultiTXs] *)
Lemma kinv_bm sorted cur g i T failed count t t' ch :
  KInv t -> bm_change sorted cur g i T failed count t t' ch -> KInv t'.
Proof.
  intros K H. inversion H; subst.
  - intros g0 gi0 E0. simpl in E0. unfold upd in E0. destruct (gid_eqb g0 g) eqn:Eg.
    + inversion E0; subst gi0. split.
      * unfold shape, kids_in. simpl. subst st. destruct failed.
        -- right. right. left. split; [reflexivity|]. intros p [<- | []]. simpl. auto.
        -- left. split; [reflexivity|]. intros p [<- | []]. simpl. auto.
      * simpl. constructor; [tauto | constructor].
    + subst t1. destruct failed; [apply (K g0 gi0 E0)|].
      destruct (tm_add_timeout_fields cfg_fixed t hh (TGid g)) as [_ [A _]]. rewrite A in E0. apply (K g0 gi0 E0).
  - destruct (K g gi H0) as [Hs Hnd].
    intros g0 gi0 E0. simpl in E0. unfold upd in E0. destruct (gid_eqb g0 g) eqn:Eg; [|apply (K g0 gi0 E0)].
    inversion E0; subst gi0. split; [|simpl; apply child_set_nodup; exact Hnd].
    unfold shape in *. simpl. subst kids.
    destruct Hs as [[E _] | [[E _] | [[E Hk] | [[E _] | [[E Hk] | [E _]]]]]];
      try (exfalso; congruence);
      try (exfalso; rewrite E in *; discriminate).
    + right. right. left. split; [exact E|]. apply kids_in_set; auto. rewrite E. simpl. auto.
    + right. right. right. right. left. split; [exact E|]. apply kids_in_set; auto. rewrite E. simpl. auto.
  - destruct (K g gi H0) as [Hs Hnd].
    intros g0 gi0 E0. simpl in E0. unfold upd in E0. destruct (gid_eqb g0 g) eqn:Eg.
    + inversion E0; subst gi0. split.
      * unfold shape. simpl. right. right. left. split; [reflexivity|]. subst kids.
        apply kids_in_set; [apply children_all_nodup; exact Hnd | apply kids_in_all; simpl; auto | simpl; auto].
      * simpl. subst kids. apply child_set_nodup. apply children_all_nodup. exact Hnd.
    + apply tm_remove_timeout_fields in H4. destruct H4 as [_ [A _]]. rewrite A in E0. apply (K g0 gi0 E0).
  - destruct (K g gi H0) as [Hs Hnd].
    intros g0 gi0 E0. simpl in E0. unfold upd in E0. destruct (gid_eqb g0 g) eqn:Eg; [|apply (K g0 gi0 E0)].
    inversion E0; subst gi0. split; [|simpl; apply child_set_nodup; exact Hnd].
    unfold shape in *. simpl. subst kids. left. split; [assumption|].
    destruct Hs as [[E Hk] | [[E _] | [[E _] | [[E _] | [[E _] | [E _]]]]]]; try (exfalso; rewrite E in *; discriminate).
    apply kids_in_set; auto. simpl. auto.
Qed.

(** ** [Report] on a child *)
Lemma forallb_kids st l : forallb (fun p : txid * N => snd p =? st) l = true -> kids_in l [st].
Proof.
  intros H p Hp. rewrite forallb_forall in H. specialize (H p Hp). apply N.eqb_eq in H. rewrite H. left. reflexivity.
Qed.

Lemma kinv_cm gi i r gi' rm :
  shape gi -> NoDup (map fst (g_children gi)) -> cm_change gi i r gi' rm ->
  shape gi' /\ NoDup (map fst (g_children gi')).
Proof.
  intros Hs Hnd H. inversion H; subst.
  - split.
    + unfold shape. simpl. right. right. left. split; [reflexivity|].
      apply kids_in_set; [apply children_all_nodup; exact Hnd | apply kids_in_all; simpl; auto | simpl; auto].
    + simpl. apply child_set_nodup. apply children_all_nodup. exact Hnd.
  - (* a child moves, the group does not finish *)
    split; [|simpl; apply child_set_nodup; exact Hnd].
    assert (Hst : In (i, st) (g_children gi)) by (apply child_lookup_in; assumption).
    pose proof (set_fsm_receipt_edges _ _ _ H2) as Hedge.
    unfold shape in *. simpl.
    destruct Hs as [[E Hk] | [[E [Hk _]] | [[E Hk] | [[E [Hk _]] | [[E Hk] | [E [Hk _]]]]]]];
      pose proof (Hk _ Hst) as Hin; simpl in Hin;
      unfold ST_BEGIN, ST_SUCCESS, ST_FAILURE, ST_ROLLBACK, ST_BEGIN_FAILURE, ST_BEGIN_ROLLBACK in *.
    + (* global BEGIN *)
      left. split; [exact E|]. apply kids_in_set; auto.
      destruct Hin as [<- | [<- | []]].
      * destruct Hedge as [[_ [_ ->]] | [[_ [Hr ->]] | [[X _] | [[X _] | [X _]]]]]; try discriminate; simpl; auto.
        exfalso. rewrite E, Hr in H0. discriminate.
      * destruct Hedge as [[X _] | [[X _] | [[X _] | [[X _] | [X _]]]]]; discriminate.
    + exfalso. destruct Hin as [<- | []]. destruct Hedge as [[X _] | [[X _] | [[X _] | [[X _] | [X _]]]]]; discriminate.
    + right. right. left. split; [exact E|]. apply kids_in_set; auto.
      destruct Hin as [<- | [<- | []]].
      * destruct Hedge as [[X _] | [[X _] | [[_ [_ ->]] | [[X _] | [X _]]]]]; try discriminate. simpl. auto.
      * destruct Hedge as [[X _] | [[X _] | [[X _] | [[X _] | [X _]]]]]; discriminate.
    + exfalso. destruct Hin as [<- | []]. destruct Hedge as [[X _] | [[X _] | [[X _] | [[X _] | [X _]]]]]; discriminate.
    + right. right. right. right. left. split; [exact E|]. apply kids_in_set; auto.
      destruct Hin as [<- | [<- | []]].
      * destruct Hedge as [[X _] | [[X _] | [[X _] | [[_ [_ ->]] | [_ [_ ->]]]]]]; try discriminate; simpl; auto.
      * destruct Hedge as [[X _] | [[X _] | [[X _] | [[X _] | [X _]]]]]; discriminate.
    + exfalso. destruct Hin as [<- | []]. destruct Hedge as [[X _] | [[X _] | [[X _] | [[X _] | [X _]]]]]; discriminate.
  - (* the last child: the group finishes *)
    split; [|simpl; apply child_set_nodup; exact Hnd].
    unfold multi_finished in H3. apply andb_true_iff in H3. destruct H3 as [Hall Hlen].
    apply forallb_kids in Hall. apply N.eqb_eq in Hlen.
    pose proof (set_fsm_receipt_edges _ _ _ H2) as Hedge.
    pose proof (set_fsm_receipt_edges _ _ _ H4) as Hgedge.
    unfold shape, full. simpl.
    unfold ST_BEGIN, ST_SUCCESS, ST_FAILURE, ST_ROLLBACK, ST_BEGIN_FAILURE, ST_BEGIN_ROLLBACK in *.
    destruct Hgedge as [[Eg [Er ->]] | [[Eg [Er ->]] | [[Eg [Er ->]] | [[Eg [Er ->]] | [Eg [Er ->]]]]]].
    + (* BEGIN -success-> SUCCESS *)
      right. left. split; [reflexivity|]. split; [|exact Hlen].
      destruct Hedge as [[_ [_ ->]] | [[_ [X _]] | [[_ [X _]] | [[_ [X _]] | [_ [X _]]]]]]; try (rewrite Er in X; discriminate).
      exact Hall.
    + (* BEGIN -failure-> FAILURE: excluded, a failure receipt on a BEGIN group takes the other branch *)
      exfalso. rewrite Eg, Er in H0. discriminate.
    + right. right. right. left. split; [reflexivity|]. split; [|exact Hlen].
      (* global BEGIN_FAILURE, r = failure: the child was BEGIN_FAILURE (or BEGIN: impossible by shape) *)
      assert (Hst : In (i, st) (g_children gi)) by (apply child_lookup_in; assumption).
      destruct Hs as [[E _] | [[E _] | [[E Hk] | [[E _] | [[E _] | [E _]]]]]]; try (rewrite Eg in E; discriminate).
      pose proof (Hk _ Hst) as Hin. simpl in Hin.
      destruct Hin as [<- | [<- | []]].
      * destruct Hedge as [[X _] | [[X _] | [[_ [_ ->]] | [[X _] | [X _]]]]]; try discriminate. exact Hall.
      * destruct Hedge as [[X _] | [[X _] | [[X _] | [[X _] | [X _]]]]]; discriminate.
    + right. right. right. right. right. split; [reflexivity|]. split; [|exact Hlen].
      assert (Hst : In (i, st) (g_children gi)) by (apply child_lookup_in; assumption).
      destruct Hs as [[E _] | [[E _] | [[E _] | [[E _] | [[E Hk] | [E _]]]]]]; try (rewrite Eg in E; discriminate).
      pose proof (Hk _ Hst) as Hin. simpl in Hin.
      destruct Hin as [<- | [<- | []]].
      * destruct Hedge as [[X _] | [[X _] | [[X _] | [[_ [_ ->]] | [_ [_ ->]]]]]]; try discriminate; exact Hall.
      * destruct Hedge as [[X _] | [[X _] | [[X _] | [[X _] | [X _]]]]]; discriminate.
    + right. right. right. right. right. split; [reflexivity|]. split; [|exact Hlen].
      assert (Hst : In (i, st) (g_children gi)) by (apply child_lookup_in; assumption).
      destruct Hs as [[E _] | [[E _] | [[E _] | [[E _] | [[E Hk] | [E _]]]]]]; try (rewrite Eg in E; discriminate).
      pose proof (Hk _ Hst) as Hin. simpl in Hin.
      destruct Hin as [<- | [<- | []]].
      * destruct Hedge as [[X _] | [[X _] | [[X _] | [[_ [_ ->]] | [_ [_ ->]]]]]]; try discriminate; exact Hall.
      * destruct Hedge as [[X _] | [[X _] | [[X _] | [[X _] | [X _]]]]]; discriminate.
Qed.

Lemma kinv_set_rec t i v : KInv t -> KInv (set_rec t i v).
Proof. intros K g gi E. apply (K g gi E). Qed.

Lemma kinv_step w h b sf sd terr t t' ch :
  KInv t -> tm_step cfg_fixed w h b sf sd terr t = Some (TmOk t' ch) -> KInv t'.
Proof.
  intros K H. apply tm_step_inv in H. inversion H; subst; try (apply kinv_set_rec; exact K).
  - eapply kinv_bm; eauto.
  - match goal with Hr : rp_change _ _ _ _ _ _ |- _ => inversion Hr; subst end.
    + apply kinv_set_rec. exact K.
    + destruct (K g gi ltac:(assumption)) as [Hs Hnd].
      match goal with Hc : cm_change _ _ _ _ _ |- _ => destruct (kinv_cm _ _ _ _ _ Hs Hnd Hc) as [Hs' Hnd'] end.
      assert (Eg : tm_glob t1 = tm_glob t).
      { destruct rm.
        - match goal with Hr : tm_remove_timeout _ _ _ = Some _ |- _ => apply tm_remove_timeout_fields in Hr; destruct Hr as [_ [R2 _]] end. exact R2.
        - match goal with Hr : Some _ = Some _ |- _ => inversion Hr; subst end. reflexivity. }
      intros g0 gi0 E0. simpl in E0. unfold upd in E0. destruct (gid_eqb g0 g).
      * inversion E0; subst. split; assumption.
      * rewrite Eg in E0. apply (K g0 gi0 E0).
Qed.

Lemma kinv_handle w h serial b t c t' c' r :
  KInv t -> handle_ibtp cfg_fixed w h serial b t c = Some (t', c', r) -> KInv t'.
Proof.
  intros K H. apply handle_fixed_inv in H. inversion H; subst; [exact K|].
  eapply kinv_step; eauto.
Qed.

(** a property of the transaction manager kept by every IBTP transaction is kept by the loop *)
Lemma apply_ops_tm_pres (P : txm -> Prop) w h :
  (forall serial b t c t' c' r, P t -> handle_ibtp cfg_fixed w h serial b t c = Some (t', c', r) -> P t') ->
  forall ops i touched st st' rs,
  apply_ops cfg_fixed w h i touched st ops = Some (st', rs) -> P (s_tm st) -> P (s_tm st').
Proof.
  intro Hstep. induction ops as [|o ops IH]; intros i touched st st' rs H HP.
  - simpl in H. inversion H; subst. exact HP.
  - cbn [apply_ops] in H. destruct (apply_op cfg_fixed w h i touched st o) as [[st1 r1]|] eqn:E1; [|discriminate].
    destruct (apply_ops cfg_fixed w h (i + 1) (touched || touches_ic w o) st1 ops) as [[st2 rs2]|] eqn:E2; [|discriminate].
    inversion H; subst. eapply IH; [exact E2|].
    destruct o as [b p | | m a b0 c d0]; cbn [apply_op] in E1.
    + destruct (negb p); [inversion E1; subst; exact HP|].
      destruct (handle_ibtp cfg_fixed w h (1000 * h + i) b (s_tm st) (s_ic st)) as [[[t' c'] r]|] eqn:Eh; [|discriminate].
      inversion E1; subst. simpl. eapply Hstep; eauto.
    + inversion E1; subst. exact HP.
    + inversion E1 as [E1']. destruct (apply_call_inv _ _ _ _ _ _ _ _ _ _ E1') as [Et _].
      rewrite Et. exact HP.
Qed.

Lemma kinv_block w st ops st' bm :
  SInv w st -> Forall (op_wf w) ops -> s_h st + 1 < W64 ->
  exec_block cfg_fixed w st ops = Some (st', bm) -> KInv (s_tm st) -> KInv (s_tm st').
Proof.
  intros S Hwf Hh E K.
  destruct (exec_block_fixed w st ops S Hwf Hh) as [st2 [bm2 [mid [t2 [E2 [_ F]]]]]].
  rewrite E in E2. inversion E2; subst st2 bm2.
  assert (Kmid : KInv (s_tm mid)).
  { eapply (apply_ops_tm_pres KInv w (s_h st + 1)); [|exact (bf_ops _ _ _ _ _ _ _ F) | exact K].
    intros. eapply kinv_handle; eauto. }
  intros g gi Eg. rewrite (bf_glob _ _ _ _ _ _ _ F) in Eg.
  destruct (in_l (TGid g) (get_timeout_list t2 (s_h st + 1))); [|apply (Kmid g gi Eg)].
  destruct (tm_glob (s_tm mid) g) as [gi0|] eqn:E0; [|discriminate]. inversion Eg; subst gi.
  destruct (Kmid g gi0 E0) as [_ Hnd]. split.
  - unfold shape. simpl. right. right. right. right. left. split; [reflexivity|].
    apply kids_in_all. simpl. auto.
  - simpl. apply children_all_nodup. exact Hnd.
Qed.
