(** Timeout lists at the token level: shape, membership, and the effect of the string
    operations of handle.go / transaction_manager.go on them. *)
From BX Require Import Base.Prelude Base.Fsm Model.TxFsm Model.TxMgr Model.Interchain Model.IbtpExec
     Proofs.TxFsmProofs Proofs.IbtpBasics.
From Coq Require Import String ZifyBool ZifyN ZifyNat.
Local Open Scope N_scope.

(** a stored list is either the empty string or a duplicate-free list of ids *)
Definition tl_ok (l : list tok) : Prop :=
  NoDup l /\ l <> [] /\ (In TEmpty l -> l = [TEmpty]).

Lemma tl_ok_empty : tl_ok [TEmpty].
Proof. repeat split; [constructor; [tauto | constructor] | discriminate]. Qed.

Lemma tl_is_empty_str_spec l : tl_is_empty_str l = true <-> l = [TEmpty].
Proof.
  destruct l as [|[| |] [|]]; simpl; split; intro H; try discriminate; try reflexivity; try (inversion H).
Qed.

Lemma tl_norm_ok l : NoDup l -> ~ In TEmpty l -> tl_ok (tl_norm l).
Proof.
  intros Hnd Hne. destruct l as [|x r]; simpl; [apply tl_ok_empty|].
  repeat split; [exact Hnd | discriminate | intro H; contradiction].
Qed.

Lemma tl_norm_in l x : x <> TEmpty -> (In x (tl_norm l) <-> In x l).
Proof.
  intro Hx. destruct l; simpl; [|tauto]. split; [intros [H | []]; congruence | tauto].
Qed.

(** ** removal *)
Lemma count_tok_in x l : (count_tok x l > 0)%nat <-> In x l.
Proof.
  induction l as [|y t IH]; simpl; [split; [lia | tauto]|].
  destruct (tok_eqb x y) eqn:E.
  - apply tok_eqb_eq in E. subst. split; [intros _; left; reflexivity | lia].
  - apply tok_eqb_neq in E. rewrite IH. split; [tauto | intros [H | H]; [congruence | exact H]].
Qed.
Lemma count_tok_nodup x l : NoDup l -> (count_tok x l <= 1)%nat.
Proof.
  induction l as [|y t IH]; simpl; intro Hnd; [lia|].
  inversion Hnd; subst. destruct (tok_eqb x y) eqn:E.
  - apply tok_eqb_eq in E. subst.
    assert (count_tok y t = 0)%nat.
    { destruct (count_tok y t) eqn:C; [reflexivity|]. exfalso. apply H1. apply count_tok_in. lia. }
    lia.
  - apply IH. assumption.
Qed.
Lemma remove_first_in x l y : NoDup l -> (In y (remove_first x l) <-> In y l /\ y <> x).
Proof.
  induction l as [|z t IH]; simpl; intro Hnd; [tauto|].
  inversion Hnd; subst. destruct (tok_eqb x z) eqn:E.
  - apply tok_eqb_eq in E. subst z. split.
    + intro H. split; [right; exact H | intro; subst; contradiction].
    + intros [[H | H] Hne]; [congruence | exact H].
  - apply tok_eqb_neq in E. simpl. rewrite (IH H2). split.
    + intros [H | [H Hne]]; [subst; split; [left; reflexivity | congruence] | split; [right; exact H | exact Hne]].
    + intros [[H | H] Hne]; [left; exact H | right; split; assumption].
Qed.
Lemma remove_first_nodup x l : NoDup l -> NoDup (remove_first x l).
Proof.
  induction l as [|z t IH]; simpl; intro Hnd; [constructor|].
  inversion Hnd; subst. destruct (tok_eqb x z); [assumption|].
  constructor; [|apply IH; assumption].
  intro H. apply remove_first_in in H; [|assumption]. tauto.
Qed.

Lemma tl_remove_ok x l :
  tl_ok l -> x <> TEmpty ->
  exists l', tl_remove x l = Some l' /\ tl_ok l' /\
             (forall y, y <> TEmpty -> (In y l' <-> In y l /\ y <> x)).
Proof.
  intros [Hnd [Hne Hemp]] Hx. unfold tl_remove.
  pose proof (count_tok_nodup x l Hnd) as Hc.
  destruct (count_tok x l <=? 1)%nat eqn:E; [|apply Nat.leb_gt in E; lia].
  eexists. split; [reflexivity|]. split.
  - destruct (in_dec tok_dec TEmpty l) as [Hin | Hnin].
    + rewrite (Hemp Hin). simpl. destruct (tok_eqb x TEmpty) eqn:Ex.
      * apply tok_eqb_eq in Ex. contradiction.
      * simpl. apply tl_ok_empty.
    + apply tl_norm_ok; [apply remove_first_nodup; exact Hnd|].
      intro H. apply remove_first_in in H; [|exact Hnd]. tauto.
  - intros y Hy. rewrite tl_norm_in by exact Hy. apply remove_first_in. exact Hnd.
Qed.

(** ** appending *)
Lemma nodup_app {A} (l1 l2 : list A) :
  NoDup l1 -> NoDup l2 -> (forall x, In x l1 -> ~ In x l2) -> NoDup (l1 ++ l2).
Proof.
  induction l1 as [|y t IH]; simpl; intros H1 H2 Hd; [exact H2|].
  inversion H1; subst. constructor.
  - rewrite in_app_iff. intros [H | H]; [contradiction | exact (Hd y (or_introl eq_refl) H)].
  - apply IH; auto.
Qed.

Lemma tl_write_ok cur ids :
  (forall l, cur = Some l -> tl_ok l) ->
  NoDup ids -> ids <> [] -> ~ In TEmpty ids ->
  (forall l x, cur = Some l -> In x l -> ~ In x ids) ->
  tl_ok (tl_write cur ids) /\
  (forall y, y <> TEmpty -> (In y (tl_write cur ids) <-> (exists l, cur = Some l /\ In y l) \/ In y ids)).
Proof.
  intros Hcur Hnd Hne Hte Hdis. unfold tl_write. destruct cur as [l|].
  - destruct (Hcur l eq_refl) as [Lnd [Lne Lemp]].
    destruct (tl_is_empty_str l) eqn:E.
    + apply tl_is_empty_str_spec in E. subst l. split.
      * repeat split; [exact Hnd | exact Hne | intro; contradiction].
      * intros y Hy. split; [intro H; right; exact H|].
        intros [[l [El Hl]] | H]; [|exact H]. inversion El; subst. destruct Hl as [Hl | []]. congruence.
    + assert (Hnt : ~ In TEmpty l).
      { intro H. rewrite (Lemp H) in E. discriminate. }
      split.
      * repeat split.
        -- apply nodup_app; auto. intros x Hx. eapply Hdis; eauto.
        -- destruct l; [contradiction | discriminate].
        -- rewrite in_app_iff. tauto.
      * intros y Hy. rewrite in_app_iff. split.
        -- intros [H | H]; [left; exists l; auto | right; exact H].
        -- intros [[l0 [El Hl]] | H]; [left; inversion El; subst; exact Hl | right; exact H].
  - split.
    + repeat split; [exact Hnd | exact Hne | intro; contradiction].
    + intros y Hy. split; [intro H; right; exact H|]. intros [[l [El _]] | H]; [discriminate | exact H].
Qed.

(** ** the transaction manager's own add / remove *)
Lemma tm_add_timeout_tl t h x :
  x <> TEmpty ->
  (forall l, tm_tl t h = Some l -> tl_ok l /\ ~ In x l) ->
  let t' := tm_add_timeout cfg_fixed t h x in
  (forall hh, hh <> h -> tm_tl t' hh = tm_tl t hh) /\
  (exists l', tm_tl t' h = Some l' /\ tl_ok l' /\
     (forall y, y <> TEmpty -> (In y l' <-> (exists l, tm_tl t h = Some l /\ In y l) \/ y = x))).
Proof.
  intros Hx Hcur. unfold tm_add_timeout. cbn [d_tl_empty_head cfg_fixed negb].
  destruct (tm_tl t h) as [l|] eqn:El; [rewrite andb_true_r|].
  - destruct (Hcur l eq_refl) as [[Lnd [Lne Lemp]] Lnx].
    destruct (tl_is_empty_str l) eqn:E.
    + apply tl_is_empty_str_spec in E. subst l. split.
      * intros hh Hh. simpl. rewrite updN_other by exact Hh. reflexivity.
      * exists [x]. split; [simpl; rewrite updN_same; reflexivity|]. split.
        -- repeat split; [constructor; [tauto | constructor] | discriminate | intros [H | []]; congruence].
        -- intros y Hy. simpl. split; [intros [H | []]; right; congruence|].
           intros [[l [E1 Hl]] | H]; [inversion E1; subst; destruct Hl as [Hl | []]; congruence | left; congruence].
    + assert (Hnt : ~ In TEmpty l).
      { intro H. rewrite (Lemp H) in E. discriminate. }
      split.
      * intros hh Hh. simpl. rewrite updN_other by exact Hh. reflexivity.
      * exists (l ++ [x]). split; [simpl; rewrite updN_same; reflexivity|]. split.
        -- repeat split.
           ++ apply NoDup_app_end; assumption.
           ++ destruct l; discriminate.
           ++ rewrite in_app_iff. simpl. intros [H | [H | []]]; [contradiction | congruence].
        -- intros y Hy. rewrite in_app_iff. simpl. split.
           ++ intros [H | [H | []]]; [left; exists l; auto | right; congruence].
           ++ intros [[l0 [E1 Hl]] | H]; [left; inversion E1; subst; exact Hl | right; left; congruence].
  - split.
    + intros hh Hh. simpl. rewrite updN_other by exact Hh. reflexivity.
    + exists [x]. split; [simpl; rewrite updN_same; reflexivity|]. split.
      * repeat split; [constructor; [tauto | constructor] | discriminate | intros [H | []]; congruence].
      * intros y Hy. simpl. split; [intros [H | []]; right; congruence|].
        intros [[l [E1 _]] | H]; [discriminate | left; congruence].
Qed.

Lemma tm_remove_timeout_tl t h x :
  x <> TEmpty ->
  (forall l, tm_tl t h = Some l -> tl_ok l) ->
  exists t', tm_remove_timeout t h x = Some t' /\
    (forall hh, hh <> h -> tm_tl t' hh = tm_tl t hh) /\
    (forall l, tm_tl t h = Some l ->
       exists l', tm_tl t' h = Some l' /\ tl_ok l' /\ (forall y, y <> TEmpty -> (In y l' <-> In y l /\ y <> x))) /\
    (tm_tl t h = None -> tm_tl t' h = None).
Proof.
  intros Hx Hcur. unfold tm_remove_timeout. destruct (tm_tl t h) as [l|] eqn:El.
  - destruct (tl_remove_ok x l (Hcur l eq_refl) Hx) as [l' [E [Hok Hin]]]. rewrite E.
    eexists. split; [reflexivity|]. split; [|split].
    + intros hh Hh. simpl. rewrite updN_other by exact Hh. reflexivity.
    + intros l0 E0. inversion E0; subst l0. exists l'. simpl. rewrite updN_same. auto.
    + discriminate.
  - exists t. split; [reflexivity|]. split; [reflexivity|]. split; [discriminate | intros _; exact El].
Qed.
