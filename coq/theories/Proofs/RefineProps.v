(** Statements derived from the refinement theorem, in the form the property files cite. *)
From BX Require Import Base.Prelude Model.JsonAcct Model.Merkle Model.StateLedger Model.LedgerSpec
  Proofs.LedgerLemmas Proofs.RefineBase Proofs.RefineSim Proofs.RefineRollback Proofs.RefineMain.
Local Open Scope N_scope.

(** the boolean predicate evaluated on traces and its Prop form coincide *)
Lemma spec_agree_iff gate strict e : forall ops outs s i,
  fst (spec_agree_g gate strict e s ops outs i) = None <-> spec_agree_P gate strict e s ops outs.
Proof.
  induction ops as [|o t IH]; intros outs s i; [simpl; tauto|].
  destruct outs as [|x t']; [simpl; tauto|].
  cbn [spec_agree_g spec_agree_P]. destruct (gate s o) eqn:Eg; cbn [negb].
  - destruct (spec_step e s o x) as [s1 ex] eqn:Es. cbn [fst snd].
    destruct (sexp_match strict ex x) eqn:Em.
    + rewrite IH. split; [intros H _; split; [reflexivity | exact H] | intro H; apply H; reflexivity].
    + cbn [fst]. split; [discriminate | intro H; destruct (H eq_refl) as [H1 _]; discriminate].
  - cbn [fst]. split; [intros _ H; discriminate | reflexivity].
Qed.

(** the refinement theorem in boolean form: the judge's predicate holds on every trace of the
    repaired model *)
Theorem refine_bool e ops :
  (forall c, e_kec e c <> []) -> (forall c c', e_kec e c = e_kec e c' -> c = c') ->
  fst (spec_agree_g wf_thm_b false e spec0 ops (snd (run e cfg_fixed st0 ops)) 0) = None.
Proof. intros Hne Hinj. apply spec_agree_iff. apply refine_from_empty; assumption. Qed.

(** ** what the specification says a rollback does (by definition) *)
Lemma spec_rollback_restores e s t x S r :
  (sp_max s <? t) = false -> ((t <? sp_min s) && negb ((sp_min s =? 1) && (t =? 0))) = false ->
  (sp_max s =? t) = false -> hist_get s t = Some (S, r) ->
  let '(s', ex) := spec_step e s (Rollback t) x in
  ex = ERes R_ok /\ sp_cur s' = S /\ sp_fl s' = S /\ sp_prev s' = r /\ sp_max s' = t.
Proof.
  intros H1 H2 H3 H4. cbn [spec_step]. rewrite H1, H2, H3, H4. repeat split.
Qed.

Lemma spec_rollback_refused e s t x :
  (sp_max s <? t) = true \/ ((t <? sp_min s) && negb ((sp_min s =? 1) && (t =? 0))) = true ->
  let '(s', ex) := spec_step e s (Rollback t) x in
  s' = s /\ (ex = ERes R_higher \/ ex = ERes R_toomuch).
Proof.
  intros H. cbn [spec_step]. destruct (sp_max s <? t) eqn:E1; [split; [reflexivity | left; reflexivity]|].
  destruct H as [H | H]; [discriminate|]. rewrite H. split; [reflexivity | right; reflexivity].
Qed.

(** ** a refused rollback modifies nothing (every configuration, every state) *)
Theorem rollback_refused_frame c m t :
  (s_max m <? t) = true \/ ((t <? s_min m) && negb ((s_min m =? 1) && (t =? 0))) = true ->
  fst (do_rollback c m t) = m /\
  (snd (do_rollback c m t) = ORes R_higher \/ snd (do_rollback c m t) = ORes R_toomuch).
Proof.
  intro H. unfold do_rollback. destruct (s_max m <? t) eqn:E1; [split; [reflexivity | left; reflexivity]|].
  destruct H as [H | H]; [discriminate|]. rewrite H. split; [reflexivity | right; reflexivity].
Qed.

(** and a rollback is refused exactly outside the retained window *)
Theorem rollback_refused_iff c m t :
  (snd (do_rollback c m t) = ORes R_higher <-> s_max m < t) /\
  (snd (do_rollback c m t) = ORes R_toomuch <-> t <= s_max m /\ t < s_min m /\ ~ (s_min m = 1 /\ t = 0)).
Proof.
  unfold do_rollback. destruct (s_max m <? t) eqn:E1.
  - apply N.ltb_lt in E1. split; [tauto|]. split; [discriminate | lia].
  - apply N.ltb_ge in E1. destruct ((t <? s_min m) && negb ((s_min m =? 1) && (t =? 0))) eqn:E2.
    + apply andb_true_iff in E2. destruct E2 as [E2 E3]. apply N.ltb_lt in E2.
      apply negb_true_iff, andb_false_iff in E3.
      split; [split; [discriminate | lia]|]. split; [intros _|reflexivity].
      split; [exact E1|]. split; [exact E2|]. intros [A B]. destruct E3 as [E3 | E3]; [apply N.eqb_neq in E3 | apply N.eqb_neq in E3]; contradiction.
    + assert (Hn : ~ (t < s_min m /\ ~ (s_min m = 1 /\ t = 0))).
      { intros [A B]. apply andb_false_iff in E2. destruct E2 as [E2 | E2].
        - apply N.ltb_ge in E2. lia.
        - apply negb_false_iff, andb_true_iff in E2. destruct E2 as [E2 E3]. apply N.eqb_eq in E2, E3. tauto. }
      destruct (s_max m =? t) eqn:E3; [split; [split; [discriminate | lia] | split; [discriminate | tauto]]|].
      destruct (rollback_loop _ _ _ _) as [d1 ok]. destruct (negb ok); [split; [split; [discriminate | lia] | split; [discriminate | tauto]]|].
      destruct (t =? 0); [split; [split; [discriminate | lia] | split; [discriminate | tauto]]|].
      destruct (aget t (d_jnl d1)); split; try (split; [discriminate | lia]); split; try discriminate; tauto.
Qed.

(** ** snapshots in the specification: a revert restores the map of snapshot time, whatever
    journaled writes, reads, nested snapshots and reverts of nested snapshots happened in between *)
Definition span_op (id : N) (o : op) : bool :=
  match o with
  | GetBal _ | GetNonce _ | GetCode _ | GetSt _ _ | Query _ _ | Version | DbDump
  | SetBal _ _ | AddBal _ _ | SetNonce _ _ | SetSt _ _ _ | SetCode _ _ | Snap => true
  | Revert j => id <? j           (* only snapshots taken after [id] are reverted inside the span *)
  | _ => false
  end.

Fixpoint spec_run (e : env) (s : spec) (ops : list op) (outs : list out) : spec :=
  match ops, outs with
  | o :: t, x :: t' => spec_run e (fst (spec_step e s o x)) t t'
  | _, _ => s
  end.

Lemma alookup_filter_fst {A} (P : N -> bool) (l : list (N * A)) id :
  alookup N.eqb id (filter (fun x => P (fst x)) l) = if P id then alookup N.eqb id l else None.
Proof.
  induction l as [|[x a] t IH]; simpl; [destruct (P id); reflexivity|].
  destruct (P x) eqn:Ex; simpl.
  - destruct (id =? x) eqn:E; [apply N.eqb_eq in E; subst; rewrite Ex; reflexivity | exact IH].
  - destruct (id =? x) eqn:E; [| exact IH]. apply N.eqb_eq in E. subst x. rewrite Ex in *. exact IH.
Qed.

Lemma span_keeps_snapshot e id S0 : forall ops outs s,
  forallb (span_op id) ops = true ->
  alookup N.eqb id (sp_snaps s) = Some (S0, false) -> id < sp_next s ->
  let s' := spec_run e s ops outs in
  alookup N.eqb id (sp_snaps s') = Some (S0, false) /\ id < sp_next s'.
Proof.
  induction ops as [|o t IH]; intros outs s Hs Ha Hn; [split; assumption|].
  destruct outs as [|x t']; [split; assumption|].
  cbn [forallb] in Hs. apply andb_true_iff in Hs. destruct Hs as [Ho Ht].
  cbn [spec_run]. apply IH; [exact Ht | |]; destruct o; try discriminate; cbn [spec_step fst sp_snaps sp_next sp_set_cur sp_touch sp_set_snaps];
    try assumption; try (destruct (z =? 0)%Z; cbn [fst sp_snaps sp_next sp_set_cur sp_touch]; assumption).
  - (* Snap: a fresh id *)
    cbn [alookup]. destruct (id =? sp_next s) eqn:E; [apply N.eqb_eq in E; lia | exact Ha].
  - (* Revert of a nested snapshot *)
    simpl in Ho. apply N.ltb_lt in Ho.
    destruct (alookup N.eqb id0 (sp_snaps s)) as [[sv tt]|]; cbn [fst sp_snaps sp_set_snaps sp_set_cur]; [| exact Ha].
    rewrite (alookup_filter_fst (fun i => i <? id0)). destruct (id <? id0) eqn:E; [exact Ha | apply N.ltb_ge in E; lia].
  - lia.
  - simpl in Ho. destruct (alookup N.eqb id0 (sp_snaps s)) as [[sv tt]|]; cbn [fst sp_next sp_set_snaps sp_set_cur]; exact Hn.
Qed.

Theorem spec_revert_restores e s span outs x0 x1 :
  forallb (span_op (sp_next s)) span = true ->
  let s1 := fst (spec_step e s Snap x0) in
  let s2 := spec_run e s1 span outs in
  sp_cur (fst (spec_step e s2 (Revert (sp_next s)) x1)) = sp_cur s /\
  snd (spec_step e s2 (Revert (sp_next s)) x1) = ERes R_ok /\
  wf_op_b s2 (Revert (sp_next s)) = true.
Proof.
  intro Hs. cbv zeta.
  destruct (span_keeps_snapshot e (sp_next s) (sp_cur s) span outs (fst (spec_step e s Snap x0)) Hs) as [Ha Hn].
  - cbn [spec_step fst sp_snaps sp_set_snaps alookup]. rewrite N.eqb_refl. reflexivity.
  - cbn [spec_step fst sp_next sp_set_snaps]. lia.
  - set (s2 := spec_run e (fst (spec_step e s Snap x0)) span outs) in *. clearbody s2.
    cbn [spec_step]. rewrite Ha. cbn [fst snd sp_cur sp_set_snaps sp_set_cur]. split; [reflexivity|]. split; [reflexivity|].
    unfold wf_op_b. rewrite Ha. destruct (sp_pend s2); reflexivity.
Qed.

(** ** the chain-half predicate evaluated on full-ledger traces: what a pass says about a refusal
    and about an accepted rollback *)
Lemma full_frame_refused_step h r t t' c t'' prev i :
  full_frame_g (Rollback h :: t) (ORes r :: t') (c :: t'') prev i = None -> r <> R_ok -> c = prev.
Proof.
  cbn [full_frame_g]. intros H Hr. destruct (r =? R_ok) eqn:E; [apply N.eqb_eq in E; contradiction|].
  destruct (list_eqb N.eqb c prev) eqn:El; [| discriminate].
  apply (list_eqb_spec N.eqb N.eqb_eq). exact El.
Qed.

Lemma full_frame_accepted_step h t t' c t'' prev i :
  full_frame_g (Rollback h :: t) (ORes R_ok :: t') (c :: t'') prev i = None ->
  exists rest, c = h :: h :: h :: rest.
Proof.
  cbn [full_frame_g]. rewrite N.eqb_refl. intro H.
  destruct (chain_heights_at c h) eqn:E; [| discriminate]. unfold chain_heights_at in E.
  destruct c as [|a [|b [|n rest]]]; try discriminate.
  apply andb_true_iff in E. destruct E as [E E3]. apply andb_true_iff in E. destruct E as [E1 E2].
  apply N.eqb_eq in E1, E2, E3. subst. exists rest. reflexivity.
Qed.

