(** Statements derived from the refinement theorem, in the form the property files cite. *)
From BX Require Import Base.Prelude Model.JsonAcct Model.Merkle Model.StateLedger Model.LedgerSpec
  Proofs.LedgerLemmas Proofs.RefineBase Proofs.RefineSim Proofs.RefineRollback Proofs.RefineMain.
Local Open Scope N_scope.

(** the boolean predicate evaluated on traces and its Prop form coincide *)
Lemma spec_agree_iff gate strict e : forall ops outs s i,
  fst (spec_agree_g gate strict e s ops outs i) = None <-> spec_agree_P gate strict e s ops outs.
Proof.
  induction ops as [|o t IH]; intros outs s i; [simpl; tauto|].
  destruct outs as [|x t']; [simpl; tauto|].
  cbn [spec_agree_g spec_agree_P]. destruct (gate s o) eqn:Eg; cbn [negb].
  - destruct (spec_step e s o x) as [s1 ex] eqn:Es. cbn [fst snd].
    destruct (sexp_match strict ex x) eqn:Em.
    + rewrite IH. split; [intros H _; split; [reflexivity | exact H] | intro H; apply H; reflexivity].
    + cbn [fst]. split; [discriminate | intro H; destruct (H eq_refl) as [H1 _]; discriminate].
  - cbn [fst]. split; [intros _ H; discriminate | reflexivity].
Qed.

(** the refinement theorem in boolean form: the judge's predicate holds on every trace of the
    repaired model *)
Theorem refine_bool e ops :
  forallb proved_op ops = true ->
  fst (spec_agree_g wf_thm_b false e spec0 ops (snd (run e cfg_fixed st0 ops)) 0) = None.
Proof. intro Hp. apply spec_agree_iff. apply refine_from_empty. exact Hp. Qed.

(** ** what the specification says a rollback does (by definition) *)
Lemma spec_rollback_restores e s t x S r :
  (sp_max s <? t) = false -> ((t <? sp_min s) && negb ((sp_min s =? 1) && (t =? 0))) = false ->
  (sp_max s =? t) = false -> hist_get s t = Some (S, r) ->
  let '(s', ex) := spec_step e s (Rollback t) x in
  ex = ERes R_ok /\ sp_cur s' = S /\ sp_fl s' = S /\ sp_prev s' = r /\ sp_max s' = t.
Proof.
  intros H1 H2 H3 H4. cbn [spec_step]. rewrite H1, H2, H3, H4. repeat split.
Qed.

Lemma spec_rollback_refused e s t x :
  (sp_max s <? t) = true \/ ((t <? sp_min s) && negb ((sp_min s =? 1) && (t =? 0))) = true ->
  let '(s', ex) := spec_step e s (Rollback t) x in
  s' = s /\ (ex = ERes R_higher \/ ex = ERes R_toomuch).
Proof.
  intros H. cbn [spec_step]. destruct (sp_max s <? t) eqn:E1; [split; [reflexivity | left; reflexivity]|].
  destruct H as [H | H]; [discriminate|]. rewrite H. split; [reflexivity | right; reflexivity].
Qed.

(** ** a refused rollback modifies nothing (every configuration, every state) *)
Theorem rollback_refused_frame c m t :
  (s_max m <? t) = true \/ ((t <? s_min m) && negb ((s_min m =? 1) && (t =? 0))) = true ->
  fst (do_rollback c m t) = m /\
  (snd (do_rollback c m t) = ORes R_higher \/ snd (do_rollback c m t) = ORes R_toomuch).
Proof.
  intro H. unfold do_rollback. destruct (s_max m <? t) eqn:E1; [split; [reflexivity | left; reflexivity]|].
  destruct H as [H | H]; [discriminate|]. rewrite H. split; [reflexivity | right; reflexivity].
Qed.

(** and a rollback is refused exactly outside the retained window *)
Theorem rollback_refused_iff c m t :
  (snd (do_rollback c m t) = ORes R_higher <-> s_max m < t) /\
  (snd (do_rollback c m t) = ORes R_toomuch <-> t <= s_max m /\ t < s_min m /\ ~ (s_min m = 1 /\ t = 0)).
Proof.
  unfold do_rollback. destruct (s_max m <? t) eqn:E1.
  - apply N.ltb_lt in E1. split; [tauto|]. split; [discriminate | lia].
  - apply N.ltb_ge in E1. destruct ((t <? s_min m) && negb ((s_min m =? 1) && (t =? 0))) eqn:E2.
    + apply andb_true_iff in E2. destruct E2 as [E2 E3]. apply N.ltb_lt in E2.
      apply negb_true_iff, andb_false_iff in E3.
      split; [split; [discriminate | lia]|]. split; [intros _|reflexivity].
      split; [exact E1|]. split; [exact E2|]. intros [A B]. destruct E3 as [E3 | E3]; [apply N.eqb_neq in E3 | apply N.eqb_neq in E3]; contradiction.
    + assert (Hn : ~ (t < s_min m /\ ~ (s_min m = 1 /\ t = 0))).
      { intros [A B]. apply andb_false_iff in E2. destruct E2 as [E2 | E2].
        - apply N.ltb_ge in E2. lia.
        - apply negb_false_iff, andb_true_iff in E2. destruct E2 as [E2 E3]. apply N.eqb_eq in E2, E3. tauto. }
      destruct (s_max m =? t) eqn:E3; [split; [split; [discriminate | lia] | split; [discriminate | tauto]]|].
      destruct (rollback_loop _ _ _ _) as [d1 ok]. destruct (negb ok); [split; [split; [discriminate | lia] | split; [discriminate | tauto]]|].
      destruct (t =? 0); [split; [split; [discriminate | lia] | split; [discriminate | tauto]]|].
      destruct (aget t (d_jnl d1)); split; try (split; [discriminate | lia]); split; try discriminate; tauto.
Qed.
