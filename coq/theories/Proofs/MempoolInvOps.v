(** Preservation of the pool invariant by ProcessTransactions (up to the batch generation),
    RemoveAliveTimeoutTxs and CommitTransactions, for the repaired configuration. *)
From BX Require Import Base.Prelude Model.Mempool Proofs.MempoolLib Proofs.MempoolInv.
From Coq Require Import ZifyBool ZifyN ZifyNat.
Local Open Scope N_scope.

Lemma InvW_weaken Dp Dp' Dc s : incl Dp Dp' -> InvW Dp Dc s -> InvW Dp' Dc s.
Proof.
  intros Hi I. constructor; try (apply I).
  - intros a Ha. apply (I_next _ _ _ I). auto.
  - intros a n Ha. apply (I_pn_entry _ _ _ I). auto.
  - intros a n Ha. apply (I_park _ _ _ I). auto.
Qed.

Lemma filter_len_mono {A} (f g : A -> bool) l :
  (forall x, In x l -> f x = true -> g x = true) -> len (filter f l) <= len (filter g l).
Proof.
  induction l as [|x t IH]; intro H; cbn; [lia|].
  assert (IH' : len (filter f t) <= len (filter g t)) by (apply IH; intros; apply H; cbn; auto).
  destruct (f x) eqn:F.
  - rewrite (H x (or_introl eq_refl) F). rewrite !len_cons. lia.
  - destruct (g x); rewrite ?len_cons; lia.
Qed.

(* ------------------------------------------------------------------------- insertTxs *)

Section Insert.
  Variable now : N.

  Lemma item_at_insert s t sl :
    item_at (insert_tx now s t) sl = if slot_eqb sl (slot_of t) then Some t else item_at s sl.
  Proof. unfold item_at, insert_tx; cbn [items set_arrival set_index set_items set_hashmap]. apply (alookup_aset slot_eqb slot_eqb_spec). Qed.

  Lemma hashmap_insert s t h :
    alookup tx_eqb h (hashmap (insert_tx now s t)) = if tx_eqb h t then Some (slot_of t) else alookup tx_eqb h (hashmap s).
  Proof. unfold insert_tx; cbn [hashmap set_arrival set_index set_items set_hashmap]. apply (alookup_aset tx_eqb tx_eqb_spec). Qed.

  Lemma insert_inv Dp s t :
    InvW Dp [] s -> get_pn s (t_acct t) <= t_nonce t -> alookup tx_eqb t (hashmap s) = None ->
    InvW (t_acct t :: Dp) [] (insert_tx now s t).
  Proof.
    intros I Hpn Hnew.
    assert (Hcn : forall a, get_cn (insert_tx now s t) a = get_cn s a) by reflexivity.
    assert (Hp : forall a, get_pn (insert_tx now s t) a = get_pn s a) by reflexivity.
    constructor.
    - unfold insert_tx; cbn [hashmap set_arrival set_index set_items set_hashmap].
      apply (NoDup_aset tx_eqb tx_eqb_spec). exact (I_hm_nodup _ _ _ I).
    - intros h sl. rewrite hashmap_insert, item_at_insert. destruct (txP h t) as [->|Hne].
      + intros [= <-]. split; [reflexivity|]. rewrite (eqb_refl slot_eqb slot_eqb_spec). discriminate.
      + intro H. destruct (I_hm_wf _ _ _ I h sl H) as [H1 H2]. split; [exact H1|].
        destruct (slot_eqb sl (slot_of t)); [discriminate | exact H2].
    - intros sl t'. rewrite item_at_insert. destruct (slotP sl (slot_of t)) as [->|Hne].
      + intros [= <-]. reflexivity.
      + apply (I_it_slot _ _ _ I).
    - intros a n t'. rewrite item_at_insert, hashmap_insert. destruct (slotP (a, n) (slot_of t)) as [E|Hne].
      + intros [= <-] _. rewrite (eqb_refl tx_eqb tx_eqb_spec), <- E. reflexivity.
      + intros H _. pose proof (I_it_hash _ _ _ I a n t' H) as Hh.
        destruct (txP t' t) as [->|Hn2].
        * rewrite Hnew in Hh. assert (None = Some (a, n)) by (apply Hh; intros []). discriminate.
        * apply Hh. intros [].
    - intros sl. unfold insert_tx at 1; cbn [index set_arrival set_index set_items set_hashmap].
      rewrite (In_sadd slot_eqb slot_eqb_spec), item_at_insert, (I_idx _ _ _ I).
      destruct (slotP sl (slot_of t)) as [->|Hne]; split; auto; try discriminate.
      intros [H|H]; [congruence | exact H].
    - intros a Ha. rewrite Hcn, Hp. apply (I_cn_pn _ _ _ I). exact Ha.
    - intros a n Ha. rewrite item_at_insert, Hcn. destruct (slotP (a, n) (slot_of t)) as [E|Hne].
      + intros _. inversion E; subst. pose proof (I_cn_pn _ _ _ I (t_acct t) Ha). lia.
      + apply (I_it_cn _ _ _ I). exact Ha.
    - intros a n. rewrite Hcn, Hp, item_at_insert. intro H.
      destruct (slot_eqb (a, n) (slot_of t)); [discriminate | apply (I_run _ _ _ I); exact H].
    - intros a Ha. rewrite Hp, item_at_insert. destruct (slotP (a, get_pn s a) (slot_of t)) as [E|Hne].
      + exfalso. apply Ha. left. inversion E. reflexivity.
      + apply (I_next _ _ _ I). intro H. apply Ha. right. exact H.
    - intros a n Ha. rewrite item_at_insert. destruct (slotP (a, n) (slot_of t)) as [E|Hne].
      + exfalso. apply Ha. left. inversion E. reflexivity.
      + apply (I_pn_entry _ _ _ I). intro H. apply Ha. right. exact H.
    - intros ts a n. change (priority (insert_tx now s t)) with (priority s). rewrite Hp.
      rewrite (I_prio _ _ _ I). setoid_rewrite item_at_insert.
      destruct (slotP (a, n) (slot_of t)) as [E|Hne]; [|tauto].
      inversion E; subst. split; intros [t' [H1 [H2 H3]]]; exfalso; lia.
    - exact (I_prio_sorted _ _ _ I).
    - intros a n Ha. rewrite item_at_insert, Hp. destruct (slotP (a, n) (slot_of t)) as [E|Hne].
      + exfalso. apply Ha. left. inversion E. reflexivity.
      + apply (I_park _ _ _ I). intro H. apply Ha. right. exact H.
    - exact (I_b_hi _ _ _ I).
    - exact (I_b_lo _ _ _ I).
    - exact (I_b_down _ _ _ I).
    - intros sl Hin. rewrite item_at_insert. destruct (slot_eqb sl (slot_of t)); [discriminate|].
      apply (I_b_item _ _ _ I). exact Hin.
    - exact (I_pnbs _ _ _ I).
    - intros sl. unfold insert_tx at 1; cbn [arrival set_arrival set_index set_items set_hashmap].
      rewrite (alookup_aset slot_eqb slot_eqb_spec), item_at_insert.
      destruct (slot_eqb sl (slot_of t)); [split; discriminate | apply (I_arr _ _ _ I)].
  Qed.

  (** what the entry filter guarantees about the list it lets through *)
  Definition valid_for (s : state) (l : list tx) : Prop :=
    NoDup (map slot_of l) /\
    forall t, In t l -> get_pn s (t_acct t) <= t_nonce t /\ alookup tx_eqb t (hashmap s) = None.

  Lemma fold_insert_inv l : forall Dp s,
    InvW Dp [] s -> valid_for s l -> InvW (rev (map t_acct l) ++ Dp) [] (fold_left (insert_tx now) l s).
  Proof.
    induction l as [|t r IH]; intros Dp s I [Hnd Hv]; cbn [fold_left map rev]; [exact I|].
    inversion Hnd as [|? ? Hx Hr]; subst.
    destruct (Hv t (or_introl eq_refl)) as [H1 H2].
    rewrite <- app_assoc. cbn [app]. apply IH.
    - apply insert_inv; assumption.
    - split; [exact Hr|]. intros t' Hin. destruct (Hv t' (or_intror Hin)) as [H3 H4].
      split; [exact H3|]. rewrite hashmap_insert. destruct (txP t' t) as [->|Hne]; [|exact H4].
      exfalso. apply Hx. apply in_map. exact Hin.
  Qed.
End Insert.

Lemma fold_promote_inv D : forall Dp s,
  InvW (D ++ Dp) [] s -> InvW Dp [] (fold_left promote_acct D s).
Proof.
  induction D as [|a r IH]; intros Dp s I; cbn [fold_left]; [exact I|].
  apply IH. apply promote_inv; [|intros []].
  eapply InvW_weaken; [|exact I]. intros x Hx. cbn in Hx. destruct Hx as [<-|Hx]; [left; reflexivity|].
  apply in_app_or in Hx. destruct Hx as [Hx|Hx]; [right; apply in_or_app; auto | right; apply in_or_app; auto].
Qed.

(* ------------------------------------------------------------------------- the entry filter *)

Section Filter.
  Variable s : state.

  Lemma filter_valid_spec txs : forall seen,
    let v := filter_valid s seen txs in
    NoDup (map slot_of v) /\
    (forall t, In t v -> In t txs /\ ~ In (slot_of t) seen /\
                         get_pn s (t_acct t) <= t_nonce t /\ alookup tx_eqb t (hashmap s) = None).
  Proof.
    induction txs as [|t r IH]; intros seen; cbn [filter_valid].
    - split; [constructor | intros t []].
    - destruct (t_nonce t <? get_pn s (t_acct t)) eqn:E1.
      { destruct (IH seen) as [H1 H2]. split; [exact H1|]. intros t' Hin. destruct (H2 t' Hin) as [? ?]. split; [right|]; auto. }
      destruct (mem slot_eqb (slot_of t) seen) eqn:E2.
      { destruct (IH seen) as [H1 H2]. split; [exact H1|]. intros t' Hin. destruct (H2 t' Hin) as [? ?]. split; [right|]; auto. }
      destruct (mem tx_eqb t (map fst (hashmap s))) eqn:E3.
      { destruct (IH (slot_of t :: seen)) as [H1 H2]. split; [exact H1|]. intros t' Hin.
        destruct (H2 t' Hin) as [? [? ?]]. split; [right; auto|]. split; [|auto]. intro. apply H0. right. auto. }
      destruct (IH (slot_of t :: seen)) as [H1 H2]. cbn [map]. split.
      + constructor; [|exact H1]. intro Hin. apply in_map_iff in Hin. destruct Hin as [t' [E Hin]].
        destruct (H2 t' Hin) as [_ [Hs _]]. apply Hs. left. auto.
      + intros t' [<-|Hin].
        * split; [left; reflexivity|]. split; [apply (mem_false slot_eqb slot_eqb_spec); exact E2|].
          split; [lia|]. apply (alookup_None tx_eqb tx_eqb_spec). apply (mem_false tx_eqb tx_eqb_spec). exact E3.
        * destruct (H2 t' Hin) as [? [? ?]]. split; [right; auto|]. split; [|auto]. intro. apply H0. right. auto.
  Qed.

  Lemma filter_valid_for txs : valid_for s (filter_valid s [] txs).
  Proof.
    destruct (filter_valid_spec txs []) as [H1 H2]. split; [exact H1|].
    intros t Hin. destruct (H2 t Hin) as [_ [_ H]]. exact H.
  Qed.
End Filter.

(** ProcessTransactions up to (not including) the batch generation *)
Definition process_pre (s : state) (now : N) (txs : list tx) : state :=
  let valid := filter_valid s [] txs in
  fold_left promote_acct (dedup N.eqb (map t_acct valid)) (fold_left (insert_tx now) valid s).

Lemma process_pre_inv s now txs : Inv s -> Inv (process_pre s now txs).
Proof.
  intro I. unfold process_pre. set (valid := filter_valid s [] txs).
  apply fold_promote_inv.
  eapply InvW_weaken; [|apply (fold_insert_inv now valid [] s I (filter_valid_for s txs))].
  intros x Hx. rewrite app_nil_r in *.
  apply (In_dedup N.eqb Neqb_spec). apply in_rev in Hx. exact Hx.
Qed.

(* ------------------------------------------------------------------------- RemoveAliveTimeoutTxs *)

Lemma srem_notin {A} (eqb : A -> A -> bool) (Heqb : forall x y, eqb x y = true <-> x = y) x l :
  ~ In x l -> srem eqb x l = l.
Proof.
  induction l as [|y t IH]; cbn; [reflexivity|]. intro H.
  destruct (eqbP eqb Heqb x y) as [->|Hne]; [exfalso; apply H; auto|].
  cbn. f_equal. apply IH. intro. apply H. auto.
Qed.

(** under the invariant the evicted transactions are exactly parked, unbatched, non-ready
    occupants of their slots *)
Lemma evict_list_spec s now dur t : Inv s ->
  In t (evict_list s now dur) ->
  item_at s (slot_of t) = Some t /\ ~ In (slot_of t) (batched s) /\ get_pn s (t_acct t) <= t_nonce t /\
  In (slot_of t) (parking s) /\ exists ta, alookup slot_eqb (slot_of t) (arrival s) <> None /\ In (slot_of t, ta) (arrival s) /\ ta + dur < now.
Proof.
  intros I H. unfold evict_list in H. apply in_flat_map in H. destruct H as [[sl ta] [Hin H]]. cbn [fst snd] in H.
  destruct (ta + dur <? now) eqn:E; [|destruct H].
  unfold evictable in H. destruct (item_at s sl) as [t0|] eqn:Eit; [|destruct H].
  destruct (mem slot_eqb sl (batched s)) eqn:Eb; [destruct H|].
  destruct (mem pkey_eqb (t_ts t0, sl) (priority s)) eqn:Ep; [destruct H|].
  destruct (mem slot_eqb sl (parking s)) eqn:Ek; [|destruct H].
  destruct H as [<-|[]].
  pose proof (I_it_slot _ _ _ I sl t0 Eit) as Hsl. subst sl.
  split; [exact Eit|]. split; [apply (mem_false slot_eqb slot_eqb_spec); exact Eb|].
  split.
  - destruct (N.lt_ge_cases (t_nonce t0) (get_pn s (t_acct t0))) as [Hlt|Hge]; [|exact Hge].
    exfalso. apply (mem_false pkey_eqb pkey_eqb_spec) in Ep. apply Ep.
    apply (I_prio _ _ _ I). exists t0. auto.
  - split; [apply (mem_In slot_eqb slot_eqb_spec); exact Ek|]. exists ta. split; [|split; [exact Hin | lia]].
    apply (I_arr _ _ _ I). rewrite Eit. discriminate.
Qed.

Lemma fold_srem_id {A} (eqb : A -> A -> bool) (Heqb : forall x y, eqb x y = true <-> x = y) (ks l : list A) :
  (forall k, In k ks -> ~ In k l) -> fold_left (fun pr k => srem eqb k pr) ks l = l.
Proof.
  induction ks as [|k r IH]; intro H; cbn; [reflexivity|].
  rewrite (srem_notin eqb Heqb) by (apply H; left; reflexivity). apply IH. intros; apply H; right; assumption.
Qed.

Lemma fold_srem_map {A B} (eqb : A -> A -> bool) (f : B -> A) (l : list B) acc :
  fold_left (fun pr t => srem eqb (f t) pr) l acc = fold_left (fun pr k => srem eqb k pr) (map f l) acc.
Proof. revert acc. induction l as [|x t IH]; intros acc; cbn; [reflexivity | apply IH]. Qed.

Lemma fold_aremove_tx_lookup (ev : list tx) (hm : list (tx * slot)) h :
  alookup tx_eqb h (fold_left (fun m t => aremove tx_eqb t m) ev hm) =
  if mem tx_eqb h ev then None else alookup tx_eqb h hm.
Proof. apply (fold_aremove_lookup tx_eqb tx_eqb_spec). Qed.

Section RemoveOld.
  Variables (s : state) (now dur : N).
  Hypothesis I : Inv s.
  Let ev := evict_list s now dur.
  Let slots := map slot_of ev.
  Let s' := fst (remove_old cfg_fixed s now dur).

  Lemma ro_slots sl : In sl slots <-> exists t, In t ev /\ slot_of t = sl.
  Proof. unfold slots. rewrite in_map_iff. split; intros [t [H1 H2]]; exists t; auto. Qed.

  Lemma ro_item sl : item_at s' sl = if mem slot_eqb sl slots then None else item_at s sl.
  Proof.
    unfold s', remove_old, item_at. cbn. fold ev. fold slots.
    apply (fold_aremove_lookup slot_eqb slot_eqb_spec).
  Qed.

  Lemma ro_cn a : get_cn s' a = get_cn s a.
  Proof. reflexivity. Qed.
  Lemma ro_pn a : get_pn s' a = get_pn s a.
  Proof. reflexivity. Qed.

  Lemma ro_priority : priority s' = priority s.
  Proof.
    unfold s', remove_old. cbn. fold ev.
    rewrite (fold_srem_map pkey_eqb (fun t => (t_ts t, slot_of t))).
    apply (fold_srem_id pkey_eqb pkey_eqb_spec). intros k Hk. apply in_map_iff in Hk.
    destruct Hk as [t [<- Hin]]. destruct (evict_list_spec s now dur t I Hin) as [H1 [H2 [H3 _]]].
    intro Hp. destruct t as [a n i ts]. cbn in *. apply (I_prio _ _ _ I) in Hp.
    destruct Hp as [t' [_ [_ Hlt]]]. cbn in Hlt. lia.
  Qed.

  Lemma ro_hashmap h :
    alookup tx_eqb h (hashmap s') =
    match (if mem tx_eqb h ev then None else alookup tx_eqb h (hashmap s)) with
    | Some sl => if mem slot_eqb sl slots then None else Some sl
    | None => None
    end.
  Proof.
    unfold s', remove_old. cbn. fold ev. fold slots.
    rewrite (alookup_filter tx_eqb tx_eqb_spec).
    - rewrite fold_aremove_tx_lookup. destruct (mem tx_eqb h ev); [reflexivity|].
      destruct (alookup tx_eqb h (hashmap s)) as [sl|]; [|reflexivity]. cbn [snd].
      destruct (mem slot_eqb sl slots); reflexivity.
    - apply (fold_aremove_NoDup tx_eqb tx_eqb_spec). exact (I_hm_nodup _ _ _ I).
  Qed.

  Lemma ro_index sl : In sl (index s') <-> ~ In sl slots /\ In sl (index s).
  Proof. unfold s', remove_old. cbn. fold ev. fold slots. apply (fold_srem_In slot_eqb slot_eqb_spec). Qed.

  Lemma ro_parking sl : In sl (parking s') <-> ~ In sl slots /\ In sl (parking s).
  Proof. unfold s', remove_old. cbn. fold ev. fold slots. apply (fold_srem_In slot_eqb slot_eqb_spec). Qed.

  Lemma ro_arrival sl : alookup slot_eqb sl (arrival s') = if mem slot_eqb sl slots then None else alookup slot_eqb sl (arrival s).
  Proof. unfold s', remove_old. cbn. fold ev. fold slots. apply (fold_aremove_lookup slot_eqb slot_eqb_spec). Qed.

  Lemma ro_evicted_hi a n : In (a, n) slots -> get_pn s a <= n /\ ~ In (a, n) (batched s) /\ item_at s (a, n) <> None.
  Proof.
    intro H. apply ro_slots in H. destruct H as [t [Hin E]].
    destruct (evict_list_spec s now dur t I Hin) as [H1 [H2 [H3 _]]].
    destruct t as [a' n' i ts]. unfold slot_of in *. cbn [t_acct t_nonce] in *. inversion E; subst. rewrite H1. repeat split; auto. discriminate.
  Qed.

  Lemma remove_old_inv : Inv s'.
  Proof.
    constructor.
    - unfold s', remove_old. cbn. apply NoDup_map_filter.
      apply (fold_aremove_NoDup tx_eqb tx_eqb_spec). exact (I_hm_nodup _ _ _ I).
    - intros h sl. rewrite ro_hashmap, ro_item. destruct (mem tx_eqb h ev); [discriminate|].
      destruct (alookup tx_eqb h (hashmap s)) as [sl0|] eqn:E; [|discriminate].
      destruct (mem slot_eqb sl0 slots) eqn:E2; [discriminate|]. intros [= <-]. rewrite E2.
      apply (I_hm_wf _ _ _ I). exact E.
    - intros sl t. rewrite ro_item. destruct (mem slot_eqb sl slots); [discriminate|]. apply (I_it_slot _ _ _ I).
    - intros a n t. rewrite ro_item, ro_hashmap. destruct (mem slot_eqb (a, n) slots) eqn:E; [discriminate|].
      intros H _. pose proof (I_it_hash _ _ _ I a n t H) as Hh.
      destruct (mem tx_eqb t ev) eqn:E2.
      + exfalso. apply (mem_In tx_eqb tx_eqb_spec) in E2.
        apply (mem_false slot_eqb slot_eqb_spec) in E. apply E. apply ro_slots. exists t. split; [exact E2|].
        apply (I_it_slot _ _ _ I). exact H.
      + rewrite Hh by (intros []). rewrite E. reflexivity.
    - intros sl. rewrite ro_index, ro_item, (I_idx _ _ _ I).
      destruct (mem slot_eqb sl slots) eqn:E.
      + apply (mem_In slot_eqb slot_eqb_spec) in E. split; [tauto | congruence].
      + apply (mem_false slot_eqb slot_eqb_spec) in E. tauto.
    - intros a Ha. rewrite ro_cn, ro_pn. apply (I_cn_pn _ _ _ I). exact Ha.
    - intros a n Ha. rewrite ro_item, ro_cn. destruct (mem slot_eqb (a, n) slots); [congruence|]. apply (I_it_cn _ _ _ I). exact Ha.
    - intros a n. rewrite ro_cn, ro_pn, ro_item. intro H. destruct (mem slot_eqb (a, n) slots) eqn:E.
      + apply (mem_In slot_eqb slot_eqb_spec) in E. apply ro_evicted_hi in E. lia.
      + apply (I_run _ _ _ I). exact H.
    - intros a Ha. rewrite ro_pn, ro_item. destruct (mem slot_eqb (a, get_pn s a) slots); [reflexivity|]. apply (I_next _ _ _ I). exact Ha.
    - intros a n Ha. rewrite ro_item. destruct (mem slot_eqb (a, n) slots); [congruence|].
      change (pnonce s') with (pnonce s). apply (I_pn_entry _ _ _ I). exact Ha.
    - intros ts a n. rewrite ro_priority, ro_pn, (I_prio _ _ _ I). setoid_rewrite ro_item.
      destruct (mem slot_eqb (a, n) slots) eqn:E; [|tauto].
      apply (mem_In slot_eqb slot_eqb_spec) in E. apply ro_evicted_hi in E.
      split; intros [t [H1 [H2 H3]]]; [lia | discriminate].
    - rewrite ro_priority. exact (I_prio_sorted _ _ _ I).
    - intros a n Ha. rewrite ro_item, ro_pn. destruct (mem slot_eqb (a, n) slots) eqn:E; [congruence|].
      intros H1 H2. apply ro_parking. split.
      + apply (mem_false slot_eqb slot_eqb_spec). exact E.
      + apply (I_park _ _ _ I); auto.
    - exact (I_b_hi _ _ _ I).
    - exact (I_b_lo _ _ _ I).
    - exact (I_b_down _ _ _ I).
    - intros sl Hin. rewrite ro_item. destruct (mem slot_eqb sl slots) eqn:E.
      + exfalso. apply (mem_In slot_eqb slot_eqb_spec) in E. destruct sl as [a n].
        apply ro_evicted_hi in E. tauto.
      + apply (I_b_item _ _ _ I). exact Hin.
    - unfold live_unbatched. rewrite ro_priority.
      replace (ub_pred s' []) with (ub_pred s []) by reflexivity. exact (I_pnbs _ _ _ I).
    - intros sl. rewrite ro_arrival, ro_item.
      destruct (mem slot_eqb sl slots); [tauto | apply (I_arr _ _ _ I)].
  Qed.
End RemoveOld.
