(** Group timeouts, the converse direction (C06): in every reachable state a group whose global status
    is BEGIN is in the timeout list of its own timeout height, and that height is still ahead; hence
    a group that is still BEGIN when the block of its height has run its transactions is read from the
    list and rolled back.  ([TMid.m_gid] is the other direction: listed => BEGIN at that height.) *)
From BX Require Import Base.Prelude Model.TxFsm Model.TxMgr Model.Interchain Model.IbtpExec
     Proofs.TxFsmProofs Proofs.IbtpBasics Proofs.IbtpStep Proofs.IbtpTm Proofs.IbtpInv Proofs.IbtpTl Proofs.IbtpTimeout
     Proofs.IbtpBlock Proofs.IbtpGroup Proofs.IbtpProps Proofs.IbtpRestart.
Local Open Scope N_scope.

Definition GArm (t : txm) (H : N) : Prop :=
  forall g gi, tm_glob t g = Some gi -> g_state gi = ST_BEGIN ->
               H < g_height gi /\ listed t (g_height gi) (TGid g).

Lemma garm_init : GArm txm_init 2.
Proof. intros g gi E. discriminate. Qed.

Lemma garm_ext t t' H : tm_glob t' = tm_glob t -> tm_tl t' = tm_tl t -> GArm t H -> GArm t' H.
Proof.
  intros Eg El G g gi E Hs. rewrite Eg in E. destruct (G g gi E Hs) as [A B]. split; [exact A|].
  apply (listed_ext t t' El). exact B.
Qed.

Lemma garm_set_rec t H i v : GArm t H -> GArm (set_rec t i v) H.
Proof. apply garm_ext; reflexivity. Qed.

(** listing is kept by the transaction manager's own add / remove of another token *)
Lemma listed_add t hh x h0 y :
  x <> TEmpty -> y <> TEmpty ->
  (forall l, tm_tl t hh = Some l -> tl_ok l /\ ~ In x l) ->
  listed t h0 y -> listed (tm_add_timeout cfg_fixed t hh x) h0 y.
Proof.
  intros Hx Hy Hpre [l [El Hin]].
  destruct (tm_add_timeout_tl t hh x Hx Hpre) as [Hoth [l' [El' [_ Hin']]]].
  destruct (N.eq_dec h0 hh) as [->|Hne].
  - exists l'. split; [exact El'|]. apply (Hin' y Hy). left. exists l. auto.
  - exists l. split; [rewrite (Hoth h0 Hne); exact El | exact Hin].
Qed.

Lemma listed_added t hh x :
  x <> TEmpty -> (forall l, tm_tl t hh = Some l -> tl_ok l /\ ~ In x l) ->
  listed (tm_add_timeout cfg_fixed t hh x) hh x.
Proof.
  intros Hx Hpre. destruct (tm_add_timeout_tl t hh x Hx Hpre) as [_ [l' [El' [_ Hin']]]].
  exists l'. split; [exact El'|]. apply (Hin' x Hx). right. reflexivity.
Qed.

Lemma listed_remove t hh x t1 h0 y :
  x <> TEmpty -> y <> TEmpty -> y <> x ->
  (forall l, tm_tl t hh = Some l -> tl_ok l) ->
  tm_remove_timeout t hh x = Some t1 ->
  listed t h0 y -> listed t1 h0 y.
Proof.
  intros Hx Hy Hne Hok Hrm [l [El Hin]].
  destruct (tm_remove_timeout_tl t hh x Hx Hok) as [t1' [E [Hoth [Hsome _]]]].
  rewrite Hrm in E. inversion E; subst t1'.
  destruct (N.eq_dec h0 hh) as [->|Hd].
  - destruct (Hsome l El) as [l' [El' [_ Hin']]]. exists l'. split; [exact El'|]. apply (Hin' y Hy). auto.
  - exists l. split; [rewrite (Hoth h0 Hd); exact El | exact Hin].
Qed.

Lemma tgid_ne g g0 : g0 <> g -> TGid g0 <> TGid g.
Proof. intros H E. inversion E. contradiction. Qed.

(** removing the group's own id: the other groups stay armed *)
Lemma garm_remove_own w t H rcv pend g gi gi' t1 :
  TMid w t H rcv pend -> GArm t H -> tm_glob t g = Some gi ->
  tm_remove_timeout t (g_height gi) (TGid g) = Some t1 -> g_state gi' <> ST_BEGIN ->
  GArm (set_glob t1 g gi') H.
Proof.
  intros M G Eg Hrm Hns g0 gi0 E0 Hs0.
  destruct (tm_remove_timeout_fields _ _ _ _ Hrm) as [_ [R2 _]].
  simpl in E0. unfold upd in E0. destruct (gid_eqb g0 g) eqn:Eq.
  - inversion E0; subst gi0. contradiction.
  - apply gid_eqb_neq in Eq. rewrite R2 in E0. destruct (G g0 gi0 E0 Hs0) as [A B]. split; [exact A|].
    change (listed t1 (g_height gi0) (TGid g0)).
    eapply listed_remove; [apply tok_gid_ne_empty | apply tok_gid_ne_empty | apply tgid_ne; exact Eq | | exact Hrm | exact B].
    intros l El. eapply (m_ok _ _ _ _ _ M); eauto.
Qed.

(** replacing a group's info by one with the same height, state kept or left BEGIN for good *)
Lemma garm_set_glob_same t H g gi gi' :
  GArm t H -> tm_glob t g = Some gi -> g_height gi' = g_height gi ->
  (g_state gi' = ST_BEGIN -> g_state gi = ST_BEGIN) ->
  GArm (set_glob t g gi') H.
Proof.
  intros G Eg Hh Hst g0 gi0 E0 Hs0. simpl in E0. unfold upd in E0. destruct (gid_eqb g0 g) eqn:Eq.
  - apply gid_eqb_eq in Eq. subst g0. inversion E0; subst gi0.
    destruct (G g gi Eg (Hst Hs0)) as [A B]. rewrite Hh. split; [exact A|]. exact B.
  - destruct (G g0 gi0 E0 Hs0) as [A B]. split; [exact A|]. exact B.
Qed.

Lemma garm_set_child t H i g : GArm t H -> GArm (set_child t i g) H.
Proof. apply garm_ext; reflexivity. Qed.

Lemma garm_bm w sorted H h g i T failed count t t' ch rcv pend :
  h = H + 1 -> h < W64 -> TMid w t H rcv pend -> GArm t H ->
  bm_change sorted h g i T failed count t t' ch -> GArm t' H.
Proof.
  intros Hh Hw M G B. inversion B; subst; repeat match goal with x := _ |- _ => subst x end.
  - (* new group *)
    apply garm_set_child.
    assert (Hpre : forall l, tm_tl t (timeout_height (H + 1) T) = Some l -> tl_ok l /\ ~ In (TGid g) l).
    { intros l El. split; [eapply (m_ok _ _ _ _ _ M); eauto|]. intro Hin.
      assert (Hlt : H < timeout_height (H + 1) T) by (pose proof (timeout_height_gt (H + 1) T Hw); lia).
      destruct (m_gid _ _ _ _ _ M _ g Hlt (ex_intro _ l (conj El Hin))) as [gi0 [E0 _]]. congruence. }
    intros g0 gi0 E0 Hs0. simpl in E0. unfold upd in E0. destruct (gid_eqb g0 g) eqn:Eq.
    + apply gid_eqb_eq in Eq. subst g0. inversion E0; subst gi0. simpl in Hs0 |- *.
      destruct failed; [discriminate|]. split.
      * pose proof (timeout_height_gt (H + 1) T Hw). lia.
      * change (listed (tm_add_timeout cfg_fixed t (timeout_height (H + 1) T) (TGid g)) (timeout_height (H + 1) T) (TGid g)).
        apply listed_added; [apply tok_gid_ne_empty | exact Hpre].
    + apply gid_eqb_neq in Eq.
      assert (E0' : tm_glob t g0 = Some gi0).
      { destruct failed; [exact E0|]. rewrite (proj1 (proj2 (tm_add_timeout_fields cfg_fixed t _ (TGid g)))) in E0. exact E0. }
      destruct (G g0 gi0 E0' Hs0) as [A Bl]. split; [exact A|].
      change (listed (if failed then t else tm_add_timeout cfg_fixed t (timeout_height (H + 1) T) (TGid g)) (g_height gi0) (TGid g0)).
      destruct failed; [exact Bl|].
      apply listed_add; [apply tok_gid_ne_empty | apply tok_gid_ne_empty | exact Hpre | exact Bl].
  - (* late child of a group that is not BEGIN any more *)
    apply garm_set_child. eapply garm_set_glob_same; eauto.
  - (* child whose target is unavailable: the group fails, its id leaves the list *)
    apply garm_set_child. eapply garm_remove_own; eauto. simpl. discriminate.
  - apply garm_set_child. eapply garm_set_glob_same; eauto.
Qed.

Lemma garm_rp w sorted H i r t t' ch rcv pend :
  TMid w t H rcv pend -> GArm t H -> rp_change sorted i r t t' ch -> GArm t' H.
Proof.
  intros M G R. inversion R; subst; repeat match goal with x := _ |- _ => subst x end.
  - apply garm_set_rec. exact G.
  - match goal with Hc : cm_change _ _ _ _ _ |- _ => inversion Hc; subst end.
    + (* failure receipt on a BEGIN group *)
      eapply garm_remove_own; eauto. simpl. discriminate.
    + (* a child moves, group unchanged *)
      match goal with Hs : Some _ = Some _ |- _ => inversion Hs; subst end.
      eapply garm_set_glob_same; eauto.
    + (* the group finishes *)
      eapply garm_remove_own; eauto. simpl.
      match goal with He : set_fsm (g_state gi) _ = Some _ |- _ => pose proof (set_fsm_receipt_edges _ _ _ He) as Hedge end.
      unfold ST_BEGIN, ST_SUCCESS, ST_FAILURE, ST_ROLLBACK, ST_BEGIN_FAILURE, ST_BEGIN_ROLLBACK in *.
      destruct Hedge as [[_ [_ ->]] | [[_ [_ ->]] | [[_ [_ ->]] | [[_ [_ ->]] | [_ [_ ->]]]]]]; discriminate.
Qed.

Lemma garm_step w h H b sf sd terr t t' ch rcv pend :
  h = H + 1 -> h < W64 -> TMid w t H rcv pend -> GArm t H ->
  tm_step cfg_fixed w h b sf sd terr t = Some (TmOk t' ch) -> GArm t' H.
Proof.
  intros Hh Hw M G E. apply tm_step_inv in E. inversion E; subst; try (apply garm_set_rec; exact G).
  - eapply garm_bm; eauto.
  - eapply garm_rp; eauto.
Qed.

Lemma garm_handle w h H serial b t c t' c' r rcv pend :
  h = H + 1 -> h < W64 -> TMid w t H rcv pend -> GArm t H ->
  handle_ibtp cfg_fixed w h serial b t c = Some (t', c', r) -> GArm t' H.
Proof.
  intros Hh Hw M G E. apply handle_fixed_inv in E. inversion E; subst; [exact G|].
  eapply garm_step; eauto.
Qed.

(** through the transactions of a block (the other invariants of the intermediate states come from
    [apply_ops_inv] applied to one transaction at a time) *)
Lemma apply_ops_garm w h H : h = H + 1 -> h < W64 ->
  forall ops i touched st d st' rs,
  Forall (op_wf w) ops ->
  BInv w (s_tm st) (s_ic st) -> TMid w (s_tm st) H (rcv_of d) (pend_of w h d) ->
  (forall j, rcv_of d j -> begun (s_tm st) j) ->
  GArm (s_tm st) H ->
  apply_ops cfg_fixed w h i touched st ops = Some (st', rs) -> GArm (s_tm st') H.
Proof.
  intros Hh Hw. subst h. induction ops as [|o ops IH]; intros i touched st d st' rs Hwf I M R G E.
  - simpl in E. inversion E; subst. exact G.
  - inversion Hwf as [|? ? Ho Hops]; subst.
    cbn [apply_ops] in E.
    destruct (apply_op cfg_fixed w (H + 1) i touched st o) as [[st1 r1]|] eqn:E1; [|discriminate].
    destruct (apply_ops cfg_fixed w (H + 1) (i + 1) (touched || touches_ic w o) st1 ops) as [[st2 rs2]|] eqn:E2; [|discriminate].
    inversion E; subst st' rs.
    (* invariants of the intermediate state *)
    destruct (apply_ops_inv w (H + 1) H eq_refl Hw [o] i touched st d (Forall_cons _ Ho (Forall_nil _)) I M R)
      as [sx [rx [Ex [_ [I1 [M1 [R1 _]]]]]]].
    cbn [apply_ops] in Ex. rewrite E1 in Ex. inversion Ex; subst sx rx. cbn [combine] in M1, R1.
    eapply (IH (i + 1) (touched || touches_ic w o)%bool st1 (d ++ [(o, r1)]) st2 rs2 Hops I1 M1 R1); [|exact E2].
    destruct o as [b p | | m a b0 c d0]; cbn [apply_op] in E1.
    + destruct (negb p); [inversion E1; subst; exact G|].
      destruct (handle_ibtp cfg_fixed w (H + 1) (1000 * (H + 1) + i) b (s_tm st) (s_ic st)) as [[[t' c'] r]|] eqn:Eh; [|discriminate].
      inversion E1; subst. cbn [s_tm].
      exact (garm_handle w (H + 1) H _ b (s_tm st) (s_ic st) t' c' r1 _ _ eq_refl Hw M G Eh).
    + inversion E1; subst. exact G.
    + inversion E1 as [E1']. destruct (apply_call_inv _ _ _ _ _ _ _ _ _ _ E1') as [Et _].
      rewrite Et. exact G.
Qed.

(** a BEGIN group whose height is the current block is read from the list *)
Lemma garm_mid_fires w st ops st' bm mid t2 g gi :
  block_facts w st ops st' bm mid t2 -> GArm (s_tm mid) (s_h st) ->
  tm_glob (s_tm mid) g = Some gi -> g_state gi = ST_BEGIN -> g_height gi = s_h st + 1 ->
  In (TGid g) (get_timeout_list t2 (s_h st + 1)).
Proof.
  intros F G Eg Hs Hh. destruct (G g gi Eg Hs) as [_ L]. rewrite Hh in L.
  destruct (get_timeout_list_spec w t2 (s_h st) (bf_t2_inv _ _ _ _ _ _ _ F)) as [_ [_ Hin]].
  apply Hin. split; [apply tok_gid_ne_empty|].
  apply (bf_t2_mem _ _ _ _ _ _ _ F (s_h st + 1) (TGid g) (tok_gid_ne_empty g)). split.
  - left. exact L.
  - intros [i [Hx _]]. discriminate Hx.
Qed.

Lemma garm_mid w st ops st' bm mid t2 :
  SInv w st -> Forall (op_wf w) ops -> s_h st + 1 < W64 ->
  block_facts w st ops st' bm mid t2 -> GArm (s_tm st) (s_h st) -> GArm (s_tm mid) (s_h st).
Proof.
  intros [I T] Hwf Hw F G.
  assert (M0 : TMid w (s_tm st) (s_h st) (rcv_of []) (pend_of w (s_h st + 1) [])).
  { eapply tmid_weaken_rcv; [|exact T]. intros i []. }
  eapply (apply_ops_garm w (s_h st + 1) (s_h st) eq_refl Hw ops 0 false st [] mid (m_res bm) Hwf I M0); [| exact G | exact (bf_ops _ _ _ _ _ _ _ F)].
  intros j [b [p [r [[] _]]]].
Qed.

Theorem garm_block w st ops st' bm mid t2 :
  SInv w st -> Forall (op_wf w) ops -> s_h st + 1 < W64 ->
  block_facts w st ops st' bm mid t2 -> GArm (s_tm st) (s_h st) -> GArm (s_tm st') (s_h st').
Proof.
  intros S Hwf Hw F G. pose proof (garm_mid _ _ _ _ _ _ _ S Hwf Hw F G) as Gm.
  intros g gi Eg Hs. rewrite (bf_glob _ _ _ _ _ _ _ F) in Eg. rewrite (bf_h _ _ _ _ _ _ _ F).
  destruct (in_l (TGid g) (get_timeout_list t2 (s_h st + 1))) eqn:Ein.
  - destruct (tm_glob (s_tm mid) g) as [gi0|]; [|discriminate]. inversion Eg; subst gi. discriminate Hs.
  - destruct (Gm g gi Eg Hs) as [A L].
    assert (Hne : g_height gi <> s_h st + 1).
    { intro Hh. pose proof (garm_mid_fires _ _ _ _ _ _ _ g gi F Gm Eg Hs Hh) as Hin.
      apply in_l_spec in Hin. rewrite Hin in Ein. discriminate. }
    split; [lia|].
    unfold listed. rewrite (bf_tl _ _ _ _ _ _ _ F).
    apply (bf_t2_mem _ _ _ _ _ _ _ F (g_height gi) (TGid g) (tok_gid_ne_empty g)). split.
    + left. exact L.
    + intros [i [Hx _]]. discriminate Hx.
Qed.

Lemma garm_restart st : GArm (s_tm st) (s_h st) -> phc st -> GArm (s_tm (restart st)) (s_h (restart st)).
Proof.
  intros G Hph g gi Eg Hs. destruct (G g gi Eg Hs) as [A [l [El Hin]]]. split; [exact A|].
  exists l. split; [|exact Hin]. cbn. destruct (s_ph st (g_height gi)) eqn:E; [|exact El].
  destruct (Hph _ E) as [En | En]; rewrite En in El; [discriminate|].
  inversion El; subst l. destruct Hin as [Hin | []]. discriminate Hin.
Qed.

Theorem reach_garm w st : reach w st -> GArm (s_tm st) (s_h st).
Proof.
  induction 1.
  - exact garm_init.
  - destruct (exec_block_fixed w st ops (reach_sinv _ _ H) H0 H1) as [st2 [bm2 [mid [t2 [E [_ F]]]]]].
    rewrite H2 in E. inversion E; subst st2 bm2.
    eapply garm_block; eauto. apply reach_sinv. exact H.
  - apply garm_restart; [exact IHreach | exact (reach_phc _ _ H)].
Qed.

(** the block-level statements used by Properties/C06.v *)
Theorem group_armed w st g gi :
  reach w st -> tm_glob (s_tm st) g = Some gi -> g_state gi = ST_BEGIN ->
  s_h st < g_height gi /\ listed (s_tm st) (g_height gi) (TGid g).
Proof. intros R. exact (reach_garm w st R g gi). Qed.

Theorem group_fires_at w st ops st' bm mid t2 g gi :
  reach w st -> Forall (op_wf w) ops -> s_h st + 1 < W64 -> block_facts w st ops st' bm mid t2 ->
  tm_glob (s_tm mid) g = Some gi -> g_state gi = ST_BEGIN -> g_height gi = s_h st + 1 ->
  In (TGid g) (get_timeout_list t2 (s_h st + 1)).
Proof.
  intros R Hwf Hw F Eg Hs Hh.
  eapply garm_mid_fires; eauto. eapply garm_mid; eauto; [apply reach_sinv; exact R | exact (reach_garm _ _ R)].
Qed.

From BX Require Import Proofs.IbtpNotify.

(** both directions together: a group that is still BEGIN when the transactions of the block of its
    timeout height have run is rolled back in that block and every child is announced *)
Theorem group_timeout w st ops st' bm mid t2 g gi k s :
  reach w st -> Forall (op_wf w) ops -> s_h st + 1 < W64 -> block_facts w st ops st' bm mid t2 ->
  tm_glob (s_tm mid) g = Some gi -> g_state gi = ST_BEGIN -> g_height gi = s_h st + 1 ->
  In (k, s) (g_children gi) ->
  In k (m_timeout bm (chain_of w (fst (fst k)))) /\
  (s = ST_SUCCESS -> In k (m_timeout bm (chain_of w (snd (fst k))))) /\
  gstate (s_tm st') g = Some ST_BEGIN_ROLLBACK.
Proof.
  intros R Hwf Hw F Eg Hs Hh Hk.
  eapply c05_notify_timeout; eauto. eapply group_fires_at; eauto.
Qed.

(** a child that reported SUCCESS is final for its own reports: whatever the group's status, any further
    receipt for it (success, failure, rollback, unknown kind) is refused with a state error *)
Theorem succeeded_child_final sorted t i g gi r :
  tm_rec t i = None -> tm_child t i = Some g -> tm_glob t g = Some gi ->
  child_lookup i (g_children gi) = Some ST_SUCCESS ->
  tm_report cfg_fixed sorted t i r = Some (TmErr E_STATE).
Proof.
  intros Hr Hc Hg Hl. unfold tm_report. rewrite Hr, Hc, Hg, Hl.
  assert (Hf : forall ev, set_fsm ST_SUCCESS ev = None) by (intro ev; apply set_fsm_final; reflexivity).
  unfold change_multi. cbn [d_fail_after_success cfg_fixed]. rewrite Hl.
  destruct ((g_state gi =? ST_BEGIN) && (r =? 2)); rewrite Hf; reflexivity.
Qed.
