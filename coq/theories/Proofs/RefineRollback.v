(** Journals and RollbackState: every retained journal, applied to any store that reads as the
    state committed at its height, yields a store that reads as the state committed one height
    below; the rollback loop therefore restores exactly the recorded state. *)
From BX Require Import Base.Prelude Model.JsonAcct Model.Merkle Model.StateLedger Model.LedgerSpec
  Proofs.LedgerLemmas Proofs.RootProofs Proofs.RefineBase Proofs.RefineBlock Proofs.RefineUndo Proofs.RefineSim
  Proofs.RefineStep Proofs.RefineFlush.
Local Open Scope N_scope.

(** * stores with the same tables (account records and code exactly, storage up to nil = empty) *)
Record db_eq (d D : db) : Prop := {
  de_acct : forall a, aget a (d_acct d) = aget a (d_acct D);
  de_code : forall a, aget a (d_code d) = aget a (d_code D);
  de_st : forall a k, db_st d a k = db_st D a k
}.
Lemma db_eq_refl d : db_eq d d.
Proof. constructor; reflexivity. Qed.
Lemma db_eq_trans d1 d2 d3 : db_eq d1 d2 -> db_eq d2 d3 -> db_eq d1 d3.
Proof. intros [A1 A2 A3] [B1 B2 B3]. constructor; intros; [rewrite A1; apply B1 | rewrite A2; apply B2 | rewrite A3; apply B3]. Qed.

Definition dbch (d : db) (a : N) : val := match aget a (d_acct d) with Some x => ac_ch x | None => None end.

(** * a store that reads as a given map, with consistent code tables *)
Section DbMatches.
Context {e : env}.
Record db_matches (d : db) (S : smap) : Prop := {
  dm_st : forall a k, db_st d a k = sm_st_get S a k;
  dm_ac : forall a, acct_rel (acct_view (aget a (d_acct d))) (sm_acct_get S a);
  dm_code : forall a, nb (aget a (d_code d)) = sa_code (sm_acct_get S a);
  dm_t1 : forall a, ch_nonempty (dbch d a) = false -> aget a (d_code d) = None;
  dm_k1 : forall a, ch_nonempty (dbch d a) = true -> dbch d a = Some (e_kec e (nb (aget a (d_code d))))
}.

Lemma db_matches_eq d D S : db_eq d D -> db_matches D S -> db_matches d S.
Proof.
  intros [E1 E2 E3] [M1 M2 M3 M4 M5].
  assert (Hch : forall a, dbch d a = dbch D a) by (intro a; unfold dbch; rewrite E1; reflexivity).
  constructor.
  - intros a k. rewrite E3. apply M1.
  - intros a. rewrite E1. apply M2.
  - intros a. rewrite E2. apply M3.
  - intros a. rewrite Hch, E2. apply M4.
  - intros a. rewrite Hch, E2. apply M5.
Qed.
End DbMatches.

Definition revert_all (d : db) (jn : journal) : db :=
  fold_right (fun en d' => revert_entry d' en) d (j_entries jn).

(** * lookups through [revert_entry] *)
Lemma revert_entry_st d en a' k :
  sget (a', k) (d_st (revert_entry d en)) =
  if a' =? je_addr en then match kget k (je_pst en) with
                           | Some (Some b) => Some b
                           | Some None => None
                           | None => sget (a', k) (d_st d)
                           end
  else sget (a', k) (d_st d).
Proof. unfold revert_entry. cbn [d_st]. apply sget_fold_commit. Qed.

Lemma revert_entry_acct d en a' :
  aget a' (d_acct (revert_entry d en)) =
  if a' =? je_addr en then (if je_achg en then je_pacct en else aget a' (d_acct d)) else aget a' (d_acct d).
Proof.
  unfold revert_entry. cbn [d_acct]. destruct (je_achg en).
  - destruct (je_pacct en) as [x|].
    + rewrite aget_aput. destruct (a' =? je_addr en); reflexivity.
    + rewrite aget_adel. destruct (a' =? je_addr en); reflexivity.
  - destruct (a' =? je_addr en); reflexivity.
Qed.

Lemma revert_entry_code d en a' :
  aget a' (d_code (revert_entry d en)) =
  if a' =? je_addr en then (if je_cchg en then je_pcode en else aget a' (d_code d)) else aget a' (d_code d).
Proof.
  unfold revert_entry. cbn [d_code]. destruct (je_cchg en).
  - destruct (je_pcode en) as [x|].
    + rewrite aget_aput. destruct (a' =? je_addr en); reflexivity.
    + rewrite aget_adel. destruct (a' =? je_addr en); reflexivity.
  - destruct (a' =? je_addr en); reflexivity.
Qed.

Lemma revert_entry_rest d en :
  d_jnl (revert_entry d en) = d_jnl d /\ d_min (revert_entry d en) = d_min d /\ d_max (revert_entry d en) = d_max d.
Proof. repeat split. Qed.

(** the first entry of an account *)
Definition jfind (a : N) (l : list jentry) : option jentry := find (fun en => je_addr en =? a) l.

Lemma jfind_addr a l en : jfind a l = Some en -> je_addr en = a.
Proof. unfold jfind. intro H. apply find_some in H. destruct H as [_ H]. apply N.eqb_eq in H. exact H. Qed.

Lemma revert_fold_st l : forall d a k, NoDup (map je_addr l) ->
  sget (a, k) (d_st (fold_right (fun en d' => revert_entry d' en) d l)) =
  match jfind a l with
  | Some en => match kget k (je_pst en) with
               | Some (Some b) => Some b
               | Some None => None
               | None => sget (a, k) (d_st d)
               end
  | None => sget (a, k) (d_st d)
  end.
Proof.
  induction l as [|en t IH]; intros d a k Hn; [reflexivity|].
  inversion Hn as [|? ? Hni Hn']; subst.
  cbn [fold_right jfind find]. rewrite revert_entry_st. rewrite (N.eqb_sym (je_addr en) a).
  destruct (a =? je_addr en) eqn:E.
  - rewrite (IH d a k Hn'). apply N.eqb_eq in E. subst a.
    assert (Hnone : jfind (je_addr en) t = None).
    { unfold jfind. destruct (find (fun en0 => je_addr en0 =? je_addr en) t) as [en'|] eqn:Ef; [| reflexivity].
      apply find_some in Ef. destruct Ef as [Hin He]. apply N.eqb_eq in He.
      exfalso. apply Hni. rewrite <- He. apply in_map. exact Hin. }
    rewrite Hnone. reflexivity.
  - apply IH. exact Hn'.
Qed.

Lemma revert_fold_acct l : forall d a, NoDup (map je_addr l) ->
  aget a (d_acct (fold_right (fun en d' => revert_entry d' en) d l)) =
  match jfind a l with
  | Some en => if je_achg en then je_pacct en else aget a (d_acct d)
  | None => aget a (d_acct d)
  end.
Proof.
  induction l as [|en t IH]; intros d a Hn; [reflexivity|].
  inversion Hn as [|? ? Hni Hn']; subst.
  cbn [fold_right jfind find]. rewrite revert_entry_acct. rewrite (N.eqb_sym (je_addr en) a).
  destruct (a =? je_addr en) eqn:E.
  - rewrite (IH d a Hn'). apply N.eqb_eq in E. subst a.
    assert (Hnone : jfind (je_addr en) t = None).
    { unfold jfind. destruct (find (fun en0 => je_addr en0 =? je_addr en) t) as [en'|] eqn:Ef; [| reflexivity].
      apply find_some in Ef. destruct Ef as [Hin He]. apply N.eqb_eq in He.
      exfalso. apply Hni. rewrite <- He. apply in_map. exact Hin. }
    rewrite Hnone. reflexivity.
  - apply IH. exact Hn'.
Qed.

Lemma revert_fold_code l : forall d a, NoDup (map je_addr l) ->
  aget a (d_code (fold_right (fun en d' => revert_entry d' en) d l)) =
  match jfind a l with
  | Some en => if je_cchg en then je_pcode en else aget a (d_code d)
  | None => aget a (d_code d)
  end.
Proof.
  induction l as [|en t IH]; intros d a Hn; [reflexivity|].
  inversion Hn as [|? ? Hni Hn']; subst.
  cbn [fold_right jfind find]. rewrite revert_entry_code. rewrite (N.eqb_sym (je_addr en) a).
  destruct (a =? je_addr en) eqn:E.
  - rewrite (IH d a Hn'). apply N.eqb_eq in E. subst a.
    assert (Hnone : jfind (je_addr en) t = None).
    { unfold jfind. destruct (find (fun en0 => je_addr en0 =? je_addr en) t) as [en'|] eqn:Ef; [| reflexivity].
      apply find_some in Ef. destruct Ef as [Hin He]. apply N.eqb_eq in He.
      exfalso. apply Hni. rewrite <- He. apply in_map. exact Hin. }
    rewrite Hnone. reflexivity.
  - apply IH. exact Hn'.
Qed.

Lemma revert_fold_rest l : forall d,
  let d' := fold_right (fun en d' => revert_entry d' en) d l in
  d_jnl d' = d_jnl d /\ d_min d' = d_min d /\ d_max d' = d_max d.
Proof.
  induction l as [|en t IH]; intros d; cbv zeta; [repeat split|].
  cbn [fold_right]. destruct (revert_entry_rest (fold_right (fun en0 d' => revert_entry d' en0) d t) en) as [A1 [A2 A3]].
  destruct (IH d) as [B1 [B2 B3]].
  rewrite A1, A2, A3. repeat split; assumption.
Qed.

(** * what a journal must do: applied to the store committed at its height (or to any store with
    the same tables), it yields the tables of the store committed one height below *)
Definition jrev_ok (jn : journal) (D D' : db) : Prop :=
  forall d, db_eq d D -> db_eq (revert_all d jn) D'.

(** * the journal FlushDirtyData produces *)
Definition flush_entries (m : st) : list jentry :=
  flat_map (fun x : N * (obj * option jentry) => match snd (snd x) with Some en => [en] | None => [] end)
           (map (fun ao : N * obj => (fst ao, journal_of m (fst ao) (snd ao))) (s_objs m)).

Lemma journal_of_addr m a o en : snd (journal_of m a o) = Some en -> je_addr en = a.
Proof.
  unfold journal_of. cbn [snd]. destruct (_ || _ || _); [| discriminate]. intro H. inversion H. reflexivity.
Qed.

Lemma flush_entries_addrs m : forall en, In en (flush_entries m) -> In (je_addr en) (map fst (s_objs m)).
Proof.
  unfold flush_entries. induction (s_objs m) as [|[a o] t IH]; cbn [map flat_map fst snd]; intros en Hin; [contradiction|].
  apply in_app_or in Hin. destruct Hin as [Hin | Hin].
  - destruct (snd (journal_of m a o)) as [en'|] eqn:E; [| contradiction].
    destruct Hin as [<- | []]. left. symmetry. eapply journal_of_addr; exact E.
  - right. apply IH. exact Hin.
Qed.

Lemma flush_entries_NoDup m : NoDup (map fst (s_objs m)) -> NoDup (map je_addr (flush_entries m)).
Proof.
  unfold flush_entries. induction (s_objs m) as [|[a o] t IH]; cbn [map flat_map fst snd]; intro Hn; [constructor|].
  inversion Hn as [|? ? Hni Hn']; subst.
  destruct (snd (journal_of m a o)) as [en|] eqn:E; cbn [app map]; [| apply IH; exact Hn'].
  constructor; [| apply IH; exact Hn'].
  rewrite (journal_of_addr m a o en E). intro Hin. apply Hni.
  apply in_map_iff in Hin. destruct Hin as [en' [He Hin]]. rewrite <- He.
  apply (flush_entries_addrs (set_objs m t)). exact Hin.
Qed.

Lemma jfind_flush m a : NoDup (map fst (s_objs m)) ->
  jfind a (flush_entries m) =
  match aget a (s_objs m) with Some o => snd (journal_of m a o) | None => None end.
Proof.
  unfold flush_entries. induction (s_objs m) as [|[b o] t IH]; cbn [map flat_map fst snd]; intro Hn; [reflexivity|].
  inversion Hn as [|? ? Hni Hn']; subst. rewrite aget_cons.
  destruct (a =? b) eqn:E.
  - apply N.eqb_eq in E. subst b.
    destruct (snd (journal_of m a o)) as [en|] eqn:Ej; cbn [app].
    + unfold jfind. cbn [find]. rewrite (journal_of_addr m a o en Ej), N.eqb_refl. reflexivity.
    + rewrite (IH Hn'). unfold aget. rewrite (notin_alookup_None N.eqb N_eqb_spec a t Hni). reflexivity.
  - destruct (snd (journal_of m b o)) as [en|] eqn:Ej; cbn [app]; [| apply IH; exact Hn'].
    unfold jfind. cbn [find]. rewrite (journal_of_addr m b o en Ej), (N.eqb_sym b a), E. apply IH. exact Hn'.
Qed.

Lemma In_flush_entries m en : In en (flush_entries m) ->
  exists a o, In (a, o) (s_objs m) /\ snd (journal_of m a o) = Some en.
Proof.
  unfold flush_entries. induction (s_objs m) as [|[a o] t IH]; cbn [map flat_map fst snd]; intro Hin; [contradiction|].
  apply in_app_or in Hin. destruct Hin as [Hin | Hin].
  - destruct (snd (journal_of m a o)) as [en'|] eqn:E; [| contradiction].
    destruct Hin as [<- | []]. exists a, o. split; [left; reflexivity | exact E].
  - destruct (IH Hin) as [a' [o' [H1 H2]]]. exists a', o'. split; [right; exact H1 | exact H2].
Qed.

(** the entry of an object *)
Lemma journal_of_entry {e : env} m a o en : Inv m -> ObjOk m a o -> snd (journal_of m a o) = Some en ->
  en = mkJE a (acct_changed (o_orig o) (o_dirty o))
            (if acct_changed (o_orig o) (o_dirty o) then o_orig o else None)
            (map (fun kv : bytes * val => (fst kv, orig_of o (fst kv))) (changed_entries o))
            (code_written o) (if code_written o then o_ocode o else None).
Proof.
  intros I Ok. unfold journal_of. cbn [snd]. rewrite (journal_oc m a o I Ok).
  fold (code_written o).
  destruct (_ || _ || _); [| discriminate]. intro H. inversion H. reflexivity.
Qed.

Lemma pst_lookup o k :
  kget k (map (fun kv : bytes * val => (fst kv, orig_of o (fst kv))) (changed_entries o)) =
  match kget k (changed_entries o) with Some _ => Some (orig_of o k) | None => None end.
Proof.
  unfold kget. rewrite (alookup_map_snd bytes_eqb bytes_eqb_spec (fun k' _ => orig_of o k') k (changed_entries o)).
  reflexivity.
Qed.

Lemma changed_key_orig {e : env} m a o k v : ObjOk m a o -> kget k (changed_entries o) = Some v -> nb (orig_of o k) = fl_st m a k.
Proof.
  intros Ok Hc. rewrite (changed_lookup o k (ok_nd m a o Ok)) in Hc.
  destruct (kget k (o_dst o)) as [v'|] eqn:Ek; [| discriminate].
  eapply orig_of_fl; eassumption.
Qed.

Section FlushJournal.
Variable e : env.

(** the journal written by a flush undoes, table entry by table entry, what the commit writes *)
Theorem flush_journal_exact m h root : Inv m -> Coh m ->
  jrev_ok (mkJ (flush_entries m) root) (s_db (flush_then_commit e m h)) (s_db m).
Proof.
  intros I C d [E1 E2 E3].
  destruct (ftc_fields e m h I) as [F1 [F2 [F3 _]]].
  pose proof (inv_nd_objs m I) as Hno.
  pose proof (flush_entries_NoDup m Hno) as Hnd.
  pose proof (dirty_objs_keys_NoDup m Hno) as Hdn.
  unfold revert_all. cbn [j_entries].
  constructor.
  - (* account records *)
    intros a. rewrite (revert_fold_acct _ d a Hnd), (jfind_flush m a Hno), E1, F1,
      (commit_fold_acct _ _ a Hdn), (aget_dirty_objs m a Hno).
    destruct (aget a (s_objs m)) as [o|] eqn:Eo; [| reflexivity].
    pose proof (inv_objs m I a o Eo) as Ok.
    destruct (snd (journal_of m a o)) as [en|] eqn:Ej.
    + assert (Hd : is_dirty m a o = true) by (unfold is_dirty; rewrite Ej; reflexivity). rewrite Hd.
      rewrite (journal_of_entry m a o en I Ok Ej). cbn [je_achg je_pacct].
      destruct (acct_changed (o_orig o) (o_dirty o)) eqn:Eac; [| reflexivity].
      rewrite (ok_oa m a o Ok). apply fl_acct_coh. exact C.
    + assert (Hd : is_dirty m a o = false) by (unfold is_dirty; rewrite Ej; reflexivity). rewrite Hd. reflexivity.
  - (* code *)
    intros a. rewrite (revert_fold_code _ d a Hnd), (jfind_flush m a Hno), E2, F3,
      (commit_fold_code _ _ a Hdn (dirty_written m I)), (aget_dirty_objs m a Hno).
    destruct (aget a (s_objs m)) as [o|] eqn:Eo; [| reflexivity].
    pose proof (inv_objs m I a o Eo) as Ok.
    destruct (snd (journal_of m a o)) as [en|] eqn:Ej.
    + assert (Hd : is_dirty m a o = true) by (unfold is_dirty; rewrite Ej; reflexivity). rewrite Hd.
      rewrite (journal_of_entry m a o en I Ok Ej). cbn [je_cchg je_pcode].
      destruct (code_written o) eqn:Ew; [| reflexivity].
      rewrite (ok_oc m a o Ok), <- (db_code_cached m a I). reflexivity.
    + assert (Hd : is_dirty m a o = false) by (unfold is_dirty; rewrite Ej; reflexivity). rewrite Hd. reflexivity.
  - (* storage *)
    intros a k. unfold db_st. rewrite (revert_fold_st _ d a k Hnd), (jfind_flush m a Hno).
    pose proof (E3 a k) as Hd. unfold db_st in Hd.
    rewrite F2, (commit_fold_st _ _ a k Hdn), (aget_dirty_objs m a Hno) in Hd.
    destruct (aget a (s_objs m)) as [o|] eqn:Eo; [| exact Hd].
    pose proof (inv_objs m I a o Eo) as Ok.
    destruct (snd (journal_of m a o)) as [en|] eqn:Ej.
    + assert (Hdi : is_dirty m a o = true) by (unfold is_dirty; rewrite Ej; reflexivity). rewrite Hdi in Hd.
      rewrite (journal_of_entry m a o en I Ok Ej). cbn [je_pst]. rewrite pst_lookup.
      destruct (kget k (changed_entries o)) as [v|] eqn:Ec; [| exact Hd].
      change (nb (sget (a, k) (d_st (s_db m)))) with (db_st (s_db m) a k).
      rewrite <- (fl_st_coh m a k C), <- (changed_key_orig m a o k v Ok Ec). destruct (orig_of o k); reflexivity.
    + assert (Hdi : is_dirty m a o = false) by (unfold is_dirty; rewrite Ej; reflexivity). rewrite Hdi in Hd. exact Hd.
Qed.
End FlushJournal.

(** * the chain of retained journals

    [G h] is the store as it was committed at height [h] (a ghost: only its tables matter). *)
Definition lo_of (s : spec) : N := if sp_min s <=? 1 then 0 else sp_min s.

Section ChainDef.
Context {e : env}.
Record chain_okG (G : N -> db) (m : st) (s : spec) : Prop := {
  ck_top : hist_get s (sp_max s) = Some (sp_fl s, sp_prev s);
  ck_minmax : sp_min s <= sp_max s;
  ck_cur : db_eq (s_db m) (G (sp_max s)) /\ db_matches (G (sp_max s)) (sp_fl s);
  ck_step : forall h, lo_of s < h -> h <= sp_max s ->
     exists jn S r S' r', aget h (d_jnl (s_db m)) = Some jn /\ hist_get s h = Some (S, r) /\
        hist_get s (h - 1) = Some (S', r') /\ jrev_ok jn (G h) (G (h - 1)) /\ db_matches (G (h - 1)) S' /\ j_root jn = r;
  ck_root : forall h, lo_of s <= h -> h <= sp_max s -> h <> 0 ->
     exists jn S r, aget h (d_jnl (s_db m)) = Some jn /\ hist_get s h = Some (S, r) /\ j_root jn = r
}.
Definition chain_ok (m : st) (s : spec) : Prop := exists G, chain_okG G m s.
End ChainDef.

Lemma lo_le_min s : lo_of s <= sp_min s.
Proof. unfold lo_of. destruct (sp_min s <=? 1) eqn:E; lia. Qed.

Lemma chain_frame {e : env} m m' s s' :
  s_db m' = s_db m -> sp_hist s' = sp_hist s -> sp_min s' = sp_min s -> sp_max s' = sp_max s ->
  sp_fl s' = sp_fl s -> sp_prev s' = sp_prev s -> chain_ok m s -> chain_ok m' s'.
Proof.
  intros Hd Hh Hmin Hmax Hfl Hp [G [K1 K2 Kc K3 K4]]. exists G.
  assert (Hg : forall h, hist_get s' h = hist_get s h) by (intro h; unfold hist_get; rewrite Hh; reflexivity).
  assert (Hlo : lo_of s' = lo_of s) by (unfold lo_of; rewrite Hmin; reflexivity).
  constructor.
  - rewrite Hg, Hmax, Hfl, Hp. exact K1.
  - rewrite Hmin, Hmax. exact K2.
  - rewrite Hd, Hmax, Hfl. exact Kc.
  - intros h H1 H2. rewrite Hlo in H1. rewrite Hmax in H2. rewrite Hd, !Hg. apply K3; assumption.
  - intros h H1 H2 H3. rewrite Hlo in H1. rewrite Hmax in H2. rewrite Hd, Hg. apply K4; assumption.
Qed.

Section Chain.
Variable e : env.
Hypothesis kec_ne : forall c, e_kec e c <> [].
Hypothesis kec_inj : forall c c', e_kec e c = e_kec e c' -> c = c'.

Lemma sim_db_matches m s : Sim e m s -> db_matches (s_db m) (sp_fl s).
Proof.
  intros [I C Mc [F1 [F2 F3]] Sn Nu].
  assert (Hch : forall a, dbch (s_db m) a = fl_ch m a).
  { intro a. unfold dbch, fl_ch. rewrite (fl_acct_coh m a C). reflexivity. }
  assert (Hcd : forall a, aget a (d_code (s_db m)) = cached_code m a) by (intro a; apply (db_code_cached m a I)).
  constructor.
  - intros a k. rewrite <- (fl_st_coh m a k C). apply F1.
  - intros a. rewrite <- (fl_acct_coh m a C). apply F2.
  - intros a. rewrite Hcd. apply F3.
  - intros a. rewrite Hch, Hcd. apply (inv_t1 m I).
  - intros a. rewrite Hch, Hcd. apply (inv_k1 m I).
Qed.

Lemma chain0 : Sim e st0 spec0 -> chain_ok st0 spec0.
Proof.
  intro S0. exists (fun _ => s_db st0). constructor; simpl.
  - reflexivity.
  - lia.
  - split; [apply db_eq_refl | exact (sim_db_matches st0 spec0 S0)].
  - intros h H1 H2. unfold lo_of in H1. simpl in H1. lia.
  - intros h H1 H2 H3. lia.
Qed.

Lemma hist_get_aset s h x h' :
  hist_get (mkSpec (sp_cur s) (sp_fl s) (sp_pend s) (aset N.eqb h x (sp_hist s)) (sp_min s) (sp_max s)
                   (sp_snaps s) (sp_next s) (sp_prev s) (sp_touched s) (sp_flushes s)) h' =
  if h' =? 0 then Some (sm0, zero32) else if h' =? h then Some x else hist_get s h'.
Proof.
  unfold hist_get. cbn [sp_hist]. destruct (h' =? 0); [reflexivity|].
  rewrite (alookup_aset N.eqb N_eqb_spec). reflexivity.
Qed.

(** flush + commit extends the chain by one journal *)
Lemma flush_commit_chain m s h :
  Sim e m s -> chain_ok m s -> h = sp_max s + 1 ->
  chain_ok (flush_then_commit e m h)
           (spec_flush_commit e s (root_of e m) (isort n_leb (map fst (dirty_objs m))) h).
Proof.
  intros S K Hh. pose proof (sim_inv e m s S) as I.
  destruct (ftc_journals e m h I) as [Jn Jo]. cbv zeta in Jn, Jo.
  pose proof (flush_journal_exact e m h (root_of e m) I (sim_coh e m s S)) as Jrev.
  pose proof (flush_commit_sim e kec_ne kec_inj m s h S Hh) as S2.
  pose proof (sim_db_matches _ _ S2) as Dm2.
  destruct K as [G [K1 K2 [Kc1 Kc2] K3 K4]].
  pose proof (sim_num e m s S) as Nu.
  assert (Hmin : (if s_min m =? 0 then h else s_min m) = (if sp_min s =? 0 then h else sp_min s)).
  { destruct (nu_min m s Nu) as [N5 | [A [B D]]]; [rewrite N5; reflexivity|].
    rewrite D, B. simpl. rewrite Hh, A. reflexivity. }
  rewrite Hmin in Jo.
  set (min1 := if sp_min s =? 0 then h else sp_min s) in *.
  set (pr := (10 <? h) && (min1 <? h - 10)) in *.
  set (mc := flush_then_commit e m h) in *.
  set (s2 := spec_flush_commit e s (root_of e m) (isort n_leb (map fst (dirty_objs m))) h) in *.
  assert (E2 : sp_max s2 = h /\ sp_min s2 = (if pr then h - 10 else min1) /\ sp_fl s2 = sp_cur s /\
               sp_prev s2 = root_of e m).
  { unfold s2, spec_flush_commit. cbn [spec_step fst sp_pend sp_max sp_min sp_fl sp_prev]. repeat split. }
  destruct E2 as [E2a [E2b [E2c E2d]]].
  assert (Hg : forall h', hist_get s2 h' = if h' =? 0 then Some (sm0, zero32)
                                           else if h' =? h then Some (sp_cur s, root_of e m) else hist_get s h').
  { intro h'. unfold s2, spec_flush_commit, hist_get. cbn [spec_step fst sp_pend sp_hist sp_fl sp_prev].
    destruct (h' =? 0); [reflexivity|]. rewrite (alookup_aset N.eqb N_eqb_spec). reflexivity. }
  assert (Hh0 : h <> 0) by lia.
  assert (Hlo : lo_of s <= lo_of s2).
  { unfold lo_of. rewrite E2b. unfold pr, min1.
    destruct (sp_min s <=? 1) eqn:Ea; [lia|]. apply N.leb_gt in Ea.
    destruct (sp_min s =? 0) eqn:Eb; [apply N.eqb_eq in Eb; lia|].
    destruct ((10 <? h) && (sp_min s <? h - 10)) eqn:Ec.
    - apply andb_true_iff in Ec. destruct Ec as [Ec1 Ec2]. apply N.ltb_lt in Ec2.
      destruct (h - 10 <=? 1) eqn:Ed; [apply N.leb_le in Ed; lia | lia].
    - destruct (sp_min s <=? 1) eqn:Ee; [apply N.leb_le in Ee; lia | lia]. }
  set (G' := fun h' => if h' =? h then s_db mc else G h').
  assert (HG'h : G' h = s_db mc) by (unfold G'; rewrite N.eqb_refl; reflexivity).
  assert (HG'o : forall h', h' <> h -> G' h' = G h').
  { intros h' Hne. unfold G'. destruct (h' =? h) eqn:E; [apply N.eqb_eq in E; contradiction | reflexivity]. }
  exists G'. constructor.
  - rewrite E2a, Hg, E2c, E2d. destruct (h =? 0) eqn:E; [apply N.eqb_eq in E; contradiction|].
    rewrite N.eqb_refl. reflexivity.
  - rewrite E2a, E2b. unfold pr, min1. destruct ((10 <? h) && _); [lia|]. destruct (sp_min s =? 0); lia.
  - rewrite E2a, HG'h. split; [apply db_eq_refl | exact Dm2].
  - (* steps *)
    intros h' H1 H2. rewrite E2a in H2.
    assert (Hkeep : pr = true -> h - 10 <= h').
    { intro Hpr. unfold lo_of in H1. rewrite E2b, Hpr in H1. destruct (h - 10 <=? 1) eqn:Ed; [apply N.leb_le in Ed|]; lia. }
    destruct (N.eq_dec h' h) as [-> | Hne].
    + exists (mkJ (flush_entries0 m) (root_of e m)), (sp_cur s), (root_of e m), (sp_fl s), (sp_prev s).
      split; [exact Jn|]. rewrite !Hg.
      destruct (h =? 0) eqn:E; [apply N.eqb_eq in E; contradiction|]. rewrite N.eqb_refl.
      split; [reflexivity|].
      replace (h - 1) with (sp_max s) by lia.
      split.
      { destruct (sp_max s =? 0) eqn:E0.
        - apply N.eqb_eq in E0. rewrite E0 in K1. unfold hist_get in K1. simpl in K1. exact K1.
        - destruct (sp_max s =? h) eqn:E1; [apply N.eqb_eq in E1; lia | exact K1]. }
      rewrite HG'h, (HG'o (sp_max s)) by lia.
      split; [| split; [exact Kc2 | reflexivity]].
      intros d Hd. eapply db_eq_trans; [apply (Jrev d Hd) | exact Kc1].
    + assert (H2' : h' <= sp_max s) by lia.
      destruct (K3 h' ltac:(lia) H2') as [jn [S1 [r1 [S1' [r1' [A1 [A2 [A3 [A4 [A5 A6]]]]]]]]]].
      exists jn, S1, r1, S1', r1'. rewrite (Jo h' Hne Hkeep), !Hg.
      assert (h' <> 0) by lia.
      destruct (h' =? 0) eqn:E0; [apply N.eqb_eq in E0; contradiction|].
      destruct (h' =? h) eqn:E1; [apply N.eqb_eq in E1; contradiction|].
      rewrite (HG'o h' Hne), (HG'o (h' - 1)) by lia.
      split; [exact A1|]. split; [exact A2|]. split; [| tauto].
      destruct (h' - 1 =? 0) eqn:E2.
      * apply N.eqb_eq in E2. rewrite E2 in A3. exact A3.
      * destruct (h' - 1 =? h) eqn:E3; [apply N.eqb_eq in E3; lia | exact A3].
  - (* roots *)
    intros h' H1 H2 H3. rewrite E2a in H2.
    assert (Hkeep : pr = true -> h - 10 <= h').
    { intro Hpr. unfold lo_of in H1. rewrite E2b, Hpr in H1. destruct (h - 10 <=? 1) eqn:Ed; [apply N.leb_le in Ed|]; lia. }
    destruct (N.eq_dec h' h) as [-> | Hne].
    + exists (mkJ (flush_entries0 m) (root_of e m)), (sp_cur s), (root_of e m).
      split; [exact Jn|]. rewrite Hg. destruct (h =? 0) eqn:E; [apply N.eqb_eq in E; contradiction|].
      rewrite N.eqb_refl. split; reflexivity.
    + destruct (K4 h' ltac:(lia) ltac:(lia) H3) as [jn [S1 [r1 [A1 [A2 A3]]]]].
      exists jn, S1, r1. rewrite (Jo h' Hne Hkeep), Hg.
      destruct (h' =? 0) eqn:E0; [apply N.eqb_eq in E0; contradiction|].
      destruct (h' =? h) eqn:E1; [apply N.eqb_eq in E1; contradiction|]. tauto.
Qed.
End Chain.

(** * the rollback loop walks the chain down *)
Lemma db_eq_tables d d' D :
  d_acct d' = d_acct d -> d_st d' = d_st d -> d_code d' = d_code d -> db_eq d D -> db_eq d' D.
Proof.
  intros H1 H2 H3 [A B C]. constructor.
  - intros a. rewrite H1. apply A.
  - intros a. rewrite H3. apply B.
  - intros a k. unfold db_st. rewrite H2. apply C.
Qed.

Lemma rollback_loop_chain (G : N -> db) : forall fuel i t d,
  fuel = N.to_nat (i - t) -> t <= i ->
  (forall h, t < h -> h <= i -> exists jn, aget h (d_jnl d) = Some jn /\ jrev_ok jn (G h) (G (h - 1))) ->
  db_eq d (G i) ->
  exists d', rollback_loop fuel i t d = (d', true) /\ db_eq d' (G t) /\
     (forall h, h <= t -> aget h (d_jnl d') = aget h (d_jnl d)) /\ d_min d' = d_min d /\
     (t < i -> d_max d' = t).
Proof.
  induction fuel as [|k IH]; intros i t d Hf Hle Hst Htop.
  - assert (i = t) by lia. subst i. exists d. cbn [rollback_loop].
    split; [reflexivity|]. split; [exact Htop|]. split; [reflexivity|]. split; [reflexivity | lia].
  - assert (Hlt : t < i) by lia.
    cbn [rollback_loop]. destruct (i <=? t) eqn:E; [apply N.leb_le in E; lia|].
    destruct (Hst i Hlt ltac:(lia)) as [jn [Hj Hrev]].
    rewrite Hj.
    pose proof (Hrev d Htop) as Hm1. unfold revert_all in Hm1.
    destruct (revert_fold_rest (j_entries jn) d) as [R1 [R2 R3]].
    set (d1 := fold_right (fun en d' => revert_entry d' en) d (j_entries jn)) in *.
    set (d2 := mkDb (d_acct d1) (d_code d1) (d_st d1) (adel i (d_jnl d1)) (d_min d1) (i - 1)).
    destruct (IH (i - 1) t d2) as [d' [L1 [L2 [L3 [L4 L5]]]]].
    + lia.
    + lia.
    + intros h Hh1 Hh2. destruct (Hst h Hh1 ltac:(lia)) as [jn' [G1 G2]].
      exists jn'. split; [| exact G2].
      cbn [d_jnl d2]. rewrite aget_adel, R1. destruct (h =? i) eqn:Eh; [apply N.eqb_eq in Eh; lia | exact G1].
    + apply (db_eq_tables d1); try reflexivity. exact Hm1.
    + exists d'. split; [exact L1|]. split; [exact L2|]. split; [| split].
      * intros h Hh. rewrite (L3 h Hh). cbn [d_jnl d2]. rewrite aget_adel, R1.
        destruct (h =? i) eqn:Eh; [apply N.eqb_eq in Eh; lia | reflexivity].
      * rewrite L4. cbn [d_min d2]. exact R2.
      * intros _. destruct (N.eq_dec t (i - 1)) as [Et | Et].
        -- (* the recursive call stops at once *)
           assert (k = 0%nat) by lia. subst k. cbn [rollback_loop] in L1. inversion L1; subst d'.
           cbn [d_max d2]. lia.
        -- apply L5. lia.
Qed.

(** * RollbackState as a step of the simulation *)
Section RollbackStep.
Variable e : env.

Definition SimC (m : st) (s : spec) : Prop := Sim e m s /\ chain_ok m s /\ NoDup (map fst (sp_hist s)).

Lemma hist_get_filter s h h' : NoDup (map fst (sp_hist s)) -> h' <= h ->
  (if h' =? 0 then Some (sm0, zero32)
   else alookup N.eqb h' (filter (fun x : N * (smap * bytes) => fst x <=? h) (sp_hist s))) = hist_get s h'.
Proof.
  intros Hn Hle. unfold hist_get. destruct (h' =? 0); [reflexivity|].
  rewrite (alookup_filter N.eqb N_eqb_spec (fun x => fst x <=? h) h' (sp_hist s) Hn).
  destruct (alookup N.eqb h' (sp_hist s)) as [v|]; [| reflexivity].
  cbn [fst]. destruct (h' <=? h) eqn:E; [reflexivity | apply N.leb_gt in E; lia].
Qed.

Lemma rollback_decision m s h : nums m s ->
  (s_max m <? h) = (sp_max s <? h) /\
  ((h <? s_min m) && negb ((s_min m =? 1) && (h =? 0)) = (h <? sp_min s) && negb ((sp_min s =? 1) && (h =? 0))
   \/ sp_max s <? h = true) /\
  (s_max m =? h) = (sp_max s =? h).
Proof.
  intros Nu. rewrite (nu_max m s Nu). split; [reflexivity|]. split; [| reflexivity].
  destruct (nu_min m s Nu) as [E | [A [B D]]]; [left; rewrite E; reflexivity|].
  rewrite A, B, D. destruct (0 <? h) eqn:E0; [right; reflexivity|].
  left. apply N.ltb_ge in E0. assert (h = 0) by lia. subst h. reflexivity.
Qed.

Lemma step_rollback m s h : SimC m s -> wf_thm_b s (Rollback h) = true ->
  let '(m', x) := step e cfg_fixed m (Rollback h) in
  let '(s', ex) := spec_step e s (Rollback h) x in
  SimC m' s' /\ sexp_match false ex x = true.
Proof.
  intros [S [K Hnd]] Hwf. cbn [step spec_step]. unfold do_rollback. cbn [d_rb_head_dirty cfg_fixed].
  pose proof (sim_num e m s S) as Nu.
  destruct (rollback_decision m s h Nu) as [D1 [D2 D3]].
  rewrite D1. destruct (sp_max s <? h) eqn:Ehigh.
  { split; [split; [exact S | split; assumption] | reflexivity]. }
  destruct D2 as [D2 | D2]; [| discriminate]. rewrite D2.
  destruct ((h <? sp_min s) && negb ((sp_min s =? 1) && (h =? 0))) eqn:Etoo.
  { split; [split; [exact S | split; assumption] | reflexivity]. }
  rewrite D3. destruct (sp_max s =? h) eqn:Eeq.
  { (* nothing to revert: the in-memory accounts are dropped *)
    split; [| reflexivity]. split; [apply Sim_clear; exact S|]. split; [| exact Hnd].
    apply (chain_frame m _ s); try reflexivity. exact K. }
  (* the loop *)
  apply N.ltb_ge in Ehigh. apply N.eqb_neq in Eeq.
  assert (Hlt : h < sp_max s) by lia.
  assert (Hlo : lo_of s <= h).
  { unfold lo_of. destruct (sp_min s <=? 1) eqn:E1; [lia|]. apply N.leb_gt in E1.
    apply andb_false_iff in Etoo. destruct Etoo as [Et | Et]; [apply N.ltb_ge in Et; exact Et|].
    apply negb_false_iff, andb_true_iff in Et. destruct Et as [Et _]. apply N.eqb_eq in Et. lia. }
  destruct K as [G [K1 K2 [Kc1 Kc2] K3 K4]].
  destruct (rollback_loop_chain G (N.to_nat (s_max m - h)) (s_max m) h (s_db m)) as [d1 [L1 [L2 [L3 [L4 L5]]]]].
  - reflexivity.
  - rewrite (nu_max m s Nu). lia.
  - intros h' H1 H2. rewrite (nu_max m s Nu) in H2.
    destruct (K3 h' ltac:(lia) H2) as [jn [Sa [ra [Sb [rb [G1 [G2 [G3 [G4 [G5 _]]]]]]]]]].
    exists jn. tauto.
  - rewrite (nu_max m s Nu). exact Kc1.
  - rewrite L1. cbn [negb].
    (* the state recorded at [h] *)
    destruct (K3 (h + 1) ltac:(lia) ltac:(lia)) as [jn1 [Sa1 [ra1 [Sh [rh [_ [_ [Hh [_ [Hmh _]]]]]]]]]].
    replace (h + 1 - 1) with h in Hh, Hmh by lia.
    rewrite Hh.
    pose proof (db_matches_eq d1 (G h) Sh L2 Hmh) as Hm.
    assert (Hdmax : d_max d1 = h) by (apply L5; rewrite (nu_max m s Nu); exact Hlt).
    (* the model's final state, in both branches, is [mf] with the root recorded at [h] *)
    assert (Hfin : exists m',
              (if h =? 0
               then (mkSt d1 cache0 [] (s_chg m) (s_gen m) (s_revs m) (s_next m) (s_pend m) zero32 0 0 (s_bad m), ORes R_ok)
               else match aget h (d_jnl d1) with
                    | Some jn => (mkSt d1 cache0 [] (s_chg m) (s_gen m) (s_revs m) (s_next m) (s_pend m) (j_root jn)
                                       (s_min m) h (s_bad m), ORes R_ok)
                    | None => (mkSt d1 cache0 [] (s_chg m) (s_gen m) (s_revs m) (s_next m) (s_pend m) (s_prev m)
                                    (s_min m) (s_max m) (s_bad m), ORes R_panic)
                    end) = (m', ORes R_ok) /\
              m' = mkSt d1 cache0 [] (s_chg m) (s_gen m) (s_revs m) (s_next m) (s_pend m) rh
                        (if h =? 0 then 0 else s_min m) h (s_bad m)).
    { destruct (h =? 0) eqn:E0.
      - apply N.eqb_eq in E0. subst h. unfold hist_get in Hh. simpl in Hh. inversion Hh; subst.
        eexists. split; reflexivity.
      - apply N.eqb_neq in E0. destruct (K4 h Hlo ltac:(lia) E0) as [jn [Sa [ra [G1 [G2 G3]]]]].
        rewrite (L3 h ltac:(lia)), G1. rewrite Hh in G2. injection G2 as HS Hr.
        eexists. split; [reflexivity|]. rewrite G3, <- Hr. reflexivity. }
    destruct Hfin as [m' [Hfin Hm']]. rewrite Hfin. split; [| reflexivity].
    destruct S as [I C Mc Mf Sn Nu'].
    assert (Hfl : forall a k, fl_st m' a k = db_st d1 a k) by (intros; subst m'; reflexivity).
    assert (Hfa : forall a, fl_acct m' a = aget a (d_acct d1)) by (intros; subst m'; reflexivity).
    assert (Hfc : forall a, fl_ch m' a = dbch d1 a) by (intros; subst m'; reflexivity).
    assert (Hcd : forall a, cached_code m' a = aget a (d_code d1)) by (intros; subst m'; reflexivity).
    destruct Hm as [M1 M2 M3 M4 M5].
    assert (I' : Inv m').
    { constructor.
      - subst m'. constructor.
      - subst m'. intros a o H. discriminate.
      - intro a. rewrite Hfc, Hcd. apply M4.
      - intro a. rewrite Hfc, Hcd. apply M5.
      - subst m'. intros a v H. discriminate. }
    assert (Hminle : h <> 0 -> sp_min s <= h /\ s_min m = sp_min s).
    { intro Hh0. apply andb_false_iff in Etoo.
      destruct (nu_min m s Nu) as [E | [A _]]; [| lia]. split; [| exact E].
      destruct Etoo as [Et | Et]; [apply N.ltb_ge in Et; exact Et|].
      apply negb_false_iff, andb_true_iff in Et. destruct Et as [_ Et]. apply N.eqb_eq in Et. contradiction. }
    split; [| split].
    + (* Sim *)
      constructor.
      * exact I'.
      * subst m'. constructor; cbn [s_cache s_pend c_st c_acct cache0]; try (intros; discriminate). apply C.
      * cbn [sp_cur]. split; [| split].
        -- intros a k. subst m'. change (db_st d1 a k = sm_st_get Sh a k). apply M1.
        -- intros a. subst m'. change (acct_rel (acct_view (aget a (d_acct d1))) (sm_acct_get Sh a)). apply M2.
        -- intros a. assert (Hcc : cur_code m' a = nb (load_code m' a)) by (subst m'; reflexivity).
           rewrite Hcc, (load_code_cached m' a I'), Hcd. apply M3.
      * cbn [sp_fl]. split; [intros a k; rewrite Hfl; apply M1 | split; [intros a; rewrite Hfa; apply M2 | intros a; rewrite Hcd; apply M3]].
      * apply (snap_ok_taint' e m m' s Sn); subst m'; try reflexivity; simpl; lia.
      * destruct Nu' as [N1 N2 N3 N4 N5 N6 N7 N8]. subst m'.
        constructor; cbn [s_next s_max s_min s_prev s_db sp_pend sp_next sp_max sp_min sp_prev].
        -- exact N1.
        -- exact N2.
        -- reflexivity.
        -- exact Hdmax.
        -- left. destruct (h =? 0) eqn:E0; [reflexivity|]. apply N.eqb_neq in E0. apply Hminle. exact E0.
        -- reflexivity.
        -- destruct (h =? 0) eqn:E0.
           ++ right. split; [reflexivity|]. split; [apply N.eqb_eq in E0; exact E0|]. rewrite L4.
              apply N.eqb_eq in E0. subst h.
              assert (Hs : s_min m <= 1).
              { destruct N5 as [E | [_ [_ D]]]; [| lia]. rewrite E.
                apply andb_false_iff in Etoo. destruct Etoo as [Et | Et]; [apply N.ltb_ge in Et; lia|].
                apply negb_false_iff, andb_true_iff in Et. destruct Et as [Et _]. apply N.eqb_eq in Et. lia. }
              destruct N7 as [E | [_ [_ D]]]; lia.
           ++ left. rewrite L4. apply N.eqb_neq in E0.
              destruct N7 as [E | [_ [A _]]]; [exact E|]. rewrite N3 in A. lia.
        -- destruct (h =? 0) eqn:E0.
           ++ left. apply N.eqb_eq in E0. subst h. unfold hist_get in Hh. simpl in Hh. inversion Hh. split; reflexivity.
           ++ right. apply N.eqb_neq in E0. split; [exact E0|].
              destruct (K4 h Hlo ltac:(lia) E0) as [jn [Sa [ra [G1 [G2 G3]]]]].
              exists jn. rewrite (L3 h ltac:(lia)). split; [exact G1|]. rewrite Hh in G2. inversion G2. congruence.
    + (* chain *)
      assert (Hg : forall h', h' <= h ->
                hist_get (mkSpec Sh Sh (sp_pend s) (filter (fun x : N * (smap * bytes) => fst x <=? h) (sp_hist s))
                                 (if h =? 0 then 0 else sp_min s) h (taint (sp_snaps s)) (sp_next s) rh [] (sp_flushes s)) h'
                = hist_get s h').
      { intros h' Hle. unfold hist_get at 1. cbn [sp_hist]. apply hist_get_filter; assumption. }
      assert (Hlo' : forall h', lo_of (mkSpec Sh Sh (sp_pend s) (filter (fun x : N * (smap * bytes) => fst x <=? h) (sp_hist s))
                                 (if h =? 0 then 0 else sp_min s) h (taint (sp_snaps s)) (sp_next s) rh [] (sp_flushes s)) < h' ->
                           h' <= h -> lo_of s < h' /\ h <> 0).
      { intros h' Ha Hb. unfold lo_of in Ha. cbn [sp_min] in Ha. destruct (h =? 0) eqn:E0.
        - apply N.eqb_eq in E0. simpl in Ha. lia.
        - apply N.eqb_neq in E0. split; [exact Ha | exact E0]. }
      exists G. constructor; cbn [sp_max sp_min sp_fl sp_prev].
      * rewrite Hg by lia. exact Hh.
      * destruct (h =? 0) eqn:E0; [lia|]. apply N.eqb_neq in E0. apply Hminle. exact E0.
      * subst m'. cbn [s_db]. split; [exact L2 | exact Hmh].
      * intros h' Ha Hb. destruct (Hlo' h' Ha Hb) as [Ha' Hh0].
        destruct (K3 h' Ha' ltac:(lia)) as [jn [Sa [ra [Sb [rb [G1 G2]]]]]].
        exists jn, Sa, ra, Sb, rb. subst m'. cbn [s_db]. rewrite (L3 h' Hb), !Hg by lia. split; [exact G1 | exact G2].
      * intros h' Ha Hb Hc.
        assert (Ha' : lo_of s <= h').
        { unfold lo_of in Ha. cbn [sp_min] in Ha. destruct (h =? 0) eqn:E0; [apply N.eqb_eq in E0; lia | exact Ha]. }
        destruct (K4 h' Ha' ltac:(lia) Hc) as [jn [Sa [ra [G1 G2]]]].
        exists jn, Sa, ra. subst m'. cbn [s_db]. rewrite (L3 h' Hb), Hg by lia. split; [exact G1 | exact G2].
    + cbn [sp_hist]. apply (filter_keys_NoDup (fun x : N * (smap * bytes) => fst x <=? h)). exact Hnd.
Qed.
End RollbackStep.
