(** Proofs about [Model/Order.v]. *)
From BX Require Import Base.Prelude Model.Order.
From Coq Require Import ZifyBool ZifyN ZifyNat.
Local Open Scope N_scope.

(** * Reflection lemmas for the boolean trace predicates *)

Lemma N_eqb_spec2 x y : (x =? y) = true <-> x = y.
Proof. apply N.eqb_eq. Qed.

Lemma blk_eqb_spec a b : blk_eqb a b = true <-> a = b.
Proof.
  destruct a as [h1 t1], b as [h2 t2]. unfold blk_eqb. cbn [fst snd].
  rewrite andb_true_iff, N.eqb_eq, (list_eqb_spec N.eqb N_eqb_spec2).
  split; [intros [-> ->]; reflexivity | intro H; inversion H; auto].
Qed.

Lemma contig_from_b_spec evs : forall c, contig_from_b c evs = true <-> contig_from c evs.
Proof.
  induction evs as [|e t IH]; intro c; cbn [contig_from_b contig_from].
  - tauto.
  - rewrite andb_true_iff, N.eqb_eq, IH. tauto.
Qed.

Lemma contiguous_b_spec ops : forall sh tr, contiguous_b sh ops tr = true <-> contiguous sh ops tr.
Proof.
  induction ops as [|op ops IH]; intros sh tr; cbn [contiguous_b contiguous].
  - tauto.
  - destruct tr as [|o tr]; [tauto|].
    rewrite andb_true_iff, contig_from_b_spec, IH. tauto.
Qed.

Lemma is_canon_b_spec init lg b : is_canon_b init lg b = true <-> is_canon init lg b.
Proof.
  unfold is_canon_b, is_canon. rewrite existsb_exists. split.
  - intros [x [Hin He]]. apply blk_eqb_spec in He. subst. exact Hin.
  - intro Hin. exists b. split; [exact Hin | apply blk_eqb_spec; reflexivity].
Qed.

Lemma canonical_b_spec init lg tr : canonical_b init lg tr = true <-> canonical init lg tr.
Proof.
  unfold canonical_b, canonical. rewrite forallb_forall, Forall_forall.
  split; intros H x Hx; apply is_canon_b_spec; apply H; exact Hx.
Qed.

Lemma is_prefix_b_spec a : forall b, is_prefix_b a b = true <-> is_prefix a b.
Proof.
  induction a as [|x a IH]; intros [|y b]; cbn [is_prefix_b is_prefix]; try tauto.
  - split; [discriminate | tauto].
  - rewrite andb_true_iff, blk_eqb_spec, IH. tauto.
Qed.

Lemma st_noskip_b_spec init lg o : st_noskip_b init lg o = true <-> st_noskip init lg o.
Proof.
  unfold st_noskip_b, st_noskip. destruct (b_st o) as [|le [|ap r]].
  - tauto.
  - split; [discriminate | tauto].
  - apply N.leb_le.
Qed.

Lemma none_skipped_b_spec init lg tr : none_skipped_b init lg tr = true <-> none_skipped init lg tr.
Proof.
  unfold none_skipped_b, none_skipped. rewrite forallb_forall, Forall_forall.
  split; intros H x Hx; apply st_noskip_b_spec; apply H; exact Hx.
Qed.

Lemma mem_N_spec x l : mem_N x l = true <-> In x l.
Proof.
  induction l as [|y t IH]; cbn [mem_N In].
  - split; [discriminate | tauto].
  - rewrite orb_true_iff, N.eqb_eq, IH. split; intros [H|H]; auto.
Qed.

Lemma nodup_b_spec l : nodup_b l = true <-> NoDup l.
Proof.
  induction l as [|x t IH]; cbn [nodup_b].
  - split; [constructor | reflexivity].
  - rewrite andb_true_iff, negb_true_iff, IH. split.
    + intros [H1 H2]. constructor; [|exact H2]. intro Hin. apply mem_N_spec in Hin. congruence.
    + intro H. inversion H; subst. split; [|assumption].
      destruct (mem_N x t) eqn:E; [|reflexivity]. apply mem_N_spec in E. contradiction.
Qed.

Lemma disjoint_b_spec a b : disjoint_b a b = true <-> (forall x, In x a -> ~ In x b).
Proof.
  unfold disjoint_b. rewrite forallb_forall. split.
  - intros H x Hx Hb. specialize (H x Hx). apply negb_true_iff in H.
    apply mem_N_spec in Hb. congruence.
  - intros H x Hx. apply negb_true_iff. destruct (mem_N x b) eqn:E; [|reflexivity].
    apply mem_N_spec in E. exfalso. exact (H x Hx E).
Qed.

Lemma blk_compat_b_spec a b : blk_compat_b a b = true <-> blk_compat a b.
Proof.
  unfold blk_compat_b, blk_compat. rewrite orb_true_iff, N.eqb_eq, disjoint_b_spec. tauto.
Qed.

Lemma tx_once_lb_spec l : tx_once_lb l = true <-> tx_once_l l.
Proof.
  induction l as [|b t IH]; cbn [tx_once_lb tx_once_l].
  - tauto.
  - rewrite !andb_true_iff, nodup_b_spec, IH, forallb_forall, Forall_forall.
    split.
    + intros [[H1 H2] H3]. split; [exact H1|]. split; [|exact H3].
      intros x Hx. apply blk_compat_b_spec. apply H2. exact Hx.
    + intros [H1 [H2 H3]]. split; [split|]; [exact H1| |exact H3].
      intros x Hx. apply blk_compat_b_spec. apply H2. exact Hx.
Qed.

Lemma tx_once_b_spec tr : tx_once_b tr = true <-> tx_once tr.
Proof. apply tx_once_lb_spec. Qed.

Lemma nogap_from_b_spec l : forall c, nogap_from_b c l = true <-> nogap_from c l.
Proof.
  induction l as [|e t IH]; intro c; cbn [nogap_from_b nogap_from].
  - tauto.
  - rewrite andb_true_iff, IH. destruct e; [tauto|]. rewrite N.leb_le. tauto.
Qed.

Lemma solo_contiguous_b_spec ops : forall sh tr, solo_contiguous_b sh ops tr = true <-> solo_contiguous sh ops tr.
Proof.
  induction ops as [|op ops IH]; intros sh tr; cbn [solo_contiguous_b solo_contiguous].
  - tauto.
  - destruct tr as [|o tr]; [tauto|].
    rewrite andb_true_iff, contig_from_b_spec, IH. tauto.
Qed.

(** * Association-list facts (the Go map [blockAppliedIndex]) *)

Lemma alookup_in (k : N) (l : list (N * N)) v : alookup N.eqb k l = Some v -> In (k, v) l.
Proof.
  induction l as [|[k' v'] t IH]; cbn [alookup]; [discriminate|].
  destruct (k =? k') eqn:E.
  - intro H. inversion H; subst. apply N.eqb_eq in E. subst. left. reflexivity.
  - intro H. right. apply IH. exact H.
Qed.

Lemma in_aremove (k : N) (l : list (N * N)) kv : In kv (aremove N.eqb k l) -> In kv l.
Proof.
  induction l as [|[k' v'] t IH]; cbn [aremove]; [tauto|].
  destruct (k =? k'); cbn [In]; intro H; [right; apply IH; exact H|].
  destruct H as [H|H]; [left; exact H | right; apply IH; exact H].
Qed.

Lemma in_aset (k v : N) (l : list (N * N)) kv : In kv (aset N.eqb k v l) -> kv = (k, v) \/ In kv l.
Proof.
  unfold aset. cbn [In]. intros [H|H]; [left; symmetry; exact H | right; eapply in_aremove; exact H].
Qed.

Lemma alookup_aset_eq (k v : N) (l : list (N * N)) : alookup N.eqb k (aset N.eqb k v l) = Some v.
Proof. unfold aset. cbn [alookup]. rewrite N.eqb_refl. reflexivity. Qed.

Lemma alookup_aremove_ne (k k' : N) (l : list (N * N)) : k <> k' -> alookup N.eqb k (aremove N.eqb k' l) = alookup N.eqb k l.
Proof.
  intro Hne. induction l as [|[k2 v2] t IH]; cbn [aremove alookup]; [reflexivity|].
  destruct (k' =? k2) eqn:E.
  - apply N.eqb_eq in E. subst k2. rewrite IH.
    destruct (k =? k') eqn:E2; [apply N.eqb_eq in E2; contradiction | reflexivity].
  - cbn [alookup]. rewrite IH. reflexivity.
Qed.

Lemma fold_max_ge (l : list (N * N)) : forall a, a <= fold_left (fun a kv => N.max a (fst kv)) l a.
Proof. induction l as [|x t IH]; intro a; cbn [fold_left]; [lia|]. specialize (IH (N.max a (fst x))). lia. Qed.

Lemma fold_max_in (l : list (N * N)) : forall a kv, In kv l -> fst kv <= fold_left (fun a kv => N.max a (fst kv)) l a.
Proof.
  induction l as [|x t IH]; intros a kv Hin; cbn [fold_left]; [destruct Hin|].
  destruct Hin as [->|Hin].
  - pose proof (fold_max_ge t (N.max a (fst kv))). lia.
  - apply IH. exact Hin.
Qed.

Lemma fold_max_le (l : list (N * N)) L : forall a, a <= L -> (forall kv, In kv l -> fst kv <= L) ->
  fold_left (fun a kv => N.max a (fst kv)) l a <= L.
Proof.
  induction l as [|x t IH]; intros a Ha H; cbn [fold_left]; [exact Ha|].
  apply IH; [|intros kv Hkv; apply H; right; exact Hkv].
  specialize (H x (or_introl eq_refl)). lia.
Qed.

Lemma maxkey_eq (m : list (N * N)) L v :
  alookup N.eqb L m = Some v -> (forall kv, In kv m -> fst kv <= L) -> maxkey m = L.
Proof.
  intros Hl Hall. unfold maxkey. apply N.le_antisymm.
  - apply fold_max_le; [lia | exact Hall].
  - apply alookup_in in Hl. apply (fold_max_in m 0 (L, v)) in Hl. exact Hl.
Qed.

Lemma bai_top_eq (m : list (N * N)) L v :
  alookup N.eqb L m = Some v -> (forall kv, In kv m -> fst kv <= L) -> bai_top m = v.
Proof. intros Hl Hall. unfold bai_top. rewrite (maxkey_eq m L v Hl Hall), Hl. reflexivity. Qed.

(** * The canonical chain *)

Lemma ch_step_ge c e : c <= ch_step c e.
Proof. unfold ch_step. destruct e; [lia|]. destruct (h =? c + 1) eqn:E; lia. Qed.

Lemma ch_from_app c l1 l2 : ch_from c (l1 ++ l2) = ch_from (ch_from c l1) l2.
Proof. unfold ch_from. apply fold_left_app. Qed.

Lemma ch_from_ge l : forall c, c <= ch_from c l.
Proof.
  induction l as [|e t IH]; intro c; unfold ch_from in *; cbn [fold_left]; [lia|].
  specialize (IH (ch_step c e)). pose proof (ch_step_ge c e). lia.
Qed.

Lemma firstn_succ_nth {A} (l : list A) k x : nth_error l k = Some x -> firstn (S k) l = firstn k l ++ [x].
Proof.
  revert l. induction k as [|k IH]; intros [|y t]; cbn [nth_error firstn]; try discriminate.
  - intro H. inversion H. reflexivity.
  - intro H. cbn [app]. f_equal. apply IH. exact H.
Qed.

Section Log.
  Variable init : N.
  Variable lg : rlog.
  Notation ch := (ch init lg).

  Lemma ch_zero : ch 0 = init.
  Proof. reflexivity. Qed.

  Lemma ch_succ i e : entry_at lg (i + 1) = Some e -> ch (i + 1) = ch_step (ch i) e.
  Proof.
    unfold entry_at, Order.ch. destruct (i + 1 =? 0) eqn:E; [lia|].
    replace (i + 1 - 1) with i by lia. intro H.
    replace (N.to_nat (i + 1)) with (S (N.to_nat i)) by lia.
    rewrite (firstn_succ_nth _ _ _ H), ch_from_app. reflexivity.
  Qed.

  Lemma ch_succ_none i : entry_at lg (i + 1) = None -> ch (i + 1) = ch i.
  Proof.
    unfold entry_at, Order.ch. destruct (i + 1 =? 0) eqn:E; [lia|].
    replace (i + 1 - 1) with i by lia. intro H. apply nth_error_None in H.
    rewrite !firstn_all2 by lia. reflexivity.
  Qed.

  Lemma ch_mono_succ i : ch i <= ch (i + 1).
  Proof.
    destruct (entry_at lg (i + 1)) as [e|] eqn:E.
    - rewrite (ch_succ i e E). apply ch_step_ge.
    - rewrite (ch_succ_none i E). lia.
  Qed.

  Lemma ch_mono i j : i <= j -> ch i <= ch j.
  Proof.
    intro H. replace j with (i + (j - i)) by lia. generalize (j - i) as k. clear H j.
    induction k as [|k IH] using N.peano_ind; [rewrite N.add_0_r; lia|].
    replace (i + N.succ k) with (i + k + 1) by lia. pose proof (ch_mono_succ (i + k)). lia.
  Qed.

  (** strictness: a higher canonical height needs a higher index *)
  Lemma ch_lt_idx i j : ch i < ch j -> i < j.
  Proof. intro H. destruct (N.lt_ge_cases i j) as [Hl|Hg]; [exact Hl|]. pose proof (ch_mono j i Hg). lia. Qed.

  (** an accepted entry: the batch at index [idx] continues the canonical chain *)
  Definition acc (ib : N * blk) : Prop :=
    let '(idx, (h, txs)) := ib in
    1 <= idx /\ entry_at lg idx = Some (EBatch h txs) /\ h = ch (idx - 1) + 1.

  Lemma acc_ch idx h txs : acc (idx, (h, txs)) -> ch idx = h.
  Proof.
    intros [H1 [H2 H3]]. replace idx with (idx - 1 + 1) in * by lia.
    rewrite (ch_succ _ _ H2). replace (idx - 1 + 1 - 1) with (idx - 1) in H3 by lia.
    cbn [ch_step]. subst h. rewrite N.eqb_refl. reflexivity.
  Qed.

  (** membership in the canonical list *)
  Lemma canon_from_in l : forall c i0 k h txs,
    nth_error l k = Some (EBatch h txs) -> h = ch_from c (firstn k l) + 1 ->
    In (i0 + N.of_nat k, (h, txs)) (canon_from c i0 l).
  Proof.
    induction l as [|e t IH]; intros c i0 k h txs Hn Hh; [destruct k; discriminate|].
    destruct k as [|k].
    - cbn [nth_error] in Hn. inversion Hn; subst e. cbn [firstn] in Hh. unfold ch_from in Hh. cbn [fold_left] in Hh.
      cbn [canon_from]. subst h. rewrite N.eqb_refl. left. f_equal. lia.
    - cbn [nth_error] in Hn. cbn [firstn] in Hh. unfold ch_from in Hh. cbn [fold_left] in Hh.
      replace (i0 + N.of_nat (S k)) with (N.succ i0 + N.of_nat k) by lia.
      cbn [canon_from]. destruct e as [|h' txs'].
      + apply IH; [exact Hn | exact Hh].
      + cbn [ch_step] in Hh. destruct (h' =? c + 1) eqn:E.
        * right. apply IH; [exact Hn | exact Hh].
        * apply IH; [exact Hn | exact Hh].
  Qed.

  Lemma acc_in_canon ib : acc ib -> In ib (canon init lg).
  Proof.
    destruct ib as [idx [h txs]]. intros [H1 [H2 H3]].
    unfold entry_at in H2. destruct (idx =? 0) eqn:E; [lia|].
    unfold canon. replace idx with (1 + N.of_nat (N.to_nat (idx - 1))) at 1 by lia.
    apply canon_from_in; [exact H2|]. exact H3.
  Qed.

  Lemma acc_is_canon ib : acc ib -> is_canon init lg (snd ib).
  Proof. intro H. unfold is_canon, canon_blocks. apply in_map. apply acc_in_canon. exact H. Qed.

  (** heights of the canonical list are c+1, c+2, ... *)
  Lemma canon_from_contig l : forall c i0, contig_from c (map snd (canon_from c i0 l)).
  Proof.
    induction l as [|e t IH]; intros c i0; cbn [canon_from map contig_from]; [exact I|].
    destruct e as [|h txs]; [apply IH|].
    destruct (h =? c + 1) eqn:E; [|apply IH].
    cbn [map contig_from fst]. apply N.eqb_eq in E. split; [exact E|]. rewrite <- E. apply IH.
  Qed.

  Lemma canon_blocks_contig : contig_from init (canon_blocks init lg).
  Proof. apply canon_from_contig. Qed.

  Lemma contig_from_gt c l : contig_from c l -> forall b, In b l -> c < fst b.
  Proof.
    revert c. induction l as [|x t IH]; intros c Hc b Hin; [destruct Hin|].
    cbn [contig_from] in Hc. destruct Hc as [Hx Ht]. destruct Hin as [->|Hin]; [lia|].
    specialize (IH _ Ht b Hin). lia.
  Qed.

  (** a list with contiguous heights whose elements all lie in a contiguous list from the same
      start is a prefix of it *)
  Lemma contig_prefix l1 : forall c l2, contig_from c l1 -> contig_from c l2 ->
    (forall b, In b l1 -> In b l2) -> is_prefix l1 l2.
  Proof.
    induction l1 as [|x t IH]; intros c l2 H1 H2 Hin; cbn [is_prefix]; [exact I|].
    cbn [contig_from] in H1. destruct H1 as [Hx Ht].
    destruct l2 as [|y l2]; [exact (Hin x (or_introl eq_refl))|].
    cbn [contig_from] in H2. destruct H2 as [Hy Hl2].
    assert (x = y).
    { destruct (Hin x (or_introl eq_refl)) as [E|E]; [symmetry; exact E|].
      pose proof (contig_from_gt _ _ Hl2 x E). lia. }
    subst y. split; [reflexivity|].
    apply (IH (c + 1)); [exact Ht | exact Hl2|].
    intros b Hb. destruct (Hin b (or_intror Hb)) as [E|E]; [|exact E].
    subst b. pose proof (contig_from_gt _ _ Ht x Hb). lia.
  Qed.

  (** two canonical blocks of the same height are the same block *)
  Lemma contig_from_inj c l : contig_from c l -> forall a b, In a l -> In b l -> fst a = fst b -> a = b.
  Proof.
    revert c. induction l as [|x t IH]; intros c Hc a b Ha Hb Hab; [destruct Ha|].
    cbn [contig_from] in Hc. destruct Hc as [Hx Ht].
    destruct Ha as [->|Ha], Hb as [->|Hb].
    - reflexivity.
    - pose proof (contig_from_gt _ _ Ht b Hb). lia.
    - pose proof (contig_from_gt _ _ Ht a Ha). lia.
    - eapply IH; eauto.
  Qed.

  Lemma canon_functional a b : is_canon init lg a -> is_canon init lg b -> fst a = fst b -> a = b.
  Proof. intros Ha Hb. eapply contig_from_inj; [apply canon_blocks_contig | exact Ha | exact Hb]. Qed.

  (** no entry from the future *)
  Lemma nogap_from_nth l : forall c k h txs, nogap_from c l ->
    nth_error l k = Some (EBatch h txs) -> h <= ch_from c (firstn k l) + 1.
  Proof.
    induction l as [|e t IH]; intros c k h txs Hg Hn; [destruct k; discriminate|].
    cbn [nogap_from] in Hg. destruct Hg as [He Ht]. destruct k as [|k].
    - cbn [nth_error] in Hn. inversion Hn; subst e. cbn [firstn]. unfold ch_from. cbn [fold_left]. exact He.
    - cbn [nth_error] in Hn. cbn [firstn]. unfold ch_from. cbn [fold_left]. apply (IH _ _ _ _ Ht Hn).
  Qed.

  Lemma nogap_entry i h txs : nogap init lg -> entry_at lg (i + 1) = Some (EBatch h txs) -> h <= ch i + 1.
  Proof.
    unfold nogap, entry_at. intros Hg. destruct (i + 1 =? 0) eqn:E; [lia|].
    replace (i + 1 - 1) with i by lia. intro Hn. exact (nogap_from_nth _ _ _ _ _ Hg Hn).
  Qed.
End Log.

Lemma report_allowed_ok d x h : d_report_early d = false -> report_allowed d x h = true -> h <= chain x.
Proof. unfold report_allowed. intros -> H. cbn [andb] in H. rewrite orb_false_r in H. apply N.leb_le. exact H. Qed.

(** * The raft replica *)
Section Raft.
  Variable d : Defects.
  Variable c : rcfg.
  Variable lg : rlog.
  Notation ch := (Order.ch (c_init c) lg).
  Notation acc := (acc (c_init c) lg).

  (** the memory invariant: nothing canonical below the applied index is missing, every recorded
      (height -> index) pair points at or below the entry that produced the height, the record for
      lastExec exists (it is the map's highest key) and, in the repaired restart, is exact *)
  Definition is_top (m : list (N * N)) (k v : N) : Prop :=
    alookup N.eqb k m = Some v /\ forall kv, In kv m -> fst kv <= k.

  Definition MI (m : rmem) : Prop :=
    ch (applied m) <= lastExec m
    /\ (forall kv, In kv (bai m) -> fst kv <= lastExec m /\ ch (snd kv) <= fst kv)
    /\ (exists k v, is_top (bai m) k v
                    /\ (d_restart_height_only d = false -> ch v = lastExec m \/ ch (applied m) = lastExec m)).

  Definition safe : Prop := d_restart_height_only d = false \/ nogap (c_init c) lg.

  Lemma MI_top m : MI m -> exists v, bai_top (bai m) = v /\ ch v <= lastExec m
                                     /\ (d_restart_height_only d = false -> ch v = lastExec m \/ ch (applied m) = lastExec m).
  Proof.
    intros [Ha [Hb [k [v [[Hv Hall] Hx]]]]]. exists v. split; [|split].
    - apply (bai_top_eq _ k); [exact Hv|exact Hall].
    - apply alookup_in in Hv. apply Hb in Hv. cbn [fst snd] in Hv. lia.
    - exact Hx.
  Qed.

  Definition same_frame (m m' : rmem) : Prop :=
    snapIdx m' = snapIdx m /\ justElected m' = justElected m /\ leader m' = leader m.

  Lemma publish1_ok m idx e m' evs :
    safe -> MI m -> idx = applied m + 1 -> entry_at lg idx = Some e ->
    publish1 c m (idx, e) = (m', evs) ->
    MI m' /\ applied m' = idx /\ same_frame m m' /\
    ((evs = [] /\ lastExec m' = lastExec m) \/
     (exists h txs, evs = [(idx, (h, txs))] /\ acc (idx, (h, txs)) /\ h = lastExec m + 1 /\ lastExec m' = h)).
  Proof.
    intros Hsafe HMI Hidx He Hp. pose proof HMI as [Ha [Hb [k [v0 [Htop0 Hx0]]]]].
    destruct (MI_top m HMI) as [v [Htop [Hv1 Hv2]]].
    assert (Hvv : v = v0).
    { rewrite <- Htop. destruct Htop0 as [Hl Hall]. apply (bai_top_eq _ k); assumption. }
    subst v0. subst idx. unfold publish1 in Hp. destruct e as [|h txs].
    - inversion Hp; subst m' evs. clear Hp. cbn.
      split; [|split; [reflexivity|split; [repeat split|left; split; reflexivity]]].
      unfold MI. cbn. rewrite (ch_succ _ _ _ _ He). cbn [ch_step]. split; [exact Ha|]. split; [exact Hb|].
      exists k, v. split; assumption.
    - rewrite Htop in Hp. destruct (applied m + 1 <=? v) eqn:E1.
      + inversion Hp; subst m' evs. clear Hp. cbn.
        split; [|split; [reflexivity|split; [repeat split|left; split; reflexivity]]].
        pose proof (ch_mono (c_init c) lg (applied m + 1) v ltac:(lia)) as Hm1.
        pose proof (ch_mono (c_init c) lg (applied m) (applied m + 1) ltac:(lia)) as Hm2.
        unfold MI. cbn. split; [lia|]. split; [exact Hb|].
        exists k, v. split; [exact Htop0|]. intro Hoff. destruct (Hv2 Hoff) as [Hl|Hr]; [left; exact Hl|right; lia].
      + destruct (h =? lastExec m + 1) eqn:E2; cbn [negb] in Hp.
        * (* handed to the executor *)
          apply N.eqb_eq in E2.
          assert (Hsync : ch (applied m) = lastExec m).
          { destruct (N.eq_dec (ch (applied m)) (lastExec m)) as [E|E]; [exact E|]. exfalso.
            assert (Hlt : ch (applied m) < lastExec m) by lia.
            destruct Hsafe as [Hoff|Hng].
            - destruct (Hv2 Hoff) as [Hl|Hr]; [|contradiction]. rewrite <- Hl in Hlt. apply ch_lt_idx in Hlt. lia.
            - pose proof (nogap_entry _ _ _ _ _ Hng He). lia. }
          assert (Hacc : acc (applied m + 1, (h, txs))).
          { cbn. split; [lia|]. split; [exact He|]. replace (applied m + 1 - 1) with (applied m) by lia. lia. }
          pose proof (acc_ch _ _ _ _ _ Hacc) as Hch.
          inversion Hp; subst m' evs. clear Hp. cbn.
          split; [|split; [reflexivity|split; [repeat split|]]];
            [|right; exists h, txs; split; [reflexivity|]; split; [exact Hacc|]; split; [exact E2|reflexivity]].
          unfold MI. cbn. split; [lia|]. split.
          -- intros kv Hin. apply in_aset in Hin. destruct Hin as [->|Hin]; cbn [fst snd].
             ++ split; lia.
             ++ specialize (Hb kv Hin). split; lia.
          -- exists h, (applied m + 1). split.
             ++ split; [apply alookup_aset_eq|]. intros kv Hin. apply in_aset in Hin.
                destruct Hin as [->|Hin]; cbn [fst]; [lia|]. specialize (Hb kv Hin). lia.
             ++ intros _. left. exact Hch.
        * inversion Hp; subst m' evs. clear Hp. cbn.
          split; [|split; [reflexivity|split; [repeat split|left; split; reflexivity]]].
          apply N.eqb_neq in E2.
          assert (Hstep : ch (applied m + 1) = ch (applied m) \/ (ch (applied m + 1) = h /\ h = ch (applied m) + 1)).
          { rewrite (ch_succ _ _ _ _ He). cbn [ch_step]. destruct (h =? ch (applied m) + 1) eqn:E3; [right|left; reflexivity].
            apply N.eqb_eq in E3. split; [reflexivity|exact E3]. }
          unfold MI. cbn. split; [destruct Hstep as [->|[-> Hh]]; lia|]. split; [exact Hb|].
          exists k, v. split; [exact Htop0|]. intro Hoff. destruct (Hv2 Hoff) as [Hl|Hr]; [left; exact Hl|right].
          destruct Hstep as [->|[_ Hh]]; [exact Hr|lia].
  Qed.

  (** entries with consecutive indices taken from the log *)
  Fixpoint consec (lo : N) (es : list (N * entry)) : Prop :=
    match es with
    | [] => True
    | (i, e) :: t => i = lo /\ entry_at lg i = Some e /\ consec (lo + 1) t
    end.

  Lemma seg_consec cnt : forall lo, consec lo (seg lg lo cnt).
  Proof.
    induction cnt as [|n IH]; intro lo; cbn [seg consec]; [exact I|].
    destruct (entry_at lg lo) eqn:E; cbn [consec]; [|exact I].
    split; [reflexivity|]. split; [exact E|]. replace (lo + 1) with (N.succ lo) by lia. apply IH.
  Qed.

  Lemma consec_skipn k : forall lo es, consec lo es -> consec (lo + N.of_nat k) (skipn k es).
  Proof.
    induction k as [|k IH]; intros lo es H; cbn [skipn].
    - replace (lo + N.of_nat 0) with lo by lia. exact H.
    - destruct es as [|[i e] t]; [exact I|]. cbn [consec] in H. destruct H as [_ [_ Ht]].
      replace (lo + N.of_nat (S k)) with (lo + 1 + N.of_nat k) by lia. apply IH. exact Ht.
  Qed.

  Lemma entries_to_apply_consec m lo all :
    lo <= applied m + 1 -> consec lo all -> consec (applied m + 1) (entries_to_apply m lo all).
  Proof.
    intros Hlo Hc. unfold entries_to_apply.
    destruct (applied m + 1 - lo <? N.of_nat (length all)); [|exact I].
    replace (applied m + 1) with (lo + N.of_nat (N.to_nat (applied m + 1 - lo))) at 1 by lia.
    apply consec_skipn. exact Hc.
  Qed.

  Definition idx_in (lo hi : N) (ib : N * blk) : Prop := lo < fst ib /\ fst ib <= hi.

  Lemma publish_ok es : forall m m' evs,
    safe -> MI m -> consec (applied m + 1) es -> publish c m es = (m', evs) ->
    MI m' /\ same_frame m m' /\ Forall acc evs /\ contig_from (lastExec m) (map snd evs)
    /\ lastExec m' = lastExec m + N.of_nat (length evs) /\ applied m <= applied m'
    /\ Forall (idx_in (applied m) (applied m')) evs.
  Proof.
    induction es as [|[i e] t IH]; intros m m' evs Hsafe HMI Hc Hp.
    - cbn [publish] in Hp. inversion Hp; subst. cbn.
      split; [exact HMI|]. split; [repeat split|]. split; [constructor|]. split; [exact I|].
      split; [lia|]. split; [lia|constructor].
    - cbn [consec] in Hc. destruct Hc as [Hi [He Ht]].
      cbn [publish] in Hp. destruct (publish1 c m (i, e)) as [m1 o1] eqn:E1.
      destruct (publish c m1 t) as [m2 o2] eqn:E2. inversion Hp; subst m' evs. clear Hp.
      destruct (publish1_ok m i e m1 o1 Hsafe HMI Hi He E1) as [HMI1 [Hap [[Hf1 [Hf2 Hf3]] Hev]]].
      assert (Ht' : consec (applied m1 + 1) t) by (rewrite Hap, Hi; exact Ht).
      destruct (IH m1 m2 o2 Hsafe HMI1 Ht' E2) as [HMI2 [[Hg1 [Hg2 Hg3]] [Hacc [Hcon [Hle [Hap2 Hidx]]]]]].
      split; [exact HMI2|]. split; [repeat split; congruence|].
      assert (Hidx' : Forall (idx_in (applied m) (applied m2)) o2).
      { eapply Forall_impl; [|exact Hidx]. intros a [H1 H2]. split; lia. }
      destruct Hev as [[-> Hl]|[h [txs [-> [Ha [Hh Hl]]]]]].
      + cbn [app]. rewrite <- Hl. repeat split; try assumption; lia.
      + cbn [app map contig_from length snd fst]. rewrite Hl in *. repeat split.
        * constructor; assumption.
        * exact Hh.
        * rewrite <- Hh. exact Hcon.
        * lia.
        * lia.
        * constructor; [|exact Hidx']. split; cbn [fst]; lia.
  Qed.

  (** ** Contiguity needs no hypothesis at all: it holds for every flag setting and every log *)
  Lemma publish1_contig m ie m' evs : publish1 c m ie = (m', evs) ->
    contig_from (lastExec m) (map snd evs) /\ lastExec m' = lastExec m + N.of_nat (length evs).
  Proof.
    destruct ie as [idx e]. unfold publish1. destruct e as [|h txs].
    - intro H; inversion H; subst; cbn; split; [exact I|lia].
    - destruct (idx <=? bai_top (bai m)); [intro H; inversion H; subst; cbn; split; [exact I|lia]|].
      destruct (h =? lastExec m + 1) eqn:E; cbn [negb]; intro H; inversion H; subst; cbn; [|split; [exact I|lia]].
      apply N.eqb_eq in E. split; [split; [exact E|exact I]|lia].
  Qed.

  Lemma contig_from_app l1 : forall cc l2, contig_from cc l1 -> contig_from (cc + N.of_nat (length l1)) l2 ->
    contig_from cc (l1 ++ l2).
  Proof.
    induction l1 as [|x t IH]; intros cc l2 H1 H2; cbn [app length] in *.
    - replace (cc + N.of_nat 0) with cc in H2 by lia. exact H2.
    - cbn [contig_from] in *. destruct H1 as [Hx Ht]. split; [exact Hx|]. apply IH; [exact Ht|].
      replace (cc + 1 + N.of_nat (length t)) with (cc + N.of_nat (S (length t))) by lia. exact H2.
  Qed.

  Lemma publish_contig es : forall m m' evs, publish c m es = (m', evs) ->
    contig_from (lastExec m) (map snd evs) /\ lastExec m' = lastExec m + N.of_nat (length evs).
  Proof.
    induction es as [|ie t IH]; intros m m' evs Hp; cbn [publish] in Hp.
    - inversion Hp; subst. cbn. split; [exact I|lia].
    - destruct (publish1 c m ie) as [m1 o1] eqn:E1. destruct (publish c m1 t) as [m2 o2] eqn:E2.
      inversion Hp; subst m' evs. clear Hp.
      destruct (publish1_contig _ _ _ _ E1) as [H1 H2]. destruct (IH _ _ _ E2) as [H3 H4].
      rewrite map_app, app_length. split; [|lia].
      apply contig_from_app; [exact H1|]. rewrite map_length, <- H2. exact H3.
  Qed.

  Lemma leader_change_frame m lead :
    lastExec (leader_change c m lead) = lastExec m /\ applied (leader_change c m lead) = applied m
    /\ bai (leader_change c m lead) = bai m /\ snapIdx (leader_change c m lead) = snapIdx m.
  Proof. unfold leader_change. destruct lead as [l|]; [destruct (l =? leader m)|]; cbn; repeat split. Qed.

  Lemma after_elected_frame m st :
    lastExec (after_elected m st) = lastExec m /\ applied (after_elected m st) = applied m
    /\ bai (after_elected m st) = bai m /\ snapIdx (after_elected m st) = snapIdx m.
  Proof. unfold after_elected. destruct (justElected m); cbn; repeat split. Qed.

  Lemma contig_from_i_spec bs : forall cc, contig_from_i cc bs = true -> contig_from cc (map snd bs).
  Proof.
    induction bs as [|b t IH]; intros cc H; cbn [contig_from_i map contig_from] in *; [exact I|].
    apply andb_true_iff in H. destruct H as [H1 H2]. apply N.eqb_eq in H1. split; [exact H1|apply IH; exact H2].
  Qed.

  Lemma acc_b_spec ib : acc_b (c_init c) lg ib = true -> acc ib.
  Proof.
    destruct ib as [idx [h txs]]. unfold acc_b, OrderProofs.acc. intro H.
    apply andb_true_iff in H. destruct H as [H1 H2]. apply N.leb_le in H1.
    destruct (entry_at lg idx) as [e|] eqn:E; [|discriminate].
    destruct e as [|h' txs']; [discriminate|].
    rewrite !andb_true_iff in H2. destruct H2 as [[Ha Hb] Hc].
    apply N.eqb_eq in Ha. apply N.eqb_eq in Hc. apply (list_eqb_spec N.eqb N_eqb_spec2) in Hb. subst h' txs'.
    split; [exact H1|]. split; [reflexivity|exact Hc].
  Qed.

  Lemma sync_ok_spec from to bs : sync_ok (c_init c) lg from to bs = true ->
    Forall acc bs /\ contig_from from (map snd bs) /\ from + N.of_nat (length bs) = to.
  Proof.
    unfold sync_ok. intro H. apply andb_true_iff in H. destruct H as [H H3]. apply andb_true_iff in H. destruct H as [H1 H2].
    split; [|split; [apply contig_from_i_spec; exact H2|apply N.eqb_eq; exact H3]].
    apply Forall_forall. intros ib Hin. apply acc_b_spec. rewrite forallb_forall in H1. exact (H1 ib Hin).
  Qed.

  Definition shadow_ok (sh : shadow) (s : rsys) : Prop :=
    sh_cur sh = lastExec (mem s) /\ sh_chain sh = chain (ex s) /\ sh_queue sh = map snd (queue (ex s)).

  Lemma shadow_default sh s s' (o : rout) op :
    shadow_ok sh s ->
    (match op with OExec | OCrash _ => False | _ => True end) ->
    lastExec (mem s') = lastExec (mem s) + N.of_nat (length (o_ev o)) ->
    chain (ex s') = chain (ex s) -> queue (ex s') = queue (ex s) ++ o_ev o ->
    shadow_ok (shadow_step sh op (obs_of s' o)) s'.
  Proof.
    intros [H1 [H2 H3]] Hop Hl Hc Hq.
    assert (E : shadow_step sh op (obs_of s' o) =
                {| sh_cur := sh_cur sh + N.of_nat (length (b_ev (obs_of s' o))); sh_chain := sh_chain sh;
                   sh_queue := sh_queue sh ++ b_ev (obs_of s' o) |}).
    { destruct op; try reflexivity; contradiction. }
    rewrite E. unfold shadow_ok. cbn. rewrite map_length, Hl, Hc, Hq, map_app, H1, H2, H3. repeat split.
  Qed.

  Lemma rstep_shadow sh s op s' o :
    shadow_ok sh s -> rstep d c lg s op = Some (s', o) ->
    contig_from (match op with OCrash _ => sh_chain sh | _ => sh_cur sh end) (b_ev (obs_of s' o))
    /\ shadow_ok (shadow_step sh op (obs_of s' o)) s'.
  Proof.
    intros Hsh Hst. pose proof Hsh as [H1 [H2 H3]]. destruct op; cbn [rstep] in Hst.
    - (* OAppend *)
      destruct (avail s <? N.of_nat (length lg)); [|discriminate]. inversion Hst; subst s' o. clear Hst.
      split; [exact I|]. apply (shadow_default sh s); cbn; try exact I; try reflexivity; try assumption; try lia.
      rewrite app_nil_r. reflexivity.
    - (* OReady *)
      destruct ((1 <=? lo) && (lo <=? applied (mem s) + 1) && (hi <=? app) && (app <=? avail s)
                && (stored (disk s) <=? app) && (lo <=? hi + 1)); [|discriminate].
      destruct (publish c (leader_change c (mem s) lead)
                  (entries_to_apply (leader_change c (mem s) lead) lo (seg lg lo (N.to_nat (hi + 1 - lo))))) as [m1 evs] eqn:Ep.
      inversion Hst; subst s' o. clear Hst.
      destruct (publish_contig _ _ _ _ Ep) as [Hc Hl].
      destruct (leader_change_frame (mem s) lead) as [Hf1 _].
      destruct (after_elected_frame m1 app) as [Hg1 _].
      rewrite Hf1 in Hc, Hl.
      split.
      + cbn. rewrite H1. exact Hc.
      + apply (shadow_default sh s); try exact I; try assumption; cbn; try reflexivity.
        destruct ((c_snap c <=? applied (after_elected m1 app) - snapIdx (after_elected m1 app)) &&
                  snap_guard d (after_elected m1 app) (ex s)); cbn; rewrite Hg1; exact Hl.
    - (* OExec *)
      destruct (queue (ex s)) as [|[i [h t]] q] eqn:Eq.
      + inversion Hst; subst s' o. clear Hst. split; [exact I|].
        unfold shadow_step. rewrite H3; try rewrite Eq; cbn. exact Hsh.
      + inversion Hst; subst s' o. clear Hst. split; [exact I|].
        unfold shadow_step. rewrite H3; try rewrite Eq; cbn. unfold shadow_ok. cbn. repeat split. exact H1.
    - (* OReport *)
      destruct (report_allowed d (ex s) h); [|discriminate].
      destruct (alookup N.eqb h (bai (mem s))).
      + inversion Hst; subst s' o. clear Hst. split; [exact I|].
        apply (shadow_default sh s); cbn; try exact I; try reflexivity; try assumption; try lia. rewrite app_nil_r. reflexivity.
      + inversion Hst; subst s' o. clear Hst. split; [exact I|].
        apply (shadow_default sh s); cbn; try exact I; try reflexivity; try assumption; try lia. rewrite app_nil_r. reflexivity.
    - (* OCrash *)
      match type of Hst with (if ?cnd then _ else _) = _ => destruct cnd eqn:Ec; [|discriminate] end.
      inversion Hst; subst s' o. clear Hst.
      assert (Hcon : contig_from (chain (ex s)) (map snd bs)).
      { destruct (negb (d_snapin_lost d) && (chain (ex s) <? dsnapH (disk s))).
        - destruct (sync_ok_spec _ _ _ Ec) as [_ [Hc _]]. exact Hc.
        - destruct bs; [exact I|discriminate]. }
      split; [cbn; rewrite H2; exact Hcon|].
      unfold shadow_step, shadow_ok. cbn. rewrite map_length, H2. repeat split.
    - (* OSnapIn *)
      match type of Hst with (if ?cnd then _ else _) = _ => destruct cnd eqn:Ec; [|discriminate] end.
      rewrite !andb_true_iff in Ec. destruct Ec as [[[[_ _] _] Hok] _].
      destruct (sync_ok_spec _ _ _ Hok) as [_ [Hc Hlen]].
      inversion Hst; subst s' o. clear Hst.
      split; [cbn; rewrite H1; exact Hc|].
      apply (shadow_default sh s); try exact I; try assumption; cbn; try reflexivity.
      match goal with |- lastExec (after_elected ?m ?a) = _ => destruct (after_elected_frame m a) as [Hg _]; rewrite Hg end.
      reflexivity.
    - (* OPropose *)
      destruct (leader (mem s) =? c_id c).
      + inversion Hst; subst s' o. clear Hst. split; [exact I|].
        apply (shadow_default sh s); cbn; try exact I; try reflexivity; try assumption; try lia. rewrite app_nil_r. reflexivity.
      + destruct (k =? 0); [|discriminate]. inversion Hst; subst s' o. clear Hst. split; [exact I|].
        apply (shadow_default sh s); cbn; try exact I; try reflexivity; try assumption; try lia. rewrite app_nil_r. reflexivity.
    - (* ONop *)
      inversion Hst; subst s' o. clear Hst. split; [exact I|].
      apply (shadow_default sh s); cbn; try exact I; try reflexivity; try assumption; try lia. rewrite app_nil_r. reflexivity.
  Qed.

  Lemma rrun_contiguous ops : forall s sh tr,
    shadow_ok sh s -> rrun d c lg s ops = Some tr -> contiguous sh ops tr.
  Proof.
    induction ops as [|op ops IH]; intros s sh tr Hsh Hr; cbn [rrun] in Hr.
    - inversion Hr; subst. exact I.
    - destruct (rstep d c lg s op) as [[s' o]|] eqn:Es; [|discriminate].
      destruct (rrun d c lg s' ops) as [tr'|] eqn:Er; [|discriminate]. inversion Hr; subst tr. clear Hr.
      destruct (rstep_shadow sh s op s' o Hsh Es) as [Hc Hsh'].
      cbn [contiguous]. split; [exact Hc|]. eapply IH; [exact Hsh'|exact Er].
  Qed.

  (** ** The system invariant (needs: repaired restart or a log without entries from the future;
      no snapshot ahead of execution; start-up fetches what a received snapshot still lacks) *)
  Definition QI (m : rmem) (x : rexec) : Prop :=
    Forall acc (queue x) /\ contig_from (chain x) (map snd (queue x))
    /\ lastExec m = chain x + N.of_nat (length (queue x)).

  Definition DI (s : rsys) : Prop :=
    ch (persisted (disk s)) <= chain (ex s)
    /\ ((ch (dsnap (disk s)) <= chain (ex s) /\ dsnapH (disk s) <= chain (ex s))
        \/ ch (dsnap (disk s)) = dsnapH (disk s))
    /\ snapIdx (mem s) = dsnap (disk s)
    /\ ch (chainIdx (ex s)) = chain (ex s).

  Definition Inv (s : rsys) : Prop := MI (mem s) /\ QI (mem s) (ex s) /\ DI s.

  Definition repaired_rest : Prop := d_snap_unexecuted d = false /\ d_snapin_lost d = false.
  (** the glue assumption: ReportState(h) reaches the node only after block h is durable *)
  Definition glue_ok : Prop := d_report_early d = false.

  Lemma MI_frame m m' : lastExec m' = lastExec m -> applied m' = applied m -> bai m' = bai m -> MI m -> MI m'.
  Proof. unfold MI. intros -> -> ->. tauto. Qed.

  Lemma Inv_init : Inv (init_sys d c).
  Proof.
    unfold Inv, init_sys, MI, QI, DI, restart_mem. cbn.
    split; [|split].
    - split; [unfold Order.ch; cbn; lia|]. split.
      + intros kv [<-|[]]. cbn. destruct (d_restart_height_only d); unfold Order.ch; cbn; lia.
      + exists (c_init c). eexists. split.
        * split; [cbn; rewrite N.eqb_refl; reflexivity|]. intros kv [<-|[]]. cbn. lia.
        * intros ->. left. reflexivity.
    - split; [constructor|]. split; [exact I|lia].
    - unfold Order.ch. cbn. split; [lia|]. split; [left; split; lia|]. split; reflexivity.
  Qed.

  Lemma rstep_inv s op s' o :
    safe -> repaired_rest -> glue_ok -> Inv s -> rstep d c lg s op = Some (s', o) ->
    Inv s' /\ Forall acc (o_ev o).
  Proof.
    intros Hsafe [Hns Hni] Hglue [HMI [HQI HDI]] Hst.
    pose proof HQI as [Hq1 [Hq2 Hq3]]. pose proof HDI as [Hd1 [Hd2 [Hd3 Hd4]]].
    destruct op; cbn [rstep] in Hst.
    - (* OAppend *)
      destruct (avail s <? N.of_nat (length lg)); [|discriminate]. inversion Hst; subst s' o. clear Hst.
      split; [|constructor]. unfold Inv. cbn. auto.
    - (* OReady *)
      destruct ((1 <=? lo) && (lo <=? applied (mem s) + 1) && (hi <=? app) && (app <=? avail s)
                && (stored (disk s) <=? app) && (lo <=? hi + 1)) eqn:Eg; [|discriminate].
      assert (Hlo : lo <= applied (mem s) + 1) by (rewrite !andb_true_iff in Eg; lia).
      set (m0 := leader_change c (mem s) lead) in *.
      destruct (leader_change_frame (mem s) lead) as [Hf1 [Hf2 [Hf3 Hf4]]]. fold m0 in Hf1, Hf2, Hf3, Hf4.
      assert (HMI0 : MI m0) by (apply (MI_frame (mem s)); assumption).
      destruct (publish c m0 (entries_to_apply m0 lo (seg lg lo (N.to_nat (hi + 1 - lo))))) as [m1 evs] eqn:Ep.
      assert (Hcons : consec (applied m0 + 1) (entries_to_apply m0 lo (seg lg lo (N.to_nat (hi + 1 - lo))))).
      { apply entries_to_apply_consec; [rewrite Hf2; exact Hlo | apply seg_consec]. }
      destruct (publish_ok _ _ _ _ Hsafe HMI0 Hcons Ep) as [HMI1 [[Hs1 [Hs2 Hs3]] [Hacc [Hcon [Hle [Hap Hidx]]]]]].
      destruct (after_elected_frame m1 app) as [Hg1 [Hg2 [Hg3 Hg4]]].
      set (m2 := after_elected m1 app) in *.
      assert (HMI2 : MI m2) by (apply (MI_frame m1); assumption).
      inversion Hst; subst s' o. clear Hst. cbn [o_ev]. split; [|exact Hacc].
      unfold Inv. cbn [mem ex disk]. split; [|split].
      + destruct ((c_snap c <=? applied m2 - snapIdx m2) && snap_guard d m2 (ex s)); [|exact HMI2].
        apply (MI_frame m2); try reflexivity. exact HMI2.
      + unfold QI. cbn [queue chain]. split; [apply Forall_app; split; assumption|]. split.
        * rewrite map_app. apply contig_from_app; [exact Hq2|]. rewrite map_length, <- Hq3, <- Hf1. exact Hcon.
        * rewrite app_length.
          assert (lastExec m2 = chain (ex s) + N.of_nat (length (queue (ex s)) + length evs)) by lia.
          destruct ((c_snap c <=? applied m2 - snapIdx m2) && snap_guard d m2 (ex s)); cbn [lastExec]; exact H.
      + unfold DI. cbn [persisted dsnap dsnapH chain chainIdx disk ex mem].
        destruct ((c_snap c <=? applied m2 - snapIdx m2) && snap_guard d m2 (ex s)) eqn:Esn; cbn [snapIdx].
        * apply andb_true_iff in Esn. destruct Esn as [_ Hgd]. unfold snap_guard in Hgd. rewrite Hns in Hgd.
          apply N.leb_le in Hgd. destruct HMI2 as [Ha _].
          split; [exact Hd1|]. split; [left; split; lia|]. split; [reflexivity|exact Hd4].
        * split; [exact Hd1|]. split; [exact Hd2|]. split; [congruence|exact Hd4].
    - (* OExec *)
      destruct (queue (ex s)) as [|[i [h t]] q] eqn:Eq.
      + inversion Hst; subst s' o. clear Hst. split; [|constructor]. unfold Inv. rewrite ?Eq. auto.
      + inversion Hst; subst s' o. clear Hst. split; [|constructor].
        inversion Hq1 as [|? ? Ha Hq']; subst. cbn [map snd contig_from fst] in Hq2. destruct Hq2 as [Hh Hq2].
        pose proof (acc_ch _ _ _ _ _ Ha) as Hch.
        unfold Inv, QI, DI. cbn. split; [exact HMI|]. split.
        * split; [exact Hq'|]. split; [rewrite Hh; exact Hq2|]. cbn [length] in Hq3. lia.
        * split; [lia|]. split; [destruct Hd2 as [[H1 H2]|H]; [left; split; lia|right; exact H]|]. split; assumption.
    - (* OReport *)
      destruct (report_allowed d (ex s) h) eqn:Eh; [|discriminate]. apply (report_allowed_ok _ _ _ Hglue) in Eh.
      destruct (alookup N.eqb h (bai (mem s))) as [i|] eqn:El.
      + inversion Hst; subst s' o. clear Hst. split; [|constructor].
        destruct HMI as [Ha [Hb [k [v [[Hv Hall] Hx]]]]].
        pose proof (Hb _ (alookup_in _ _ _ El)) as [Hk1 Hk2]. cbn [fst snd] in Hk1, Hk2.
        pose proof (Hall _ (alookup_in _ _ _ El)) as Hk3. cbn [fst] in Hk3.
        unfold Inv, MI, QI, DI. cbn. split; [|split].
        * split; [exact Ha|]. destruct (h =? 0) eqn:E0.
          -- split; [exact Hb|]. exists k, v. split; [split; assumption|exact Hx].
          -- apply N.eqb_neq in E0. split.
             ++ intros kv Hin. apply Hb. eapply in_aremove. exact Hin.
             ++ exists k, v. split; [|exact Hx]. split.
                ** rewrite alookup_aremove_ne; [exact Hv|lia].
                ** intros kv Hin. apply Hall. eapply in_aremove. exact Hin.
        * auto.
        * split; [lia|]. split; [exact Hd2|]. split; assumption.
      + inversion Hst; subst s' o. clear Hst. split; [|constructor]. unfold Inv. auto.
    - (* OCrash *)
      match type of Hst with (if ?cnd then _ else _) = _ => destruct cnd eqn:Ec; [|discriminate] end.
      inversion Hst; subst s' o. clear Hst. cbn [o_ev]. rewrite Hni in Ec. cbn [negb andb] in Ec.
      destruct (chain (ex s) <? dsnapH (disk s)) eqn:Er.
      + (* the repaired start-up fetches chain+1 .. dsnapH *)
        apply N.ltb_lt in Er. destruct (sync_ok_spec _ _ _ Ec) as [Hacc [Hcon Hlen]].
        assert (Hsn : ch (dsnap (disk s)) = dsnapH (disk s)) by (destruct Hd2 as [[_ H]|H]; [lia|exact H]).
        split; [|exact Hacc].
        unfold Inv, MI, QI, DI, restart_mem. cbn. split; [|split].
        * split; [lia|]. split.
          -- intros kv [<-|[]]. cbn. destruct (d_restart_height_only d); lia.
          -- exists (chain (ex s)). eexists. split.
             ++ split; [cbn; rewrite N.eqb_refl; reflexivity|]. intros kv [<-|[]]. cbn. lia.
             ++ intros _. right. lia.
        * split; [exact Hacc|]. split; [exact Hcon|lia].
        * split; [exact Hd1|]. split; [exact Hd2|]. split; [reflexivity|exact Hd4].
      + apply N.ltb_ge in Er. destruct bs as [|b0 bs]; [|discriminate]. split; [|constructor].
        unfold Inv, MI, QI, DI, restart_mem. cbn. rewrite N.add_0_r. split; [|split].
        * split; [destruct Hd2 as [[H1 H2]|H]; lia|]. split.
          -- intros kv [<-|[]]. cbn. destruct (d_restart_height_only d); lia.
          -- exists (chain (ex s)). eexists. split.
             ++ split; [cbn; rewrite N.eqb_refl; reflexivity|]. intros kv [<-|[]]. cbn. lia.
             ++ intros ->. left. exact Hd4.
        * split; [constructor|]. split; [exact I|lia].
        * split; [exact Hd1|]. split; [exact Hd2|]. split; [reflexivity|exact Hd4].
    - (* OSnapIn *)
      match type of Hst with (if ?cnd then _ else _) = _ => destruct cnd eqn:Ec; [|discriminate] end.
      rewrite !andb_true_iff in Ec. destruct Ec as [[[[Hi1 Hi2] Hi3] Hok] _].
      destruct (sync_ok_spec _ _ _ Hok) as [Hacc [Hcon Hlen]].
      inversion Hst; subst s' o. clear Hst. cbn [o_ev]. split; [|exact Hacc].
      match goal with |- Inv {| mem := after_elected ?m ?a; disk := _; ex := _; avail := _ |} =>
        destruct (after_elected_frame m a) as [Hg1 [Hg2 [Hg3 Hg4]]]; set (m1 := m) in * end.
      destruct HMI as [Ha [Hb [k [v [Htop Hx]]]]].
      assert (HMI1 : MI m1).
      { unfold MI, m1. cbn. split; [lia|]. split.
        - intros kv Hin. specialize (Hb kv Hin). lia.
        - exists k, v. split; [exact Htop|]. intros _. right. lia. }
      unfold Inv. cbn [mem ex disk]. split; [|split].
      + apply (MI_frame m1); assumption.
      + unfold QI. cbn [queue chain]. split; [apply Forall_app; split; assumption|]. split.
        * rewrite map_app. apply contig_from_app; [exact Hq2|]. rewrite map_length, <- Hq3. exact Hcon.
        * rewrite app_length, Hg1. unfold m1. cbn. lia.
      + unfold DI. cbn [persisted dsnap dsnapH chain chainIdx disk ex mem]. unfold m1 in *. cbn in *.
        split; [exact Hd1|]. split; [right; lia|]. split; [exact Hg4|exact Hd4].
    - (* OPropose *)
      destruct (leader (mem s) =? c_id c).
      + inversion Hst; subst s' o. clear Hst. split; [|constructor].
        unfold Inv. cbn. split; [apply (MI_frame (mem s)); try reflexivity; exact HMI|]. split; [exact HQI|exact HDI].
      + destruct (k =? 0); [|discriminate]. inversion Hst; subst s' o. clear Hst. split; [|constructor]. unfold Inv. auto.
    - (* ONop *)
      inversion Hst; subst s' o. clear Hst. split; [|constructor]. unfold Inv. auto.
  Qed.

  Lemma rstep_chain s op s' o : rstep d c lg s op = Some (s', o) ->
    (op = OExec /\ exists i h t q, queue (ex s) = (i, (h, t)) :: q /\ chain (ex s') = h)
    \/ (chain (ex s') = chain (ex s) /\ (op = OExec -> queue (ex s) = [])).
  Proof.
    intro Hst. destruct op; cbn [rstep] in Hst.
    - destruct (avail s <? N.of_nat (length lg)); [|discriminate]. inversion Hst; subst. right. split; [reflexivity|discriminate].
    - destruct ((1 <=? lo) && (lo <=? applied (mem s) + 1) && (hi <=? app) && (app <=? avail s)
                && (stored (disk s) <=? app) && (lo <=? hi + 1)); [|discriminate].
      destruct (publish c (leader_change c (mem s) lead)
                  (entries_to_apply (leader_change c (mem s) lead) lo (seg lg lo (N.to_nat (hi + 1 - lo))))) as [m1 evs].
      inversion Hst; subst. right. split; [reflexivity|discriminate].
    - destruct (queue (ex s)) as [|[i [h t]] q] eqn:Eq.
      + inversion Hst; subst. right. split; [reflexivity|intros _; reflexivity].
      + inversion Hst; subst. left. split; [reflexivity|]. exists i, h, t, q. split; reflexivity.
    - destruct (report_allowed d (ex s) h); [|discriminate].
      destruct (alookup N.eqb h (bai (mem s))); inversion Hst; subst; right; (split; [reflexivity|discriminate]).
    - match type of Hst with (if ?cnd then _ else _) = _ => destruct cnd; [|discriminate] end.
      inversion Hst; subst. right. split; [reflexivity|discriminate].
    - match type of Hst with (if ?cnd then _ else _) = _ => destruct cnd; [|discriminate] end.
      inversion Hst; subst. right. split; [reflexivity|discriminate].
    - destruct (leader (mem s) =? c_id c); [inversion Hst; subst; right; split; [reflexivity|discriminate]|].
      destruct (k =? 0); [|discriminate]. inversion Hst; subst. right. split; [reflexivity|discriminate].
    - inversion Hst; subst. right. split; [reflexivity|discriminate].
  Qed.

  Lemma rrun_inv ops : forall s sh tr,
    safe -> repaired_rest -> glue_ok -> Inv s -> shadow_ok sh s -> rrun d c lg s ops = Some tr ->
    Forall (is_canon (c_init c) lg) (all_events tr)
    /\ Forall (st_noskip (c_init c) lg) tr
    /\ Forall (is_canon (c_init c) lg) (executed sh ops tr)
    /\ contig_from (chain (ex s)) (executed sh ops tr).
  Proof.
    induction ops as [|op ops IH]; intros s sh tr Hsafe Hns Hgl HInv Hsh Hr; cbn [rrun] in Hr.
    - inversion Hr; subst. cbn. repeat split; constructor.
    - destruct (rstep d c lg s op) as [[s' o]|] eqn:Es; [|discriminate].
      destruct (rrun d c lg s' ops) as [tr'|] eqn:Er; [|discriminate]. inversion Hr; subst tr. clear Hr.
      destruct (rstep_inv s op s' o Hsafe Hns Hgl HInv Es) as [HInv' Hacc].
      destruct (rstep_shadow sh s op s' o Hsh Es) as [_ Hsh'].
      destruct (IH s' _ tr' Hsafe Hns Hgl HInv' Hsh' Er) as [I1 [I2 [I3 I4]]].
      split; [|split; [|]].
      + unfold all_events. cbn [flat_map]. apply Forall_app. split; [|exact I1].
        cbn [obs_of b_ev]. apply Forall_forall. intros b Hb. apply in_map_iff in Hb. destruct Hb as [ib [<- Hib]].
        apply acc_is_canon. rewrite Forall_forall in Hacc. apply Hacc. exact Hib.
      + constructor; [|exact I2]. unfold st_noskip. cbn [obs_of b_st].
        destruct HInv' as [[Ha _] _]. exact Ha.
      + cbn [executed].
        destruct (rstep_chain s op s' o Es) as [[Hop [i [h [t [q [Eq Hc]]]]]]|[Hc Hq]].
        * subst op. destruct Hsh as [_ [_ Hsq]]. rewrite Hsq, Eq. cbn [map snd].
          destruct HInv as [_ [[Hq1 [Hq2 _]] _]]. rewrite Eq in Hq1, Hq2.
          inversion Hq1 as [|? ? Ha _]; subst. cbn [map snd contig_from fst] in Hq2. destruct Hq2 as [Hh _].
          split.
          -- constructor; [|exact I3]. apply (acc_is_canon _ _ _ Ha).
          -- cbn [contig_from fst]. split; [exact Hh|]. rewrite <- Hh. exact I4.
        * assert (E : match op, sh_queue sh with
                      | OExec, b :: _ => b :: executed (shadow_step sh op (obs_of s' o)) ops tr'
                      | _, _ => executed (shadow_step sh op (obs_of s' o)) ops tr'
                      end = executed (shadow_step sh op (obs_of s' o)) ops tr').
          { destruct op; try reflexivity. destruct Hsh as [_ [_ Hsq]]. rewrite Hsq, (Hq eq_refl). reflexivity. }
          rewrite E. split; [exact I3|]. rewrite <- Hc. exact I4.
  Qed.

  Lemma shadow_init_ok : shadow_ok (shadow_init (c_init c)) (init_sys d c).
  Proof. unfold shadow_ok, shadow_init, init_sys, restart_mem. cbn. repeat split. Qed.

  (** ** Theorems on runs from the initial state *)
  Theorem contiguous_all ops tr :
    rrun d c lg (init_sys d c) ops = Some tr -> contiguous (shadow_init (c_init c)) ops tr.
  Proof. apply rrun_contiguous. apply shadow_init_ok. Qed.

  Theorem canonical_all ops tr :
    safe -> repaired_rest -> glue_ok ->
    rrun d c lg (init_sys d c) ops = Some tr -> canonical (c_init c) lg tr.
  Proof.
    intros Hs Hn Hg Hr. destruct (rrun_inv ops _ _ tr Hs Hn Hg Inv_init shadow_init_ok Hr) as [H _]. exact H.
  Qed.

  Theorem none_skipped_all ops tr :
    safe -> repaired_rest -> glue_ok ->
    rrun d c lg (init_sys d c) ops = Some tr -> none_skipped (c_init c) lg tr.
  Proof.
    intros Hs Hn Hg Hr. destruct (rrun_inv ops _ _ tr Hs Hn Hg Inv_init shadow_init_ok Hr) as [_ [H _]]. exact H.
  Qed.

  Theorem executed_prefix ops tr :
    safe -> repaired_rest -> glue_ok ->
    rrun d c lg (init_sys d c) ops = Some tr ->
    is_prefix (executed (shadow_init (c_init c)) ops tr) (canon_blocks (c_init c) lg).
  Proof.
    intros Hs Hn Hg Hr. destruct (rrun_inv ops _ _ tr Hs Hn Hg Inv_init shadow_init_ok Hr) as [_ [_ [H1 H2]]].
    apply (contig_prefix _ (c_init c)); [exact H2 | apply canon_blocks_contig|].
    intros b Hb. rewrite Forall_forall in H1. exact (H1 b Hb).
  Qed.
End Raft.

(** * Replayed entries of executed blocks are never handed over again (trace-level consequence
    of contiguity: it holds for the implementation's trace as soon as [contiguous] does) *)
Definition sh_wf (sh : shadow) : Prop :=
  contig_from (sh_chain sh) (sh_queue sh) /\ sh_cur sh = sh_chain sh + N.of_nat (length (sh_queue sh)).

Lemma above_executed_b_spec ops : forall sh tr, above_executed_b sh ops tr = true <-> above_executed sh ops tr.
Proof.
  induction ops as [|op ops IH]; intros sh tr; cbn [above_executed_b above_executed]; [tauto|].
  destruct tr as [|o tr]; [tauto|].
  rewrite andb_true_iff, IH, forallb_forall, Forall_forall.
  split; intros [H1 H2]; (split; [|exact H2]); intros x Hx; apply N.ltb_lt; apply H1; exact Hx.
Qed.

Lemma sh_wf_step sh op o :
  sh_wf sh -> contig_from (match op with OCrash _ => sh_chain sh | _ => sh_cur sh end) (b_ev o) ->
  sh_wf (shadow_step sh op o).
Proof.
  intros [H1 H2] Hc.
  assert (Hdef : (match op with OCrash _ | OExec => True | _ => False end) \/
                 sh_wf {| sh_cur := sh_cur sh + N.of_nat (length (b_ev o)); sh_chain := sh_chain sh;
                          sh_queue := sh_queue sh ++ b_ev o |}).
  { destruct op; try (left; exact I); right; unfold sh_wf; cbn; rewrite app_length;
      (split; [apply contig_from_app; [exact H1|rewrite <- H2; exact Hc] | lia]). }
  destruct op; cbn [shadow_step]; try (destruct Hdef as [[]|Hd]; exact Hd).
  - (* OExec *)
    destruct (sh_queue sh) as [|b q] eqn:Eq; [unfold sh_wf; rewrite Eq; split; assumption|].
    unfold sh_wf. cbn. cbn [contig_from] in H1. destruct H1 as [Hb Hq]. cbn [length] in H2.
    split; [rewrite Hb; exact Hq|lia].
  - (* OCrash *)
    unfold sh_wf. cbn. split; [exact Hc|lia].
Qed.

Lemma contiguous_above ops : forall sh tr, sh_wf sh -> contiguous sh ops tr -> above_executed sh ops tr.
Proof.
  induction ops as [|op ops IH]; intros sh tr Hwf Hc; cbn [above_executed]; [exact I|].
  destruct tr as [|o tr]; [exact I|]. cbn [contiguous] in Hc. destruct Hc as [Hc1 Hc2].
  split.
  - apply Forall_forall. intros b Hb.
    pose proof (contig_from_gt _ _ Hc1 b Hb) as Hgt. destruct Hwf as [_ Hcur]. destruct op; lia.
  - apply IH; [apply sh_wf_step; assumption | exact Hc2].
Qed.

Lemma sh_wf_init init : sh_wf (shadow_init init).
Proof. unfold sh_wf, shadow_init. cbn. split; [exact I|lia]. Qed.

Theorem above_executed_all d c lg ops tr :
  rrun d c lg (init_sys d c) ops = Some tr -> above_executed (shadow_init (c_init c)) ops tr.
Proof. intro H. apply contiguous_above; [apply sh_wf_init | eapply contiguous_all; exact H]. Qed.

(** * Replicas applying the same log *)
Theorem same_content d c1 c2 lg ops1 ops2 tr1 tr2 :
  c_init c1 = c_init c2 -> safe d c1 lg -> repaired_rest d -> glue_ok d ->
  rrun d c1 lg (init_sys d c1) ops1 = Some tr1 -> rrun d c2 lg (init_sys d c2) ops2 = Some tr2 ->
  forall a b, In a (all_events tr1) -> In b (all_events tr2) -> fst a = fst b -> a = b.
Proof.
  intros Hi Hs Hn Hg H1 H2 a b Ha Hb Hab.
  assert (Hs2 : safe d c2 lg) by (unfold safe in *; rewrite <- Hi; exact Hs).
  pose proof (canonical_all d c1 lg ops1 tr1 Hs Hn Hg H1) as C1.
  pose proof (canonical_all d c2 lg ops2 tr2 Hs2 Hn Hg H2) as C2.
  unfold canonical in *. rewrite Forall_forall in C1, C2. rewrite <- Hi in C2.
  eapply canon_functional; [apply C1; exact Ha | apply C2; exact Hb | exact Hab].
Qed.

(** * A transaction in at most one delivered block — under the hypothesis that the batches in the log
    are pairwise disjoint and duplicate-free *)
Lemma canon_from_sub l : forall cc i b, In b (map snd (canon_from cc i l)) -> In b (log_blocks l).
Proof.
  induction l as [|e t IH]; intros cc i b Hin; cbn [canon_from log_blocks] in *; [exact Hin|].
  destruct e as [|h txs]; [eapply IH; exact Hin|].
  destruct (h =? cc + 1).
  - cbn [map snd In] in Hin. destruct Hin as [<-|Hin]; [left; reflexivity | right; eapply IH; exact Hin].
  - right. eapply IH. exact Hin.
Qed.

Lemma log_disjoint_pair l : log_tx_disjoint_l l -> forall a b, In a l -> In b l -> a <> b ->
  forall x, In x (snd a) -> ~ In x (snd b).
Proof.
  induction l as [|y t IH]; intros Hd a b Ha Hb Hne x Hxa Hxb; [destruct Ha|].
  cbn [log_tx_disjoint_l] in Hd. destruct Hd as [_ [Hy Ht]]. rewrite Forall_forall in Hy.
  destruct Ha as [->|Ha], Hb as [->|Hb].
  - contradiction.
  - exact (Hy b Hb x Hxa Hxb).
  - exact (Hy a Ha x Hxb Hxa).
  - exact (IH Ht a b Ha Hb Hne x Hxa Hxb).
Qed.

Lemma log_disjoint_nodup l : log_tx_disjoint_l l -> forall a, In a l -> NoDup (snd a).
Proof.
  induction l as [|y t IH]; intros Hd a Ha; [destruct Ha|].
  cbn [log_tx_disjoint_l] in Hd. destruct Hd as [Hn [_ Ht]].
  destruct Ha as [->|Ha]; [exact Hn | exact (IH Ht a Ha)].
Qed.

Theorem tx_once_of_canonical init lg tr :
  log_tx_disjoint lg -> canonical init lg tr -> tx_once tr.
Proof.
  intros Hd Hc. unfold tx_once, canonical in *. induction (all_events tr) as [|b t IH]; cbn [tx_once_l]; [exact I|].
  inversion Hc as [|? ? Hb Ht]; subst.
  assert (Hbl : In b (log_blocks lg)) by (eapply canon_from_sub; exact Hb).
  split; [eapply log_disjoint_nodup; [exact Hd|exact Hbl]|]. split; [|apply IH; exact Ht].
  apply Forall_forall. intros b' Hb'. rewrite Forall_forall in Ht. specialize (Ht b' Hb').
  unfold blk_compat. destruct (N.eq_dec (fst b) (fst b')) as [E|E]; [left; exact E|right].
  apply (log_disjoint_pair _ Hd b b' Hbl); [eapply canon_from_sub; exact Ht|]. intro Heq. subst. contradiction.
Qed.

(** * Each log entry is handed over at most once per incarnation (ghost indices) *)
Fixpoint increasing_after (a : N) (l : list N) : Prop :=
  match l with [] => True | x :: t => a < x /\ increasing_after x t end.

Lemma increasing_after_weaken l : forall a a', a' <= a -> increasing_after a l -> increasing_after a' l.
Proof. destruct l as [|x t]; intros a a' Hle H; cbn in *; [exact I|]. destruct H; split; [lia|assumption]. Qed.

Section Once.
  Variable c : rcfg.
  Variable lg : rlog.

  Lemma publish1_once m idx e m' evs : publish1 c m (idx, e) = (m', evs) ->
    applied m' = idx /\ (evs = [] \/ exists b, evs = [(idx, b)])
    /\ justElected m' = justElected m /\ leader m' = leader m /\ snapIdx m' = snapIdx m.
  Proof.
    unfold publish1. destruct e as [|h txs].
    - intro H; inversion H; subst; cbn; auto 6.
    - destruct (idx <=? bai_top (bai m)); [intro H; inversion H; subst; cbn; auto 6|].
      destruct (negb (h =? lastExec m + 1)); intro H; inversion H; subst; cbn; [auto 6|].
      split; [reflexivity|]. split; [right; eexists; reflexivity|auto].
  Qed.

  Lemma publish_once es : forall m m' evs,
    consec lg (applied m + 1) es -> publish c m es = (m', evs) ->
    increasing_after (applied m) (map fst evs) /\ applied m <= applied m'
    /\ Forall (fun i => i <= applied m') (map fst evs)
    /\ justElected m' = justElected m /\ leader m' = leader m /\ snapIdx m' = snapIdx m.
  Proof.
    induction es as [|[i e] t IH]; intros m m' evs Hc Hp; cbn [publish] in Hp.
    - inversion Hp; subst. cbn. repeat split; try constructor; lia.
    - cbn [consec] in Hc. destruct Hc as [Hi [_ Ht]].
      destruct (publish1 c m (i, e)) as [m1 o1] eqn:E1. destruct (publish c m1 t) as [m2 o2] eqn:E2.
      inversion Hp; subst m' evs. clear Hp.
      destruct (publish1_once _ _ _ _ _ E1) as [Hap [Hev [Hj [Hl Hs]]]].
      assert (Ht' : consec lg (applied m1 + 1) t) by (rewrite Hap, Hi; exact Ht).
      destruct (IH _ _ _ Ht' E2) as [Hinc [Hle [Hall [Hj2 [Hl2 Hs2]]]]].
      rewrite Hap in Hinc, Hle.
      split; [|split; [lia|split; [|repeat split; congruence]]].
      + destruct Hev as [->|[b ->]]; cbn [app map fst increasing_after].
        * eapply increasing_after_weaken; [|exact Hinc]. lia.
        * split; [lia|exact Hinc].
      + destruct Hev as [->|[b ->]]; cbn [app map fst]; [exact Hall|]. constructor; [lia|exact Hall].
  Qed.
End Once.

Theorem ready_entry_once d c lg s lo hi app lead s' o :
  rstep d c lg s (OReady lo hi app lead) = Some (s', o) ->
  increasing_after (applied (mem s)) (map fst (o_ev o))
  /\ Forall (fun i => i <= applied (mem s')) (map fst (o_ev o))
  /\ applied (mem s) <= applied (mem s').
Proof.
  cbn [rstep]. destruct ((1 <=? lo) && (lo <=? applied (mem s) + 1) && (hi <=? app) && (app <=? avail s)
                && (stored (disk s) <=? app) && (lo <=? hi + 1)) eqn:Eg; [|discriminate].
  assert (Hlo : lo <= applied (mem s) + 1) by (rewrite !andb_true_iff in Eg; lia).
  destruct (leader_change_frame c (mem s) lead) as [_ [Hf2 _]].
  set (m0 := leader_change c (mem s) lead) in *.
  destruct (publish c m0 (entries_to_apply m0 lo (seg lg lo (N.to_nat (hi + 1 - lo))))) as [m1 evs] eqn:Ep.
  intro H. inversion H; subst s' o. clear H. cbn [o_ev mem].
  assert (Hcons : consec lg (applied m0 + 1) (entries_to_apply m0 lo (seg lg lo (N.to_nat (hi + 1 - lo))))).
  { apply entries_to_apply_consec; [rewrite Hf2; exact Hlo | apply seg_consec]. }
  destruct (publish_once c lg _ _ _ _ Hcons Ep) as [Hinc [Hle [Hall _]]].
  destruct (after_elected_frame m1 app) as [_ [Hg2 _]].
  rewrite Hf2 in Hinc, Hle.
  assert (Hap : applied (if (c_snap c <=? applied (after_elected m1 app) - snapIdx (after_elected m1 app)) &&
                            snap_guard d (after_elected m1 app) (ex s)
                         then {| lastExec := lastExec (after_elected m1 app); applied := applied (after_elected m1 app);
                                 snapIdx := applied (after_elected m1 app); bai := bai (after_elected m1 app);
                                 justElected := justElected (after_elected m1 app); leader := leader (after_elected m1 app);
                                 seqNo := seqNo (after_elected m1 app) |}
                         else after_elected m1 app) = applied m1).
  { destruct ((c_snap c <=? applied (after_elected m1 app) - snapIdx (after_elected m1 app)) &&
              snap_guard d (after_elected m1 app) (ex s)); cbn; exact Hg2. }
  rewrite Hap. split; [exact Hinc|]. split; [exact Hall|exact Hle].
Qed.

(** within an incarnation the applied index never goes back *)
Theorem applied_mono d c lg s op s' o :
  rstep d c lg s op = Some (s', o) -> (forall bs, op <> OCrash bs) -> applied (mem s) <= applied (mem s').
Proof.
  intros Hst Hne. destruct op; try (exfalso; eapply Hne; reflexivity).
  - cbn [rstep] in Hst. destruct (avail s <? N.of_nat (length lg)); [|discriminate]. inversion Hst; subst. cbn. lia.
  - destruct (ready_entry_once _ _ _ _ _ _ _ _ _ _ Hst) as [_ [_ H]]. exact H.
  - cbn [rstep] in Hst. destruct (queue (ex s)) as [|[i [h t]] q]; inversion Hst; subst; cbn; lia.
  - cbn [rstep] in Hst. destruct (report_allowed d (ex s) h); [|discriminate].
    destruct (alookup N.eqb h (bai (mem s))); inversion Hst; subst; cbn; lia.
  - cbn [rstep] in Hst.
    match type of Hst with (if ?cnd then _ else _) = _ => destruct cnd eqn:Ec; [|discriminate] end.
    rewrite !andb_true_iff in Ec. destruct Ec as [[[[Hi1 _] _] _] _]. apply N.ltb_lt in Hi1.
    inversion Hst; subst. cbn [mem].
    match goal with |- _ <= applied (after_elected ?m ?a) => destruct (after_elected_frame m a) as [_ [Hg _]]; rewrite Hg end.
    cbn. lia.
  - cbn [rstep] in Hst. destruct (leader (mem s) =? c_id c); [inversion Hst; subst; cbn; lia|].
    destruct (k =? 0); [|discriminate]. inversion Hst; subst. lia.
  - cbn [rstep] in Hst. inversion Hst; subst. lia.
Qed.

(** * Leader change: the Ready in which the replica learns that it is the leader resets the batch
    sequence number to lastExec; justElected stays set exactly while stored entries are in flight *)
Theorem new_leader_seq d c lg s lo hi app l s' o :
  rstep d c lg s (OReady lo hi app (Some l)) = Some (s', o) ->
  l = c_id c -> l <> leader (mem s) ->
  seqNo (mem s') = lastExec (mem s') /\ leader (mem s') = c_id c
  /\ justElected (mem s') = (applied (mem s') + 1 <? app).
Proof.
  cbn [rstep]. destruct ((1 <=? lo) && (lo <=? applied (mem s) + 1) && (hi <=? app) && (app <=? avail s)
                && (stored (disk s) <=? app) && (lo <=? hi + 1)) eqn:Eg; [|discriminate].
  assert (Hlo : lo <= applied (mem s) + 1) by (rewrite !andb_true_iff in Eg; lia).
  intros H Hl Hne.
  assert (Hm0 : justElected (leader_change c (mem s) (Some l)) = true /\ leader (leader_change c (mem s) (Some l)) = c_id c
                /\ applied (leader_change c (mem s) (Some l)) = applied (mem s)).
  { unfold leader_change. destruct (l =? leader (mem s)) eqn:E; [apply N.eqb_eq in E; contradiction|].
    cbn. subst l. rewrite N.eqb_refl. auto. }
  destruct Hm0 as [Hj0 [Hl0 Ha0]].
  set (m0 := leader_change c (mem s) (Some l)) in *.
  destruct (publish c m0 (entries_to_apply m0 lo (seg lg lo (N.to_nat (hi + 1 - lo))))) as [m1 evs] eqn:Ep.
  assert (Hcons : consec lg (applied m0 + 1) (entries_to_apply m0 lo (seg lg lo (N.to_nat (hi + 1 - lo))))).
  { apply entries_to_apply_consec; [rewrite Ha0; exact Hlo | apply seg_consec]. }
  destruct (publish_once c lg _ _ _ _ Hcons Ep) as [_ [_ [_ [Hj1 [Hl1 _]]]]].
  inversion H; subst s' o. clear H. cbn [mem].
  assert (Hae : after_elected m1 app =
                {| lastExec := lastExec m1; applied := applied m1; snapIdx := snapIdx m1; bai := bai m1;
                   justElected := (applied m1 + 1 <? app); leader := leader m1; seqNo := lastExec m1 |}).
  { unfold after_elected. rewrite Hj1, Hj0. reflexivity. }
  rewrite Hae. cbn.
  destruct ((c_snap c <=? applied m1 - snapIdx m1) && snap_guard d _ (ex s)); cbn; rewrite Hl1, Hl0; auto.
Qed.

(** * Solo *)
Definition sshadow_ok (sh : shadow) (s : ssys) : Prop :=
  sh_cur sh = s_last (sm s) /\ sh_chain sh = s_chain s /\ sh_queue sh = s_queue s.

Lemma s_propose_ok m h txs m' ev r : s_propose m h txs = (m', ev, r) ->
  contig_from (s_last m) ev /\ s_last m' = s_last m + N.of_nat (length ev).
Proof.
  unfold s_propose. destruct (s_dead m); [intro H; inversion H; subst; cbn; split; [exact I|lia]|].
  destruct (h =? s_last m + 1) eqn:E; intro H; inversion H; subst; cbn; [|split; [exact I|lia]].
  apply N.eqb_eq in E. split; [split; [exact E|exact I]|lia].
Qed.

Lemma sstep_shadow d sh s op s' ev r :
  sshadow_ok sh s -> sstep d s op = (s', ev, r) ->
  contig_from (match op with SCrash => sh_chain sh | _ => sh_cur sh end) ev
  /\ sshadow_ok (sshadow_step sh op (sobs_of s' (Some op) ev r)) s'.
Proof.
  intros [H1 [H2 H3]] Hst. destruct op; cbn [sstep] in Hst.
  - (* STx *)
    destruct (s_stuck (sm s) || mem_N id (s_seen (sm s))).
    + inversion Hst; subst. split; [exact I|]. unfold sshadow_ok, sshadow_step. cbn. rewrite app_nil_r. repeat split; try assumption; lia.
    + match type of Hst with context [s_propose ?m ?h ?t] => destruct (s_propose m h t) as [[m2 ev2] r2] eqn:Ep end.
      inversion Hst; subst. destruct (s_propose_ok _ _ _ _ _ _ Ep) as [Hc Hl]. cbn in Hc, Hl.
      split; [rewrite H1; exact Hc|]. unfold sshadow_ok, sshadow_step. cbn. rewrite H1, H2, H3, Hl. repeat split.
  - (* SInject *)
    destruct (s_propose (sm s) h txs) as [[m2 ev2] r2] eqn:Ep. inversion Hst; subst.
    destruct (s_propose_ok _ _ _ _ _ _ Ep) as [Hc Hl].
    split; [rewrite H1; exact Hc|]. unfold sshadow_ok, sshadow_step. cbn. rewrite H1, H2, H3, Hl. repeat split.
  - (* SExec *)
    destruct (s_queue s) as [|b q] eqn:Eq.
    + inversion Hst; subst. split; [exact I|]. unfold sshadow_step. rewrite H3. unfold sshadow_ok. rewrite ?Eq. repeat split; assumption.
    + inversion Hst; subst. split; [exact I|]. unfold sshadow_step. rewrite H3. unfold sshadow_ok. cbn. repeat split. exact H1.
  - (* SReport *)
    destruct (s_stuck (sm s)); [inversion Hst; subst; split; [exact I|]; unfold sshadow_ok, sshadow_step; cbn; rewrite app_nil_r; repeat split; try assumption; lia|].
    destruct (d_solo_commit10 d && negb (h mod 10 =? 0)); inversion Hst; subst; (split; [exact I|]);
      unfold sshadow_ok, sshadow_step; cbn; rewrite app_nil_r; repeat split; try assumption; lia.
  - (* SCrash *)
    inversion Hst; subst. split; [exact I|]. unfold sshadow_ok, sshadow_step. cbn. repeat split; exact H2.
Qed.

Theorem solo_contiguous_all d ops : forall s sh,
  sshadow_ok sh s -> solo_contiguous sh ops (srun d s ops).
Proof.
  induction ops as [|op ops IH]; intros s sh Hsh; cbn [srun solo_contiguous]; [exact I|].
  destruct (sstep d s op) as [[s' ev] r] eqn:Es.
  destruct (sstep_shadow d sh s op s' ev r Hsh Es) as [Hc Hsh'].
  cbn [solo_contiguous]. split; [exact Hc|]. apply IH. exact Hsh'.
Qed.

Lemma sshadow_init_ok init : sshadow_ok (shadow_init init) (init_ssys init).
Proof. unfold sshadow_ok, shadow_init, init_ssys. cbn. repeat split. Qed.

(** with the repaired commit, every report the node takes removes the block's transactions *)
Lemma in_remove_all xs l x : In x (remove_all xs l) -> mem_N x xs = false.
Proof.
  induction l as [|y t IH]; cbn [remove_all]; [intros []|].
  destruct (mem_N y xs) eqn:E; [exact IH|]. cbn [In]. intros [<-|H]; [exact E|exact (IH H)].
Qed.

Lemma filter_none {A} (f : A -> bool) l : (forall x, In x l -> f x = false) -> filter f l = [].
Proof.
  induction l as [|x t IH]; intro H; cbn [filter]; [reflexivity|].
  rewrite (H x (or_introl eq_refl)). apply IH. intros y Hy. apply H. right. exact Hy.
Qed.

Lemma count_held_remove xs held : count_held xs (remove_all xs held) = 0.
Proof.
  unfold count_held. rewrite filter_none; [reflexivity|].
  intros x Hx. destruct (mem_N x (remove_all xs held)) eqn:E; [|reflexivity].
  apply mem_N_spec in E. apply in_remove_all in E. apply mem_N_spec in Hx. congruence.
Qed.

Theorem solo_commits_all d ops : d_solo_commit10 d = false -> forall s, solo_commits ops (srun d s ops).
Proof.
  intro Hd. unfold solo_commits. induction ops as [|op ops IH]; intro s; cbn [srun]; [constructor|].
  destruct (sstep d s op) as [[s' ev] r] eqn:Es. constructor; [|apply IH].
  destruct op; cbn [sobs_of so_still]; try reflexivity.
  cbn [sstep] in Es. destruct (s_stuck (sm s)); [inversion Es; subst; reflexivity|].
  rewrite Hd in Es. cbn [andb] in Es. inversion Es; subst. cbn. apply count_held_remove.
Qed.

Lemma solo_commits_b_spec ops tr : solo_commits_b ops tr = true <-> solo_commits ops tr.
Proof.
  unfold solo_commits_b, solo_commits. rewrite forallb_forall, Forall_forall.
  split; intros H x Hx; apply N.eqb_eq; apply H; exact Hx.
Qed.

(** * C20_new_leader_seq as a trace predicate *)
Lemma publish_leader c es : forall m m' evs, publish c m es = (m', evs) -> leader m' = leader m.
Proof.
  induction es as [|[i e] t IH]; intros m m' evs Hp; cbn [publish] in Hp; [inversion Hp; reflexivity|].
  destruct (publish1 c m (i, e)) as [m1 o1] eqn:E1. destruct (publish c m1 t) as [m2 o2] eqn:E2.
  inversion Hp; subst. destruct (publish1_once c _ _ _ _ _ E1) as [_ [_ [_ [Hl _]]]].
  rewrite (IH _ _ _ E2). exact Hl.
Qed.

Lemma rstep_leader d c lg s op s' o : rstep d c lg s op = Some (s', o) ->
  leader (mem s') = next_leader (leader (mem s)) op (obs_of s' o).
Proof.
  intro Hst. destruct op; cbn [rstep] in Hst; cbn [next_leader].
  - destruct (avail s <? N.of_nat (length lg)); [|discriminate]. inversion Hst; subst. reflexivity.
  - destruct ((1 <=? lo) && (lo <=? applied (mem s) + 1) && (hi <=? app) && (app <=? avail s)
              && (stored (disk s) <=? app) && (lo <=? hi + 1)); [|discriminate].
    destruct (publish c (leader_change c (mem s) lead)
                (entries_to_apply (leader_change c (mem s) lead) lo (seg lg lo (N.to_nat (hi + 1 - lo))))) as [m1 evs] eqn:Ep.
    inversion Hst; subst s' o. clear Hst. cbn [mem].
    pose proof (publish_leader _ _ _ _ _ Ep) as Hl.
    assert (Hae : leader (after_elected m1 app) = leader m1) by (unfold after_elected; destruct (justElected m1); reflexivity).
    assert (Hlc : leader (leader_change c (mem s) lead) = match lead with Some l => l | None => leader (mem s) end).
    { unfold leader_change. destruct lead as [l|]; [|reflexivity]. destruct (l =? leader (mem s)) eqn:E; [|reflexivity].
      apply N.eqb_eq in E. congruence. }
    destruct ((c_snap c <=? applied (after_elected m1 app) - snapIdx (after_elected m1 app)) &&
              snap_guard d (after_elected m1 app) (ex s)); cbn [leader]; rewrite Hae, Hl, Hlc; destruct lead; reflexivity.
  - destruct (queue (ex s)) as [|[i [h t]] q]; inversion Hst; subst; reflexivity.
  - destruct (report_allowed d (ex s) h); [|discriminate].
    destruct (alookup N.eqb h (bai (mem s))); inversion Hst; subst; reflexivity.
  - match type of Hst with (if ?cnd then _ else _) = _ => destruct cnd; [|discriminate] end.
    inversion Hst; subst. reflexivity.
  - match type of Hst with (if ?cnd then _ else _) = _ => destruct cnd; [|discriminate] end.
    inversion Hst; subst. cbn [mem]. unfold after_elected. cbn. destruct (justElected (mem s)); reflexivity.
  - destruct (leader (mem s) =? c_id c); [inversion Hst; subst; reflexivity|].
    destruct (k =? 0); [|discriminate]. inversion Hst; subst. reflexivity.
  - inversion Hst; subst. reflexivity.
Qed.

Lemma rstep_leader_seq d c lg s op s' o : rstep d c lg s op = Some (s', o) ->
  leader_seq_step (c_id c) (leader (mem s)) op (obs_of s' o).
Proof.
  intro Hst. destruct op; cbn [leader_seq_step]; try exact I.
  destruct lead as [l|]; [|exact I]. intros Hl Hne.
  destruct (new_leader_seq d c lg s lo hi app l s' o Hst Hl Hne) as [Hseq _].
  cbn [obs_of b_st nth_error]. rewrite Hseq. reflexivity.
Qed.

Theorem leader_seq_run d c lg ops : forall s tr,
  rrun d c lg s ops = Some tr -> leader_seq (c_id c) (leader (mem s)) ops tr.
Proof.
  induction ops as [|op ops IH]; intros s tr Hr; cbn [rrun] in Hr; [inversion Hr; exact I|].
  destruct (rstep d c lg s op) as [[s' o]|] eqn:Es; [|discriminate].
  destruct (rrun d c lg s' ops) as [tr'|] eqn:Er; [|discriminate]. inversion Hr; subst tr. clear Hr.
  cbn [leader_seq]. split; [eapply rstep_leader_seq; exact Es|].
  rewrite <- (rstep_leader _ _ _ _ _ _ _ Es). apply IH. exact Er.
Qed.

Theorem leader_seq_all d c lg ops tr :
  rrun d c lg (init_sys d c) ops = Some tr -> leader_seq (c_id c) 0 ops tr.
Proof. intro H. exact (leader_seq_run d c lg ops (init_sys d c) tr H). Qed.

Lemma leader_seq_b_spec id ops : forall pl tr, leader_seq_b id pl ops tr = true <-> leader_seq id pl ops tr.
Proof.
  induction ops as [|op ops IH]; intros pl tr; cbn [leader_seq_b leader_seq]; [tauto|].
  destruct tr as [|o tr]; [tauto|]. rewrite andb_true_iff, IH.
  assert (Hs : leader_seq_step_b id pl op o = true <-> leader_seq_step id pl op o).
  { unfold leader_seq_step_b, leader_seq_step. destruct op; try tauto. destruct lead as [l|]; [|tauto].
    rewrite !orb_true_iff, negb_true_iff, N.eqb_neq, N.eqb_eq.
    destruct (b_st o) as [|le r] eqn:Eb.
    - split; [intros _ _ _; exact I | intros _; right; reflexivity].
    - destruct (nth_error (le :: r) 6) as [x|] eqn:En.
      + rewrite N.eqb_eq. split.
        * intros [[H|H]|H] Hl Hne; try contradiction. subst x. reflexivity.
        * intro H. destruct (N.eq_dec l id) as [E1|E1]; [|left; left; exact E1].
          destruct (N.eq_dec l pl) as [E2|E2]; [left; right; exact E2|].
          right. specialize (H E1 E2). inversion H. reflexivity.
      + split.
        * intros [[H|H]|H] Hl Hne; try contradiction. discriminate.
        * intro H. destruct (N.eq_dec l id) as [E1|E1]; [|left; left; exact E1].
          destruct (N.eq_dec l pl) as [E2|E2]; [left; right; exact E2|].
          specialize (H E1 E2). discriminate. }
  rewrite Hs. tauto.
Qed.

(** * The index check at equality is redundant (mutation `blockAppliedIndex >= idx` -> `>` is equivalent)

    [publish1_lt] is [publish1] with the index check [idx <? top] instead of [idx <=? top]; [rstep_lt] is
    [rstep] with it.  From the initial state both produce the same runs: the entry whose index equals the
    recorded applied index is a batch whose height is at or below lastExec, so the height check skips it. *)
Definition publish1_lt (c : rcfg) (m : rmem) (ie : N * entry) : rmem * list (N * blk) :=
  let '(idx, e) := ie in
  match e with
  | EEmpty => (set_applied m idx, [])
  | EBatch h txs =>
      if idx <? bai_top (bai m) then (set_applied m idx, [])
      else if negb (h =? lastExec m + 1) then (set_applied m idx, [])
      else ({| lastExec := h; applied := idx; snapIdx := snapIdx m; bai := aset N.eqb h idx (bai m);
               justElected := justElected m; leader := leader m;
               seqNo := if leader m =? c_id c then seqNo m else h |}, [(idx, (h, txs))])
  end.
Fixpoint publish_lt (c : rcfg) (m : rmem) (es : list (N * entry)) : rmem * list (N * blk) :=
  match es with
  | [] => (m, [])
  | ie :: t => let '(m1, o1) := publish1_lt c m ie in
               let '(m2, o2) := publish_lt c m1 t in (m2, o1 ++ o2)
  end.

Definition rstep_lt (d : Defects) (c : rcfg) (lg : rlog) (s : rsys) (op : rop) : option (rsys * rout) :=
  match op with
  | OReady lo hi app lead =>
      if (1 <=? lo) && (lo <=? applied (mem s) + 1) && (hi <=? app) && (app <=? avail s)
         && (stored (disk s) <=? app) && (lo <=? hi + 1)
      then
        let m0 := leader_change c (mem s) lead in
        let all := seg lg lo (N.to_nat (hi + 1 - lo)) in
        let '(m1, evs) := publish_lt c m0 (entries_to_apply m0 lo all) in
        let m2 := after_elected m1 app in
        let snap := (c_snap c <=? applied m2 - snapIdx m2) && snap_guard d m2 (ex s) in
        let m3 := if snap then {| lastExec := lastExec m2; applied := applied m2; snapIdx := applied m2; bai := bai m2;
                                  justElected := justElected m2; leader := leader m2; seqNo := seqNo m2 |} else m2 in
        let dk := {| persisted := persisted (disk s);
                     dsnap := if snap then applied m2 else dsnap (disk s);
                     dsnapH := if snap then lastExec m2 else dsnapH (disk s);
                     stored := app |} in
        Some ({| mem := m3; disk := dk;
                 ex := {| chain := chain (ex s); chainIdx := chainIdx (ex s); queue := queue (ex s) ++ evs |};
                 avail := avail s |},
              {| o_ev := evs; o_prop := [] |})
      else None
  | _ => rstep d c lg s op
  end.

Fixpoint rrun_lt (d : Defects) (c : rcfg) (lg : rlog) (s : rsys) (ops : list rop) : option (list robs) :=
  match ops with
  | [] => Some []
  | op :: t => match rstep_lt d c lg s op with
               | None => None
               | Some (s', o) => match rrun_lt d c lg s' t with
                                 | Some tr => Some (obs_of s' o :: tr)
                                 | None => None
                                 end
               end
  end.

Section Equiv.
  Variable d : Defects.
  Variable c : rcfg.
  Variable lg : rlog.

  (** an index that is 0 or points at a batch of height at most [k] *)
  Definition low_entry (i k : N) : Prop :=
    i = 0 \/ exists h t, entry_at lg i = Some (EBatch h t) /\ h <= k.

  Definition M2 (m : rmem) : Prop :=
    (forall kv, In kv (bai m) -> fst kv <= lastExec m /\ low_entry (snd kv) (fst kv))
    /\ exists k v, is_top (bai m) k v.

  Lemma M2_frame m m' : lastExec m' = lastExec m -> bai m' = bai m -> M2 m -> M2 m'.
  Proof. unfold M2. intros -> ->. tauto. Qed.

  Lemma M2_top m : M2 m -> low_entry (bai_top (bai m)) (lastExec m).
  Proof.
    intros [Hb [k [v [Hv Hall]]]]. rewrite (bai_top_eq _ k v Hv Hall).
    destruct (Hb _ (alookup_in _ _ _ Hv)) as [Hk [H0|[h [t [He Hh]]]]]; cbn [fst snd] in *.
    - left. exact H0.
    - right. exists h, t. split; [exact He|lia].
  Qed.

  Lemma publish1_lt_eq m idx e :
    M2 m -> 1 <= idx -> entry_at lg idx = Some e -> publish1_lt c m (idx, e) = publish1 c m (idx, e).
  Proof.
    intros HM Hi He. unfold publish1_lt, publish1. destruct e as [|h txs]; [reflexivity|].
    destruct (N.eq_dec idx (bai_top (bai m))) as [E|E].
    - rewrite <- E. rewrite N.ltb_irrefl, N.leb_refl.
      destruct (M2_top m HM) as [H0|[h' [t' [He' Hh']]]]; [lia|].
      rewrite <- E, He in He'. inversion He'; subst h' t'.
      destruct (h =? lastExec m + 1) eqn:E2; [apply N.eqb_eq in E2; lia|]. reflexivity.
    - destruct (idx <? bai_top (bai m)) eqn:E1, (idx <=? bai_top (bai m)) eqn:E2; try reflexivity; lia.
  Qed.

  Lemma publish1_M2 m idx e m' evs :
    M2 m -> entry_at lg idx = Some e -> publish1 c m (idx, e) = (m', evs) ->
    M2 m' /\ Forall (fun ib => entry_at lg (fst ib) = Some (EBatch (fst (snd ib)) (snd (snd ib)))) evs.
  Proof.
    intros HM He Hp. unfold publish1 in Hp. destruct e as [|h txs].
    - inversion Hp; subst. split; [apply (M2_frame m); try reflexivity; exact HM|constructor].
    - destruct (idx <=? bai_top (bai m)); [inversion Hp; subst; split; [apply (M2_frame m); try reflexivity; exact HM|constructor]|].
      destruct (h =? lastExec m + 1) eqn:E2; cbn [negb] in Hp;
        [|inversion Hp; subst; split; [apply (M2_frame m); try reflexivity; exact HM|constructor]].
      apply N.eqb_eq in E2. inversion Hp; subst m' evs. clear Hp. destruct HM as [Hb Htop].
      split; [|constructor; [exact He|constructor]].
      unfold M2. cbn. split.
      + intros kv Hin. apply in_aset in Hin. destruct Hin as [->|Hin]; cbn [fst snd].
        * split; [lia|]. right. exists h, txs. split; [exact He|lia].
        * destruct (Hb kv Hin) as [H1 H2]. split; [lia|exact H2].
      + exists h, idx. split; [apply alookup_aset_eq|]. intros kv Hin. apply in_aset in Hin.
        destruct Hin as [->|Hin]; cbn [fst]; [lia|]. destruct (Hb kv Hin) as [H1 _]. lia.
  Qed.

  Lemma publish_lt_eq es : forall m lo, M2 m -> 1 <= lo -> consec lg lo es ->
    publish_lt c m es = publish c m es.
  Proof.
    induction es as [|[i e] t IH]; intros m lo HM Hlo Hc; [reflexivity|].
    cbn [consec] in Hc. destruct Hc as [Hi [He Ht]]. subst i.
    cbn [publish_lt publish]. rewrite (publish1_lt_eq m lo e HM Hlo He).
    destruct (publish1 c m (lo, e)) as [m1 o1] eqn:E1.
    destruct (publish1_M2 _ _ _ _ _ HM He E1) as [HM1 _].
    rewrite (IH m1 (lo + 1) HM1 ltac:(lia) Ht). reflexivity.
  Qed.

  Lemma publish_M2 es : forall m lo m' evs, M2 m -> consec lg lo es -> publish c m es = (m', evs) ->
    M2 m' /\ Forall (fun ib => entry_at lg (fst ib) = Some (EBatch (fst (snd ib)) (snd (snd ib)))) evs.
  Proof.
    induction es as [|[i e] t IH]; intros m lo m' evs HM Hc Hp; cbn [publish] in Hp.
    - inversion Hp; subst. split; [exact HM|constructor].
    - cbn [consec] in Hc. destruct Hc as [Hi [He Ht]].
      destruct (publish1 c m (i, e)) as [m1 o1] eqn:E1. destruct (publish c m1 t) as [m2 o2] eqn:E2.
      inversion Hp; subst m' evs. clear Hp.
      destruct (publish1_M2 _ _ _ _ _ HM He E1) as [HM1 Hf1].
      destruct (IH _ _ _ _ HM1 Ht E2) as [HM2 Hf2]. split; [exact HM2|apply Forall_app; split; assumption].
  Qed.

  (** system level *)
  Definition entry_ok (ib : N * blk) : Prop := entry_at lg (fst ib) = Some (EBatch (fst (snd ib)) (snd (snd ib))).
  Definition Inv2 (s : rsys) : Prop :=
    M2 (mem s)
    /\ Forall entry_ok (queue (ex s))
    /\ contig_from (chain (ex s)) (map snd (queue (ex s)))
    /\ lastExec (mem s) = chain (ex s) + N.of_nat (length (queue (ex s)))
    /\ low_entry (persisted (disk s)) (chain (ex s))
    /\ low_entry (chainIdx (ex s)) (chain (ex s)).

  Lemma low_entry_mono i k k' : k <= k' -> low_entry i k -> low_entry i k'.
  Proof. intros Hk [H0|[h [t [He Hh]]]]; [left; exact H0|right; exists h, t; split; [exact He|lia]]. Qed.

  Lemma acc_entry_ok ib : acc (c_init c) lg ib -> entry_ok ib.
  Proof. destruct ib as [i [h t]]. intros [_ [He _]]. exact He. Qed.

  Lemma Inv2_init : Inv2 (init_sys d c).
  Proof.
    unfold Inv2, init_sys, M2, restart_mem. cbn. split; [|split; [constructor|split; [exact I|split; [lia|split; left; reflexivity]]]].
    split.
    - intros kv [<-|[]]. cbn. split; [lia|]. left. destruct (d_restart_height_only d); reflexivity.
    - exists (c_init c). eexists. split; [cbn; rewrite N.eqb_refl; reflexivity|]. intros kv [<-|[]]. cbn. lia.
  Qed.

  Lemma rstep_Inv2 s op s' o : d_report_early d = false -> Inv2 s -> rstep d c lg s op = Some (s', o) -> Inv2 s'.
  Proof.
    intros Hglue [HM [Hq [Hcon [Hlen [Hp Hci]]]]] Hst. destruct op; cbn [rstep] in Hst.
    - destruct (avail s <? N.of_nat (length lg)); [|discriminate]. inversion Hst; subst. unfold Inv2. cbn. auto 10.
    - destruct ((1 <=? lo) && (lo <=? applied (mem s) + 1) && (hi <=? app) && (app <=? avail s)
                && (stored (disk s) <=? app) && (lo <=? hi + 1)) eqn:Eg; [|discriminate].
      assert (Hlo : lo <= applied (mem s) + 1) by (rewrite !andb_true_iff in Eg; lia).
      set (m0 := leader_change c (mem s) lead) in *.
      destruct (leader_change_frame c (mem s) lead) as [Hf1 [Hf2 [Hf3 Hf4]]]. fold m0 in Hf1, Hf2, Hf3, Hf4.
      assert (HM0 : M2 m0) by (apply (M2_frame (mem s)); assumption).
      destruct (publish c m0 (entries_to_apply m0 lo (seg lg lo (N.to_nat (hi + 1 - lo))))) as [m1 evs] eqn:Ep.
      assert (Hcons : consec lg (applied m0 + 1) (entries_to_apply m0 lo (seg lg lo (N.to_nat (hi + 1 - lo))))).
      { apply entries_to_apply_consec; [rewrite Hf2; exact Hlo | apply seg_consec]. }
      destruct (publish_M2 _ _ _ _ _ HM0 Hcons Ep) as [HM1 Hev].
      destruct (publish_contig c _ _ _ _ Ep) as [Hc1 Hl1].
      destruct (after_elected_frame m1 app) as [Hg1 [Hg2 [Hg3 Hg4]]].
      inversion Hst; subst s' o. clear Hst. unfold Inv2. cbn [mem ex disk queue chain chainIdx persisted].
      assert (HM2 : M2 (after_elected m1 app)) by (apply (M2_frame m1); assumption).
      split; [destruct ((c_snap c <=? applied (after_elected m1 app) - snapIdx (after_elected m1 app)) &&
                        snap_guard d (after_elected m1 app) (ex s)); [apply (M2_frame (after_elected m1 app)); try reflexivity|]; exact HM2|].
      split; [apply Forall_app; split; assumption|].
      split; [rewrite map_app; apply contig_from_app; [exact Hcon|]; rewrite map_length, <- Hlen, <- Hf1; exact Hc1|].
      split; [|split; assumption].
      rewrite app_length.
      assert (lastExec (after_elected m1 app) = chain (ex s) + N.of_nat (length (queue (ex s)) + length evs)) by lia.
      destruct ((c_snap c <=? applied (after_elected m1 app) - snapIdx (after_elected m1 app)) &&
                snap_guard d (after_elected m1 app) (ex s)); cbn [lastExec]; exact H.
    - destruct (queue (ex s)) as [|[i [h t]] q] eqn:Eq.
      + inversion Hst; subst. unfold Inv2. rewrite Eq. auto 10.
      + inversion Hst; subst s' o. clear Hst. inversion Hq as [|? ? He Hq']; subst.
        cbn [map snd contig_from fst] in Hcon. destruct Hcon as [Hh Hcon]. cbn [length] in Hlen.
        unfold Inv2. cbn. split; [exact HM|]. split; [exact Hq'|]. split; [rewrite Hh; exact Hcon|]. split; [lia|].
        split; [eapply low_entry_mono; [|exact Hp]; lia|]. right. exists h, t. split; [exact He|lia].
    - destruct (report_allowed d (ex s) h) eqn:Eh; [|discriminate]. apply (report_allowed_ok _ _ _ Hglue) in Eh.
      destruct (alookup N.eqb h (bai (mem s))) as [i|] eqn:El.
      + inversion Hst; subst s' o. clear Hst. destruct HM as [Hb [k [v [Hv Hall]]]].
        destruct (Hb _ (alookup_in _ _ _ El)) as [Hk1 Hk2]. cbn [fst snd] in Hk1, Hk2.
        pose proof (Hall _ (alookup_in _ _ _ El)) as Hk3. cbn [fst] in Hk3.
        unfold Inv2, M2. cbn. split; [|split; [exact Hq|split; [exact Hcon|split; [exact Hlen|split; [|exact Hci]]]]].
        * destruct (h =? 0) eqn:E0; [split; [exact Hb|exists k, v; split; assumption]|].
          apply N.eqb_neq in E0. split.
          -- intros kv Hin. apply Hb. eapply in_aremove. exact Hin.
          -- exists k, v. split; [rewrite alookup_aremove_ne; [exact Hv|lia]|].
             intros kv Hin. apply Hall. eapply in_aremove. exact Hin.
        * eapply low_entry_mono; [|exact Hk2]. lia.
      + inversion Hst; subst. unfold Inv2. auto 10.
    - match type of Hst with (if ?cnd then _ else _) = _ => destruct cnd eqn:Ec; [|discriminate] end.
      inversion Hst; subst s' o. clear Hst.
      assert (Hbs : Forall entry_ok bs /\ contig_from (chain (ex s)) (map snd bs)).
      { destruct (negb (d_snapin_lost d) && (chain (ex s) <? dsnapH (disk s))).
        - destruct (sync_ok_spec c lg _ _ _ Ec) as [Ha [Hc _]]. split; [|exact Hc].
          eapply Forall_impl; [|exact Ha]. intros a Ha'. apply acc_entry_ok. exact Ha'.
        - destruct bs; [split; [constructor|exact I]|discriminate]. }
      destruct Hbs as [Hb1 Hb2].
      unfold Inv2, M2, restart_mem. cbn. split; [|split; [exact Hb1|split; [exact Hb2|split; [lia|split; assumption]]]].
      split.
      + intros kv [<-|[]]. cbn. split; [lia|]. destruct (d_restart_height_only d); assumption.
      + exists (chain (ex s)). eexists. split; [cbn; rewrite N.eqb_refl; reflexivity|]. intros kv [<-|[]]. cbn. lia.
    - match type of Hst with (if ?cnd then _ else _) = _ => destruct cnd eqn:Ec; [|discriminate] end.
      rewrite !andb_true_iff in Ec. destruct Ec as [[[[_ _] _] Hok] _].
      destruct (sync_ok_spec c lg _ _ _ Hok) as [Ha [Hc Hl]].
      inversion Hst; subst s' o. clear Hst.
      match goal with |- Inv2 {| mem := after_elected ?m ?a; disk := _; ex := _; avail := _ |} =>
        destruct (after_elected_frame m a) as [Hg1 [Hg2 [Hg3 Hg4]]]; set (m1 := m) in * end.
      assert (HM1 : M2 m1).
      { destruct HM as [Hb Htop]. unfold M2, m1. cbn. split; [|exact Htop].
        intros kv Hin. destruct (Hb kv Hin) as [H1 H2]. split; [lia|exact H2]. }
      unfold Inv2. cbn [mem ex disk queue chain chainIdx persisted].
      split; [apply (M2_frame m1); assumption|].
      split; [apply Forall_app; split; [exact Hq|]; eapply Forall_impl; [|exact Ha]; intros a Ha'; apply acc_entry_ok; exact Ha'|].
      split; [rewrite map_app; apply contig_from_app; [exact Hcon|]; rewrite map_length, <- Hlen; exact Hc|].
      split; [rewrite app_length, Hg1; unfold m1; cbn; lia|split; assumption].
    - destruct (leader (mem s) =? c_id c).
      + inversion Hst; subst. unfold Inv2. cbn. split; [apply (M2_frame (mem s)); try reflexivity; exact HM|auto 10].
      + destruct (k =? 0); [|discriminate]. inversion Hst; subst. unfold Inv2. auto 10.
    - inversion Hst; subst. unfold Inv2. auto 10.
  Qed.

  Lemma rstep_lt_eq s op : Inv2 s -> rstep_lt d c lg s op = rstep d c lg s op.
  Proof.
    intros [HM _]. destruct op; try reflexivity. cbn [rstep_lt rstep].
    destruct ((1 <=? lo) && (lo <=? applied (mem s) + 1) && (hi <=? app) && (app <=? avail s)
              && (stored (disk s) <=? app) && (lo <=? hi + 1)) eqn:Eg; [|reflexivity].
    assert (Hlo : lo <= applied (mem s) + 1) by (rewrite !andb_true_iff in Eg; lia).
    destruct (leader_change_frame c (mem s) lead) as [Hf1 [Hf2 [Hf3 Hf4]]].
    assert (HM0 : M2 (leader_change c (mem s) lead)) by (apply (M2_frame (mem s)); assumption).
    rewrite (publish_lt_eq _ _ (applied (leader_change c (mem s) lead) + 1) HM0 ltac:(lia)); [reflexivity|].
    apply entries_to_apply_consec; [rewrite Hf2; exact Hlo | apply seg_consec].
  Qed.

  Theorem rrun_lt_eq ops : d_report_early d = false -> forall s, Inv2 s -> rrun_lt d c lg s ops = rrun d c lg s ops.
  Proof.
    intro Hg. induction ops as [|op ops IH]; intros s HI; [reflexivity|]. cbn [rrun_lt rrun].
    rewrite (rstep_lt_eq s op HI). destruct (rstep d c lg s op) as [[s' o]|] eqn:Es; [|reflexivity].
    rewrite (IH s' (rstep_Inv2 _ _ _ _ Hg HI Es)). reflexivity.
  Qed.

  Theorem index_check_equality_redundant ops :
    d_report_early d = false ->
    rrun_lt d c lg (init_sys d c) ops = rrun d c lg (init_sys d c) ops.
  Proof. intro Hg. apply rrun_lt_eq; [exact Hg|apply Inv2_init]. Qed.
End Equiv.

(** * The glue assumption on traces *)
Lemma reports_durable_b_spec ops : forall sh tr, reports_durable_b sh ops tr = true <-> reports_durable sh ops tr.
Proof.
  induction ops as [|op ops IH]; intros sh tr; cbn [reports_durable_b reports_durable]; [tauto|].
  destruct tr as [|o tr]; [tauto|]. rewrite andb_true_iff, IH.
  destruct op; try tauto. rewrite N.leb_le. tauto.
Qed.

Lemma rrun_reports_durable d c lg ops : d_report_early d = false -> forall s sh tr,
  shadow_ok sh s -> rrun d c lg s ops = Some tr -> reports_durable sh ops tr.
Proof.
  intro Hg. induction ops as [|op ops IH]; intros s sh tr Hsh Hr; cbn [rrun] in Hr; [inversion Hr; exact I|].
  destruct (rstep d c lg s op) as [[s' o]|] eqn:Es; [|discriminate].
  destruct (rrun d c lg s' ops) as [tr'|] eqn:Er; [|discriminate]. inversion Hr; subst tr. clear Hr.
  destruct (rstep_shadow d c lg sh s op s' o Hsh Es) as [_ Hsh'].
  cbn [reports_durable]. split; [|eapply IH; [exact Hsh'|exact Er]].
  destruct op; try exact I. cbn [rstep] in Es.
  destruct (report_allowed d (ex s) h) eqn:Eh; [|discriminate].
  apply (report_allowed_ok _ _ _ Hg) in Eh. destruct Hsh as [_ [H2 _]]. rewrite H2. exact Eh.
Qed.

Theorem reports_durable_all d c lg ops tr : d_report_early d = false ->
  rrun d c lg (init_sys d c) ops = Some tr -> reports_durable (shadow_init (c_init c)) ops tr.
Proof. intros Hg Hr. eapply rrun_reports_durable; [exact Hg|apply shadow_init_ok|exact Hr]. Qed.

(** * The commit queue is a FIFO with blocking hand-over: what a step hands over is appended to the
    queue in publish order, and the executor takes the head.  (The observations [b_ev] of a trace are the
    events in the order the consumer takes them from [Order.Commit()]; the lagging-consumer histories of
    the check compare that order with this one.) *)
Theorem queue_fifo d c lg s op s' o : rstep d c lg s op = Some (s', o) ->
  match op with
  | OExec => queue (ex s') = tl (queue (ex s)) /\ o_ev o = []
  | OCrash _ => queue (ex s') = o_ev o
  | _ => queue (ex s') = queue (ex s) ++ o_ev o
  end.
Proof.
  intro Hst. destruct op; cbn [rstep] in Hst.
  - destruct (avail s <? N.of_nat (length lg)); [|discriminate]. inversion Hst; subst. cbn. rewrite app_nil_r. reflexivity.
  - destruct ((1 <=? lo) && (lo <=? applied (mem s) + 1) && (hi <=? app) && (app <=? avail s)
              && (stored (disk s) <=? app) && (lo <=? hi + 1)); [|discriminate].
    destruct (publish c (leader_change c (mem s) lead)
                (entries_to_apply (leader_change c (mem s) lead) lo (seg lg lo (N.to_nat (hi + 1 - lo))))) as [m1 evs].
    inversion Hst; subst. reflexivity.
  - destruct (queue (ex s)) as [|[i [h t]] q] eqn:Eq; inversion Hst; subst; cbn; rewrite ?Eq; split; reflexivity.
  - destruct (report_allowed d (ex s) h); [|discriminate].
    destruct (alookup N.eqb h (bai (mem s))); inversion Hst; subst; cbn; rewrite app_nil_r; reflexivity.
  - match type of Hst with (if ?cnd then _ else _) = _ => destruct cnd; [|discriminate] end.
    inversion Hst; subst. reflexivity.
  - match type of Hst with (if ?cnd then _ else _) = _ => destruct cnd; [|discriminate] end.
    inversion Hst; subst. reflexivity.
  - destruct (leader (mem s) =? c_id c); [inversion Hst; subst; cbn; rewrite app_nil_r; reflexivity|].
    destruct (k =? 0); [|discriminate]. inversion Hst; subst. cbn. rewrite app_nil_r. reflexivity.
  - inversion Hst; subst. cbn. rewrite app_nil_r. reflexivity.
Qed.
