(** The timeout-list invariant: inside a block ([TMid], with the receipts accepted so far and the
    registrations still pending as ghost state) and at block boundaries. *)
From BX Require Import Base.Prelude Base.Fsm Model.TxFsm Model.TxMgr Model.Interchain Model.IbtpExec
     Proofs.TxFsmProofs Proofs.IbtpBasics Proofs.IbtpStep Proofs.IbtpTm Proofs.IbtpIc Proofs.IbtpInv Proofs.IbtpTl.
From Coq Require Import String ZifyBool ZifyN ZifyNat.
Local Open Scope N_scope.

Definition listed (t : txm) (hh : N) (x : tok) : Prop := exists l, tm_tl t hh = Some l /\ In x l.

(** both ends of the id are services of this relay chain *)
Definition both_local (w : world) (i : txid) : Prop :=
  exists sf sd, svc_lookup w (fst (fst i)) = Some sf /\ svc_lookup w (snd (fst i)) = Some sd /\
                is_local sf = true /\ is_local sd = true.

Record TMid (w : world) (t : txm) (H : N) (rcv : txid -> Prop) (pend : list (N * txid)) : Prop := {
  m_ok : forall hh l, tm_tl t hh = Some l -> tl_ok l;
  m_tx : forall hh i, H < hh -> listed t hh (TTx i) ->
                      exists s, tm_rec t i = Some (hh, s) /\ (s = ST_BEGIN \/ rcv i);
  m_pend : forall hh i, In (hh, i) pend ->
                        H + 1 < hh /\ (exists s, tm_rec t i = Some (hh, s) /\ (s = ST_BEGIN \/ rcv i)) /\
                        ~ listed t hh (TTx i);
  m_pend_nodup : NoDup (map snd pend);
  m_gid : forall hh g, H < hh -> listed t hh (TGid g) ->
                       exists gi, tm_glob t g = Some gi /\ g_state gi = ST_BEGIN /\ g_height gi = hh;
  m_local : forall hh i, (H < hh /\ listed t hh (TTx i)) \/ In (hh, i) pend -> both_local w i
}.

Definition TInv (w : world) (t : txm) (H : N) : Prop := TMid w t H (fun _ => False) [].

Lemma tinv_init w : TInv w txm_init 2.
Proof.
  constructor; unfold listed; simpl; intros; try discriminate; try contradiction; try constructor.
  all: repeat match goal with
              | H : exists _, _ |- _ => destruct H
              | H : _ /\ _ |- _ => destruct H
              | H : _ \/ _ |- _ => destruct H
              end; try discriminate; try contradiction.
Qed.

(** ** changes that leave the lists alone *)
Lemma listed_ext t t' : tm_tl t' = tm_tl t -> forall hh x, listed t' hh x <-> listed t hh x.
Proof. intros E hh x. unfold listed. rewrite E. tauto. Qed.

(** a record update on an id that is neither listed in the future nor pending, or that only moves
    its status along with a receipt *)
Lemma tmid_set_rec_fresh w t H rcv pend i v :
  TMid w t H rcv pend -> tm_rec t i = None -> TMid w (set_rec t i v) H rcv pend.
Proof.
  intros [M1 M2 M3 M4 M5 M6] Hn.
  assert (L : forall hh x, listed (set_rec t i v) hh x <-> listed t hh x) by (apply listed_ext; reflexivity).
  constructor; [exact M1 | | | exact M4 | | ].
  - intros hh j Hh Hl. apply L in Hl. destruct (M2 hh j Hh Hl) as [s [Hs Hr]].
    exists s. split; [|exact Hr]. simpl. rewrite updT_other; [exact Hs | intro; subst; congruence].
  - intros hh j Hin. destruct (M3 hh j Hin) as [A [[s [Hs Hr]] C]]. split; [exact A|]. split.
    + exists s. split; [|exact Hr]. simpl. rewrite updT_other; [exact Hs | intro; subst; congruence].
    + intro Hl. apply L in Hl. exact (C Hl).
  - intros hh g Hh Hl. apply L in Hl. exact (M5 hh g Hh Hl).
  - intros hh j [[Hh Hl] | Hp]; [apply L in Hl; apply (M6 hh j); left; auto | apply (M6 hh j); right; exact Hp].
Qed.

Lemma tmid_weaken_rcv w t H (rcv rcv' : txid -> Prop) pend :
  (forall i, rcv i -> rcv' i) -> TMid w t H rcv pend -> TMid w t H rcv' pend.
Proof.
  intros Hi [M1 M2 M3 M4 M5 M6]. constructor; [exact M1 | | | exact M4 | exact M5 | exact M6].
  - intros hh j Hh Hl. destruct (M2 hh j Hh Hl) as [s [Hs Hr]]. exists s. split; [exact Hs | destruct Hr; auto].
  - intros hh j Hin. destruct (M3 hh j Hin) as [A [[s [Hs Hr]] C]]. split; [exact A|]. split; [|exact C].
    exists s. split; [exact Hs | destruct Hr; auto].
Qed.

(** an accepted receipt moves the status of its own id only *)
Lemma tmid_set_rec_receipt w t H rcv pend i hh0 s0 s' :
  TMid w t H rcv pend -> tm_rec t i = Some (hh0, s0) ->
  TMid w (set_rec t i (hh0, s')) H (fun j => rcv j \/ j = i) pend.
Proof.
  intros [M1 M2 M3 M4 M5 M6] Hr0.
  assert (L : forall hh x, listed (set_rec t i (hh0, s')) hh x <-> listed t hh x) by (apply listed_ext; reflexivity).
  constructor; [exact M1 | | | exact M4 | | ].
  - intros hh j Hh Hl. apply L in Hl. destruct (M2 hh j Hh Hl) as [s [Hs Hr]].
    destruct (txid_dec j i) as [->|Hne].
    + exists s'. simpl. rewrite updT_same. rewrite Hr0 in Hs. inversion Hs; subst. auto.
    + exists s. simpl. rewrite updT_other by exact Hne. split; [exact Hs | destruct Hr; auto].
  - intros hh j Hin. destruct (M3 hh j Hin) as [A [[s [Hs Hr]] C]]. split; [exact A|]. split.
    + destruct (txid_dec j i) as [->|Hne].
      * exists s'. simpl. rewrite updT_same. rewrite Hr0 in Hs. inversion Hs; subst. auto.
      * exists s. simpl. rewrite updT_other by exact Hne. split; [exact Hs | destruct Hr; auto].
    + intro Hl. apply L in Hl. exact (C Hl).
  - intros hh g Hh Hl. apply L in Hl. exact (M5 hh g Hh Hl).
  - intros hh j [[Hh Hl] | Hp]; [apply L in Hl; apply (M6 hh j); left; auto | apply (M6 hh j); right; exact Hp].
Qed.

(** an id that is neither listed in the future nor pending may change freely *)
Lemma tmid_set_rec_unlisted w t H rcv pend i v :
  TMid w t H rcv pend ->
  (forall hh, H < hh -> ~ listed t hh (TTx i)) -> (forall hh, ~ In (hh, i) pend) ->
  TMid w (set_rec t i v) H rcv pend.
Proof.
  intros [M1 M2 M3 M4 M5 M6] Hnl Hnp.
  assert (L : forall hh x, listed (set_rec t i v) hh x <-> listed t hh x) by (apply listed_ext; reflexivity).
  constructor; [exact M1 | | | exact M4 | | ].
  - intros hh j Hh Hl. apply L in Hl. destruct (M2 hh j Hh Hl) as [s [Hs Hr]].
    exists s. split; [|exact Hr]. simpl. rewrite updT_other; [exact Hs | intro; subst; exact (Hnl hh Hh Hl)].
  - intros hh j Hin. destruct (M3 hh j Hin) as [A [[s [Hs Hr]] C]]. split; [exact A|]. split.
    + exists s. split; [|exact Hr]. simpl. rewrite updT_other; [exact Hs | intro; subst; exact (Hnp hh Hin)].
    + intro Hl. apply L in Hl. exact (C Hl).
  - intros hh g Hh Hl. apply L in Hl. exact (M5 hh g Hh Hl).
  - intros hh j [[Hh Hl] | Hp]; [apply L in Hl; apply (M6 hh j); left; auto | apply (M6 hh j); right; exact Hp].
Qed.

(** registering a fresh single request for later *)
Lemma tmid_add_pend w t H rcv pend i hh :
  TMid w t H rcv pend -> H + 1 < hh -> tm_rec t i = Some (hh, ST_BEGIN) ->
  ~ listed t hh (TTx i) -> (forall hh', ~ In (hh', i) pend) -> both_local w i ->
  TMid w t H rcv (pend ++ [(hh, i)]).
Proof.
  intros [M1 M2 M3 M4 M5 M6] Hh Hr Hnl Hnp Hloc. constructor; [exact M1 | exact M2 | | | exact M5 | ].
  - intros hh1 j Hin. apply in_app_or in Hin. destruct Hin as [Hin | [Hin | []]]; [apply M3; exact Hin|].
    inversion Hin; subst. split; [exact Hh|]. split; [exists ST_BEGIN; auto | exact Hnl].
  - rewrite map_app. simpl. apply NoDup_app_end; [exact M4|].
    intro Hin. apply in_map_iff in Hin. destruct Hin as [[hh1 j] [E Hin]]. simpl in E. subst j. exact (Hnp hh1 Hin).
  - intros hh1 j [Hl | Hp]; [apply (M6 hh1 j); left; exact Hl|].
    apply in_app_or in Hp. destruct Hp as [Hp | [Hp | []]]; [apply (M6 hh1 j); right; exact Hp|].
    inversion Hp; subst. exact Hloc.
Qed.

(** ** group bookkeeping *)
Lemma tmid_set_child w t H rcv pend i g : TMid w t H rcv pend -> TMid w (set_child t i g) H rcv pend.
Proof. intros [M1 M2 M3 M4 M5 M6]. constructor; auto. Qed.

Lemma tmid_set_glob_same w t H rcv pend g gi gi' :
  TMid w t H rcv pend -> tm_glob t g = Some gi ->
  g_state gi' = g_state gi -> g_height gi' = g_height gi ->
  TMid w (set_glob t g gi') H rcv pend.
Proof.
  intros [M1 M2 M3 M4 M5 M6] Hg Hs Hh. constructor; auto.
  intros hh g0 Hlt Hl. destruct (M5 hh g0 Hlt Hl) as [gi0 [E [S Hh0]]].
  simpl. unfold upd. destruct (gid_eqb g0 g) eqn:Eg.
  - apply gid_eqb_eq in Eg. subst g0. exists gi'. rewrite Hg in E. inversion E; subst gi0.
    split; [reflexivity | split; congruence].
  - exists gi0. auto.
Qed.

Lemma tmid_set_glob_unlisted w t H rcv pend g gi' :
  TMid w t H rcv pend -> (forall hh, H < hh -> ~ listed t hh (TGid g)) ->
  TMid w (set_glob t g gi') H rcv pend.
Proof.
  intros [M1 M2 M3 M4 M5 M6] Hnl. constructor; auto.
  intros hh g0 Hlt Hl. destruct (M5 hh g0 Hlt Hl) as [gi0 [E [S Hh0]]].
  simpl. unfold upd. destruct (gid_eqb g0 g) eqn:Eg.
  - apply gid_eqb_eq in Eg. subst g0. exfalso. exact (Hnl hh Hlt Hl).
  - exists gi0. auto.
Qed.

Lemma tok_gid_ne_empty g : TGid g <> TEmpty.
Proof. discriminate. Qed.
Lemma tok_tx_ne_empty i : TTx i <> TEmpty.
Proof. discriminate. Qed.

(** removing a group id from the list of its own timeout height *)
Lemma tmid_remove_gid w t H rcv pend g gi t1 :
  TMid w t H rcv pend -> tm_glob t g = Some gi ->
  tm_remove_timeout t (g_height gi) (TGid g) = Some t1 ->
  tm_rec t1 = tm_rec t /\ tm_glob t1 = tm_glob t /\ tm_child t1 = tm_child t /\
  TMid w t1 H rcv pend /\ (forall hh, H < hh -> ~ listed t1 hh (TGid g)).
Proof.
  intros [M1 M2 M3 M4 M5 M6] Hg Hrm.
  destruct (tm_remove_timeout_fields _ _ _ _ Hrm) as [R1 [R2 R3]].
  destruct (tm_remove_timeout_tl t (g_height gi) (TGid g) (tok_gid_ne_empty g) (M1 (g_height gi)))
    as [t1' [E [Hoth [Hsome Hnone]]]].
  rewrite Hrm in E. inversion E; subst t1'. clear E.
  assert (Ltx : forall hh i, listed t1 hh (TTx i) <-> listed t hh (TTx i)).
  { intros hh i. unfold listed. destruct (N.eq_dec hh (g_height gi)) as [->|Hne].
    - destruct (tm_tl t (g_height gi)) as [l|] eqn:El.
      + destruct (Hsome l eq_refl) as [l' [E' [_ Hin]]]. rewrite E'. split.
        * intros [l0 [E0 H0]]. inversion E0; subst l0. exists l. split; [reflexivity|].
          apply (Hin (TTx i) (tok_tx_ne_empty i)) in H0. tauto.
        * intros [l0 [E0 H0]]. inversion E0; subst l0. exists l'. split; [reflexivity|].
          apply (Hin (TTx i) (tok_tx_ne_empty i)). split; [exact H0 | discriminate].
      + rewrite (Hnone eq_refl). tauto.
    - rewrite (Hoth hh Hne). tauto. }
  assert (Lg : forall hh g0, listed t1 hh (TGid g0) -> listed t hh (TGid g0) /\ (hh = g_height gi -> g0 <> g)).
  { intros hh g0. unfold listed. destruct (N.eq_dec hh (g_height gi)) as [->|Hne].
    - destruct (tm_tl t (g_height gi)) as [l|] eqn:El.
      + destruct (Hsome l eq_refl) as [l' [E' [_ Hin]]]. rewrite E'.
        intros [l0 [E0 H0]]. inversion E0; subst l0.
        apply (Hin (TGid g0) (tok_gid_ne_empty g0)) in H0. destruct H0 as [H0 Hne].
        split; [exists l; auto | intros _ Hc; subst; congruence].
      + rewrite (Hnone eq_refl). intros [l0 [E0 _]]. discriminate.
    - rewrite (Hoth hh Hne). intro Hl. split; [exact Hl | intro; contradiction]. }
  split; [exact R1|]. split; [exact R2|]. split; [exact R3|]. split.
  - constructor.
    + intros hh l El. destruct (N.eq_dec hh (g_height gi)) as [->|Hne].
      * destruct (tm_tl t (g_height gi)) as [l0|] eqn:El0.
        -- destruct (Hsome l0 eq_refl) as [l' [E' [Hok _]]]. rewrite E' in El. inversion El; subst. exact Hok.
        -- rewrite (Hnone eq_refl) in El. discriminate.
      * rewrite (Hoth hh Hne) in El. eapply M1; eauto.
    + intros hh i Hlt Hl. apply Ltx in Hl. rewrite R1. exact (M2 hh i Hlt Hl).
    + intros hh i Hin. destruct (M3 hh i Hin) as [A [B C]]. split; [exact A|]. split; [rewrite R1; exact B|].
      intro Hl. apply Ltx in Hl. exact (C Hl).
    + exact M4.
    + intros hh g0 Hlt Hl. apply Lg in Hl. destruct Hl as [Hl _]. rewrite R2. exact (M5 hh g0 Hlt Hl).
    + intros hh i [[Hlt Hl] | Hp]; [apply Ltx in Hl; apply (M6 hh i); left; auto | apply (M6 hh i); right; exact Hp].
  - intros hh Hlt Hl. apply Lg in Hl. destruct Hl as [Hl Hne].
    destruct (M5 hh g Hlt Hl) as [gi0 [E0 [_ Hh0]]]. rewrite Hg in E0. inversion E0; subst gi0.
    apply Hne; [symmetry; exact Hh0 | reflexivity].
Qed.

(** creating a group and registering its timeout *)
Lemma tmid_new_group w t H rcv pend g gi hh :
  TMid w t H rcv pend -> tm_glob t g = None -> H < hh ->
  g_state gi = ST_BEGIN -> g_height gi = hh ->
  TMid w (set_glob (tm_add_timeout cfg_fixed t hh (TGid g)) g gi) H rcv pend.
Proof.
  intros [M1 M2 M3 M4 M5 M6] Hg Hlt Hs Hh.
  destruct (tm_add_timeout_fields cfg_fixed t hh (TGid g)) as [R1 [R2 R3]].
  assert (Hpre : forall l, tm_tl t hh = Some l -> tl_ok l /\ ~ In (TGid g) l).
  { intros l El. split; [eapply M1; eauto|]. intro Hin.
    destruct (M5 hh g Hlt (ex_intro _ l (conj El Hin))) as [gi0 [E0 _]]. congruence. }
  destruct (tm_add_timeout_tl t hh (TGid g) (tok_gid_ne_empty g) Hpre) as [Hoth [l' [El' [Hok Hin]]]].
  set (t1 := tm_add_timeout cfg_fixed t hh (TGid g)) in *.
  assert (Ltx : forall h0 i, listed t1 h0 (TTx i) <-> listed t h0 (TTx i)).
  { intros h0 i. unfold listed. destruct (N.eq_dec h0 hh) as [->|Hne].
    - rewrite El'. split.
      + intros [l0 [E0 H0]]. inversion E0; subst l0. apply (Hin (TTx i) (tok_tx_ne_empty i)) in H0.
        destruct H0 as [H0 | H0]; [exact H0 | discriminate].
      + intros [l0 [E0 H0]]. exists l'. split; [reflexivity|]. apply (Hin (TTx i) (tok_tx_ne_empty i)).
        left. exists l0. auto.
    - rewrite (Hoth h0 Hne). tauto. }
  assert (Lg : forall h0 g0, listed t1 h0 (TGid g0) -> listed t h0 (TGid g0) \/ (h0 = hh /\ g0 = g)).
  { intros h0 g0. unfold listed. destruct (N.eq_dec h0 hh) as [->|Hne].
    - rewrite El'. intros [l0 [E0 H0]]. inversion E0; subst l0.
      apply (Hin (TGid g0) (tok_gid_ne_empty g0)) in H0. destruct H0 as [H0 | H0]; [left; exact H0|].
      right. inversion H0. auto.
    - rewrite (Hoth h0 Hne). auto. }
  constructor.
  - intros h0 l El. simpl in El. destruct (N.eq_dec h0 hh) as [->|Hne].
    + fold t1 in El. rewrite El' in El. inversion El; subst. exact Hok.
    + fold t1 in El. rewrite (Hoth h0 Hne) in El. eapply M1; eauto.
  - intros h0 i Hl0 Hl. apply (listed_ext (set_glob t1 g gi) t1 eq_refl) in Hl. apply Ltx in Hl.
    simpl. fold t1. rewrite R1. exact (M2 h0 i Hl0 Hl).
  - intros h0 i Hin0. destruct (M3 h0 i Hin0) as [A [B C]]. split; [exact A|]. split.
    + simpl. fold t1. rewrite R1. exact B.
    + intro Hl. apply (listed_ext (set_glob t1 g gi) t1 eq_refl) in Hl. apply Ltx in Hl. exact (C Hl).
  - exact M4.
  - intros h0 g0 Hl0 Hl. apply (listed_ext (set_glob t1 g gi) t1 eq_refl) in Hl. apply Lg in Hl.
    simpl. fold t1. rewrite R2. unfold upd. destruct Hl as [Hl | [-> ->]].
    + destruct (M5 h0 g0 Hl0 Hl) as [gi0 [E0 X]]. destruct (gid_eqb g0 g) eqn:Eg.
      * apply gid_eqb_eq in Eg. subst. congruence.
      * exists gi0. auto.
    + rewrite gid_eqb_refl. exists gi. auto.
  - intros h0 i [[Hl0 Hl] | Hp].
    + apply (listed_ext (set_glob t1 g gi) t1 eq_refl) in Hl. apply Ltx in Hl. apply (M6 h0 i). left. auto.
    + apply (M6 h0 i). right. exact Hp.
Qed.

(** ** one transaction-manager call *)
Lemma timeout_height_gt h T : h < W64 -> h <= timeout_height h T.
Proof.
  intro Hh. unfold timeout_height. destruct ((T =? 0) || (MAXU64 - h <=? T)) eqn:E.
  - unfold MAXU64, W64 in *. lia.
  - apply orb_false_iff in E. destruct E as [_ E]. apply N.leb_gt in E.
    rewrite wrap64_small by (unfold MAXU64, W64 in *; lia). lia.
Qed.

(** the registration [setTimeoutList] will make for this transaction (decided by the operation and
    by whether the target was available) *)
Definition reg_of (w : world) (h : N) (b : ibtp) (terr : bool) : list (N * txid) :=
  if is_request b && (match b_grp b with None => true | Some _ => false end) && negb terr
     && negb ((b_T b <=? 0)%Z || (MAXU64 - h <=? u64_of_Z (b_T b)))
     && negb (to_remote_hub w b)
  then [(h + u64_of_Z (b_T b), b_id b)] else [].

Lemma group_gid_none b : group_gid b = None <-> b_grp b = None.
Proof. unfold group_gid. destruct (b_grp b) as [[? ?]|]; split; intro H; try discriminate; reflexivity. Qed.

Definition T_int64 (b : ibtp) : Prop := (-9223372036854775808 <= b_T b < 9223372036854775808)%Z.

Lemma u64_pos b : T_int64 b -> (0 < b_T b)%Z -> u64_of_Z (b_T b) = Z.to_N (b_T b) /\ u64_of_Z (b_T b) <> 0.
Proof.
  intros [Hlo Hhi] Hp. unfold u64_of_Z. rewrite Z.mod_small by lia. split; [reflexivity | lia].
Qed.

Lemma reg_height h b :
  T_int64 b -> h < W64 ->
  ((b_T b <=? 0)%Z || (MAXU64 - h <=? u64_of_Z (b_T b))) = false ->
  timeout_height h (u64_of_Z (b_T b)) = h + u64_of_Z (b_T b) /\ h < h + u64_of_Z (b_T b).
Proof.
  intros HT Hh Hv. apply orb_false_iff in Hv. destruct Hv as [Hv1 Hv2].
  apply Z.leb_gt in Hv1. apply N.leb_gt in Hv2.
  destruct (u64_pos b HT Hv1) as [_ Hnz].
  unfold timeout_height. destruct (u64_of_Z (b_T b) =? 0) eqn:E0; [apply N.eqb_eq in E0; contradiction|].
  cbn [orb]. destruct (MAXU64 - h <=? u64_of_Z (b_T b)) eqn:E1; [apply N.leb_le in E1; lia|].
  split; [apply wrap64_small; unfold MAXU64, W64 in *; lia | lia].
Qed.

Lemma tmid_step w h H b sf sd terr t t' ch rcv pend :
  TMid w t H rcv pend -> GInv w t -> h = H + 1 -> h < W64 -> T_int64 b ->
  svc_lookup w (b_from b) = Some sf -> svc_lookup w (b_to b) = Some sd -> is_local sf = true ->
  tm_step cfg_fixed w h b sf sd terr t = Some (TmOk t' ch) ->
  (is_request b = true -> (sv_hub sf =? sv_hub sd) = true -> ~ begun t (b_id b)) ->
  TMid w t' H (fun j => rcv j \/ (is_request b = false /\ j = b_id b)) (pend ++ reg_of w h b terr).
Proof.
  intros M GI Hh Hhw HT Esf Esd Hloc Hstep Hfresh.
  assert (Hremote : (sv_hub sf =? sv_hub sd) = false -> ~ both_local w (b_id b)).
  { intros Eh [sf0 [sd0 [A [B [C D]]]]]. unfold b_id in A, B. simpl in A, B.
    rewrite Esf in A. rewrite Esd in B. inversion A; inversion B; subst.
    unfold is_local in *. apply N.eqb_eq in Hloc, D. apply N.eqb_neq in Eh. congruence. }
  assert (Ereg_remote : (sv_hub sf =? sv_hub sd) = false -> reg_of w h b terr = []).
  { intro Eh. unfold reg_of, to_remote_hub. rewrite Esf, Esd, Hloc.
    assert (is_local sd = false) as ->.
    { unfold is_local in *. apply N.eqb_eq in Hloc. apply N.eqb_neq. apply N.eqb_neq in Eh. congruence. }
    simpl. rewrite !andb_false_r. reflexivity. }
  apply tm_step_inv in Hstep.
  inversion Hstep; subst.
  - (* inter-hub begin: never registered *)
    rewrite Ereg_remote by assumption. rewrite app_nil_r. apply (tmid_weaken_rcv w _ H rcv); [tauto|].
    apply tmid_set_rec_fresh; assumption.
  - (* inter-hub notice: its id is neither listed nor pending *)
    rewrite Ereg_remote by assumption. rewrite app_nil_r. apply (tmid_weaken_rcv w _ H rcv); [tauto|].
    apply tmid_set_rec_unlisted; [exact M | |].
    + intros hh0 Hlt Hl. apply (Hremote ltac:(assumption)). apply (m_local _ _ _ _ _ M hh0). left. auto.
    + intros hh0 Hin. apply (Hremote ltac:(assumption)). apply (m_local _ _ _ _ _ M hh0). right. exact Hin.
  - (* plain begin of a fresh id *)
    assert (Hnb : ~ begun t (b_id b)) by (apply Hfresh; assumption).
    assert (Hrn : tm_rec t (b_id b) = None).
    { destruct (tm_rec t (b_id b)) eqn:E; [|reflexivity]. exfalso. apply Hnb. left. congruence. }
    apply (tmid_weaken_rcv w _ H rcv); [tauto|].
    pose proof (tmid_set_rec_fresh w t H rcv pend (b_id b) (timeout_height (H + 1) (u64_of_Z (b_T b)), st) M Hrn) as M'.
    unfold reg_of.
    match goal with |- context [if ?c then _ else _] => destruct c eqn:Ec end; [|rewrite app_nil_r; exact M'].
    rewrite !andb_true_iff in Ec. destruct Ec as [[[[_ _] Ht] Hv] _].
    apply negb_true_iff in Ht, Hv. subst terr.
    destruct (reg_height (H + 1) b HT Hhw Hv) as [Eth Hgt].
    apply tmid_add_pend; [exact M' | lia | | | |].
    + simpl. rewrite updT_same. subst st. rewrite Eth. reflexivity.
    + intro Hl. apply (listed_ext (set_rec t (b_id b) (timeout_height (H + 1) (u64_of_Z (b_T b)), st)) t eq_refl) in Hl.
      destruct (m_tx _ _ _ _ _ M (H + 1 + u64_of_Z (b_T b)) (b_id b) ltac:(lia) Hl) as [s [E _]]. congruence.
    + intros hh0 Hin. destruct (m_pend _ _ _ _ _ M _ _ Hin) as [_ [[s [E _]] _]]. congruence.
    + exists sf, sd. unfold b_id. simpl. repeat split; try assumption.
      unfold is_local in *. apply N.eqb_eq in Hloc.
      match goal with Hx : (sv_hub sf =? sv_hub sd) = true |- _ => apply N.eqb_eq in Hx; apply N.eqb_eq; congruence end.
  - (* group begin: no registration by the executor *)
    assert (Er : reg_of w (H + 1) b terr = []).
    { unfold reg_of. match goal with Hg : group_gid b = Some _ |- _ => unfold group_gid in Hg; destruct (b_grp b) as [[? ?]|]; [|discriminate] end.
      rewrite andb_false_r. reflexivity. }
    rewrite Er, app_nil_r. apply (tmid_weaken_rcv w _ H rcv); [tauto|].
    match goal with Hb : bm_change _ _ _ _ _ _ _ _ _ _ |- _ => inversion Hb; subst end.
    + apply tmid_set_child. subst t1. destruct terr.
      * apply tmid_set_glob_unlisted; [exact M|]. intros hh0 Hlt Hl.
        destruct (m_gid _ _ _ _ _ M _ _ Hlt Hl) as [gi0 [E0 _]]. congruence.
      * apply tmid_new_group; auto. subst hh. pose proof (timeout_height_gt (H + 1) (u64_of_Z (b_T b)) Hhw). lia.
    + apply tmid_set_child. eapply tmid_set_glob_same; eauto.
    + apply tmid_set_child.
      match goal with Hr : tm_remove_timeout _ _ _ = Some _ |- _ =>
        destruct (tmid_remove_gid _ _ _ _ _ _ _ _ M ltac:(eassumption) Hr) as [_ [_ [_ [M1 Hnl]]]] end.
      apply tmid_set_glob_unlisted; assumption.
    + apply tmid_set_child. eapply tmid_set_glob_same; eauto.
  - (* receipts *)
    assert (Er : reg_of w (H + 1) b terr = []).
    { unfold reg_of. match goal with Hq : is_request b = false |- _ => rewrite Hq end. reflexivity. }
    rewrite Er, app_nil_r.
    match goal with Hb : rp_change _ _ _ _ _ _ |- _ => inversion Hb; subst end.
    + eapply tmid_weaken_rcv; [|eapply tmid_set_rec_receipt; eauto].
      intros j [Hj | Hj]; [left; exact Hj | right; split; [assumption | exact Hj]].
    + apply (tmid_weaken_rcv w _ H rcv); [tauto|].
      match goal with Hc : cm_change _ _ _ _ _ |- _ => inversion Hc; subst end.
      * match goal with Hr : tm_remove_timeout _ _ _ = Some _ |- _ =>
          destruct (tmid_remove_gid _ _ _ _ _ _ _ _ M ltac:(eassumption) Hr) as [_ [_ [_ [M1 Hnl]]]] end.
        apply tmid_set_glob_unlisted; assumption.
      * match goal with Hr : Some _ = Some _ |- _ => inversion Hr; subst end.
        eapply tmid_set_glob_same; eauto.
      * match goal with Hr : tm_remove_timeout _ _ _ = Some _ |- _ =>
          destruct (tmid_remove_gid _ _ _ _ _ _ _ _ M ltac:(eassumption) Hr) as [_ [_ [_ [M1 Hnl]]]] end.
        apply tmid_set_glob_unlisted; assumption.
Qed.
