(** Proofs about [Model/Gov.v] for the repaired configuration [cfg_fixed], over all
    transaction sequences and for an arbitrary expression type and decision predicate. *)
From BX Require Import Base.Prelude Base.Fsm Model.Strategy Model.Gov Proofs.StrategyProofs.
From BXGen Require Import Gen_GovConsts.
From Coq Require Import String ZifyBool ZifyN ZifyNat QArith.
Local Open Scope N_scope.

(** * Lists *)

Lemma upd_nth_length {A} (f : A -> A) l : forall i, List.length (upd_nth i f l) = List.length l.
Proof. induction l as [|x t IH]; intros [|i]; simpl; auto. Qed.

Lemma nth_upd_nth_eq {A} (f : A -> A) l : forall i x, nth_error l i = Some x -> nth_error (upd_nth i f l) i = Some (f x).
Proof.
  induction l as [|y t IH]; intros [|i] x H; simpl in *; try discriminate.
  - inversion H; reflexivity.
  - apply IH; exact H.
Qed.

Lemma nth_upd_nth_neq {A} (f : A -> A) l : forall i j, i <> j -> nth_error (upd_nth i f l) j = nth_error l j.
Proof.
  induction l as [|y t IH]; intros [|i] [|j] H; simpl; auto; try congruence.
Qed.

Lemma upd_nth_none {A} (f : A -> A) l : forall i, nth_error l i = None -> upd_nth i f l = l.
Proof.
  induction l as [|y t IH]; intros [|i] H; simpl in *; auto; try discriminate. rewrite IH; auto.
Qed.

Lemma upd_nth_twice {A} (f g : A -> A) l : forall i, upd_nth i g (upd_nth i f l) = upd_nth i (fun x => g (f x)) l.
Proof. induction l as [|y t IH]; intros [|i]; simpl; auto. rewrite IH; reflexivity. Qed.

Lemma upd_nth_ext {A} (f g : A -> A) l : forall i, (forall x, nth_error l i = Some x -> f x = g x) -> upd_nth i f l = upd_nth i g l.
Proof.
  induction l as [|y t IH]; intros [|i] H; simpl; auto.
  - rewrite (H y); auto.
  - rewrite (IH i); auto.
Qed.

Lemma Forall_upd_nth {A} (P : A -> Prop) (f : A -> A) l : forall i,
  Forall P l -> (forall x, nth_error l i = Some x -> P x -> P (f x)) -> Forall P (upd_nth i f l).
Proof.
  induction l as [|y t IH]; intros [|i] HF H; simpl; auto.
  - inversion HF; subst. constructor; [apply (H y); [reflexivity | assumption] | assumption].
  - inversion HF; subst. constructor; [assumption|]. apply IH; [assumption|]. intros x Hx. apply H. exact Hx.
Qed.

Lemma existsb_key_aput {V} (l : list (N * V)) x v k :
  k <> x -> existsb (fun e : N * V => fst e =? k) (aput x v l) = existsb (fun e : N * V => fst e =? k) l.
Proof.
  intro Hne. induction l as [|[k2 v2] t IH]; simpl.
  - destruct (x =? k) eqn:E; [apply N.eqb_eq in E; congruence | reflexivity].
  - destruct (k2 =? x) eqn:E; simpl; [reflexivity | rewrite IH; reflexivity].
Qed.

Lemma nodup_keys_aput {V} (l : list (N * V)) x v : nodup_keys l = true -> nodup_keys (aput x v l) = true.
Proof.
  induction l as [|[k v0] t IH]; simpl; intro H; [reflexivity|].
  apply andb_true_iff in H. destruct H as [H1 H2].
  destruct (k =? x) eqn:E; simpl.
  - rewrite H1, H2. reflexivity.
  - rewrite existsb_key_aput by (intro Hc; subst; rewrite N.eqb_refl in E; discriminate).
    rewrite H1, IH by exact H2. reflexivity.
Qed.

Lemma alookup_aput_eq {V} (l : list (N * V)) x v : alookup N.eqb x (aput x v l) = Some v.
Proof.
  induction l as [|[k v0] t IH]; simpl.
  - rewrite N.eqb_refl. reflexivity.
  - destruct (k =? x) eqn:E; simpl.
    + rewrite N.eqb_sym, E. reflexivity.
    + rewrite N.eqb_sym, E. exact IH.
Qed.

Lemma alookup_aput_neq {V} (l : list (N * V)) x y v : x <> y -> alookup N.eqb y (aput x v l) = alookup N.eqb y l.
Proof.
  intro Hne. induction l as [|[k v0] t IH]; simpl.
  - destruct (y =? x) eqn:E; [apply N.eqb_eq in E; congruence | reflexivity].
  - destruct (k =? x) eqn:E; simpl.
    + apply N.eqb_eq in E. subst k. destruct (y =? x) eqn:E2; [apply N.eqb_eq in E2; congruence | reflexivity].
    + destruct (y =? k); [reflexivity | exact IH].
Qed.

Section GovProofs.
  Context {E : Type}.
  Variable E_eqb : E -> E -> bool.
  Variable sem : E -> N -> N -> N -> bool.
  Variable e_default : E.
  Hypothesis E_eqb_refl : forall e, E_eqb e e = true.

  Notation proposal := (@proposal E).
  Notation state := (@state E).
  Notation op := (@op E).

  (** ** Invariant of one proposal *)

  Definition manage_ok (p : proposal) : Prop :=
    if is_open p then p_manage p = []
    else p_manage p = (if (p_reason p =? RS_PRIORITY) || (p_reason p =? RS_CLEAR) then [] else [p_status p]).

  Definition rejected_inv (p : proposal) : Prop :=
    p_status p = ST_REJECTED -> by_tally p = true ->
    sem (h_expr (p_hdr p)) (p_approve p) (p_reject p) (h_total (p_hdr p)) = false /\
    sem (h_expr (p_hdr p)) (amax false (p_reject p) (p_cavail p)) (p_reject p) (h_total (p_hdr p)) = false.

  Record pinv (p : proposal) : Prop := {
    pi_tally : tally_ok p = true;
    pi_appr : approved_sound sem p = true;
    pi_spec : special_ok p = true;
    pi_man : manage_ok p;
    pi_rej : rejected_inv p;
    pi_st : p_status p <= 3 }.

  Definition sinv (st : state) : Prop :=
    Forall pinv (s_props st) /\ nodup_keys (s_roles st) = true.

  (** ** How one proposal may evolve: nothing of a finished proposal changes except the two
         bookkeeping numbers AvailableElectorateNum / ThresholdApproveNum; ballots and tallies
         change only by a vote (handled separately) *)
  Record pev (p q : proposal) : Prop := {
    pe_hdr : p_hdr q = p_hdr p;
    pe_ballots : p_ballots q = p_ballots p;
    pe_appr : p_approve q = p_approve p;
    pe_rej : p_reject q = p_reject p;
    pe_super : p_super q = p_super p;
    pe_closed : is_open p = false ->
                p_status q = p_status p /\ p_reason q = p_reason p /\ p_manage q = p_manage p /\ p_cavail q = p_cavail p }.

  Lemma pev_refl p : pev p p.
  Proof. constructor; auto. Qed.

  Lemma pev_trans p q r : pev p q -> pev q r -> pev p r.
  Proof.
    intros [a1 a2 a3 a4 a5 a6] [b1 b2 b3 b4 b5 b6]. constructor; try congruence.
    intro Ho. destruct (a6 Ho) as [c1 [c2 [c3 c4]]].
    assert (is_open q = false) as Hq by (unfold is_open in *; rewrite c1; exact Ho).
    destruct (b6 Hq) as [d1 [d2 [d3 d4]]]. repeat split; congruence.
  Qed.

  Definition sev (st st' : state) : Prop :=
    (List.length (s_props st) <= List.length (s_props st'))%nat /\
    forall i p, get_prop st i = Some p -> exists q, get_prop st' i = Some q /\ pev p q.

  Lemma sev_refl st : sev st st.
  Proof. split; [lia|]. intros i p H. exists p. split; [exact H | apply pev_refl]. Qed.

  Lemma sev_trans a b c : sev a b -> sev b c -> sev a c.
  Proof.
    intros [L1 H1] [L2 H2]. split; [lia|]. intros i p Hp.
    destruct (H1 i p Hp) as [q [Hq E1]]. destruct (H2 i q Hq) as [r [Hr E2]].
    exists r. split; [exact Hr | eapply pev_trans; eauto].
  Qed.

  (** good extension *)
  Definition ext (st st' : state) : Prop := sinv st -> sinv st' /\ sev st st'.

  Lemma ext_refl st : ext st st.
  Proof. intro H. split; [exact H | apply sev_refl]. Qed.

  Lemma ext_trans a b c : ext a b -> ext b c -> ext a c.
  Proof.
    intros H1 H2 Ha. destruct (H1 Ha) as [Hb S1]. destruct (H2 Hb) as [Hc S2].
    split; [exact Hc | eapply sev_trans; eauto].
  Qed.

  (** a change that leaves proposals alone *)
  Lemma ext_same st st' :
    s_props st' = s_props st -> (nodup_keys (s_roles st) = true -> nodup_keys (s_roles st') = true) -> ext st st'.
  Proof.
    intros Hp Hr [Hi Hn]. split.
    - split; [rewrite Hp; exact Hi | auto].
    - split; [rewrite Hp; lia|]. intros i p H. exists p. split; [|apply pev_refl].
      unfold get_prop in *. rewrite Hp. exact H.
  Qed.

  (** a change of one proposal *)
  Lemma ext_upd st st' i p f :
    get_prop st i = Some p ->
    s_props st' = upd_nth i f (s_props st) -> s_roles st' = s_roles st ->
    pev p (f p) -> (pinv p -> pinv (f p)) -> ext st st'.
  Proof.
    intros Hg Hp Hr He Hi [HI Hn]. split.
    - split; [|rewrite Hr; exact Hn]. rewrite Hp. apply Forall_upd_nth; [exact HI|].
      intros x Hx Px. unfold get_prop in Hg. rewrite Hg in Hx. inversion Hx; subst. apply Hi. exact Px.
    - split; [rewrite Hp, upd_nth_length; lia|]. intros j q Hq.
      unfold get_prop in *. rewrite Hp. destruct (Nat.eq_dec i j) as [->|Hne].
      + rewrite Hg in Hq. inversion Hq; subst. exists (f q). split; [apply nth_upd_nth_eq; exact Hg | exact He].
      + exists q. split; [rewrite nth_upd_nth_neq by exact Hne; exact Hq | apply pev_refl].
  Qed.

  Lemma get_set_prop (st : state) i q : s_props (set_prop st i q) = upd_nth i (fun _ => q) (s_props st).
  Proof. reflexivity. Qed.

  Lemma props_change_status (st : state) i ns :
    s_props (change_status st i ns) = upd_nth i (fun p => with_status p ns) (s_props st) /\
    s_roles (change_status st i ns) = s_roles st.
  Proof.
    unfold change_status. destruct (get_prop st i) as [p|] eqn:Eg.
    - simpl. split; [|reflexivity]. apply upd_nth_ext. intros x Hx. unfold get_prop in Eg. congruence.
    - split; [|reflexivity]. unfold get_prop in Eg. rewrite upd_nth_none by exact Eg. reflexivity.
  Qed.

  (** ** The proposal transformers of the model *)

  Lemma pev_open_gen (p q : proposal) :
    is_open p = true -> p_hdr q = p_hdr p -> p_ballots q = p_ballots p -> p_approve q = p_approve p ->
    p_reject q = p_reject p -> p_super q = p_super p -> pev p q.
  Proof. intros Ho H1 H2 H3 H4 H5. constructor; auto. intro Hc. congruence. Qed.

  Lemma pev_with_avail (p : proposal) n th : pev p (with_avail p n th).
  Proof. constructor; auto. Qed.

  Lemma pinv_with_avail (p : proposal) n th : pinv p -> pinv (with_avail p n th).
  Proof. intros [a b c d e f]. constructor; auto. Qed.

  Lemma pinv_pause (p : proposal) ns : is_open p = true -> ns < 2 -> pinv p -> pinv (with_status p ns).
  Proof.
    intros Ho Hns [a b c d e f]. unfold is_open in Ho.
    assert (ns <? 2 = true) as Hb by lia.
    constructor.
    - exact a.
    - unfold approved_sound in *. cbn [p_status with_status].
      replace (ns =? ST_APPROVED) with false by (unfold ST_APPROVED; lia). reflexivity.
    - unfold special_ok in *. cbn [p_status p_super p_hdr p_ballots with_status] in *.
      apply andb_true_iff in c. destruct c as [c1 _]. apply andb_true_iff. split; [exact c1|].
      replace (2 <=? ns) with false by lia. reflexivity.
    - unfold manage_ok, is_open in *. cbn [p_status with_status p_manage]. rewrite Hb. rewrite Ho in d. exact d.
    - intros H1. cbn [p_status with_status] in H1. unfold ST_REJECTED in H1. lia.
    - cbn [p_status with_status]. lia.
  Qed.

  Lemma pinv_close_nomanage (p : proposal) r :
    is_open p = true -> (r = RS_PRIORITY \/ r = RS_CLEAR) -> pinv p ->
    pinv (with_status (with_reason p r) ST_REJECTED).
  Proof.
    intros Ho Hr [a b c d e f]. unfold is_open in Ho.
    assert (by_tally (with_status (with_reason p r) ST_REJECTED) = false) as Hbt.
    { unfold by_tally. cbn [p_reason with_status with_reason]. unfold RS_NORMAL, RS_ELECTORATE, RS_PRIORITY, RS_CLEAR in *.
      destruct Hr; subst; reflexivity. }
    constructor.
    - exact a.
    - unfold approved_sound. cbn [p_status with_status]. reflexivity.
    - unfold special_ok in *. apply andb_true_iff in c. destruct c as [c1 _]. apply andb_true_iff. split; [exact c1|].
      rewrite Hbt. rewrite andb_false_r. reflexivity.
    - unfold manage_ok, is_open in *. cbn [p_status p_reason with_status with_reason p_manage].
      rewrite Ho in d. rewrite d. unfold ST_REJECTED, RS_PRIORITY, RS_CLEAR in *. destruct Hr; subst; reflexivity.
    - intros _ H2. rewrite Hbt in H2. discriminate.
    - cbn [p_status with_status]. unfold ST_REJECTED. lia.
  Qed.

  (** when may a proposal be concluded through handleResult with (status, reason)? *)
  Definition close_ok (p : proposal) (ns reason : N) : Prop :=
    (ns = ST_APPROVED \/ ns = ST_REJECTED) /\
    (reason = RS_NORMAL \/ reason = RS_ZERO \/ reason = RS_WITHDRAWN \/ reason = RS_ELECTORATE) /\
    ((reason = RS_NORMAL \/ reason = RS_ELECTORATE) ->
       (ns = ST_APPROVED -> sem (h_expr (p_hdr p)) (p_approve p) (p_reject p) (h_total (p_hdr p)) = true) /\
       (ns = ST_REJECTED ->
          sem (h_expr (p_hdr p)) (p_approve p) (p_reject p) (h_total (p_hdr p)) = false /\
          sem (h_expr (p_hdr p)) (amax false (p_reject p) (p_avail p)) (p_reject p) (h_total (p_hdr p)) = false) /\
       (h_special (p_hdr p) = true -> p_super p = true)).

  Lemma pinv_close (p : proposal) ns reason :
    is_open p = true -> close_ok p ns reason -> pinv p -> pinv (with_close (with_status p ns) ns reason).
  Proof.
    intros Ho [Hns [Hr Hc]] [a b c d e f]. unfold is_open in Ho.
    constructor.
    - exact a.
    - unfold approved_sound, by_tally. cbn [p_status p_reason p_hdr p_approve p_reject with_close with_status].
      destruct (ns =? ST_APPROVED) eqn:E1; [|reflexivity].
      destruct ((reason =? RS_NORMAL) || (reason =? RS_ELECTORATE)) eqn:E2; [|reflexivity].
      cbn [andb negb orb]. apply Hc; [|apply N.eqb_eq; exact E1].
      apply orb_true_iff in E2. destruct E2 as [E2|E2]; apply N.eqb_eq in E2; auto.
    - unfold special_ok in *. apply andb_true_iff in c. destruct c as [c1 _]. apply andb_true_iff. split; [exact c1|].
      unfold by_tally. cbn [p_status p_reason p_hdr p_super with_close with_status].
      destruct ((reason =? RS_NORMAL) || (reason =? RS_ELECTORATE)) eqn:E2; [|rewrite andb_false_r; reflexivity].
      destruct (h_special (p_hdr p)) eqn:E3; [|rewrite andb_false_r; reflexivity].
      apply orb_true_iff. right. apply Hc; [|reflexivity].
      apply orb_true_iff in E2. destruct E2 as [E2|E2]; apply N.eqb_eq in E2; auto.
    - unfold manage_ok, is_open in *. cbn [p_status p_reason p_manage with_close with_status].
      rewrite Ho in d. rewrite d.
      replace (ns <? 2) with false by (unfold ST_APPROVED, ST_REJECTED in Hns; lia).
      replace ((reason =? RS_PRIORITY) || (reason =? RS_CLEAR)) with false; [reflexivity|].
      unfold RS_NORMAL, RS_ZERO, RS_WITHDRAWN, RS_ELECTORATE, RS_PRIORITY, RS_CLEAR in *. lia.
    - intros H1 H2. unfold by_tally in H2. cbn [p_status p_reason p_hdr p_approve p_reject p_cavail p_avail with_close with_status] in *.
      apply Hc; [|exact H1].
      apply orb_true_iff in H2. destruct H2 as [E2|E2]; apply N.eqb_eq in E2; auto.
    - cbn [p_status with_close with_status]. unfold ST_APPROVED, ST_REJECTED in Hns. lia.
  Qed.

  (** ** State-level primitives *)

  Lemma ext_set_role (st : state) x v : ext st (set_role st x v).
  Proof. apply ext_same; [reflexivity|]. intro H. apply nodup_keys_aput. exact H. Qed.

  Lemma ext_set_node (st : state) x v : ext st (set_node st x v).
  Proof. apply ext_same; [reflexivity | auto]. Qed.

  Lemma ext_set_strat (st : state) m v : ext st (set_strat st m v).
  Proof. apply ext_same; [reflexivity | auto]. Qed.

  Lemma usi_props (st : state) :
    s_props (update_strategy_info sem e_default st) = s_props st /\
    s_roles (update_strategy_info sem e_default st) = s_roles st.
  Proof.
    unfold update_strategy_info.
    generalize (avail_num st). intro n. generalize [1; 0; 2]. intro l. revert st.
    induction l as [|m t IH]; intro st; simpl; [split; reflexivity|].
    match goal with |- context[fold_left _ t ?s0] => destruct (IH s0) as [H1 H2]; rewrite H1, H2 end.
    destruct (strat_of st m) as [[[z e] stt]|]; [|split; reflexivity].
    destruct (seqb stt gov_st_updating || z); [split; reflexivity|].
    destruct (threshold (sem e) 0 0 n); split; reflexivity.
  Qed.

  Lemma ext_usi (st : state) : ext st (update_strategy_info sem e_default st).
  Proof. destruct (usi_props st) as [H1 H2]. apply ext_same; [exact H1 | rewrite H2; auto]. Qed.

  Lemma ext_set_avail (st : state) i p n th :
    get_prop st i = Some p -> ext st (set_prop st i (with_avail p n th)).
  Proof.
    intro Hg. apply (ext_upd st _ i p (fun _ => with_avail p n th) Hg); try reflexivity.
    - apply pev_with_avail.
    - apply pinv_with_avail.
  Qed.

  Lemma ext_pause (st : state) i p ns :
    get_prop st i = Some p -> is_open p = true -> ns < 2 -> ext st (change_status st i ns).
  Proof.
    intros Hg Ho Hns. destruct (props_change_status st i ns) as [H1 H2].
    apply (ext_upd st _ i p (fun p => with_status p ns) Hg H1 H2).
    - apply pev_open_gen; auto.
    - apply pinv_pause; auto.
  Qed.

  Lemma ext_close_nomanage (st : state) i p r :
    get_prop st i = Some p -> is_open p = true -> (r = RS_PRIORITY \/ r = RS_CLEAR) ->
    ext st (change_status (set_prop st i (with_reason p r)) i ST_REJECTED).
  Proof.
    intros Hg Ho Hr.
    destruct (props_change_status (set_prop st i (with_reason p r)) i ST_REJECTED) as [H1 H2].
    apply (ext_upd st _ i p (fun _ => with_status (with_reason p r) ST_REJECTED) Hg).
    - rewrite H1, get_set_prop, upd_nth_twice. reflexivity.
    - rewrite H2. reflexivity.
    - apply pev_open_gen; auto.
    - apply pinv_close_nomanage; auto.
  Qed.

  (** the status change + ghost bookkeeping at the head of [conclude_body] *)
  Definition close_state (st : state) (i : nat) (ns reason : N) : state :=
    let st0 := change_status st i ns in
    match get_prop st0 i with
    | Some q => set_prop st0 i (with_close q ns reason)
    | None => st0
    end.

  Lemma ext_close (st : state) i p ns reason :
    get_prop st i = Some p -> is_open p = true -> close_ok p ns reason ->
    ext st (close_state st i ns reason) /\
    get_prop (close_state st i ns reason) i = Some (with_close (with_status p ns) ns reason).
  Proof.
    intros Hg Ho Hc. unfold close_state.
    destruct (props_change_status st i ns) as [H1 H2].
    assert (get_prop (change_status st i ns) i = Some (with_status p ns)) as Hg0.
    { unfold get_prop. rewrite H1. apply (nth_upd_nth_eq (fun q : proposal => with_status q ns)). exact Hg. }
    rewrite Hg0. split.
    - apply (ext_upd st _ i p (fun _ => with_close (with_status p ns) ns reason) Hg).
      + rewrite get_set_prop, H1, upd_nth_twice. reflexivity.
      + simpl. exact H2.
      + apply pev_open_gen; auto.
      + apply pinv_close; auto.
    - unfold get_prop. rewrite get_set_prop. eapply (nth_upd_nth_eq (fun _ => _)). exact Hg0.
  Qed.

  Lemma get_prop_change_status_other (st : state) i j ns :
    i <> j -> get_prop (change_status st i ns) j = get_prop st j.
  Proof.
    intro Hne. destruct (props_change_status st i ns) as [H1 _]. unfold get_prop. rewrite H1.
    apply nth_upd_nth_neq. exact Hne.
  Qed.

  (** ** The mutually recursive core: UpdateAvailableElectorateNum, the cascade over the
         not-closed proposals, Manage, handleResult *)

  Definition good_rec (rec : state -> nat -> N -> N -> res state) : Prop :=
    forall st i ns reason p st',
      get_prop st i = Some p -> is_open p = true -> close_ok p ns reason ->
      rec st i ns reason = Ok st' -> ext st st'.

  Section WithRec.
    Variable rec : state -> nat -> N -> N -> res state.
    Hypothesis Hrec : good_rec rec.

    Lemma update_avail_ext st i n st' :
      update_avail sem cfg_fixed rec st i n = Ok st' -> ext st st'.
    Proof.
      unfold update_avail. destruct (get_prop st i) as [p|] eqn:Hg; [|discriminate].
      destruct (h_zero (p_hdr p)); [intro H; inversion H; apply ext_refl|].
      destruct (threshold (sem (h_expr (p_hdr p))) (p_approve p) (p_reject p) (h_total (p_hdr p))) as [th|]; [|discriminate].
      cbn [d_underflow d_special_updavail d_logout_inc cfg_fixed negb andb].
      pose proof (ext_set_avail st i p n th Hg) as E1.
      set (st1 := set_prop st i (with_avail p n th)) in *.
      assert (get_prop st1 i = Some (with_avail p n th)) as Hg1.
      { unfold st1, get_prop. rewrite get_set_prop. eapply (nth_upd_nth_eq (fun _ => _)). exact Hg. }
      destruct (decide (sem (h_expr (p_hdr p))) false (p_approve p) (p_reject p) (h_total (p_hdr p)) n) eqn:Ed.
      - intro H; inversion H; subst; exact E1.
      - destruct (h_special (p_hdr p) && negb (p_super p) && true || (p_status p =? ST_PAUSED)) eqn:Eb0; [intro H; inversion H; subst; exact E1|].
        apply orb_false_iff in Eb0. destruct Eb0 as [Eb _]. rewrite andb_true_r in Eb.
        destruct (2 <=? p_status p) eqn:Ec; [discriminate|].
        intro H. eapply ext_trans; [exact E1|].
        eapply (Hrec st1 i ST_APPROVED RS_ELECTORATE _ st' Hg1); [unfold is_open; cbn [p_status with_avail]; lia | | exact H].
        split; [left; reflexivity|]. split; [right; right; right; reflexivity|]. intros _.
        cbn [p_hdr p_approve p_reject p_avail p_super with_avail].
        split; [intros _; apply decide_approve in Ed; exact Ed|].
        split; [unfold ST_APPROVED, ST_REJECTED; intro Hx; lia|].
        intro Hs. rewrite Hs in Eb. destruct (p_super p); [reflexivity | discriminate Eb].
      - destruct (h_special (p_hdr p) && negb (p_super p) && true || (p_status p =? ST_PAUSED)) eqn:Eb0; [intro H; inversion H; subst; exact E1|].
        apply orb_false_iff in Eb0. destruct Eb0 as [Eb _]. rewrite andb_true_r in Eb.
        destruct (2 <=? p_status p) eqn:Ec; [discriminate|].
        intro H. eapply ext_trans; [exact E1|].
        eapply (Hrec st1 i ST_REJECTED RS_ELECTORATE _ st' Hg1); [unfold is_open; cbn [p_status with_avail]; lia | | exact H].
        split; [right; reflexivity|]. split; [right; right; right; reflexivity|]. intros _.
        cbn [p_hdr p_approve p_reject p_avail p_super with_avail].
        split; [unfold ST_APPROVED, ST_REJECTED; intro Hx; lia|].
        split; [intros _; apply decide_reject in Ed; exact Ed|].
        intro Hs. rewrite Hs in Eb. destruct (p_super p); [reflexivity | discriminate Eb].
    Qed.

    Lemma cascade_fold_fail x inc snap c : fold_left (cascade_step sem cfg_fixed rec x inc) snap (Fail c) = Fail c.
    Proof. induction snap as [|ip t IH]; simpl; [reflexivity | exact IH]. Qed.

    Lemma cascade_fold_ext base x inc snap : forall s0 st',
      ext base s0 -> fold_left (cascade_step sem cfg_fixed rec x inc) snap (Ok s0) = Ok st' -> ext base st'.
    Proof.
      induction snap as [|[i op] t IH]; intros s0 st' Hacc; simpl.
      - intro H; inversion H; subst; exact Hacc.
      - destruct op as [p|]; [|apply IH; exact Hacc]. cbn [snd fst].
        destruct (existsb (fun e : N * N => fst e =? x) (h_elect (p_hdr p))); [|apply IH; exact Hacc].
        cbn [d_avail_voted cfg_fixed].
        match goal with |- context[if ?c then Ok s0 else _] => destruct c end; [apply IH; exact Hacc|].
        cbn [d_logout_inc cfg_fixed negb andb].
        destruct (get_prop s0 i) as [q|]; [|apply IH; exact Hacc].
        destruct (2 <=? p_status q); [apply IH; exact Hacc|].
        destruct (update_avail sem cfg_fixed rec s0 i (if inc then wrap64 (p_avail q + 1) else wrap64 (p_avail q + W64 - 1))) as [s1|c] eqn:Eu.
        + apply IH. eapply ext_trans; [exact Hacc|]. eapply update_avail_ext; exact Eu.
        + rewrite cascade_fold_fail. discriminate.
    Qed.

    Lemma cascade_ext st x inc st' : cascade sem cfg_fixed rec st x inc = Ok st' -> ext st st'.
    Proof. unfold cascade. apply cascade_fold_ext. apply ext_refl. Qed.

    Lemma manage_ext st m ev next last obj extra st' :
      manage sem e_default cfg_fixed rec st m ev next last obj extra = Ok st' -> ext st st'.
    Proof.
      unfold manage. destruct (m =? 0).
      - destruct (seqb ev "unpause"); [intro H; inversion H; apply ext_refl|].
        destruct (role_of st obj) as [[s w]|]; [|discriminate].
        destruct (fire gov_role_fsm s next last) as [s'|]; [|discriminate].
        pose proof (ext_set_role st obj (s', w)) as E1. set (st1 := set_role st obj (s', w)) in *.
        destruct (seqb ev gov_ev_register).
        { destruct (seqb next gov_ev_approve); intro H; inversion H; subst; [eapply ext_trans; [exact E1 | apply ext_usi] | exact E1]. }
        destruct (seqb ev gov_ev_freeze || seqb ev gov_ev_activate || seqb ev gov_ev_logout); [|intro H; inversion H; subst; exact E1].
        cbn [d_logout_inc cfg_fixed].
        destruct (Bool.eqb (is_avail_status s) (is_avail_status s')); [intro H; inversion H; subst; exact E1|].
        destruct (cascade sem cfg_fixed rec st1 obj (is_avail_status s')) as [s2|c] eqn:Ec; [|discriminate].
        intro H; inversion H; subst. eapply ext_trans; [exact E1|]. eapply ext_trans; [eapply cascade_ext; exact Ec | apply ext_usi].
      - destruct (m =? 1).
        + destruct (node_of st obj) as [s|]; [|discriminate].
          destruct (fire gov_node_fsm s next last) as [s'|]; [|discriminate].
          intro H; inversion H; subst. apply ext_set_node.
        + destruct (strat_of st (obj - 400)) as [[[z e] s]|]; [|discriminate].
          destruct (fire gov_strategy_fsm s next last) as [s'|]; [|discriminate].
          pose proof (ext_set_strat st (obj - 400) (z, e, s')) as E1. set (st1 := set_strat st (obj - 400) (z, e, s')) in *.
          destruct (seqb next gov_ev_approve && seqb ev gov_ev_update); [|intro H; inversion H; subst; exact E1].
          destruct extra as [[te ee]|]; [|discriminate].
          destruct (match te with Some b => b | None => z end).
          * intro H; inversion H; subst. eapply ext_trans; [exact E1 | apply ext_set_strat].
          * destruct (threshold _ 0 0 (avail_num st1)); intro H; inversion H; subst; (eapply ext_trans; [exact E1 | apply ext_set_strat]).
    Qed.

    Lemma conclude_body_ext st i ns reason p st' :
      get_prop st i = Some p -> is_open p = true -> close_ok p ns reason ->
      conclude_body sem e_default cfg_fixed rec st i ns reason = Ok st' -> ext st st'.
    Proof.
      intros Hg Ho Hc. unfold conclude_body. rewrite Hg.
      destruct (ext_close st i p ns reason Hg Ho Hc) as [E1 Hg1].
      fold (close_state st i ns reason). set (st1 := close_state st i ns reason) in *.
      cbn [d_unlock_closed cfg_fixed].
      destruct (h_lock (p_hdr p)) as [l|].
      - destruct (get_prop st1 l) as [lp|] eqn:Hl.
        + destruct (negb false && negb (p_status lp =? ST_PAUSED)) eqn:Eb.
          * intro H. eapply ext_trans; [exact E1 | eapply manage_ext; exact H].
          * assert (p_status lp = ST_PAUSED) as Hp.
            { cbn [negb andb] in Eb. apply negb_false_iff in Eb. apply N.eqb_eq in Eb. exact Eb. }
            assert (is_open lp = true) as Hlo by (unfold is_open; rewrite Hp; reflexivity).
            destruct (ns =? ST_APPROVED).
            -- intro H. eapply ext_trans; [exact E1|]. eapply ext_trans; [|eapply manage_ext; exact H].
               eapply ext_close_nomanage; eauto.
            -- intro H. eapply ext_trans; [exact E1|]. eapply ext_trans; [|eapply manage_ext; exact H].
               eapply ext_pause; eauto. unfold ST_PROPOSED. lia.
        + intro H. eapply ext_trans; [exact E1 | eapply manage_ext; exact H].
      - intro H. eapply ext_trans; [exact E1 | eapply manage_ext; exact H].
    Qed.
  End WithRec.

  Lemma conclude_good fuel : good_rec (conclude sem e_default cfg_fixed fuel).
  Proof.
    induction fuel as [|k IH]; intros st i ns reason p st' Hg Ho Hc H; simpl in H; [discriminate|].
    eapply conclude_body_ext; eauto.
  Qed.

  (** ** Operation level: ballots may grow by the one vote of the transaction *)

  Definition final_same (p q : proposal) : Prop :=
    p_status q = p_status p /\ p_reason q = p_reason p /\ p_ballots q = p_ballots p /\
    p_approve q = p_approve p /\ p_reject q = p_reject p /\ p_super q = p_super p /\
    p_manage q = p_manage p /\ p_cavail q = p_cavail p.

  Record pevb (p q : proposal) : Prop := {
    pb_hdr : p_hdr q = p_hdr p;
    pb_closed : is_open p = false -> final_same p q;
    pb_ballots : exists l, p_ballots q = l ++ p_ballots p /\ (List.length l <= 1)%nat }.

  Lemma pev_pevb p q : pev p q -> pevb p q.
  Proof.
    intros [a b c d e f]. constructor; [exact a | | exists []; split; [exact b | simpl; lia]].
    intro Ho. destruct (f Ho) as [f1 [f2 [f3 f4]]]. unfold final_same. repeat split; assumption.
  Qed.

  Definition sevb (st st' : state) : Prop :=
    (List.length (s_props st) <= List.length (s_props st'))%nat /\
    forall i p, get_prop st i = Some p -> exists q, get_prop st' i = Some q /\ pevb p q.

  Lemma sev_sevb st st' : sev st st' -> sevb st st'.
  Proof.
    intros [L H]. split; [exact L|]. intros i p Hp. destruct (H i p Hp) as [q [Hq Hpq]].
    exists q. split; [exact Hq | apply pev_pevb; exact Hpq].
  Qed.

  Lemma sevb_refl st : sevb st st.
  Proof. apply sev_sevb. apply sev_refl. Qed.

  (** ** submit *)

  Lemma nodup_keys_electorate (st : state) : nodup_keys (s_roles st) = true -> nodup_keys (electorate st) = true.
  Proof.
    unfold electorate. induction (s_roles st) as [|[k [s w]] t IH]; simpl; intro H; [reflexivity|].
    apply andb_true_iff in H. destruct H as [H1 H2]. specialize (IH H2).
    destruct (is_avail_status s); simpl; [|exact IH]. rewrite IH, andb_true_r.
    apply negb_true_iff. apply negb_true_iff in H1. apply not_true_iff_false. intro Hc.
    apply not_true_iff_false in H1. apply H1. clear -Hc.
    induction t as [|[k2 [s2 w2]] t IH]; simpl in *; [discriminate|].
    destruct (is_avail_status s2); simpl in Hc.
    - apply orb_true_iff in Hc. destruct Hc as [Hc|Hc]; [rewrite Hc; reflexivity | rewrite IH by exact Hc; apply orb_true_r].
    - rewrite IH by exact Hc. apply orb_true_r.
  Qed.

  Lemma ext_append (st st' : state) p :
    s_props st' = s_props st ++ [p] -> s_roles st' = s_roles st -> pinv p -> ext st st'.
  Proof.
    intros Hp Hr Hi [HI Hn]. split.
    - split; [|rewrite Hr; exact Hn]. rewrite Hp. apply Forall_app. split; [exact HI | constructor; [exact Hi | constructor]].
    - split; [rewrite Hp, app_length; simpl; lia|]. intros i q Hq. exists q. split; [|apply pev_refl].
      unfold get_prop in *. rewrite Hp. rewrite nth_error_app1; [exact Hq|]. apply nth_error_Some. congruence.
  Qed.

  Lemma find_lock_some (ps : list proposal) obj ev : forall k i,
    find_lock ps k obj ev = Some i -> exists p, nth_error ps (i - k) = Some p /\ p_status p = ST_PROPOSED /\ (k <= i)%nat.
  Proof.
    induction ps as [|p t IH]; intros k i H; simpl in H; [discriminate|].
    destruct ((h_obj (p_hdr p) =? obj) && (p_status p =? ST_PROPOSED) && (prio (h_ev (p_hdr p)) <? prio ev)) eqn:Ec.
    - inversion H; subst. exists p. rewrite Nat.sub_diag. split; [reflexivity|]. split; [|lia].
      apply andb_true_iff in Ec. destruct Ec as [Ec _]. apply andb_true_iff in Ec. destruct Ec as [_ Ec]. apply N.eqb_eq. exact Ec.
    - apply IH in H. destruct H as [q [H1 [H2 H3]]]. exists q. split; [|split; [exact H2 | lia]].
      replace (i - k)%nat with (S (i - S k)) by lia. simpl. exact H1.
  Qed.

  Lemma lock_low_ext (st : state) obj ev : ext st (fst (lock_low st obj ev)).
  Proof.
    unfold lock_low. destruct (find_lock (s_props st) 0 obj ev) as [i|] eqn:Ef; simpl; [|apply ext_refl].
    apply find_lock_some in Ef. destruct Ef as [p [H1 [H2 _]]]. rewrite Nat.sub_0_r in H1.
    eapply ext_pause; [exact H1 | unfold is_open; rewrite H2; reflexivity | unfold ST_PAUSED; lia].
  Qed.

  Lemma lock_low_roles (st : state) obj ev : s_roles (fst (lock_low st obj ev)) = s_roles st.
  Proof.
    unfold lock_low. destruct (find_lock (s_props st) 0 obj ev) as [i|]; simpl; [|reflexivity].
    apply (proj2 (props_change_status st i ST_PAUSED)).
  Qed.

  Lemma submit_ext (st : state) from ev m obj last extra st' i :
    submit sem e_default st from ev m obj last extra = Ok (st', i) ->
    ext st st' /\
    (sinv st -> exists p, get_prop st' i = Some p /\ p_status p = ST_PROPOSED /\ p_ballots p = [] /\
                         h_zero (p_hdr p) = fst (strategy_info e_default st m)).
  Proof.
    unfold submit. destruct (strategy_info e_default st m) as [z e] eqn:Es.
    destruct (if z then Some 0 else threshold (sem e) 0 0 (N.of_nat (List.length (electorate st)))) as [th|]; [|discriminate].
    pose proof (lock_low_ext st obj ev) as E1. pose proof (lock_low_roles st obj ev) as R1.
    destruct (lock_low st obj ev) as [st1 lock]. cbn [fst] in *.
    intro H. inversion H; subst. clear H.
    match goal with |- context[s_props st1 ++ [?pp]] => set (pnew := pp) end.
    assert (forall s, sinv s -> s_roles s = s_roles st -> pinv pnew) as Hpi.
    { intros s [_ Hn] Hr. rewrite Hr in Hn. constructor.
      - unfold tally_ok, pnew. cbn [p_ballots p_hdr h_elect p_approve p_reject h_total nodup_keys forallb count_ballots filter List.length].
        rewrite nodup_keys_electorate by exact Hn. rewrite !N.eqb_refl. reflexivity.
      - reflexivity.
      - reflexivity.
      - reflexivity.
      - intro Hx. discriminate.
      - unfold pnew. cbn [p_status]. unfold ST_PROPOSED. lia. }
    split.
    - intro Hs. assert (sinv st1) as Hs1 by (apply E1; exact Hs).
      destruct (E1 Hs) as [_ Sv].
      assert (ext st1 (with_idx (with_props st1 (s_props st1 ++ [pnew])) (s_proposed st1 ++ [List.length (s_props st1)]) (s_paused st1))) as E2.
      { apply (ext_append _ _ pnew); [reflexivity | reflexivity | apply (Hpi st1 Hs1 R1)]. }
      destruct (E2 Hs1) as [Hs2 Sv2]. split; [exact Hs2 | eapply sev_trans; eauto].
    - intros _. exists pnew. split; [|split; [reflexivity | split; [reflexivity | reflexivity]]].
      unfold get_prop. cbn [s_props with_idx with_props]. rewrite nth_error_app2 by lia. rewrite Nat.sub_diag. reflexivity.
  Qed.

  (** ** The transactions *)

  Definition opext (st st' : state) : Prop := sinv st -> sinv st' /\ sevb st st'.

  Lemma ext_opext st st' : ext st st' -> opext st st'.
  Proof. intros H Hs. destruct (H Hs) as [A B]. split; [exact A | apply sev_sevb; exact B]. Qed.

  Lemma zero_perm_ext (st : state) i st' :
    zero_perm sem e_default cfg_fixed st i = Ok st' -> ext st st'.
  Proof.
    unfold zero_perm. cbn [d_zero_open cfg_fixed orb].
    destruct (get_prop st i) as [p|] eqn:Hg; [|discriminate].
    destruct (h_zero (p_hdr p) && (p_status p <? 2)) eqn:Ec; [|intro H; inversion H; apply ext_refl].
    apply andb_true_iff in Ec. destruct Ec as [_ Ec].
    intro H. eapply (conclude_good _ st i ST_APPROVED RS_ZERO p st' Hg); [exact Ec | | exact H].
    split; [left; reflexivity|]. split; [right; left; reflexivity|].
    unfold RS_ZERO, RS_NORMAL, RS_ELECTORATE. intros [Hx|Hx]; discriminate.
  Qed.

  Lemma zero_after_ext (st : state) i st' : zero_after sem e_default cfg_fixed st i = Ok st' -> ext st st'.
  Proof.
    unfold zero_after. destruct (zero_perm sem e_default cfg_fixed st i) as [s|c] eqn:Ez; [|discriminate].
    intro H; inversion H; subst. eapply zero_perm_ext; exact Ez.
  Qed.

  Lemma withdraw_ext (st : state) c i st' : withdraw sem e_default cfg_fixed st c i = Ok st' -> ext st st'.
  Proof.
    unfold withdraw. destruct (get_prop st i) as [p|] eqn:Hg; [|discriminate].
    destruct (negb (h_from (p_hdr p) =? c)); [discriminate|].
    destruct (2 <=? p_status p) eqn:Ec; [discriminate|].
    intro H. eapply (conclude_good _ st i ST_REJECTED RS_WITHDRAWN p st' Hg); [unfold is_open; lia | | exact H].
    split; [right; reflexivity|]. split; [right; right; left; reflexivity|].
    unfold RS_WITHDRAWN, RS_NORMAL, RS_ELECTORATE. intros [Hx|Hx]; discriminate.
  Qed.

  Lemma role_flow_ext (st : state) c x ev st' : role_flow sem e_default cfg_fixed st c x ev = Ok st' -> ext st st'.
  Proof.
    unfold role_flow.
    destruct (seqb ev gov_ev_freeze && (x =? c)); [discriminate|].
    destruct (negb (is_avail_admin st c || (seqb ev gov_ev_activate || seqb ev gov_ev_logout) && (x =? c))); [discriminate|].
    destruct (role_of st x) as [[s w]|]; [|discriminate].
    destruct (negb (pre_ok gov_role_pre ev s)); [discriminate|].
    destruct (w =? gov_super_weight); [discriminate|].
    destruct (submit sem e_default st c ev 0 x s None) as [[st1 i]|k] eqn:Es; [|discriminate].
    destruct (fire gov_role_fsm s ev s) as [s'|]; [|discriminate].
    apply submit_ext in Es. destruct Es as [E1 _].
    pose proof (ext_set_role st1 x (s', w)) as E2. set (st2 := set_role st1 x (s', w)) in *.
    cbn [d_logout_inc cfg_fixed].
    destruct (seqb ev gov_ev_logout && is_avail_status s).
    - destruct (cascade sem cfg_fixed (conclude sem e_default cfg_fixed (fuel_of st)) st2 x false) as [s3|k] eqn:Ec; [|discriminate].
      intro H. eapply ext_trans; [exact E1|]. eapply ext_trans; [exact E2|].
      eapply ext_trans; [eapply (cascade_ext _ (conclude_good _)); exact Ec|].
      eapply ext_trans; [apply ext_usi | eapply zero_after_ext; exact H].
    - intro H. eapply ext_trans; [exact E1|]. eapply ext_trans; [exact E2 | eapply zero_after_ext; exact H].
  Qed.

  Lemma reg_role_ext (st : state) c x st' : reg_role sem e_default cfg_fixed st c x = Ok st' -> ext st st'.
  Proof.
    unfold reg_role. destruct (negb (is_avail_admin st c)); [discriminate|].
    destruct (negb match role_of st x with Some (s, _) => seqb s gov_st_unavailable | None => true end); [discriminate|].
    pose proof (ext_set_role st x (gov_st_unavailable, gov_normal_weight)) as E0.
    set (st0 := set_role st x (gov_st_unavailable, gov_normal_weight)) in *.
    destruct (submit sem e_default st0 c gov_ev_register 0 x gov_st_unavailable None) as [[st1 i]|k] eqn:Es; [|discriminate].
    destruct (fire gov_role_fsm gov_st_unavailable gov_ev_register gov_st_unavailable) as [s'|]; [|discriminate].
    apply submit_ext in Es. destruct Es as [E1 _].
    intro H. eapply ext_trans; [exact E0|]. eapply ext_trans; [exact E1|].
    eapply ext_trans; [apply ext_set_role | eapply zero_after_ext; exact H].
  Qed.

  Lemma reg_node_ext (st : state) c x st' : reg_node sem e_default cfg_fixed st c x = Ok st' -> ext st st'.
  Proof.
    unfold reg_node. destruct (negb (is_avail_admin st c)); [discriminate|].
    destruct (negb match node_of st x with Some s => seqb s gov_st_unavailable | None => true end); [discriminate|].
    destruct (submit sem e_default st c gov_ev_register 1 x gov_st_unavailable None) as [[st1 i]|k] eqn:Es; [|discriminate].
    apply submit_ext in Es. destruct Es as [E1 _].
    intro H. eapply ext_trans; [exact E1|]. eapply ext_trans; [apply ext_set_node | eapply zero_after_ext; exact H].
  Qed.

  Lemma logout_node_ext (st : state) c x st' : logout_node sem e_default cfg_fixed st c x = Ok st' -> ext st st'.
  Proof.
    unfold logout_node. destruct (negb (is_avail_admin st c)); [discriminate|].
    destruct (node_of st x) as [s|]; [|discriminate].
    destruct (negb (pre_ok gov_node_pre gov_ev_logout s)); [discriminate|].
    destruct (submit sem e_default st c gov_ev_logout 1 x s None) as [[st1 i]|k] eqn:Es; [|discriminate].
    destruct (fire gov_node_fsm s gov_ev_logout s) as [s'|]; [|discriminate].
    apply submit_ext in Es. destruct Es as [E1 _].
    intro H. eapply ext_trans; [exact E1|]. eapply ext_trans; [apply ext_set_node | eapply zero_after_ext; exact H].
  Qed.

  Lemma upd_strategy_ext (st : state) c m z e st' :
    upd_strategy E_eqb sem e_default cfg_fixed st c m z e = Ok st' -> ext st st'.
  Proof.
    unfold upd_strategy. destruct (negb (is_avail_admin st c)); [discriminate|].
    destruct (2 <? m); [discriminate|].
    destruct (match strat_of st m with Some v => v | None => (false, e_default, gov_st_available) end) as [[z0 e0] s0].
    destruct (negb (pre_ok gov_strategy_pre gov_ev_update s0)); [discriminate|].
    assert (forall te ee,
      (if negb z && negb (admitted (sem e) (avail_num st)) then Fail 9
       else match submit sem e_default st c gov_ev_update 2 (400 + m) s0 (Some (te, ee)) with
            | Ok (st1, i) =>
              zero_after sem e_default cfg_fixed
                (match strat_of st1 m with
                 | Some (z1, e1, s1) => match fire gov_strategy_fsm s1 gov_ev_update s1 with
                                        | Some s' => set_strat st1 m (z1, e1, s') | None => st1 end
                 | None => st1 end) i
            | Fail _ => Fail 9 end) = Ok st' -> ext st st') as Hmain.
    { intros te ee. destruct (negb z && negb (admitted (sem e) (avail_num st))); [discriminate|].
      destruct (submit sem e_default st c gov_ev_update 2 (400 + m) s0 (Some (te, ee))) as [[st1 i]|k] eqn:Es; [|discriminate].
      apply submit_ext in Es. destruct Es as [E1 _].
      intro H. eapply ext_trans; [exact E1|]. eapply ext_trans; [|eapply zero_after_ext; exact H].
      destruct (strat_of st1 m) as [[[z1 e1] s1]|]; [|apply ext_refl].
      destruct (fire gov_strategy_fsm s1 gov_ev_update s1); [apply ext_set_strat | apply ext_refl]. }
    destruct (if Bool.eqb z z0 then None else Some z) as [te|]; destruct (if E_eqb e e0 then None else Some e) as [ee|];
      try discriminate; apply Hmain.
  Qed.

  (** ** Vote *)

  Lemma alookup_in_elect (p : proposal) c w : alookup N.eqb c (h_elect (p_hdr p)) = Some w -> in_elect p c = true.
  Proof.
    unfold in_elect. induction (h_elect (p_hdr p)) as [|[k v] t IH]; simpl; [discriminate|].
    destruct (c =? k) eqn:Ec; [intros _; rewrite N.eqb_sym, Ec; reflexivity|].
    intro H. rewrite IH by exact H. apply orb_true_r.
  Qed.

  Lemma count_ballots_cons b c v l :
    count_ballots b ((c, v) :: l) = if Bool.eqb v b then count_ballots b l + 1 else count_ballots b l.
  Proof.
    unfold count_ballots. simpl. destruct (Bool.eqb v b); [|reflexivity]. simpl. lia.
  Qed.

  Lemma pinv_vote (p : proposal) c ap w th :
    p_status p = ST_PROPOSED -> alookup N.eqb c (h_elect (p_hdr p)) = Some w ->
    existsb (fun x : N * bool => fst x =? c) (p_ballots p) = false ->
    pinv p -> pinv (with_ballot p c ap w th).
  Proof.
    intros Hst Hel Hnv [a b c0 d e f]. constructor.
    - unfold tally_ok in *. cbn [p_ballots p_hdr p_approve p_reject with_ballot].
      apply andb_true_iff in a; destruct a as [a a6]. apply andb_true_iff in a; destruct a as [a a5].
      apply andb_true_iff in a; destruct a as [a a4]. apply andb_true_iff in a; destruct a as [a a3].
      apply andb_true_iff in a; destruct a as [a a2].
      apply N.eqb_eq in a4. apply N.eqb_eq in a5.
      apply andb_true_iff; split; [apply andb_true_iff; split; [apply andb_true_iff; split;
        [apply andb_true_iff; split; [apply andb_true_iff; split|]|]|]|].
      + simpl. rewrite Hnv. simpl. exact a.
      + exact a2.
      + simpl. apply andb_true_iff. split; [apply (alookup_in_elect p c w Hel) | exact a3].
      + apply N.eqb_eq. rewrite count_ballots_cons. destruct ap; simpl; lia.
      + apply N.eqb_eq. rewrite count_ballots_cons. destruct ap; simpl; lia.
      + exact a6.
    - unfold approved_sound. cbn [p_status with_ballot]. rewrite Hst. reflexivity.
    - unfold special_ok in *. apply andb_true_iff in c0. destruct c0 as [c1 _].
      apply andb_true_iff. split.
      + unfold super_ballot in *. cbn [p_super p_ballots p_hdr with_ballot]. simpl. rewrite Hel.
        apply Bool.eqb_prop in c1. rewrite c1. rewrite orb_comm. apply Bool.eqb_reflx.
      + cbn [p_status with_ballot]. rewrite Hst. reflexivity.
    - unfold manage_ok, is_open in *. cbn [p_status p_manage with_ballot]. rewrite Hst in *. exact d.
    - intro Hx. cbn [p_status with_ballot] in Hx. rewrite Hst in Hx. discriminate.
    - cbn [p_status with_ballot]. exact f.
  Qed.

  Lemma vote_opext (st : state) c i b st' : vote sem e_default cfg_fixed st c i b = Ok st' -> opext st st'.
  Proof.
    unfold vote. destruct (negb (is_avail_admin st c)); [discriminate|].
    destruct (get_prop st i) as [p|] eqn:Hg; [|discriminate].
    destruct (negb (p_status p =? ST_PROPOSED)) eqn:Est; [discriminate|].
    apply negb_false_iff in Est. apply N.eqb_eq in Est.
    destruct (alookup N.eqb c (h_elect (p_hdr p))) as [w|] eqn:Hel; [|discriminate].
    destruct (existsb (fun x : N * bool => fst x =? c) (p_ballots p)) eqn:Hnv; [discriminate|].
    destruct (2 <=? b); [discriminate|].
    set (ap := b =? 1).
    set (a' := if ap then p_approve p + 1 else p_approve p).
    set (r' := if ap then p_reject p else p_reject p + 1).
    destruct (threshold (sem (h_expr (p_hdr p))) a' r' (h_total (p_hdr p))) as [th|]; [|discriminate].
    set (p1 := with_ballot p c ap w th). set (st1 := set_prop st i p1).
    assert (get_prop st1 i = Some p1) as Hg1.
    { unfold st1, get_prop. rewrite get_set_prop. eapply (nth_upd_nth_eq (fun _ => _)). exact Hg. }
    (* the ballot step *)
    assert (opext st st1) as Ev.
    { intros [HI Hn]. split.
      - split; [|exact Hn]. unfold st1. rewrite get_set_prop. apply Forall_upd_nth; [exact HI|].
        intros x Hx Px. unfold get_prop in Hg. rewrite Hg in Hx. inversion Hx; subst. apply pinv_vote; auto.
      - split; [unfold st1; rewrite get_set_prop, upd_nth_length; lia|].
        intros j q Hq. unfold get_prop in *. unfold st1. rewrite get_set_prop.
        destruct (Nat.eq_dec i j) as [->|Hne].
        + rewrite Hg in Hq. inversion Hq; subst. exists p1. split; [eapply (nth_upd_nth_eq (fun _ => _)); exact Hg|].
          constructor; [reflexivity | | exists [(c, ap)]; split; [reflexivity | simpl; lia]].
          unfold is_open. rewrite Est. discriminate.
        + exists q. split; [rewrite nth_upd_nth_neq by exact Hne; exact Hq | apply pev_pevb; apply pev_refl]. }
    assert (forall s2, ext st1 s2 -> opext st s2) as Hchain.
    { intros s2 E2 Hs. destruct (Ev Hs) as [Hs1 Sb1]. destruct (E2 Hs1) as [Hs2 Sv2]. split; [exact Hs2|].
      destruct Sb1 as [L1 B1]. destruct Sv2 as [L2 B2]. split; [lia|].
      intros j q Hq. destruct (B1 j q Hq) as [q1 [Hq1 P1]]. destruct (B2 j q1 Hq1) as [q2 [Hq2 P2]].
      exists q2. split; [exact Hq2|]. destruct P1 as [h1 c1 [l [bl ll]]]. destruct P2 as [h2 b2 a2 r2 s2' c2].
      constructor; [congruence | | exists l; split; [congruence | exact ll]].
      intro Ho. destruct (c1 Ho) as [f1 [f2 [f3 [f4 [f5 [f6 [f7 f8]]]]]]].
      assert (is_open q1 = false) as Ho1 by (unfold is_open in *; rewrite f1; exact Ho).
      destruct (c2 Ho1) as [g1 [g2 [g3 g4]]]. unfold final_same. repeat split; congruence. }
    destruct (h_special (p_hdr p) && negb (p_super p1)) eqn:Esp; [intro H; inversion H; subst; exact Ev|].
    cbn [d_underflow cfg_fixed].
    destruct (decide (sem (h_expr (p_hdr p))) false a' r' (h_total (p_hdr p)) (p_avail p)) eqn:Ed.
    - intro H; inversion H; subst; exact Ev.
    - intro H. apply Hchain.
      eapply (conclude_good _ st1 i ST_APPROVED RS_NORMAL p1 st' Hg1); [unfold is_open, p1; cbn [p_status with_ballot]; rewrite Est; reflexivity | | exact H].
      split; [left; reflexivity|]. split; [left; reflexivity|]. intros _.
      unfold p1. cbn [p_hdr p_approve p_reject p_avail p_super with_ballot]. fold a' r'.
      split; [intros _; apply decide_approve in Ed; exact Ed|].
      split; [unfold ST_APPROVED, ST_REJECTED; intro Hx; lia|].
      intro Hs. rewrite Hs in Esp. unfold p1 in Esp. cbn [p_super with_ballot] in Esp.
      destruct (p_super p || (w =? gov_super_weight)); [reflexivity | discriminate].
    - intro H. apply Hchain.
      eapply (conclude_good _ st1 i ST_REJECTED RS_NORMAL p1 st' Hg1); [unfold is_open, p1; cbn [p_status with_ballot]; rewrite Est; reflexivity | | exact H].
      split; [right; reflexivity|]. split; [left; reflexivity|]. intros _.
      unfold p1. cbn [p_hdr p_approve p_reject p_avail p_super with_ballot]. fold a' r'.
      split; [unfold ST_APPROVED, ST_REJECTED; intro Hx; lia|].
      split; [intros _; apply decide_reject in Ed; exact Ed|].
      intro Hs. rewrite Hs in Esp. unfold p1 in Esp. cbn [p_super with_ballot] in Esp.
      destruct (p_super p || (w =? gov_super_weight)); [reflexivity | discriminate].
  Qed.

  (** ** Calls by manager contracts: EndObjProposal, Lock / UnLockLowPriorityProposal *)

  Lemma end_obj_fold (base : state) obj l : forall s0 : state,
    ext base s0 ->
    ext base (fold_left (fun (s : state) i =>
      match get_prop s i with
      | Some p => if (h_obj (p_hdr p) =? obj) && (p_status p <? 2)
                  then change_status (set_prop s i (with_reason p RS_CLEAR)) i ST_REJECTED else s
      | None => s
      end) l s0).
  Proof.
    induction l as [|i t IH]; intros s0 Hacc; simpl; [exact Hacc|].
    apply IH. destruct (get_prop s0 i) as [p|] eqn:Hg; [|exact Hacc].
    destruct ((h_obj (p_hdr p) =? obj) && (p_status p <? 2)) eqn:Ec; [|exact Hacc].
    eapply ext_trans; [exact Hacc|]. eapply ext_close_nomanage; [exact Hg | | right; reflexivity].
    apply andb_true_iff in Ec. destruct Ec as [_ Ec]. exact Ec.
  Qed.

  Lemma end_obj_ext (st : state) obj : ext st (end_obj st obj).
  Proof. unfold end_obj. apply end_obj_fold. apply ext_refl. Qed.

  Lemma best_paused_some (ps : list proposal) obj : forall k best i p,
    (forall j q, best = Some (j, q) -> (j < k)%nat /\ p_status q = ST_PAUSED /\ True) ->
    best_paused ps k obj best = Some (i, p) ->
    p_status p = ST_PAUSED /\ ((exists q, best = Some (i, q) /\ p = q) \/ nth_error ps (i - k) = Some p /\ (k <= i)%nat).
  Proof.
    induction ps as [|x t IH]; intros k best i p Hb H; simpl in H.
    - subst best. destruct (Hb i p eq_refl) as [_ [H2 _]]. split; [exact H2|]. left. exists p. split; reflexivity.
    - match type of H with best_paused t (S k) obj ?b = _ => set (b' := b) in * end.
      assert (forall j q, b' = Some (j, q) -> (j < S k)%nat /\ p_status q = ST_PAUSED /\ True) as Hb'.
      { intros j q Hj. unfold b' in Hj.
        destruct ((h_obj (p_hdr x) =? obj) && (p_status x =? ST_PAUSED)) eqn:Ec.
        - apply andb_true_iff in Ec. destruct Ec as [_ Ec]. apply N.eqb_eq in Ec.
          destruct best as [[j0 bp]|].
          + destruct (prio (h_ev (p_hdr bp)) <? prio (h_ev (p_hdr x))).
            * inversion Hj; subst. split; [lia | split; [exact Ec | exact I]].
            * destruct (Hb j q Hj) as [A [B _]]. split; [lia | split; [exact B | exact I]].
          + inversion Hj; subst. split; [lia | split; [exact Ec | exact I]].
        - destruct (Hb j q Hj) as [A [B _]]. split; [lia | split; [exact B | exact I]]. }
      destruct (IH (S k) b' i p Hb' H) as [Hp Hor]. split; [exact Hp|].
      destruct Hor as [[q [Hq ->]]|[Hn Hk]].
      + unfold b' in Hq.
        destruct ((h_obj (p_hdr x) =? obj) && (p_status x =? ST_PAUSED)) eqn:Ec.
        * destruct best as [[j0 bp]|].
          -- destruct (prio (h_ev (p_hdr bp)) <? prio (h_ev (p_hdr x))).
             ++ inversion Hq; subst. right. rewrite Nat.sub_diag. split; [reflexivity | lia].
             ++ left. exists q. split; [exact Hq | reflexivity].
          -- inversion Hq; subst. right. rewrite Nat.sub_diag. split; [reflexivity | lia].
        * left. exists q. split; [exact Hq | reflexivity].
      + right. split; [|lia]. replace (i - k)%nat with (S (i - S k)) by lia. simpl. exact Hn.
  Qed.

  Lemma unlock_obj_ext (st : state) obj ev st' : unlock_obj sem e_default cfg_fixed st obj ev = Ok st' -> ext st st'.
  Proof.
    unfold unlock_obj. destruct (best_paused (s_props st) 0 obj None) as [[i p]|] eqn:Eb; [|intro H; inversion H; apply ext_refl].
    apply best_paused_some in Eb; [|intros j q Hx; discriminate].
    destruct Eb as [Hp [[q [Hq _]]|[Hn _]]]; [discriminate|]. rewrite Nat.sub_0_r in Hn.
    intro H. eapply ext_trans; [|eapply (manage_ext _ (conclude_good _)); exact H].
    eapply ext_pause; [exact Hn | unfold is_open; rewrite Hp; reflexivity | unfold ST_PROPOSED; lia].
  Qed.

  (** ** Every transaction *)

  Lemma run_opext (st : state) o st' : run E_eqb sem e_default cfg_fixed st o = Ok st' -> opext st st'.
  Proof.
    destruct o; simpl; intro H;
      try (apply ext_opext;
           first [ eapply reg_role_ext; exact H | eapply role_flow_ext; exact H | eapply reg_node_ext; exact H
                 | eapply logout_node_ext; exact H | eapply withdraw_ext; exact H | eapply zero_perm_ext; exact H | eapply upd_strategy_ext; exact H
                 | eapply unlock_obj_ext; exact H ]; fail);
      try discriminate.
    - eapply vote_opext; exact H.
    - inversion H; subst. apply ext_opext. apply end_obj_ext.
    - inversion H; subst. apply ext_opext. apply lock_low_ext.
  Qed.

  Lemma step_opext (st : state) o : opext st (fst (step E_eqb sem e_default cfg_fixed st o)).
  Proof.
    unfold step. destruct (run E_eqb sem e_default cfg_fixed st o) as [s|c] eqn:Er; simpl.
    - eapply run_opext; exact Er.
    - intro Hs. split; [exact Hs | apply sevb_refl].
  Qed.

  (** ** Reachable states *)

  Definition step1 (st : state) (o : op) : state := fst (step E_eqb sem e_default cfg_fixed st o).
  Definition run_ops (st : state) (os : list op) : state := fold_left step1 os st.

  Inductive reach : state -> Prop :=
  | reach_init weights strat : reach (init_state weights strat)
  | reach_step st o : reach st -> reach (step1 st o).

  Lemma nodup_keys_seq {V} (f : N -> V) (ws : list N) : forall start,
    nodup_keys (map (fun iw : nat * N => (N.of_nat (fst iw), f (snd iw))) (combine (seq start (List.length ws)) ws)) = true /\
    forall k, existsb (fun e : N * V => fst e =? k)
                (map (fun iw : nat * N => (N.of_nat (fst iw), f (snd iw))) (combine (seq start (List.length ws)) ws)) = true ->
              N.of_nat start <= k.
  Proof.
    induction ws as [|w t IH]; intro start; simpl; [split; [reflexivity | discriminate]|].
    destruct (IH (S start)) as [H1 H2]. split.
    - rewrite H1, andb_true_r. apply negb_true_iff. apply not_true_iff_false. intro Hc. apply H2 in Hc. lia.
    - intros k Hk. apply orb_true_iff in Hk. destruct Hk as [Hk|Hk]; [apply N.eqb_eq in Hk; lia | apply H2 in Hk; lia].
  Qed.

  Lemma sinv_init weights strat : sinv (init_state weights strat : state).
  Proof.
    split; [constructor|]. unfold init_state. cbn [s_roles].
    apply (proj1 (nodup_keys_seq (fun w => (gov_st_available, w)) weights 0)).
  Qed.

  Lemma reach_sinv st : reach st -> sinv st.
  Proof.
    induction 1 as [w s|st o Hr IH]; [apply sinv_init|]. unfold step1. apply (step_opext st o IH).
  Qed.

  (** * C15: once approved or rejected, nothing of a proposal changes, whatever happens next *)
  Lemma final_step (st : state) o i p :
    sinv st -> get_prop st i = Some p -> is_open p = false ->
    exists q, get_prop (step1 st o) i = Some q /\ final_same p q /\ p_hdr q = p_hdr p.
  Proof.
    intros Hs Hg Ho. destruct (step_opext st o Hs) as [_ [_ Hb]]. destruct (Hb i p Hg) as [q [Hq [h c _]]].
    exists q. split; [exact Hq | split; [apply c; exact Ho | exact h]].
  Qed.

  Lemma final_same_open (p q : proposal) : final_same p q -> is_open q = is_open p.
  Proof. intros [H _]. unfold is_open. rewrite H. reflexivity. Qed.

  Lemma final_same_trans (p q r : proposal) : final_same p q -> final_same q r -> final_same p r.
  Proof. unfold final_same. intros [a1 [a2 [a3 [a4 [a5 [a6 [a7 a8]]]]]]] [b1 [b2 [b3 [b4 [b5 [b6 [b7 b8]]]]]]]. repeat split; congruence. Qed.

  Theorem final_forever (st : state) os i p :
    reach st -> get_prop st i = Some p -> is_open p = false ->
    exists q, get_prop (run_ops st os) i = Some q /\ final_same p q /\ p_hdr q = p_hdr p.
  Proof.
    revert st p. induction os as [|o t IH]; intros st p Hr Hg Ho; simpl.
    - exists p. split; [exact Hg|]. split; [unfold final_same; repeat split; reflexivity | reflexivity].
    - destruct (final_step st o i p (reach_sinv st Hr) Hg Ho) as [q [Hq [Hf Hh]]].
      destruct (IH (step1 st o) q (reach_step st o Hr) Hq) as [r [Hr' [Hf' Hh']]].
      { rewrite (final_same_open p q Hf). exact Ho. }
      exists r. split; [exact Hr'|]. split; [eapply final_same_trans; eauto | congruence].
  Qed.

  (** Manage runs exactly once for a proposal concluded by vote / electorate change / zero
      permission / withdrawal, never for an open one, never again afterwards (by [final_forever],
      [p_manage] is part of [final_same]) *)
  Theorem manage_once (st : state) p :
    reach st -> In p (s_props st) ->
    (is_open p = true -> p_manage p = []) /\
    (is_open p = false ->
       ((p_reason p = RS_PRIORITY \/ p_reason p = RS_CLEAR) -> p_manage p = []) /\
       (~ (p_reason p = RS_PRIORITY \/ p_reason p = RS_CLEAR) -> p_manage p = [p_status p])).
  Proof.
    intros Hr Hin. destruct (reach_sinv st Hr) as [HI _]. rewrite Forall_forall in HI. destruct (HI p Hin) as [_ _ _ d _ _].
    unfold manage_ok in d. split.
    - intro Ho. rewrite Ho in d. exact d.
    - intro Ho. rewrite Ho in d. split; intro Hx.
      + rewrite d. destruct Hx as [Hx|Hx]; rewrite Hx; reflexivity.
      + rewrite d. destruct ((p_reason p =? RS_PRIORITY) || (p_reason p =? RS_CLEAR)) eqn:Ec; [|reflexivity].
        exfalso. apply Hx. apply orb_true_iff in Ec. destruct Ec as [Ec|Ec]; apply N.eqb_eq in Ec; auto.
  Qed.

  (** * C15: tallies are counts of distinct electors' ballots *)
  Lemma nodup_keys_NoDup {V} (l : list (N * V)) : nodup_keys l = true -> NoDup (map fst l).
  Proof.
    induction l as [|[k v] t IH]; simpl; intro H; [constructor|].
    apply andb_true_iff in H. destruct H as [H1 H2]. constructor; [|apply IH; exact H2].
    intro Hin. apply in_map_iff in Hin. destruct Hin as [[k' v'] [Hk Hin]]. simpl in Hk. subst k'.
    apply negb_true_iff in H1. apply not_true_iff_false in H1. apply H1.
    apply existsb_exists. exists (k, v'). split; [exact Hin | simpl; apply N.eqb_refl].
  Qed.

  Definition tally_P (p : proposal) : Prop :=
    NoDup (map fst (p_ballots p)) /\ NoDup (map fst (h_elect (p_hdr p))) /\
    (forall v, In v (map fst (p_ballots p)) -> In v (map fst (h_elect (p_hdr p)))) /\
    p_approve p = count_ballots true (p_ballots p) /\
    p_reject p = count_ballots false (p_ballots p) /\
    h_total (p_hdr p) = N.of_nat (List.length (h_elect (p_hdr p))).

  Lemma tally_ok_P (p : proposal) : tally_ok p = true -> tally_P p.
  Proof.
    unfold tally_ok, tally_P. intro a.
    apply andb_true_iff in a; destruct a as [a a6]. apply andb_true_iff in a; destruct a as [a a5].
    apply andb_true_iff in a; destruct a as [a a4]. apply andb_true_iff in a; destruct a as [a a3].
    apply andb_true_iff in a; destruct a as [a a2].
    split; [apply nodup_keys_NoDup; exact a|]. split; [apply nodup_keys_NoDup; exact a2|].
    split; [|split; [apply N.eqb_eq; exact a4 | split; [apply N.eqb_eq; exact a5 | apply N.eqb_eq; exact a6]]].
    intros v Hv. apply in_map_iff in Hv. destruct Hv as [[v' b] [Hv Hin]]. simpl in Hv. subst v'.
    rewrite forallb_forall in a3. specialize (a3 _ Hin). unfold in_elect in a3. apply existsb_exists in a3.
    destruct a3 as [[e w] [He Hk]]. simpl in Hk. apply N.eqb_eq in Hk. subst e.
    apply in_map_iff. exists (v, w). split; [reflexivity | exact He].
  Qed.

  Theorem one_vote (st : state) p : reach st -> In p (s_props st) -> tally_P p.
  Proof.
    intros Hr Hin. destruct (reach_sinv st Hr) as [HI _]. rewrite Forall_forall in HI. apply tally_ok_P. apply (HI p Hin).
  Qed.

  (** at most one ballot is recorded per transaction, and nothing recorded is ever lost *)
  Theorem one_ballot_per_tx (st : state) o i p :
    reach st -> get_prop st i = Some p ->
    exists q l, get_prop (step1 st o) i = Some q /\ p_ballots q = l ++ p_ballots p /\ (List.length l <= 1)%nat.
  Proof.
    intros Hr Hg. destruct (step_opext st o (reach_sinv st Hr)) as [_ [_ Hb]]. destruct (Hb i p Hg) as [q [Hq [_ _ [l [Hl Hn]]]]].
    exists q, l. split; [exact Hq | split; [exact Hl | exact Hn]].
  Qed.

  (** * C15: APPROVED by the tally => the recorded expression holds of the tallies *)
  Theorem approved_sound_thm (st : state) p :
    reach st -> In p (s_props st) -> p_status p = ST_APPROVED -> by_tally p = true ->
    sem (h_expr (p_hdr p)) (count_ballots true (p_ballots p)) (count_ballots false (p_ballots p))
        (N.of_nat (List.length (h_elect (p_hdr p)))) = true /\ tally_P p.
  Proof.
    intros Hr Hin Hs Hb. pose proof (one_vote st p Hr Hin) as Ht.
    destruct (reach_sinv st Hr) as [HI _]. rewrite Forall_forall in HI. destruct (HI p Hin) as [_ b _ _ _ _].
    split; [|exact Ht]. destruct Ht as [_ [_ [_ [Ha [Hrj Htot]]]]]. rewrite <- Ha, <- Hrj, <- Htot.
    unfold approved_sound in b. rewrite Hs, Hb in b. simpl in b. exact b.
  Qed.

  (** * C15: REJECTED by the tally => approval was unreachable for the electors still counted
        ([p_cavail] = AvailableElectorateNum at that moment), for monotone expressions *)
  Theorem rejected_unreachable_thm (st : state) p :
    reach st -> In p (s_props st) -> p_status p = ST_REJECTED -> by_tally p = true ->
    mono (sem (h_expr (p_hdr p))) ->
    forall m, p_approve p + p_reject p + m <= p_cavail p ->
              ~ reachable (sem (h_expr (p_hdr p))) (p_approve p) (p_reject p) (h_total (p_hdr p)) m.
  Proof.
    intros Hr Hin Hs Hb Hm m Hle.
    destruct (reach_sinv st Hr) as [HI _]. rewrite Forall_forall in HI. destruct (HI p Hin) as [_ _ _ _ e _].
    destruct (e Hs Hb) as [E1 E2]. eapply reject_unreachable; [exact Hm | | exact Hle].
    apply decide_reject. split; [exact E1 | exact E2].
  Qed.

  (** * C15: a special proposal concluded by the tally has the ballot of a super administrator *)
  Theorem special_needs_super_thm (st : state) p :
    reach st -> In p (s_props st) -> is_open p = false -> by_tally p = true -> h_special (p_hdr p) = true ->
    p_super p = true /\
    exists v b w, In (v, b) (p_ballots p) /\ alookup N.eqb v (h_elect (p_hdr p)) = Some w /\ w = gov_super_weight.
  Proof.
    intros Hr Hin Ho Hb Hsp.
    destruct (reach_sinv st Hr) as [HI _]. rewrite Forall_forall in HI. destruct (HI p Hin) as [_ _ c _ _ _].
    unfold special_ok in c. apply andb_true_iff in c. destruct c as [c1 c2].
    assert (p_super p = true) as Hsu.
    { unfold is_open in Ho. replace (2 <=? p_status p) with true in c2 by lia. rewrite Hb, Hsp in c2. simpl in c2. exact c2. }
    split; [exact Hsu|]. apply Bool.eqb_prop in c1. rewrite Hsu in c1. symmetry in c1.
    unfold super_ballot in c1. apply existsb_exists in c1. destruct c1 as [[v b] [Hv Hw]]. simpl in Hw.
    destruct (alookup N.eqb v (h_elect (p_hdr p))) as [w|] eqn:El; [|discriminate].
    exists v, b, w. split; [exact Hv | split; [exact El | apply N.eqb_eq; exact Hw]].
  Qed.

  (** * C15: refusals (for EVERY defect configuration): a vote by an outsider or an unavailable
        admin, on a finished or paused or unknown proposal, with a garbage ballot, by a
        non-elector, or a second vote is refused and changes nothing *)
  Lemma alookup_none_in_elect (p : proposal) c : alookup N.eqb c (h_elect (p_hdr p)) = None -> in_elect p c = false.
  Proof.
    unfold in_elect. induction (h_elect (p_hdr p)) as [|[k v] t IH]; simpl; [reflexivity|].
    destruct (c =? k) eqn:Ec; [discriminate|]. intro H. rewrite N.eqb_sym, Ec. simpl. apply IH. exact H.
  Qed.

  Theorem refusals_thm cfg (st : state) c i b :
    vote_must_fail st c i b = true ->
    exists rc, rc <> 0 /\ step E_eqb sem e_default cfg st (OVote c i b) = (st, rc).
  Proof.
    unfold vote_must_fail, step, run, vote. intro H.
    destruct (negb (is_avail_admin st c)); [exists 2; split; [discriminate | reflexivity]|].
    simpl in H. destruct (get_prop st i) as [p|]; [|exists 3; split; [discriminate | reflexivity]].
    destruct (negb (p_status p =? ST_PROPOSED)); [exists 4; split; [discriminate | reflexivity]|].
    destruct (alookup N.eqb c (h_elect (p_hdr p))) as [w|] eqn:El; [|exists 7; split; [discriminate | reflexivity]].
    rewrite (alookup_in_elect p c w El) in H. simpl in H. unfold voted in H.
    destruct (existsb (fun x : N * bool => fst x =? c) (p_ballots p)); [exists 5; split; [discriminate | reflexivity]|].
    simpl in H. rewrite H. exists 6. split; [discriminate | reflexivity].
  Qed.

  Theorem refusals_withdraw cfg (st : state) c i :
    withdraw_must_fail st c i = true ->
    exists rc, rc <> 0 /\ step E_eqb sem e_default cfg st (OWithdraw c i) = (st, rc).
  Proof.
    unfold withdraw_must_fail, step, run, withdraw. intro H.
    destruct (get_prop st i) as [p|]; [|exists 1; split; [discriminate | reflexivity]].
    destruct (negb (h_from (p_hdr p) =? c)); [exists 1; split; [discriminate | reflexivity]|].
    simpl in H. rewrite H. exists 8. split; [discriminate | reflexivity].
  Qed.

  (** every failed transaction leaves the whole state as it was *)
  Theorem failed_tx_frame cfg (st : state) o rc st' :
    step E_eqb sem e_default cfg st o = (st', rc) -> rc <> 0 -> st' = st.
  Proof.
    unfold step. destruct (run E_eqb sem e_default cfg st o); intros H Hrc; inversion H; subst; [congruence | reflexivity].
  Qed.

  (** direct calls by accounts to the methods reserved to manager contracts are refused; the
      repaired ZeroPermission does nothing to a proposal that is approved or rejected *)
  Theorem guarded_refused cfg (st : state) c :
    step E_eqb sem e_default cfg st (OGuarded c) = (st, 1).
  Proof. reflexivity. Qed.

  Theorem zero_permission_closed (st : state) c i p :
    get_prop st i = Some p -> is_open p = false ->
    step E_eqb sem e_default cfg_fixed st (OZero c i) = (st, 0).
  Proof.
    intros Hg Ho. unfold step, run, zero_perm. rewrite Hg. cbn [d_zero_open cfg_fixed orb].
    unfold is_open in Ho. rewrite Ho, andb_false_r. reflexivity.
  Qed.

  (** * Bookkeeping of the available electorate (partial): established at submission and
        preserved by a vote; its preservation across role changes is checked on every trace by
        clause 10 of the judge, not proved *)
  Lemma filter_length_le {A} (f : A -> bool) l : (List.length (filter f l) <= List.length l)%nat.
  Proof. induction l as [|x t IH]; simpl; [lia|]. destruct (f x); simpl; lia. Qed.

  Theorem avail_ok_new (st : state) (p : proposal) :
    p_ballots p = [] -> p_avail p = N.of_nat (List.length (h_elect (p_hdr p))) -> avail_ok st p = true.
  Proof.
    intros Hb Ha. unfold avail_ok, avail_nonvoters. rewrite Hb, Ha. simpl.
    pose proof (filter_length_le (fun e : N * N => is_avail_admin st (fst e) && negb (voted p (fst e))) (h_elect (p_hdr p))). lia.
  Qed.

  Lemma filter_strict {A} (f g : A -> bool) l x :
    In x l -> f x = true -> g x = false -> (forall y, g y = true -> f y = true) ->
    (List.length (filter g l) < List.length (filter f l))%nat.
  Proof.
    intros Hin Hf Hg Hsub. induction l as [|y t IH]; [contradiction|]. simpl.
    assert (List.length (filter g t) <= List.length (filter f t))%nat as Hle.
    { clear -Hsub. induction t as [|z t IH]; simpl; [lia|]. destruct (g z) eqn:Eg; [rewrite (Hsub z Eg); simpl; lia|].
      destruct (f z); simpl; lia. }
    destruct Hin as [->|Hin].
    - rewrite Hf, Hg. simpl. lia.
    - specialize (IH Hin). destruct (g y) eqn:Eg; [rewrite (Hsub y Eg); simpl; lia|]. destruct (f y); simpl; lia.
  Qed.

  Theorem avail_ok_vote (st : state) (p : proposal) c ap w th :
    avail_ok st p = true -> is_avail_admin st c = true ->
    alookup N.eqb c (h_elect (p_hdr p)) = Some w -> voted p c = false ->
    avail_ok st (with_ballot p c ap w th) = true.
  Proof.
    intros Ha Hc Hel Hnv. unfold avail_ok, avail_nonvoters in *. cbn [p_ballots p_hdr p_avail with_ballot]. simpl List.length.
    assert (exists e, In e (h_elect (p_hdr p)) /\ fst e = c) as [e [He Hfe]].
    { clear -Hel. induction (h_elect (p_hdr p)) as [|[k v] t IH]; simpl in *; [discriminate|].
      destruct (c =? k) eqn:Ec; [apply N.eqb_eq in Ec; subst; exists (k, v); split; [left; reflexivity | reflexivity]|].
      destruct (IH Hel) as [e [H1 H2]]. exists e. split; [right; exact H1 | exact H2]. }
    pose proof (filter_strict
      (fun e : N * N => is_avail_admin st (fst e) && negb (voted p (fst e)))
      (fun e : N * N => is_avail_admin st (fst e) && negb (voted (with_ballot p c ap w th) (fst e)))
      (h_elect (p_hdr p)) e He) as Hlt.
    assert (forall x, voted (with_ballot p c ap w th) x = (c =? x) || voted p x) as Hv.
    { intro x. unfold voted. cbn [p_ballots with_ballot]. simpl. reflexivity. }
    assert ((List.length (filter (fun e0 : N * N => is_avail_admin st (fst e0) && negb (voted (with_ballot p c ap w th) (fst e0))) (h_elect (p_hdr p))) <
             List.length (filter (fun e0 : N * N => is_avail_admin st (fst e0) && negb (voted p (fst e0))) (h_elect (p_hdr p))))%nat) as Hl.
    { apply Hlt.
      - rewrite Hfe, Hc, Hnv. reflexivity.
      - rewrite Hv, Hfe, N.eqb_refl. simpl. apply andb_false_r.
      - intros y Hy. rewrite Hv in Hy. apply andb_true_iff in Hy. destruct Hy as [Hy1 Hy2].
        apply negb_true_iff in Hy2. apply orb_false_iff in Hy2. destruct Hy2 as [_ Hy2]. rewrite Hy1, Hy2. reflexivity. }
    lia.
  Qed.

  (** * The judge's boolean clauses: reflection, and the proved ones hold on every step of the
        repaired model *)

  Lemma forallb_combine {A B} (f : A * B -> bool) (l1 : list A) (l2 : list B) :
    forallb f (combine l1 l2) = true <->
    (forall i x y, nth_error l1 i = Some x -> nth_error l2 i = Some y -> f (x, y) = true).
  Proof.
    revert l2. induction l1 as [|a t IH]; intros [|b t2]; simpl.
    - split; [intros _ [|i] x y H; discriminate | reflexivity].
    - split; [intros _ [|i] x y H; discriminate | reflexivity].
    - split; [intros _ [|i] x y H1 H2; discriminate | reflexivity].
    - rewrite andb_true_iff, IH. split.
      + intros [H1 H2] [|i] x y Hx Hy; simpl in *; [inversion Hx; inversion Hy; subst; exact H1 | eapply H2; eauto].
      + intro H. split; [apply (H 0%nat); reflexivity | intros i x y Hx Hy; apply (H (S i)); assumption].
  Qed.

  Lemma ballots_incl_app l l0 : ballots_incl l (l0 ++ l) = true.
  Proof.
    unfold ballots_incl. apply forallb_forall. intros [v b] Hin. apply existsb_exists. exists (v, b).
    split; [apply in_or_app; right; exact Hin|]. simpl. rewrite N.eqb_refl. destruct b; reflexivity.
  Qed.

  Lemma ballots_incl_refl l : ballots_incl l l = true.
  Proof. apply (ballots_incl_app l []). Qed.

  Lemma final_same_eqb (p q : proposal) : final_same p q -> final_eqb p q = true.
  Proof.
    intros [a1 [a2 [a3 [a4 [a5 [a6 _]]]]]]. unfold final_eqb. rewrite a1, a2, a3, a4, a5, a6.
    rewrite !N.eqb_refl, !ballots_incl_refl. simpl. destruct (p_super p); reflexivity.
  Qed.

  (** what [final_eqb] says *)
  Lemma final_eqb_P (p q : proposal) :
    final_eqb p q = true ->
    p_status p = p_status q /\ p_reason p = p_reason q /\ p_approve p = p_approve q /\ p_reject p = p_reject q /\
    p_super p = p_super q /\
    (forall v b, In (v, b) (p_ballots p) <-> In (v, b) (p_ballots q)).
  Proof.
    unfold final_eqb. intro H. repeat (apply andb_true_iff in H; destruct H as [H ?]).
    repeat (split; [apply N.eqb_eq; assumption|]).
    split; [apply Bool.eqb_prop; assumption|].
    assert (forall l1 l2 v b, ballots_incl l1 l2 = true -> In (v, b) l1 -> In (v, b) l2) as Hi.
    { intros l1 l2 v b Hb Hin. unfold ballots_incl in Hb. rewrite forallb_forall in Hb. specialize (Hb _ Hin).
      apply existsb_exists in Hb. destruct Hb as [[v' b'] [Hin' Hc]]. simpl in Hc. apply andb_true_iff in Hc.
      destruct Hc as [Hc1 Hc2]. apply N.eqb_eq in Hc1. apply Bool.eqb_prop in Hc2. subst. exact Hin'. }
    intros v b. split; intro Hin; eapply Hi; eauto.
  Qed.

  Lemma step_ok_zero accts nodes (a : state) o rc (b : state) :
    step_ok E_eqb sem accts nodes a o rc b = 0 <->
    cl_final a b = true /\ cl_tally b = true /\ cl_ballots a b = true /\ cl_approved sem b = true /\
    cl_rejected sem a b = true /\ cl_special b = true /\ cl_refusal E_eqb accts nodes a o rc b = true /\
    cl_object accts nodes a b = true /\ cl_header E_eqb a b = true /\ cl_avail a b = true /\ cl_bound a b = true /\
    cl_index b = true /\ cl_record a b = true.
  Proof.
    unfold step_ok.
    destruct (cl_final a b), (cl_tally b), (cl_ballots a b), (cl_approved sem b), (cl_rejected sem a b),
             (cl_special b), (cl_refusal E_eqb accts nodes a o rc b), (cl_object accts nodes a b),
             (cl_header E_eqb a b), (cl_avail a b), (cl_bound a b), (cl_index b), (cl_record a b); simpl; split; intro H; try discriminate; try tauto;
      repeat match goal with H : _ /\ _ |- _ => destruct H end; try discriminate.
  Qed.

  Fixpoint trace_P accts nodes (a : state) (tr : list (op * N * state)) : Prop :=
    match tr with
    | [] => True
    | (o, rc, b) :: t => step_ok E_eqb sem accts nodes a o rc b = 0 /\ trace_P accts nodes b t
    end.

  Lemma step_ok_small accts nodes (a : state) o rc (b : state) : step_ok E_eqb sem accts nodes a o rc b <= 13.
  Proof.
    unfold step_ok.
    repeat match goal with |- context[if ?c then _ else _] => destruct c end; lia.
  Qed.

  Lemma trace_ok_spec accts nodes tr : forall (a : state) k,
    trace_ok E_eqb sem accts nodes a tr k = 0 <-> trace_P accts nodes a tr.
  Proof.
    induction tr as [|[[o rc] b] t IH]; intros a k; simpl; [tauto|].
    destruct (step_ok E_eqb sem accts nodes a o rc b =? 0) eqn:Ec.
    - apply N.eqb_eq in Ec. rewrite IH. tauto.
    - apply N.eqb_neq in Ec. split; [intro H; lia | intros [H _]; congruence].
  Qed.

  Lemma trace_ok_skip_nil accts nodes tr : forall (a : state) k,
    trace_ok_skip E_eqb sem [] accts nodes a tr k = trace_ok E_eqb sem accts nodes a tr k.
  Proof.
    induction tr as [|[[o rc] b] t IH]; intros a k; simpl; [reflexivity|].
    rewrite orb_false_r. rewrite IH. reflexivity.
  Qed.

  Lemma obs_list_self (l : list (N * N)) :
    forallb (fun e : N * N => existsb (fun f : N * N => (fst e =? fst f) && (snd e =? snd f)) l) l = true.
  Proof.
    apply forallb_forall. intros e He. apply existsb_exists. exists e. split; [exact He|]. rewrite !N.eqb_refl. reflexivity.
  Qed.

  Lemma hdr_eqb_refl (h : @phdr E) : hdr_eqb E_eqb h h = true.
  Proof.
    unfold hdr_eqb. rewrite !N.eqb_refl, obs_list_self, Nat.eqb_refl, E_eqb_refl. unfold seqb. rewrite !String.eqb_refl.
    destruct (h_special h), (h_zero h), (h_lock h) as [l|]; simpl; try rewrite Nat.eqb_refl; reflexivity.
  Qed.

  Lemma obs_eqb_refl accts nodes (a : state) : obs_eqb E_eqb accts nodes a a = true.
  Proof.
    unfold obs_eqb.
    assert (forallb (fun pq : proposal * proposal => obs_prop_eqb E_eqb (fst pq) (snd pq)) (combine (s_props a) (s_props a)) = true) as H1.
    { apply forallb_combine. intros i x y Hx Hy. rewrite Hx in Hy. inversion Hy; subst. cbn [fst snd].
      unfold obs_prop_eqb. rewrite hdr_eqb_refl, !N.eqb_refl.
      rewrite (final_same_eqb y y); [reflexivity|]. unfold final_same. repeat split; reflexivity. }
    assert (forallb (fun x : N => role_code_eqb (role_of a x) (role_of a x)) accts = true) as H2.
    { apply forallb_forall. intros x _. destruct (role_of a x) as [[s w]|]; cbn [role_code_eqb]; [|reflexivity].
      unfold seqb. rewrite String.eqb_refl, N.eqb_refl. reflexivity. }
    assert (forallb (fun x : N => option_eqb seqb (node_of a x) (node_of a x)) nodes = true) as H3.
    { apply forallb_forall. intros x _. destruct (node_of a x) as [s|]; cbn [option_eqb]; [|reflexivity]. apply String.eqb_refl. }
    assert (forallb (fun m : N => match strat_of a m, strat_of a m with
                      | Some (z1, e1, s1), Some (z2, e2, s2) => Bool.eqb z1 z2 && E_eqb e1 e2 && seqb s1 s2
                      | None, None => true
                      | _, _ => false end) [0; 1; 2] = true) as H4.
    { apply forallb_forall. intros m _. destruct (strat_of a m) as [[[z e] s]|]; [|reflexivity].
      unfold seqb. rewrite E_eqb_refl, String.eqb_refl. destruct z; reflexivity. }
    assert (forall l : list nat, list_eqb Nat.eqb l l = true) as H5.
    { intro l. apply list_eqb_spec; [intros x y; apply Nat.eqb_eq | reflexivity]. }
    rewrite Nat.eqb_refl, !H5, H1, H2, H3, H4. reflexivity.
  Qed.

  Theorem core_clauses_hold accts nodes (st : state) o :
    reach st ->
    let r := step E_eqb sem e_default cfg_fixed st o in
    cl_final st (fst r) = true /\ cl_tally (fst r) = true /\ cl_ballots st (fst r) = true /\
    cl_approved sem (fst r) = true /\ cl_special (fst r) = true /\
    cl_refusal E_eqb accts nodes st o (snd r) (fst r) = true.
  Proof.
    intros Hr r. pose proof (reach_sinv st Hr) as Hs.
    destruct (step_opext st o Hs) as [[HI' _] [HL HB]].
    assert (exists s n, step E_eqb sem e_default cfg_fixed st o = (s, n)) as [s1 [n1 Er]] by (destruct (step E_eqb sem e_default cfg_fixed st o); eauto).
    unfold r. rewrite Er in *. cbn [fst snd] in *.
    rewrite Forall_forall in HI'.
    split; [|split; [|split; [|split; [|split]]]].
    - unfold cl_final. apply andb_true_iff. split; [apply Nat.leb_le; exact HL|].
      apply forallb_combine. intros i x y Hx Hy. cbn [fst snd]. destruct (HB i x Hx) as [q [Hq [_ c _]]].
      unfold get_prop in Hq. rewrite Hq in Hy. inversion Hy; subst.
      destruct (is_open x) eqn:Eo; [reflexivity|]. cbn [orb]. apply final_same_eqb. apply c. reflexivity.
    - unfold cl_tally. apply forallb_forall. intros p Hp. apply (HI' p Hp).
    - unfold cl_ballots. apply forallb_combine. intros i x y Hx Hy. cbn [fst snd]. destruct (HB i x Hx) as [q [Hq [_ _ [l [Hl _]]]]].
      unfold get_prop in Hq. rewrite Hq in Hy. inversion Hy; subst. rewrite Hl. apply ballots_incl_app.
    - unfold cl_approved. apply forallb_forall. intros p Hp. apply (HI' p Hp).
    - unfold cl_special. apply forallb_forall. intros p Hp. apply (HI' p Hp).
    - unfold cl_refusal. apply andb_true_iff. split.
      + destruct (n1 =? 0) eqn:Erc; [reflexivity|]. cbn [orb]. apply N.eqb_neq in Erc.
        rewrite (failed_tx_frame cfg_fixed st o n1 s1 Er Erc). apply obs_eqb_refl.
      + destruct o; try reflexivity.
        * destruct (vote_must_fail st c i b) eqn:Ev; [|reflexivity]. cbn [negb orb].
          destruct (refusals_thm cfg_fixed st c i b Ev) as [rc [Hne Hst]]. rewrite Hst in Er. inversion Er; subst.
          apply negb_true_iff. apply N.eqb_neq. exact Hne.
        * destruct (withdraw_must_fail st c i) eqn:Ev; [|reflexivity]. cbn [negb orb].
          destruct (refusals_withdraw cfg_fixed st c i Ev) as [rc [Hne Hst]]. rewrite Hst in Er. inversion Er; subst.
          apply negb_true_iff. apply N.eqb_neq. exact Hne.
        * unfold step, run in Er. inversion Er; subst. reflexivity.
  Qed.

  Lemma reach_run_ops (st : state) os : reach st -> reach (run_ops st os).
  Proof. revert st. induction os as [|o t IH]; intros st H; simpl; [exact H | apply IH; constructor; exact H]. Qed.
End GovProofs.

(** * Facts about the tables regenerated from governance.go / role.go (re-checked on every run) *)

Lemma priority_facts :
  prio gov_ev_logout = 3 /\ prio gov_ev_freeze = 2 /\ prio gov_ev_update = 2 /\ prio gov_ev_activate = 1 /\ prio gov_ev_register = 1 /\
  prio "no such event" = 0.
Proof. vm_compute. repeat split. Qed.

(** a logout request pauses a pending freeze / activate proposal of the same object, never the converse *)
Lemma lock_order_facts :
  (prio gov_ev_freeze <? prio gov_ev_logout) = true /\ (prio gov_ev_activate <? prio gov_ev_logout) = true /\
  (prio gov_ev_logout <? prio gov_ev_freeze) = false /\ (prio gov_ev_freeze <? prio gov_ev_freeze) = false.
Proof. vm_compute. repeat split. Qed.

(** every role_mgr and proposal_strategy_mgr proposal is special; of the node_mgr ones exactly logout *)
Lemma special_facts :
  (forall ev, is_special 0 ev = true) /\ (forall ev, is_special 2 ev = true) /\
  is_special 1 gov_ev_register = false /\ is_special 1 gov_ev_logout = true /\
  gov_special_events = [gov_ev_freeze; gov_ev_activate; gov_ev_logout] /\
  gov_special_types = [gov_mod_role; gov_mod_strategy].
Proof.
  split; [intro ev; unfold is_special; replace (existsb (seqb (mod_name 0)) gov_special_types) with true by (vm_compute; reflexivity); reflexivity|].
  split; [intro ev; unfold is_special; replace (existsb (seqb (mod_name 2)) gov_special_types) with true by (vm_compute; reflexivity); reflexivity|].
  vm_compute. repeat split.
Qed.

Lemma availability_facts :
  is_avail_status "available" = true /\ is_avail_status "freezing" = true /\
  is_avail_status "frozen" = false /\ is_avail_status "activating" = false /\ is_avail_status "logouting" = false /\
  is_avail_status "forbidden" = false /\ is_avail_status "registering" = false /\ is_avail_status "unavailable" = false /\
  gov_super_weight = 2 /\ gov_normal_weight = 1.
Proof. vm_compute. repeat split. Qed.

(** * Witnesses: each listed defect violates the property on the faithful model, and the same
      history is fine on the repaired model *)

Definition w_pool : list bexp := [default_bexp; BCmp CEq NA (NConst (2#1)%Q)].
Definition w_vote3 : list (N * (bool * N * string)) :=
  [(0, (false, 0, gov_st_available)); (1, (false, 0, gov_st_available)); (2, (false, 0, gov_st_available))].
Definition w_accts : list N := [0; 1; 2; 3; 4; 100; 200].
Definition w_nodes : list N := [300].

(** ZeroPermission by an outsider on a concluded zero-permission proposal runs Manage again:
    the node under a pending logout proposal becomes forbidden without any vote (clause 8) *)
Definition w_zero_strat : list (N * (bool * N * string)) :=
  [(0, (false, 0, gov_st_available)); (1, (true, 0, gov_st_available)); (2, (true, 0, gov_st_available))].
Definition w_zero_ops : list (@op N) :=
  [ORegNode 0 300; OUpdStrategy 0 1 false 0; OLogoutNode 0 300; OZero 200 0%nat].
Lemma zero_permission_refuted :
  model_code w_pool w_accts w_nodes [2; 1; 1; 1] w_zero_strat 1 w_zero_ops = 3 * 16 + 8 /\
  model_code w_pool w_accts w_nodes [2; 1; 1; 1] w_zero_strat 0 w_zero_ops = 0.
Proof. split; vm_compute; reflexivity. Qed.

(** an elector who voted and is then frozen is subtracted from AvailableElectorateNum although
    his ballot still counts: fewer electors are counted than can still vote (clause 10) *)
Definition w_voted_ops : list (@op N) :=
  [ORegRole 0 100; OVote 1 0%nat 0; OFreeze 0 1; OVote 0 1%nat 1; OVote 2 1%nat 1; OVote 3 1%nat 1].
Lemma avail_voted_refuted :
  model_code w_pool w_accts w_nodes [2; 1; 1; 1] w_vote3 4 w_voted_ops = 5 * 16 + 10 /\
  model_code w_pool w_accts w_nodes [2; 1; 1; 1] w_vote3 0 w_voted_ops = 0.
Proof. split; vm_compute; reflexivity. Qed.

(** with the special-proposal defect as well, the proposal is REJECTED there although the three
    electors who have not voted could still approve it *)
Lemma avail_voted_rejects_reachable :
  model_code w_pool w_accts w_nodes [2; 1; 1; 1] w_vote3 12 w_voted_ops <> 0.
Proof. vm_compute. discriminate. Qed.

(** UpdateAvailableElectorateNum concludes a special proposal nobody of weight 2 voted on (clause 6) *)
Definition w_special_ops : list (@op N) :=
  [ORegRole 0 100; OVote 1 0%nat 1; OVote 2 0%nat 1; OVote 3 0%nat 1; OFreeze 0 4; OVote 0 1%nat 1; OVote 1 1%nat 1; OVote 2 1%nat 1].
Lemma special_updavail_refuted :
  model_code w_pool w_accts w_nodes [2; 1; 1; 1; 1] w_vote3 8 w_special_ops = 7 * 16 + 6 /\
  model_code w_pool w_accts w_nodes [2; 1; 1; 1; 1] w_vote3 0 w_special_ops = 0.
Proof. split; vm_compute; reflexivity. Qed.

(** a withdrawn (rejected) proposal that was paused is re-opened when the higher-priority proposal
    that paused it is rejected (clause 1) *)
Definition w_unlock_ops : list (@op N) :=
  [OFreeze 0 1; OLogout 0 1; OWithdraw 0 0%nat; OVote 0 1%nat 0; OVote 2 1%nat 0].
Lemma unlock_closed_refuted :
  model_code w_pool w_accts w_nodes [2; 1; 1; 1] w_vote3 16 w_unlock_ops = 4 * 16 + 1 /\
  model_code w_pool w_accts w_nodes [2; 1; 1; 1] w_vote3 0 w_unlock_ops = 0.
Proof. split; vm_compute; reflexivity. Qed.

(** a rejected logout request of an available admin leaves every open proposal that has him in its
    electorate with one more "available" elector than before the request: more than the electorate (clause 11) *)
Definition w_logout_ops : list (@op N) :=
  [ORegRole 0 100; OLogout 1 1; OVote 0 1%nat 0; OVote 2 1%nat 0].
Lemma logout_inc_refuted :
  model_code w_pool w_accts w_nodes [2; 1; 1; 1] w_vote3 32 w_logout_ops = 3 * 16 + 11 /\
  model_code w_pool w_accts w_nodes [2; 1; 1; 1] w_vote3 0 w_logout_ops = 0.
Proof. split; vm_compute; reflexivity. Qed.

(** the hypothesis "monotone" of the rejection theorem is needed: with the admitted expression
    [a == 2] the repaired model rejects after the first approval (clause 5) *)
Definition w_nonmono_strat : list (N * (bool * N * string)) :=
  [(0, (false, 1, gov_st_available)); (1, (false, 0, gov_st_available)); (2, (false, 0, gov_st_available))].
Lemma nonmonotone_refuted_gov :
  admitted (pool_sem w_pool 1) 4 = true /\
  model_code w_pool w_accts w_nodes [2; 1; 1; 1] w_nonmono_strat 0 [ORegRole 0 100; OVote 0 0%nat 1] = 1 * 16 + 5.
Proof. split; vm_compute; reflexivity. Qed.

(** * Non-vacuity: reachable states in which the hypotheses of the theorems hold *)
Definition w_sem := pool_sem w_pool.
Definition w_init : @state N := init_state [2; 1; 1; 1] w_vote3.

Example ex_approved_and_rejected :
  let st := run_ops N.eqb w_sem 0 w_init
              [ORegRole 0 100; OVote 1 0%nat 1; OVote 2 0%nat 1; OVote 0 0%nat 1;
               ORegNode 0 300; OVote 1 1%nat 0; OVote 2 1%nat 0; OVote 3 1%nat 0; OVote 0 0%nat 0; OVote 200 1%nat 1] in
  reach N.eqb w_sem 0 st /\
  exists p q, nth_error (s_props st) 0 = Some p /\ nth_error (s_props st) 1 = Some q /\
    p_status p = ST_APPROVED /\ by_tally p = true /\ h_special (p_hdr p) = true /\ p_super p = true /\ p_manage p = [ST_APPROVED] /\
    p_status q = ST_REJECTED /\ by_tally q = true /\ h_special (p_hdr q) = false /\ p_manage q = [ST_REJECTED] /\
    role_of st 100 = Some (gov_st_available, 1) /\ node_of st 300 = Some gov_st_unavailable.
Proof.
  split; [apply reach_run_ops; constructor|]. vm_compute. eexists. eexists. repeat split.
Qed.

(** the monotonicity hypothesis of the rejection theorem is satisfiable: simple majority
    [a > t/2] (the default strategy; [default_bexp_spec] ties the running instance to it) *)
Example ex_mono_hypothesis : mono ((fun _ : unit => simple_majority) tt).
Proof. exact simple_majority_mono. Qed.
