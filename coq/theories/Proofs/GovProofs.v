(** Proofs about [Model/Gov.v] for the repaired configuration [cfg_fixed], over all
    transaction sequences and for an arbitrary expression type and decision predicate. *)
From BX Require Import Base.Prelude Base.Fsm Model.Strategy Model.Gov Proofs.StrategyProofs.
From BXGen Require Import Gen_GovConsts.
From Coq Require Import String ZifyBool ZifyN ZifyNat.
Local Open Scope N_scope.

(** * Lists *)

Lemma upd_nth_length {A} (f : A -> A) l : forall i, List.length (upd_nth i f l) = List.length l.
Proof. induction l as [|x t IH]; intros [|i]; simpl; auto. Qed.

Lemma nth_upd_nth_eq {A} (f : A -> A) l : forall i x, nth_error l i = Some x -> nth_error (upd_nth i f l) i = Some (f x).
Proof.
  induction l as [|y t IH]; intros [|i] x H; simpl in *; try discriminate.
  - inversion H; reflexivity.
  - apply IH; exact H.
Qed.

Lemma nth_upd_nth_neq {A} (f : A -> A) l : forall i j, i <> j -> nth_error (upd_nth i f l) j = nth_error l j.
Proof.
  induction l as [|y t IH]; intros [|i] [|j] H; simpl; auto; try congruence.
Qed.

Lemma upd_nth_none {A} (f : A -> A) l : forall i, nth_error l i = None -> upd_nth i f l = l.
Proof.
  induction l as [|y t IH]; intros [|i] H; simpl in *; auto; try discriminate. rewrite IH; auto.
Qed.

Lemma upd_nth_twice {A} (f g : A -> A) l : forall i, upd_nth i g (upd_nth i f l) = upd_nth i (fun x => g (f x)) l.
Proof. induction l as [|y t IH]; intros [|i]; simpl; auto. rewrite IH; reflexivity. Qed.

Lemma upd_nth_ext {A} (f g : A -> A) l : forall i, (forall x, nth_error l i = Some x -> f x = g x) -> upd_nth i f l = upd_nth i g l.
Proof.
  induction l as [|y t IH]; intros [|i] H; simpl; auto.
  - rewrite (H y); auto.
  - rewrite (IH i); auto.
Qed.

Lemma Forall_upd_nth {A} (P : A -> Prop) (f : A -> A) l : forall i,
  Forall P l -> (forall x, nth_error l i = Some x -> P x -> P (f x)) -> Forall P (upd_nth i f l).
Proof.
  induction l as [|y t IH]; intros [|i] HF H; simpl; auto.
  - inversion HF; subst. constructor; [apply (H y); [reflexivity | assumption] | assumption].
  - inversion HF; subst. constructor; [assumption|]. apply IH; [assumption|]. intros x Hx. apply H. exact Hx.
Qed.

Lemma existsb_key_aput {V} (l : list (N * V)) x v k :
  k <> x -> existsb (fun e : N * V => fst e =? k) (aput x v l) = existsb (fun e : N * V => fst e =? k) l.
Proof.
  intro Hne. induction l as [|[k2 v2] t IH]; simpl.
  - destruct (x =? k) eqn:E; [apply N.eqb_eq in E; congruence | reflexivity].
  - destruct (k2 =? x) eqn:E; simpl; [reflexivity | rewrite IH; reflexivity].
Qed.

Lemma nodup_keys_aput {V} (l : list (N * V)) x v : nodup_keys l = true -> nodup_keys (aput x v l) = true.
Proof.
  induction l as [|[k v0] t IH]; simpl; intro H; [reflexivity|].
  apply andb_true_iff in H. destruct H as [H1 H2].
  destruct (k =? x) eqn:E; simpl.
  - rewrite H1, H2. reflexivity.
  - rewrite existsb_key_aput by (intro Hc; subst; rewrite N.eqb_refl in E; discriminate).
    rewrite H1, IH by exact H2. reflexivity.
Qed.

Lemma alookup_aput_eq {V} (l : list (N * V)) x v : alookup N.eqb x (aput x v l) = Some v.
Proof.
  induction l as [|[k v0] t IH]; simpl.
  - rewrite N.eqb_refl. reflexivity.
  - destruct (k =? x) eqn:E; simpl.
    + rewrite N.eqb_sym, E. reflexivity.
    + rewrite N.eqb_sym, E. exact IH.
Qed.

Lemma alookup_aput_neq {V} (l : list (N * V)) x y v : x <> y -> alookup N.eqb y (aput x v l) = alookup N.eqb y l.
Proof.
  intro Hne. induction l as [|[k v0] t IH]; simpl.
  - destruct (y =? x) eqn:E; [apply N.eqb_eq in E; congruence | reflexivity].
  - destruct (k =? x) eqn:E; simpl.
    + apply N.eqb_eq in E. subst k. destruct (y =? x) eqn:E2; [apply N.eqb_eq in E2; congruence | reflexivity].
    + destruct (y =? k); [reflexivity | exact IH].
Qed.

Section GovProofs.
  Context {E : Type}.
  Variable E_eqb : E -> E -> bool.
  Variable sem : E -> N -> N -> N -> bool.
  Variable e_default : E.
  Hypothesis E_eqb_refl : forall e, E_eqb e e = true.

  Notation proposal := (@proposal E).
  Notation state := (@state E).
  Notation op := (@op E).

  (** ** Invariant of one proposal *)

  Definition manage_ok (p : proposal) : Prop :=
    if is_open p then p_manage p = []
    else p_manage p = (if (p_reason p =? RS_PRIORITY) || (p_reason p =? RS_CLEAR) then [] else [p_status p]).

  Definition rejected_inv (p : proposal) : Prop :=
    p_status p = ST_REJECTED -> by_tally p = true ->
    sem (h_expr (p_hdr p)) (p_approve p) (p_reject p) (h_total (p_hdr p)) = false /\
    sem (h_expr (p_hdr p)) (amax false (p_reject p) (p_cavail p)) (p_reject p) (h_total (p_hdr p)) = false.

  Record pinv (p : proposal) : Prop := {
    pi_tally : tally_ok p = true;
    pi_appr : approved_sound sem p = true;
    pi_spec : special_ok p = true;
    pi_man : manage_ok p;
    pi_rej : rejected_inv p;
    pi_st : p_status p <= 3 }.

  Definition sinv (st : state) : Prop :=
    Forall pinv (s_props st) /\ nodup_keys (s_roles st) = true.

  (** ** How one proposal may evolve: nothing of a finished proposal changes except the two
         bookkeeping numbers AvailableElectorateNum / ThresholdApproveNum; ballots and tallies
         change only by a vote (handled separately) *)
  Record pev (p q : proposal) : Prop := {
    pe_hdr : p_hdr q = p_hdr p;
    pe_ballots : p_ballots q = p_ballots p;
    pe_appr : p_approve q = p_approve p;
    pe_rej : p_reject q = p_reject p;
    pe_super : p_super q = p_super p;
    pe_closed : is_open p = false ->
                p_status q = p_status p /\ p_reason q = p_reason p /\ p_manage q = p_manage p /\ p_cavail q = p_cavail p }.

  Lemma pev_refl p : pev p p.
  Proof. constructor; auto. Qed.

  Lemma pev_trans p q r : pev p q -> pev q r -> pev p r.
  Proof.
    intros [a1 a2 a3 a4 a5 a6] [b1 b2 b3 b4 b5 b6]. constructor; try congruence.
    intro Ho. destruct (a6 Ho) as [c1 [c2 [c3 c4]]].
    assert (is_open q = false) as Hq by (unfold is_open in *; rewrite c1; exact Ho).
    destruct (b6 Hq) as [d1 [d2 [d3 d4]]]. repeat split; congruence.
  Qed.

  Definition sev (st st' : state) : Prop :=
    (List.length (s_props st) <= List.length (s_props st'))%nat /\
    forall i p, get_prop st i = Some p -> exists q, get_prop st' i = Some q /\ pev p q.

  Lemma sev_refl st : sev st st.
  Proof. split; [lia|]. intros i p H. exists p. split; [exact H | apply pev_refl]. Qed.

  Lemma sev_trans a b c : sev a b -> sev b c -> sev a c.
  Proof.
    intros [L1 H1] [L2 H2]. split; [lia|]. intros i p Hp.
    destruct (H1 i p Hp) as [q [Hq E1]]. destruct (H2 i q Hq) as [r [Hr E2]].
    exists r. split; [exact Hr | eapply pev_trans; eauto].
  Qed.

  (** good extension *)
  Definition ext (st st' : state) : Prop := sinv st -> sinv st' /\ sev st st'.

  Lemma ext_refl st : ext st st.
  Proof. intro H. split; [exact H | apply sev_refl]. Qed.

  Lemma ext_trans a b c : ext a b -> ext b c -> ext a c.
  Proof.
    intros H1 H2 Ha. destruct (H1 Ha) as [Hb S1]. destruct (H2 Hb) as [Hc S2].
    split; [exact Hc | eapply sev_trans; eauto].
  Qed.

  (** a change that leaves proposals alone *)
  Lemma ext_same st st' :
    s_props st' = s_props st -> (nodup_keys (s_roles st) = true -> nodup_keys (s_roles st') = true) -> ext st st'.
  Proof.
    intros Hp Hr [Hi Hn]. split.
    - split; [rewrite Hp; exact Hi | auto].
    - split; [rewrite Hp; lia|]. intros i p H. exists p. split; [|apply pev_refl].
      unfold get_prop in *. rewrite Hp. exact H.
  Qed.

  (** a change of one proposal *)
  Lemma ext_upd st st' i p f :
    get_prop st i = Some p ->
    s_props st' = upd_nth i f (s_props st) -> s_roles st' = s_roles st ->
    pev p (f p) -> (pinv p -> pinv (f p)) -> ext st st'.
  Proof.
    intros Hg Hp Hr He Hi [HI Hn]. split.
    - split; [|rewrite Hr; exact Hn]. rewrite Hp. apply Forall_upd_nth; [exact HI|].
      intros x Hx Px. unfold get_prop in Hg. rewrite Hg in Hx. inversion Hx; subst. apply Hi. exact Px.
    - split; [rewrite Hp, upd_nth_length; lia|]. intros j q Hq.
      unfold get_prop in *. rewrite Hp. destruct (Nat.eq_dec i j) as [->|Hne].
      + rewrite Hg in Hq. inversion Hq; subst. exists (f q). split; [apply nth_upd_nth_eq; exact Hg | exact He].
      + exists q. split; [rewrite nth_upd_nth_neq by exact Hne; exact Hq | apply pev_refl].
  Qed.

  Lemma get_set_prop (st : state) i q : s_props (set_prop st i q) = upd_nth i (fun _ => q) (s_props st).
  Proof. reflexivity. Qed.

  Lemma props_change_status (st : state) i ns :
    s_props (change_status st i ns) = upd_nth i (fun p => with_status p ns) (s_props st) /\
    s_roles (change_status st i ns) = s_roles st.
  Proof.
    unfold change_status. destruct (get_prop st i) as [p|] eqn:Eg.
    - simpl. split; [|reflexivity]. apply upd_nth_ext. intros x Hx. unfold get_prop in Eg. congruence.
    - split; [|reflexivity]. unfold get_prop in Eg. rewrite upd_nth_none by exact Eg. reflexivity.
  Qed.

  (** ** The proposal transformers of the model *)

  Lemma pev_open_gen (p q : proposal) :
    is_open p = true -> p_hdr q = p_hdr p -> p_ballots q = p_ballots p -> p_approve q = p_approve p ->
    p_reject q = p_reject p -> p_super q = p_super p -> pev p q.
  Proof. intros Ho H1 H2 H3 H4 H5. constructor; auto. intro Hc. congruence. Qed.

  Lemma pev_with_avail (p : proposal) n th : pev p (with_avail p n th).
  Proof. constructor; auto. Qed.

  Lemma pinv_with_avail (p : proposal) n th : pinv p -> pinv (with_avail p n th).
  Proof. intros [a b c d e f]. constructor; auto. Qed.

  Lemma pinv_pause (p : proposal) ns : is_open p = true -> ns < 2 -> pinv p -> pinv (with_status p ns).
  Proof.
    intros Ho Hns [a b c d e f]. unfold is_open in Ho.
    assert (ns <? 2 = true) as Hb by lia.
    constructor.
    - exact a.
    - unfold approved_sound in *. cbn [p_status with_status].
      replace (ns =? ST_APPROVED) with false by (unfold ST_APPROVED; lia). reflexivity.
    - unfold special_ok in *. cbn [p_status p_super p_hdr p_ballots with_status] in *.
      apply andb_true_iff in c. destruct c as [c1 _]. apply andb_true_iff. split; [exact c1|].
      replace (2 <=? ns) with false by lia. reflexivity.
    - unfold manage_ok, is_open in *. cbn [p_status with_status p_manage]. rewrite Hb. rewrite Ho in d. exact d.
    - intros H1. cbn [p_status with_status] in H1. unfold ST_REJECTED in H1. lia.
    - cbn [p_status with_status]. lia.
  Qed.

  Lemma pinv_close_nomanage (p : proposal) r :
    is_open p = true -> (r = RS_PRIORITY \/ r = RS_CLEAR) -> pinv p ->
    pinv (with_status (with_reason p r) ST_REJECTED).
  Proof.
    intros Ho Hr [a b c d e f]. unfold is_open in Ho.
    assert (by_tally (with_status (with_reason p r) ST_REJECTED) = false) as Hbt.
    { unfold by_tally. cbn [p_reason with_status with_reason]. unfold RS_NORMAL, RS_ELECTORATE, RS_PRIORITY, RS_CLEAR in *.
      destruct Hr; subst; reflexivity. }
    constructor.
    - exact a.
    - unfold approved_sound. cbn [p_status with_status]. reflexivity.
    - unfold special_ok in *. apply andb_true_iff in c. destruct c as [c1 _]. apply andb_true_iff. split; [exact c1|].
      rewrite Hbt. rewrite andb_false_r. reflexivity.
    - unfold manage_ok, is_open in *. cbn [p_status p_reason with_status with_reason p_manage].
      rewrite Ho in d. rewrite d. unfold ST_REJECTED, RS_PRIORITY, RS_CLEAR in *. destruct Hr; subst; reflexivity.
    - intros _ H2. rewrite Hbt in H2. discriminate.
    - cbn [p_status with_status]. unfold ST_REJECTED. lia.
  Qed.

  (** when may a proposal be concluded through handleResult with (status, reason)? *)
  Definition close_ok (p : proposal) (ns reason : N) : Prop :=
    (ns = ST_APPROVED \/ ns = ST_REJECTED) /\
    (reason = RS_NORMAL \/ reason = RS_ZERO \/ reason = RS_WITHDRAWN \/ reason = RS_ELECTORATE) /\
    ((reason = RS_NORMAL \/ reason = RS_ELECTORATE) ->
       (ns = ST_APPROVED -> sem (h_expr (p_hdr p)) (p_approve p) (p_reject p) (h_total (p_hdr p)) = true) /\
       (ns = ST_REJECTED ->
          sem (h_expr (p_hdr p)) (p_approve p) (p_reject p) (h_total (p_hdr p)) = false /\
          sem (h_expr (p_hdr p)) (amax false (p_reject p) (p_avail p)) (p_reject p) (h_total (p_hdr p)) = false) /\
       (h_special (p_hdr p) = true -> p_super p = true)).

  Lemma pinv_close (p : proposal) ns reason :
    is_open p = true -> close_ok p ns reason -> pinv p -> pinv (with_close (with_status p ns) ns reason).
  Proof.
    intros Ho [Hns [Hr Hc]] [a b c d e f]. unfold is_open in Ho.
    constructor.
    - exact a.
    - unfold approved_sound, by_tally. cbn [p_status p_reason p_hdr p_approve p_reject with_close with_status].
      destruct (ns =? ST_APPROVED) eqn:E1; [|reflexivity].
      destruct ((reason =? RS_NORMAL) || (reason =? RS_ELECTORATE)) eqn:E2; [|reflexivity].
      cbn [andb negb orb]. apply Hc; [|apply N.eqb_eq; exact E1].
      apply orb_true_iff in E2. destruct E2 as [E2|E2]; apply N.eqb_eq in E2; auto.
    - unfold special_ok in *. apply andb_true_iff in c. destruct c as [c1 _]. apply andb_true_iff. split; [exact c1|].
      unfold by_tally. cbn [p_status p_reason p_hdr p_super with_close with_status].
      destruct ((reason =? RS_NORMAL) || (reason =? RS_ELECTORATE)) eqn:E2; [|rewrite andb_false_r; reflexivity].
      destruct (h_special (p_hdr p)) eqn:E3; [|rewrite andb_false_r; reflexivity].
      apply orb_true_iff. right. apply Hc; [|reflexivity].
      apply orb_true_iff in E2. destruct E2 as [E2|E2]; apply N.eqb_eq in E2; auto.
    - unfold manage_ok, is_open in *. cbn [p_status p_reason p_manage with_close with_status].
      rewrite Ho in d. rewrite d.
      replace (ns <? 2) with false by (unfold ST_APPROVED, ST_REJECTED in Hns; lia).
      replace ((reason =? RS_PRIORITY) || (reason =? RS_CLEAR)) with false; [reflexivity|].
      unfold RS_NORMAL, RS_ZERO, RS_WITHDRAWN, RS_ELECTORATE, RS_PRIORITY, RS_CLEAR in *. lia.
    - intros H1 H2. unfold by_tally in H2. cbn [p_status p_reason p_hdr p_approve p_reject p_cavail p_avail with_close with_status] in *.
      apply Hc; [|exact H1].
      apply orb_true_iff in H2. destruct H2 as [E2|E2]; apply N.eqb_eq in E2; auto.
    - cbn [p_status with_close with_status]. unfold ST_APPROVED, ST_REJECTED in Hns. lia.
  Qed.

  (** ** State-level primitives *)

  Lemma ext_set_role (st : state) x v : ext st (set_role st x v).
  Proof. apply ext_same; [reflexivity|]. intro H. apply nodup_keys_aput. exact H. Qed.

  Lemma ext_set_node (st : state) x v : ext st (set_node st x v).
  Proof. apply ext_same; [reflexivity | auto]. Qed.

  Lemma ext_set_strat (st : state) m v : ext st (set_strat st m v).
  Proof. apply ext_same; [reflexivity | auto]. Qed.

  Lemma usi_props (st : state) :
    s_props (update_strategy_info sem e_default st) = s_props st /\
    s_roles (update_strategy_info sem e_default st) = s_roles st.
  Proof.
    unfold update_strategy_info.
    generalize (avail_num st). intro n. generalize [1; 0; 2]. intro l. revert st.
    induction l as [|m t IH]; intro st; simpl; [split; reflexivity|].
    match goal with |- context[fold_left _ t ?s0] => destruct (IH s0) as [H1 H2]; rewrite H1, H2 end.
    destruct (strat_of st m) as [[[z e] stt]|]; [|split; reflexivity].
    destruct (seqb stt gov_st_updating || z); [split; reflexivity|].
    destruct (threshold (sem e) 0 0 n); split; reflexivity.
  Qed.

  Lemma ext_usi (st : state) : ext st (update_strategy_info sem e_default st).
  Proof. destruct (usi_props st) as [H1 H2]. apply ext_same; [exact H1 | rewrite H2; auto]. Qed.

  Lemma ext_set_avail (st : state) i p n th :
    get_prop st i = Some p -> ext st (set_prop st i (with_avail p n th)).
  Proof.
    intro Hg. apply (ext_upd st _ i p (fun _ => with_avail p n th) Hg); try reflexivity.
    - apply pev_with_avail.
    - apply pinv_with_avail.
  Qed.

  Lemma ext_pause (st : state) i p ns :
    get_prop st i = Some p -> is_open p = true -> ns < 2 -> ext st (change_status st i ns).
  Proof.
    intros Hg Ho Hns. destruct (props_change_status st i ns) as [H1 H2].
    apply (ext_upd st _ i p (fun p => with_status p ns) Hg H1 H2).
    - apply pev_open_gen; auto.
    - apply pinv_pause; auto.
  Qed.

  Lemma ext_close_nomanage (st : state) i p r :
    get_prop st i = Some p -> is_open p = true -> (r = RS_PRIORITY \/ r = RS_CLEAR) ->
    ext st (change_status (set_prop st i (with_reason p r)) i ST_REJECTED).
  Proof.
    intros Hg Ho Hr.
    destruct (props_change_status (set_prop st i (with_reason p r)) i ST_REJECTED) as [H1 H2].
    apply (ext_upd st _ i p (fun _ => with_status (with_reason p r) ST_REJECTED) Hg).
    - rewrite H1, get_set_prop, upd_nth_twice. reflexivity.
    - rewrite H2. reflexivity.
    - apply pev_open_gen; auto.
    - apply pinv_close_nomanage; auto.
  Qed.

  (** the status change + ghost bookkeeping at the head of [conclude_body] *)
  Definition close_state (st : state) (i : nat) (ns reason : N) : state :=
    let st0 := change_status st i ns in
    match get_prop st0 i with
    | Some q => set_prop st0 i (with_close q ns reason)
    | None => st0
    end.

  Lemma ext_close (st : state) i p ns reason :
    get_prop st i = Some p -> is_open p = true -> close_ok p ns reason ->
    ext st (close_state st i ns reason) /\
    get_prop (close_state st i ns reason) i = Some (with_close (with_status p ns) ns reason).
  Proof.
    intros Hg Ho Hc. unfold close_state.
    destruct (props_change_status st i ns) as [H1 H2].
    assert (get_prop (change_status st i ns) i = Some (with_status p ns)) as Hg0.
    { unfold get_prop. rewrite H1. apply (nth_upd_nth_eq (fun q : proposal => with_status q ns)). exact Hg. }
    rewrite Hg0. split.
    - apply (ext_upd st _ i p (fun _ => with_close (with_status p ns) ns reason) Hg).
      + rewrite get_set_prop, H1, upd_nth_twice. reflexivity.
      + simpl. exact H2.
      + apply pev_open_gen; auto.
      + apply pinv_close; auto.
    - unfold get_prop. rewrite get_set_prop. eapply (nth_upd_nth_eq (fun _ => _)). exact Hg0.
  Qed.

  Lemma get_prop_change_status_other (st : state) i j ns :
    i <> j -> get_prop (change_status st i ns) j = get_prop st j.
  Proof.
    intro Hne. destruct (props_change_status st i ns) as [H1 _]. unfold get_prop. rewrite H1.
    apply nth_upd_nth_neq. exact Hne.
  Qed.

  (** ** The mutually recursive core: UpdateAvailableElectorateNum, the cascade over the
         not-closed proposals, Manage, handleResult *)

  Definition good_rec (rec : state -> nat -> N -> N -> res state) : Prop :=
    forall st i ns reason p st',
      get_prop st i = Some p -> is_open p = true -> close_ok p ns reason ->
      rec st i ns reason = Ok st' -> ext st st'.

  Section WithRec.
    Variable rec : state -> nat -> N -> N -> res state.
    Hypothesis Hrec : good_rec rec.

    Lemma update_avail_ext st i n st' :
      update_avail sem cfg_fixed rec st i n = Ok st' -> ext st st'.
    Proof.
      unfold update_avail. destruct (get_prop st i) as [p|] eqn:Hg; [|discriminate].
      destruct (h_zero (p_hdr p)); [intro H; inversion H; apply ext_refl|].
      destruct (threshold (sem (h_expr (p_hdr p))) (p_approve p) (p_reject p) (h_total (p_hdr p))) as [th|]; [|discriminate].
      cbn [d_underflow d_special_updavail cfg_fixed].
      pose proof (ext_set_avail st i p n th Hg) as E1.
      set (st1 := set_prop st i (with_avail p n th)) in *.
      assert (get_prop st1 i = Some (with_avail p n th)) as Hg1.
      { unfold st1, get_prop. rewrite get_set_prop. eapply (nth_upd_nth_eq (fun _ => _)). exact Hg. }
      destruct (decide (sem (h_expr (p_hdr p))) false (p_approve p) (p_reject p) (h_total (p_hdr p)) n) eqn:Ed.
      - intro H; inversion H; subst; exact E1.
      - destruct (h_special (p_hdr p) && negb (p_super p) && negb false) eqn:Eb; [intro H; inversion H; subst; exact E1|].
        destruct (2 <=? p_status p) eqn:Ec; [discriminate|].
        intro H. eapply ext_trans; [exact E1|].
        eapply (Hrec st1 i ST_APPROVED RS_ELECTORATE _ st' Hg1); [unfold is_open; cbn [p_status with_avail]; lia | | exact H].
        split; [left; reflexivity|]. split; [right; right; right; reflexivity|]. intros _.
        cbn [p_hdr p_approve p_reject p_avail p_super with_avail].
        split; [intros _; apply decide_approve in Ed; exact Ed|].
        split; [unfold ST_APPROVED, ST_REJECTED; intro Hx; lia|].
        intro Hs. rewrite Hs in Eb. destruct (p_super p); [reflexivity | discriminate].
      - destruct (h_special (p_hdr p) && negb (p_super p) && negb false) eqn:Eb; [intro H; inversion H; subst; exact E1|].
        destruct (2 <=? p_status p) eqn:Ec; [discriminate|].
        intro H. eapply ext_trans; [exact E1|].
        eapply (Hrec st1 i ST_REJECTED RS_ELECTORATE _ st' Hg1); [unfold is_open; cbn [p_status with_avail]; lia | | exact H].
        split; [right; reflexivity|]. split; [right; right; right; reflexivity|]. intros _.
        cbn [p_hdr p_approve p_reject p_avail p_super with_avail].
        split; [unfold ST_APPROVED, ST_REJECTED; intro Hx; lia|].
        split; [intros _; apply decide_reject in Ed; exact Ed|].
        intro Hs. rewrite Hs in Eb. destruct (p_super p); [reflexivity | discriminate].
    Qed.

    Lemma cascade_fold_fail x inc snap c : fold_left (cascade_step sem cfg_fixed rec x inc) snap (Fail c) = Fail c.
    Proof. induction snap as [|ip t IH]; simpl; [reflexivity | exact IH]. Qed.

    Lemma cascade_fold_ext base x inc snap : forall s0 st',
      ext base s0 -> fold_left (cascade_step sem cfg_fixed rec x inc) snap (Ok s0) = Ok st' -> ext base st'.
    Proof.
      induction snap as [|[i op] t IH]; intros s0 st' Hacc; simpl.
      - intro H; inversion H; subst; exact Hacc.
      - destruct op as [p|]; [|apply IH; exact Hacc]. cbn [snd fst].
        destruct (existsb (fun e : N * N => fst e =? x) (h_elect (p_hdr p))); [|apply IH; exact Hacc].
        cbn [d_avail_voted cfg_fixed].
        match goal with |- context[if ?c then Ok s0 else _] => destruct c end; [apply IH; exact Hacc|].
        destruct (update_avail sem cfg_fixed rec s0 i (if inc then wrap64 (p_avail p + 1) else wrap64 (p_avail p + W64 - 1))) as [s1|c] eqn:Eu.
        + apply IH. eapply ext_trans; [exact Hacc|]. eapply update_avail_ext; exact Eu.
        + rewrite cascade_fold_fail. discriminate.
    Qed.

    Lemma cascade_ext st x inc st' : cascade sem cfg_fixed rec st x inc = Ok st' -> ext st st'.
    Proof. unfold cascade. apply cascade_fold_ext. apply ext_refl. Qed.

    Lemma manage_ext st m ev next last obj extra st' :
      manage sem e_default cfg_fixed rec st m ev next last obj extra = Ok st' -> ext st st'.
    Proof.
      unfold manage. destruct (m =? 0).
      - destruct (seqb ev "unpause"); [intro H; inversion H; apply ext_refl|].
        destruct (role_of st obj) as [[s w]|]; [|discriminate].
        destruct (fire gov_role_fsm s next last) as [s'|]; [|discriminate].
        pose proof (ext_set_role st obj (s', w)) as E1. set (st1 := set_role st obj (s', w)) in *.
        destruct (seqb ev gov_ev_register).
        { destruct (seqb next gov_ev_approve); intro H; inversion H; subst; [eapply ext_trans; [exact E1 | apply ext_usi] | exact E1]. }
        destruct (seqb ev gov_ev_freeze || seqb ev gov_ev_activate).
        { destruct (seqb next gov_ev_approve); [|intro H; inversion H; subst; exact E1].
          destruct (cascade sem cfg_fixed rec st1 obj (seqb ev gov_ev_activate)) as [s2|c] eqn:Ec; [|discriminate].
          intro H; inversion H; subst. eapply ext_trans; [exact E1|]. eapply ext_trans; [eapply cascade_ext; exact Ec | apply ext_usi]. }
        destruct (seqb ev gov_ev_logout); [|intro H; inversion H; subst; exact E1].
        destruct (seqb next gov_ev_reject && is_avail_status s'); [|intro H; inversion H; subst; exact E1].
        destruct (cascade sem cfg_fixed rec st1 obj true) as [s2|c] eqn:Ec; [|discriminate].
        intro H; inversion H; subst. eapply ext_trans; [exact E1|]. eapply ext_trans; [eapply cascade_ext; exact Ec | apply ext_usi].
      - destruct (m =? 1).
        + destruct (node_of st obj) as [s|]; [|discriminate].
          destruct (fire gov_node_fsm s next last) as [s'|]; [|discriminate].
          intro H; inversion H; subst. apply ext_set_node.
        + destruct (strat_of st (obj - 400)) as [[[z e] s]|]; [|discriminate].
          destruct (fire gov_strategy_fsm s next last) as [s'|]; [|discriminate].
          pose proof (ext_set_strat st (obj - 400) (z, e, s')) as E1. set (st1 := set_strat st (obj - 400) (z, e, s')) in *.
          destruct (seqb next gov_ev_approve && seqb ev gov_ev_update); [|intro H; inversion H; subst; exact E1].
          destruct extra as [[te ee]|]; [|discriminate].
          destruct (match te with Some b => b | None => z end).
          * intro H; inversion H; subst. eapply ext_trans; [exact E1 | apply ext_set_strat].
          * destruct (threshold _ 0 0 (avail_num st1)); intro H; inversion H; subst; (eapply ext_trans; [exact E1 | apply ext_set_strat]).
    Qed.

    Lemma conclude_body_ext st i ns reason p st' :
      get_prop st i = Some p -> is_open p = true -> close_ok p ns reason ->
      conclude_body sem e_default cfg_fixed rec st i ns reason = Ok st' -> ext st st'.
    Proof.
      intros Hg Ho Hc. unfold conclude_body. rewrite Hg.
      destruct (ext_close st i p ns reason Hg Ho Hc) as [E1 Hg1].
      fold (close_state st i ns reason). set (st1 := close_state st i ns reason) in *.
      cbn [d_unlock_closed cfg_fixed].
      destruct (h_lock (p_hdr p)) as [l|].
      - destruct (get_prop st1 l) as [lp|] eqn:Hl.
        + destruct (negb false && negb (p_status lp =? ST_PAUSED)) eqn:Eb.
          * intro H. eapply ext_trans; [exact E1 | eapply manage_ext; exact H].
          * assert (p_status lp = ST_PAUSED) as Hp.
            { cbn [negb andb] in Eb. apply negb_false_iff in Eb. apply N.eqb_eq in Eb. exact Eb. }
            assert (is_open lp = true) as Hlo by (unfold is_open; rewrite Hp; reflexivity).
            destruct (ns =? ST_APPROVED).
            -- intro H. eapply ext_trans; [exact E1|]. eapply ext_trans; [|eapply manage_ext; exact H].
               eapply ext_close_nomanage; eauto.
            -- intro H. eapply ext_trans; [exact E1|]. eapply ext_trans; [|eapply manage_ext; exact H].
               eapply ext_pause; eauto. unfold ST_PROPOSED. lia.
        + intro H. eapply ext_trans; [exact E1 | eapply manage_ext; exact H].
      - intro H. eapply ext_trans; [exact E1 | eapply manage_ext; exact H].
    Qed.
  End WithRec.

  Lemma conclude_good fuel : good_rec (conclude sem e_default cfg_fixed fuel).
  Proof.
    induction fuel as [|k IH]; intros st i ns reason p st' Hg Ho Hc H; simpl in H; [discriminate|].
    eapply conclude_body_ext; eauto.
  Qed.
End GovProofs.
