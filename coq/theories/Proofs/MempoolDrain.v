(** Trace proofs, part 3: rounds of (GenerateBlock; CommitTransactions of that batch). *)
From BX Require Import Base.Prelude Model.Mempool Model.MempoolSpec.
From BX Require Import Proofs.MempoolLib Proofs.MempoolInv Proofs.MempoolInvOps Proofs.MempoolCommit
  Proofs.MempoolGen Proofs.MempoolReach Proofs.MempoolEffects Proofs.MempoolTrace Proofs.MempoolTrace2.
From Coq Require Import ZifyBool ZifyN ZifyNat.
Local Open Scope N_scope.

(** the commit nonce of account [a] after committing the transactions [l], starting from [c] *)
Definition mx (l : list tx) (a c : N) : N :=
  fold_left (fun c t => if t_acct t =? a then N.max c (t_nonce t + 1) else c) l c.

Lemma bump_step cm t a :
  lookup0 a (if lookup0 (t_acct t) cm <? t_nonce t + 1 then aset N.eqb (t_acct t) (t_nonce t + 1) cm else cm) =
  if t_acct t =? a then N.max (lookup0 a cm) (t_nonce t + 1) else lookup0 a cm.
Proof.
  destruct (lookup0 (t_acct t) cm <? t_nonce t + 1) eqn:E.
  - unfold lookup0 at 1. rewrite (alookup_aset N.eqb Neqb_spec).
    destruct (NP (t_acct t) a) as [<-|Hne].
    + rewrite N.eqb_refl. lia.
    + rewrite (proj2 (N.eqb_neq a (t_acct t))) by congruence. reflexivity.
  - destruct (NP (t_acct t) a) as [<-|]; [lia | reflexivity].
Qed.

Lemma bump_mx l : forall cm a, lookup0 a (bump cm l) = mx l a (lookup0 a cm).
Proof.
  induction l as [|t r IH]; intros cm a; [reflexivity|]. unfold bump, mx. cbn [fold_left].
  fold (bump (if lookup0 (t_acct t) cm <? t_nonce t + 1 then aset N.eqb (t_acct t) (t_nonce t + 1) cm else cm) r).
  rewrite IH, bump_step. reflexivity.
Qed.

Section CnewMx.
  Variable s : state.
  Hypothesis I : Inv s.
  Variable hs0 : list tx.

  Lemma c_step_cnew acc h : CAcc s hs0 acc -> alookup tx_eqb h (c_hm acc) = Some (slot_of h) ->
    forall a, cnew s (c_step s acc h) a = if t_acct h =? a then N.max (cnew s acc a) (t_nonce h + 1) else cnew s acc a.
  Proof.
    intros C E a. unfold c_step. rewrite E. unfold slot_of. cbn [fst snd]. unfold cnew at 1. cbn [c_upd].
    destruct ((lookup0 (t_acct h) (c_upd acc) <? t_nonce h + 1) && (get_cn s (t_acct h) <? t_nonce h + 1)) eqn:Ec.
    - rewrite (alookup_aset N.eqb Neqb_spec). rewrite (N.eqb_sym (t_acct h) a).
      destruct (NP a (t_acct h)) as [->|]; [|reflexivity].
      unfold cnew, lookup0 in *. destruct (alookup N.eqb (t_acct h) (c_upd acc)); lia.
    - fold (cnew s acc a). destruct (NP (t_acct h) a) as [<-|]; [|reflexivity].
      unfold cnew, lookup0 in *. destruct (alookup N.eqb (t_acct h) (c_upd acc)) as [v|] eqn:Ev.
      + destruct (CA_upd _ _ _ C _ v Ev) as [_ [Hv _]]. lia.
      + lia.
  Qed.

  Lemma c_fold_cnew l : forall acc, CAcc s hs0 acc -> incl l hs0 -> NoDup l ->
    (forall h, In h l -> alookup tx_eqb h (c_hm acc) = Some (slot_of h)) ->
    forall a, cnew s (fold_left (c_step s) l acc) a = mx l a (cnew s acc a).
  Proof.
    induction l as [|h r IH]; intros acc C Hi Hnd Hf a; [reflexivity|]. cbn [fold_left]. unfold mx. cbn [fold_left]. fold (mx r a).
    inversion Hnd as [|? ? Hh Hr]; subst.
    assert (Eh : alookup tx_eqb h (c_hm acc) = Some (slot_of h)) by (apply Hf; left; reflexivity).
    rewrite IH.
    - rewrite (c_step_cnew acc h C Eh a). reflexivity.
    - apply c_step_ok; [exact I | apply Hi; left; reflexivity | exact C].
    - intros x Hx. apply Hi. right. exact Hx.
    - exact Hr.
    - intros h' Hh'. unfold c_step. rewrite Eh. cbn [c_hm]. rewrite (alookup_aremove tx_eqb tx_eqb_spec).
      destruct (txP h' h) as [->|]; [contradiction | apply Hf; right; exact Hh'].
  Qed.
End CnewMx.

(** committing a list of distinct held transactions moves every commit nonce to [mx] *)
Lemma commit_cn_mx s l a : Inv s -> NoDup l -> (forall h, In h l -> item_at s (slot_of h) = Some h) ->
  get_cn (commit_txs cfg_fixed s l) a = mx l a (get_cn s a).
Proof.
  intros I Hnd Hit. rewrite (commit_cn s l I). unfold cn_after.
  rewrite (c_fold_cnew s I l l (mkC [] [] (hashmap s) (batched s))).
  - reflexivity.
  - apply CAcc_init. exact I.
  - apply incl_refl.
  - exact Hnd.
  - intros h Hh. cbn [c_hm]. specialize (Hit h Hh). destruct h as [ha hn hi ht]. unfold slot_of in *. cbn [t_acct t_nonce] in *.
    apply (I_it_hash _ _ _ I ha hn _ Hit). intros [].
Qed.

Lemma mx_ge l : forall a c, c <= mx l a c.
Proof.
  induction l as [|t r IH]; intros a c; [cbn; lia|]. unfold mx. cbn [fold_left]. fold (mx r a).
  destruct (t_acct t =? a); [eapply N.le_trans; [|apply IH]; lia | apply IH].
Qed.

Lemma mx_bound l : forall a c b, c <= b -> (forall t, In t l -> t_acct t = a -> t_nonce t < b) -> mx l a c <= b.
Proof.
  induction l as [|t r IH]; intros a c b Hc H; [cbn; lia|]. unfold mx. cbn [fold_left]. fold (mx r a).
  apply IH; [|intros; apply H; [right|]; assumption].
  destruct (NP (t_acct t) a) as [E|]; [|exact Hc]. specialize (H t (or_introl eq_refl) E). lia.
Qed.

Lemma NoDup_map_inj_in {A B} (f : A -> B) (l : list A) :
  (forall x y, In x l -> In y l -> f x = f y -> x = y) -> NoDup l -> NoDup (map f l).
Proof.
  induction l as [|x r IH]; intros Hinj Hnd; cbn; [constructor|]. inversion Hnd as [|? ? Hx Hr]; subst.
  constructor.
  - intro Hin. apply in_map_iff in Hin. destruct Hin as [y [E Hy]].
    assert (y = x) by (apply Hinj; [right; exact Hy | left; reflexivity | exact E]). subst. contradiction.
  - apply IH; [|exact Hr]. intros a b Ha Hb. apply Hinj; right; assumption.
Qed.

Lemma seq_ok_nodup s r : forall B, seq_ok s B r -> NoDup r /\ (forall x, In x r -> ~ In x B).
Proof.
  induction r as [|x r IH]; intros B H; [split; [constructor | intros ? []]|].
  destruct H as [[_ [Hx _]] Hr]. destruct (IH _ Hr) as [Hnd Hd]. split.
  - constructor; [|exact Hnd]. intro Hin. apply (Hd x Hin). left. reflexivity.
  - intros y [<-|Hy]; [exact Hx|]. intro HB. apply (Hd y Hy). right. exact HB.
Qed.

Section DrainSafe.
  Variable p : params.
  Variables (accts : list N) (univ : list tx).
  Variables (lg : list (N * N)) (sub : list tx).

  Notation closed := (closed accts univ).

  Lemma check_batches_single cm B seq b B1 seq1 :
    check_batches p lg cm sub B seq [b] = ([], B1, seq1) ->
    check_batch p lg cm sub B seq b = ([], B1) /\ seq1 = seq + 1.
  Proof.
    cbn [check_batches]. destruct (check_batch p lg cm sub B seq b) as [e1 B1']. intro H.
    inversion H; subst. rewrite app_nil_r in *. subst. split; reflexivity.
  Qed.

  (** one generate round: facts about the state after GenerateBlock *)
  Lemma round_generate s cm B :
    Inv s -> closed s -> (forall a, In a accts -> lookup0 a cm = get_cn s a) ->
    (forall sl, In sl B <-> In sl (batched s)) ->
    (forall h, In h (map fst (hashmap s)) -> In h sub) ->
    (forall a, lookup0 a lg <= get_cn s a) ->
    forall s1 ob, generate_block p s = (s1, ob) ->
    Inv s1 /\ items s1 = items s /\ hashmap s1 = hashmap s /\ arrival s1 = arrival s /\ cnonce s1 = cnonce s /\
    ledger s1 = ledger s /\ pnonce s1 = pnonce s /\
    match ob with
    | None => seqno s1 = seqno s /\ (forall sl, In sl B <-> In sl (batched s1))
    | Some b => exists B1, check_batch p lg (fun a => lookup0 a cm) sub B (seqno s) b = ([], B1) /\ seqno s1 = seqno s + 1 /\
                  (forall sl, In sl B1 <-> In sl (batched s1)) /\
                  NoDup (snd b) /\ (forall t, In t (snd b) -> item_at s (slot_of t) = Some t) /\
                  (forall t, In t (snd b) -> In (slot_of t) (batched s1))
    end.
  Proof.
    intros I C Hcm HB Hsub Hlg s1 ob E.
    pose proof (generate_block_inv p s I) as I1. rewrite E in I1. cbn [fst] in I1.
    destruct (generate_block_same p s I) as [F1 [F2 [F3 [F4 [F5 F6]]]]]. cbn zeta in *. rewrite E in *. cbn [fst] in *.
    split; [exact I1|]. repeat (split; [assumption|]).
    destruct (gen_block_check p accts univ s lg (fun a => lookup0 a cm) sub B I C HB Hsub Hlg Hcm s1 ob E) as [B1 [Eb [HB1 Hheld]]].
    destruct ob as [b|]; cbn [opt_list] in *.
    - apply check_batches_single in Eb. destruct Eb as [Eb Es]. exists B1. split; [exact Eb|]. split; [lia|]. split; [exact HB1|].
      (* the batch is [map (tx_at s) gen_slots] *)
      unfold generate_block in E. destruct (negb (p_timed p) && (pnbs s =? 0)); [discriminate|].
      rewrite (generate_eq p s I) in E. destruct (gen_err p s); [discriminate|]. inversion E; subst. cbn [snd].
      destruct (seq_ok_nodup s (gen_slots p s) (batched s) (GI_seq _ _ _ _ (gen_GI p s I))) as [Hnd _].
      split; [|split].
      + apply NoDup_map_inj_in; [|exact Hnd]. intros [a n] [a' n'] Hx Hy Exy.
        destruct (gen_slot_ready p s I a n Hx) as [_ [_ [Hi _]]]. destruct (gen_slot_ready p s I a' n' Hy) as [_ [_ [Hi' _]]].
        destruct (item_at s (a, n)) as [t|] eqn:Et; [|congruence]. destruct (item_at s (a', n')) as [t'|] eqn:Et'; [|congruence].
        destruct (tx_at_slot s _ _ I Et) as [E1 E2]. destruct (tx_at_slot s _ _ I Et') as [E1' E2']. congruence.
      + intros t Ht. apply (Hheld (seqno s + 1, map (tx_at s) (gen_slots p s)) t); [left; reflexivity | exact Ht].
      + intros t Ht. cbn [batched set_pnbs set_seqno set_batched]. apply (gen_b_spec p s I). right.
        apply in_map_iff in Ht. destruct Ht as [[a n] [<- Hin]].
        destruct (gen_slot_ready p s I a n Hin) as [_ [_ [Hi _]]]. destruct (item_at s (a, n)) as [t|] eqn:Et; [|congruence].
        destruct (tx_at_slot s _ _ I Et) as [-> ->]. exact Hin.
    - inversion Eb; subst. split; [reflexivity | exact HB1].
  Qed.

  Record DrainPost (s s' : state) (B1 : list slot) (cme : list (N * N)) : Prop := {
    DP_inv : Inv s';
    DP_closed : closed s';
    DP_cm : forall a, In a accts -> lookup0 a cme = get_cn s' a;
    DP_B : forall sl, In sl B1 <-> In sl (batched s');
    DP_keys : forall h, In h (map fst (hashmap s')) -> In h (map fst (hashmap s));
    DP_cn : forall a, get_cn s a <= get_cn s' a;
    DP_item : forall x v, item_at s' x = Some v <-> item_at s x = Some v /\ get_cn s' (fst x) <= snd x;
    DP_arr_nd : NoDup (map fst (arrival s'));
    DP_arr : forall x, get_cn s' (fst x) <= snd x -> alookup slot_eqb x (arrival s') = alookup slot_eqb x (arrival s);
    DP_keep : forall h x, alookup tx_eqb h (hashmap s) = Some x -> get_cn s' (fst x) <= snd x ->
                alookup tx_eqb h (hashmap s') = Some x
  }.

  Lemma drain_safe k : forall s cm B,
    Inv s -> closed s -> (forall a, In a accts -> lookup0 a cm = get_cn s a) ->
    (forall sl, In sl B <-> In sl (batched s)) ->
    (forall h, In h (map fst (hashmap s)) -> In h sub) ->
    (forall a, lookup0 a lg <= get_cn s a) ->
    NoDup (map fst (arrival s)) ->
    exists B1 cme,
      check_drain p lg cm sub B (seqno s) (snd (drain cfg_fixed p k s)) = ([], B1, seqno (fst (drain cfg_fixed p k s)), cme) /\
      DrainPost s (fst (drain cfg_fixed p k s)) B1 cme.
  Proof.
    induction k as [|k IH]; intros s cm B I C Hcm HB Hsub Hlg Hnd; cbn [drain].
    - exists B, cm. cbn [fst snd check_drain]. split; [reflexivity|]. constructor; auto.
      + intros a. lia.
      + intros [a n] v. cbn [fst snd]. split; [|tauto]. intro H. split; [exact H|].
        apply (I_it_cn _ _ _ I); [intros [] | congruence].
    - destruct (generate_block p s) as [s1 ob] eqn:Eg.
      destruct (round_generate s cm B I C Hcm HB Hsub Hlg s1 ob Eg) as [I1 [F1 [F2 [F3 [F4 [F5 [F6 Hob]]]]]]].
      assert (Hit1 : forall x, item_at s1 x = item_at s x) by (intro; unfold item_at; rewrite F1; reflexivity).
      assert (Hcn1 : forall a, get_cn s1 a = get_cn s a) by (intro; unfold get_cn; rewrite F4, F5; reflexivity).
      assert (C1 : closed s1) by (intros sl t E; apply (C sl t); rewrite <- Hit1; exact E).
      destruct ob as [b|].
      + destruct Hob as [B1 [Eb [Es [HB1 [Hndb [Hocc Hbat]]]]]].
        set (s2 := commit_txs cfg_fixed s1 (snd b)).
        assert (I2 : Inv s2) by (apply commit_inv; exact I1).
        assert (Hocc1 : forall t, In t (snd b) -> item_at s1 (slot_of t) = Some t) by (intros t Ht; rewrite Hit1; apply Hocc; exact Ht).
        assert (Hcn2 : forall a, get_cn s2 a = mx (snd b) a (get_cn s a)).
        { intro a. unfold s2. rewrite (commit_cn_mx s1 (snd b) a I1 Hndb Hocc1), Hcn1. reflexivity. }
        assert (C2 : closed s2).
        { intros sl t E. apply (commit_item s1 (snd b) I1) in E. apply (C1 sl t). tauto. }
        assert (Hcm2 : forall a, In a accts -> lookup0 a (bump cm (snd b)) = get_cn s2 a).
        { intros a Ha. rewrite bump_mx, Hcn2, (Hcm a Ha). reflexivity. }
        assert (HB2 : forall sl, In sl (live (fun a => lookup0 a (bump cm (snd b))) B1) <-> In sl (batched s2)).
        { intros [a n]. rewrite live_spec, HB1. unfold s2. rewrite (commit_batched s1 (snd b) I1). cbn [fst snd].
          fold s2. split; intros [H1 H2]; (split; [exact H1|]).
          - pose proof (I_b_item _ _ _ I1 _ H1) as Hi. destruct (item_at s1 (a, n)) as [t|] eqn:Et; [|congruence].
            destruct (C1 _ _ Et) as [_ Ha]. pose proof (I_it_slot _ _ _ I1 _ _ Et) as Hs. destruct t; inversion Hs; subst. cbn in Ha.
            rewrite (Hcm2 _ Ha) in H2. unfold s2 in H2. rewrite (commit_cn s1 (snd b) I1) in H2. exact H2.
          - pose proof (I_b_item _ _ _ I1 _ H1) as Hi. destruct (item_at s1 (a, n)) as [t|] eqn:Et; [|congruence].
            destruct (C1 _ _ Et) as [_ Ha]. pose proof (I_it_slot _ _ _ I1 _ _ Et) as Hs. destruct t; inversion Hs; subst. cbn in Ha.
            rewrite (Hcm2 _ Ha). unfold s2. rewrite (commit_cn s1 (snd b) I1). exact H2. }
        assert (Hseq2 : seqno s2 = seqno s + 1) by (unfold s2; rewrite (commit_seqno s1 (snd b)); exact Es).
        destruct (IH s2 (bump cm (snd b)) (live (fun a => lookup0 a (bump cm (snd b))) B1) I2 C2 Hcm2 HB2) as [B3 [cme [Ed DP]]].
        * intros h Hh. apply Hsub. rewrite <- F2. apply (commit_keys s1 (snd b) I1). exact Hh.
        * intro a. rewrite Hcn2. pose proof (mx_ge (snd b) a (get_cn s a)). specialize (Hlg a). lia.
        * apply (commit_arr_nd s1 (snd b)). rewrite F3. exact Hnd.
        * fold s2. destruct (drain cfg_fixed p k s2) as [s3 bs] eqn:Ed3. cbn [fst snd] in *.
          exists B3, cme. cbn [check_drain]. rewrite Eb. rewrite Hseq2 in Ed. rewrite Ed. split; [reflexivity|].
          constructor.
          -- exact (DP_inv _ _ _ _ DP).
          -- exact (DP_closed _ _ _ _ DP).
          -- exact (DP_cm _ _ _ _ DP).
          -- exact (DP_B _ _ _ _ DP).
          -- intros h Hh. rewrite <- F2. apply (commit_keys s1 (snd b) I1). apply (DP_keys _ _ _ _ DP). exact Hh.
          -- intro a. pose proof (DP_cn _ _ _ _ DP a) as H2. rewrite Hcn2 in H2. pose proof (mx_ge (snd b) a (get_cn s a)). lia.
          -- intros x v. rewrite (DP_item _ _ _ _ DP). unfold s2. rewrite (commit_item s1 (snd b) I1), Hit1. fold s2.
             pose proof (DP_cn _ _ _ _ DP (fst x)) as H2. unfold s2 in H2. rewrite (commit_cn s1 (snd b) I1) in H2.
             split; [tauto|]. intros [H3 H4]. repeat split; auto. lia.
          -- exact (DP_arr_nd _ _ _ _ DP).
          -- intros x Hx. rewrite (DP_arr _ _ _ _ DP x Hx). unfold s2. rewrite (commit_arrival s1 (snd b) I1), F3; [reflexivity|].
             pose proof (DP_cn _ _ _ _ DP (fst x)) as H2. unfold s2 in H2. rewrite (commit_cn s1 (snd b) I1) in H2. lia.
          -- intros h x E Hx. apply (DP_keep _ _ _ _ DP); [|exact Hx]. unfold s2. apply (commit_key_keep s1 (snd b) I1); [rewrite F2; exact E|].
             pose proof (DP_cn _ _ _ _ DP (fst x)) as H2. unfold s2 in H2. rewrite (commit_cn s1 (snd b) I1) in H2. lia.
      + destruct Hob as [Es HB1].
        destruct (IH s1 cm B I1 C1) as [B3 [cme [Ed DP]]].
        * intros a Ha. rewrite Hcn1. apply Hcm. exact Ha.
        * exact HB1.
        * intros h Hh. apply Hsub. rewrite <- F2. exact Hh.
        * intro a. rewrite Hcn1. apply Hlg.
        * rewrite F3. exact Hnd.
        * exists B3, cme. rewrite Es in Ed. split; [exact Ed|].
          constructor.
          -- exact (DP_inv _ _ _ _ DP).
          -- exact (DP_closed _ _ _ _ DP).
          -- exact (DP_cm _ _ _ _ DP).
          -- exact (DP_B _ _ _ _ DP).
          -- intros h Hh. rewrite <- F2. apply (DP_keys _ _ _ _ DP). exact Hh.
          -- intro a. rewrite <- Hcn1. apply (DP_cn _ _ _ _ DP).
          -- intros x v. rewrite (DP_item _ _ _ _ DP), Hit1. reflexivity.
          -- exact (DP_arr_nd _ _ _ _ DP).
          -- intros x Hx. rewrite (DP_arr _ _ _ _ DP x Hx), F3. reflexivity.
          -- intros h x E Hx. apply (DP_keep _ _ _ _ DP); [rewrite F2; exact E | exact Hx].
  Qed.
End DrainSafe.

(* ------------------------------------------------------------------------- liveness of the rounds *)

Lemma down_closed s a : Inv s -> forall d m n, In (a, m) (batched s) -> get_cn s a <= n -> n <= m -> m - n = N.of_nat d ->
  In (a, n) (batched s).
Proof.
  intros I. induction d as [|d IH]; intros m n Hin Hc Hle Hd.
  - replace n with m by lia. exact Hin.
  - apply (IH (m - 1) n); try lia. apply (I_b_down _ _ _ I); [exact Hin | lia].
Qed.

Lemma fwd_pn_same t a : get_cn t a <= get_pn t a -> forall b, get_pn (forward_acct cfg_fixed t a) b = get_pn t b.
Proof.
  intros H b. unfold forward_acct. scbn.
  set (gone := filter _ (index t)). rewrite (fold_drop_pn gone t a).
  replace (get_pn t a <? get_cn t a) with false by lia. apply fold_drop_pn.
Qed.

Lemma fold_fwd_pn_same D : forall t, (forall a, get_cn t a <= get_pn t a) ->
  forall b, get_pn (fold_left (forward_acct cfg_fixed) D t) b = get_pn t b.
Proof.
  induction D as [|a r IH]; intros t H b; cbn [fold_left]; [reflexivity|].
  rewrite IH; [apply fwd_pn_same; apply H|].
  intro a'. rewrite fwd_cn, fwd_pn_same by apply H. apply H.
Qed.

Lemma commit_pn_same s hs : Inv s -> (forall a, cn_after s hs a <= get_pn s a) ->
  forall b, get_pn (commit_txs cfg_fixed s hs) b = get_pn s b.
Proof.
  intros I H b. unfold commit_txs.
  set (acc := fold_left (c_step s) hs (mkC [] [] (hashmap s) (batched s))).
  set (s2 := set_cnonce _ _).
  assert (Hpn2 : forall a, get_pn s2 a = get_pn s a) by (intro; apply (mid_pn s hs I)).
  assert (Hcn2 : forall a, get_cn s2 a = cn_after s hs a) by (intro; apply (mid_cn s hs I)).
  set (s3 := fold_left (forward_acct cfg_fixed) (c_dirty acc) s2).
  assert (H3 : get_pn s3 b = get_pn s b).
  { unfold s3. rewrite fold_fwd_pn_same; [apply Hpn2|]. intro a. rewrite Hcn2, Hpn2. apply H. }
  destruct (len (priority s3) <? pnbs s3); exact H3.
Qed.

Section DrainLive.
  Variable p : params.
  Notation bsz := (batch_size p).
  Definition mready (s : state) : N := len (unb s (batched s)).

  Lemma unb_nodup s b : Inv s -> NoDup (unb s b).
  Proof. intro I. unfold unb. apply NoDup_filter. apply psorted_NoDup. exact (I_prio_sorted _ _ _ I). Qed.

  Lemma unb_In s b k : In k (unb s b) <-> In k (priority s) /\ ~ In (snd k) b.
  Proof.
    unfold unb. rewrite filter_In, negb_true_iff. split; intros [H1 H2]; (split; [exact H1|]).
    - apply (mem_false slot_eqb slot_eqb_spec). exact H2.
    - apply (mem_false slot_eqb slot_eqb_spec). exact H2.
  Qed.

  Lemma gen_batch_facts s : Inv s ->
    NoDup (map (tx_at s) (gen_slots p s)) /\
    (forall t, In t (map (tx_at s) (gen_slots p s)) ->
       item_at s (slot_of t) = Some t /\ In (slot_of t) (gen_slots p s)).
  Proof.
    intro I. destruct (seq_ok_nodup s (gen_slots p s) (batched s) (GI_seq _ _ _ _ (gen_GI p s I))) as [Hnd _]. split.
    - apply NoDup_map_inj_in; [|exact Hnd]. intros [a n] [a' n'] Hx Hy Exy.
      destruct (gen_slot_ready p s I a n Hx) as [_ [_ [Hi _]]]. destruct (gen_slot_ready p s I a' n' Hy) as [_ [_ [Hi' _]]].
      destruct (item_at s (a, n)) as [t|] eqn:Et; [|congruence]. destruct (item_at s (a', n')) as [t'|] eqn:Et'; [|congruence].
      destruct (tx_at_slot s _ _ I Et) as [E1 E2]. destruct (tx_at_slot s _ _ I Et') as [E1' E2']. congruence.
    - intros t Ht. apply in_map_iff in Ht. destruct Ht as [[a n] [<- Hin]].
      destruct (gen_slot_ready p s I a n Hin) as [_ [_ [Hi _]]]. destruct (item_at s (a, n)) as [t|] eqn:Et; [|congruence].
      destruct (tx_at_slot s _ _ I Et) as [-> ->]. split; [exact Et | exact Hin].
  Qed.

  (** one round: a ready unbatched entry is either taken or still ready and unbatched after the
      commit of the batch, and the measure drops by the size of the batch *)
  Lemma round_live s b s1 : Inv s -> generate_block p s = (s1, Some b) ->
    let s2 := commit_txs cfg_fixed s1 (snd b) in
    Inv s2 /\ mready s2 + N.min (mready s) bsz <= mready s /\
    forall ts sl, In (ts, sl) (unb s (batched s)) ->
      In (tx_at s sl) (snd b) \/ (In (ts, sl) (unb s2 (batched s2)) /\ tx_at s2 sl = tx_at s sl).
  Proof.
    intros I Eg. cbn zeta.
    unfold generate_block in Eg. destruct (negb (p_timed p) && (pnbs s =? 0)); [discriminate|].
    rewrite (generate_eq p s I) in Eg. destruct (gen_err p s) eqn:Ee; [discriminate|]. inversion Eg; subst; clear Eg. cbn [snd].
    set (s1 := set_pnbs (set_seqno (set_batched s (g_b (gen_acc p s))) (seqno s + 1)) (pnbs s - len (gen_slots p s))).
    set (batch := map (tx_at s) (gen_slots p s)).
    assert (I1 : Inv s1).
    { pose proof (generate_inv p s I) as J. rewrite (generate_eq p s I), Ee in J. exact J. }
    destruct (gen_batch_facts s I) as [Hnd Hocc]. fold batch in Hnd, Hocc.
    assert (Hit1 : forall x, item_at s1 x = item_at s x) by reflexivity.
    assert (Hcn1 : forall a, get_cn s1 a = get_cn s a) by reflexivity.
    assert (Hpn1 : forall a, get_pn s1 a = get_pn s a) by reflexivity.
    assert (Hb1 : forall sl, In sl (batched s1) <-> In sl (batched s) \/ In sl (gen_slots p s)) by (intro; apply (gen_b_spec p s I)).
    set (s2 := commit_txs cfg_fixed s1 batch).
    assert (I2 : Inv s2) by (apply commit_inv; exact I1).
    assert (Hocc1 : forall t, In t batch -> item_at s1 (slot_of t) = Some t) by (intros t Ht; apply Hocc; exact Ht).
    assert (Hcn2 : forall a, get_cn s2 a = mx batch a (get_cn s a)).
    { intro a. unfold s2. rewrite (commit_cn_mx s1 batch a I1 Hnd Hocc1). reflexivity. }
    assert (Hbatch_lt : forall t, In t batch -> t_nonce t < get_pn s (t_acct t) /\ In (slot_of t) (batched s1)).
    { intros t Ht. destruct (Hocc t Ht) as [_ Hin]. destruct t as [a n i tt]. unfold slot_of in *. cbn [t_acct t_nonce] in *.
      destruct (gen_slot_ready p s I a n Hin) as [_ [H2 _]]. split; [exact H2 | apply Hb1; right; exact Hin]. }
    assert (Hafter : forall a, cn_after s1 batch a <= get_pn s1 a).
    { intro a. rewrite <- (commit_cn s1 batch I1). fold s2. rewrite Hcn2, Hpn1. apply mx_bound.
      - apply (I_cn_pn _ _ _ I). intros [].
      - intros t Ht <-. apply Hbatch_lt. exact Ht. }
    assert (Hpn2 : forall a, get_pn s2 a = get_pn s a).
    { intro a. unfold s2. rewrite (commit_pn_same s1 batch I1 Hafter). reflexivity. }
    (* entries that survive *)
    assert (Hsurv : forall ts a n, In (ts, (a, n)) (priority s) -> ~ In (a, n) (batched s1) ->
              In (ts, (a, n)) (priority s2) /\ ~ In (a, n) (batched s2) /\ item_at s2 (a, n) = item_at s (a, n)).
    { intros ts a n Hp Hnb.
      pose proof (proj1 (I_prio _ _ _ I ts a n) Hp) as [t [Et [Ets Hlt]]].
      assert (Hc : get_cn s a <= n) by (apply (I_it_cn _ _ _ I); [intros [] | congruence]).
      assert (Hcn2n : get_cn s2 a <= n).
      { rewrite Hcn2. apply mx_bound; [exact Hc|]. intros t' Ht' Ea.
        destruct (Hbatch_lt t' Ht') as [_ Hin']. destruct t' as [a' m i' tt']. unfold slot_of in Hin'. cbn [t_acct t_nonce] in *. subst a'.
        destruct (N.lt_ge_cases m n) as [Hlt'|Hge]; [exact Hlt'|]. exfalso. apply Hnb.
        apply (down_closed s1 a I1 (N.to_nat (m - n)) m n Hin'); [rewrite Hcn1; exact Hc | exact Hge | lia]. }
      assert (Eit2 : item_at s2 (a, n) = Some t).
      { apply (commit_item s1 batch I1). split; [exact Et|]. cbn [fst snd]. rewrite <- (commit_cn s1 batch I1). exact Hcn2n. }
      split; [|split].
      - apply (I_prio _ _ _ I2). exists t. split; [exact Eit2|]. split; [exact Ets | rewrite Hpn2; exact Hlt].
      - intro H. apply (commit_batched s1 batch I1) in H. tauto.
      - rewrite Eit2, Et. reflexivity. }
    split; [exact I2|]. split.
    - (* the measure *)
      assert (Hm1 : mready s1 + len (gen_slots p s) = mready s).
      { pose proof (GI_cnt _ _ _ _ (gen_GI p s I)) as Hc. unfold mready. fold (gen_slots p s) in Hc.
        change (unb s1 (batched s1)) with (unb s (g_b (gen_acc p s))). lia. }
      pose proof (gen_slots_exact p s I) as Hex. fold (mready s) in Hex.
      assert (Hm2 : mready s2 <= mready s1).
      { unfold mready, len. enough (Hl : (length (unb s2 (batched s2)) <= length (unb s1 (batched s1)))%nat) by lia.
        apply NoDup_incl_length; [apply unb_nodup; exact I2|].
        intros [ts [a n]] Hk. apply unb_In in Hk. destruct Hk as [Hk1 Hk2]. cbn [snd] in Hk2.
        apply unb_In. cbn [snd].
        pose proof (proj1 (I_prio _ _ _ I2 ts a n) Hk1) as [t [Et [Ets Hlt]]].
        apply (commit_item s1 batch I1) in Et. destruct Et as [Et Hge]. cbn [fst snd] in Hge.
        split.
        - change (priority s1) with (priority s). apply (I_prio _ _ _ I). exists t. rewrite Hit1 in Et.
          split; [exact Et|]. split; [exact Ets | rewrite <- Hpn2; exact Hlt].
        - intro Hb. apply Hk2. apply (commit_batched s1 batch I1). split; [exact Hb | exact Hge]. }
      lia.
    - intros ts [a n] Hin. apply unb_In in Hin. destruct Hin as [Hp Hnb]. cbn [snd] in Hnb.
      destruct (in_dec (fun x y => match slotP x y with ReflectT _ e => left e | ReflectF _ ne => right ne end) (a, n) (gen_slots p s)) as [Hs|Hns].
      + left. apply in_map. exact Hs.
      + right. assert (Hnb1 : ~ In (a, n) (batched s1)) by (rewrite Hb1; tauto).
        destruct (Hsurv ts a n Hp Hnb1) as [H1 [H2 H3]]. split.
        * apply unb_In. split; [exact H1 | exact H2].
        * unfold tx_at. rewrite H3. reflexivity.
  Qed.

  Lemma mready_pos s k : In k (unb s (batched s)) -> 1 <= mready s.
  Proof.
    unfold mready. intro H. destruct (unb s (batched s)) as [|x l]; [destruct H|]. rewrite len_cons. lia.
  Qed.

  (** within ceil(ready / batchSize) rounds every ready unbatched transaction is batched *)
  Lemma drain_live k : forall s, Inv s -> mready s <= N.of_nat k * bsz ->
    forall ts sl, In (ts, sl) (unb s (batched s)) ->
    exists b, In b (snd (drain cfg_fixed p k s)) /\ In (tx_at s sl) (snd b).
  Proof.
    induction k as [|k IH]; intros s I Hm ts sl Hin.
    - pose proof (mready_pos s _ Hin). cbn in Hm. lia.
    - cbn [drain]. destruct (generate_block p s) as [s1 [b|]] eqn:Eg.
      + destruct (round_live s b s1 I Eg) as [I2 [Hmeas Hent]]. cbn zeta in *.
        destruct (drain cfg_fixed p k (commit_txs cfg_fixed s1 (snd b))) as [s3 bs] eqn:Ed. cbn [snd].
        destruct (Hent ts sl Hin) as [Hb|[Hs Htx]].
        * exists b. split; [left; reflexivity | exact Hb].
        * destruct (IH (commit_txs cfg_fixed s1 (snd b)) I2) with (ts := ts) (sl := sl) as [b' [Hb' Ht']].
          -- pose proof (batch_size_pos p). nia.
          -- exact Hs.
          -- rewrite Ed in Hb'. cbn [snd] in Hb'. exists b'. split; [right; exact Hb' | rewrite <- Htx; exact Ht'].
      + (* no batch although something is ready: impossible *)
        exfalso. pose proof (mready_pos s _ Hin) as Hpos.
        pose proof (unb_le_pnbs s I) as Hle. fold (mready s) in Hle.
        unfold generate_block in Eg. destruct (negb (p_timed p) && (pnbs s =? 0)) eqn:E0.
        * apply andb_true_iff in E0. destruct E0 as [_ E0]. apply N.eqb_eq in E0. lia.
        * rewrite (generate_eq p s I) in Eg. destruct (gen_err p s) eqn:Ee; [|discriminate].
          unfold gen_err in Ee. apply andb_true_iff in Ee. destruct Ee as [Ee _]. apply andb_true_iff in Ee. destruct Ee as [_ Ez].
          apply N.eqb_eq in Ez. pose proof (gen_slots_exact p s I) as Hex. fold (mready s) in Hex.
          pose proof (batch_size_pos p). lia.
  Qed.
End DrainLive.
