(** Proofs about [Model/Fees.v]: conservation, exact transfers, fee rounding, non-negativity,
    whole-balance fallback; refutation witnesses for the two defect flags. *)
From BX Require Import Base.Prelude Model.Fees.
From Coq Require Import ZifyBool ZifyN ZifyNat.
Local Open Scope Z_scope.

Lemma bset_same b a v : bset b a v a = v.
Proof. unfold bset. rewrite N.eqb_refl. reflexivity. Qed.

Lemma bset_other b a v x : x <> a -> bset b a v x = b x.
Proof. intro H. unfold bset. destruct (N.eqb_spec x a); [contradiction | reflexivity]. Qed.

Lemma sumb_ext dom b b' : (forall a, In a dom -> b a = b' a) -> sumb dom b = sumb dom b'.
Proof.
  induction dom as [|x t IH]; intro H; simpl; [reflexivity|].
  rewrite (H x (or_introl eq_refl)), IH; [reflexivity|].
  intros a Ha. apply H. right. exact Ha.
Qed.

Lemma sumb_bset_notin dom b a v : ~ In a dom -> sumb dom (bset b a v) = sumb dom b.
Proof.
  intro H. apply sumb_ext. intros x Hx. apply bset_other. intro E. subst. contradiction.
Qed.

Lemma sumb_bset_in dom : forall b a v, NoDup dom -> In a dom ->
  sumb dom (bset b a v) = sumb dom b + (v - b a).
Proof.
  induction dom as [|x t IH]; intros b a v Hnd Hin; [destruct Hin|].
  inversion Hnd as [|? ? Hx Ht]; subst. simpl.
  destruct (N.eq_dec x a) as [->|Hne].
  - rewrite bset_same, sumb_bset_notin by exact Hx. lia.
  - destruct Hin as [E|Hin]; [contradiction|].
    rewrite bset_other by exact Hne. rewrite IH by assumption. lia.
Qed.

Lemma pay_each_other adm : forall b fee a, ~ In a adm -> pay_each b adm fee a = b a.
Proof.
  induction adm as [|x t IH]; intros b fee a H; simpl; [reflexivity|].
  rewrite IH by (intro; apply H; right; assumption).
  apply bset_other. intro E. apply H. left. symmetry. exact E.
Qed.

Lemma pay_each_ge adm : forall b fee a, 0 <= fee -> b a <= pay_each b adm fee a.
Proof.
  induction adm as [|x t IH]; intros b fee a Hf; simpl; [lia|].
  eapply Z.le_trans; [|apply IH; exact Hf].
  destruct (N.eq_dec a x) as [->|Hne]; [rewrite bset_same; lia | rewrite bset_other by exact Hne; lia].
Qed.

Lemma pay_each_nodup adm : forall b fee a, NoDup adm -> In a adm -> pay_each b adm fee a = b a + fee.
Proof.
  induction adm as [|x t IH]; intros b fee a Hnd Hin; [destruct Hin|].
  inversion Hnd as [|? ? Hx Ht]; subst. simpl. destruct Hin as [->|Hin].
  - rewrite pay_each_other by exact Hx. apply bset_same.
  - rewrite IH by assumption. rewrite bset_other; [reflexivity|]. intro E; subst; contradiction.
Qed.

Lemma sumb_pay_each dom adm : forall b fee, NoDup dom -> incl adm dom ->
  sumb dom (pay_each b adm fee) = sumb dom b + Z.of_nat (length adm) * fee.
Proof.
  induction adm as [|x t IH]; intros b fee Hnd Hin; simpl pay_each.
  - simpl. lia.
  - rewrite IH; [|exact Hnd | intros y Hy; apply Hin; right; exact Hy].
    rewrite sumb_bset_in; [|exact Hnd | apply Hin; left; reflexivity].
    simpl length. lia.
Qed.

(** fee rounding: the admins together receive the fee minus at most |admins|-1 units *)
Lemma rounding_bounds n fees : 0 < n -> 0 <= fees - n * (fees / n) <= n - 1.
Proof.
  intro Hn. pose proof (Z.div_mod fees n ltac:(lia)) as Hd.
  pose proof (Z.mod_pos_bound fees n Hn) as Hm. lia.
Qed.

Theorem fee_rounding e fees : admins e <> [] ->
  0 <= fees - credits e fees <= Z.of_nat (length (admins e)) - 1.
Proof.
  intro H. unfold credits. apply rounding_bounds.
  destruct (admins e); [contradiction | simpl; lia].
Qed.

Lemma sumb_pay_admins dom e b fees : NoDup dom -> incl (admins e) dom ->
  sumb dom (pay_admins e b fees) = sumb dom b + credits e fees.
Proof. intros. unfold pay_admins, credits. apply sumb_pay_each; assumption. Qed.

(** ------------------------------------------------------------------------------------ *)
(** transfer *)

Lemma transfer_sum dom b f t v b' : NoDup dom -> In f dom -> In t dom ->
  transfer fcfg_fixed b f t v = Some b' -> sumb dom b' = sumb dom b.
Proof.
  intros Hnd Hf Ht. unfold transfer. simpl.
  destruct (v =? 0); [intro H; inversion H; reflexivity|].
  destruct ((v <? 0) && true); [discriminate|].
  destruct (b f <? v); [discriminate|].
  intro H. inversion H; subst. clear H.
  rewrite sumb_bset_in by assumption. rewrite sumb_bset_in by assumption. lia.
Qed.

Theorem transfer_exact b f t v b' :
  transfer fcfg_fixed b f t v = Some b' ->
  0 <= v /\ v <= b f \/ v = 0 ->
  (f <> t -> b' f = b f - v /\ b' t = b t + v) /\
  (f = t -> b' f = b f) /\
  (forall x, x <> f -> x <> t -> b' x = b x).
Proof.
  unfold transfer. simpl. intros H _.
  destruct (Z.eqb_spec v 0) as [->|Hv].
  - inversion H; subst. repeat split; intros; lia.
  - destruct (Z.ltb_spec v 0); simpl in H; [discriminate|].
    destruct (Z.ltb_spec (b f) v); [discriminate|].
    inversion H; subst; clear H. repeat split.
    + rewrite bset_other by assumption. rewrite bset_same. reflexivity.
    + rewrite bset_same. rewrite bset_other by (intro; subst; congruence). reflexivity.
    + intros ->. rewrite bset_same, bset_same. lia.
    + intros x Hf Ht. rewrite !bset_other by assumption. reflexivity.
Qed.

(** what [Some] means under the repaired behaviour: a positive affordable amount (or zero) *)
Lemma transfer_some b f t v b' : transfer fcfg_fixed b f t v = Some b' -> v = 0 \/ 0 < v <= b f.
Proof.
  unfold transfer. simpl. destruct (Z.eqb_spec v 0); [auto|].
  destruct (Z.ltb_spec v 0); simpl; [discriminate|].
  destruct (Z.ltb_spec (b f) v); [discriminate|]. intros _. right. lia.
Qed.

Lemma transfer_none b f t v : transfer fcfg_fixed b f t v = None -> v < 0 \/ b f < v.
Proof.
  unfold transfer. simpl. destruct (Z.eqb_spec v 0); [discriminate|].
  destruct (Z.ltb_spec v 0); simpl; [auto|].
  destruct (Z.ltb_spec (b f) v); [auto | discriminate].
Qed.

Definition nonneg (b : bals) : Prop := forall a, 0 <= b a.

Lemma bset_nonneg b a v : nonneg b -> 0 <= v -> nonneg (bset b a v).
Proof.
  intros Hb Hv x. destruct (N.eq_dec x a) as [->|Hne]; [rewrite bset_same | rewrite bset_other by exact Hne]; auto.
Qed.

Lemma transfer_nonneg b f t v b' : nonneg b -> transfer fcfg_fixed b f t v = Some b' -> nonneg b'.
Proof.
  intros Hb H. pose proof (transfer_some _ _ _ _ _ H) as Hv. revert H. unfold transfer. simpl.
  destruct (Z.eqb_spec v 0); [intro H; inversion H; subst; exact Hb|].
  destruct (Z.ltb_spec v 0); simpl; [discriminate|].
  destruct (Z.ltb_spec (b f) v); [discriminate|].
  intro HH; inversion HH; subst; clear HH.
  apply bset_nonneg; [apply bset_nonneg; [exact Hb | lia]|].
  destruct (N.eq_dec t f) as [->|Hne]; [rewrite bset_same | rewrite bset_other by exact Hne; specialize (Hb t)]; lia.
Qed.

Lemma pay_each_nonneg adm : forall b fee, nonneg b -> 0 <= fee -> nonneg (pay_each b adm fee).
Proof.
  induction adm as [|x t IH]; intros b fee Hb Hf; simpl; [exact Hb|].
  apply IH; [|exact Hf]. apply bset_nonneg; [exact Hb | specialize (Hb x); lia].
Qed.

Lemma pay_admins_nonneg e b fees : nonneg b -> 0 <= fees -> nonneg (pay_admins e b fees).
Proof.
  intros Hb Hf. unfold pay_admins. apply pay_each_nonneg; [exact Hb|].
  apply Z_div_nonneg_nonneg; [exact Hf | lia].
Qed.

(** ------------------------------------------------------------------------------------ *)
(** one transaction *)

Definition env_ok (e : fenv) : Prop := admins e <> [] /\ 0 <= price e /\ 0 <= genesis_bal e.

Lemma body_sum dom e b t b1 ok gas g : NoDup dom -> incl (ntx_accts t) dom ->
  ntx_body fcfg_fixed e b t = (b1, ok, gas, g) -> sumb dom b1 = sumb dom b + g.
Proof.
  intros Hnd Hin. destruct t as [f to amt|f okc|f na okc|f]; simpl.
  - destruct (transfer fcfg_fixed b f to (parse_amount amt)) as [b'|] eqn:E; intro H; inversion H; subst.
    + rewrite (transfer_sum dom b f to (parse_amount amt) b1 Hnd); [lia | apply Hin; simpl; auto | apply Hin; simpl; auto | exact E].
    + lia.
  - intro H; inversion H; subst. lia.
  - destruct okc; intro H; inversion H; subst; [|lia].
    rewrite sumb_bset_in; [lia | exact Hnd | apply Hin; simpl; auto].
  - intro H; inversion H; subst. lia.
Qed.

Lemma body_from_in t : In (ntx_from t) (ntx_accts t).
Proof. destruct t; simpl; auto. Qed.

(** exact accounting of one transaction: the sum over any duplicate-free domain that contains the
    touched accounts changes by the grant minus the rounding loss of that transaction *)
Theorem apply_ntx_accounting dom e b t b' ok g :
  admins e <> [] -> NoDup dom -> incl (admins e) dom -> incl (ntx_accts t) dom ->
  apply_ntx fcfg_fixed e b t = (b', ok, g) ->
  exists loss, 0 <= loss <= Z.of_nat (length (admins e)) - 1 /\ sumb dom b' = sumb dom b + g - loss.
Proof.
  intros Ha Hnd Hadm Hin. unfold apply_ntx.
  destruct (ntx_body fcfg_fixed e b t) as [[[b1 ok1] gas] g1] eqn:Eb.
  pose proof (body_sum dom e b t b1 ok1 gas g1 Hnd Hin Eb) as Hs.
  assert (Hf : In (ntx_from t) dom) by (apply Hin, body_from_in).
  unfold pay_gas_fee. destruct (b1 (ntx_from t) <? gas * price e).
  - simpl d_fee_after_body. cbv iota. destruct (b (ntx_from t) <? gas * price e).
    + intro H; inversion H; subst; clear H. exists (b (ntx_from t) - credits e (b (ntx_from t))).
      split; [apply fee_rounding; exact Ha|].
      unfold pay_left. rewrite sumb_pay_admins by assumption. rewrite sumb_bset_in by assumption. lia.
    + intro H; inversion H; subst; clear H. exists (gas * price e - credits e (gas * price e)).
      split; [apply fee_rounding; exact Ha|].
      rewrite sumb_pay_admins by assumption. rewrite sumb_bset_in by assumption. lia.
  - intro H; inversion H; subst; clear H. exists (gas * price e - credits e (gas * price e)).
    split; [apply fee_rounding; exact Ha|].
    rewrite sumb_pay_admins by assumption. rewrite sumb_bset_in by assumption. lia.
Qed.

Lemma apply_ntx_nonneg e b t b' ok g : env_ok e -> nonneg b ->
  apply_ntx fcfg_fixed e b t = (b', ok, g) -> nonneg b' /\ 0 <= g.
Proof.
  intros [Ha [Hp Hg]] Hb. unfold apply_ntx.
  destruct (ntx_body fcfg_fixed e b t) as [[[b1 ok1] gas] g1] eqn:Eb.
  assert (H1 : nonneg b1 /\ 0 <= g1 /\ 0 <= gas).
  { destruct t as [f to amt|f okc|f na okc|f]; simpl in Eb.
    - destruct (transfer fcfg_fixed b f to (parse_amount amt)) eqn:E; inversion Eb; subst;
        (split; [try exact Hb; eapply transfer_nonneg; eauto | split; [lia | vm_compute; discriminate]]).
    - inversion Eb; subst. split; [exact Hb | split; [lia | vm_compute; discriminate]].
    - destruct okc; inversion Eb; subst.
      + split; [apply bset_nonneg; [exact Hb | specialize (Hb na); lia] | split; [lia | vm_compute; discriminate]].
      + split; [exact Hb | split; [lia | vm_compute; discriminate]].
    - inversion Eb; subst. split; [exact Hb | split; [lia | vm_compute; discriminate]]. }
  destruct H1 as [Hb1 [Hg1 Hgas]].
  unfold pay_gas_fee. destruct (Z.ltb_spec (b1 (ntx_from t)) (gas * price e)).
  - simpl d_fee_after_body. cbv iota. destruct (Z.ltb_spec (b (ntx_from t)) (gas * price e)).
    + intro HH; inversion HH; subst. split; [|lia]. unfold pay_left.
      apply pay_admins_nonneg; [apply bset_nonneg; [exact Hb | lia] | apply Hb].
    + intro HH; inversion HH; subst. split; [|lia].
      apply pay_admins_nonneg; [apply bset_nonneg; [exact Hb | lia] | nia].
  - intro HH; inversion HH; subst. split; [|exact Hg1].
    apply pay_admins_nonneg; [apply bset_nonneg; [exact Hb1 | lia] | nia].
Qed.

(** ------------------------------------------------------------------------------------ *)
(** blocks *)

Theorem block_conservation dom e : admins e <> [] -> NoDup dom ->
  forall ts b b' oks g, covers dom e ts ->
  apply_block fcfg_fixed e b ts = (b', oks, g) ->
  conserve dom b b' g /\ length oks = length ts.
Proof.
  intros Ha Hnd ts. induction ts as [|t r IH]; intros b b' oks g [Hadm Hcov]; simpl.
  - intro H; inversion H; subst. unfold conserve. split; [lia | reflexivity].
  - destruct (apply_ntx fcfg_fixed e b t) as [[b1 ok] g1] eqn:E1.
    destruct (apply_block fcfg_fixed e b1 r) as [[b2 oks2] g2] eqn:E2.
    intro H; inversion H; subst; clear H.
    destruct (apply_ntx_accounting dom e b t b1 ok g1 Ha Hnd Hadm (Hcov t (or_introl eq_refl)) E1) as [loss [Hl Hs]].
    destruct (IH b1 b' oks2 g2) as [Hc Hlen]; [split; [exact Hadm | intros t' Ht'; apply Hcov; right; exact Ht'] | exact E2 |].
    unfold conserve in *. split; [lia | simpl; rewrite Hlen; reflexivity].
Qed.

(** exact books of a block: the sum changes by the grants minus a loss between 0 and (n-1) per
    transaction *)
Theorem block_accounting dom e : admins e <> [] -> NoDup dom ->
  forall ts b b' oks g, covers dom e ts ->
  apply_block fcfg_fixed e b ts = (b', oks, g) ->
  exists loss, 0 <= loss <= (Z.of_nat (length (admins e)) - 1) * Z.of_nat (length ts) /\
               sumb dom b' = sumb dom b + g - loss.
Proof.
  intros Ha Hnd ts. induction ts as [|t r IH]; intros b b' oks g [Hadm Hcov]; simpl apply_block.
  - intro H; inversion H; subst. exists 0. simpl. split; lia.
  - destruct (apply_ntx fcfg_fixed e b t) as [[b1 ok] g1] eqn:E1.
    destruct (apply_block fcfg_fixed e b1 r) as [[b2 oks2] g2] eqn:E2.
    intro H; inversion H; subst; clear H.
    destruct (apply_ntx_accounting dom e b t b1 ok g1 Ha Hnd Hadm (Hcov t (or_introl eq_refl)) E1) as [l1 [Hl1 Hs1]].
    destruct (IH b1 b' oks2 g2) as [l2 [Hl2 Hs2]]; [split; [exact Hadm | intros t' Ht'; apply Hcov; right; exact Ht'] | exact E2 |].
    exists (l1 + l2). split; [|lia].
    change (length (t :: r)) with (S (length r)). rewrite Nat2Z.inj_succ. nia.
Qed.

Corollary block_loss_bound dom e : admins e <> [] -> NoDup dom ->
  forall ts b b' oks g, covers dom e ts ->
  apply_block fcfg_fixed e b ts = (b', oks, g) ->
  loss_bound dom b b' g (length (admins e)) (length ts).
Proof.
  intros Ha Hnd ts b b' oks g Hc E. destruct (block_accounting dom e Ha Hnd ts b b' oks g Hc E) as [l [Hl Hs]].
  unfold loss_bound. lia.
Qed.

Theorem block_nonneg e : env_ok e -> forall ts b b' oks g, nonneg b ->
  apply_block fcfg_fixed e b ts = (b', oks, g) -> nonneg b' /\ 0 <= g.
Proof.
  intros He ts. induction ts as [|t r IH]; intros b b' oks g Hb; simpl.
  - intro H; inversion H; subst. split; [exact Hb | lia].
  - destruct (apply_ntx fcfg_fixed e b t) as [[b1 ok] g1] eqn:E1.
    destruct (apply_block fcfg_fixed e b1 r) as [[b2 oks2] g2] eqn:E2.
    intro H; inversion H; subst; clear H.
    destruct (apply_ntx_nonneg e b t b1 ok g1 He Hb E1) as [Hb1 Hg1].
    destruct (IH b1 b' oks2 g2 Hb1 E2) as [Hb2 Hg2]. split; [exact Hb2 | lia].
Qed.

(** accounts outside the touched set and the admin list keep their balance *)
Lemma apply_ntx_frame c e b t b' ok g a : apply_ntx c e b t = (b', ok, g) ->
  ~ In a (ntx_accts t) -> ~ In a (admins e) -> b' a = b a.
Proof.
  unfold apply_ntx. destruct (ntx_body c e b t) as [[[b1 ok1] gas] g1] eqn:Eb. intros H Ht Ha.
  assert (Hfrom : a <> ntx_from t) by (intro; subst; apply Ht, body_from_in).
  assert (H1 : b1 a = b a).
  { destruct t as [f to amt|f okc|f na okc|f]; simpl in Eb, Ht.
    - destruct (transfer c b f to (parse_amount amt)) as [bb|] eqn:E; inversion Eb; subst; [|reflexivity].
      revert E. unfold transfer. destruct (parse_amount amt =? 0); [intro E; inversion E; reflexivity|].
      destruct ((parse_amount amt <? 0) && negb (d_neg_amount c)); [discriminate|].
      destruct (b f <? parse_amount amt); [discriminate|].
      destruct (d_self_transfer c); intro E; inversion E; subst;
        rewrite !bset_other by (intro; subst; apply Ht; auto); reflexivity.
    - inversion Eb; reflexivity.
    - destruct okc; inversion Eb; subst; [|reflexivity]. apply bset_other. intro; subst; apply Ht; auto.
    - inversion Eb; reflexivity. }
  revert H. unfold pay_gas_fee. destruct (b1 (ntx_from t) <? gas * price e).
  - destruct (d_fee_after_body c); [|destruct (b (ntx_from t) <? gas * price e)]; intro H; inversion H; subst.
    + unfold pay_left, pay_admins. rewrite pay_each_other by exact Ha. apply bset_other. exact Hfrom.
    + unfold pay_left, pay_admins. rewrite pay_each_other by exact Ha. apply bset_other. exact Hfrom.
    + unfold pay_admins. rewrite pay_each_other by exact Ha. apply bset_other. exact Hfrom.
  - intro H; inversion H; subst.
    unfold pay_admins. rewrite pay_each_other by exact Ha. rewrite bset_other by exact Hfrom. exact H1.
Qed.

(** whole-balance fallback: when the fee is not affordable the body is undone, the sender is left
    with nothing and every admin receives an equal share of what the sender had *)
Theorem whole_balance_fallback c e b t b1 ok gas g :
  ntx_body c e b t = (b1, ok, gas, g) -> b1 (ntx_from t) < gas * price e ->
  d_fee_after_body c = true \/ b (ntx_from t) < gas * price e ->
  apply_ntx c e b t = (pay_left e b (ntx_from t), false, 0) /\
  (~ In (ntx_from t) (admins e) -> pay_left e b (ntx_from t) (ntx_from t) = 0) /\
  (NoDup (admins e) -> forall a, In a (admins e) -> a <> ntx_from t ->
     pay_left e b (ntx_from t) a = b a + b (ntx_from t) / Z.of_nat (length (admins e))).
Proof.
  intros Eb Hlt Hwhy. split; [|split].
  - unfold apply_ntx. rewrite Eb. unfold pay_gas_fee.
    destruct (Z.ltb_spec (b1 (ntx_from t)) (gas * price e)); [|lia].
    destruct Hwhy as [->|Hlt2]; [reflexivity|].
    destruct (d_fee_after_body c); [reflexivity|].
    destruct (Z.ltb_spec (b (ntx_from t)) (gas * price e)); [reflexivity | lia].
  - intro Hn. unfold pay_left, pay_admins. rewrite pay_each_other by exact Hn. apply bset_same.
  - intros Hnd a Ha Hne. unfold pay_left, pay_admins. rewrite pay_each_nodup by assumption.
    rewrite bset_other by exact Hne. reflexivity.
Qed.

(** repaired fee phase: when the body left too little but the restored balance covers the fee,
    exactly the fee is charged (and the transaction is FAILED) *)
Theorem fee_after_revert b t b1 ok gas g e :
  ntx_body fcfg_fixed e b t = (b1, ok, gas, g) -> b1 (ntx_from t) < gas * price e ->
  gas * price e <= b (ntx_from t) ->
  apply_ntx fcfg_fixed e b t =
    (pay_admins e (bset b (ntx_from t) (b (ntx_from t) - gas * price e)) (gas * price e), false, 0).
Proof.
  intros Eb Hlt Hge. unfold apply_ntx. rewrite Eb. unfold pay_gas_fee.
  destruct (Z.ltb_spec (b1 (ntx_from t)) (gas * price e)); [|lia]. simpl d_fee_after_body. cbv iota.
  destruct (Z.ltb_spec (b (ntx_from t)) (gas * price e)); [lia | reflexivity].
Qed.

(** a failed transfer (insufficient funds, or a negative amount under the repaired behaviour)
    changes nothing but the fee *)
Theorem failed_transfer_only_fee e b f to amt :
  transfer fcfg_fixed b f to (parse_amount amt) = None ->
  ntx_body fcfg_fixed e b (NTransfer f to amt) = (b, false, GasNormal, 0).
Proof. intro H. simpl. rewrite H. reflexivity. Qed.

(** boolean predicates agree with the propositions *)
Lemma conserve_b_spec dom b b' g : conserve_b dom b b' g = true <-> conserve dom b b' g.
Proof. unfold conserve_b, conserve. apply Z.leb_le. Qed.

Lemma loss_b_spec dom b b' g n k : loss_b dom b b' g n k = true <-> loss_bound dom b b' g n k.
Proof. unfold loss_b, loss_bound. apply Z.leb_le. Qed.

Lemma nonneg_b_spec dom b : nonneg_b dom b = true <-> nonneg_on dom b.
Proof.
  unfold nonneg_b, nonneg_on. rewrite forallb_forall. split; intros H a Ha; specialize (H a Ha); lia.
Qed.

(** ------------------------------------------------------------------------------------ *)
(** refutations on the faithful behaviour *)

Definition env3 : fenv := {| admins := [100%N; 101%N; 102%N]; price := 0; genesis_bal := 1000 |}.
Definition b1000 : bals := of_alist [(1%N, 1000)].

Theorem self_transfer_refuted :
  exists b' oks g, apply_block {| d_self_transfer := true; d_neg_amount := false; d_fee_after_body := false |} env3 b1000
                     [NTransfer 1%N 1%N (ADec 400)] = (b', oks, g) /\
    conserve_b [1%N; 100%N; 101%N; 102%N] b1000 b' g = false.
Proof. eexists; eexists; eexists. split; [reflexivity | vm_compute; reflexivity]. Qed.

Theorem neg_amount_refuted :
  exists b' oks g, apply_block {| d_self_transfer := false; d_neg_amount := true; d_fee_after_body := false |} env3 b1000
                     [NTransfer 1%N 2%N (ADec (-30))] = (b', oks, g) /\
    oks = [true] /\ b' 1%N = 1030 /\ b' 2%N = -30 /\
    nonneg_b [1%N; 2%N; 100%N; 101%N; 102%N] b' = false.
Proof. eexists; eexists; eexists. split; [reflexivity | vm_compute; repeat split; reflexivity]. Qed.

(** the whole-balance fallback of a sender who is an admin: with the account emptied FIRST the loss
    is the rounding loss; emptied LAST (expected refutation of that order) the sender's own share is lost *)
Definition env4 : fenv := {| admins := [100%N; 101%N; 102%N; 103%N]; price := 50000; genesis_bal := 1000 |}.
Definition b_drained : bals := of_alist [(100%N, 1000); (101%N, 788500003); (102%N, 1000); (103%N, 1000)].

Theorem fallback_admin_sender :
  loss_b [100%N; 101%N; 102%N; 103%N] b_drained (pay_left env4 b_drained 101%N) 0 4 1 = true /\
  pay_left env4 b_drained 101%N 101%N = 197125000.
Proof. split; vm_compute; reflexivity. Qed.

Theorem zero_last_refuted :
  loss_b [100%N; 101%N; 102%N; 103%N] b_drained (pay_left_zero_last env4 b_drained 101%N) 0 4 1 = false /\
  pay_left_zero_last env4 b_drained 101%N 101%N = 0 /\
  conserve_b [100%N; 101%N; 102%N; 103%N] b_drained (pay_left_zero_last env4 b_drained 101%N) 0 = true.
Proof. repeat split; vm_compute; reflexivity. Qed.
