(** Proofs about the dispatch surface (C17).  The statements about the *generated* table
    ([surface_classified], [guard_impls_pinned], [footprints_avoid_protected]) are re-checked
    against the sources on every run; the statements about [invoke] hold for every behaviour
    of the method bodies. *)
From BX Require Import Base.Prelude Model.Surface.
From BXGen Require Import Gen_Surface.
From Coq Require Import String.
Local Open Scope string_scope.

(** * Facts about the generated table *)

(** every method of the registered surface has a derived class, and for own methods that class
    agrees with the hand-written intention (a new method, a changed signature, a dropped or
    altered guard makes this fail) *)
Lemma surface_classified : forallb classified_b surface = true.
Proof. vm_compute. reflexivity. Qed.

Lemma registered_plain : registered_plain_b = true.
Proof. vm_compute. reflexivity. Qed.

Lemma guard_impls_pinned : guard_impls_pinned_b = true.
Proof. vm_compute. reflexivity. Qed.

Lemma footprints_avoid_protected :
  forallb (fun e : string * string * list string => forallb (fun c => negb (mem_str c protected)) (snd e)) footprint = true.
Proof. vm_compute. reflexivity. Qed.

(** every entry of the intention table that is a listed defect is an internal entry point *)
Lemma defects_are_internal :
  forallb (fun e : string * string * icls =>
             match snd e with Defect _ (Internal _) => true | Defect _ _ => false | I _ => true end) intended = true.
Proof. vm_compute. reflexivity. Qed.

Lemma find_method_in c n m : find_method c n = Some m -> In m surface.
Proof. unfold find_method. intro H. apply find_some in H. tauto. Qed.

Lemma classified_of_find c n m : find_method c n = Some m -> classified_b m = true.
Proof.
  intro H. apply find_method_in in H.
  pose proof surface_classified as A. rewrite forallb_forall in A. apply A. exact H.
Qed.

(** * Classes with a guard *)
Definition guarded (c : cls) : bool :=
  match c with
  | Internal _ | AdminOnly | ChainAdminOnly | ChainAdminOrAdmin | SelfOnly | SelfOrAdmin | OwnerOnly => true
  | _ => false
  end.

Lemma cls_eqb_eq a b : cls_eqb a b = true -> a = b.
Proof.
  destruct a, b; simpl; try discriminate; try reflexivity.
  intro H. apply (proj1 (list_eqb_spec String.eqb String.eqb_eq _ _)) in H. subst. reflexivity.
Qed.

(** for a classified own method of a guarded class whose listed defect (if any) is switched off,
    the guard that is in effect is the one of the intended class *)
Lemma effective_guard_guarded f m c x :
  classified_b m = true -> class_of m = Some c -> guarded c = true ->
  (forall n, defect_of m = Some n -> memN n (d_unguarded f) = false) ->
  effective_guard f m x = allowed c x.
Proof.
  intros Hc Hk Hg Hd. unfold effective_guard.
  destruct (defect_of m) as [n|] eqn:E.
  - rewrite (Hd n eq_refl). rewrite Hk. reflexivity.
  - unfold guard_passes. unfold classified_b in Hc. unfold class_of in Hk. unfold defect_of in E.
    destruct (derived m) as [d|] eqn:D; [|discriminate].
    destruct (String.eqb (m_origin m) "own") eqn:O.
    + destruct (intended_of (m_contract m) (m_name m)) as [i|] eqn:I0; [|discriminate].
      destruct i as [c0|n0 c0]; inversion Hk; subst c0; clear Hk.
      * assert (d = c) as ->.
        { destruct c; simpl in Hg; try discriminate; simpl in Hc; apply cls_eqb_eq in Hc; exact Hc. }
        destruct c; simpl in Hg; try discriminate; reflexivity.
      * simpl in Hc. apply orb_true_iff in Hc. destruct Hc as [Hc|Hc]; apply cls_eqb_eq in Hc; subst d.
        -- discriminate E.
        -- destruct c; simpl in Hg; try discriminate; reflexivity.
    + (* promoted: class_of = derived, never a guarded class *)
      inversion Hk; subst d.
      destruct c; simpl in Hg; try discriminate; reflexivity.
Qed.

Section AnyBodies.
  Variable body : call -> state -> bool * list write.

  (** the general rejection lemma: a caller the intended class does not allow gets a failed
      receipt and the state is untouched - whatever the body would do, whatever the arguments *)
  Lemma invoke_rejects f st k m c :
    find_method (k_contract k) (k_method k) = Some m ->
    class_of m = Some c -> guarded c = true ->
    (forall n, defect_of m = Some n -> memN n (d_unguarded f) = false) ->
    allowed c (k_caller k) = false ->
    exists e, invoke body f st k = (Fail e, st).
  Proof.
    intros Hf Hk Hg Hd Ha. unfold invoke. rewrite Hf.
    destruct (dispatchable f m); simpl; [|eauto].
    destruct (args_ok (m_params m) (k_args k)); simpl; [|eauto].
    rewrite (effective_guard_guarded f m c (k_caller k) (classified_of_find _ _ _ Hf) Hk Hg Hd), Ha. simpl. eauto.
  Qed.

  (** a method that the repaired dispatcher does not dispatch at all *)
  Lemma invoke_refused f st k m :
    find_method (k_contract k) (k_method k) = Some m ->
    d_dispatch_all f = false -> (String.eqb (m_origin m) "own" && m_resp m) = false ->
    invoke body f st k = (Fail E_NO_METHOD, st).
  Proof.
    intros Hf Hd Ho. unfold invoke. rewrite Hf. unfold dispatchable. rewrite Hd, Ho. reflexivity.
  Qed.

  Lemma invoke_unknown f st k : find_method (k_contract k) (k_method k) = None -> invoke body f st k = (Fail E_NO_METHOD, st).
  Proof. intro H. unfold invoke. rewrite H. reflexivity. Qed.

  Lemma invoke_ill_typed f st k m :
    find_method (k_contract k) (k_method k) = Some m -> args_ok (m_params m) (k_args k) = false ->
    exists e, invoke body f st k = (Fail e, st).
  Proof.
    intros Hf Ha. unfold invoke. rewrite Hf. destruct (dispatchable f m); simpl; [|eauto]. rewrite Ha. simpl. eauto.
  Qed.

  (** open and read-only methods cannot touch the protected regions, provided their bodies
      write only inside the declared footprint (that proviso is what the driver checks on the
      real code: every changed key of every call is compared with the footprint) *)
  Lemma footprint_not_protected c n x :
    mem_str x (footprint_of c n) = true -> mem_str x protected = false.
  Proof.
    intro Hw. pose proof footprints_avoid_protected as A. rewrite forallb_forall in A.
    unfold footprint_of in Hw.
    destruct (find (fun e : string * string * list string => String.eqb (fst (fst e)) c && String.eqb (snd (fst e)) n) footprint) as [e|] eqn:F.
    - apply find_some in F. destruct F as [Fin _]. specialize (A e Fin). rewrite forallb_forall in A.
      unfold mem_str in Hw. apply existsb_exists in Hw. destruct Hw as [y [Hy1 Hy2]]. apply String.eqb_eq in Hy2. subst y.
      specialize (A _ Hy1). apply negb_true_iff in A. exact A.
    - simpl in Hw. discriminate Hw.
  Qed.

  Lemma protected_commit ws st k :
    within_footprint k ws = true -> protected_part (commit ws st) = protected_part st.
  Proof.
    unfold within_footprint, commit, protected_part. intro H.
    rewrite filter_app. rewrite forallb_forall in H.
    assert (filter (fun e : string * string => mem_str (fst e) protected)
              (map (fun w : write => (fst (fst w), snd (fst w))) ws) = []) as ->; [|reflexivity].
    induction ws as [|w t IH]; [reflexivity|]. cbn [map filter fst snd].
    assert (Hw : mem_str (fst (fst w)) (footprint_of (k_contract k) (k_method k)) = true) by (apply H; left; reflexivity).
    rewrite (footprint_not_protected _ _ _ Hw). apply IH. intros x Hx. apply H. right. exact Hx.
  Qed.

  Lemma protected_leak f ws st k :
    within_footprint k ws = true -> protected_part (leak f ws st) = protected_part st.
  Proof.
    intro H. unfold leak. destruct (d_add_unjournaled f); [|reflexivity].
    apply (protected_commit _ st k). unfold within_footprint in *. rewrite forallb_forall in *.
    intros x Hx. apply filter_In in Hx. apply H. tauto.
  Qed.

  Lemma no_foreign_reset f st k m c :
    (forall k' st', within_footprint k' (snd (body k' st')) = true) ->
    find_method (k_contract k) (k_method k) = Some m -> class_of m = Some c -> (c = Query \/ c = OpenWrite) ->
    protected_part (snd (invoke body f st k)) = protected_part st.
  Proof.
    intros Hb Hf Hk Hc. unfold invoke. rewrite Hf.
    destruct (dispatchable f m); simpl; [|reflexivity].
    destruct (args_ok (m_params m) (k_args k)); simpl; [|reflexivity].
    destruct (effective_guard f m (k_caller k)); simpl; [|reflexivity].
    specialize (Hb k st). destruct (body k st) as [ok ws]. simpl in Hb.
    destruct (m_resp m && ok); simpl.
    - apply (protected_commit ws st k Hb).
    - apply (protected_leak f ws st k Hb).
  Qed.
End AnyBodies.

(** * The property predicate *)
Definition P_prop (cm : string * string) (c : cls) (x : caller) (o : obs) : Prop :=
  (allowed c x = false -> o_ok o = false /\ unchanged o = true) /\
  (allowed c x = true ->
   match c with
   | Query => unchanged o = true
   | OpenWrite => o_crash o = false /\ o_mem o = false /\ (forall d, In d (o_diff o) -> mem_str d protected = false) /\
                  (forall e, In e (o_foreign o) -> foreign_ok cm e = true)
   | _ => o_crash o = false /\ (x_admin x = true \/ forall e, In e (o_foreign o) -> foreign_ok_priv cm e = true)
   end).

Lemma P_call_spec cm c x o : P_call_cm cm c x o = true <-> P_prop cm c x o.
Proof.
  unfold P_call_cm, P_prop. destruct (allowed c x) eqn:A; cbn [negb].
  - assert (Hgen : negb (o_crash o) && (x_admin x || forallb (foreign_ok_priv cm) (o_foreign o)) = true <->
                   o_crash o = false /\ (x_admin x = true \/ forall e, In e (o_foreign o) -> foreign_ok_priv cm e = true)).
    { rewrite andb_true_iff, negb_true_iff, orb_true_iff, forallb_forall. tauto. }
    split.
    + intro H. split; [discriminate|]. intros _.
      destruct c; try (apply Hgen; exact H); try exact H.
      rewrite !andb_true_iff, !negb_true_iff, !forallb_forall in H. destruct H as [[[H1 H2] H3] H4].
      repeat split; try assumption.
      intros d Hd. specialize (H3 d Hd). apply negb_true_iff in H3. exact H3.
    + intros [_ H]. specialize (H eq_refl).
      destruct c; try (apply Hgen; exact H); try exact H.
      destruct H as [H1 [H2 [H3 H4]]]. rewrite !andb_true_iff, !negb_true_iff, !forallb_forall. repeat split; try assumption.
      intros d Hd. apply negb_true_iff. apply H3. exact Hd.
  - split.
    + intro H. apply andb_true_iff in H. destruct H as [H1 H2]. apply negb_true_iff in H1. split; [tauto|discriminate].
    + intros [H _]. destruct (H eq_refl) as [H1 H2]. rewrite H1, H2. reflexivity.
Qed.

(** the observation the model itself would yield for a call *)
Definition obs_of (st : state) (r : outcome * state) : obs :=
  let new := firstn (List.length (snd r) - List.length st) (snd r) in
  {| o_ok := match fst r with Ok => true | Fail _ => false end;
     o_err := match fst r with Ok => 0%N | Fail e => e end;
     o_diff := map fst (filter (fun e : string * string => negb (String.eqb (fst e) "MEMORY")) new);
     o_acct := 0;
     o_mem := existsb (fun e : string * string => String.eqb (fst e) "MEMORY") new;
     o_cache := false; o_crash := false; o_foreign := [] |}.

Lemma obs_of_unchanged st e : unchanged (obs_of st (Fail e, st)) = true.
Proof. unfold obs_of, unchanged. simpl. rewrite Nat.sub_diag. reflexivity. Qed.

(** table facts used to lift the dispatcher lemmas to every method of the generated surface *)
Definition is_own_resp (m : method_t) : bool := String.eqb (m_origin m) "own" && m_resp m.

Lemma undispatchable_classes :
  forallb (fun m => match class_of m with
                    | Some StubPromoted | Some CorePromoted | Some NonResponse => negb (is_own_resp m)
                    | Some Uncallable => existsb (has_prefix "other:") (m_params m)
                    | _ => true
                    end) surface = true.
Proof. vm_compute. reflexivity. Qed.

Lemma other_prefix p : has_prefix "other:" p = true -> (forall w, accepts p w = false) /\ has_prefix "variadic:" p = false.
Proof.
  unfold has_prefix. intro U.
  do 6 (destruct p as [|? p]; [discriminate U|]; simpl in U;
        match type of U with (if ?d then _ else _) = true => destruct d; [subst|discriminate U] end).
  split; [intro w; destruct w; reflexivity | reflexivity].
Qed.

Lemma other_never_ok ps : existsb (has_prefix "other:") ps = true -> forall ws, args_ok ps ws = false.
Proof.
  induction ps as [|p ps IH]; [discriminate|]. simpl. intros U [|w ws].
  - simpl. destruct ps; [|reflexivity].
    rewrite orb_false_r in U. apply other_prefix in U. tauto.
  - simpl. apply orb_true_iff in U. destruct U as [U|U].
    + apply other_prefix in U. destruct U as [U _]. rewrite U. destruct ps; reflexivity.
    + rewrite (IH U ws). destruct ps; apply andb_false_r.
Qed.

(** with every listed defect repaired, any caller the intended class does not allow is turned
    away and the observation satisfies the property predicate the judge evaluates *)
Lemma fixed_rejects body st k m c :
  find_method (k_contract k) (k_method k) = Some m -> class_of m = Some c ->
  allowed c (k_caller k) = false ->
  exists e, invoke body cfg_fixed st k = (Fail e, st).
Proof.
  intros Hf Hk Ha.
  destruct (guarded c) eqn:G.
  - apply (invoke_rejects body cfg_fixed st k m c Hf Hk G); [|exact Ha]. intros n _. reflexivity.
  - pose proof undispatchable_classes as T. rewrite forallb_forall in T.
    specialize (T m (find_method_in _ _ _ Hf)). rewrite Hk in T.
    destruct c; simpl in G, Ha; try discriminate.
    + exists E_NO_METHOD. apply (invoke_refused body cfg_fixed st k m Hf eq_refl). apply negb_true_iff in T. exact T.
    + exists E_NO_METHOD. apply (invoke_refused body cfg_fixed st k m Hf eq_refl). apply negb_true_iff in T. exact T.
    + exists E_NO_METHOD. apply (invoke_refused body cfg_fixed st k m Hf eq_refl). apply negb_true_iff in T. exact T.
    + unfold invoke. rewrite Hf. destruct (dispatchable cfg_fixed m); simpl; [|eauto].
      rewrite (other_never_ok _ T). simpl. eauto.
Qed.

Lemma fixed_satisfies_P body st k m c :
  find_method (k_contract k) (k_method k) = Some m -> class_of m = Some c ->
  allowed c (k_caller k) = false ->
  P_call c (k_caller k) (obs_of st (invoke body cfg_fixed st k)) = true.
Proof.
  intros Hf Hk Ha. unfold P_call, P_call_cm. rewrite Ha. simpl.
  destruct (fixed_rejects body st k m c Hf Hk Ha) as [e ->].
  simpl. apply obs_of_unchanged.
Qed.

(** * In every reachable node state
    The registered contract objects live as long as the process; the guard of an internal entry point decides
    from the current caller alone, so whatever legitimate (or other) traffic the node has executed before -
    [h] is ANY list of external calls and cross-invocations, from ANY node state - an external account's call
    of an internal entry point fails and leaves ledger and node-local memory as they are. *)
Lemma internal_rejects_reachable body f ns0 h k m S :
  d_guard_memo f = [] ->
  find_method (k_contract k) (k_method k) = Some m ->
  class_of m = Some (Internal S) ->
  (forall n, defect_of m = Some n -> memN n (d_unguarded f) = false) ->
  let ns := run_ncalls body f ns0 h in
  exists e, invoke_n body f ns {| nc_call := k; nc_from := None |} = (Fail e, ns).
Proof.
  intros Hm Hf Hk Hd ns. unfold invoke_n. cbn [nc_call nc_from]. rewrite Hf.
  destruct (dispatchable f m); cbn [negb]; [|eauto].
  destruct (args_ok (m_params m) (k_args k)); cbn [negb]; [|eauto].
  rewrite Hm. cbn [mem_str existsb andb orb].
  rewrite (effective_guard_guarded f m (Internal S) (k_caller k) (classified_of_find _ _ _ Hf) Hk eq_refl Hd).
  cbn [allowed negb orb]. eauto.
Qed.

(** the same for every guarded class and a caller it does not allow *)
Lemma privileged_rejects_reachable body f ns0 h k m c :
  d_guard_memo f = [] ->
  find_method (k_contract k) (k_method k) = Some m ->
  class_of m = Some c -> guarded c = true ->
  (forall n, defect_of m = Some n -> memN n (d_unguarded f) = false) ->
  allowed c (k_caller k) = false ->
  let ns := run_ncalls body f ns0 h in
  exists e, invoke_n body f ns {| nc_call := k; nc_from := None |} = (Fail e, ns).
Proof.
  intros Hm Hf Hk Hg Hd Ha ns. unfold invoke_n. cbn [nc_call nc_from]. rewrite Hf.
  destruct (dispatchable f m); cbn [negb]; [|eauto].
  destruct (args_ok (m_params m) (k_args k)); cbn [negb]; [|eauto].
  rewrite Hm. cbn [mem_str existsb andb orb].
  rewrite (effective_guard_guarded f m c (k_caller k) (classified_of_find _ _ _ Hf) Hk Hg Hd), Ha.
  cbn [negb orb]. eauto.
Qed.

(** * Refutations on the faithful model (flags on) and non-vacuity *)
Definition outsider : caller := {| x_id := 1; x_admin := false; x_self := false |}.
Definition admin : caller := {| x_id := 2; x_admin := true; x_self := false |}.
Definition mk (c n : string) (a : list wkind) (x : caller) (au : bool) : call :=
  {| k_contract := c; k_method := n; k_args := a; k_caller := x; k_audit := au |}.
Definition only (n : N) : cfg := {| d_dispatch_all := false; d_add_unjournaled := false; d_unguarded := [n]; d_guard_memo := [] |}.

(** the promoted Stub.Add: the call fails and yet the write stays *)
Lemma stub_add_refuted :
  invoke std_body cfg_faithful [] (mk "InterchainManager" "Add" [WString; WBytes] outsider false)
  = (Fail E_PANIC, [("InterchainContractAddr", "key")]).
Proof. vm_compute. reflexivity. Qed.

Lemma stub_add_fixed :
  invoke std_body cfg_fixed [] (mk "InterchainManager" "Add" [WString; WBytes] outsider false) = (Fail E_NO_METHOD, []).
Proof. vm_compute. reflexivity. Qed.

(** a method without *Response result runs before the dispatcher fails: the in-memory effect stays *)
Lemma nonresponse_refuted :
  invoke std_body cfg_faithful [] (mk "InterchainManager" "InitServiceCache" [] outsider false)
  = (Fail E_PANIC, [("MEMORY", "InterchainManager.ServiceCache")]).
Proof. vm_compute. reflexivity. Qed.

(** an outsider reaches a promoted primitive that returns *Response *)
Lemma stub_crossinvoke_refuted :
  fst (invoke std_body cfg_faithful [] (mk "RoleManager" "CrossInvoke" [WString; WString] outsider false)) = Ok.
Proof. vm_compute. reflexivity. Qed.

Definition unguarded_calls : list (N * call) :=
  [(10, mk "InterchainManager" "DeleteInterchain" [WString] outsider false);
   (11, mk "InterchainManager" "Register" [WString] outsider false);
   (12, mk "InterchainManager" "HandleIBTPData" [WBytes] outsider false);
   (13, mk "Governance" "ZeroPermission" [WString] outsider false);
   (14, mk "InterBroker" "EmitInterchain" [WString; WString; WString; WString; WString; WString] outsider false);
   (15, mk "InterBroker" "InvokeInterchain" [WBytes] outsider false);
   (16, mk "InterBroker" "InvokeReceipt" [WBytes] outsider false);
   (17, mk "ServiceRegistry" "Manage" [WString; WString; WString; WString; WBytes] outsider false)]%N.

(** a caller check that memoizes its success in the process-wide contract object: on a fresh node the
    outsider is rejected; after ONE legitimate cross-invocation from the interchain contract (an ordinary
    accepted request) the same call of the same outsider is accepted *)
Definition memo_cfg : cfg := {| d_dispatch_all := false; d_add_unjournaled := false; d_unguarded := []; d_guard_memo := ["TransactionManager"] |}.
Definition ns_fresh : nstate := {| n_led := []; n_memo := [] |}.
Definition legit_begin : ncall :=
  {| nc_call := mk "TransactionManager" "Begin" [WString; WU64; WBool] outsider false; nc_from := Some "InterchainContractAddr" |}.
Definition forged_report : ncall :=
  {| nc_call := mk "TransactionManager" "Report" [WString; WI32] outsider false; nc_from := None |}.

Lemma guard_memo_refuted :
  fst (invoke_n std_body memo_cfg ns_fresh forged_report) = Fail E_NO_PERMISSION /\
  fst (invoke_n std_body memo_cfg (run_ncalls std_body memo_cfg ns_fresh [legit_begin]) forged_report) = Ok /\
  fst (invoke_n std_body cfg_fixed (run_ncalls std_body cfg_fixed ns_fresh [legit_begin]) forged_report) = Fail E_NO_PERMISSION.
Proof. vm_compute. repeat split; reflexivity. Qed.

(** the listed defects that are still present in the generated table: [Defect] rows whose method has no guard *)
Definition open_defects : list N :=
  flat_map (fun m => match defect_of m with Some n => [n] | None => [] end) surface.

(** each unguarded internal entry point that is still open: with its flag on an outsider's call succeeds;
    with the flag off - and for the entry points repaired in the sources meanwhile - it is rejected *)
Lemma unguarded_refuted :
  forallb (fun p : N * call => negb (memN (fst p) open_defects) ||
                               match fst (invoke std_body (only (fst p)) [] (snd p)) with Ok => true | Fail _ => false end) unguarded_calls = true.
Proof. vm_compute. reflexivity. Qed.

Lemma unguarded_fixed :
  forallb (fun p : N * call =>
             match invoke std_body cfg_fixed [] (snd p) with (Fail e, []) => (e =? E_NO_PERMISSION)%N | _ => false end) unguarded_calls = true.
Proof. vm_compute. reflexivity. Qed.

(** an entry point whose guard was added in the sources rejects the outsider whatever the flags say *)
Lemma repaired_reject :
  forallb (fun p : N * call => memN (fst p) open_defects ||
                               match invoke std_body (only (fst p)) [] (snd p) with (Fail e, []) => (e =? E_NO_PERMISSION)%N | _ => false end) unguarded_calls = true.
Proof. vm_compute. reflexivity. Qed.

(** non-vacuity: guarded entry points exist, a legitimate caller passes, an outsider does not *)
Example internal_example :
  option_map class_of (find_method "TransactionManager" "Report") = Some (Some (Internal ["InterchainContractAddr"])).
Proof. vm_compute. reflexivity. Qed.

Example admin_passes :
  fst (invoke std_body cfg_fixed [] (mk "AppchainManager" "FreezeAppchain" [WString; WString] admin false)) = Ok.
Proof. vm_compute. reflexivity. Qed.

Example outsider_rejected :
  invoke std_body cfg_fixed [] (mk "AppchainManager" "FreezeAppchain" [WString; WString] outsider false) = (Fail E_NO_PERMISSION, []).
Proof. vm_compute. reflexivity. Qed.

Example open_write_example :
  invoke std_body cfg_fixed [] (mk "Store" "Set" [WString; WString] outsider false) = (Ok, [("StoreContractAddr", "key")]).
Proof. vm_compute. reflexivity. Qed.

Example class_counts :
  (List.length surface >= 500)%nat /\
  (List.length (filter (fun m => match class_of m with Some (Internal _) => true | _ => false end) surface) >= 30)%nat /\
  (List.length (filter (fun m => match class_of m with Some StubPromoted => true | _ => false end) surface) >= 300)%nat.
Proof. vm_compute. repeat split; repeat constructor. Qed.

(** * Reservations: an open method changes and deletes only records it created itself *)
Lemma acct_eqb_eq a b : acct_eqb a b = true <-> a = b.
Proof.
  destruct a as [w1 s1], b as [w2 s2]. unfold acct_eqb. cbn [ac_who ac_sp].
  rewrite andb_true_iff, !N.eqb_eq. split; [intros [-> ->]; reflexivity | intro H; inversion H; auto].
Qed.

Lemma acct_eqb_refl a : acct_eqb a a = true.
Proof. apply acct_eqb_eq. reflexivity. Qed.

Lemma rget_aremove_other k a (r : reservations) : acct_eqb k a = false -> rget k (aremove acct_eqb a r) = rget k r.
Proof.
  intro H. unfold rget. induction r as [|[x v] t IH]; [reflexivity|]. simpl.
  destruct (acct_eqb a x) eqn:E.
  - apply acct_eqb_eq in E. subst x. rewrite H. exact IH.
  - simpl. destruct (acct_eqb k x); [reflexivity | exact IH].
Qed.

Lemma rget_aset_other k a v (r : reservations) : acct_eqb k a = false -> rget k (aset acct_eqb a v r) = rget k r.
Proof. intro H. unfold rget, aset. simpl. rewrite H. apply rget_aremove_other. exact H. Qed.

(** reserving / releasing a list of accounts none of which is [k] leaves [k]'s record alone *)
Lemma fold_aset_other k admins : forall r,
  (forall a, In a admins -> acct_eqb k a = false) ->
  rget k (fold_left (fun acc a => aset acct_eqb a "appchainAdmin" acc) admins r) = rget k r.
Proof.
  induction admins as [|a t IH]; intros r H; [reflexivity|]. simpl.
  rewrite IH; [|intros x Hx; apply H; right; exact Hx].
  apply rget_aset_other. apply H. left. reflexivity.
Qed.

Lemma fold_aremove_other k admins : forall r,
  (forall a, In a admins -> acct_eqb k a = false) ->
  rget k (fold_left (fun acc a => aremove acct_eqb a acc) admins r) = rget k r.
Proof.
  induction admins as [|a t IH]; intros r H; [reflexivity|]. simpl.
  rewrite IH; [|intros x Hx; apply H; right; exact Hx].
  apply rget_aremove_other. apply H. left. reflexivity.
Qed.

(** with keys written under the spelling that was checked (the code as it is): a registration that is accepted
    leaves every existing reservation as it was, and so does its later withdrawal - whoever the listed accounts are
    and however they are spelled *)
Lemma reservations_untouched c admins r r' k v :
  register_res false c admins r = Some r' -> rget k r = Some v ->
  rget k r' = Some v /\ rget k (free_res false admins r') = Some v.
Proof.
  unfold register_res, free_res, occ_key. intros H Hk.
  destruct (negb _); [discriminate|].
  destruct (existsb (fun a => match rget a r with Some _ => true | None => false end) admins) eqn:E; [discriminate|].
  inversion H; subst r'; clear H.
  assert (Hne : forall a, In a admins -> acct_eqb k a = false).
  { intros a Ha. destruct (acct_eqb k a) eqn:Q; [|reflexivity]. apply acct_eqb_eq in Q. subst a.
    assert (existsb (fun a => match rget a r with Some _ => true | None => false end) admins = true) as X.
    { apply existsb_exists. exists k. split; [exact Ha | rewrite Hk; reflexivity]. }
    rewrite X in E. discriminate E. }
  assert (H1 : rget k (fold_left (fun acc a => aset acct_eqb a "appchainAdmin" acc) admins r) = Some v).
  { rewrite fold_aset_other; assumption. }
  split; [exact H1|].
  rewrite (fold_aremove_other k admins _ Hne). exact H1.
Qed.

(** a deputy that canonicalises where the check does not: the victim's reservation (party 7, a governance admin)
    is overwritten by the attacker's registration (party 1 lists party 7 in another spelling) and deleted by the
    attacker's withdrawal *)
Lemma reservations_canon_refuted :
  let r := [({| ac_who := 7; ac_sp := 0 |}, "governanceAdmin")]%N in
  let admins := [{| ac_who := 1; ac_sp := 0 |}; {| ac_who := 7; ac_sp := 1 |}]%N in
  exists r', register_res true 1 admins r = Some r' /\
             rget {| ac_who := 7; ac_sp := 0 |} r' = Some "appchainAdmin" /\
             rget {| ac_who := 7; ac_sp := 0 |} (free_res true admins r') = None.
Proof. eexists. split; [vm_compute; reflexivity|]. split; vm_compute; reflexivity. Qed.

(** ** whose service: the stored appchain decides *)
Lemma self_by_stored_chain recs admins sid ch caller :
  alookup String.eqb sid recs = Some ch ->
  (passes_self false recs admins sid caller = true <-> alookup String.eqb ch admins = Some caller).
Proof.
  intro H. unfold passes_self, self_chain. rewrite H.
  destruct (alookup String.eqb ch admins) as [a|]; split; intro E; try discriminate.
  - apply N.eqb_eq in E. subst a. reflexivity.
  - inversion E. subst a. apply N.eqb_refl.
Qed.

Lemma first_seg_app ch svc : has_colon ch = false -> first_seg (ch ++ ":" ++ svc) = ch.
Proof.
  induction ch as [|c t IH]; intro H; [reflexivity|].
  simpl in H. apply Bool.orb_false_iff in H. destruct H as [Hc Ht].
  specialize (IH Ht). simpl in IH. simpl. rewrite Hc, IH. reflexivity.
Qed.

(** for appchain ids without ':' both readings agree ... *)
Lemma self_by_segment_agrees recs admins ch svc caller :
  has_colon ch = false -> alookup String.eqb (ch ++ ":" ++ svc) recs = Some ch ->
  passes_self true recs admins (ch ++ ":" ++ svc) caller = passes_self false recs admins (ch ++ ":" ++ svc) caller.
Proof. intros Hc H. unfold passes_self, self_chain. rewrite H, (first_seg_app ch svc Hc). reflexivity. Qed.

(** ... with appchains "org" (admin 1) and "org:chainB" (admin 2) the reading by segment lets the admin of "org" pass
    for the other appchain's service and refuses its real admin *)
Lemma self_by_segment_refuted :
  let recs := [("org:chainB:svc2", "org:chainB")] in
  let admins := [("org", 1%N); ("org:chainB", 2%N)] in
  (passes_self true recs admins "org:chainB:svc2" 1 = true /\ passes_self true recs admins "org:chainB:svc2" 2 = false) /\
  (passes_self false recs admins "org:chainB:svc2" 1 = false /\ passes_self false recs admins "org:chainB:svc2" 2 = true).
Proof. vm_compute. repeat split. Qed.
