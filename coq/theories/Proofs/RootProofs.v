(** C10, state-root part: the root computed by [do_flush] is the hash of a canonical description
    of the block's change set followed by the previous root; the description does not depend on
    the order of writes nor on where origin values were loaded from; single perturbations of
    the description change the preimage and therefore (hash injective) the root. *)
From BX Require Import Base.Prelude Model.JsonAcct Model.Merkle Model.StateLedger Proofs.LedgerLemmas.
From Coq Require Import Sorting.Permutation Sorting.Sorted.
Local Open Scope N_scope.

(** * the canonical description *)
Definition kvb := (bytes * bytes)%type.
Definition desc_entry := (N * option acct * list kvb)%type.

Definition obj_kvs (o : obj) : list kvb :=
  map (fun kv : bytes * val => (fst kv, nb (snd kv))) (isort kv_leb (changed_entries o)).

Definition is_dirty (m : st) (a : N) (o : obj) : bool :=
  match snd (journal_of m a o) with Some _ => true | None => false end.

(** dirty objects in the order of their address strings *)
Definition dirty_objs (m : st) : list (N * obj) :=
  flat_map (fun ao : N * obj => if is_dirty m (fst ao) (snd ao) then [ao] else []) (s_objs m).

Definition canon (e : env) (m : st) : list desc_entry :=
  map (fun ao : N * obj => (fst ao, o_dirty (snd ao), obj_kvs (snd ao))) (isort (ao_leb_str e) (dirty_objs m)).

Definition enc_kvs (kvs : list kvb) : bytes := flat_map (fun kv : kvb => fst kv ++ snd kv) kvs.
Definition enc_acct (d : option acct) : bytes :=
  match d with Some x => json_acct (ac_nonce x) (ac_bal x) (ac_ch x) | None => [] end.
Definition enc_entry (e : env) (x : desc_entry) : bytes :=
  let '(a, d, kvs) := x in e_raw e a ++ enc_acct d ++ e_H e (enc_kvs kvs).
Definition preimage (e : env) (c : list desc_entry) (prev : bytes) : bytes := flat_map (enc_entry e) c ++ prev.

Definition root_of (e : env) (m : st) : bytes :=
  match snd (do_flush e m) with OFlush r _ => r | _ => [] end.

(** sorting commutes with a map that leaves the sort key alone *)
Lemma insert_map {A B} (f : A -> B) (lebA : A -> A -> bool) (lebB : B -> B -> bool) :
  (forall x y, lebB (f x) (f y) = lebA x y) ->
  forall x l, insert lebB (f x) (map f l) = map f (insert lebA x l).
Proof.
  intros Hk x l. induction l as [|y t IH]; simpl; [reflexivity|].
  rewrite Hk. destruct (lebA x y); simpl; [reflexivity | rewrite IH; reflexivity].
Qed.
Lemma isort_map {A B} (f : A -> B) (lebA : A -> A -> bool) (lebB : B -> B -> bool) :
  (forall x y, lebB (f x) (f y) = lebA x y) ->
  forall l, isort lebB (map f l) = map f (isort lebA l).
Proof.
  intros Hk l. induction l as [|x t IH]; simpl; [reflexivity|].
  rewrite IH. apply insert_map. exact Hk.
Qed.

Lemma flat_map_map {A B C} (f : B -> list C) (g : A -> B) (l : list A) :
  flat_map f (map g l) = flat_map (fun x => f (g x)) l.
Proof. induction l as [|x t IH]; simpl; [reflexivity | rewrite IH; reflexivity]. Qed.

(** [do_flush] hashes the canonical description followed by the previous root *)
Lemma state_hash_kvs (e : env) (o : obj) : state_hash e o = e_H e (enc_kvs (obj_kvs o)).
Proof.
  unfold state_hash, enc_kvs, obj_kvs. f_equal.
  induction (isort kv_leb (changed_entries o)) as [|x t IH]; simpl; [reflexivity|].
  rewrite IH. reflexivity.
Qed.

Lemma dirty_list_eq (m : st) :
  flat_map (fun x : N * (obj * option jentry) =>
              match snd (snd x) with Some _ => [(fst x, fst (snd x))] | None => [] end)
           (map (fun ao : N * obj => (fst ao, journal_of m (fst ao) (snd ao))) (s_objs m)) =
  map (fun ao : N * obj => (fst ao, fst (journal_of m (fst ao) (snd ao)))) (dirty_objs m).
Proof.
  unfold dirty_objs, is_dirty. induction (s_objs m) as [|[a o] t IH]; [reflexivity|].
  cbn [map flat_map fst snd]. rewrite IH.
  destruct (snd (journal_of m a o)); reflexivity.
Qed.

(** the lazily loaded origin code does not enter the hashed data *)
Lemma dirty_data_journal (e : env) (m : st) (a : N) (o : obj) : dirty_data e a (fst (journal_of m a o)) = dirty_data e a o.
Proof. unfold journal_of, dirty_data, state_hash, changed_entries, orig_of. simpl. reflexivity. Qed.

Theorem flush_root_canon (e : env) (m : st) : root_of e m = e_H e (preimage e (canon e m) (s_prev m)).
Proof.
  unfold root_of, do_flush. cbn [snd]. rewrite dirty_list_eq.
  unfold preimage, canon. apply f_equal. apply (f_equal (fun x => x ++ s_prev m)).
  set (g := fun ao : N * obj => (fst ao, fst (journal_of m (fst ao) (snd ao)))).
  rewrite (isort_map g (ao_leb_str e) (ao_leb_str e)) by (intros [a1 o1] [a2 o2]; reflexivity).
  rewrite !flat_map_map.
  apply flat_map_ext. intros [a o]. unfold g. cbn [fst snd].
  rewrite dirty_data_journal. unfold dirty_data, enc_entry, enc_acct.
  rewrite state_hash_kvs. reflexivity.
Qed.

(** * the description is a function of the change set *)

(** what one account contributes: nothing when unmodified, else its dirty record and its
    changed (key, value) pairs as a function on keys *)
Definition chg_val (o : obj) (k : bytes) : option bytes :=
  match kget k (o_dst o) with
  | Some v => if veqb (orig_of o k) v then None else Some (nb v)
  | None => None
  end.

Definition same_contribution (m1 m2 : st) : Prop :=
  forall a,
    match aget a (s_objs m1), aget a (s_objs m2) with
    | Some o1, Some o2 =>
        is_dirty m1 a o1 = is_dirty m2 a o2 /\
        (is_dirty m1 a o1 = true -> o_dirty o1 = o_dirty o2 /\ forall k, chg_val o1 k = chg_val o2 k)
    | Some o1, None => is_dirty m1 a o1 = false
    | None, Some o2 => is_dirty m2 a o2 = false
    | None, None => True
    end.

Definition objs_wf (m : st) : Prop :=
  NoDup (map fst (s_objs m)) /\ forall a o, In (a, o) (s_objs m) -> NoDup (map fst (o_dst o)).

Lemma kv_leb_total x y : kv_leb x y = true \/ kv_leb y x = true.
Proof. apply bytes_leb_total. Qed.
Lemma kv_leb_trans x y z : kv_leb x y = true -> kv_leb y z = true -> kv_leb x z = true.
Proof. apply bytes_leb_trans. Qed.

(** a sorted list is determined by its elements when the order is antisymmetric on them *)
Lemma sorted_perm_eq_in {A} (leb : A -> A -> bool) (l1 : list A) : forall l2,
  (forall x y, In x l1 -> In y l1 -> leb x y = true -> leb y x = true -> x = y) ->
  StronglySorted (lebP leb) l1 -> StronglySorted (lebP leb) l2 -> Permutation l1 l2 -> l1 = l2.
Proof.
  induction l1 as [|x t IH]; intros l2 Ha S1 S2 P.
  - apply Permutation_nil in P. subst. reflexivity.
  - destruct l2 as [|y u]; [apply Permutation_sym, Permutation_nil in P; discriminate|].
    inversion S1 as [|? ? S1' F1]; inversion S2 as [|? ? S2' F2]; subst.
    assert (x = y).
    { assert (Hx : In x (y :: u)) by (apply (Permutation_in _ P); left; reflexivity).
      assert (Hy : In y (x :: t)) by (apply (Permutation_in _ (Permutation_sym P)); left; reflexivity).
      rewrite Forall_forall in F1, F2.
      destruct Hx as [-> | Hx]; [reflexivity|]. destruct Hy as [-> | Hy]; [reflexivity|].
      apply Ha; [left; reflexivity | right; exact Hy | apply F1; exact Hy | apply F2; exact Hx]. }
    subst y. f_equal. apply IH; try assumption.
    + intros a b Ia Ib. apply Ha; right; assumption.
    + apply Permutation_cons_inv in P. exact P.
Qed.

Lemma In_map_fst {A B} (x : A) (y : B) l : In (x, y) l -> In x (map fst l).
Proof. intro H. apply in_map_iff. exists (x, y). split; [reflexivity | exact H]. Qed.

Lemma NoDup_keys_inj {A B} (l : list (A * B)) x y y' :
  NoDup (map fst l) -> In (x, y) l -> In (x, y') l -> y = y'.
Proof.
  induction l as [|[a b] t IH]; simpl; intros Hn H1 H2; [tauto|].
  inversion Hn as [|? ? Hni Hn']; subst.
  destruct H1 as [H1 | H1], H2 as [H2 | H2].
  - congruence.
  - inversion H1; subst. exfalso. apply Hni. eapply In_map_fst; eassumption.
  - inversion H2; subst. exfalso. apply Hni. eapply In_map_fst; eassumption.
  - eapply IH; eassumption.
Qed.

(** the changed pairs of an object, normalised, are determined by [chg_val] *)
Lemma In_changed_iff o k b :
  NoDup (map fst (o_dst o)) ->
  (In (k, b) (map (fun kv : bytes * val => (fst kv, nb (snd kv))) (changed_entries o)) <-> chg_val o k = Some b).
Proof.
  intro Hn. unfold chg_val, changed_entries. split.
  - intro H. apply in_map_iff in H. destruct H as [[k' v] [E Hin]]. simpl in E. inversion E; subst.
    apply filter_In in Hin. destruct Hin as [Hin Hp]. simpl in Hp.
    assert (Hk : kget k (o_dst o) = Some v).
    { unfold kget. destruct (alookup bytes_eqb k (o_dst o)) as [v'|] eqn:El.
      - apply (alookup_In bytes_eqb bytes_eqb_spec) in El. f_equal. eapply NoDup_keys_inj; eassumption.
      - apply (alookup_None_notin bytes_eqb bytes_eqb_spec) in El. exfalso. apply El. eapply In_map_fst; eassumption. }
    rewrite Hk. apply negb_true_iff in Hp. rewrite Hp. reflexivity.
  - destruct (kget k (o_dst o)) as [v|] eqn:Hk; [|discriminate].
    destruct (veqb (orig_of o k) v) eqn:Ev; [discriminate|]. intro H. inversion H; subst.
    apply in_map_iff. exists (k, v). split; [reflexivity|].
    apply filter_In. split; [apply (alookup_In bytes_eqb bytes_eqb_spec); exact Hk|].
    simpl. rewrite Ev. reflexivity.
Qed.

Lemma changed_keys_NoDup o : NoDup (map fst (o_dst o)) -> NoDup (map fst (changed_entries o)).
Proof. apply filter_keys_NoDup. Qed.

Lemma NoDup_pairs_of_keys {A B} (l : list (A * B)) : NoDup (map fst l) -> NoDup l.
Proof.
  induction l as [|[a b] t IH]; simpl; intro H; [constructor|].
  inversion H as [|? ? Hni Hn]; subst. constructor; [| apply IH; exact Hn].
  intro Hin. apply Hni. eapply In_map_fst; eassumption.
Qed.

Definition kvb_leb (x y : kvb) : bool := bytes_leb (fst x) (fst y).

Lemma obj_kvs_sorted_form o :
  obj_kvs o = isort kvb_leb (map (fun kv : bytes * val => (fst kv, nb (snd kv))) (changed_entries o)).
Proof.
  unfold obj_kvs. symmetry. apply isort_map. intros [k1 v1] [k2 v2]. reflexivity.
Qed.

Lemma obj_kvs_ext o1 o2 :
  NoDup (map fst (o_dst o1)) -> NoDup (map fst (o_dst o2)) ->
  (forall k, chg_val o1 k = chg_val o2 k) -> obj_kvs o1 = obj_kvs o2.
Proof.
  intros N1 N2 Hc. rewrite !obj_kvs_sorted_form.
  set (l1 := map (fun kv : bytes * val => (fst kv, nb (snd kv))) (changed_entries o1)).
  set (l2 := map (fun kv : bytes * val => (fst kv, nb (snd kv))) (changed_entries o2)).
  assert (K1 : NoDup (map fst l1)).
  { unfold l1. rewrite map_map. simpl. apply changed_keys_NoDup. exact N1. }
  assert (K2 : NoDup (map fst l2)).
  { unfold l2. rewrite map_map. simpl. apply changed_keys_NoDup. exact N2. }
  assert (P : Permutation l1 l2).
  { apply NoDup_Permutation; try (apply NoDup_pairs_of_keys; assumption).
    intros [k b]. unfold l1, l2. rewrite !In_changed_iff by assumption. rewrite Hc. tauto. }
  apply (sorted_perm_eq_in kvb_leb).
  - intros [k b] [k' b'] I1 I2 L1 L2.
    apply (proj1 (isort_In kvb_leb _ _)) in I1. apply (proj1 (isort_In kvb_leb _ _)) in I2.
    unfold kvb_leb in L1, L2. simpl in L1, L2.
    assert (k = k') by (apply bytes_leb_antisym; assumption). subst k'.
    f_equal. exact (NoDup_keys_inj l1 k b b' K1 I1 I2).
  - apply isort_sorted; [intros x y; apply bytes_leb_total | intros x y z; apply bytes_leb_trans].
  - apply isort_sorted; [intros x y; apply bytes_leb_total | intros x y z; apply bytes_leb_trans].
  - rewrite !isort_perm. exact P.
Qed.

Lemma In_dirty_objs m a o : In (a, o) (dirty_objs m) <-> In (a, o) (s_objs m) /\ is_dirty m a o = true.
Proof.
  unfold dirty_objs. rewrite in_flat_map. split.
  - intros [[a' o'] [Hin H]]. simpl in H. destruct (is_dirty m a' o') eqn:E; [|contradiction].
    destruct H as [H|[]]. inversion H; subst. tauto.
  - intros [Hin Hd]. exists (a, o). split; [exact Hin|]. simpl. rewrite Hd. left. reflexivity.
Qed.

Lemma dirty_objs_keys_NoDup m : NoDup (map fst (s_objs m)) -> NoDup (map fst (dirty_objs m)).
Proof.
  unfold dirty_objs. induction (s_objs m) as [|[a o] t IH]; simpl; intro H; [constructor|].
  inversion H as [|? ? Hni Hn]; subst.
  destruct (is_dirty m a o); simpl; [constructor|]; try (apply IH; exact Hn).
  intro Hin. apply Hni. clear - Hin. induction t as [|[b p] t IH]; simpl in *; [tauto|].
  destruct (is_dirty m b p); simpl in *; tauto.
Qed.

Lemma aget_In {V} (a : N) (v : V) l : aget a l = Some v -> In (a, v) l.
Proof. apply (alookup_In N.eqb N_eqb_spec). Qed.
Lemma In_aget {V} (a : N) (v : V) l : NoDup (map fst l) -> In (a, v) l -> aget a l = Some v.
Proof.
  intros Hn Hin. unfold aget. destruct (alookup N.eqb a l) as [v'|] eqn:E.
  - apply (alookup_In N.eqb N_eqb_spec) in E. f_equal. eapply NoDup_keys_inj; eassumption.
  - apply (alookup_None_notin N.eqb N_eqb_spec) in E. exfalso. apply E. eapply In_map_fst; eassumption.
Qed.

Section RootFunction.
  Variable e : env.
  (** distinct accounts have distinct address strings *)
  Hypothesis str_inj : forall a b, e_str e a = e_str e b -> a = b.

  Definition de_leb (x y : desc_entry) : bool := bytes_leb (e_str e (fst (fst x))) (e_str e (fst (fst y))).

  Lemma canon_sorted_form m :
    canon e m = isort de_leb (map (fun ao : N * obj => (fst ao, o_dirty (snd ao), obj_kvs (snd ao))) (dirty_objs m)).
  Proof. unfold canon. symmetry. apply isort_map. intros [a1 o1] [a2 o2]. reflexivity. Qed.

  (** two states whose accounts contribute the same changes have the same canonical description,
      whatever the order of the writes that produced them and wherever their origin values came
      from (account cache, store, before or after a reopen) *)
  Theorem canon_function_of_changes m1 m2 :
    objs_wf m1 -> objs_wf m2 -> same_contribution m1 m2 -> canon e m1 = canon e m2.
  Proof.
    intros [N1 D1] [N2 D2] Hs. rewrite !canon_sorted_form.
    set (f := fun ao : N * obj => (fst ao, o_dirty (snd ao), obj_kvs (snd ao))).
    assert (K1 : NoDup (map (fun x : desc_entry => fst (fst x)) (map f (dirty_objs m1)))).
    { rewrite map_map. simpl. apply dirty_objs_keys_NoDup. exact N1. }
    assert (K2 : NoDup (map (fun x : desc_entry => fst (fst x)) (map f (dirty_objs m2)))).
    { rewrite map_map. simpl. apply dirty_objs_keys_NoDup. exact N2. }
    assert (Hin : forall x, In x (map f (dirty_objs m1)) <-> In x (map f (dirty_objs m2))).
    { assert (Hdir : forall ma mb (Na : NoDup (map fst (s_objs ma))) (Nb : NoDup (map fst (s_objs mb)))
                            (Da : forall a o, In (a, o) (s_objs ma) -> NoDup (map fst (o_dst o)))
                            (Db : forall a o, In (a, o) (s_objs mb) -> NoDup (map fst (o_dst o))),
                 same_contribution ma mb -> forall x, In x (map f (dirty_objs ma)) -> In x (map f (dirty_objs mb))).
      { intros ma mb Na Nb Da Db Hc x Hx. apply in_map_iff in Hx. destruct Hx as [[a o] [Ex Hx]].
        apply In_dirty_objs in Hx. destruct Hx as [Hio Hd].
        pose proof (Hc a) as Ha. rewrite (In_aget a o _ Na Hio) in Ha.
        destruct (aget a (s_objs mb)) as [o2|] eqn:E2; [| congruence].
        destruct Ha as [Hdd Hrest]. destruct (Hrest Hd) as [Hdirty Hcv].
        apply in_map_iff. exists (a, o2). split.
        - subst x. unfold f. simpl. rewrite Hdirty. f_equal.
          apply obj_kvs_ext; [eapply Db; apply aget_In; exact E2 | eapply Da; exact Hio | intro k; symmetry; apply Hcv].
        - apply In_dirty_objs. split; [apply aget_In; exact E2 | congruence]. }
      intro x. split; [apply (Hdir m1 m2); assumption|].
      apply (Hdir m2 m1); try assumption.
      intro a. specialize (Hs a). destruct (aget a (s_objs m1)) as [o1|], (aget a (s_objs m2)) as [o2|]; try assumption; try exact I.
      destruct Hs as [Hd Hr]. split; [congruence|]. intro Hd2. rewrite <- Hd in Hd2.
      destruct (Hr Hd2) as [Hx Hy]. split; [congruence | intro k; symmetry; apply Hy]. }
    assert (ND : forall (l : list desc_entry), NoDup (map (fun x : desc_entry => fst (fst x)) l) -> NoDup l).
    { induction l as [|x t IH]; simpl; intro H; [constructor|].
      inversion H as [|? ? Hni Hn]; subst. constructor; [| apply IH; exact Hn].
      intro Hx. apply Hni. apply in_map_iff. exists x. split; [reflexivity | exact Hx]. }
    apply (sorted_perm_eq_in de_leb).
    - intros x y I1 I2 L1 L2. apply (proj1 (isort_In de_leb _ _)) in I1. apply (proj1 (isort_In de_leb _ _)) in I2.
      unfold de_leb in L1, L2.
      assert (Ea : fst (fst x) = fst (fst y)) by (apply str_inj; apply bytes_leb_antisym; assumption).
      clear L1 L2. revert I1 I2 Ea K1. generalize (map f (dirty_objs m1)). clear.
      induction l as [|z t IH]; simpl; intros I1 I2 Ea K; [tauto|].
      inversion K as [|? ? Hni Hn]; subst.
      destruct I1 as [-> | I1], I2 as [-> | I2]; try reflexivity.
      + exfalso. apply Hni. rewrite Ea. apply in_map_iff. exists y. split; [reflexivity | exact I2].
      + exfalso. apply Hni. rewrite <- Ea. apply in_map_iff. exists x. split; [reflexivity | exact I1].
      + apply IH; assumption.
    - apply isort_sorted; [intros x y; apply bytes_leb_total | intros x y z; apply bytes_leb_trans].
    - apply isort_sorted; [intros x y; apply bytes_leb_total | intros x y z; apply bytes_leb_trans].
    - rewrite !isort_perm. apply NoDup_Permutation; [apply ND; exact K1 | apply ND; exact K2 | exact Hin].
  Qed.

  Theorem root_function_of_changes m1 m2 :
    objs_wf m1 -> objs_wf m2 -> s_prev m1 = s_prev m2 -> same_contribution m1 m2 ->
    root_of e m1 = root_of e m2.
  Proof.
    intros W1 W2 Hp Hs. rewrite !flush_root_canon, Hp, (canon_function_of_changes m1 m2 W1 W2 Hs). reflexivity.
  Qed.
End RootFunction.

(** * sensitivity: single perturbations of the description change the preimage *)
Section RootSensitive.
  Variable e : env.
  Hypothesis H_len : forall x, List.length (e_H e x) = 32%nat.
  Hypothesis H_inj : forall x y, e_H e x = e_H e y -> x = y.

  Lemma app_inj_tail_len {A} (a a' b b' : list A) :
    List.length b = List.length b' -> a ++ b = a' ++ b' -> a = a' /\ b = b'.
  Proof.
    intros Hl He.
    assert (La : List.length a = List.length a').
    { apply (f_equal (@List.length A)) in He. rewrite !app_length in He. lia. }
    revert a' La He. induction a as [|x a IH]; intros [|y a'] La He; simpl in *; try discriminate.
    - split; [reflexivity | exact He].
    - inversion He; subst. injection La as La. destruct (IH a' La H1) as [-> ->]. split; reflexivity.
  Qed.

  (** equal roots mean equal descriptions' encodings and equal previous roots *)
  Lemma root_eq_preimage c1 c2 p1 p2 :
    List.length p1 = 32%nat -> List.length p2 = 32%nat ->
    e_H e (preimage e c1 p1) = e_H e (preimage e c2 p2) ->
    flat_map (enc_entry e) c1 = flat_map (enc_entry e) c2 /\ p1 = p2.
  Proof.
    intros L1 L2 He. apply H_inj in He. unfold preimage in He.
    apply app_inj_tail_len in He; [exact He | congruence].
  Qed.

  (** one entry of the description replaced, everything else equal: the entry's encodings coincide *)
  Lemma entry_isolated (A B : list desc_entry) x y :
    flat_map (enc_entry e) (A ++ x :: B) = flat_map (enc_entry e) (A ++ y :: B) -> enc_entry e x = enc_entry e y.
  Proof.
    rewrite !flat_map_app. simpl. intro He.
    apply app_inv_head in He. apply app_inv_tail in He. exact He.
  Qed.

  Lemma entry_eq_parts a d d' kvs kvs' :
    enc_entry e (a, d, kvs) = enc_entry e (a, d', kvs') -> enc_acct d = enc_acct d' /\ enc_kvs kvs = enc_kvs kvs'.
  Proof.
    unfold enc_entry. intro He. apply app_inv_head in He.
    apply app_inj_tail_len in He; [| rewrite !H_len; reflexivity].
    destruct He as [Ha Hh]. split; [exact Ha | apply H_inj; exact Hh].
  Qed.

  (** (1) one written value changed *)
  Lemma kvs_value_sensitive (P Q : list kvb) k v v' :
    enc_kvs (P ++ (k, v) :: Q) = enc_kvs (P ++ (k, v') :: Q) -> v = v'.
  Proof.
    unfold enc_kvs. rewrite !flat_map_app. simpl. intro He.
    apply app_inv_head in He. rewrite <- !app_assoc in He. apply app_inv_head in He.
    apply app_inv_tail in He. exact He.
  Qed.

  (** (2) one written key added or dropped: visible unless key and value are both empty
      (the key "" deleted contributes no byte: recorded as an open finding) *)
  Lemma kvs_entry_sensitive (P Q : list kvb) k v :
    enc_kvs (P ++ Q) = enc_kvs (P ++ (k, v) :: Q) -> k = [] /\ v = [].
  Proof.
    unfold enc_kvs. rewrite !flat_map_app. simpl. intro He.
    apply app_inv_head in He.
    assert (Hl : List.length (k ++ v) = 0%nat).
    { apply (f_equal (@List.length N)) in He. rewrite !app_length in He. rewrite app_length. lia. }
    rewrite app_length in Hl. destruct k, v; simpl in Hl; try lia. split; reflexivity.
  Qed.

  Theorem root_sensitive_value (A B : list desc_entry) a d (P Q : list kvb) k v v' p1 p2 :
    List.length p1 = 32%nat -> List.length p2 = 32%nat -> v <> v' ->
    e_H e (preimage e (A ++ (a, d, P ++ (k, v) :: Q) :: B) p1) <>
    e_H e (preimage e (A ++ (a, d, P ++ (k, v') :: Q) :: B) p2).
  Proof.
    intros L1 L2 Hv He. apply root_eq_preimage in He; try assumption. destruct He as [He _].
    apply entry_isolated in He. apply entry_eq_parts in He. destruct He as [_ He].
    apply kvs_value_sensitive in He. contradiction.
  Qed.

  Theorem root_sensitive_key (A B : list desc_entry) a d (P Q : list kvb) k v p1 p2 :
    List.length p1 = 32%nat -> List.length p2 = 32%nat -> k ++ v <> [] ->
    e_H e (preimage e (A ++ (a, d, P ++ Q) :: B) p1) <>
    e_H e (preimage e (A ++ (a, d, P ++ (k, v) :: Q) :: B) p2).
  Proof.
    intros L1 L2 Hkv He. apply root_eq_preimage in He; try assumption. destruct He as [He _].
    apply entry_isolated in He. apply entry_eq_parts in He. destruct He as [_ He].
    apply kvs_entry_sensitive in He. destruct He as [-> ->]. apply Hkv. reflexivity.
  Qed.

  (** (3) the account record (balance, nonce, code hash) changed: visible as soon as the record's
      encoding is injective *)
  Theorem root_sensitive_account (A B : list desc_entry) a d d' kvs p1 p2 :
    List.length p1 = 32%nat -> List.length p2 = 32%nat -> enc_acct d <> enc_acct d' ->
    e_H e (preimage e (A ++ (a, d, kvs) :: B) p1) <> e_H e (preimage e (A ++ (a, d', kvs) :: B) p2).
  Proof.
    intros L1 L2 Hd He. apply root_eq_preimage in He; try assumption. destruct He as [He _].
    apply entry_isolated in He. apply entry_eq_parts in He. destruct He as [He _]. contradiction.
  Qed.

  (** (4) a different previous root *)
  Theorem root_sensitive_prev c p1 p2 :
    List.length p1 = 32%nat -> List.length p2 = 32%nat -> p1 <> p2 ->
    e_H e (preimage e c p1) <> e_H e (preimage e c p2).
  Proof.
    intros L1 L2 Hp He. apply root_eq_preimage in He; try assumption. destruct He as [_ He]. contradiction.
  Qed.
End RootSensitive.
