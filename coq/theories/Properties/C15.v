(** C15 — proposals conclude only by their voting rule, once, with one vote per admin.
    Only statements, each closed by [exact] and followed by [Print Assumptions].

    Setting: [E] an arbitrary type of strategy expressions with an arbitrary decision predicate
    [sem e a r t] (approvals, rejections, electors); [reach] = every state reachable from any
    genesis by any sequence of transactions (role / node / strategy manager calls, votes with any
    ballot by any account, withdrawals, ZeroPermission and guarded-method calls by accounts, and
    the Lock / UnLock / EndObjProposal calls of manager contracts) of the model [Gov.v] with every
    repaired defect flag off ([cfg_fixed]).  [_refuted] statements exhibit, for each defect of
    the unrepaired code, a history on which the judge's property predicate is false on the
    faithful model and zero on the repaired one. *)
From BX Require Import Base.Prelude Model.Strategy Model.Gov Proofs.StrategyProofs Proofs.GovProofs.
From BXGen Require Import Gen_GovConsts.
From Coq Require Import String.
Local Open Scope N_scope.

Section C15.
  Context {E : Type}.
  Variable E_eqb : E -> E -> bool.
  Variable sem : E -> N -> N -> N -> bool.
  Variable e_default : E.
  Hypothesis E_eqb_refl : forall e, E_eqb e e = true.
  Notation reach := (reach E_eqb sem e_default).
  Notation run_ops := (run_ops E_eqb sem e_default).
  Notation step1 := (step1 E_eqb sem e_default).

  (** APPROVED by the tally (vote or electorate change) => the recorded expression holds of
      (approvals, rejections, electorate size), where approvals / rejections are the numbers of
      DISTINCT members of the electorate frozen at submission whose ballot is approve / reject *)
  Theorem C15_approved_sound : forall (st : @state E) p,
    reach st -> In p (s_props st) -> p_status p = ST_APPROVED -> by_tally p = true ->
    sem (h_expr (p_hdr p)) (count_ballots true (p_ballots p)) (count_ballots false (p_ballots p))
        (N.of_nat (List.length (h_elect (p_hdr p)))) = true /\ tally_P p.
  Proof. exact (approved_sound_thm E_eqb sem e_default E_eqb_refl). Qed.

  (** REJECTED by the tally => for a monotone expression no extension of the ballots by the
      electors still counted as available ([p_cavail] = AvailableElectorateNum at that moment)
      reaches approval *)
  Theorem C15_rejected_only_if_unreachable : forall (st : @state E) p,
    reach st -> In p (s_props st) -> p_status p = ST_REJECTED -> by_tally p = true ->
    mono (sem (h_expr (p_hdr p))) ->
    forall m, p_approve p + p_reject p + m <= p_cavail p ->
              ~ reachable (sem (h_expr (p_hdr p))) (p_approve p) (p_reject p) (h_total (p_hdr p)) m.
  Proof. exact (rejected_unreachable_thm E_eqb sem e_default E_eqb_refl). Qed.

  (** the count of available electors covers voters + available non-voters when a proposal is
      created and is kept so by a vote (PARTIAL: its preservation when roles change is checked on
      every trace by clause 10 of the judge, not proved) *)
  Theorem C15_avail_ok_new_partial : forall (st : @state E) (p : @proposal E),
    p_ballots p = [] -> p_avail p = N.of_nat (List.length (h_elect (p_hdr p))) -> avail_ok st p = true.
  Proof. exact (avail_ok_new E_eqb sem e_default E_eqb_refl). Qed.

  Theorem C15_avail_ok_vote_partial : forall (st : @state E) (p : @proposal E) c ap w th,
    avail_ok st p = true -> is_avail_admin st c = true ->
    alookup N.eqb c (h_elect (p_hdr p)) = Some w -> voted p c = false ->
    avail_ok st (with_ballot p c ap w th) = true.
  Proof. exact (avail_ok_vote E_eqb sem e_default E_eqb_refl). Qed.

  (** each administrator's vote counts at most once: in every reachable state the ballots of
      every proposal have distinct voters, all members of the frozen electorate, and the tallies
      are exactly the counts of those ballots *)
  Theorem C15_one_vote : forall (st : @state E) p, reach st -> In p (s_props st) -> tally_P p.
  Proof. exact (one_vote E_eqb sem e_default E_eqb_refl). Qed.

  (** a transaction records at most one ballot and never drops or rewrites one *)
  Theorem C15_one_ballot_per_tx : forall (st : @state E) o i p,
    reach st -> get_prop st i = Some p ->
    exists q l, get_prop (step1 st o) i = Some q /\ p_ballots q = l ++ p_ballots p /\ (List.length l <= 1)%nat.
  Proof. exact (one_ballot_per_tx E_eqb sem e_default E_eqb_refl). Qed.

  (** refusals, for EVERY defect configuration: a vote by an outsider or an unavailable admin, on a
      finished / paused / unknown proposal, with a garbage ballot, by a non-elector, or a second
      vote by the same admin fails and leaves the state unchanged *)
  Theorem C15_refusals : forall cfg (st : @state E) c i b,
    vote_must_fail st c i b = true ->
    exists rc, rc <> 0 /\ step E_eqb sem e_default cfg st (OVote c i b) = (st, rc).
  Proof. exact (refusals_thm E_eqb sem e_default). Qed.

  (** a withdrawal of an unknown or ended proposal, or by anybody but the sponsor, is refused *)
  Theorem C15_refusals_withdraw : forall cfg (st : @state E) c i,
    withdraw_must_fail st c i = true ->
    exists rc, rc <> 0 /\ step E_eqb sem e_default cfg st (OWithdraw c i) = (st, rc).
  Proof. exact (refusals_withdraw E_eqb sem e_default). Qed.

  Theorem C15_failed_tx_frame : forall cfg (st : @state E) o rc st',
    step E_eqb sem e_default cfg st o = (st', rc) -> rc <> 0 -> st' = st.
  Proof. exact (failed_tx_frame E_eqb sem e_default). Qed.

  (** the methods reserved to manager contracts are refused to accounts (every configuration);
      the repaired ZeroPermission does nothing to a proposal that is approved or rejected *)
  Theorem C15_guarded_refused : forall cfg (st : @state E) c,
    step E_eqb sem e_default cfg st (OGuarded c) = (st, 1).
  Proof. exact (guarded_refused E_eqb sem e_default). Qed.

  Theorem C15_zero_permission_closed : forall (st : @state E) c i p,
    get_prop st i = Some p -> is_open p = false ->
    step E_eqb sem e_default cfg_fixed st (OZero c i) = (st, 0).
  Proof. exact (zero_permission_closed E_eqb sem e_default). Qed.

  (** a special proposal concluded by the tally carries the ballot of an elector of weight 2 *)
  Theorem C15_special_needs_super : forall (st : @state E) p,
    reach st -> In p (s_props st) -> is_open p = false -> by_tally p = true -> h_special (p_hdr p) = true ->
    p_super p = true /\
    exists v b w, In (v, b) (p_ballots p) /\ alookup N.eqb v (h_elect (p_hdr p)) = Some w /\ w = gov_super_weight.
  Proof. exact (special_needs_super_thm E_eqb sem e_default E_eqb_refl). Qed.

  (** finality: after APPROVED / REJECTED, status, end reason, ballots, tallies and the record of
      Manage invocations never change, whatever transactions follow *)
  Theorem C15_final : forall (st : @state E) os i p,
    reach st -> get_prop st i = Some p -> is_open p = false ->
    exists q, get_prop (run_ops st os) i = Some q /\ final_same p q /\ p_hdr q = p_hdr p.
  Proof. exact (final_forever E_eqb sem e_default E_eqb_refl). Qed.

  (** Manage is invoked exactly once for a proposal concluded by vote / electorate change / zero
      permission / withdrawal (with the concluding status), never for an open proposal, never for
      one ended by a higher-priority proposal or cleared *)
  Theorem C15_manage_once : forall (st : @state E) p,
    reach st -> In p (s_props st) ->
    (is_open p = true -> p_manage p = []) /\
    (is_open p = false ->
       ((p_reason p = RS_PRIORITY \/ p_reason p = RS_CLEAR) -> p_manage p = []) /\
       (~ (p_reason p = RS_PRIORITY \/ p_reason p = RS_CLEAR) -> p_manage p = [p_status p])).
  Proof. exact (manage_once E_eqb sem e_default E_eqb_refl). Qed.

  (** the judge's clauses 1, 2, 3, 4, 6, 7 hold on every step of the repaired model *)
  Theorem C15_core_clauses_hold : forall accts nodes (st : @state E) o,
    reach st ->
    let r := step E_eqb sem e_default cfg_fixed st o in
    cl_final st (fst r) = true /\ cl_tally (fst r) = true /\ cl_ballots st (fst r) = true /\
    cl_approved sem (fst r) = true /\ cl_special (fst r) = true /\
    cl_refusal E_eqb accts nodes st o (snd r) (fst r) = true.
  Proof. exact (core_clauses_hold E_eqb sem e_default E_eqb_refl). Qed.

  (** reflection: the judge's trace predicate is zero exactly when every step satisfies all clauses *)
  Theorem C15_trace_ok_spec : forall accts nodes tr (a : @state E) k,
    trace_ok E_eqb sem accts nodes a tr k = 0 <-> trace_P E_eqb sem accts nodes a tr.
  Proof. exact (trace_ok_spec E_eqb sem e_default E_eqb_refl). Qed.

  (** what the boolean predicates on one proposal mean *)
  Theorem C15_tally_ok_P : forall p : @proposal E, tally_ok p = true -> tally_P p.
  Proof. exact tally_ok_P. Qed.

  Theorem C15_final_eqb_P : forall p q : @proposal E,
    final_eqb p q = true ->
    p_status p = p_status q /\ p_reason p = p_reason q /\ p_approve p = p_approve q /\ p_reject p = p_reject q /\
    p_super p = p_super q /\ (forall v b, In (v, b) (p_ballots p) <-> In (v, b) (p_ballots q)).
  Proof. exact final_eqb_P. Qed.

  Theorem C15_trace_ok_skip_nil : forall accts nodes tr (a : @state E) k,
    trace_ok_skip E_eqb sem [] accts nodes a tr k = trace_ok E_eqb sem accts nodes a tr k.
  Proof. exact (trace_ok_skip_nil E_eqb sem). Qed.

  Theorem C15_step_ok_zero : forall accts nodes (a : @state E) o rc (b : @state E),
    step_ok E_eqb sem accts nodes a o rc b = 0 <->
    cl_final a b = true /\ cl_tally b = true /\ cl_ballots a b = true /\ cl_approved sem b = true /\
    cl_rejected sem a b = true /\ cl_special b = true /\ cl_refusal E_eqb accts nodes a o rc b = true /\
    cl_object accts nodes a b = true /\ cl_header E_eqb a b = true /\ cl_avail a b = true /\ cl_bound a b = true /\
    cl_index b = true /\ cl_record a b = true.
  Proof. exact (step_ok_zero E_eqb sem e_default). Qed.
End C15.
Print Assumptions C15_approved_sound.
Print Assumptions C15_rejected_only_if_unreachable.
Print Assumptions C15_avail_ok_new_partial.
Print Assumptions C15_avail_ok_vote_partial.
Print Assumptions C15_one_vote.
Print Assumptions C15_one_ballot_per_tx.
Print Assumptions C15_refusals.
Print Assumptions C15_refusals_withdraw.
Print Assumptions C15_failed_tx_frame.
Print Assumptions C15_guarded_refused.
Print Assumptions C15_zero_permission_closed.
Print Assumptions C15_special_needs_super.
Print Assumptions C15_final.
Print Assumptions C15_manage_once.
Print Assumptions C15_core_clauses_hold.
Print Assumptions C15_trace_ok_spec.
Print Assumptions C15_tally_ok_P.
Print Assumptions C15_final_eqb_P.
Print Assumptions C15_trace_ok_skip_nil.
Print Assumptions C15_step_ok_zero.

(** the decision function: approve iff the expression holds; for monotone expressions the
    repaired function rejects exactly when approval is unreachable *)
Theorem C15_decide_approve : forall s uf a r t av, decide s uf a r t av = DApprove <-> s a r t = true.
Proof. exact decide_approve. Qed.
Print Assumptions C15_decide_approve.

Theorem C15_decide_reject_sound : forall s a r t av m,
  mono s -> decide s false a r t av = DReject -> a + r + m <= av -> ~ reachable s a r t m.
Proof. exact reject_unreachable. Qed.
Print Assumptions C15_decide_reject_sound.

Theorem C15_decide_reject_complete : forall s a r t av,
  a + r <= av -> ~ reachable s a r t (av - (a + r)) -> decide s false a r t av = DReject.
Proof. exact unreachable_reject. Qed.
Print Assumptions C15_decide_reject_complete.

Theorem C15_admitted_spec : forall s n, admitted s n = true <-> exists a, a <= n /\ s a 0 n = true.
Proof. exact admitted_spec. Qed.
Print Assumptions C15_admitted_spec.

Theorem C15_reachable_b_spec : forall s a r t m, reachable_b s a r t m = true <-> reachable s a r t m.
Proof. exact reachable_b_spec. Qed.
Print Assumptions C15_reachable_b_spec.

(** tables regenerated from governance.go / role.go *)
Theorem C15_priority_table :
  prio gov_ev_logout = 3 /\ prio gov_ev_freeze = 2 /\ prio gov_ev_update = 2 /\ prio gov_ev_activate = 1 /\ prio gov_ev_register = 1 /\
  prio "no such event" = 0.
Proof. exact priority_facts. Qed.
Print Assumptions C15_priority_table.

Theorem C15_special_table :
  (forall ev, is_special 0 ev = true) /\ (forall ev, is_special 2 ev = true) /\
  is_special 1 gov_ev_register = false /\ is_special 1 gov_ev_logout = true /\
  gov_special_events = [gov_ev_freeze; gov_ev_activate; gov_ev_logout] /\
  gov_special_types = [gov_mod_role; gov_mod_strategy].
Proof. exact special_facts. Qed.
Print Assumptions C15_special_table.

Theorem C15_availability_table :
  is_avail_status "available" = true /\ is_avail_status "freezing" = true /\
  is_avail_status "frozen" = false /\ is_avail_status "activating" = false /\ is_avail_status "logouting" = false /\
  is_avail_status "forbidden" = false /\ is_avail_status "registering" = false /\ is_avail_status "unavailable" = false /\
  gov_super_weight = 2 /\ gov_normal_weight = 1.
Proof. exact availability_facts. Qed.
Print Assumptions C15_availability_table.

(** refutations on the faithful model (defect flag on), same history fine on the repaired model *)
Theorem C15_nonmonotone_refuted :
  exists s : N -> N -> N -> bool, admitted s 4 = true /\ decide s false 1 0 4 4 = DReject /\ reachable s 1 0 4 3.
Proof. exact nonmonotone_refuted. Qed.
Print Assumptions C15_nonmonotone_refuted.

Theorem C15_nonmonotone_refuted_gov :
  admitted (pool_sem w_pool 1) 4 = true /\
  model_code w_pool w_accts w_nodes [2; 1; 1; 1] w_nonmono_strat 0 [ORegRole 0 100; OVote 0 0%nat 1] = 1 * 16 + 5.
Proof. exact nonmonotone_refuted_gov. Qed.
Print Assumptions C15_nonmonotone_refuted_gov.

Theorem C15_underflow_refuted :
  exists s, mono s /\ decide s true 0 3 4 2 = DOpen /\ decide s false 0 3 4 2 = DReject /\ ~ reachable s 0 3 4 0.
Proof. exact underflow_refuted. Qed.
Print Assumptions C15_underflow_refuted.

Theorem C15_zero_permission_refuted :
  model_code w_pool w_accts w_nodes [2; 1; 1; 1] w_zero_strat 1 w_zero_ops = 3 * 16 + 8 /\
  model_code w_pool w_accts w_nodes [2; 1; 1; 1] w_zero_strat 0 w_zero_ops = 0.
Proof. exact zero_permission_refuted. Qed.
Print Assumptions C15_zero_permission_refuted.

Theorem C15_avail_voted_refuted :
  model_code w_pool w_accts w_nodes [2; 1; 1; 1] w_vote3 4 w_voted_ops = 5 * 16 + 10 /\
  model_code w_pool w_accts w_nodes [2; 1; 1; 1] w_vote3 0 w_voted_ops = 0.
Proof. exact avail_voted_refuted. Qed.
Print Assumptions C15_avail_voted_refuted.

Theorem C15_special_updavail_refuted :
  model_code w_pool w_accts w_nodes [2; 1; 1; 1; 1] w_vote3 8 w_special_ops = 7 * 16 + 6 /\
  model_code w_pool w_accts w_nodes [2; 1; 1; 1; 1] w_vote3 0 w_special_ops = 0.
Proof. exact special_updavail_refuted. Qed.
Print Assumptions C15_special_updavail_refuted.

Theorem C15_unlock_closed_refuted :
  model_code w_pool w_accts w_nodes [2; 1; 1; 1] w_vote3 16 w_unlock_ops = 4 * 16 + 1 /\
  model_code w_pool w_accts w_nodes [2; 1; 1; 1] w_vote3 0 w_unlock_ops = 0.
Proof. exact unlock_closed_refuted. Qed.
Print Assumptions C15_unlock_closed_refuted.

Theorem C15_logout_inc_refuted :
  model_code w_pool w_accts w_nodes [2; 1; 1; 1] w_vote3 32 w_logout_ops = 3 * 16 + 11 /\
  model_code w_pool w_accts w_nodes [2; 1; 1; 1] w_vote3 0 w_logout_ops = 0.
Proof. exact logout_inc_refuted. Qed.
Print Assumptions C15_logout_inc_refuted.

(** non-vacuity: a reachable state with a special proposal APPROVED by the tally after the super
    admin's vote (Manage ran once, the governed role became available) and an ordinary one
    REJECTED by the tally (Manage ran once, the node went back to unavailable); a refused second
    vote and a refused outsider vote are part of the history *)
Example C15_example :
  let st := run_ops N.eqb w_sem 0 w_init
              [ORegRole 0 100; OVote 1 0%nat 1; OVote 2 0%nat 1; OVote 0 0%nat 1;
               ORegNode 0 300; OVote 1 1%nat 0; OVote 2 1%nat 0; OVote 3 1%nat 0; OVote 0 0%nat 0; OVote 200 1%nat 1] in
  reach N.eqb w_sem 0 st /\
  exists p q, nth_error (s_props st) 0 = Some p /\ nth_error (s_props st) 1 = Some q /\
    p_status p = ST_APPROVED /\ by_tally p = true /\ h_special (p_hdr p) = true /\ p_super p = true /\ p_manage p = [ST_APPROVED] /\
    p_status q = ST_REJECTED /\ by_tally q = true /\ h_special (p_hdr q) = false /\ p_manage q = [ST_REJECTED] /\
    role_of st 100 = Some (gov_st_available, 1) /\ node_of st 300 = Some gov_st_unavailable.
Proof. exact ex_approved_and_rejected. Qed.

Example C15_example_mono : mono ((fun _ : unit => simple_majority) tt).
Proof. exact ex_mono_hypothesis. Qed.

Example C15_example_default_expression : forall a r t,
  a < 9007199254740992 -> t < 9007199254740992 -> qsem default_bexp a r t = simple_majority a r t.
Proof. exact default_bexp_spec. Qed.
