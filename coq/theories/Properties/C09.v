(** C09 — the stored chain is hash-linked and every index agrees with the executed blocks.
    Statements only, each closed by [exact]; Examples for non-vacuity; [_refuted] witnesses for
    the faithful defect flags.  The model is [Model/ChainLedger.v]; the header hash function is
    an arbitrary injective function, the Merkle root an arbitrary function. *)
From BX Require Import Base.Prelude Model.ChainLedger Proofs.ChainLedgerProofs.
Local Open Scope N_scope.

(** every lookup (GetBlock full / by index, GetBlockHash, GetInterchainMeta, stored receipts,
    GetBlockSign, GetBlockByHash, GetTransaction, GetTransactionMeta, GetReceipt,
    GetChainMeta) returns exactly what the surviving executed blocks dictate, after every
    history of persist / rollback / reopen in which the persisted blocks were well-formed *)
Theorem C09_lookups : forall (hash_hdr : header -> N) (root : list N -> N),
  (forall a b, hash_hdr a = hash_hdr b -> a = b) ->
  forall full ops U, hist_wf hash_hdr root full ops cl_empty [] ->
  observe cfg_fixed U (run cfg_fixed full ops cl_empty) = expected U (spec_of full ops).
Proof. exact lookups_all. Qed.
Print Assumptions C09_lookups.

(** for every height up to the head: stored hash = hash of the stored header, number, parent
    link, tx root and receipt root equal the root function applied to what is stored *)
Theorem C09_chain_inv : forall (hash_hdr : header -> N) (root : list N -> N),
  (forall a b, hash_hdr a = hash_hdr b -> a = b) ->
  forall full ops U, hist_wf hash_hdr root full ops cl_empty [] ->
  (length (spec_of full ops) <= u_kh U)%nat ->
  chain_inv hash_hdr root (observe cfg_fixed U (run cfg_fixed full ops cl_empty)).
Proof. exact chain_inv_all. Qed.
Print Assumptions C09_chain_inv.

(** after an accepted rollback to t no lookup returns anything of a height above t, and
    everything up to t is unchanged *)
Theorem C09_rollback_clean : forall (hash_hdr : header -> N) (root : list N -> N),
  (forall a b, hash_hdr a = hash_hdr b -> a = b) ->
  forall full ops t s', hist_wf hash_hdr root full ops cl_empty [] ->
  let s := run cfg_fixed full ops cl_empty in
  step cfg_fixed full (ORollback t) s = (0, s') ->
  t <= tlen (spec_of full ops) /\ cm_height (get_chain_meta s') = t /\
  (forall h, observe_h cfg_fixed s' h = if h <=? t then observe_h cfg_fixed s h else hobs_none) /\
  (forall x, get_block_by_hash s' x true =
             match get_block_by_hash s x true with
             | ROk b => if h_number (b_hdr b) <=? t then ROk b else RNotFound
             | r => r
             end) /\
  (forall tx, observe_t s' tx =
              match to_meta (observe_t s tx) with
              | ROk (h, _, _) => if h <=? t then observe_t s tx else tobs_none
              | _ => observe_t s tx
              end).
Proof. exact rollback_clean_all. Qed.
Print Assumptions C09_rollback_clean.

(** a refused rollback changes nothing; the chain ledger alone refuses exactly targets above the head *)
Theorem C09_rollback_refused_frame : forall (hash_hdr : header -> N) (root : list N -> N),
  (forall a b, hash_hdr a = hash_hdr b -> a = b) ->
  forall full ops t c s', hist_wf hash_hdr root full ops cl_empty [] ->
  let s := run cfg_fixed full ops cl_empty in
  step cfg_fixed full (ORollback t) s = (c, s') -> c <> 0 ->
  s' = s /\ (c = 1 \/ c = 2) /\ (full = false -> c = 1 /\ tlen (spec_of full ops) < t).
Proof. exact rollback_refused_all. Qed.
Print Assumptions C09_rollback_refused_frame.

(** a well-formed block is always accepted: blockfile length and chain meta never drift apart *)
Theorem C09_persist_accepted : forall (hash_hdr : header -> N) (root : list N -> N),
  (forall a b, hash_hdr a = hash_hdr b -> a = b) ->
  forall full ops e, hist_wf hash_hdr root full ops cl_empty [] ->
  wf_entry hash_hdr root (spec_of full ops) e -> fresh_txs (spec_of full ops) e ->
  fst (step cfg_fixed full (OPersist e) (run cfg_fixed full ops cl_empty)) = 0.
Proof. exact persist_accepted_all. Qed.
Print Assumptions C09_persist_accepted.

(** the very predicate the judge evaluates on implementation traces ([prop_trace]: result codes
    allowed, every lookup agrees with the spec, chain invariant) holds on the model's own trace
    for every well-formed history *)
Theorem C09_judge_predicate : forall (hash_hdr : header -> N) (root : list N -> N),
  (forall a b, hash_hdr a = hash_hdr b -> a = b) ->
  forall strict full ops U, hist_wf hash_hdr root full ops cl_empty [] -> (persists ops <= u_kh U)%nat ->
  prop_trace hash_hdr root strict U ops (trace_of cfg_fixed full U ops cl_empty) [] true 0 = V_ok.
Proof. exact judge_predicate_all. Qed.
Print Assumptions C09_judge_predicate.

(** * Both store kinds.  A storage batch is applied in program order by leveldb_type "normal"
    and "all Puts, then all Deletes" by "multi"; they agree whenever no key is both put and
    deleted in the batch; every batch the (repaired) chain ledger builds is of that kind (the
    persist batch is all Puts, a rollback batch all Deletes plus ONE operation on chain-meta);
    hence every step, every run and every theorem above holds for both kinds *)
Theorem C09_batch_store_kinds_agree : forall (V : Type) (ops : list (kvop V)), conflict_free ops ->
  forall m k, nlookup k (apply_kind false ops m) = nlookup k (apply_kind true ops m).
Proof. exact (@apply_kind_conflict_free). Qed.
Print Assumptions C09_batch_store_kinds_agree.
Theorem C09_persist_batch_all_puts : forall ord c e ix,
  let b := e_blk e in let num := h_number (b_hdr b) in
  persist_index c e ix =
  mkIx (apply_kind ord [KPut (b_hash b) num] (ix_bhash ix))
       (apply_kind ord [KPut num (b_hash b)] (ix_height ix))
       (apply_kind ord [KPut num (b_txs b)] (ix_txset ix))
       (apply_kind ord (txmeta_puts num (b_hash b) 0 (b_txs b)) (ix_txmeta ix))
       (Some (new_meta c e)).
Proof. exact persist_batch_any_store. Qed.
Print Assumptions C09_persist_batch_all_puts.
Theorem C09_rollback_batch_all_deletes : forall ord cfg ix0 i bf ixb cnt bf' ixb' cnt',
  remove_on_block cfg ix0 i (bf, ixb, cnt) = Some (bf', ixb', cnt') ->
  exists bh txs,
    ixb' = mkIx (apply_kind ord [KDel bh] (ix_bhash ixb))
                (if d_rb_heightkey cfg then ix_height ixb else apply_kind ord [KDel i] (ix_height ixb))
                (apply_kind ord [KDel i] (ix_txset ixb))
                (apply_kind ord (txmeta_dels txs) (ix_txmeta ixb))
                (ix_meta ixb).
Proof. exact rollback_block_batch_any_store. Qed.
Print Assumptions C09_rollback_batch_all_deletes.
Theorem C09_meta_batch_conflict_free : forall cfg t m, d_meta_del_first cfg = false -> conflict_free (meta_ops cfg t m).
Proof. exact meta_ops_conflict_free. Qed.
Print Assumptions C09_meta_batch_conflict_free.
Theorem C09_store_kind_irrelevant : forall cfg full o s, d_meta_del_first cfg = false ->
  step (with_store false cfg) full o s = step (with_store true cfg) full o s.
Proof. exact store_kind_irrelevant. Qed.
Print Assumptions C09_store_kind_irrelevant.
Theorem C09_lookups_multi_store : forall (hash_hdr : header -> N) (root : list N -> N),
  (forall a b, hash_hdr a = hash_hdr b -> a = b) ->
  forall full ops U, hist_wf hash_hdr root full ops cl_empty [] ->
  observe cfg_fixed_multi U (run cfg_fixed_multi full ops cl_empty) = expected U (spec_of full ops).
Proof.
  intros hh rt Hi full ops U H. rewrite run_store_kind_irrelevant. exact (lookups_all hh rt Hi full ops U H).
Qed.
Print Assumptions C09_lookups_multi_store.

(** reflection: the boolean predicates are the propositions *)
Theorem C09_agrees_reflect : forall U sp o, agrees_b U sp o = true <-> agrees U sp o.
Proof. exact agrees_b_spec. Qed.
Print Assumptions C09_agrees_reflect.
Theorem C09_chain_inv_reflect : forall hash_hdr root o,
  chain_inv_b hash_hdr root o = true <-> chain_inv hash_hdr root o.
Proof. exact chain_inv_b_spec. Qed.
Print Assumptions C09_chain_inv_reflect.
Theorem C09_obs_eq_reflect : forall a b, obs_eqb a b = true <-> a = b.
Proof. exact obs_eqb_spec. Qed.
Print Assumptions C09_obs_eq_reflect.

(** * Non-vacuity: an injective header hash exists, and a concrete history with an empty
    block, several transactions, interchain meta, a rollback, a re-execution and a reopen
    satisfies the hypotheses; its observations are non-trivial *)
Example C09_hash_instance : (forall a b, toy_hash a = toy_hash b -> a = b) /\ (forall a, toy_hash a <> 0).
Proof. exact (conj toy_hash_inj toy_hash_nz). Qed.

Definition ex_e1 := toy_entry [] 51 [11; 12] [21; 22] ([(1, [1; 2])], 0).
Definition ex_e2 := toy_entry [ex_e1] 52 [] [] ([], 0).
Definition ex_e3 := toy_entry [ex_e1; ex_e2] 53 [13; 14; 15] [23; 24; 25] ([(1, [3]); (4, [7; 8; 9])], 7).
Definition ex_e3' := toy_entry [ex_e1; ex_e2] 54 [13; 16] [26; 27] ([], 0).
Definition ex_ops := [OPersist ex_e1; OPersist ex_e2; OPersist ex_e3; ORollback 2; OReopen; OPersist ex_e3'; ORollback 7].
Definition ex_U := mkU 4 [b_hash (e_blk ex_e1); b_hash (e_blk ex_e3); b_hash (e_blk ex_e3'); 5] [11; 13; 14; 16; 99].

Example C09_example_wf : hist_wf toy_hash toy_root true ex_ops cl_empty [] /\
                         hist_wf toy_hash toy_root false ex_ops cl_empty [].
Proof. split; apply hist_wf_b_spec; vm_compute; reflexivity. Qed.

Example C09_example_spec : spec_of true ex_ops = [ex_e1; ex_e2; ex_e3'] /\
  get_chain_meta (run cfg_fixed true ex_ops cl_empty) = mkMeta 3 (b_hash (e_blk ex_e3')) 2 /\
  get_tx_meta (run cfg_fixed true ex_ops cl_empty) 16 = ROk (3, b_hash (e_blk ex_e3'), 1) /\
  get_tx_meta (run cfg_fixed true ex_ops cl_empty) 14 = RNotFound /\
  fst (step cfg_fixed true (ORollback 7) (run cfg_fixed true (firstn 6 ex_ops) cl_empty)) = 1.
Proof. vm_compute. repeat split; reflexivity. Qed.

Example C09_example_judge :
  prop_trace toy_hash toy_root false ex_U ex_ops (trace_of cfg_fixed true ex_U ex_ops cl_empty) [] true 0 = V_ok.
Proof. vm_compute. reflexivity. Qed.

(** re-delivery of a different block below the head (the executor's rollbackBlocks path): head
    3, a different block 2 arrives, is executed on top of block 1, then further blocks; the
    history is well-formed, so [C09_chain_inv] / [C09_lookups] apply: in particular the parent
    of the re-executed block is the hash of block 1 *)
Definition ex_r2 := toy_entry [ex_e1] 62 [17] [37] ([], 0).
Definition ex_r3 := toy_entry [ex_e1; ex_r2] 63 [13; 18] [38; 39] ([(2, [5])], 0).
Definition ex_ops_reexec := [OPersist ex_e1; OPersist ex_e2; OPersist ex_e3; OReexec ex_r2; OPersist ex_r3; OReopen].
Example C09_example_reexec :
  hist_wf toy_hash toy_root true ex_ops_reexec cl_empty [] /\
  spec_of true ex_ops_reexec = [ex_e1; ex_r2; ex_r3] /\
  h_parent (b_hdr (e_blk ex_r2)) = b_hash (e_blk ex_e1) /\
  get_block (run cfg_fixed true ex_ops_reexec cl_empty) 2 true = ROk (e_blk ex_r2) /\
  get_block_by_hash (run cfg_fixed true ex_ops_reexec cl_empty) (b_hash (e_blk ex_e2)) true = RNotFound /\
  prop_trace toy_hash toy_root true ex_U ex_ops_reexec (trace_of cfg_fixed true ex_U ex_ops_reexec cl_empty) [] true 0 = V_ok.
Proof. split; [apply hist_wf_b_spec; vm_compute; reflexivity|]. vm_compute. repeat split; reflexivity. Qed.

(** * Refutations on the faithful flags *)

(** block-height-<h> survives a rollback: after Rollback(2) GetBlockHash(3) still answers *)
Theorem C09_rb_heightkey_refuted :
  let cfg := {| d_rb_heightkey := true; d_bhash_codec := false; d_meta_del_first := false; c_ordered := true |} in
  let ops := [OPersist ex_e1; OPersist ex_e2; OPersist ex_e3; ORollback 2] in
  get_block_hash cfg (run cfg false ops cl_empty) 3 = b_hash (e_blk ex_e3) /\
  prop_trace toy_hash toy_root false ex_U ops (trace_of cfg false ex_U ops cl_empty) [] true 0 = V_propfalse 3.
Proof. vm_compute. split; reflexivity. Qed.
Print Assumptions C09_rb_heightkey_refuted.

(** GetBlockHash reads the stored hex string as raw bytes: the value is never the block's hash *)
Theorem C09_bhash_codec_refuted :
  let cfg := {| d_rb_heightkey := false; d_bhash_codec := true; d_meta_del_first := false; c_ordered := true |} in
  let ops := [OPersist ex_e1] in
  get_block_hash cfg (run cfg false ops cl_empty) 1 <> b_hash (e_blk ex_e1) /\
  prop_trace toy_hash toy_root false ex_U ops (trace_of cfg false ex_U ops cl_empty) [] true 0 = V_propfalse 0.
Proof. vm_compute. split; [discriminate|reflexivity]. Qed.
Print Assumptions C09_bhash_codec_refuted.

(** what the store kind does to a batch that deletes chain-meta and puts it again (NOT the
    pinned code; the pattern of seeded/C09c): on the ordered store nothing changes, on the
    multi-layer store the stored chain meta is erased while the cached one stays right; a
    restart then reports height 0 *)
Theorem C09_meta_del_put_multi_refuted :
  let cfgm := {| d_rb_heightkey := false; d_bhash_codec := false; d_meta_del_first := true; c_ordered := false |} in
  let cfgo := {| d_rb_heightkey := false; d_bhash_codec := false; d_meta_del_first := true; c_ordered := true |} in
  let ops := [OPersist ex_e1; OPersist ex_e2; ORollback 1] in
  o_stored (observe cfgo ex_U (run cfgo false ops cl_empty)) = mkMeta 1 (b_hash (e_blk ex_e1)) 2 /\
  o_meta (observe cfgm ex_U (run cfgm false ops cl_empty)) = mkMeta 1 (b_hash (e_blk ex_e1)) 2 /\
  o_stored (observe cfgm ex_U (run cfgm false ops cl_empty)) = meta0 /\
  cm_height (get_chain_meta (run cfgm false (ops ++ [OReopen]) cl_empty)) = 0 /\
  prop_trace toy_hash toy_root false ex_U ops (trace_of cfgm false ex_U ops cl_empty) [] true 0 = V_propfalse 2.
Proof. vm_compute. repeat split; reflexivity. Qed.
Print Assumptions C09_meta_del_put_multi_refuted.

(** a transaction hash in two live blocks: rolling back the later block deletes the tx-meta
    key, so the earlier occurrence is no longer found (flags off: this is the behaviour that
    remains; the theorems above assume fresh transaction hashes) *)
Definition ex_d2 := toy_entry [ex_e1] 52 [13] [23] ([], 0).
Definition ex_d3 := toy_entry [ex_e1; ex_d2] 53 [14; 13] [24; 25] ([], 0).
Theorem C09_dup_txhash_refuted :
  let ops := [OPersist ex_e1; OPersist ex_d2; OPersist ex_d3; ORollback 2] in
  wf_entry toy_hash toy_root [ex_e1; ex_d2] ex_d3 /\
  get_tx_meta (run cfg_fixed false ops cl_empty) 13 = RNotFound /\
  tx_occurs (spec_of false ops) 13 = true /\
  prop_trace toy_hash toy_root false ex_U ops (trace_of cfg_fixed false ex_U ops cl_empty) [] true 0 = V_propfalse 3.
Proof. split; [apply wf_entry_b_spec; vm_compute; reflexivity|]. vm_compute. repeat split; reflexivity. Qed.
Print Assumptions C09_dup_txhash_refuted.
