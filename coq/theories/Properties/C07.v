(** C07 — a failed transaction leaves no effect beyond nonce and fee; a FAILED receipt is never
    announced as a delivery; read-only execution changes nothing.
    Only statements, each closed by [exact]; every theorem quantifies over every contract body
    ([prog]: arbitrary writes, deletes, non-journaled writes, balance writes, events, nested
    cross-contract calls, failure or panic at any point), every state and every position. *)
From Coq Require Import String.
From BX Require Import Base.Prelude Model.Fees Model.ExecFrame Model.Sites Proofs.ExecFrameProofs.
Local Open Scope Z_scope.

(** FAILED receipt => state' = fee (nonce state): balances are exactly the fee specification
    (fee, or the whole balance when the fee is unaffordable), the sender's nonce is tx.nonce + 1,
    every other nonce and every store key is unchanged — provided no non-journaled write was
    executed (or they are journaled: [d_raw_add] off) and the transaction is not on the
    non-reverting IBTP path (or that path reverts: [d_ibtp_no_revert] off). *)
Theorem C07_failed_frame_generic : forall c, d_stale_changer c = false -> d_prev_from_memory c = false -> d_revert_drops_tombstone c = false ->
  forall e idx s t s' rc cnt,
  d_fee_after_body (x_fees c) = false ->
  tx_invalid t = true \/ is_ibtp t = false \/ d_ibtp_no_revert c = false ->
  d_raw_add c = false \/ tx_raws c idx s t = [] ->
  apply_tx c e idx s t = (s', rc, cnt) -> r_ok rc = false ->
  frame_ok e s s' t.
Proof. exact failed_frame_generic. Qed.
Print Assumptions C07_failed_frame_generic.

(** the only other differences are exactly the RawAdd writes executed before the failure *)
Theorem C07_rawadd_characterised : forall c, d_stale_changer c = false -> d_prev_from_memory c = false -> d_revert_drops_tombstone c = false ->
  forall e idx s t s' rc cnt,
  d_fee_after_body (x_fees c) = false ->
  tx_invalid t = true \/ is_ibtp t = false \/ d_ibtp_no_revert c = false ->
  apply_tx c e idx s t = (s', rc, cnt) -> r_ok rc = false ->
  (forall a, bal s' a = spec_bal e s t a) /\
  (forall a, nonce s' a = spec_nonce s t a) /\
  (forall k, store s' k = store s k \/
             (d_raw_add c = true /\ exists v, In (k, v) (tx_raws c idx s t) /\ store s' k = Some v)).
Proof. exact failed_characterised. Qed.
Print Assumptions C07_rawadd_characterised.

(** ... at every position of a block *)
Theorem C07_block_position_frame : forall c e s pre p t,
  d_stale_changer c = false -> d_prev_from_memory c = false -> d_revert_drops_tombstone c = false ->
  d_fee_after_body (x_fees c) = false ->
  tx_invalid t = true \/ is_ibtp t = false \/ d_ibtp_no_revert c = false ->
  let '(si, _, _) := apply_txs c e 0%N (new_block s pre) p in
  let '(si', rc, _) := apply_tx c e (N.of_nat (length p)) si t in
  d_raw_add c = false \/ tx_raws c (N.of_nat (length p)) si t = [] ->
  r_ok rc = false -> frame_ok e si si' t.
Proof. exact block_position_frame. Qed.
Print Assumptions C07_block_position_frame.

(** a transaction rejected before execution (bad signature, rejected proof) never runs its body *)
Theorem C07_invalid_tx_frame : forall c, d_stale_changer c = false -> d_prev_from_memory c = false -> d_revert_drops_tombstone c = false ->
  forall e idx s t s' rc cnt,
  d_fee_after_body (x_fees c) = false -> tx_invalid t = true ->
  apply_tx c e idx s t = (s', rc, cnt) -> r_ok rc = false /\ frame_ok e s s' t.
Proof. exact invalid_tx_frame. Qed.
Print Assumptions C07_invalid_tx_frame.

Theorem C07_failed_not_delivered : forall c e idx s t s' rc cnt,
  d_failed_events c = false -> apply_tx c e idx s t = (s', rc, cnt) -> r_ok rc = false -> cnt = [].
Proof. exact failed_not_delivered. Qed.
Print Assumptions C07_failed_not_delivered.

(** the position a delivery is announced with.  A contract body runs in a context ([callctx]: the
    transaction's position in the block, its nonce, the call depth); [PostEvent] stamps the event
    with the context's index and [Cross] (CrossInvoke) builds the CALLEE's context from the
    caller's.  For every program - events posted by cross-invoked contracts at any depth, inner
    frames failing or not - every event posted under [run c cx] carries [cx_index cx], provided
    CrossInvoke hands down the caller's index (flag [d_cross_index_nonce] off: the code as it is) *)
Theorem C07_cross_events_outer_index : forall c, d_cross_index_nonce c = false ->
  forall p cx s s' r, run c cx p s = (s', r) ->
  exists l, evs s' = evs s ++ l /\ Forall (fun ie : N * event => fst ie = cx_index cx) l.
Proof. exact run_events_index. Qed.
Print Assumptions C07_cross_events_outer_index.

(** ... so every Counter entry a transaction contributes names that transaction's own position *)
Theorem C07_counter_entries_own_index : forall c e idx s t s' rc cnt,
  d_cross_index_nonce c = false ->
  apply_tx c e idx s t = (s', rc, cnt) ->
  forall x, In x cnt -> fst (fst (snd x)) = idx.
Proof. exact counter_entries_own_index. Qed.
Print Assumptions C07_counter_entries_own_index.

(** ... and over a whole block every announced position lies inside the block and holds a
    transaction whose receipt is SUCCESS: a FAILED transaction is never announced *)
Theorem C07_block_counter_sound : forall c e, d_failed_events c = false -> d_cross_index_nonce c = false ->
  forall ts idx s s' rcs cnt, apply_txs c e idx s ts = (s', rcs, cnt) ->
  forall x, In x cnt ->
  exists j, (j < length ts)%nat /\ fst (fst (snd x)) = (idx + N.of_nat j)%N /\ nth j (map r_ok rcs) false = true.
Proof. exact block_counter_sound. Qed.
Print Assumptions C07_block_counter_sound.

(** CrossInvoke handing the transaction's nonce down as the index (mutation class): expected
    refutation - the FAILED transaction at position = nonce is announced, the posting one is not *)
Theorem C07_cross_index_nonce_refuted :
  let '(_, rcs, cnt) := exec_block cfg_crossidx env1 s_empty [] relay_block in
  map r_ok rcs = [true; true; false] /\ cnt = [(9%N, (2%N, true, false))].
Proof. exact cross_index_nonce_refuted. Qed.
Print Assumptions C07_cross_index_nonce_refuted.

(** Ethereum transactions.  The EVM is not modelled (receipt status and gas used are inputs); the
    accounting around it is: a FAILED Ethereum transaction leaves nothing but the sender's nonce and
    the fee gasUsed * gasPrice, paid to the coinbase - and nothing at all besides the nonce when no
    gas was used (rejected by the state transition before the EVM runs: nonce, funds, intrinsic gas) *)
Theorem C07_eth_failed_frame : forall cb b n t b' n',
  eo_ok t = false -> eth_apply cb (b, n) t = (b', n') ->
  (forall a, a <> eo_from t -> a <> cb -> b' a = b a) /\
  (eo_from t <> cb -> b' (eo_from t) = b (eo_from t) - eo_gas_used t * eo_price t /\
                      b' cb = b cb + eo_gas_used t * eo_price t) /\
  (eo_from t = cb -> b' cb = b cb) /\
  (forall a, n' a = if (a =? eo_from t)%N then wrap64 (eo_nonce t + 1) else n a) /\
  (eo_gas_used t = 0 -> forall a, b' a = b a).
Proof. exact eth_failed_frame. Qed.
Print Assumptions C07_eth_failed_frame.

Theorem C07_eth_conserves : forall dom cb b n t b' n', NoDup dom -> In (eo_from t) dom -> In cb dom ->
  (forall r, eo_to t = Some r -> In r dom) ->
  eth_apply cb (b, n) t = (b', n') -> sumb dom b' = sumb dom b.
Proof. exact eth_conserves. Qed.
Print Assumptions C07_eth_conserves.

Theorem C07_view_pure : forall c e s t, fst (view_tx c e s t) = s.
Proof. exact view_pure. Qed.
Print Assumptions C07_view_pure.

Theorem C07_one_receipt_per_tx : forall c e ts idx s s' rcs cn,
  apply_txs c e idx s ts = (s', rcs, cn) -> length rcs = length ts.
Proof. exact apply_txs_length. Qed.

(** the predicates the judge evaluates on implementation traces are these propositions *)
Theorem C07_p_store_b_spec : forall k, p_store_b k = true <-> p_store k.
Proof. exact p_store_b_spec. Qed.
Theorem C07_p_counter_b_spec : forall k, p_counter_b k = true <-> p_counter k.
Proof. exact p_counter_b_spec. Qed.

(** site coverage: every non-journaled write call site of the source (regenerated inventory
    [BXGen.Gen_Sites.adds]) is classified in [Model/Sites.v], with its count per function and
    the "a failure return follows" bit; the promoted Stub surface is classified as well.
    A new, moved or removed site makes these fail. *)
Theorem C07_add_sites_covered : adds_covered = true.
Proof. vm_compute. reflexivity. Qed.
Theorem C07_stub_surface_covered : stub_covered = true /\ contract_types_covered = true.
Proof. vm_compute. split; reflexivity. Qed.

(** the promoted write methods an external account can reach by name *)
Theorem C07_promoted_writes_reachable :
  In "Add"%string promoted_callable /\ In "AddObject"%string promoted_callable /\
  In "Set"%string promoted_callable /\ In "Delete"%string promoted_callable /\
  In "PostInterchainEvent"%string promoted_callable /\ ~ In "PostEvent"%string promoted_callable.
Proof. vm_compute. repeat split; auto 30. intro H; repeat (destruct H as [H|H]; [discriminate|]); exact H. Qed.

(** ------------------------------------------------------------------------------------ *)
(** faithful behaviour of the unchanged code: one refutation per defect flag *)

Theorem C07_raw_add_refuted :
  let '(s', rc, _) := apply_tx cfg_raw env_fee 0%N s_empty (mk_tx 1%N 0%N (KIbtp (fun _ => RawAdd kA 7%N Done))) in
  r_ok rc = false /\ store s' kA = Some 7%N /\ store s_empty kA = None.
Proof. exact raw_add_refuted. Qed.

Theorem C07_stub_promoted_refuted :
  let '(s', rc, _) := apply_tx cfg_stub env1 0%N s_empty (mk_tx 1%N 0%N (KBvm (fun _ => stub_prog cfg_stub (SAdd kA 666%N)))) in
  r_ok rc = false /\ store s' kA = Some 666%N.
Proof. exact stub_promoted_refuted. Qed.

Theorem C07_ibtp_no_revert_refuted :
  let '(s', rc, _) := apply_tx cfg_ibtp env1 0%N s_empty (mk_tx 1%N 0%N (KIbtp (fun _ => JWrite kA 5%N (Fail false)))) in
  r_ok rc = false /\ store s' kA = Some 5%N.
Proof. exact ibtp_no_revert_refuted. Qed.

Theorem C07_failed_events_refuted :
  let '(_, rc, cnt) := apply_tx cfg_events env1 3%N s_empty
        (mk_tx 1%N 0%N (KIbtp (fun _ => PostEvent (EvInterchain [(77%N, false)]) (Fail false)))) in
  r_ok rc = false /\ cnt = [(77%N, (3%N, true, false))].
Proof. exact failed_events_refuted. Qed.

Theorem C07_stale_changer_refuted :
  let '(s', rcs, _) := exec_block cfg_stale env1 s_empty []
        [mk_tx 1%N 0%N (KBvm (fun _ => JWrite kA 4%N Done));
         mk_tx 2%N 0%N (KBvm (fun _ => JWrite kB 5%N Panic))] in
  map r_ok rcs = [true; false] /\ store s' kB = Some 5%N.
Proof. exact stale_changer_refuted. Qed.

Theorem C07_prev_from_memory_refuted :
  let '(s', rc, _) := apply_tx cfg_prevmem env_fee 0%N s_cold (mk_tx 1%N 0%N (KBvm (fun _ => JWrite kA 5%N Done))) in
  r_ok rc = false /\ store s_cold kA = Some 9%N /\ store s' kA = None.
Proof. exact prev_from_memory_refuted. Qed.

Theorem C07_revert_drops_tombstone_refuted :
  let '(s', rcs, _) := exec_block cfg_tomb env1 s_committed []
        [mk_tx 1%N 0%N (KBvm (fun _ => JDelete kA Done));
         mk_tx 2%N 0%N (KBvm (fun _ => JWrite kA 5%N Panic))] in
  map r_ok rcs = [true; false] /\ store s' kA = Some 9%N.
Proof. exact revert_drops_tombstone_refuted. Qed.

Theorem C07_fee_after_body_refuted :
  let t := mk_tx 1%N 0%N (KTransfer 2%N (ADec 90000)) in
  let '(s', rc, _) := apply_tx cfg_fab env_fee 0%N s_rich t in
  r_ok rc = false /\ bal s' 1%N = 0 /\ spec_bal env_fee s_rich t 1%N = 79000.
Proof. exact fee_after_body_refuted. Qed.
Print Assumptions C07_stale_changer_refuted.

(** non-vacuity *)
Example C07_example :
  let t := mk_tx 1%N 41%N (KBvm (fun _ => busy_prog)) in
  let '(s', rc, cnt) := apply_tx xcfg_fixed env_fee 0%N s_rich t in
  r_ok rc = false /\ cnt = [] /\ store s' kA = None /\ store s' (2002%N, 2%N) = None /\
  bal s' 5%N = 0 /\ bal s' 1%N = 0 /\ bal s' 1000%N = 50000 /\ nonce s' 1%N = 42%N.
Proof. exact generic_example. Qed.
