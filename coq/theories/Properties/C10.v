(** C10 — state, transaction and receipt roots commit to exactly what was executed.
    Only statements, each closed by [exact]; hypotheses about the hash function are explicit
    premises (the theorems are closed: no axiom, no section variable left). *)
From BX Require Import Base.Prelude Base.Sha256 Model.JsonAcct Model.Merkle Model.StateLedger Model.LedgerSpec
  Proofs.MerkleProofs Proofs.LedgerWitness.
Local Open Scope N_scope.

(** Transaction / receipt / timeout root (cbergoon tree as used by calcMerkleRoot): for leaf lists
    of equal length every leaf and every position is committed to.  Hypotheses: the hash has a
    fixed 32-byte output and is collision-free on the 64-byte inputs inner nodes hash. *)
Theorem C10_merkle_position_sensitive :
  forall (H : bytes -> bytes),
    (forall x, List.length (H x) = 32%nat) ->
    (forall x y, List.length x = 64%nat -> List.length y = 64%nat -> H x = H y -> x = y) ->
    forall l1 l2 r,
      List.length l1 = List.length l2 ->
      Forall (fun b => List.length b = 32%nat) l1 -> Forall (fun b => List.length b = 32%nat) l2 ->
      merkle_root H l1 = Some r -> merkle_root H l2 = Some r -> l1 = l2.
Proof. exact merkle_position_sensitive. Qed.
Print Assumptions C10_merkle_position_sensitive.

Theorem C10_merkle_total : forall (H : bytes -> bytes) l, merkle_root H l <> None.
Proof. exact merkle_root_total. Qed.
Print Assumptions C10_merkle_total.

(** expected refutation: an odd-length list and the same list with its last leaf repeated share
    their root, for every hash function: the tx/receipt root does not commit to the list length *)
Theorem C10_merkle_dup_refuted : forall (H : bytes -> bytes) (a b c : bytes),
  merkle_root H [a; b; c] = merkle_root H [a; b; c; c].
Proof. exact merkle_dup_refuted. Qed.
Print Assumptions C10_merkle_dup_refuted.

Theorem C10_merkle_dup_general_refuted : forall (H : bytes -> bytes) (l : list bytes),
  Nat.odd (List.length l) = true -> l <> [] -> merkle_root H l = merkle_root H (l ++ [last l []]).
Proof. exact merkle_dup_general. Qed.
Print Assumptions C10_merkle_dup_general_refuted.

(** expected refutation (pinned tree, flag [d_addstate_origin]): same previous root and same
    change set, different roots, depending on whether the key was read before AddState *)
Theorem C10_addstate_origin_refuted :
  roots_check (flush_recs only_addstate [h_root_a; h_root_b]) = 1 /\
  roots_check (flush_recs cfg_fixed [h_root_a; h_root_b]) = 0.
Proof. exact (conj addstate_root_refuted addstate_root_fixed). Qed.
Print Assumptions C10_addstate_origin_refuted.

(** open finding kept in the model: an account write that changes nothing (SetBalance to the
    current value) makes the account record part of the preimage *)
Theorem C10_root_touched_refuted : roots_check (flush_recs cfg_fixed [h_touch_a; h_touch_b]) = 3.
Proof. exact root_touched_refuted. Qed.
Print Assumptions C10_root_touched_refuted.

(** non-vacuity: re-executed blocks reproduce their roots; the root predicate holds on a history
    with three blocks, a rollback and a re-execution *)
Example C10_example_reexec :
  let outs := snd (run E0 cfg_fixed st0 h_reexec) in
  nth 5 outs ONone = nth 13 outs ONone /\ nth 8 outs ONone = nth 16 outs ONone /\
  roots_check (flush_recs cfg_fixed [h_reexec]) = 0.
Proof. exact reexec_same_roots. Qed.
