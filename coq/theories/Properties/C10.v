(** C10 — state, transaction and receipt roots commit to exactly what was executed.
    Only statements, each closed by [exact]; hypotheses about the hash function are explicit
    premises (the theorems are closed: no axiom, no section variable left). *)
From BX Require Import Base.Prelude Base.Sha256 Model.JsonAcct Model.Merkle Model.StateLedger Model.LedgerSpec
  Proofs.MerkleProofs Proofs.LedgerWitness Proofs.RootProofs.
Local Open Scope N_scope.

(** * State root

    The root returned by FlushDirtyData is the hash of a canonical description of the block's
    change set followed by the previous root: per modified account, in the order of the address
    strings, (raw address, JSON of the dirty account record if one exists, the changed
    (key, value) pairs in key order). *)
Theorem C10_root_is_hash_of_canonical_description : forall (e : env) (m : st),
  root_of e m = e_H e (preimage e (canon e m) (s_prev m)).
Proof. exact flush_root_canon. Qed.
Print Assumptions C10_root_is_hash_of_canonical_description.

(** Two ledger states with the same previous root whose accounts contribute the same changes
    (same modified accounts, same dirty account records, same changed key |-> value function)
    flush to the same root - whatever the order of the writes that produced them, whether the
    origin values were loaded from the account cache or the store, before or after a reopen.
    Premises: distinct accounts have distinct address strings; account objects and dirty keys
    are duplicate-free (true of every reachable state). *)
Theorem C10_root_function_of_changes : forall (e : env),
  (forall a b, e_str e a = e_str e b -> a = b) ->
  forall m1 m2, objs_wf m1 -> objs_wf m2 -> s_prev m1 = s_prev m2 -> same_contribution m1 m2 ->
  root_of e m1 = root_of e m2.
Proof. exact root_function_of_changes. Qed.
Print Assumptions C10_root_function_of_changes.

(** Sensitivity to single perturbations of the description.  Premises: the hash has a 32-byte
    output and is injective (on the inputs considered: stated for all inputs); previous roots are
    32 bytes long.  Key and value are concatenated without length prefixes, so the statements are
    about single perturbations only, and an added / dropped pair must contribute at least one byte
    (deleting the empty key contributes none: open finding C10-kv-concat). *)
Theorem C10_root_sensitive_value : forall (e : env),
  (forall x, List.length (e_H e x) = 32%nat) -> (forall x y, e_H e x = e_H e y -> x = y) ->
  forall (A B : list desc_entry) a d (P Q : list kvb) k v v' p1 p2,
    List.length p1 = 32%nat -> List.length p2 = 32%nat -> v <> v' ->
    e_H e (preimage e (A ++ (a, d, P ++ (k, v) :: Q) :: B) p1) <>
    e_H e (preimage e (A ++ (a, d, P ++ (k, v') :: Q) :: B) p2).
Proof. exact root_sensitive_value. Qed.
Print Assumptions C10_root_sensitive_value.

Theorem C10_root_sensitive_key : forall (e : env),
  (forall x, List.length (e_H e x) = 32%nat) -> (forall x y, e_H e x = e_H e y -> x = y) ->
  forall (A B : list desc_entry) a d (P Q : list kvb) k v p1 p2,
    List.length p1 = 32%nat -> List.length p2 = 32%nat -> k ++ v <> [] ->
    e_H e (preimage e (A ++ (a, d, P ++ Q) :: B) p1) <>
    e_H e (preimage e (A ++ (a, d, P ++ (k, v) :: Q) :: B) p2).
Proof. exact root_sensitive_key. Qed.
Print Assumptions C10_root_sensitive_key.

(** balance, nonce, code hash: the account record enters through its JSON encoding *)
Theorem C10_root_sensitive_account : forall (e : env),
  (forall x, List.length (e_H e x) = 32%nat) -> (forall x y, e_H e x = e_H e y -> x = y) ->
  forall (A B : list desc_entry) a d d' kvs p1 p2,
    List.length p1 = 32%nat -> List.length p2 = 32%nat -> enc_acct d <> enc_acct d' ->
    e_H e (preimage e (A ++ (a, d, kvs) :: B) p1) <> e_H e (preimage e (A ++ (a, d', kvs) :: B) p2).
Proof. exact root_sensitive_account. Qed.
Print Assumptions C10_root_sensitive_account.

Theorem C10_root_sensitive_prev : forall (e : env),
  (forall x y, e_H e x = e_H e y -> x = y) ->
  forall c p1 p2, List.length p1 = 32%nat -> List.length p2 = 32%nat -> p1 <> p2 ->
    e_H e (preimage e c p1) <> e_H e (preimage e c p2).
Proof. exact root_sensitive_prev. Qed.
Print Assumptions C10_root_sensitive_prev.

(** * Transaction / receipt / timeout root

    Transaction / receipt / timeout root (cbergoon tree as used by calcMerkleRoot): for leaf lists
    of equal length every leaf and every position is committed to.  Hypotheses: the hash has a
    fixed 32-byte output and is collision-free on the 64-byte inputs inner nodes hash. *)
Theorem C10_merkle_position_sensitive :
  forall (H : bytes -> bytes),
    (forall x, List.length (H x) = 32%nat) ->
    (forall x y, List.length x = 64%nat -> List.length y = 64%nat -> H x = H y -> x = y) ->
    forall l1 l2 r,
      List.length l1 = List.length l2 ->
      Forall (fun b => List.length b = 32%nat) l1 -> Forall (fun b => List.length b = 32%nat) l2 ->
      merkle_root H l1 = Some r -> merkle_root H l2 = Some r -> l1 = l2.
Proof. exact merkle_position_sensitive. Qed.
Print Assumptions C10_merkle_position_sensitive.

Theorem C10_merkle_total : forall (H : bytes -> bytes) l, merkle_root H l <> None.
Proof. exact merkle_root_total. Qed.
Print Assumptions C10_merkle_total.

(** expected refutation: an odd-length list and the same list with its last leaf repeated share
    their root, for every hash function: the tx/receipt root does not commit to the list length *)
Theorem C10_merkle_dup_refuted : forall (H : bytes -> bytes) (a b c : bytes),
  merkle_root H [a; b; c] = merkle_root H [a; b; c; c].
Proof. exact merkle_dup_refuted. Qed.
Print Assumptions C10_merkle_dup_refuted.

Theorem C10_merkle_dup_general_refuted : forall (H : bytes -> bytes) (l : list bytes),
  Nat.odd (List.length l) = true -> l <> [] -> merkle_root H l = merkle_root H (l ++ [last l []]).
Proof. exact merkle_dup_general. Qed.
Print Assumptions C10_merkle_dup_general_refuted.

(** expected refutation (pinned tree, flag [d_addstate_origin]): same previous root and same
    change set, different roots, depending on whether the key was read before AddState *)
Theorem C10_addstate_origin_refuted :
  roots_check (flush_recs only_addstate [h_root_a; h_root_b]) = 1 /\
  roots_check (flush_recs cfg_fixed [h_root_a; h_root_b]) = 0.
Proof. exact (conj addstate_root_refuted addstate_root_fixed). Qed.
Print Assumptions C10_addstate_origin_refuted.

(** open finding kept in the model: an account write that changes nothing (SetBalance to the
    current value) makes the account record part of the preimage *)
Theorem C10_root_touched_refuted : roots_check (flush_recs cfg_fixed [h_touch_a; h_touch_b]) = 3.
Proof. exact root_touched_refuted. Qed.
Print Assumptions C10_root_touched_refuted.

(** open finding kept in the model: key and value are hashed without length prefixes *)
Theorem C10_kv_concat_refuted :
  roots_check (flush_recs cfg_fixed [h_kv_a; h_kv_b]) = 4 /\ roots_check (flush_recs cfg_fixed [h_kv_c; h_kv_d]) = 4.
Proof. exact kv_concat_refuted. Qed.
Print Assumptions C10_kv_concat_refuted.

(** non-vacuity: two different write orders (one through a reopen) reach states with the same,
    non-empty canonical description *)
Example C10_example_canon :
  canon E0 (fst (run E0 cfg_fixed st0 h_perm_a)) = canon E0 (fst (run E0 cfg_fixed st0 h_perm_b)) /\
  List.length (canon E0 (fst (run E0 cfg_fixed st0 h_perm_a))) = 2%nat.
Proof. exact perm_canon_example. Qed.

(** non-vacuity: re-executed blocks reproduce their roots; the root predicate holds on a history
    with three blocks, a rollback and a re-execution *)
Example C10_example_reexec :
  let outs := snd (run E0 cfg_fixed st0 h_reexec) in
  nth 5 outs ONone = nth 13 outs ONone /\ nth 8 outs ONone = nth 16 outs ONone /\
  roots_check (flush_recs cfg_fixed [h_reexec]) = 0.
Proof. exact reexec_same_roots. Qed.
