(** C17 - internal and privileged contract entry points reject unauthorised callers.
    Statements only, each closed by [exact].  [surface] is the table regenerated from the
    sources on every run (every exported method in the method set of every registered
    contract, promoted ones included); [body] ranges over all behaviours of the method bodies. *)
From BX Require Import Base.Prelude Model.Surface Proofs.SurfaceProofs.
From BXGen Require Import Gen_Surface.
From Coq Require Import String.
Local Open Scope string_scope.

(** every method of the registered surface is classified, and for the contracts' own methods the
    class derived from signature and guard agrees with the hand-written intention *)
Theorem C17_surface_classified : forallb classified_b surface = true.
Proof. exact surface_classified. Qed.
Print Assumptions C17_surface_classified.

(** the implementations of the guard functions are the reviewed ones *)
(** the contract objects registered at start-up are created without any field set (in particular the registered
    InterchainManager has no service cache: what keeps the unguarded IBTP entry points unreachable) *)
Theorem C17_registered_objects_plain : registered_plain_b = true.
Proof. exact registered_plain. Qed.
Print Assumptions C17_registered_objects_plain.

Theorem C17_guard_impls_pinned : guard_impls_pinned_b = true.
Proof. exact guard_impls_pinned. Qed.
Print Assumptions C17_guard_impls_pinned.

(** entry points for contract-to-contract use: every external caller, every argument vector, every
    state, every body, audit on or off: the call fails and the state is the same *)
Theorem C17_internal_rejects : forall body f st k m S,
  find_method (k_contract k) (k_method k) = Some m ->
  class_of m = Some (Internal S) ->
  (forall n, defect_of m = Some n -> memN n (d_unguarded f) = false) ->
  exists e, invoke body f st k = (Fail e, st).
Proof.
  exact (fun body f st k m S Hf Hk Hd => invoke_rejects body f st k m (Internal S) Hf Hk eq_refl Hd eq_refl).
Qed.
Print Assumptions C17_internal_rejects.

(** operations reserved to governance admins, to a chain's own admins, to the account itself or to
    the owner: everyone else is turned away, state unchanged *)
Theorem C17_privileged_rejects : forall body f st k m c,
  find_method (k_contract k) (k_method k) = Some m ->
  class_of m = Some c -> guarded c = true ->
  (forall n, defect_of m = Some n -> memN n (d_unguarded f) = false) ->
  allowed c (k_caller k) = false ->
  exists e, invoke body f st k = (Fail e, st).
Proof. exact invoke_rejects. Qed.
Print Assumptions C17_privileged_rejects.

(** ... and this in EVERY reachable node state: the registered contract objects are process-wide singletons
    whose fields survive between transactions (outside the ledger); after any history [h] of external calls and
    contract-to-contract invocations, from any node state, the wrong caller is still rejected and neither the
    ledger nor the node-local memory changes.  (What the hypothesis [d_guard_memo f = []] excludes - a guard that
    remembers an earlier success in the contract object - is refuted below and searched for by probing warmed
    worlds.) *)
Theorem C17_internal_rejects_reachable : forall body f ns0 h k m S,
  d_guard_memo f = [] ->
  find_method (k_contract k) (k_method k) = Some m ->
  class_of m = Some (Internal S) ->
  (forall n, defect_of m = Some n -> memN n (d_unguarded f) = false) ->
  let ns := run_ncalls body f ns0 h in
  exists e, invoke_n body f ns {| nc_call := k; nc_from := None |} = (Fail e, ns).
Proof. exact internal_rejects_reachable. Qed.
Print Assumptions C17_internal_rejects_reachable.

Theorem C17_privileged_rejects_reachable : forall body f ns0 h k m c,
  d_guard_memo f = [] ->
  find_method (k_contract k) (k_method k) = Some m ->
  class_of m = Some c -> guarded c = true ->
  (forall n, defect_of m = Some n -> memN n (d_unguarded f) = false) ->
  allowed c (k_caller k) = false ->
  let ns := run_ncalls body f ns0 h in
  exists e, invoke_n body f ns {| nc_call := k; nc_from := None |} = (Fail e, ns).
Proof. exact privileged_rejects_reachable. Qed.
Print Assumptions C17_privileged_rejects_reachable.

Theorem C17_guard_memo_refuted :
  fst (invoke_n std_body memo_cfg ns_fresh forged_report) = Fail E_NO_PERMISSION /\
  fst (invoke_n std_body memo_cfg (run_ncalls std_body memo_cfg ns_fresh [legit_begin]) forged_report) = Ok /\
  fst (invoke_n std_body cfg_fixed (run_ncalls std_body cfg_fixed ns_fresh [legit_begin]) forged_report) = Fail E_NO_PERMISSION.
Proof. exact guard_memo_refuted. Qed.
Print Assumptions C17_guard_memo_refuted.

(** with the dispatcher repaired, promoted methods and methods without *Response result are not reachable *)
Theorem C17_promoted_refused : forall body f st k m,
  find_method (k_contract k) (k_method k) = Some m ->
  d_dispatch_all f = false -> (String.eqb (m_origin m) "own" && m_resp m) = false ->
  invoke body f st k = (Fail E_NO_METHOD, st).
Proof. exact invoke_refused. Qed.
Print Assumptions C17_promoted_refused.

(** no read-only or open method resets or deletes interchain counters, index records, transaction
    records or broker counters, as long as the bodies stay inside the declared footprints *)
Theorem C17_no_foreign_reset : forall body f st k m c,
  (forall k' st', within_footprint k' (snd (body k' st')) = true) ->
  find_method (k_contract k) (k_method k) = Some m -> class_of m = Some c -> (c = Query \/ c = OpenWrite) ->
  protected_part (snd (invoke body f st k)) = protected_part st.
Proof. exact no_foreign_reset. Qed.
Print Assumptions C17_no_foreign_reset.

(** with all listed defects repaired: for EVERY method of the surface (promoted ones included) and
    every caller its class does not allow, the call is rejected with the state unchanged, and the
    predicate the judge evaluates on implementation traces holds of the model's own observation *)
Theorem C17_fixed_rejects : forall body st k m c,
  find_method (k_contract k) (k_method k) = Some m -> class_of m = Some c ->
  allowed c (k_caller k) = false ->
  exists e, invoke body cfg_fixed st k = (Fail e, st).
Proof. exact fixed_rejects. Qed.
Print Assumptions C17_fixed_rejects.

Theorem C17_fixed_satisfies_P : forall body st k m c,
  find_method (k_contract k) (k_method k) = Some m -> class_of m = Some c ->
  allowed c (k_caller k) = false ->
  P_call c (k_caller k) (obs_of st (invoke body cfg_fixed st k)) = true.
Proof. exact fixed_satisfies_P. Qed.
Print Assumptions C17_fixed_satisfies_P.

Theorem C17_P_call_spec : forall cm c x o, P_call_cm cm c x o = true <-> P_prop cm c x o.
Proof. exact P_call_spec. Qed.
Print Assumptions C17_P_call_spec.

(** addresses as (party, spelling): a registration that is accepted - whoever the listed admin accounts are and
    however they are spelled - leaves every existing reservation record as it was, and so does its withdrawal *)
Theorem C17_reservations_untouched : forall c admins r r' k v,
  register_res false c admins r = Some r' -> rget k r = Some v ->
  rget k r' = Some v /\ rget k (free_res false admins r') = Some v.
Proof. exact reservations_untouched. Qed.
Print Assumptions C17_reservations_untouched.

Theorem C17_reservations_canon_refuted :
  let r := [({| ac_who := 7; ac_sp := 0 |}, "governanceAdmin")]%N in
  let admins := [{| ac_who := 1; ac_sp := 0 |}; {| ac_who := 7; ac_sp := 1 |}]%N in
  exists r', register_res true 1 admins r = Some r' /\
             rget {| ac_who := 7; ac_sp := 0 |} r' = Some "appchainAdmin" /\
             rget {| ac_who := 7; ac_sp := 0 |} (free_res true admins r') = None.
Proof. exact reservations_canon_refuted. Qed.
Print Assumptions C17_reservations_canon_refuted.

(** refutations on the faithful model *)
Theorem C17_stub_promoted_refuted :
  invoke std_body cfg_faithful [] (mk "InterchainManager" "Add" [WString; WBytes] outsider false)
  = (Fail E_PANIC, [("InterchainContractAddr", "key")]).
Proof. exact stub_add_refuted. Qed.
Print Assumptions C17_stub_promoted_refuted.

Theorem C17_stub_crossinvoke_refuted :
  fst (invoke std_body cfg_faithful [] (mk "RoleManager" "CrossInvoke" [WString; WString] outsider false)) = Ok.
Proof. exact stub_crossinvoke_refuted. Qed.
Print Assumptions C17_stub_crossinvoke_refuted.

Theorem C17_nonresponse_refuted :
  invoke std_body cfg_faithful [] (mk "InterchainManager" "InitServiceCache" [] outsider false)
  = (Fail E_PANIC, [("MEMORY", "InterchainManager.ServiceCache")]).
Proof. exact nonresponse_refuted. Qed.
Print Assumptions C17_nonresponse_refuted.

(** one witness per unguarded internal entry point (DeleteInterchain, Register, HandleIBTPData,
    ZeroPermission, EmitInterchain, InvokeInterchain, InvokeReceipt, ServiceRegistry.Manage) *)
Theorem C17_unguarded_refuted :
  forallb (fun p : N * call => negb (memN (fst p) open_defects) ||
                               match fst (invoke std_body (only (fst p)) [] (snd p)) with Ok => true | Fail _ => false end) unguarded_calls = true.
Proof. exact unguarded_refuted. Qed.
Print Assumptions C17_unguarded_refuted.

Theorem C17_unguarded_fixed :
  forallb (fun p : N * call =>
             match invoke std_body cfg_fixed [] (snd p) with (Fail e, []) => (e =? E_NO_PERMISSION)%N | _ => false end) unguarded_calls = true.
Proof. exact unguarded_fixed. Qed.
Print Assumptions C17_unguarded_fixed.

(** PermissionSelf on a service is decided by the appchain in the STORED record: the caller passes iff it is the
    admin of that appchain, whatever separator characters the ids contain; reading the appchain off the id (text
    before the first ':') agrees for appchain ids without ':' and is refuted otherwise *)
Theorem C17_self_by_stored_chain : forall recs admins sid ch caller,
  alookup String.eqb sid recs = Some ch ->
  (passes_self false recs admins sid caller = true <-> alookup String.eqb ch admins = Some caller).
Proof. exact self_by_stored_chain. Qed.
Print Assumptions C17_self_by_stored_chain.
Theorem C17_self_by_segment_agrees : forall recs admins ch svc caller,
  has_colon ch = false -> alookup String.eqb (ch ++ ":" ++ svc) recs = Some ch ->
  passes_self true recs admins (ch ++ ":" ++ svc) caller = passes_self false recs admins (ch ++ ":" ++ svc) caller.
Proof. exact self_by_segment_agrees. Qed.
Theorem C17_self_by_segment_refuted :
  let recs := [("org:chainB:svc2", "org:chainB")] in
  let admins := [("org", 1%N); ("org:chainB", 2%N)] in
  (passes_self true recs admins "org:chainB:svc2" 1 = true /\ passes_self true recs admins "org:chainB:svc2" 2 = false) /\
  (passes_self false recs admins "org:chainB:svc2" 1 = false /\ passes_self false recs admins "org:chainB:svc2" 2 = true).
Proof. exact self_by_segment_refuted. Qed.
Print Assumptions C17_self_by_segment_refuted.

(** non-vacuity *)
Example C17_internal_example :
  option_map class_of (find_method "TransactionManager" "Report") = Some (Some (Internal ["InterchainContractAddr"])).
Proof. exact internal_example. Qed.
Example C17_admin_passes :
  fst (invoke std_body cfg_fixed [] (mk "AppchainManager" "FreezeAppchain" [WString; WString] admin false)) = Ok.
Proof. exact admin_passes. Qed.
Example C17_outsider_rejected :
  invoke std_body cfg_fixed [] (mk "AppchainManager" "FreezeAppchain" [WString; WString] outsider false) = (Fail E_NO_PERMISSION, []).
Proof. exact outsider_rejected. Qed.
Example C17_class_counts :
  (List.length surface >= 500)%nat /\
  (List.length (filter (fun m => match class_of m with Some (Internal _) => true | _ => false end) surface) >= 30)%nat /\
  (List.length (filter (fun m => match class_of m with Some StubPromoted => true | _ => false end) surface) >= 300)%nat.
Proof. exact class_counts. Qed.
