(** C19 — the pool neither loses accepted transactions nor misreports its content.
    Statements only, each closed by [exact]; proofs in Proofs/Mempool*.v (same model and
    reachability notion as C18). *)
From BX Require Import Base.Prelude Model.Mempool Model.MempoolSpec.
From BX Require Import Proofs.MempoolLib Proofs.MempoolInv Proofs.MempoolGen Proofs.MempoolReach Proofs.MempoolProofs.
Local Open Scope N_scope.

(** the pending nonce is exactly the first missing nonce counted from the commit nonce, and
    nothing is held below the commit nonce *)
Theorem C19_pending_nonce_exact : forall p accts univ s, reachable p accts univ s -> forall a,
  get_cn s a <= get_pn s a /\
  (forall n, get_cn s a <= n < get_pn s a -> item_at s (a, n) <> None) /\
  item_at s (a, get_pn s a) = None /\
  (forall n, item_at s (a, n) <> None -> get_cn s a <= n).
Proof. exact pending_nonce_exact. Qed.
Print Assumptions C19_pending_nonce_exact.

(** a held, ready, unbatched transaction exists => HasPendingRequest *)
Theorem C19_pending_flag : forall p accts univ s, reachable p accts univ s -> forall a n,
  item_at s (a, n) <> None -> n < get_pn s a -> ~ In (a, n) (batched s) -> has_pending s = true.
Proof. exact pending_flag. Qed.
Print Assumptions C19_pending_flag.

(** the counter never under-counts the ready unbatched transactions *)
Theorem C19_counter_sound : forall p accts univ s, reachable p accts univ s -> len (unb s (batched s)) <= pnbs s.
Proof. exact counter_sound. Qed.
Print Assumptions C19_counter_sound.

(** held transactions are retrievable by their hash, lookups never return another transaction,
    and no hash is counted whose slot has left the pool *)
Theorem C19_held_retrievable : forall p accts univ s, reachable p accts univ s -> forall sl t,
  item_at s sl = Some t -> slot_of t = sl /\ get_tx cfg_fixed s t = Some t.
Proof. exact held_retrievable. Qed.
Print Assumptions C19_held_retrievable.

Theorem C19_lookup_truthful : forall s h t, get_tx cfg_fixed s h = Some t -> t = h.
Proof. exact lookup_truthful. Qed.
Print Assumptions C19_lookup_truthful.

Theorem C19_no_stale_hash : forall p accts univ s, reachable p accts univ s -> forall h sl,
  alookup tx_eqb h (hashmap s) = Some sl -> sl = slot_of h /\ item_at s sl <> None.
Proof. exact hashmap_live. Qed.
Print Assumptions C19_no_stale_hash.

(** liveness, one round: a batch generation takes exactly min(ready unbatched, batch size)
    transactions; when the ready unbatched ones fit into one batch it takes all of them.
    PARTIAL with respect to the property text: the multi-round statement ("within
    ceil(ready/batchSize) rounds of generate + commit of that batch") is checked on every trace by
    the judge predicate [E_liveness] and follows from this lemma plus commit_inv by induction on the
    rounds; that induction is not yet closed as a Coq theorem. *)
Theorem C19_eventually_batched_partial : forall p accts univ s, reachable p accts univ s ->
  len (gen_slots p s) = N.min (len (unb s (batched s))) (batch_size p) /\
  (len (unb s (batched s)) <= batch_size p -> len (unb s (batched s)) <= pnbs s ->
   forall k, In k (priority s) -> In (snd k) (batched s) \/ In (snd k) (gen_slots p s)).
Proof. exact generate_progress. Qed.
Print Assumptions C19_eventually_batched_partial.

Theorem C19_P_b_spec : forall p accts univ tr, P_b p accts univ C19_codes tr = true <-> P p accts univ C19_codes tr.
Proof. exact P_b_spec_C19. Qed.
Print Assumptions C19_P_b_spec.

(** refutations on the faithful model, one per defect flag *)
Theorem C19_xacct_index_refuted :
  In (E_pending, 4) (Witness.fails (mkDefects true false false false) Witness.h_xacct Witness.u_xacct) /\
  Witness.fails cfg_fixed Witness.h_xacct Witness.u_xacct = [].
Proof. exact xacct_index_refuted. Qed.
Print Assumptions C19_xacct_index_refuted.

Theorem C19_commit_pending_refuted :
  In (E_pending, 3) (Witness.fails (mkDefects false true false false) Witness.h_cpend Witness.u_cpend) /\
  Witness.fails cfg_fixed Witness.h_cpend Witness.u_cpend = [].
Proof. exact commit_pending_refuted. Qed.
Print Assumptions C19_commit_pending_refuted.

Theorem C19_stale_entries_refuted :
  In (E_stale, 3) (Witness.fails (mkDefects false false true false) Witness.h_stale Witness.u_stale) /\
  Witness.fails cfg_fixed Witness.h_stale Witness.u_stale = [].
Proof. exact stale_entries_refuted. Qed.
Print Assumptions C19_stale_entries_refuted.

Theorem C19_lookup_hash_refuted :
  In (E_lookup, 2) (Witness.fails (mkDefects false false false true) Witness.h_lookup Witness.u_lookup) /\
  Witness.fails cfg_fixed Witness.h_lookup Witness.u_lookup = [].
Proof. exact lookup_hash_refuted. Qed.
Print Assumptions C19_lookup_hash_refuted.

Example C19_example : Witness.fails cfg_fixed Witness.h_good Witness.u_good = [].
Proof. exact (proj1 good_history_example). Qed.
