(** C19 — the pool neither loses accepted transactions nor misreports its content.
    Statements only, each closed by [exact]; proofs in Proofs/Mempool*.v (same model, histories and
    trace predicates as C18; see the header of Properties/C18.v). *)
From BX Require Import Base.Prelude Model.Mempool Model.MempoolSpec.
From BX Require Import Proofs.MempoolLib Proofs.MempoolInv Proofs.MempoolGen Proofs.MempoolReach
  Proofs.MempoolTrace3 Proofs.MempoolProofs.
From BX Require Import Model.TxCache Proofs.TxCacheProofs Proofs.TxCacheCompose.
Local Open Scope N_scope.

(** every C19 predicate on every history, in one statement ... *)
Theorem C19_all_histories : forall p accts univ ops, good_history accts univ ops ->
  P p accts univ C19_codes (run cfg_fixed p accts univ empty_state ops).
Proof. exact P_C19_all. Qed.
Print Assumptions C19_all_histories.

(** ... and clause by clause.

    no silent loss: whenever a transaction that was retrievable by its hash stops being so, the
    step is a commit (or generate+commit rounds) that moved the commit nonce past it, or a
    submission that put another transaction into its (account, nonce) slot, or the age rule
    applied to it while it was older than the tolerance, not ready (nonce >= pending nonce) and
    not batched, or a restart; and every submitted transaction at/above the pending nonce that is
    the first of its slot in the call and was never submitted before IS taken *)
Theorem C19_no_silent_loss : forall p accts univ ops i, good_history accts univ ops ->
  ~ In (E_lost, i) (model_fails p accts univ ops) /\ ~ In (E_not_admitted, i) (model_fails p accts univ ops).
Proof. exact (fun p accts univ ops i H => conj (code_never p accts univ ops E_lost i H) (code_never p accts univ ops E_not_admitted i H)). Qed.
Print Assumptions C19_no_silent_loss.

(** liveness on traces: after k >= ceil(ready / batchSize) rounds of (GenerateBlock; commit of that
    batch) every transaction that was held, ready and unbatched before is in one of the batches *)
Theorem C19_eventually_batched : forall p accts univ ops i, good_history accts univ ops ->
  ~ In (E_liveness, i) (model_fails p accts univ ops).
Proof. exact (fun p accts univ ops i => code_never p accts univ ops E_liveness i). Qed.
Print Assumptions C19_eventually_batched.

(** the same for states: explicit bound, finite continuation *)
Theorem C19_eventually_batched_rounds : forall p accts univ s k, reachable p accts univ s ->
  len (unb s (batched s)) <= N.of_nat k * batch_size p ->
  forall a n t, item_at s (a, n) = Some t -> n < get_pn s a -> ~ In (a, n) (batched s) ->
  exists b, In b (snd (drain cfg_fixed p k s)) /\ In t (snd b).
Proof. exact eventually_batched. Qed.
Print Assumptions C19_eventually_batched_rounds.

(** "once all lower nonces of its account are present": the pending nonce is exactly the first
    missing nonce from the commit nonce, so such a transaction is below the pending nonce = ready *)
Theorem C19_pending_nonce_exact_trace : forall p accts univ ops i, good_history accts univ ops ->
  ~ In (E_pending, i) (model_fails p accts univ ops).
Proof. exact (fun p accts univ ops i => code_never p accts univ ops E_pending i). Qed.
Print Assumptions C19_pending_nonce_exact_trace.

Theorem C19_pending_nonce_exact : forall p accts univ s, reachable p accts univ s -> forall a,
  get_cn s a <= get_pn s a /\
  (forall n, get_cn s a <= n < get_pn s a -> item_at s (a, n) <> None) /\
  item_at s (a, get_pn s a) = None /\
  (forall n, item_at s (a, n) <> None -> get_cn s a <= n).
Proof. exact pending_nonce_exact. Qed.
Print Assumptions C19_pending_nonce_exact.

(** a ready, not yet batched transaction exists => HasPendingRequest *)
Theorem C19_pending_flag_trace : forall p accts univ ops i, good_history accts univ ops ->
  ~ In (E_flag, i) (model_fails p accts univ ops).
Proof. exact (fun p accts univ ops i => code_never p accts univ ops E_flag i). Qed.
Print Assumptions C19_pending_flag_trace.

Theorem C19_pending_flag : forall p accts univ s, reachable p accts univ s -> forall a n,
  item_at s (a, n) <> None -> n < get_pn s a -> ~ In (a, n) (batched s) -> has_pending s = true.
Proof. exact pending_flag. Qed.
Print Assumptions C19_pending_flag.

Theorem C19_counter_sound : forall p accts univ s, reachable p accts univ s -> len (unb s (batched s)) <= pnbs s.
Proof. exact counter_sound. Qed.
Print Assumptions C19_counter_sound.

(** the pool reports its content truthfully *)
Theorem C19_truthful_trace : forall p accts univ ops i, good_history accts univ ops ->
  ~ In (E_lookup, i) (model_fails p accts univ ops) /\ ~ In (E_stale, i) (model_fails p accts univ ops).
Proof. exact (fun p accts univ ops i H => conj (code_never p accts univ ops E_lookup i H) (code_never p accts univ ops E_stale i H)). Qed.
Print Assumptions C19_truthful_trace.

Theorem C19_held_retrievable : forall p accts univ s, reachable p accts univ s -> forall sl t,
  item_at s sl = Some t -> slot_of t = sl /\ get_tx cfg_fixed s t = Some t.
Proof. exact held_retrievable. Qed.
Print Assumptions C19_held_retrievable.

Theorem C19_lookup_truthful : forall s h t, get_tx cfg_fixed s h = Some t -> t = h.
Proof. exact lookup_truthful. Qed.
Print Assumptions C19_lookup_truthful.

Theorem C19_no_stale_hash : forall p accts univ s, reachable p accts univ s -> forall h sl,
  alookup tx_eqb h (hashmap s) = Some sl -> sl = slot_of h /\ item_at s sl <> None.
Proof. exact hashmap_live. Qed.
Print Assumptions C19_no_stale_hash.

(** the intake cache in front of the pool (tx_cache.go), model Model/TxCache.v: over ALL sequences of
    Recv(txs) / Tick / ConsumerTakes, the sets delivered so far, concatenated, followed by what is
    still inside the cache, are exactly the accepted transactions - each once, in order *)
Theorem C19_intake_no_loss : forall size ops,
  concat (delivered (snd (crun size cs0 ops))) ++ inflight (fst (crun size cs0 ops)) = received ops.
Proof. exact intake_no_loss. Qed.
Print Assumptions C19_intake_no_loss.

(** ... and after taking what is offered, one timer event and one more take, nothing is left inside:
    the delivered sets carry every accepted transaction exactly once, in order *)
Theorem C19_intake_drained : forall k ops,
  let size := set_size k in
  let n := weight (fst (crun size cs0 ops)) in
  let r := crun size cs0 (ops ++ flush_ops n) in
  inflight (fst r) = [] /\ concat (delivered (snd r)) = received ops.
Proof. exact intake_drained. Qed.
Print Assumptions C19_intake_drained.

(** composition with the pool: the delivered sets, handed to ProcessTransactions in order, are a
    good history, so every C19 (and C18) predicate holds for what happens to them afterwards *)
Theorem C19_intake_compose : forall p accts univ k ops leader now,
  (forall t, In t (received ops) -> In t univ /\ In (t_acct t) accts) ->
  let sets := delivered (snd (crun (set_size k) cs0 ops)) in
  good_history accts univ (pool_history leader now sets) /\
  model_fails p accts univ (pool_history leader now sets) = [].
Proof. exact intake_compose. Qed.
Print Assumptions C19_intake_compose.

Example C19_intake_example :
  snd (crun 2 cs0 [CRecv [Witness.A0; Witness.A1; Witness.A2; Witness.A3; Witness.A5]; CTake; CTake; CTake; CTick; CTake]) =
  [OutRecv; OutTake (Some [Witness.A0; Witness.A1]); OutTake (Some [Witness.A2; Witness.A3]); OutTake None;
   OutTick true; OutTake (Some [Witness.A5])].
Proof. vm_compute. reflexivity. Qed.

Theorem C19_P_b_spec : forall p accts univ tr, P_b p accts univ C19_codes tr = true <-> P p accts univ C19_codes tr.
Proof. exact P_b_spec_C19. Qed.
Print Assumptions C19_P_b_spec.

(** refutations on the faithful model, one per defect flag *)
Theorem C19_xacct_index_refuted :
  In (E_pending, 4) (Witness.fails (mkDefects true false false false) Witness.h_xacct Witness.u_xacct) /\
  Witness.fails cfg_fixed Witness.h_xacct Witness.u_xacct = [].
Proof. exact xacct_index_refuted. Qed.
Print Assumptions C19_xacct_index_refuted.

Theorem C19_commit_pending_refuted :
  In (E_pending, 3) (Witness.fails (mkDefects false true false false) Witness.h_cpend Witness.u_cpend) /\
  Witness.fails cfg_fixed Witness.h_cpend Witness.u_cpend = [].
Proof. exact commit_pending_refuted. Qed.
Print Assumptions C19_commit_pending_refuted.

Theorem C19_stale_entries_refuted :
  In (E_stale, 3) (Witness.fails (mkDefects false false true false) Witness.h_stale Witness.u_stale) /\
  Witness.fails cfg_fixed Witness.h_stale Witness.u_stale = [].
Proof. exact stale_entries_refuted. Qed.
Print Assumptions C19_stale_entries_refuted.

Theorem C19_lookup_hash_refuted :
  In (E_lookup, 2) (Witness.fails (mkDefects false false false true) Witness.h_lookup Witness.u_lookup) /\
  Witness.fails cfg_fixed Witness.h_lookup Witness.u_lookup = [].
Proof. exact lookup_hash_refuted. Qed.
Print Assumptions C19_lookup_hash_refuted.

Example C19_example_hypotheses : good_history Witness.accts Witness.u_good Witness.h_good.
Proof. exact good_history_is_good. Qed.

Example C19_example : Witness.fails cfg_fixed Witness.h_good Witness.u_good = [].
Proof. exact (proj1 good_history_example). Qed.

(** a reachable state with two held, ready, unbatched transactions and a round that hands them out
    (hypotheses of [C19_eventually_batched_rounds], [C19_pending_flag], [C19_pending_nonce_exact]) *)
Example C19_state_example :
  reachable Witness.P1 Witness.accts Witness.u_good s_mid /\ len (unb s_mid (batched s_mid)) = 2 /\
  item_at s_mid (0, 2) = Some Witness.A2 /\ get_pn s_mid 0 = 3 /\
  map snd (snd (drain cfg_fixed Witness.P1 1 s_mid)) = [[Witness.A2; Witness.B3]].
Proof.
  exact (conj s_mid_reachable (conj (proj1 (proj2 s_mid_example))
        (conj (proj1 (proj2 (proj2 (proj2 (proj2 (proj2 s_mid_example))))))
        (conj (proj1 (proj2 (proj2 (proj2 (proj2 s_mid_example))))) (proj2 (proj2 (proj2 (proj2 (proj2 (proj2 s_mid_example)))))))))).
Qed.
