(** C06 — the timeout rollback fires exactly at the timeout height and never otherwise.
    Only statements, each closed by [exact].  Model under [cfg_fixed]; [reach] = every history. *)
From BX Require Import Model.Router Proofs.RouterProofs.
From BX Require Import Base.Prelude Base.Fsm Model.TxFsm Model.TxMgr Model.Interchain Model.IbtpExec Model.IbtpMon Model.IbtpJudge
     Proofs.IbtpInv Proofs.IbtpTimeout Proofs.IbtpBlock Proofs.IbtpProps Proofs.IbtpNotify Proofs.IbtpRestart Proofs.IbtpGArm.
From BX Require Import Proofs.IbtpMonProofs.
Local Open Scope N_scope.

(** [armed t H i hh]: the record of [i] waits with status BEGIN for height [hh] > H and [i] is in the
    timeout list of [hh].  Three facts about one block executed from any reachable state, for an id
    that is armed (or registered by a request of this very block) and for which no receipt is accepted
    in the block: it stays armed while the block is below [hh]; in block [hh] it is listed in
    TimeoutCounter of its source chain and its status becomes BEGIN_ROLLBACK. *)
Theorem C06_fires_at : forall w st ops st' bm mid t2 i hh,
  reach w st -> block_facts w st ops st' bm mid t2 -> Forall (op_wf w) ops ->
  ~ receipt_in ops (m_res bm) i ->
  (armed (s_tm st) (s_h st) i hh \/ In (hh, i) (pend_of w (s_h st + 1) (combine ops (m_res bm)))) ->
  (s_h st + 1 < hh -> armed (s_tm st') (s_h st') i hh) /\
  (s_h st + 1 = hh -> In i (m_timeout bm (chain_of w (fst (fst i)))) /\
                      tm_rec (s_tm st') i = Some (hh, ST_BEGIN_ROLLBACK)).
Proof. exact c06_block. Qed.
Print Assumptions C06_fires_at.

(** [block_facts] is what every block satisfies *)
Theorem C06_block_facts : forall w st ops,
  reach w st -> Forall (op_wf w) ops -> s_h st + 1 < W64 ->
  exists st' bm mid t2, exec_block cfg_fixed w st ops = Some (st', bm) /\ block_facts w st ops st' bm mid t2.
Proof.
  intros w st ops R Hwf Hh. destruct (exec_block_fixed w st ops (reach_sinv _ _ R) Hwf Hh) as [st' [bm [mid [t2 [E [_ F]]]]]].
  eauto 8.
Qed.
Print Assumptions C06_block_facts.

(** an id is listed as timed out in a block only if, after all transactions of that block, its status
    is still BEGIN, its recorded timeout height is that very block, and no receipt for it was accepted
    in the block (an earlier accepted receipt would have left BEGIN for good, C04) *)
Theorem C06_never_otherwise : forall w st ops st' bm mid t2 i,
  reach w st -> block_facts w st ops st' bm mid t2 ->
  In (TTx i) (get_timeout_list t2 (s_h st + 1)) ->
  tm_rec (s_tm mid) i = Some (s_h st + 1, ST_BEGIN) /\ ~ receipt_in ops (m_res bm) i.
Proof. exact c06_only. Qed.
Print Assumptions C06_never_otherwise.

(** ids enter timeout lists only through a registration made for a request of the current block ... *)
Theorem C06_provenance : forall w st ops st' bm mid t2 hh i,
  reach w st -> block_facts w st ops st' bm mid t2 -> Forall (op_wf w) ops ->
  listed (s_tm st') hh (TTx i) ->
  listed (s_tm st) hh (TTx i) \/ In (hh, i) (pend_of w (s_h st + 1) (combine ops (m_res bm))).
Proof. exact c06_provenance. Qed.
Print Assumptions C06_provenance.

(** ... and a registration needs an accepted, not begin-failed one-to-one request to a local service
    with 0 < T and T < 2^64-1-H (uint64 arithmetic as in the code): so T = 0 never times out
    (C06_zero_never) and an overflowing H+T is treated as never (C06_overflow_guard) *)
Theorem C06_zero_never_overflow_guard : forall w h o r hh i,
  In (hh, i) (add_of w h (o, r)) ->
  exists b p, o = OIbtp b p /\ i = b_id b /\ is_request b = true /\ b_grp b = None /\ tx_skipped r = false /\
              (0 < b_T b)%Z /\ u64_of_Z (b_T b) < MAXU64 - h /\ hh = h + u64_of_Z (b_T b) /\ to_remote_hub w b = false.
Proof. exact c06_registration_guard. Qed.
Print Assumptions C06_zero_never_overflow_guard.

(** groups: a group id is in a future timeout list only while the global status is BEGIN, at the
    group's own timeout height (part of the state invariant of every reachable state) *)
Theorem C06_group_listed_is_begin : forall w st hh g,
  reach w st -> s_h st < hh -> listed (s_tm st) hh (TGid g) ->
  exists gi, tm_glob (s_tm st) g = Some gi /\ g_state gi = ST_BEGIN /\ g_height gi = hh.
Proof. intros w st hh g R. destruct (reach_sinv _ _ R) as [_ T]. exact (m_gid _ _ _ _ _ T hh g). Qed.
Print Assumptions C06_group_listed_is_begin.

(** ... and when it is read for the current height every child is listed for its source chain and the
    whole group moves to BEGIN_ROLLBACK *)
Theorem C06_group_fires : forall w st ops st' bm mid t2 g gi k s,
  reach w st -> block_facts w st ops st' bm mid t2 ->
  In (TGid g) (get_timeout_list t2 (s_h st + 1)) -> tm_glob (s_tm mid) g = Some gi -> In (k, s) (g_children gi) ->
  In k (m_timeout bm (chain_of w (fst (fst k)))) /\
  (s = ST_SUCCESS -> In k (m_timeout bm (chain_of w (snd (fst k))))) /\
  gstate (s_tm st') g = Some ST_BEGIN_ROLLBACK.
Proof. exact c05_notify_timeout. Qed.
Print Assumptions C06_group_fires.

(** the converse for groups: in every reachable state a group whose global status is BEGIN is in the
    timeout list of its own timeout height, and that height is still ahead (invariant [GArm],
    Proofs/IbtpGArm.v: registered by BeginMultiTXs, removed exactly when the group leaves BEGIN) *)
Theorem C06_group_armed : forall w st g gi,
  reach w st -> tm_glob (s_tm st) g = Some gi -> g_state gi = ST_BEGIN ->
  s_h st < g_height gi /\ listed (s_tm st) (g_height gi) (TGid g).
Proof. exact group_armed. Qed.
Print Assumptions C06_group_armed.

(** ... so a group that is still BEGIN when the transactions of block [g_height] have run is read from
    the list in that very block, every child is announced and the group becomes BEGIN_ROLLBACK *)
Theorem C06_group : forall w st ops st' bm mid t2 g gi k s,
  reach w st -> Forall (op_wf w) ops -> s_h st + 1 < W64 -> block_facts w st ops st' bm mid t2 ->
  tm_glob (s_tm mid) g = Some gi -> g_state gi = ST_BEGIN -> g_height gi = s_h st + 1 ->
  In (k, s) (g_children gi) ->
  In k (m_timeout bm (chain_of w (fst (fst k)))) /\
  (s = ST_SUCCESS -> In k (m_timeout bm (chain_of w (snd (fst k))))) /\
  gstate (s_tm st') g = Some ST_BEGIN_ROLLBACK.
Proof. exact group_timeout. Qed.
Print Assumptions C06_group.

(** restart: everything the properties talk about lives in contract state.  A restart at any reachable
    state changes nothing that is observable in the rest of the history, whatever follows (blocks and
    further restarts): all block results, counters, timeout announcements, statuses and stored lists
    are equal ([run] returns the per-block observations).  Proof: two-run simulation through the whole
    block function (Proofs/IbtpRestart.v); the only thing a restart forgets are timeout keys holding the
    empty string in the node's cache, and the repaired code treats those like missing keys. *)
Theorem C06_restart_invariant : forall w q st items,
  reach w st -> run cfg_fixed w q (restart st) items = run cfg_fixed w q st items.
Proof. exact restart_invariant. Qed.
Print Assumptions C06_restart_invariant.

(** the same for whole histories and for every configuration the judge may use on the current tree
    (any setting of the other flags): deleting all restarts from a history leaves the trace unchanged *)
Theorem C06_restart_invariant_history : forall cfg w q items,
  d_tl_empty_head cfg = false -> run cfg w q state_init items = run cfg w q state_init (strip items).
Proof. exact restart_invariant_history. Qed.
Print Assumptions C06_restart_invariant_history.

(** in particular a pending timeout survives *)
Theorem C06_restart_keeps_armed : forall st i hh,
  (forall x, s_ph st x = true -> tm_tl (s_tm st) x = Some [TEmpty]) ->
  armed (s_tm st) (s_h st) i hh -> armed (s_tm (restart st)) (s_h (restart st)) i hh.
Proof.
  intros st i hh Hph [Hlt [Hr [l [El Hin]]]]. unfold armed, restart. cbn [s_tm s_h tm_rec].
  split; [exact Hlt|]. split; [exact Hr|]. exists l. simpl. split; [|exact Hin].
  destruct (s_ph st hh) eqn:E; [|exact El]. rewrite (Hph hh E) in El. inversion El; subst.
  destruct Hin as [Hin | []]. discriminate.
Qed.
Print Assumptions C06_restart_keeps_armed.

(** what a pier is told of TimeoutCounter is exactly what the block's metadata lists for it *)
Theorem C06_router_faithful : forall d b m, indices_ok b m = true ->
  exists wr, deliver_block d b m = Ok wr /\ wrapper_faithful d b m wr.
Proof. exact router_faithful. Qed.
Print Assumptions C06_router_faithful.


(** the boolean predicate the judge evaluates on implementation traces is exactly the inductively
    defined trace property [C06_trace] (Proofs/IbtpMonProofs.v) *)
Theorem C06_predicate_reflects : forall w q items tr, c06_b w q items tr = true <-> C06_trace w q 2 c6_init None items tr.
Proof. exact c06_b_spec. Qed.
Print Assumptions C06_predicate_reflects.

(** * witnesses *)
Definition w2 : world :=
  Build_world [Build_svc_info 0 1 true true true []; Build_svc_info 0 2 true true true [];
               Build_svc_info 0 3 true true true []] [] false.
Definition q2 : query := Build_query [(1, 2, 1); (1, 2, 2)] [(1, 7, 1)] [6] 3.
Definition req (f t i : N) (T : Z) : op := OIbtp (Build_ibtp f t i 0 T None 0) true.
Definition greq (f t i : N) (T : Z) (g n : N) : op := OIbtp (Build_ibtp f t i 0 T (Some (g, n)) 0) true.
Definition rcp (f t i k : N) : op := OIbtp (Build_ibtp f t i k 0%Z None 0) true.

(** non-vacuity: T = 3 accepted at height 3 fires at height 6 exactly; T = 0 never fires *)
Example C06_example_fires :
  option_map (map (fun ob => (o_to ob, o_st ob))) (run cfg_fixed w2 q2 state_init
     [IBlock [req 1 2 1 3; req 1 2 2 0]; IBlock []; IBlock []; IBlock []; IBlock []])
  = Some [([], [Some 0; Some 0; None]); ([], [Some 0; Some 0; None]); ([], [Some 0; Some 0; None]);
          ([(1, [TTx (1, 2, 1)])], [Some 2; Some 0; None]); ([], [Some 2; Some 0; None])].
Proof. vm_compute. reflexivity. Qed.

Example C06_example_predicate :
  prop_on_model 6 cfg_fixed w2 q2 [IBlock [req 1 2 1 3; req 1 2 2 0]; IBlock [rcp 1 2 2 1]; IBlock []; IBlock []; IBlock []] = Some true.
Proof. vm_compute. reflexivity. Qed.

(** the unchanged setTimeoutList (flag on): a finished (FAILURE) request is announced as timed out *)
Definition only_keeps_failed : Defects := Build_Defects true false false false false false false false false false false.
Theorem C06_timeout_keeps_failed_refuted :
  prop_on_model 6 only_keeps_failed w2 q2 [IBlock [req 1 2 1 3]; IBlock [rcp 1 2 1 2]; IBlock []; IBlock []] = Some false.
Proof. vm_compute. reflexivity. Qed.

(** the unchanged addToTimeoutList (flag on): a group registered at a height whose list was emptied
    never times out *)
Definition only_empty_head : Defects := Build_Defects false false false false true false false false false false false.
Definition hist_empty_head : list item :=
  [IBlock [req 1 2 1 3]; IBlock [rcp 1 2 1 1]; IBlock [greq 1 3 1 1 7 1]; IBlock []; IBlock []].
Theorem C06_tl_empty_head_refuted :
  prop_on_model 6 only_empty_head w2 q2 hist_empty_head = Some false /\
  prop_on_model 6 cfg_fixed w2 q2 hist_empty_head = Some true.
Proof. split; vm_compute; reflexivity. Qed.

(** ... and with that flag a restart is observable: request and receipt in one block leave the empty
    string for height 6 in the node's cache only; a group registered there afterwards never fires —
    unless the node restarted in between (the cache is gone, the key is written afresh) *)
Definition hist_restart : list item :=
  [IBlock [req 1 2 1 3; rcp 1 2 1 1]; IRestart; IBlock [greq 1 3 1 2 7 1]; IBlock []; IBlock []; IBlock []].
Theorem C06_restart_tl_empty_head_refuted :
  (option_map (map o_to) (run only_empty_head w2 q2 state_init hist_restart)
    = Some [[]; []; []; [(1, [TTx (1, 3, 1)])]; []]) /\
  (option_map (map o_to) (run only_empty_head w2 q2 state_init (strip hist_restart))
    = Some [[]; []; []; []; []]) /\
  (run cfg_fixed w2 q2 state_init hist_restart = run cfg_fixed w2 q2 state_init (strip hist_restart)).
Proof. split; [|split]; vm_compute; reflexivity. Qed.

(** Ordered = false destination (behaviour of the code, flag on): an accepted request with T > 0
    is never registered, so it never times out *)
Definition w_un : world :=
  Build_world [Build_svc_info 0 1 true true true []; Build_svc_info 0 2 false true true []] [] false.
Definition only_unordered : Defects := Build_Defects false false false true false false false false false false false.
Theorem C06_unordered_refuted :
  prop_on_model 6 only_unordered w_un (Build_query [(1, 2, 1)] [] [5] 2) [IBlock [req 1 2 1 2]; IBlock []; IBlock []; IBlock []] = Some false.
Proof. vm_compute. reflexivity. Qed.

(** a request to a remote BitXHub (source-hub role, flag on): the executor still registers H+T although
    the transaction manager recorded "no timeout", and the destination hub's notice does not cancel it *)
Definition w_hub : world :=
  Build_world [Build_svc_info 0 1 true true true []; Build_svc_info 1 1 true true true []] [(1, true)] false.
Definition only_interhub : Defects := Build_Defects false false false false false false false false true false false.
Theorem C06_interhub_timeout_refuted :
  option_map (map o_st) (run only_interhub w_hub (Build_query [(1, 2, 1)] [] [] 2) state_init
     [IBlock [req 1 2 1 3]; IBlock [OIbtp (Build_ibtp 1 2 1 0 0%Z None 1) true]; IBlock []; IBlock []])
  = Some [[Some 0]; [Some 4]; [Some 4]; [Some 2]].
Proof. vm_compute. reflexivity. Qed.
