(** C18 — the pool batches each account's transactions in gap-free nonce order, once.
    Statements only, each closed by [exact]; proofs in Proofs/Mempool*.v.
    Model: Model/Mempool.v with all defect flags off ([cfg_fixed]); [reachable] = reached from the
    empty pool by ANY sequence of ProcessTransactions / GenerateBlock / CommitTransactions (any hash
    list) / RemoveAliveTimeoutTxs / SetBatchSeqNo / restart / generate+commit rounds. *)
From BX Require Import Base.Prelude Model.Mempool Model.MempoolSpec.
From BX Require Import Proofs.MempoolLib Proofs.MempoolInv Proofs.MempoolInvOps Proofs.MempoolGen Proofs.MempoolReach Proofs.MempoolProofs.
Local Open Scope N_scope.

(** the state invariant (18 clauses over indices, caches and counters) holds in every reachable state *)
Theorem C18_invariant : forall p accts univ ops, forallb static_op ops = true ->
  Inv (run_state cfg_fixed p accts univ empty_state ops).
Proof. exact invariant_all_histories. Qed.
Print Assumptions C18_invariant.

(** consecutive, across batches: what is batched and uncommitted is, per account, a gap-free run
    from the commit nonce, below the pending nonce, of transactions still held *)
Theorem C18_consecutive_across : forall p accts univ s, reachable p accts univ s -> forall a n,
  In (a, n) (batched s) ->
  get_cn s a <= n < get_pn s a /\ item_at s (a, n) <> None /\ (get_cn s a < n -> In (a, n - 1) (batched s)).
Proof. exact batched_run. Qed.
Print Assumptions C18_consecutive_across.

(** consecutive within a batch, no double batching, not below the commit nonce, provenance, batch
    size, sequence number: one statement about every batch the pool can produce.  [seq_ok s B slots]
    says of each slot in order: nonce >= commit nonce, not in B nor earlier in this batch, and equal
    to the commit nonce or successor of a slot in B / earlier in this batch. *)
Theorem C18_batch : forall p accts univ s s' h txs, reachable p accts univ s ->
  generate p s = (s', Some (h, txs)) ->
  h = seqno s + 1 /\ seqno s' = h /\ len txs <= batch_size p /\
  exists slots, txs = map (tx_at s) slots /\ seq_ok s (batched s) slots /\
    (forall sl, In sl slots -> item_at s sl = Some (tx_at s sl) /\ get_tx cfg_fixed s (tx_at s sl) = Some (tx_at s sl)) /\
    (forall sl, In sl (batched s') <-> In sl (batched s) \/ In sl slots) /\
    (forall a, get_cn s' a = get_cn s a) /\ (forall sl, item_at s' sl = item_at s sl).
Proof. exact generate_safe. Qed.
Print Assumptions C18_batch.

(** the two exported entry points produce batches only through [generate] on a state that
    satisfies the invariant *)
Theorem C18_batch_via_GenerateBlock : forall p accts univ s s' h txs, reachable p accts univ s ->
  generate_block p s = (s', Some (h, txs)) -> generate p s = (s', Some (h, txs)).
Proof. exact generate_block_safe. Qed.
Print Assumptions C18_batch_via_GenerateBlock.

Theorem C18_batch_via_ProcessTransactions : forall p accts univ s leader now txs s' h b, reachable p accts univ s ->
  process_txs p s leader now txs = (s', Some (h, b)) ->
  Inv (process_pre s now txs) /\ generate p (process_pre s now txs) = (s', Some (h, b)).
Proof. exact process_batch_safe. Qed.
Print Assumptions C18_batch_via_ProcessTransactions.

(** after a restart every account starts at the ledger nonce and nothing is batched *)
Theorem C18_not_below_commit_after_restart : forall h led a,
  get_cn (init_state h led) a = lookup0 a led /\ get_pn (init_state h led) a = lookup0 a led /\ batched (init_state h led) = [].
Proof. exact restart_commit_nonce. Qed.
Print Assumptions C18_not_below_commit_after_restart.

(** the boolean predicates the judge evaluates on implementation traces are the Prop-level ones *)
Theorem C18_P_b_spec : forall p accts univ tr, P_b p accts univ C18_codes tr = true <-> P p accts univ C18_codes tr.
Proof. exact P_b_spec_C18. Qed.
Print Assumptions C18_P_b_spec.

(** refutations on the faithful model *)
Theorem C18_commit_pending_refuted :
  In (E_below_commit, 5) (Witness.fails (mkDefects false true true false) Witness.h_cpend Witness.u_cpend).
Proof. exact commit_pending_below_commit_refuted. Qed.
Print Assumptions C18_commit_pending_refuted.

Theorem C18_stale_commit_cache_refuted : In (E_below_ledger, 4) (Witness.fails cfg_fixed Witness.h_ledger Witness.u_ledger).
Proof. exact stale_commit_cache_refuted. Qed.
Print Assumptions C18_stale_commit_cache_refuted.

(** non-vacuity: a reachable history with out-of-order arrival, conflict, duplicate, two batches,
    partial commit and eviction on which every predicate of C18 and C19 holds *)
Example C18_example :
  Witness.fails cfg_fixed Witness.h_good Witness.u_good = [] /\
  map (fun x => o_batches (snd x)) (Witness.tr cfg_fixed Witness.h_good Witness.u_good) =
  [[]; []; [(8, [Witness.A0; Witness.A1])]; []; [(9, [Witness.A2; Witness.B3])]; []; []; []].
Proof. exact good_history_example. Qed.
