(** C18 — the pool batches each account's transactions in gap-free nonce order, once.
    Statements only, each closed by [exact]; proofs in Proofs/Mempool*.v.

    Model: Model/Mempool.v with all defect flags off ([cfg_fixed]).  A history is ANY list of
    ProcessTransactions (any lists: out of order, duplicates, equal-nonce conflicts, stale nonces,
    leader or follower, local or remote) / GenerateBlock / CommitTransactions (any hash list:
    unknown, repeated, partial, out of order) / RemoveAliveTimeoutTxs / SetBatchSeqNo / restart /
    generate+commit rounds, for any batch size, pool size, timed or untimed.  [good_history] only
    asks that the observation frame (accounts and transactions the trace is observed through)
    covers what is submitted, and that the ledger oracle is not moved under a running pool.
    [model_fails] = the failure codes the trace predicates of Model/MempoolSpec.v raise on the
    model's trace; the same predicates are evaluated by the judge on implementation traces. *)
From BX Require Import Base.Prelude Model.Mempool Model.MempoolSpec.
From BX Require Import Proofs.MempoolLib Proofs.MempoolInv Proofs.MempoolInvOps Proofs.MempoolGen Proofs.MempoolReach
  Proofs.MempoolTrace3 Proofs.MempoolProofs.
Local Open Scope N_scope.

(** the state invariant (19 clauses over indices, caches and counters) holds in every reachable state *)
Theorem C18_invariant : forall p accts univ ops, forallb static_op ops = true ->
  Inv (run_state cfg_fixed p accts univ empty_state ops).
Proof. exact invariant_all_histories. Qed.
Print Assumptions C18_invariant.

(** every C18 predicate on every history, in one statement ... *)
Theorem C18_all_histories : forall p accts univ ops, good_history accts univ ops ->
  P p accts univ C18_codes (run cfg_fixed p accts univ empty_state ops).
Proof. exact P_C18_all. Qed.
Print Assumptions C18_all_histories.

(** ... and clause by clause (i = step index at which the code would be raised) *)

(** never a nonce whose predecessor is neither committed nor batched-and-uncommitted: within and
    across batches an account's batched nonces run c, c+1, ... from its commit nonce *)
Theorem C18_consecutive : forall p accts univ ops i, good_history accts univ ops ->
  ~ In (E_gap, i) (model_fails p accts univ ops).
Proof. exact (fun p accts univ ops i => code_never p accts univ ops E_gap i). Qed.
Print Assumptions C18_consecutive.

(** never the same (account, nonce) twice before it is committed *)
Theorem C18_no_double : forall p accts univ ops i, good_history accts univ ops ->
  ~ In (E_double, i) (model_fails p accts univ ops).
Proof. exact (fun p accts univ ops i => code_never p accts univ ops E_double i). Qed.
Print Assumptions C18_no_double.

(** only transactions handed to the pool since the last restart, and the one currently held for the slot *)
Theorem C18_provenance : forall p accts univ ops i, good_history accts univ ops ->
  ~ In (E_provenance, i) (model_fails p accts univ ops) /\ ~ In (E_not_current, i) (model_fails p accts univ ops).
Proof. exact (fun p accts univ ops i H => conj (code_never p accts univ ops E_provenance i H) (code_never p accts univ ops E_not_current i H)). Qed.
Print Assumptions C18_provenance.

(** never below the commit nonce; the commit nonce moves only by commits that explain it and equals
    the ledger nonce right after a restart; never below what the (static) ledger reports *)
Theorem C18_not_below_commit : forall p accts univ ops i, good_history accts univ ops ->
  ~ In (E_below_commit, i) (model_fails p accts univ ops) /\ ~ In (E_commit_nonce, i) (model_fails p accts univ ops) /\
  ~ In (E_below_ledger, i) (model_fails p accts univ ops).
Proof.
  exact (fun p accts univ ops i H => conj (code_never p accts univ ops E_below_commit i H)
        (conj (code_never p accts univ ops E_commit_nonce i H) (code_never p accts univ ops E_below_ledger i H))).
Qed.
Print Assumptions C18_not_below_commit.

(** a commit report that names a transaction the pool was given and whose (account, nonce) slot has been
    occupied ever since - by it or by a conflicting transaction that took the slot over - moves the
    commit nonce past that nonce (so the pool never goes on batching a nonce a reported block consumed) *)
Theorem C18_commit_recognised : forall p accts univ ops i, good_history accts univ ops ->
  ~ In (E_commit_missed, i) (model_fails p accts univ ops).
Proof. exact (fun p accts univ ops i => code_never p accts univ ops E_commit_missed i). Qed.
Print Assumptions C18_commit_recognised.

(** a batch never exceeds the configured size (the suspected isTimed / counter = 0 escape is unreachable) *)
Theorem C18_batch_size : forall p accts univ ops i, good_history accts univ ops ->
  ~ In (E_batch_size, i) (model_fails p accts univ ops).
Proof. exact (fun p accts univ ops i => code_never p accts univ ops E_batch_size i). Qed.
Print Assumptions C18_batch_size.

(** batch heights increase by one between SetBatchSeqNo / restart *)
Theorem C18_seqno : forall p accts univ ops i, good_history accts univ ops ->
  ~ In (E_seqno, i) (model_fails p accts univ ops).
Proof. exact (fun p accts univ ops i => code_never p accts univ ops E_seqno i). Qed.
Print Assumptions C18_seqno.

(** the same content at the level of states, readable without the walker *)
Theorem C18_consecutive_across : forall p accts univ s, reachable p accts univ s -> forall a n,
  In (a, n) (batched s) ->
  get_cn s a <= n < get_pn s a /\ item_at s (a, n) <> None /\ (get_cn s a < n -> In (a, n - 1) (batched s)).
Proof. exact batched_run. Qed.
Print Assumptions C18_consecutive_across.

Theorem C18_batch : forall p accts univ s s' h txs, reachable p accts univ s ->
  generate p s = (s', Some (h, txs)) ->
  h = seqno s + 1 /\ seqno s' = h /\ len txs <= batch_size p /\
  exists slots, txs = map (tx_at s) slots /\ seq_ok s (batched s) slots /\
    (forall sl, In sl slots -> item_at s sl = Some (tx_at s sl) /\ get_tx cfg_fixed s (tx_at s sl) = Some (tx_at s sl)) /\
    (forall sl, In sl (batched s') <-> In sl (batched s) \/ In sl slots) /\
    (forall a, get_cn s' a = get_cn s a) /\ (forall sl, item_at s' sl = item_at s sl).
Proof. exact generate_safe. Qed.
Print Assumptions C18_batch.

Theorem C18_batch_via_GenerateBlock : forall p accts univ s s' h txs, reachable p accts univ s ->
  generate_block p s = (s', Some (h, txs)) -> generate p s = (s', Some (h, txs)).
Proof. exact generate_block_safe. Qed.
Print Assumptions C18_batch_via_GenerateBlock.

Theorem C18_batch_via_ProcessTransactions : forall p accts univ s leader now txs s' h b, reachable p accts univ s ->
  process_txs p s leader now txs = (s', Some (h, b)) ->
  Inv (process_pre s now txs) /\ generate p (process_pre s now txs) = (s', Some (h, b)).
Proof. exact process_batch_safe. Qed.
Print Assumptions C18_batch_via_ProcessTransactions.

(** consequences of the invariant used to classify two seeded mutants after the stale-entries repair:
    a tracked hash always names a nonce at or above the commit nonce (the `preCommitNonce <
    newCommitNonce` guard of processCommitTransactions cannot fail), and every batched mark has its
    entry in the priority index (size - len(batchedTxs) is the exact ready-unbatched count) *)
Theorem C18_tracked_above_commit : forall p accts univ s, reachable p accts univ s -> forall h a n,
  alookup tx_eqb h (hashmap s) = Some (a, n) -> get_cn s a < n + 1.
Proof. exact tracked_above_commit. Qed.
Print Assumptions C18_tracked_above_commit.

Theorem C18_batched_in_priority : forall p accts univ s, reachable p accts univ s -> forall a n,
  In (a, n) (batched s) -> exists ts, In (ts, (a, n)) (priority s).
Proof. exact batched_in_priority. Qed.
Print Assumptions C18_batched_in_priority.

Theorem C18_not_below_commit_after_restart : forall h led a,
  get_cn (init_state h led) a = lookup0 a led /\ get_pn (init_state h led) a = lookup0 a led /\ batched (init_state h led) = [].
Proof. exact restart_commit_nonce. Qed.
Print Assumptions C18_not_below_commit_after_restart.

(** the boolean predicate the judge evaluates on implementation traces is the Prop-level one *)
Theorem C18_P_b_spec : forall p accts univ tr, P_b p accts univ C18_codes tr = true <-> P p accts univ C18_codes tr.
Proof. exact P_b_spec_C18. Qed.
Print Assumptions C18_P_b_spec.

(** refutations on the faithful model *)
Theorem C18_commit_pending_refuted :
  In (E_below_commit, 5) (Witness.fails (mkDefects false true true false) Witness.h_cpend Witness.u_cpend).
Proof. exact commit_pending_below_commit_refuted. Qed.
Print Assumptions C18_commit_pending_refuted.

Theorem C18_stale_commit_cache_refuted : In (E_below_ledger, 4) (Witness.fails cfg_fixed Witness.h_ledger Witness.u_ledger).
Proof. exact stale_commit_cache_refuted. Qed.
Print Assumptions C18_stale_commit_cache_refuted.

(** non-vacuity: a good history with out-of-order arrival, conflict, duplicate, two batches,
    a partial commit, an eviction and generate+commit rounds *)
Example C18_example_hypotheses : good_history Witness.accts Witness.u_good Witness.h_good.
Proof. exact good_history_is_good. Qed.

Example C18_example :
  Witness.fails cfg_fixed Witness.h_good Witness.u_good = [] /\
  map (fun x => o_batches (snd x)) (Witness.tr cfg_fixed Witness.h_good Witness.u_good) =
  [[]; []; [(8, [Witness.A0; Witness.A1])]; []; [(9, [Witness.A2; Witness.B3])]; []; []; []].
Proof. exact good_history_example. Qed.

(** a reachable state with a non-empty batched run and a non-empty next batch (hypotheses of
    [C18_consecutive_across], [C18_batch]) *)
Example C18_state_example :
  reachable Witness.P1 Witness.accts Witness.u_good s_mid /\
  snd (generate Witness.P1 s_mid) = Some (9, [Witness.A2; Witness.B3]) /\ batched s_mid = [(0, 1); (0, 0)].
Proof. exact (conj s_mid_reachable (conj (proj1 s_mid_example) (proj1 (proj2 (proj2 s_mid_example))))). Qed.
