(** C04 — the status of a one-to-one cross-chain transaction follows the protocol state machine.
    Only statements, each closed by [exact].  Model: TxMgr / Interchain / IbtpExec under the repaired
    configuration [cfg_fixed]; [reach] = every history of well-formed blocks and restarts. *)
From BX Require Import Base.Prelude Base.Fsm Model.TxFsm Model.TxMgr Model.Interchain Model.IbtpExec Model.IbtpMon Model.IbtpJudge
     Proofs.TxFsmProofs Proofs.IbtpInv Proofs.IbtpBlock Proofs.IbtpProps.
From BXGen Require Import Gen_TxFsm.
From Coq Require Import String.
From BX Require Import Proofs.IbtpMonProofs.
Local Open Scope N_scope.

(** on the table regenerated from transaction_manager.go: only the protocol's transitions *)
Theorem C04_table_allowed : forall cur ev dst,
  fsm_fire tx_fsm_events cur ev = Some dst -> In (cur, ev, dst) allowed_triples.
Proof. exact table_allowed. Qed.
Print Assumptions C04_table_allowed.

Theorem C04_final_absorbing : forall cur ev, In cur final_names -> fsm_fire tx_fsm_events cur ev = None.
Proof. exact final_absorbing. Qed.
Print Assumptions C04_final_absorbing.

Theorem C04_table_complete :
  forallb (fun t : string * string * string =>
             let '(s, e, d) := t in
             match fsm_fire tx_fsm_events s e with Some d' => String.eqb d d' | None => false end)
          allowed_triples = true.
Proof. exact table_complete. Qed.
Print Assumptions C04_table_complete.

(** one transaction changes the status of at most its own id, by a begin (from "no record" to BEGIN
    or BEGIN_FAILURE) or by one event of the generated table, and only when it is accepted *)
Theorem C04_tx_step : forall w t c h serial b t' c' r i,
  BInv w t c -> ibtp_wf w b ->
  handle_ibtp cfg_fixed w h serial b t c = Some (t', c', r) ->
  st_of t' i = st_of t i \/ (i = b_id b /\ r_ok r = true /\ st_step (st_of t i) (st_of t' i)).
Proof. exact c04_tx_step. Qed.
Print Assumptions C04_tx_step.

(** over every block of every history the status after the block is reached from the status before
    it by a path of begins / table events (the expiry being the table's "timeout" event from BEGIN) *)
Theorem C04_status_trace : forall w st ops st' bm i,
  reach w st -> Forall (op_wf w) ops -> s_h st + 1 < W64 ->
  exec_block cfg_fixed w st ops = Some (st', bm) ->
  st_path (st_of (s_tm st) i) (st_of (s_tm st') i).
Proof. exact c04_block. Qed.
Print Assumptions C04_status_trace.

Theorem C04_final_forever : forall w st ops st' bm i s,
  reach w st -> Forall (op_wf w) ops -> s_h st + 1 < W64 ->
  exec_block cfg_fixed w st ops = Some (st', bm) ->
  st_of (s_tm st) i = Some s -> is_final s = true -> st_of (s_tm st') i = Some s.
Proof. exact c04_final_forever. Qed.
Print Assumptions C04_final_forever.

(** a receipt that needs a transition the table does not have is rejected and changes nothing *)
Theorem C04_reject_frame : forall w st h serial b t' c' r hh s,
  reach w st -> ibtp_wf w b ->
  tm_rec (s_tm st) (b_id b) = Some (hh, s) -> is_request b = false ->
  set_fsm s (event_of_receipt (b_typ b)) = None ->
  handle_ibtp cfg_fixed w h serial b (s_tm st) (s_ic st) = Some (t', c', r) ->
  r_ok r = false /\ t' = s_tm st /\ c' = s_ic st /\ r_chains r = [].
Proof. exact c04_reject_frame. Qed.
Print Assumptions C04_reject_frame.

Theorem C04_query_agrees : forall t i hh s, tm_rec t i = Some (hh, s) -> tm_status_tx t i = Some s.
Proof. exact c04_query_agrees. Qed.
Print Assumptions C04_query_agrees.

(** the block function is total on reachable states (nothing above is vacuous for lack of a run) *)
Theorem C04_total : forall w st ops,
  reach w st -> Forall (op_wf w) ops -> s_h st + 1 < W64 ->
  exists st' bm, exec_block cfg_fixed w st ops = Some (st', bm).
Proof. exact exec_block_total. Qed.
Print Assumptions C04_total.


(** the boolean predicate the judge evaluates on implementation traces is exactly the inductively
    defined trace property [C04_trace] (Proofs/IbtpMonProofs.v) *)
Theorem C04_predicate_reflects : forall w q items tr, c04_b w q items tr = true <-> C04_trace w q 2 c4_init c6_init items tr.
Proof. exact c04_b_spec. Qed.
Print Assumptions C04_predicate_reflects.

(** * witnesses *)
Definition w2 : world :=
  Build_world [Build_svc_info 0 1 true true true []; Build_svc_info 0 2 true true true []] [] false.
Definition q2 : query := Build_query [(1, 2, 1)] [] [6] 2.
Definition req (f t i : N) (T : Z) : op := OIbtp (Build_ibtp f t i 0 T None 0) true.
Definition rcp (f t i k : N) : op := OIbtp (Build_ibtp f t i k 0%Z None 0) true.

(** non-vacuity: request, success receipt, three more blocks: BEGIN then SUCCESS forever *)
Example C04_example_success :
  option_map (map o_st) (run cfg_fixed w2 q2 state_init
     [IBlock [req 1 2 1 3]; IBlock [rcp 1 2 1 1]; IBlock []; IBlock []; IBlock []])
  = Some [[Some 0]; [Some 3]; [Some 3]; [Some 3]; [Some 3]].
Proof. vm_compute. reflexivity. Qed.

(** the unchanged code (flag on): a FAILURE receipt leaves the id in its timeout list and the final
    status FAILURE is overwritten with BEGIN_ROLLBACK at H+T; the C04 predicate is false on that trace *)
Definition only_keeps_failed : Defects := Build_Defects true false false false false false false false false false false.
Theorem C04_timeout_keeps_failed_refuted :
  prop_on_model 4 only_keeps_failed w2 q2
     [IBlock [req 1 2 1 3]; IBlock [rcp 1 2 1 2]; IBlock []; IBlock []] = Some false /\
  option_map (map o_st) (run only_keeps_failed w2 q2 state_init
     [IBlock [req 1 2 1 3]; IBlock [rcp 1 2 1 2]; IBlock []; IBlock []])
  = Some [[Some 0]; [Some 4]; [Some 4]; [Some 2]].
Proof. split; vm_compute; reflexivity. Qed.

(** a receipt carrying a Group field (flag on): accepted, but never taken off the timeout list *)
Definition only_receipt_group : Defects := Build_Defects false false false false false false false false false true false.
Theorem C04_receipt_group_skip_refuted :
  prop_on_model 4 only_receipt_group w2 q2
     [IBlock [req 1 2 1 3]; IBlock [OIbtp (Build_ibtp 1 2 1 1 0%Z (Some (5, 2)) 0) true]; IBlock []; IBlock []] = Some false.
Proof. vm_compute. reflexivity. Qed.

(** BeginInterBitXHub on a zero record (flag on): BEGIN_FAILURE -> ROLLBACK by a rollback notice *)
Definition w_hub : world :=
  Build_world [Build_svc_info 0 1 true true true []; Build_svc_info 2 1 true true true []] [(2, false)] false.
Definition only_zero_record : Defects := Build_Defects false true false false false false false false false false false.
Theorem C04_interbxh_zero_record_refuted :
  option_map (map o_st) (run only_zero_record w_hub q2 state_init
     [IBlock [req 1 2 1 3]; IBlock [OIbtp (Build_ibtp 1 2 1 0 0%Z None 2) true]])
  = Some [[Some 1]; [Some 5]] /\
  prop_on_model 4 only_zero_record w_hub q2
     [IBlock [req 1 2 1 3]; IBlock [OIbtp (Build_ibtp 1 2 1 0 0%Z None 2) true]] = Some false.
Proof. split; vm_compute; reflexivity. Qed.

(** the same histories satisfy the predicate under the repaired configuration *)
Example C04_fixed_ok :
  prop_on_model 4 cfg_fixed w2 q2 [IBlock [req 1 2 1 3]; IBlock [rcp 1 2 1 2]; IBlock []; IBlock []] = Some true /\
  prop_on_model 4 cfg_fixed w_hub q2 [IBlock [req 1 2 1 3]; IBlock [OIbtp (Build_ibtp 1 2 1 0 0%Z None 2) true]] = Some true.
Proof. split; vm_compute; reflexivity. Qed.
