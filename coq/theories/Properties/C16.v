(** C16 (draft: table facts) *)
From BX Require Import Base.Prelude Base.Fsm Model.Gate Model.Lifecycle Proofs.LifecycleProofs.
From BXGen Require Import Gen_ObjFsm.
Theorem C16_forbidden_no_source_chain : no_exit_b KChain = true.
Proof. exact forbidden_no_source_chain. Qed.
Print Assumptions C16_forbidden_no_source_chain.
