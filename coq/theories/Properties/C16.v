(** C16 - only available, permitted services interchange; objects obey their lifecycle.
    Statements only, each closed by [exact].  The state machines, pre-check maps, available sets and
    priorities are [BXGen.Gen_ObjFsm], regenerated from the sources on every run. *)
From BX Require Import Base.Prelude Base.Fsm Model.Gate Model.Lifecycle Proofs.LifecycleProofs.
From BXGen Require Import Gen_ObjFsm.
From Coq Require Import String.
Local Open Scope string_scope.

(** * On the generated tables *)

(** no entry of the appchain, service, role or node table, for any lastStatus, leaves [forbidden] *)
Theorem C16_forbidden_terminal : forall k last ev, terminal_kind k = true -> fire k last St_Forbidden ev = None.
Proof. exact forbidden_terminal. Qed.
Print Assumptions C16_forbidden_terminal.

(** a rule leaves [forbidden] only through the clear of its appchain's logout, to [unavailable] *)
Theorem C16_rule_forbidden_exit : forall last ev d, fire KRule last St_Forbidden ev = Some d -> ev = Ev_CLear /\ d = St_Unavailable.
Proof. exact rule_forbidden_exit. Qed.
Print Assumptions C16_rule_forbidden_exit.

(** the available sets; every available service status can be paused, pausing leads to a status that is not available *)
Theorem C16_available_states :
  (appchain_available = [St_Available; St_Freezing] /\ service_available = [St_Available; St_Freezing] /\ role_available = [St_Available; St_Freezing]) /\
  forallb (fun s => pre_ok KSvc Ev_Pause s && option_eqb String.eqb (fire KSvc "" s Ev_Pause) (Some St_Pause)) service_available = true /\
  (mem_s St_Pause service_available = false /\ mem_s St_Forbidden service_available = false).
Proof. exact (conj available_sets (conj pause_covers_available pause_not_available)). Qed.
Print Assumptions C16_available_states.

(** the closure used to judge observed status changes contains every edge of every table, and from
    [forbidden] it reaches nothing else *)
Theorem C16_reach_table :
  forallb (fun k => forallb (fun e : string * string => reach k (fst e) (snd e)) (kind_edges k ++ extra_edges k)) [KChain; KSvc; KRule; KRole; KNode] = true /\
  forallb (fun k => forallb (fun b => negb (reach k St_Forbidden b) || String.eqb b St_Forbidden) ("" :: status_universe)) [KChain; KSvc; KRole; KNode] = true.
Proof. exact (conj reach_contains_edges reach_forbidden_closed). Qed.
Print Assumptions C16_reach_table.

(** * Over all histories *)

(** status changes happen only by firing the generated tables, and every change made by a step is
    logged with its cause (the operation on the object, the conclusion of a proposal about it, a cascade of
    its appchain); requests and restarts change no status *)
Theorem C16_transitions_declared : forall f s o, committed s ->
  let r := step f s o in
  Forall entry_ok (r_log r) /\ chain_logged (r_log r) s (r_state r) /\ svc_logged (r_log r) s (r_state r) /\ role_logged (r_log r) s (r_state r).
Proof. exact step_logged. Qed.
Print Assumptions C16_transitions_declared.

Theorem C16_driven : forall p cur s, log_rel s (snd (run p cur s)).
Proof. exact run_logged. Qed.
Print Assumptions C16_driven.

(** the executor cache never disagrees with the stored service records *)
Theorem C16_cache_consistent : forall f h, d_cache_failed_events f = false -> key_inj (d_cache_key f) ->
  cache_ok f (run_ops f st0 h) /\ committed (run_ops f st0 h).
Proof. exact (fun f h Hf Hk => run_ops_keeps f h st0 Hf Hk (proj1 (st0_ok f)) (proj2 (st0_ok f))). Qed.
Print Assumptions C16_cache_consistent.

(** gating: after any history, a request is recorded as BEGIN only if - by the STORED records - the source
    service is available and the destination exists, is available and does not refuse the source; it is
    recorded as BEGIN_FAILURE only if the source is available and the destination is not usable; it is
    rejected for the source only if the source is not available *)
Theorem C16_gate_after_history : forall f h src dst, d_cache_failed_events f = false -> key_inj (d_cache_key f) ->
  let s := run_ops f st0 h in gate_sound (svcs s) src dst (ibtp_outcome f s src dst) = true.
Proof. exact gate_theorem. Qed.
Print Assumptions C16_gate_after_history.

(** ... and the same at every position inside a block: after the blocks [bs] and the transactions [pre] that
    precede the request in its own block, the outcome recorded for the request is sound for the records stored
    at that very position (the view is refreshed after every transaction, not at the end of the block); a
    request that passes the proof stage - which looks at the state the block started from - gets exactly the
    gate's answer on those records *)
Theorem C16_gate : forall f bs pre src dst,
  d_cache_failed_events f = false -> key_inj (d_cache_key f) -> d_cache_deferred f = false ->
  let s0 := run_ops f st0 (List.concat bs) in
  let s := run_ops f s0 pre in
  exists oc, r_out (step_at f s0 s (OIbtp src dst)) = outcome_code oc /\ gate_sound (svcs s) src dst oc = true /\
             (proof_ok s0 src = true -> oc = gate (fun i => sget i (svcs s)) src dst).
Proof. exact gate_in_block. Qed.
Print Assumptions C16_gate.

(** blocks matter to requests only: the state after a history of blocks is the state after its transactions in
    a row, and a history whose blocks hold one transaction each is the plain history *)
Theorem C16_blocks_state : forall f bs s,
  fold_left (fun s b => snd (trace_block f s s b)) bs s = run_ops f s (List.concat bs).
Proof. exact blocks_state. Qed.
Print Assumptions C16_blocks_state.
Theorem C16_blocks_singletons : forall f h s, trace_blocks f s (map (fun o => [o]) h) = trace f s h.
Proof. exact trace_blocks_singletons. Qed.
Print Assumptions C16_blocks_singletons.

(** logged out stays logged out, for every flag setting and every continuation of the history *)
Theorem C16_logout_forever : forall f h s, forb_rel s (run_ops f s h).
Proof. exact (fun f h s => run_ops_forbidden f h s). Qed.
Print Assumptions C16_logout_forever.

Theorem C16_logout_unusable : forall f h src dst r, d_cache_failed_events f = false -> key_inj (d_cache_key f) ->
  let s := run_ops f st0 h in
  sget src (svcs s) = Some r -> sv_status r = St_Forbidden ->
  ibtp_outcome f s src dst = ORejSrc \/ ibtp_outcome f s src dst = OProof.
Proof. exact forbidden_source_refused. Qed.
Print Assumptions C16_logout_unusable.

(** cascade (partial: the postcondition of the approval; that it keeps holding until the appchain is activated
    is evaluated on every trace by [cascade_obs], not proved): concluding an appchain freeze proposal with
    approval leaves none of the appchain's registered services available *)
Theorem C16_cascade_partial : forall f s k p pid,
  nth_open false k (props s) = Some pid -> nth_error (props s) (N.to_nat pid) = Some p ->
  p_kind p = KChain -> p_event p = Ev_Freeze ->
  r_ok (step f s (OConclude k true)) = true ->
  forall i, In i (reg_of (p_obj p) s) -> unav (r_state (step f s (OConclude k true))) i.
Proof. exact step_cascade_freeze. Qed.
Print Assumptions C16_cascade_partial.

(** ... and already the submission of an appchain logout pauses every registered service *)
Theorem C16_cascade_logout_submit_partial : forall c s s',
  run (chain_op Ev_Logout c) None s = (true, s') -> forall i, In i (reg_of c s) -> unav s' i.
Proof. exact cascade_logout_submit. Qed.
Print Assumptions C16_cascade_logout_submit_partial.

(** the predicate the judge evaluates on implementation traces (histories of single transactions, and of blocks:
    inside a block the gate clause is asked only at a request followed by nothing but requests) *)
Theorem C16_P_b_spec : forall h tr, P_b h tr = true <-> P_from (flat_mask h) obs0 tr.
Proof. exact P_b_spec. Qed.
Print Assumptions C16_P_b_spec.
Theorem C16_P_b_blocks_spec : forall bs tr, P_b_blocks bs tr = true <-> P_from (hist_mask bs) obs0 tr.
Proof. exact P_b_blocks_spec. Qed.
Print Assumptions C16_P_b_blocks_spec.

(** * Refutations on the faithful model *)
Theorem C16_logout_reject_refuted : P_b h_logout_reject (model_trace (cfg_of_bits false false true) h_logout_reject) = false.
Proof. exact logout_reject_refuted. Qed.
Print Assumptions C16_logout_reject_refuted.
Theorem C16_logout_reject_fixed : P_b h_logout_reject (model_trace cfg_fixed h_logout_reject) = true.
Proof. exact logout_reject_fixed. Qed.

Theorem C16_stale_cache_refuted : P_b h_stale_cache (model_trace (cfg_of_bits true true false) h_stale_cache) = false.
Proof. exact stale_cache_refuted. Qed.
Print Assumptions C16_stale_cache_refuted.
Theorem C16_stale_cache_fixed : P_b h_stale_cache (model_trace cfg_fixed h_stale_cache) = true.
Proof. exact stale_cache_fixed. Qed.

(** a view refreshed only at the end of the block: the request that follows the approved freeze of its destination
    in the same block is let through *)
Theorem C16_deferred_cache_refuted :
  P_b_blocks b_deferred (model_trace_blocks (cfg_of_bits4 false false false true) b_deferred) = false.
Proof. exact deferred_refuted. Qed.
Print Assumptions C16_deferred_cache_refuted.
Theorem C16_deferred_cache_fixed : P_b_blocks b_deferred (model_trace_blocks cfg_fixed b_deferred) = true.
Proof. exact deferred_fixed. Qed.

(** a logged-out / frozen governance admin (or an account that never was one) does not vote: its ballot is refused and
    nothing changes; on implementation traces this is clause 6 of the predicate (the Vote receipt must be FAILED) *)
Theorem C16_unavailable_admin_ballot_refused : forall f s r k a,
  d_cache_failed_events f = false ->
  r_ok (step f s (ORoleVote r k a)) = false /\ r_state (step f s (ORoleVote r k a)) = s.
Proof. exact rolevote_refused. Qed.
Print Assumptions C16_unavailable_admin_ballot_refused.

(** a pending logout is final unless it is rejected or withdrawn: clause 5 of the trace predicate ([logout_step]).
    On the code as it is it FAILS: UnPauseChainService (approved activation / update of the appchain) restores the
    paused proposals of every registered service, also of one that is not paused - the freeze proposal that the
    pending logout had locked is restored and re-triggered from logouting; the service is usable, the approved logout
    then yields frozen instead of forbidden and an approved activation brings the logged-out service back.
    Reproduced on the real executor (corpus/C16_w09).  With the restore limited to paused services the history
    satisfies the property. *)
Theorem C16_unpause_locked_refuted : P_b h_unpause_locked (model_trace cfg_code h_unpause_locked) = false.
Proof. exact unpause_locked_refuted. Qed.
Print Assumptions C16_unpause_locked_refuted.
Theorem C16_unpause_locked_fixed : P_b h_unpause_locked (model_trace cfg_code_no_restore h_unpause_locked) = true.
Proof. exact unpause_locked_fixed. Qed.

(** why [C16_cascade_partial] stays partial: on the code as it is the full statement - "... and this persists until an
    approved activation" - is FALSE.  Witness (reproduced on the real executor, corpus/C16_w08): freeze of the
    appchain submitted; update of its service pending; logout of the service submitted (locks the update; a
    logouting service is not pausable); the freeze approved; the LOCKED update withdrawn: governance rejects it
    against the object as it is, "reject" fires from logouting with the update's last status, the service is
    available on the frozen appchain, requests from and to it are accepted.  With the withdrawal of paused
    proposals refused, the history satisfies the property, and every history of at most 5 operations over
    [casc_alphabet] from a world with one appchain and two services keeps every registered service of a
    not-available appchain parked (bounded, by computation - not the general theorem). *)
Theorem C16_withdraw_locked_refuted :
  P_b h_withdraw_locked (model_trace (cfg_of_bits5 false true false false true) h_withdraw_locked) = false.
Proof. exact withdraw_locked_refuted. Qed.
Print Assumptions C16_withdraw_locked_refuted.
Theorem C16_withdraw_locked_fixed :
  P_b h_withdraw_locked (model_trace (cfg_of_bits5 false true false false false) h_withdraw_locked) = true.
Proof. exact withdraw_locked_fixed. Qed.
Theorem C16_cascade_bounded :
  casc_dfs (cfg_of_bits5 false true false false false) 5 (casc_start (cfg_of_bits5 false true false false false)) [] = None.
Proof. exact cascade_bounded. Qed.
Print Assumptions C16_cascade_bounded.
Theorem C16_cascade_bounded_refuted :
  casc_dfs (cfg_of_bits5 false true false false true) 5 (casc_start (cfg_of_bits5 false true false false true)) []
  = Some [OChainOp 1 1; OSvcOp 0 10 []; OSvcOp 3 10 []; OConclude 1 true; OWithdraw 1]%N.
Proof. exact cascade_bounded_refuted. Qed.

(** the manager is told "approve", "reject" or - when the rejected / withdrawn proposal had locked a lower-priority
    one - the event name of the RESTORED proposal; the follow-up of a not-approved service logout (re-pause the
    service of an unusable appchain) must run for all of them but "approve" *)
Theorem C16_restored_event_refuted : P_b h_restored (model_trace cfg_reject_only h_restored) = false.
Proof. exact restored_refuted. Qed.
Print Assumptions C16_restored_event_refuted.
Theorem C16_restored_event_fixed : P_b h_restored (model_trace (cfg_of_bits false true false) h_restored) = true.
Proof. exact restored_fixed. Qed.

(** the premise [key_inj] - distinct ids have distinct cache keys - is needed: a cache keyed by the case-folded id
    (ids that differ only in the case of their letters share one entry) lets a request to an unregistered id
    through, and makes a frozen service usable again when its twin posts an event.  The code as it is keys the
    cache by the exact id: the identity ([cfg_of_bits4], checked on every run: the keys of the executor cache are
    read back and compared, entry by entry, with the model's). *)
Theorem C16_key_identity_injective : forall a b c d, key_inj (d_cache_key (cfg_of_bits4 a b c d)).
Proof. intros a b c d i j H. exact H. Qed.
Print Assumptions C16_key_identity_injective.
Theorem C16_folded_key_not_injective : ~ key_inj fold_key.
Proof. exact fold_key_not_inj. Qed.
Theorem C16_folded_key_refuted : P_b h_folded (model_trace cfg_code_folded h_folded) = false.
Proof. exact folded_refuted. Qed.
Print Assumptions C16_folded_key_refuted.
Theorem C16_folded_key_twin_refuted : P_b h_folded2 (model_trace cfg_code_folded h_folded2) = false.
Proof. exact folded2_refuted. Qed.
Print Assumptions C16_folded_key_twin_refuted.
Theorem C16_folded_key_fixed :
  P_b h_folded (model_trace (cfg_of_bits false true false) h_folded) = true /\
  P_b h_folded2 (model_trace (cfg_of_bits false true false) h_folded2) = true.
Proof. exact (conj folded_fixed folded2_fixed). Qed.

(** not reloading the cache is harmless for gating on its own, yet makes a restarted node differ from a running one *)
Theorem C16_restart_divergence_refuted :
  let f := cfg_of_bits true true false in
  let h := firstn 17 h_stale_cache in
  ibtp_outcome f (run_ops f st0 h) 10 20 <> ibtp_outcome f (run_ops f st0 (h ++ [ORestart])) 10 20.
Proof. exact restart_divergence. Qed.
Print Assumptions C16_restart_divergence_refuted.

(** * Non-vacuity *)
Example C16_gate_example :
  map r_out (trace cfg_fixed st0 (setup ++ [OIbtp 10 20; OSvcBlack 20 [10]; OIbtp 10 20; OSvcOp 1 10 []; OConclude 0 true; OIbtp 10 20]))%N
  = [9; 9; 9; 9; 9; 9; 9; 9; 0; 9; 1; 9; 9; 2]%N.
Proof. exact gate_example. Qed.
Example C16_cascade_example :
  map (fun e : N * svc => (fst e, sv_status (snd e))) (ob_svcs (obs_of (last (trace cfg_fixed st0 (setup ++ [OChainOp 1 1; OConclude 0 true]))
                                                                           {| r_ok := true; r_out := 9; r_log := []; r_state := st0 |})))
  = [(10, St_Pause); (20, St_Available)]%N.
Proof. exact cascade_example. Qed.
Example C16_forever_example :
  let h := (setup ++ [OSvcOp 3 10 []; OConclude 0 true; OSvcOp 2 10 []; ORegSvc 1 10 []; OIbtp 10 20])%list in
  map (fun r => (r_ok r, r_out r)) (skipn 9 (trace cfg_fixed st0 h)) = [(true, 9); (false, 9); (false, 9); (true, 2)]%N.
Proof. exact forever_example. Qed.
