(** C05 — one-to-many cross-chain transactions are all-or-nothing.
    Only statements, each closed by [exact].  Model under [cfg_fixed]; [reach] = every history. *)
From BX Require Import Model.Router Proofs.RouterProofs.
From BX Require Import Base.Prelude Base.Fsm Model.TxFsm Model.TxMgr Model.Interchain Model.IbtpExec Model.IbtpMon Model.IbtpJudge
     Proofs.IbtpInv Proofs.IbtpBlock Proofs.IbtpGroup Proofs.IbtpProps Proofs.IbtpNotify Proofs.IbtpGArm.
From BX Require Import Proofs.IbtpMonProofs.
Local Open Scope N_scope.

(** the global status is SUCCESS only when the number of children equals the declared count and every
    child is SUCCESS *)
Theorem C05_success_needs_all : forall w st g gi,
  reach w st -> tm_glob (s_tm st) g = Some gi -> g_state gi = ST_SUCCESS ->
  N.of_nat (List.length (g_children gi)) = g_count gi /\ forall p, In p (g_children gi) -> snd p = ST_SUCCESS.
Proof. exact c05_success_needs_all. Qed.
Print Assumptions C05_success_needs_all.

(** once the group has left BEGIN for anything but SUCCESS, every child (including those that had
    succeeded) is in a failure / rollback status *)
Theorem C05_fail_children : forall w st g gi,
  reach w st -> tm_glob (s_tm st) g = Some gi ->
  g_state gi <> ST_BEGIN -> g_state gi <> ST_SUCCESS ->
  forall p, In p (g_children gi) ->
            snd p = ST_BEGIN_FAILURE \/ snd p = ST_FAILURE \/ snd p = ST_BEGIN_ROLLBACK \/ snd p = ST_ROLLBACK.
Proof. exact c05_fail_children. Qed.
Print Assumptions C05_fail_children.

(** ... and the global status can never become SUCCESS afterwards, over any block of any history *)
Theorem C05_fail_sticky : forall w st ops st' bm g,
  reach w st -> Forall (op_wf w) ops -> s_h st + 1 < W64 ->
  exec_block cfg_fixed w st ops = Some (st', bm) ->
  gstate (s_tm st) g <> None -> gstate (s_tm st) g <> Some ST_BEGIN -> gstate (s_tm st) g <> Some ST_SUCCESS ->
  gstate (s_tm st') g <> Some ST_SUCCESS.
Proof. exact c05_fail_sticky. Qed.
Print Assumptions C05_fail_sticky.

(** the shape invariant behind both: which child statuses go with which global status *)
Theorem C05_shape : forall w st g gi,
  reach w st -> tm_glob (s_tm st) g = Some gi -> shape gi /\ NoDup (map fst (g_children gi)).
Proof. intros w st g gi R. exact (reach_kinv w st R g gi). Qed.
Print Assumptions C05_shape.

(** a rejected child report (duplicate / late / unknown) changes nothing *)
Theorem C05_reject_frame : forall w st h serial b t' c' r,
  reach w st -> b_idx b < B63 ->
  handle_ibtp cfg_fixed w h serial b (s_tm st) (s_ic st) = Some (t', c', r) ->
  r_ok r = false -> t' = s_tm st /\ c' = s_ic st /\ r_chains r = [].
Proof.
  intros w st h serial b t' c' r R. destruct (reach_sinv _ _ R) as [I _]. exact (reject_frame w h serial b _ _ t' c' r I).
Qed.
Print Assumptions C05_reject_frame.

(** what a pier is told of MultiTxCounter is exactly what the block's metadata lists for it *)
Theorem C05_router_faithful : forall d b m, indices_ok b m = true ->
  exists wr, deliver_block d b m = Ok wr /\ wrapper_faithful d b m wr.
Proof. exact router_faithful. Qed.
Print Assumptions C05_router_faithful.

(** notify_complete, failure by a transaction: when an accepted IBTP takes a group from BEGIN to
    BEGIN_FAILURE (a child fails at begin, or a failure receipt arrives), the multi-tx notify map of the
    current height (which becomes MultiTxCounter of this block) lists every other child for the source
    chain and every other already-succeeded child for its own destination chain *)
Theorem C05_notify_complete : forall w st h serial b t' c' r g gi,
  reach w st -> ibtp_wf w b ->
  handle_ibtp cfg_fixed w h serial b (s_tm st) (s_ic st) = Some (t', c', r) ->
  tm_glob (s_tm st) g = Some gi -> g_state gi = ST_BEGIN -> gstate t' g = Some ST_BEGIN_FAILURE ->
  (forall k, In k (map fst (g_children gi)) -> k <> b_id b ->
             In k (get_multi c' h (match svc_lookup w (fst (fst g)) with Some s => sv_chain s | None => 0 end))) /\
  (forall k, In (k, ST_SUCCESS) (g_children gi) -> k <> b_id b ->
             In k (get_multi c' h (notify_chain_dst w k))).
Proof. exact c05_notify_step. Qed.
Print Assumptions C05_notify_complete.

(** notify_complete, failure by timeout: when the group's id is in the list read for the current
    height, TimeoutCounter lists every child for its source chain and every already-succeeded child for
    its destination chain, and the group becomes BEGIN_ROLLBACK *)
Theorem C05_notify_timeout : forall w st ops st' bm mid t2 g gi k s,
  reach w st -> block_facts w st ops st' bm mid t2 ->
  In (TGid g) (get_timeout_list t2 (s_h st + 1)) -> tm_glob (s_tm mid) g = Some gi -> In (k, s) (g_children gi) ->
  In k (m_timeout bm (chain_of w (fst (fst k)))) /\
  (s = ST_SUCCESS -> In k (m_timeout bm (chain_of w (snd (fst k))))) /\
  gstate (s_tm st') g = Some ST_BEGIN_ROLLBACK.
Proof. exact c05_notify_timeout. Qed.
Print Assumptions C05_notify_timeout.

(** ... and the group's id IS read at its timeout height: a group that is still BEGIN when the transactions of
    the block of its recorded timeout height have run is rolled back in that block (every child announced, global
    status BEGIN_ROLLBACK, from which SUCCESS is unreachable); invariant [GArm], Proofs/IbtpGArm.v *)
Theorem C05_timeout_fires : forall w st ops st' bm mid t2 g gi k s,
  reach w st -> Forall (op_wf w) ops -> s_h st + 1 < W64 -> block_facts w st ops st' bm mid t2 ->
  tm_glob (s_tm mid) g = Some gi -> g_state gi = ST_BEGIN -> g_height gi = s_h st + 1 ->
  In (k, s) (g_children gi) ->
  In k (m_timeout bm (chain_of w (fst (fst k)))) /\
  (s = ST_SUCCESS -> In k (m_timeout bm (chain_of w (snd (fst k))))) /\
  gstate (s_tm st') g = Some ST_BEGIN_ROLLBACK.
Proof. exact group_timeout. Qed.
Print Assumptions C05_timeout_fires.

(** a child that reported SUCCESS is final for its own reports: any further receipt for it is refused
    (state error, nothing changes) — in particular a contradictory FAILURE receipt cannot fail the group
    behind the back of the destination chain that holds the succeeded child *)
Theorem C05_succeeded_child_final : forall sorted t i g gi r,
  tm_rec t i = None -> tm_child t i = Some g -> tm_glob t g = Some gi ->
  child_lookup i (g_children gi) = Some ST_SUCCESS ->
  tm_report cfg_fixed sorted t i r = Some (TmErr E_STATE).
Proof. exact succeeded_child_final. Qed.
Print Assumptions C05_succeeded_child_final.

(** (that the notify map of height h is not touched after the block, i.e. MultiTxCounter of the block is
    exactly this map, is by construction of [exec_block]: [m_multi bm = get_multi (s_ic mid) h].) *)

(** the boolean predicate the judge evaluates on implementation traces is exactly the inductively
    defined trace property [C05_trace] (Proofs/IbtpMonProofs.v) *)
Theorem C05_predicate_reflects : forall w q items tr, c05_b w q items tr = true <-> C05_trace w q items 2 None items tr.
Proof. exact c05_b_spec. Qed.
Print Assumptions C05_predicate_reflects.

(** * witnesses *)
Definition w_grp : world :=
  Build_world [Build_svc_info 0 1 true true true []; Build_svc_info 0 2 true true true [];
               Build_svc_info 0 3 true true true []; Build_svc_info 0 4 true true true [];
               Build_svc_info 0 3 true false true []] [] false.
Definition q_grp : query := Build_query [(1, 2, 1); (1, 3, 1); (1, 4, 1); (1, 5, 1)] [(1, 1, 3)] [] 5.
Definition greq (f t i : N) (T : Z) (g n : N) : op := OIbtp (Build_ibtp f t i 0 T (Some (g, n)) 0) true.
Definition rcp (f t i k : N) : op := OIbtp (Build_ibtp f t i k 0%Z None 0) true.

(** non-vacuity: three children over three chains all succeed: global SUCCESS after the last receipt *)
Example C05_example_success :
  option_map (map (fun ob => nth 4 (o_st ob) None)) (run cfg_fixed w_grp q_grp state_init
     [IBlock [greq 1 2 1 9 1 3; greq 1 3 1 9 1 3]; IBlock [rcp 1 2 1 1; greq 1 4 1 9 1 3]; IBlock [rcp 1 4 1 1]; IBlock [rcp 1 3 1 1]])
  = Some [Some 0; Some 0; Some 0; Some 3].
Proof. vm_compute. reflexivity. Qed.

Definition hist_fail_receipt : list item :=
  [IBlock [greq 1 2 1 9 1 3; greq 1 3 1 9 1 3; greq 1 4 1 9 1 3]; IBlock [rcp 1 2 1 1]; IBlock [rcp 1 3 1 2]; IBlock []].
Definition hist_fail_begin : list item :=
  [IBlock [greq 1 2 1 9 1 3; greq 1 3 1 9 1 3]; IBlock [rcp 1 2 1 1; rcp 1 3 1 1]; IBlock [greq 1 5 1 9 1 3]; IBlock []].

Example C05_example_fixed :
  prop_on_model 5 cfg_fixed w_grp q_grp hist_fail_receipt = Some true /\
  prop_on_model 5 cfg_fixed w_grp q_grp hist_fail_begin = Some true.
Proof. split; vm_compute; reflexivity. Qed.

(** the unchanged Report (flag on): on a failure receipt the destination of the already-succeeded
    child is not told *)
Definition only_ndst_lost : Defects := Build_Defects false false false false false false false true false false false.
Theorem C05_fail_ndst_lost_refuted : prop_on_model 5 only_ndst_lost w_grp q_grp hist_fail_receipt = Some false.
Proof. vm_compute. reflexivity. Qed.

(** the unchanged addToMultiTxNotifyMap (flag on): children over two destination chains are all filed
    under the chain of the first one *)
Definition only_dst_first : Defects := Build_Defects false false true false false false false false false false false.
Theorem C05_multitx_dst_first_refuted : prop_on_model 5 only_dst_first w_grp q_grp hist_fail_begin = Some false.
Proof. vm_compute. reflexivity. Qed.

(** the unchanged Report (flag on): a child that already reported SUCCESS sends a FAILURE receipt; the
    group fails, the source rolls everything back, but the destination chain holding the succeeded
    child is not told.  With the repaired code the contradictory receipt is refused and changes
    nothing, and the group can still succeed. *)
Definition only_fail_after_success : Defects := Build_Defects false false false false false false false false false false true.
Definition hist_contradictory : list item :=
  [IBlock [greq 1 2 1 0 1 2; greq 1 3 1 0 1 2]; IBlock [rcp 1 2 1 1]; IBlock [rcp 1 2 1 2]; IBlock [rcp 1 3 1 1]].
Definition q_grp2 : query := Build_query [(1, 2, 1); (1, 3, 1)] [(1, 1, 2)] [] 5.
Theorem C05_fail_after_success_refuted :
  prop_on_model 5 only_fail_after_success w_grp q_grp2 hist_contradictory = Some false /\
  prop_on_model 5 cfg_fixed w_grp q_grp2 hist_contradictory = Some true /\
  option_map (map (fun ob => (map (fun r => fst (fst r)) (o_rc ob), nth 2 (o_st ob) None)))
             (run cfg_fixed w_grp q_grp2 state_init hist_contradictory)
    = Some [([1; 1], Some 0); ([1], Some 0); ([0], Some 0); ([1], Some 3)].
Proof. split; [|split]; vm_compute; reflexivity. Qed.
