(** C20 — ordering delivers each height once, in order, also across faults and restarts; sync ranges
    cover every missing height exactly once, in ascending order.
    Only statements, each closed by [exact]; Examples (non-vacuity); [_refuted] witnesses. *)
From BX Require Import Base.Prelude Model.Ranges Proofs.RangesProofs Model.Order Proofs.OrderProofs.
Local Open Scope N_scope.

(** * Block-synchronisation ranges *)

(** The loop as it is now (after the [fix:] commit): for EVERY uint64 request with begin <= end and
    every fetch > 0 the loop terminates and the ranges are non-empty, ascending, disjoint and cover
    [begin..end] exactly.  No overflow guard. *)
Theorem C20_ranges_partition : forall fetch b e,
  0 < fetch -> b <= e -> e < W64 ->
  exists rs, calc_ranges_fx (N.to_nat (e - b) + 1) fetch b e = ROk rs /\ Ranges.chain b e rs.
Proof. exact ranges_partition_fx. Qed.
Print Assumptions C20_ranges_partition.

Theorem C20_ranges_each_height_once : forall rs b e h, Ranges.chain b e rs ->
  cover_count h rs = if (b <=? h) && (h <=? e) then 1%nat else 0%nat.
Proof. exact chain_cover. Qed.
Print Assumptions C20_ranges_each_height_once.

Theorem C20_ranges_refused : forall fuel fetch b e, e < b -> calc_ranges_fx fuel fetch b e = RErr.
Proof. exact ranges_refused_fx. Qed.
Print Assumptions C20_ranges_refused.

(** what SyncCFTBlocks emits when every range request is answered with its blocks: every height of
    [begin..end] exactly once, ascending *)
Theorem C20_sync_covers_once : forall rs b e, Ranges.chain b e rs -> covers_once b e (sync_emit rs).
Proof. exact sync_emit_interval. Qed.
Print Assumptions C20_sync_covers_once.

(** the loop as it was: partition only under the guard end + fetch < 2^64 ... *)
Theorem C20_ranges_partition_old_guarded : forall fetch b e,
  0 < fetch -> b <= e -> e + fetch < W64 ->
  exists rs, calc_ranges (N.to_nat (e - b) + 1) fetch b e = ROk rs /\ Ranges.chain b e rs.
Proof. exact ranges_partition. Qed.
Print Assumptions C20_ranges_partition_old_guarded.

(** ... and a refutation outside it (uint64 wrap-around: descending first range, no termination) *)
Theorem C20_ranges_overflow_refuted :
  exists fetch b e, 0 < fetch /\ b <= e /\ e < W64 /\
    ranges_loop 6 fetch b e (b / fetch) = None /\ range_end fetch e (b / fetch) < b.
Proof. exact ranges_overflow_refuted. Qed.
Print Assumptions C20_ranges_overflow_refuted.

Example C20_ranges_example :
  calc_ranges_fx 10 5 3 23 = ROk [(3, 5); (6, 10); (11, 15); (16, 20); (21, 23)].
Proof. vm_compute. reflexivity. Qed.

(** the witness of the old defect on the repaired loop *)
Example C20_ranges_example_maxuint :
  calc_ranges_fx 10 4 (W64 - 3) (W64 - 1) = ROk [(W64 - 3, W64 - 1)]
  /\ calc_ranges_fx 10 1 (W64 - 3) (W64 - 1) = ROk [(W64 - 3, W64 - 2); (W64 - 1, W64 - 1)].
Proof. split; vm_compute; reflexivity. Qed.

(** * Raft replica: all interleavings of Append / Ready (Deliver, LeaderChange) / Exec / Report /
    Crash / Propose on one replica.  [rrun ... = Some tr] says that the op sequence is one the
    environment can produce (etcd-raft hands out no gap and nothing that is not stored, only
    executed heights are reported); [tr] is what the driver observes. *)

(** The commit queue is an explicit part of the model: a FIFO with blocking hand-over.  What a step hands
    over is appended in publish order, the executor takes the head, a crash empties it.  [b_ev] of a
    trace is what the consumer takes from Order.Commit(), in that order; the lagging-consumer histories
    of the check (a consumer that stays away while more than the queue's 1024 slots are filled, solo with
    the executor several blocks behind) check "delivery order = publish order, a delivered event never
    changes" on the implementation. *)
Theorem C20_queue_fifo : forall d c lg s op s' o, rstep d c lg s op = Some (s', o) ->
  match op with
  | OExec => queue (ex s') = tl (queue (ex s)) /\ o_ev o = []
  | OCrash _ => queue (ex s') = o_ev o
  | _ => queue (ex s') = queue (ex s) ++ o_ev o
  end.
Proof. exact queue_fifo. Qed.
Print Assumptions C20_queue_fifo.

(** C20_contiguous: in every incarnation the heights handed to the executor are e+1, e+2, ... from
    the executed height the incarnation started with.  For every flag setting and every log.
    (About the order in which the queue hands the events to the consumer: see C20_queue_fifo.) *)
Theorem C20_contiguous : forall d c lg ops tr,
  rrun d c lg (init_sys d c) ops = Some tr -> contiguous (shadow_init (c_init c)) ops tr.
Proof. exact contiguous_all. Qed.
Print Assumptions C20_contiguous.

(** ... each log entry at most once per incarnation: the (ghost) indices of the entries handed over in
    one Ready are strictly increasing and lie in (applied before, applied after], and the applied
    index never goes back except by a crash *)
Theorem C20_entry_once_per_ready : forall d c lg s lo hi app lead s' o,
  rstep d c lg s (OReady lo hi app lead) = Some (s', o) ->
  increasing_after (applied (mem s)) (map fst (o_ev o))
  /\ Forall (fun i => i <= applied (mem s')) (map fst (o_ev o))
  /\ applied (mem s) <= applied (mem s').
Proof. exact ready_entry_once. Qed.
Print Assumptions C20_entry_once_per_ready.

Theorem C20_applied_monotone : forall d c lg s op s' o,
  rstep d c lg s op = Some (s', o) -> (forall bs, op <> OCrash bs) -> applied (mem s) <= applied (mem s').
Proof. exact applied_mono. Qed.
Print Assumptions C20_applied_monotone.

(** C20_replay_skipped: whatever the crash point, nothing at or below the executed height is ever
    handed to the executor again.  For every flag setting and every log. *)
Theorem C20_replay_skipped : forall d c lg ops tr,
  rrun d c lg (init_sys d c) ops = Some tr -> above_executed (shadow_init (c_init c)) ops tr.
Proof. exact above_executed_all. Qed.
Print Assumptions C20_replay_skipped.

(** C20_none_skipped: whenever the replica has applied the log up to index i it has handed over (or found
    executed) every block of the canonical chain of the first i entries.
    Hypotheses: [safe] = repaired restart, or the code as it is on a log without entries from the
    future; [repaired_rest] = no local snapshot ahead of execution and a start-up that fetches what a
    received snapshot still lacks (the code as it is after the [fix:] commits); [glue_ok] = the
    executor announces a block (ExecutedEvent -> feedhub -> Order.ReportState) only after the ledger
    has made it durable: "Report h only after Durable h".  The glue leg of the check runs the real
    executor against the node and evaluates [reports_durable] on what it sees. *)
Theorem C20_none_skipped : forall d c lg ops tr,
  safe d c lg -> repaired_rest d -> glue_ok d ->
  rrun d c lg (init_sys d c) ops = Some tr -> none_skipped (c_init c) lg tr.
Proof. exact none_skipped_all. Qed.
Print Assumptions C20_none_skipped.

(** the glue assumption as a trace predicate: in every run of the model with [glue_ok], every report is
    for a durable height; this is the predicate the glue leg evaluates on the real executor + node *)
Theorem C20_reports_after_durable : forall d c lg ops tr, d_report_early d = false ->
  rrun d c lg (init_sys d c) ops = Some tr -> reports_durable (shadow_init (c_init c)) ops tr.
Proof. exact reports_durable_all. Qed.
Print Assumptions C20_reports_after_durable.

(** every block handed over is the block of the log's canonical chain at its height ... *)
Theorem C20_canonical : forall d c lg ops tr,
  safe d c lg -> repaired_rest d -> glue_ok d ->
  rrun d c lg (init_sys d c) ops = Some tr -> canonical (c_init c) lg tr.
Proof. exact canonical_all. Qed.
Print Assumptions C20_canonical.

(** ... the executed blocks are a prefix of that chain (nothing skipped, nothing twice, across crashes) ... *)
Theorem C20_executed_prefix : forall d c lg ops tr,
  safe d c lg -> repaired_rest d -> glue_ok d ->
  rrun d c lg (init_sys d c) ops = Some tr ->
  is_prefix (executed (shadow_init (c_init c)) ops tr) (canon_blocks (c_init c) lg).
Proof. exact executed_prefix. Qed.
Print Assumptions C20_executed_prefix.

(** C20_same_content: two replicas (different ids, snapshot counts, schedules, crash points) applying the
    same log from the same height hand over identical (height, txs).  The shared log is the
    hypothesis on etcd-raft (log matching): both runs are over the same [lg]. *)
Theorem C20_same_content : forall d c1 c2 lg ops1 ops2 tr1 tr2,
  c_init c1 = c_init c2 -> safe d c1 lg -> repaired_rest d -> glue_ok d ->
  rrun d c1 lg (init_sys d c1) ops1 = Some tr1 -> rrun d c2 lg (init_sys d c2) ops2 = Some tr2 ->
  forall a b, In a (all_events tr1) -> In b (all_events tr2) -> fst a = fst b -> a = b.
Proof. exact same_content. Qed.
Print Assumptions C20_same_content.

(** C20_tx_once_partial: a transaction is in at most one delivered block PROVIDED the batches in the log are
    pairwise disjoint and duplicate-free.  One leader's pool guarantees that for its own proposals
    (C18_no_double); across leader changes nothing in the ordering code does: the new leader's pool
    neither knows the batches of the old leader that are still in flight nor the delivered blocks
    whose ReportState has not arrived, and [justElected] is not consulted when batching
    (finding C20-raft-new-leader-rebatches-delivered-tx). *)
Theorem C20_tx_once_partial : forall init lg tr,
  log_tx_disjoint lg -> canonical init lg tr -> tx_once tr.
Proof. exact tx_once_of_canonical. Qed.
Print Assumptions C20_tx_once_partial.

(** leader change: the Ready that makes the replica leader resets the batch sequence to lastExec;
    justElected stays set exactly while stored entries are in flight *)
Theorem C20_new_leader_seq : forall d c lg s lo hi app l s' o,
  rstep d c lg s (OReady lo hi app (Some l)) = Some (s', o) ->
  l = c_id c -> l <> leader (mem s) ->
  seqNo (mem s') = lastExec (mem s') /\ leader (mem s') = c_id c
  /\ justElected (mem s') = (applied (mem s') + 1 <? app).
Proof. exact new_leader_seq. Qed.
Print Assumptions C20_new_leader_seq.

Theorem C20_new_leader_seq_trace : forall d c lg ops tr,
  rrun d c lg (init_sys d c) ops = Some tr -> leader_seq (c_id c) 0 ops tr.
Proof. exact leader_seq_all. Qed.
Print Assumptions C20_new_leader_seq_trace.

(** the index check of publishEntries is needed only strictly below the recorded applied index: with
    `>` instead of `>=` ([rstep_lt]) every run from the initial state is the same (the mutation is an
    equivalent mutant; the check cannot and need not report it) *)
Theorem C20_index_check_equality_redundant : forall d c lg ops,
  d_report_early d = false ->
  rrun_lt d c lg (init_sys d c) ops = rrun d c lg (init_sys d c) ops.
Proof. exact index_check_equality_redundant. Qed.
Print Assumptions C20_index_check_equality_redundant.

(** * Solo *)
Theorem C20_solo_contiguous : forall d init ops,
  solo_contiguous (shadow_init init) ops (srun d (init_ssys init) ops).
Proof. intros d init ops. apply solo_contiguous_all. apply sshadow_init_ok. Qed.
Print Assumptions C20_solo_contiguous.

Theorem C20_solo_reported_leave_pool : forall d ops init,
  d_solo_commit10 d = false -> solo_commits ops (srun d (init_ssys init) ops).
Proof. intros d ops init H. apply solo_commits_all. exact H. Qed.
Print Assumptions C20_solo_reported_leave_pool.

(** * Reflection: the boolean predicates the judge evaluates are the predicates of the theorems *)
Theorem C20_reflect_contiguous : forall ops sh tr, contiguous_b sh ops tr = true <-> contiguous sh ops tr.
Proof. exact contiguous_b_spec. Qed.
Theorem C20_reflect_canonical : forall init lg tr, canonical_b init lg tr = true <-> canonical init lg tr.
Proof. exact canonical_b_spec. Qed.
Theorem C20_reflect_prefix : forall a b, is_prefix_b a b = true <-> is_prefix a b.
Proof. exact is_prefix_b_spec. Qed.
Theorem C20_reflect_none_skipped : forall init lg tr, none_skipped_b init lg tr = true <-> none_skipped init lg tr.
Proof. exact none_skipped_b_spec. Qed.
Theorem C20_reflect_tx_once : forall tr, tx_once_b tr = true <-> tx_once tr.
Proof. exact tx_once_b_spec. Qed.
Theorem C20_reflect_above_executed : forall ops sh tr, above_executed_b sh ops tr = true <-> above_executed sh ops tr.
Proof. exact above_executed_b_spec. Qed.
Theorem C20_reflect_leader_seq : forall id ops pl tr, leader_seq_b id pl ops tr = true <-> leader_seq id pl ops tr.
Proof. exact leader_seq_b_spec. Qed.
Theorem C20_reflect_reports_durable : forall ops sh tr, reports_durable_b sh ops tr = true <-> reports_durable sh ops tr.
Proof. exact reports_durable_b_spec. Qed.
Theorem C20_reflect_solo_contiguous : forall ops sh tr, solo_contiguous_b sh ops tr = true <-> solo_contiguous sh ops tr.
Proof. exact solo_contiguous_b_spec. Qed.
Theorem C20_reflect_solo_commits : forall ops tr, solo_commits_b ops tr = true <-> solo_commits ops tr.
Proof. exact solo_commits_b_spec. Qed.
Theorem C20_reflect_nogap : forall l c, nogap_from_b c l = true <-> nogap_from c l.
Proof. exact nogap_from_b_spec. Qed.
Print Assumptions C20_reflect_contiguous.

(** * Witnesses *)
Definition w_cfg : rcfg := {| c_id := 1; c_snap := 1000; c_init := 1 |}.
(** a log with a batch from the future at index 2 *)
Definition w_log : rlog := [EBatch 2 [100]; EBatch 4 [300]; EBatch 3 [101]; EBatch 4 [102]].
(** deliver 1..3, execute both blocks, crash before any report, replay *)
Definition w_ops : list rop :=
  [OAppend; OAppend; OAppend; OAppend; OReady 1 3 3 (Some 2); OExec; OExec; OCrash []; OReady 1 4 4 None].

(** the faithful restart hands over the stale batch as block 4: other replicas get [102] *)
Theorem C20_restart_height_only_refuted :
  exists tr, rrun only_restart w_cfg w_log (init_sys only_restart w_cfg) w_ops = Some tr
             /\ canonical_b (c_init w_cfg) w_log tr = false
             /\ In (4, [300]) (all_events tr).
Proof. eexists. split; [vm_compute; reflexivity|]. split; [vm_compute; reflexivity|]. vm_compute. tauto. Qed.
Print Assumptions C20_restart_height_only_refuted.

(** non-vacuity of the main theorems: the same history on the repaired restart (a log WITH a
    gap, crash between execute and report) is a run, and hands over [102] *)
Example C20_example_fixed :
  exists tr, rrun cfg_fixed w_cfg w_log (init_sys cfg_fixed w_cfg) w_ops = Some tr
             /\ raft_prop_b (c_init w_cfg) (c_id w_cfg) w_log w_ops tr = 0
             /\ all_events tr = [(2, [100]); (3, [101]); (4, [102])]
             /\ safe cfg_fixed w_cfg w_log.
Proof.
  eexists. split; [vm_compute; reflexivity|]. split; [vm_compute; reflexivity|].
  split; [vm_compute; reflexivity|]. left. reflexivity.
Qed.

(** non-vacuity of the characterisation (the code as it is, log without entries from the future):
    stale duplicates, a crash with the report lagging, replay *)
Definition w_log2 : rlog := [EBatch 2 [100]; EBatch 2 [200]; EBatch 3 [101]; EEmpty; EBatch 3 [300]; EBatch 4 [102]].
Definition w_ops2 : list rop :=
  [OAppend; OAppend; OAppend; OAppend; OAppend; OAppend; OReady 1 3 5 (Some 1); OExec; OReport 2; OExec; OCrash [];
   OReady 1 6 6 (Some 1); OPropose 2; OExec; OReport 4; OCrash []; OReady 1 6 6 None].
Example C20_example_current :
  exists tr, rrun only_restart w_cfg w_log2 (init_sys only_restart w_cfg) w_ops2 = Some tr
             /\ raft_prop_b (c_init w_cfg) (c_id w_cfg) w_log2 w_ops2 tr = 0
             /\ all_events tr = [(2, [100]); (3, [101]); (4, [102])]
             /\ safe only_restart w_cfg w_log2.
Proof.
  eexists. split; [vm_compute; reflexivity|]. split; [vm_compute; reflexivity|].
  split; [vm_compute; reflexivity|]. right. apply nogap_from_b_spec. vm_compute. reflexivity.
Qed.

(** snapshot ahead of execution (the defect repaired by the [fix:] commit): blocks 3 and 4 are lost *)
Definition w_cfg_s : rcfg := {| c_id := 1; c_snap := 2; c_init := 1 |}.
Definition w_log_s : rlog := [EBatch 2 [100]; EBatch 3 [101]; EBatch 4 [102]; EBatch 5 [103]].
Definition w_ops_s : list rop :=
  [OAppend; OAppend; OAppend; OAppend; OReady 1 3 3 None; OExec; OCrash []; OReady 4 4 4 None].
(** flags of the code before both [fix:] commits: snapshot without the guard, start-up without the fetch *)
Definition snap_old : Defects := mkD false true false true false.
Theorem C20_snap_unexecuted_refuted :
  exists tr, rrun snap_old w_cfg_s w_log_s (init_sys snap_old w_cfg_s) w_ops_s = Some tr
             /\ none_skipped_b (c_init w_cfg_s) w_log_s tr = false.
Proof. eexists. split; vm_compute; reflexivity. Qed.
Print Assumptions C20_snap_unexecuted_refuted.

Example C20_example_snap_fixed :
  exists tr, rrun cfg_fixed w_cfg_s w_log_s (init_sys cfg_fixed w_cfg_s)
               [OAppend; OAppend; OAppend; OAppend; OReady 1 3 3 None; OExec; OCrash []; OReady 1 4 4 None] = Some tr
             /\ none_skipped_b (c_init w_cfg_s) w_log_s tr = true
             /\ all_events tr = [(2, [100]); (3, [101]); (4, [102]); (3, [101]); (4, [102]); (5, [103])].
Proof. eexists. split; [vm_compute; reflexivity|]. split; vm_compute; reflexivity. Qed.

(** a snapshot received from the leader, a crash before its blocks are executed: without the start-up
    fetch (the defect repaired by the [fix:] commit) blocks 4 and 5 are lost *)
Definition w_log_i : rlog := [EBatch 2 [100]; EBatch 3 [101]; EBatch 4 [102]; EBatch 5 [103]; EBatch 6 [104]].
Definition w_ops_i (resync : list (N * blk)) : list rop :=
  [OAppend; OAppend; OAppend; OAppend; OAppend; OReady 1 1 1 (Some 2);
   OSnapIn 4 [(2, (3, [101])); (3, (4, [102])); (4, (5, [103]))]; OExec; OExec; OCrash resync; OReady 5 5 5 None].
Theorem C20_snapin_lost_refuted :
  exists tr, rrun only_snapin w_cfg w_log_i (init_sys only_snapin w_cfg) (w_ops_i []) = Some tr
             /\ none_skipped_b (c_init w_cfg) w_log_i tr = false.
Proof. eexists. split; vm_compute; reflexivity. Qed.
Print Assumptions C20_snapin_lost_refuted.

Example C20_example_snapin_fixed :
  exists tr, rrun cfg_fixed w_cfg w_log_i (init_sys cfg_fixed w_cfg) (w_ops_i [(3, (4, [102])); (4, (5, [103]))]) = Some tr
             /\ raft_prop_b (c_init w_cfg) (c_id w_cfg) w_log_i (w_ops_i [(3, (4, [102])); (4, (5, [103]))]) tr = 0
             /\ all_events tr = [(2, [100]); (3, [101]); (4, [102]); (5, [103]); (4, [102]); (5, [103]); (6, [104])].
Proof. eexists. split; [vm_compute; reflexivity|]. split; vm_compute; reflexivity. Qed.

(** the executor announces block 3 while the ledger is still writing it, the node records the applied
    index of block 3, the process dies: on restart lastExec = 2, the recorded index covers the entry of
    block 3, the replay skips it and ignores everything behind it (out-of-order reports included:
    ReportState(3) arrives before ReportState(2)) *)
Definition w_log_g : rlog := [EEmpty; EBatch 2 []; EBatch 3 []; EBatch 4 []; EBatch 5 []].
Definition w_ops_g : list rop :=
  [OAppend; OAppend; OAppend; OAppend; OAppend; OReady 1 5 5 (Some 2); OExec; OReport 3; OReport 2; OCrash []; OReady 1 5 5 None].
(** the code as it is (restart from the persisted applied index) plus the early report; the log has no
    entry from the future, so [safe] holds: [glue_ok] is what fails *)
Definition current_early : Defects := mkD true false false false true.
Theorem C20_report_early_refuted :
  exists tr, rrun current_early w_cfg w_log_g (init_sys current_early w_cfg) w_ops_g = Some tr
             /\ none_skipped_b (c_init w_cfg) w_log_g tr = false
             /\ reports_durable_b (shadow_init (c_init w_cfg)) w_ops_g tr = false
             /\ all_events tr = [(2, []); (3, []); (4, []); (5, [])]
             /\ safe current_early w_cfg w_log_g.
Proof.
  eexists. split; [vm_compute; reflexivity|]. split; [vm_compute; reflexivity|]. split; [vm_compute; reflexivity|].
  split; [vm_compute; reflexivity|]. right. apply nogap_from_b_spec. vm_compute. reflexivity.
Qed.
Print Assumptions C20_report_early_refuted.

(** the same schedule with the report of block 3 after it is durable is fine; with the flag off the
    early report is not a step of the system at all *)
Example C20_example_glue_ok :
  rrun cfg_fixed w_cfg w_log_g (init_sys cfg_fixed w_cfg) w_ops_g = None
  /\ exists tr, rrun cfg_fixed w_cfg w_log_g (init_sys cfg_fixed w_cfg)
                  [OAppend; OAppend; OAppend; OAppend; OAppend; OReady 1 5 5 (Some 2); OExec; OExec; OReport 3; OReport 2; OCrash []; OReady 1 5 5 None] = Some tr
                /\ raft_prop_all_b (c_init w_cfg) (c_id w_cfg) w_log_g
                     [OAppend; OAppend; OAppend; OAppend; OAppend; OReady 1 5 5 (Some 2); OExec; OExec; OReport 3; OReport 2; OCrash []; OReady 1 5 5 None] tr = 0
                /\ all_events tr = [(2, []); (3, []); (4, []); (5, []); (4, []); (5, [])].
Proof. split; [vm_compute; reflexivity|]. eexists. split; [vm_compute; reflexivity|]. split; vm_compute; reflexivity. Qed.

(** two transactions in one log, no hypothesis on the log: tx_once needs [log_tx_disjoint] *)
Theorem C20_tx_once_needs_disjoint_log :
  exists lg ops tr, rrun cfg_fixed w_cfg lg (init_sys cfg_fixed w_cfg) ops = Some tr
                    /\ canonical_b (c_init w_cfg) lg tr = true /\ tx_once_b tr = false.
Proof.
  exists [EBatch 2 [100]; EBatch 3 [100; 200]], [OAppend; OAppend; OReady 1 2 2 None]. eexists.
  split; [vm_compute; reflexivity|]. split; vm_compute; reflexivity.
Qed.

(** solo *)
Theorem C20_solo_commit10_refuted :
  solo_commits_b [STx 100; SExec; SReport 2] (srun only_solo10 (init_ssys 1) [STx 100; SExec; SReport 2]) = false.
Proof. vm_compute. reflexivity. Qed.

Example C20_solo_example :
  map so_ev (srun cfg_fixed (init_ssys 8) [STx 100; STx 200; SExec; SReport 9; SInject 12 [300]; STx 400; SCrash; STx 500])
  = [[(9, [100])]; [(10, [200])]; []; []; []; []; []; [(10, [500])]].
Proof. vm_compute. reflexivity. Qed.
