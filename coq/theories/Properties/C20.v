(** C20 — ordering delivers each height once, in order; sync ranges cover every missing
    height exactly once, in ascending order.  Only statements, each closed by [exact]. *)
From BX Require Import Base.Prelude Model.Ranges Proofs.RangesProofs.
Local Open Scope N_scope.

(** Block-synchronisation ranges: for every admissible request the loop terminates and the
    ranges are non-empty, ascending, disjoint and cover [begin..end] exactly. *)
Theorem C20_ranges_partition : forall fetch b e,
  0 < fetch -> b <= e -> e + fetch < W64 ->
  exists rs, calc_ranges (N.to_nat (e - b) + 1) fetch b e = ROk rs /\ chain b e rs.
Proof. exact ranges_partition. Qed.
Print Assumptions C20_ranges_partition.

Theorem C20_ranges_each_height_once : forall rs b e h, chain b e rs ->
  cover_count h rs = if (b <=? h) && (h <=? e) then 1%nat else 0%nat.
Proof. exact chain_cover. Qed.
Print Assumptions C20_ranges_each_height_once.

Theorem C20_ranges_refused : forall fuel fetch b e, e < b -> calc_ranges fuel fetch b e = RErr.
Proof. exact ranges_refused. Qed.
Print Assumptions C20_ranges_refused.

(** outside the guard the property fails on the faithful model (uint64 wrap-around) *)
Theorem C20_ranges_overflow_refuted :
  exists fetch b e, 0 < fetch /\ b <= e /\ e < W64 /\
    ranges_loop 6 fetch b e (b / fetch) = None /\ range_end fetch e (b / fetch) < b.
Proof. exact ranges_overflow_refuted. Qed.
Print Assumptions C20_ranges_overflow_refuted.

(** non-vacuity: a concrete admissible request *)
Example C20_ranges_example :
  calc_ranges 10 5 3 23 = ROk [(3, 5); (6, 10); (11, 15); (16, 20); (21, 23)].
Proof. vm_compute. reflexivity. Qed.
