(** C11 — the ledger recovers to a consistent height after a crash at any persist point.
    Statements only, each closed by [exact].  Model: [Model/Crash.v] (eight durable write units
    of one block commit with the order the code imposes, crash = disk after any set of them,
    restart = NewBlockFile.repair + loadChainMeta + NewSimpleLedger + ledger.New's
    Rollback(meta.Height)) on top of [Model/ChainLedger.v].  [sane bs l] is the invariant "the
    live ledger [l] is what committing the blocks [bs] produces": block store, index store and
    state store mutually consistent at height |bs| ([C11_sane_observable]). *)
From BX Require Import Base.Prelude Model.ChainLedger Model.Crash Proofs.ChainLedgerProofs Proofs.CrashProofs.
Local Open Scope N_scope.

(** the invariant holds initially and is preserved by every uninterrupted commit: induction
    over the committed history, any height, genesis and pruning heights included *)
Theorem C11_sane_init : forall hash_hdr root sroot, sane hash_hdr root sroot [] ledger_empty.
Proof. exact sane_empty. Qed.
Print Assumptions C11_sane_init.

Theorem C11_commit_preserves : forall (hash_hdr : header -> N) (root : list N -> N) (sroot : N -> N -> N),
  (forall a b, hash_hdr a = hash_hdr b -> a = b) ->
  forall bs l b, sane hash_hdr root sroot bs l -> wf_blocks (bs ++ [b]) ->
  exists l', commit hash_hdr root sroot l b = Some l' /\ sane hash_hdr root sroot (bs ++ [b]) l'.
Proof. exact commit_sane. Qed.
Print Assumptions C11_commit_preserves.

(** the characterisation: for EVERY set [S] of durable units of the commit of [b] (the
    order-ideals of [before] are a special case: [C11_ideals]), the restart succeeds with a
    ledger that is consistent at the previous or the new height and continues to the same
    chain as a node that never crashed  <->  [S] is in [Good] *)
Theorem C11_recover_characterisation : forall (hash_hdr : header -> N) (root : list N -> N) (sroot : N -> N -> N),
  (forall a b, hash_hdr a = hash_hdr b -> a = b) ->
  forall bs b post l (S : uset),
  sane hash_hdr root sroot bs l -> wf_blocks (bs ++ b :: post) ->
  (Good S = true <->
   exists l', recover (crash hash_hdr root sroot S l b) = RecOk l' /\
              (sane hash_hdr root sroot bs l' \/ sane hash_hdr root sroot (bs ++ [b]) l') /\
              exists l2, continue_from hash_hdr root sroot l' (bs ++ b :: post) = Some l2 /\
                         sane hash_hdr root sroot (bs ++ b :: post) l2).
Proof. exact recover_characterisation. Qed.
Print Assumptions C11_recover_characterisation.

(** outside [Good], exactly two things happen (the findings): A the restart fails with
    "rollback to higher blockchain height" (index batch durable, state batch lost); C it
    succeeds at the new height with the head block unreadable (index batch durable, blockfile
    append incomplete) and the next AppendBlock is refused, which kills the process *)
Theorem C11_bad_classes : forall (hash_hdr : header -> N) (root : list N -> N) (sroot : N -> N -> N),
  forall bs l b (S : uset), sane hash_hdr root sroot bs l -> wf_blocks (bs ++ [b]) -> Good S = false ->
  (recover (crash hash_hdr root sroot S l b) = RecErr 1 /\ S UIndex = true /\ S UState = false) \/
  (exists l', recover (crash hash_hdr root sroot S l b) = RecOk l' /\
              ~ sane hash_hdr root sroot bs l' /\ ~ sane hash_hdr root sroot (bs ++ [b]) l' /\
              (forall b', commit hash_hdr root sroot l' b' = None) /\
              S UIndex = true /\ S UState = true /\ bf_complete S = false /\ height l' = tlen bs + 1 /\
              bf_blocks (dk_bf (l_disk l')) = tlen bs /\
              get_block (chain_view l') (height l') true = RFail).
Proof. exact recover_bad. Qed.
Print Assumptions C11_bad_classes.

(** what the invariant means for an observer: every chain lookup is the expected one for the
    blocks committed (hence head readable, chain invariant: C09), the state version is the
    height, the running state root is the root after the last block (= the head's state root),
    the state data are exactly the deltas of the committed blocks; two sane ledgers of the
    same history are indistinguishable: "the same chain as a node that never crashed" *)
Theorem C11_sane_observable : forall hash_hdr root sroot U bs l, sane hash_hdr root sroot bs l ->
  observe_ledger U l = mkLobs (expected U (entries_of hash_hdr root sroot bs)) (tlen bs)
                              (state_root_of sroot bs) (rev (map bs_delta bs)).
Proof. exact sane_observe. Qed.
Print Assumptions C11_sane_observable.

(** whatever reached the disk (good or bad), every block up to the old head is still there,
    unchanged, after the blockfile repair of a restart *)
Theorem C11_no_loss_below_head : forall (hash_hdr : header -> N) (root : list N -> N) (sroot : N -> N -> N),
  (forall a b, hash_hdr a = hash_hdr b -> a = b) ->
  forall bs l b (S : uset) h, sane hash_hdr root sroot bs l -> wf_blocks (bs ++ [b]) -> h <= tlen bs ->
  observe_h cfg_fixed (restart_view (crash hash_hdr root sroot S l b)) h = expected_h (entries_of hash_hdr root sroot bs) h /\
  observe_h cfg_fixed (restart_view (crash hash_hdr root sroot S l b)) h = observe_h cfg_fixed (chain_view l) h.
Proof. exact no_loss_below_head. Qed.
Print Assumptions C11_no_loss_below_head.

(** restarting is idempotent.  A clean restart of a sane ledger (ledger.New on its disk) succeeds,
    leaves the disk unchanged, gives a sane ledger again, and the read-only view ledger
    (a second NewSimpleLedger on the same state store, as internal/app creates it right after
    ledger.New) opens too *)
Theorem C11_restart_sane : forall (hash_hdr : header -> N) (root : list N -> N) (sroot : N -> N -> N) hs l,
  sane hash_hdr root sroot hs l ->
  exists l2, recover (l_disk l) = RecOk l2 /\ sane hash_hdr root sroot hs l2 /\ l_disk l2 = l_disk l /\
             state_open (dk_state (l_disk l2)) <> None.
Proof. exact restart_sane. Qed.
Print Assumptions C11_restart_sane.

(** after a crash in [Good]: the second start-up succeeds on the disk the first one left
    (genesis included: the stale on-disk minHeight after a rollback to 0 must not matter),
    leaves it unchanged, every later start-up gives exactly the same ledger, the ledgers are
    indistinguishable, and the view ledger opens *)
Theorem C11_recover_idempotent : forall (hash_hdr : header -> N) (root : list N -> N) (sroot : N -> N -> N),
  (forall a b, hash_hdr a = hash_hdr b -> a = b) ->
  forall bs l b (S : uset), sane hash_hdr root sroot bs l -> wf_blocks (bs ++ [b]) -> Good S = true ->
  exists l1 l2, recover (crash hash_hdr root sroot S l b) = RecOk l1 /\
                recover (l_disk l1) = RecOk l2 /\ l_disk l2 = l_disk l1 /\
                recover (l_disk l2) = RecOk l2 /\
                (forall U, observe_ledger U l2 = observe_ledger U l1) /\
                state_open (dk_state (l_disk l1)) <> None.
Proof. exact recover_idempotent. Qed.
Print Assumptions C11_recover_idempotent.

(** the predicate the judge evaluates on outcomes ([outcome_ok_b]: restart succeeded, restarted
    ledger consistent in itself and equal to the uncrashed one at n or n+1, continuation
    reached the end with the uncrashed observations), evaluated on the MODEL's own experiment (death after S, TWO start-ups in a row each with the view ledger, continuation)
    with the model's own uncrashed references, is [Good S] -- for every pre-history, block,
    continuation and unit set whose universe reaches the final height *)
Theorem C11_judge_predicate : forall (hash_hdr : header -> N) (root : list N -> N) (sroot : N -> N -> N),
  (forall a b, hash_hdr a = hash_hdr b -> a = b) ->
  forall U pre b post (S : uset),
  let all := pre ++ b :: post in
  wf_blocks all -> (length all <= u_kh U)%nat ->
  exists o, experiment hash_hdr root sroot U pre b post S = Some o /\
            outcome_ok_b hash_hdr root (reference hash_hdr root sroot U all (length pre))
                         (reference hash_hdr root sroot U all (Datatypes.S (length pre)))
                         (reference hash_hdr root sroot U all (length all)) o = Good S.
Proof. exact experiment_judge. Qed.
Print Assumptions C11_judge_predicate.

Theorem C11_ideals : forall S, ideal_b S = true <-> ideal S.
Proof. exact ideal_b_spec. Qed.
Print Assumptions C11_ideals.

(** * Non-vacuity and concrete findings.  A small header hash that is injective on the headers
    that occur (the toy injective hash of C09 squares its size with every block; the theorems
    above are about any injective function) *)
Definition ex_hh (h : header) : N :=
  1 + h_number h * 1000003 + (h_parent h * 3 + h_state h * 7 + h_txroot h * 13 + h_rcroot h * 17) mod 1000003.
Definition ex_rt (l : list N) : N := fold_right (fun x acc => (1 + x + 31 * acc) mod 1000003) 0 l.
Definition ex_sr (p d : N) : N := 1 + (p * 31 + d * 7) mod 1000003.
Definition ex_block (k : N) : bspec := mkBS [100 * k + 1; 100 * k + 2] [100 * k + 51; 100 * k + 52] ([(1, [k])], 0) (1000 + k).
Definition ex_blocks (n : nat) : list bspec := map (fun i => ex_block (N.of_nat i)) (seq 1 n).
Definition ex_U := mkU 15 [] [101; 1201; 1302; 77].
(** units as bits: 1 State, 2 Prune, 4 Index, 8..128 the blockfile tables *)
Definition ex_run_with (trunc : bool) (n : nat) (units : N) : option outcome :=
  experiment_with ex_hh ex_rt ex_sr trunc ex_U (ex_blocks n) (ex_block (N.of_nat (S n))) [ex_block (N.of_nat (S (S n)))] (uset_of units).
Definition ex_ok_with (trunc : bool) (n : nat) (units : N) : bool :=
  let all := ex_blocks (S (S n)) in
  match ex_run_with trunc n units with
  | Some o => outcome_ok_b ex_hh ex_rt (reference ex_hh ex_rt ex_sr ex_U all n) (reference ex_hh ex_rt ex_sr ex_U all (S n))
                           (reference ex_hh ex_rt ex_sr ex_U all (S (S n))) o
  | None => false
  end.
Definition ex_run := ex_run_with true.
Definition ex_ok := ex_ok_with true.
Fixpoint ideals_upto (k : nat) : list N :=
  match k with O => [] | S j => ideals_upto j ++ (if ideal_b (uset_of (N.of_nat j)) then [N.of_nat j] else []) end.

(** there are 36 order-ideals; at genesis (1), an ordinary height (2) and the pruning heights
    (11: no prune batch yet, 12: first prune batch) the judge's predicate on the model's
    outcome is true exactly on [Good] (and, for the tree as pinned, exactly on [Good_pinned]) *)
Example C11_ideal_count : length (ideals_upto 256) = 36%nat.
Proof. vm_compute. reflexivity. Qed.
Example C11_example_all_ideals :
  forallb (fun n => forallb (fun u => Bool.eqb (ex_ok n u) (Good (uset_of u))) (ideals_upto 256)) [0; 1; 10; 11]%nat = true.
Proof. vm_compute. reflexivity. Qed.
Example C11_example_all_ideals_pinned :
  forallb (fun n => forallb (fun u => Bool.eqb (ex_ok_with false n u) (Good_pinned (uset_of u))) (ideals_upto 256)) [0; 1; 10; 11]%nat = true.
Proof. vm_compute. reflexivity. Qed.

(** concrete (height, S) for each bad class, and good ones *)
Example C11_finding_A : (* height 12: index batch + blockfile durable, state batch lost *)
  option_map oc_rec (ex_run 11 (4 + 248)) = Some 1 /\ Good (uset_of (4 + 248)) = false.
Proof. vm_compute. split; reflexivity. Qed.
Example C11_finding_C : (* height 1 (genesis): state + index durable, interchain table missing *)
  option_map (fun o => (oc_rec o, oc_cont o)) (ex_run 0 (1 + 4 + 120)) = Some (0, 9) /\
  ex_ok 0 (1 + 4 + 120) = false /\ Good (uset_of (1 + 4 + 120)) = false.
Proof. vm_compute. repeat split; reflexivity. Qed.
Example C11_good_examples :
  ex_ok 11 255 = true /\ ex_ok 11 (1 + 4 + 248) = true (* prune batch lost *) /\
  ex_ok 11 (1 + 2 + 56) = true (* state + prune durable, rolled back to 11 *) /\ ex_ok 0 1 = true /\ ex_ok 0 0 = true /\
  ex_ok 1 (1 + 248) = true (* blockfile complete, index lost: the unindexed block is dropped *).
Proof. vm_compute. repeat split; reflexivity. Qed.

(** the defect repaired in /repo (class B): on the tree as pinned a complete blockfile append
    without the index batch restarts at height n with n+1 blocks in the blockfile and the
    next AppendBlock is refused *)
Theorem C11_bf_ahead_refuted : (* height 2: state batch + blockfile durable, index batch lost *)
  option_map (fun o => (oc_rec o, oc_cont o)) (ex_run_with false 1 (1 + 248)) = Some (0, 9) /\
  ex_ok_with false 1 (1 + 248) = false /\ ex_ok_with true 1 (1 + 248) = true.
Proof. vm_compute. repeat split; reflexivity. Qed.
Print Assumptions C11_bf_ahead_refuted.
