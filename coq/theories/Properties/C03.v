(** C03 — only IBTPs whose proof was verified for their origin can change state.
    Only statements, each closed by [exact].  The rule engine ([rule_validate]), signature
    recovery ([recover]) and the two hash functions ([H] = sha256 of the proof bytes, [digest] =
    EncodePackedAndHash) are universally quantified oracles. *)
From Coq Require Import String.
From BX Require Import Base.Prelude Model.Fees Model.ExecFrame Model.ProofCheck Model.Sites Model.Packed
  Proofs.ExecFrameProofs Proofs.ProofCheckProofs Proofs.PackedProofs.
Local Open Scope N_scope.

(** an IBTP transaction whose proof check says anything but OK (absent, hash mismatch, unknown
    chain, no available rule, rule error, rule "false", too few / duplicate / unregistered
    signers) gets a FAILED receipt, changes nothing but the sender's nonce and the fee, and
    announces nothing *)
Theorem C03_unverified_frame :
  forall (H : N -> N) (digest : N -> N -> N) (rule_validate : N -> N -> N -> N -> N -> option bool)
         (recover : N -> N -> option N),
  forall c e idx s st ib pd t s' rc cnt,
  d_stale_changer c = false -> d_prev_from_memory c = false -> d_revert_drops_tombstone c = false ->
  d_fee_after_body (x_fees c) = false ->
  verify_proof H digest rule_validate recover st ib pd <> VOk ->
  apply_tx c e idx s (checked H digest rule_validate recover st ib pd t) = (s', rc, cnt) ->
  r_ok rc = false /\
  frame_ok e s s' (checked H digest rule_validate recover st ib pd t) /\
  (d_failed_events c = false -> cnt = []).
Proof. exact unverified_frame. Qed.
Print Assumptions C03_unverified_frame.

(** acceptance of an IBTP relayed from another relay chain implies more than (n-1)/3 signatures
    by DISTINCT registered validators of that chain over (ibtp, status) *)
Theorem C03_multisig_threshold :
  forall (H : N -> N) (digest : N -> N -> N) (rule_validate : N -> N -> N -> N -> N -> option bool)
         (recover : N -> N -> option N),
  forall st ib p dec,
  fst (origin ib) <> ps_bxh st ->
  verify_proof H digest rule_validate recover st ib (PdBytes p dec) = VOk ->
  exists app vs bp l,
    ps_chains st (fst (origin ib)) = Some app /\ a_validators app = Some vs /\ dec = Some bp /\
    NoDup l /\ incl l vs /\
    (forall a, In a l -> exists s, In s (bp_sigs bp) /\ recover s (digest (ib_id ib) (bp_status bp)) = Some a) /\
    (Z.of_nat (List.length l) > Z.quot (Z.of_nat (List.length vs) - 1) 3)%Z.
Proof. exact multisig_threshold. Qed.
Print Assumptions C03_multisig_threshold.

(** what the validators sign, made concrete.  [utils.EncodePackedAndHash] packs
    From ++ To ++ be8(Index) ++ be8(Type) ++ Payload.Hash ++ be8(TxStatus) and hashes it
    ([Model/Packed.v], bytes as numbers, no oracle).  With fixed-width integers the packing is
    injective on well-formed field tuples whose From++To and hash have equal lengths ... *)
Theorem C03_encode_inj : forall f g, pf_ok f -> pf_ok g ->
  length (pf_fromto f) = length (pf_fromto g) -> length (pf_hash f) = length (pf_hash g) ->
  encode f = encode g -> f = g.
Proof. exact encode_inj. Qed.
Print Assumptions C03_encode_inj.

(** ... so, for any collision-free hash, a signature over the digest of (IBTP i, status s) is a
    signature over no other (IBTP, status) ... *)
Theorem C03_packed_digest_binds : forall (hash : list N -> N) (fields_of : N -> pfields),
  (forall a b, hash a = hash b -> a = b) ->
  forall i s i' s', pf_ok (with_status (fields_of i) s) -> pf_ok (with_status (fields_of i') s') ->
  length (pf_fromto (fields_of i)) = length (pf_fromto (fields_of i')) ->
  length (pf_hash (fields_of i)) = length (pf_hash (fields_of i')) ->
  packed_digest hash fields_of i s = packed_digest hash fields_of i' s' ->
  with_status (fields_of i) s = with_status (fields_of i') s'.
Proof. exact packed_digest_binds. Qed.
Print Assumptions C03_packed_digest_binds.

(** ... and the multi-signature theorem holds with exactly this digest in place of the abstract one *)
Theorem C03_multisig_threshold_packed :
  forall (H : N -> N) (hash : list N -> N) (fields_of : N -> pfields)
         (rule_validate : N -> N -> N -> N -> N -> option bool) (recover : N -> N -> option N) st ib p dec,
  fst (origin ib) <> ps_bxh st ->
  verify_proof H (packed_digest hash fields_of) rule_validate recover st ib (PdBytes p dec) = VOk ->
  exists app vs bp l,
    ps_chains st (fst (origin ib)) = Some app /\ a_validators app = Some vs /\ dec = Some bp /\
    NoDup l /\ incl l vs /\
    (forall a, In a l -> exists s, In s (bp_sigs bp) /\
                         recover s (hash (encode (with_status (fields_of (ib_id ib)) (bp_status bp)))) = Some a) /\
    (Z.of_nat (List.length l) > Z.quot (Z.of_nat (List.length vs) - 1) 3)%Z.
Proof. exact multisig_threshold_packed. Qed.
Print Assumptions C03_multisig_threshold_packed.

(** minimal-length integers instead of 8-byte words (not what the code does): expected refutation -
    request 257 of type INTERCHAIN and a RECEIPT (type 1) for request 1 share one pre-image *)
Theorem C03_encode_min_refuted :
  encode_min f_req257 = encode_min f_rcpt1 /\ f_req257 <> f_rcpt1 /\ encode f_req257 <> encode f_rcpt1.
Proof. exact encode_min_refuted. Qed.
Print Assumptions C03_encode_min_refuted.

(** the counting loop itself, by induction over the signature list with the shrinking set *)
Theorem C03_ms_loop_sound :
  forall (H : N -> N) (digest : N -> N -> N) (rule_validate : N -> N -> N -> N -> N -> option bool)
         (recover : N -> N -> option N) sigs m d c thr,
  ms_loop recover m sigs d c thr = true ->
  exists l, NoDup l /\ incl l m /\
            (forall a, In a l -> exists s, In s sigs /\ recover s d = Some a) /\
            (c + Z.of_nat (List.length l) > thr)%Z.
Proof. exact ms_loop_sound. Qed.
Print Assumptions C03_ms_loop_sound.

(** the rule consulted is the first AVAILABLE rule of the claimed chain in the current state *)
Theorem C03_master_rule_current :
  forall (H : N -> N) (digest : N -> N -> N) (rule_validate : N -> N -> N -> N -> N -> option bool)
         (recover : N -> N -> option N),
  forall st ib p dec,
  fst (origin ib) = ps_bxh st ->
  verify_proof H digest rule_validate recover st ib (PdBytes p dec) = VOk ->
  H p = ib_proofhash ib /\
  exists app r,
    ps_chains st (snd (origin ib)) = Some app /\
    master_rule st (snd (origin ib)) = Some r /\ r_available r = true /\ In r (ps_rules st (snd (origin ib))) /\
    rule_validate (r_addr r) (snd (origin ib)) p (ib_id ib) (a_trust app) = Some true.
Proof. exact master_rule_current. Qed.
Print Assumptions C03_master_rule_current.

(** ... where "current" means: bound in the state committed by the PREVIOUS BLOCK of this node,
    whatever the node did before.  The proof pool is an object of the node; its lookups go
    through a view of the state.  For every history of commits, restarts and questions, a pool
    that keeps no view (the code as it stands takes ledger.Copy() per lookup) - or any pool over
    the simple ledger, whose Copy() is the live ledger - answers question [i] from the state
    committed before it, and an OK for a locally originated IBTP means that the first available
    rule bound in THAT state accepted the bytes *)
Theorem C03_master_rule_current_pool :
  forall (H : N -> N) (digest : N -> N -> N) (rule_validate : N -> N -> N -> N -> N -> option bool)
         (recover : N -> N -> option N),
  forall c n evs i ib p dec st,
  d_memo_view c = false \/ snapshot_ledger c = false ->
  nth_error evs i = Some (PCheck ib (PdBytes p dec)) ->
  nth_error (pool_run H digest rule_validate recover c n evs) i = Some (Some (st, VOk)) ->
  st = committed_at (n_committed n) evs i /\
  (fst (origin ib) = ps_bxh st ->
   H p = ib_proofhash ib /\
   exists app r,
     ps_chains st (snd (origin ib)) = Some app /\
     master_rule st (snd (origin ib)) = Some r /\ r_available r = true /\ In r (ps_rules st (snd (origin ib))) /\
     rule_validate (r_addr r) (snd (origin ib)) p (ib_id ib) (a_trust app) = Some true).
Proof. exact master_rule_current_pool. Qed.
Print Assumptions C03_master_rule_current_pool.

Theorem C03_pool_is_spec :
  forall (H : N -> N) (digest : N -> N -> N) (rule_validate : N -> N -> N -> N -> N -> option bool)
         (recover : N -> N -> option N),
  forall c, d_memo_view c = false \/ snapshot_ledger c = false ->
  forall evs n, pool_run H digest rule_validate recover c n evs
                = pool_spec H digest rule_validate recover (n_committed n) evs.
Proof. exact pool_is_spec. Qed.
Print Assumptions C03_pool_is_spec.

(** a pool that memoises the view of its first lookup over a snapshot ledger (ledger.type =
    "complex"): expected refutation - the junk proof is accepted after the master rule changed,
    until the node restarts *)
Theorem C03_memo_view_refuted :
  answers (pool_run c_H c_digest c_rule c_recover cfg_memo {| n_committed := st_rule 0; n_view := None |} pool_hist)
  = [None; Some VOk; None; Some VOk; None; Some (VErr 5)] /\
  c_verify (st_rule 2) ib_local (PdBytes 901 None) = VErr 5 /\
  master_accepts (st_rule 2) ib_local (PdBytes 901 None) = false.
Proof. exact memo_view_refuted. Qed.
Print Assumptions C03_memo_view_refuted.

(** ... and whatever the delivery timing.  The executor has two stages; blocks handed over by
    consensus can be queued behind a block that is still executing (batch delivery, catch-up).
    With the pool asked in the EXECUTION stage (the code as it stands) every interleaving of
    deliveries and executions answers exactly like lock-step execution of the same blocks: each
    block is verified against the state committed by the block executed before it *)
Theorem C03_pipeline_is_lockstep :
  forall (H : N -> N) (digest : N -> N -> N) (rule_validate : N -> N -> N -> N -> N -> option bool)
         (recover : N -> N -> option N),
  forall c, d_verify_at_enqueue c = false ->
  forall evs n,
  q_run H digest rule_validate recover c n evs
  = lockstep H digest rule_validate recover (q_committed n) (executed (map fst (q_queue n)) evs).
Proof. exact pipeline_is_lockstep. Qed.
Print Assumptions C03_pipeline_is_lockstep.

Theorem C03_master_rule_current_pipeline :
  forall (H : N -> N) (digest : N -> N -> N) (rule_validate : N -> N -> N -> N -> N -> option bool)
         (recover : N -> N -> option N),
  forall c n evs st vs,
  d_verify_at_enqueue c = false ->
  In (st, vs) (q_run H digest rule_validate recover c n evs) ->
  exists b, vs = answers_of H digest rule_validate recover st b /\
    forall k ib p dec, nth_error (qb_checks b) k = Some (ib, PdBytes p dec) -> nth_error vs k = Some VOk ->
      fst (origin ib) = ps_bxh st ->
      exists app r, ps_chains st (snd (origin ib)) = Some app /\
                    master_rule st (snd (origin ib)) = Some r /\ r_available r = true /\
                    rule_validate (r_addr r) (snd (origin ib)) p (ib_id ib) (a_trust app) = Some true.
Proof. exact master_rule_current_pipeline. Qed.
Print Assumptions C03_master_rule_current_pipeline.

(** asking the pool when a block ENTERS the pipeline: expected refutation - block 1 binds the
    stricter rule, block 2 (delivered before block 1 is executed) gets its junk proof accepted *)
Theorem C03_verify_at_enqueue_refuted :
  map snd (q_run c_H c_digest c_rule c_recover {| d_verify_at_enqueue := true |} q0 qhist) = [[]; [VOk]] /\
  map snd (lockstep c_H c_digest c_rule c_recover (st_rule 1) [qb1; qb2]) = [[]; [VErr 5]] /\
  master_accepts (st_rule 2) ib_local (PdBytes 901 None) = false.
Proof. exact verify_at_enqueue_refuted. Qed.
Print Assumptions C03_verify_at_enqueue_refuted.

(** ... and whatever was asked before: the pool's answer is a FUNCTION of the committed state (bound
    rule, chain record, trust root), the IBTP (its whole content) and the proof at the time of the
    question, for every node history - as long as the pool remembers no verdicts *)
Theorem C03_verdict_is_function :
  forall (H : N -> N) (digest : N -> N -> N) (rule_validate : N -> N -> N -> N -> N -> option bool)
         (recover : N -> N -> option N),
  forall c, d_verdict_cache c = false ->
  forall evs n, c_run H digest rule_validate recover c n evs = c_spec H digest rule_validate recover (cn_state n) evs.
Proof. exact verdict_is_function. Qed.
Print Assumptions C03_verdict_is_function.

(** a verdict cache keyed by (rule address, IBTP name from-to-index, proof hash): expected
    refutation - a different IBTP with the same name and the same public proof bytes rides on the
    verdict of the genuine one, until the node restarts *)
Theorem C03_verdict_cache_refuted :
  c_run c_H c_digest c_rule c_recover {| d_verdict_cache := true |} {| cn_state := st_rule 0; cn_cache := [] |} cache_hist
  = [None; Some VOk; Some VOk; None; Some (VErr 5)] /\
  c_verify (st_rule 3) (ib_c 8000) (PdBytes 2007001 None) = VErr 5 /\
  c_run c_H c_digest c_rule c_recover {| d_verdict_cache := false |} {| cn_state := st_rule 0; cn_cache := [] |} cache_hist
  = [None; Some VOk; Some (VErr 5); None; Some (VErr 5)].
Proof. exact verdict_cache_refuted. Qed.
Print Assumptions C03_verdict_cache_refuted.

(** if every available rule carries the Master flag, the consulted rule is the master rule; the
    judge checks "accepted => the rule with the Master flag accepts" on implementation traces with
    the rule list read back from the real RuleManager state, so a flow that leaves a second,
    non-master rule available is reported *)
Theorem C03_selected_is_master :
  forall (H : N -> N) (digest : N -> N -> N) (rule_validate : N -> N -> N -> N -> N -> option bool)
         (recover : N -> N -> option N),
  forall st ib p dec,
  fst (origin ib) = ps_bxh st ->
  (forall r, In r (ps_rules st (snd (origin ib))) -> r_available r = true -> r_master r = true) ->
  verify_proof H digest rule_validate recover st ib (PdBytes p dec) = VOk ->
  exists app r, ps_chains st (snd (origin ib)) = Some app /\ In r (ps_rules st (snd (origin ib))) /\
                r_master r = true /\
                rule_validate (r_addr r) (snd (origin ib)) p (ib_id ib) (a_trust app) = Some true.
Proof. exact selected_is_master. Qed.
Print Assumptions C03_selected_is_master.

(** ... and the verdict depends on the state only through the current records of the origin, so a
    changed or logged-out rule takes effect for the next block verified against the new state *)
Theorem C03_verify_depends_on_current :
  forall (H : N -> N) (digest : N -> N -> N) (rule_validate : N -> N -> N -> N -> N -> option bool)
         (recover : N -> N -> option N),
  forall st st' ib pd,
  ps_bxh st = ps_bxh st' ->
  ps_chains st (fst (origin ib)) = ps_chains st' (fst (origin ib)) ->
  ps_chains st (snd (origin ib)) = ps_chains st' (snd (origin ib)) ->
  ps_rules st (snd (origin ib)) = ps_rules st' (snd (origin ib)) ->
  verify_proof H digest rule_validate recover st ib pd = verify_proof H digest rule_validate recover st' ib pd.
Proof. exact verify_depends_on_current. Qed.

Theorem C03_rejects :
  forall (H : N -> N) (digest : N -> N -> N) (rule_validate : N -> N -> N -> N -> N -> option bool)
         (recover : N -> N -> option N),
  forall st ib,
  verify_proof H digest rule_validate recover st ib PdAbsent = VErr 1 /\
  (forall p dec, H p <> ib_proofhash ib -> verify_proof H digest rule_validate recover st ib (PdBytes p dec) = VErr 2) /\
  (forall p dec, H p = ib_proofhash ib -> fst (origin ib) = ps_bxh st ->
     ps_chains st (snd (origin ib)) = None -> verify_proof H digest rule_validate recover st ib (PdBytes p dec) = VErr 3) /\
  (forall p dec app, H p = ib_proofhash ib -> fst (origin ib) = ps_bxh st ->
     ps_chains st (snd (origin ib)) = Some app ->
     (forall r, In r (ps_rules st (snd (origin ib))) -> r_available r = false) ->
     verify_proof H digest rule_validate recover st ib (PdBytes p dec) = VErr 4).
Proof. exact rejects. Qed.

(** no other entry point: under the repaired behaviour, for every history of entry-point
    operations, an IBTP is processed only by a proof-verified IBTP transaction *)
Theorem C03_no_other_entry : forall ops, entries_ok ops (entry_run ecfg_fixed false ops) = true.
Proof. exact no_other_entry_fixed. Qed.
Print Assumptions C03_no_other_entry.

(** every exported contract method from which ProcessIBTP is reachable (regenerated from the
    source) is classified; exactly two of them are callable by name without any caller check *)
Theorem C03_entries_covered : entries_covered = true.
Proof. vm_compute. reflexivity. Qed.

Theorem C03_open_entries :
  open_entries = [("InterBroker", "EmitInterchain"); ("InterchainManager", "HandleIBTPData")]%string.
Proof. vm_compute. reflexivity. Qed.

(** faithful behaviour of the unchanged code: expected refutations *)
Theorem C03_handle_data_refuted :
  let ops := [EInitCache; EHandleData true] in
  entry_run ecfg_faithful false ops = [(false, false); (true, true)] /\
  entries_ok ops (entry_run ecfg_faithful false ops) = false.
Proof. exact handle_data_refuted. Qed.

Theorem C03_emit_interchain_refuted :
  let ops := [EInitCache; EEmit true] in
  entries_ok ops (entry_run ecfg_faithful false ops) = false.
Proof. exact emit_interchain_refuted. Qed.
Print Assumptions C03_handle_data_refuted.

(** non-vacuity, with the concrete oracles the judge uses *)
Example C03_multisig_examples :
  c_verify st_ex ib_remote (PdBytes 900 (Some {| bp_status := 0; bp_sigs := [40; 44] |})) = VOk /\
  c_verify st_ex ib_remote (PdBytes 900 (Some {| bp_status := 0; bp_sigs := [40; 40; 40] |})) = VErr 6 /\
  c_verify st_ex ib_remote (PdBytes 900 (Some {| bp_status := 0; bp_sigs := [400; 404; 42; 46] |})) = VErr 6 /\
  c_verify st_ex ib_remote (PdBytes 900 (Some {| bp_status := 0; bp_sigs := [41; 40; 40; 400; 52] |})) = VOk.
Proof. exact multisig_examples. Qed.

Example C03_entry_example :
  entry_run ecfg_faithful false [EHandleData true; EInitCache; EHandleData true; ERestart; EHandleData true]
  = [(false, false); (false, false); (true, true); (true, false); (false, false)].
Proof. exact handle_data_needs_cache. Qed.
