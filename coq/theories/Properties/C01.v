From BX Require Import Base.Prelude Model.Determinism Proofs.DeterminismProofs.
Theorem C01_tmp : 1%N = 1%N. Proof. exact placeholder_tmp. Qed.
Print Assumptions C01_tmp.
