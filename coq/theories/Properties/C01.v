(** C01 — block execution is deterministic across replicas, runs and restarts.
    Only statements, each closed by [exact]; [Print Assumptions] after each. *)
From BX Require Import Base.Prelude Model.Determinism Model.DeterminismSites Proofs.DeterminismProofs.
From BXGen Require Import Gen_MapRanges.
From Coq Require Import String Permutation.
Local Open Scope N_scope.

(** Main theorem.  For every configuration in which the seven C01 defect flags are off (whatever
    the C05 flag [d_dst_key_first] is), every genesis state, every block list, every two oracle
    families (map iteration orders per site/height/call, goroutine completion orders, clock
    values) and every two restart placements, the lists of block results are equal: block hash
    inputs, state root inputs, tx root, receipt root, receipts, Counter, TimeoutCounter,
    TimeoutL2Roots, MultiTxCounter of every block including genesis. *)
Theorem C01_exec_oracle_independent : forall cfg, c01_clean cfg ->
  forall (g : list (N * val)) (bs : list block) (o1 o2 : oracle) (r1 r2 : nat -> bool),
  oracle_ok o1 -> oracle_ok o2 ->
  run cfg o1 r1 g bs = run cfg o2 r2 g bs.
Proof. exact exec_oracle_independent. Qed.
Print Assumptions C01_exec_oracle_independent.

Theorem C01_exec_oracle_independent_fixed :
  forall (g : list (N * val)) (bs : list block) (o1 o2 : oracle) (r1 r2 : nat -> bool),
  oracle_ok o1 -> oracle_ok o2 ->
  run cfg_fixed o1 r1 g bs = run cfg_fixed o2 r2 g bs.
Proof. exact exec_oracle_independent_fixed. Qed.
Print Assumptions C01_exec_oracle_independent_fixed.

(** the hypotheses are satisfiable by an oracle that is not the identity *)
Theorem C01_rev_oracle_ok : oracle_ok rev_oracle.
Proof. exact rev_oracle_ok. Qed.
Print Assumptions C01_rev_oracle_ok.

(** the predicate the judge evaluates on implementation traces is the property *)
Theorem C01_replicas_agree_b_spec : forall dg, replicas_agree_b dg = true <-> replicas_agree dg.
Proof. exact replicas_agree_b_spec. Qed.
Print Assumptions C01_replicas_agree_b_spec.

(** permutation invariance of the consumers *)
Theorem C01_fold_perm_sorted : forall l l', Permutation l l' -> isort l = isort l'.
Proof. exact fold_perm_sorted. Qed.
Print Assumptions C01_fold_perm_sorted.
Theorem C01_fold_perm_comm : forall (A S : Type) (f : A -> S -> S),
  (forall a b s, f a (f b s) = f b (f a s)) ->
  forall l l', Permutation l l' -> forall s, fold_right f s l = fold_right f s l'.
Proof. exact @fold_perm_comm. Qed.
Print Assumptions C01_fold_perm_comm.
Theorem C01_fold_perm_keyed_write : forall (V : Type) (g : N -> V) (l l' : list N) (m : smap V),
  Permutation l l' -> fold_right (fun k acc => sset k (g k) acc) m l = fold_right (fun k acc => sset k (g k) acc) m l'.
Proof. intros V g l l' m Hp. apply fold_perm_comm; [intros; apply keyed_write_comm|exact Hp]. Qed.
Print Assumptions C01_fold_perm_keyed_write.
Theorem C01_fold_perm_forallb : forall (A : Type) (p : A -> bool) l l', Permutation l l' -> forallb p l = forallb p l'.
Proof. exact @fold_perm_forallb. Qed.
Print Assumptions C01_fold_perm_forallb.
Theorem C01_fold_perm_existsb : forall (A : Type) (p : A -> bool) l l', Permutation l l' -> existsb p l = existsb p l'.
Proof. exact @fold_perm_existsb. Qed.
Print Assumptions C01_fold_perm_existsb.

(** tie to the sources: the regenerated inventory and the classified table coincide *)
Theorem C01_sites_covered : subset_b gen_all_sites pinned_gsites = true.
Proof. exact sites_covered. Qed.
Print Assumptions C01_sites_covered.
Theorem C01_sites_not_stale : subset_b pinned_gsites gen_all_sites = true.
Proof. exact sites_not_stale. Qed.
Print Assumptions C01_sites_not_stale.
Theorem C01_sites_classified :
  forallb (fun e => existsb (String.eqb (snd (fst (fst e)))) site_classes) pinned_sites = true.
Proof. exact sites_classified. Qed.
Print Assumptions C01_sites_classified.
Theorem C01_model_sites_tied :
  forallb (fun s => existsb (fun e => (snd (fst e) =? s)%N) pinned_sites) model_sites = true.
Proof. exact model_sites_tied. Qed.
Print Assumptions C01_model_sites_tied.

(** refutations: each defect flag alone makes two admissible runs of one history differ *)
Theorem C01_notify_unsorted_refuted :
  exists g bs o1 o2, oracle_ok o1 /\ oracle_ok o2 /\ run (only 1) o1 never g bs <> run (only 1) o2 never g bs.
Proof. exact notify_unsorted_refuted. Qed.
Print Assumptions C01_notify_unsorted_refuted.
Theorem C01_timeout_child_order_refuted :
  exists g bs o1 o2, oracle_ok o1 /\ oracle_ok o2 /\ run (only 2) o1 never g bs <> run (only 2) o2 never g bs.
Proof. exact timeout_child_order_refuted. Qed.
Print Assumptions C01_timeout_child_order_refuted.
Theorem C01_first_error_order_refuted :
  exists g bs o1 o2, oracle_ok o1 /\ oracle_ok o2 /\ run (only 3) o1 never g bs <> run (only 3) o2 never g bs.
Proof. exact first_error_order_refuted. Qed.
Print Assumptions C01_first_error_order_refuted.
Theorem C01_bns_after_flush_refuted :
  exists g bs r1 r2, run (only 4) o_id r1 g bs <> run (only 4) o_id r2 g bs.
Proof. exact bns_after_flush_refuted. Qed.
Print Assumptions C01_bns_after_flush_refuted.
Theorem C01_cache_failed_events_refuted :
  exists g bs r1 r2, run (only 5) o_id r1 g bs <> run (only 5) o_id r2 g bs.
Proof. exact cache_failed_events_refuted. Qed.
Print Assumptions C01_cache_failed_events_refuted.
Theorem C01_singleton_mem_refuted :
  exists g bs r1 r2, run (only 6) o_id r1 g bs <> run (only 6) o_id r2 g bs.
Proof. exact singleton_mem_refuted. Qed.
Print Assumptions C01_singleton_mem_refuted.
Theorem C01_stale_persister_refuted :
  exists g bs r1 r2, run (only 7) o_id r1 g bs <> run (only 7) o_id r2 g bs.
Proof. exact stale_persister_refuted. Qed.
Print Assumptions C01_stale_persister_refuted.

Theorem C01_forgets_persister_refuted :
  exists g bs r1 r2, run (only 8) o_id r1 g bs <> run (only 8) o_id r2 g bs.
Proof. exact forgets_persister_refuted. Qed.
Print Assumptions C01_forgets_persister_refuted.

Theorem C01_proofs_prestage_refuted :
  exists g bs o1 o2, oracle_ok o1 /\ oracle_ok o2 /\ run (only 9) o1 never g bs <> run (only 9) o2 never g bs.
Proof. exact proofs_prestage_refuted. Qed.
Print Assumptions C01_proofs_prestage_refuted.

(** partial: status and SERVICE events of opaque transactions (transfers, governance, XVM/EVM)
    are inputs of the model; equality of results is proved for equal inputs only.  Also not
    represented (see design.d/C01.md): data races, scheduler-dependent behaviour inside
    libraries, Go runtime nondeterminism outside the site inventory. *)
Theorem C01_opaque_execution_partial :
  forall (g : list (N * val)) (pre post : list block) (ok : bool) (touch : list N) (evs : list (N * svcrec))
         (o1 o2 : oracle) (r1 r2 : nat -> bool),
  oracle_ok o1 -> oracle_ok o2 ->
  run cfg_fixed o1 r1 g (pre ++ blk [TGov ok touch evs; TOpaque ok] :: post) =
  run cfg_fixed o2 r2 g (pre ++ blk [TGov ok touch evs; TOpaque ok] :: post).
Proof. exact opaque_execution_partial. Qed.
Print Assumptions C01_opaque_execution_partial.

(** non-vacuity: concrete histories that reach the sites, under a non-identity oracle and a restart *)
Example C01_fixed_notify_example :
  map r_multitx_counter (run cfg_fixed rev_oracle before1 w_genesis w_notify) =
  [[]; []; [(0, [mk_id 0 17 1; mk_id 0 32 1])]].
Proof. exact fixed_notify_example. Qed.
Example C01_fixed_timeout_example :
  map r_timeout_counter (run cfg_fixed rev_oracle before1 w_genesis w_timeout) =
  [[]; []; []; [(0, [mk_id 0 16 1; mk_id 0 32 1])]].
Proof. exact fixed_timeout_example. Qed.
Example C01_fixed_blacklist_example :
  map (fun r => map rc_begin_failure (r_receipts r)) (run cfg_fixed rev_oracle before1 w_genesis w_black) = [[]; [false]; [true; false]].
Proof. exact fixed_blacklist_example. Qed.
Example C01_fixed_forgets_example :
  map (fun r => map rc_ok (r_receipts r)) (run cfg_fixed o_id before1 w_genesis w_forgets) = [[]; [true]; [true]].
Proof. exact fixed_forgets_example. Qed.
Example C01_fixed_cache_example :
  map (fun r => map rc_ok (r_receipts r)) (run cfg_fixed o_id never w_genesis w_cache) = [[]; [false]; [true]].
Proof. exact fixed_cache_example. Qed.
