(** C12 — rolling back to a retained height restores exactly that height's state.
    Only statements, each closed by [exact]. *)
From BX Require Import Base.Prelude Base.Sha256 Model.JsonAcct Model.Merkle Model.StateLedger Model.LedgerSpec
  Proofs.LedgerWitness.
Local Open Scope N_scope.

(** expected refutation (pinned tree, flag [d_addstate_origin]): AddState on a key that exists in
    the store journals prev = nil; after Rollback the key is deleted instead of restored *)
Theorem C12_addstate_origin_refuted :
  wf_model only_addstate h_addstate_rb = true /\ pb_model false only_addstate h_addstate_rb = Some 7 /\
  pb_model true cfg_fixed h_addstate_rb = None.
Proof. exact (conj (proj1 addstate_rollback_refuted) (conj (proj2 addstate_rollback_refuted) addstate_rollback_fixed)). Qed.
Print Assumptions C12_addstate_origin_refuted.

(** expected refutation (pinned tree, flag [d_rb_head_dirty]): RollbackState(current height)
    returned early and kept the uncommitted in-memory writes *)
Theorem C12_rollback_head_refuted :
  wf_model only_rbhead h_rbhead = true /\ pb_model false only_rbhead h_rbhead = Some 5 /\
  pb_model true cfg_fixed h_rbhead = None.
Proof. exact (conj (proj1 rbhead_refuted) (conj (proj2 rbhead_refuted) rbhead_fixed)). Qed.
Print Assumptions C12_rollback_head_refuted.

(** non-vacuity: a history with creations, overwrites, deletions, a code change, eviction, reopen,
    rollbacks inside and outside the window lies in the domain, and the repaired model agrees with
    the specification on it; refused rollbacks answer with the error codes *)
Example C12_example :
  wf_model cfg_fixed h_example = true /\ pb_model true cfg_fixed h_example = None /\
  map (fun i => nth i (snd (run E0 cfg_fixed st0 h_example)) ONone) [39; 42; 43]%nat =
  [ORes R_ok; ORes R_higher; ORes R_ok].
Proof. exact (conj example_in_domain (conj example_agrees example_rollback_outputs)). Qed.
