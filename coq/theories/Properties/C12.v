(** C12 — rolling back to a retained height restores exactly that height's state.
    Only statements, each closed by [exact]. *)
From BX Require Import Base.Prelude Base.Sha256 Model.JsonAcct Model.Merkle Model.StateLedger Model.LedgerSpec
  Proofs.LedgerWitness Proofs.RefineMain Proofs.RefineProps.
Local Open Scope N_scope.

(** C12_rollback_restores.  For EVERY block history (any sequence of operations from
    the empty ledger, inside the domain) and every rollback in it, the repaired model's observables
    agree with the specification, and the specification's Rollback(t), for t inside the retained
    window, makes every balance, nonce, contract code and storage key read as recorded by Commit(t),
    continues the root chain from the root recorded at t, and empties the in-block state
    ([C12_spec_rollback_restores], by definition of the specification).  Contract code (SetCode, also
    with a nil code, the journal's PrevCode) is inside the theorem; the premises say that the code
    hash function never returns the empty string and does not collide. *)
Theorem C12_rollback_restores : forall (e : env),
  (forall c, e_kec e c <> []) -> (forall c c', e_kec e c = e_kec e c' -> c = c') ->
  forall ops : list op,
  spec_agree_P wf_thm_b false e spec0 ops (snd (run e cfg_fixed st0 ops)).
Proof. exact refine_from_empty. Qed.
Print Assumptions C12_rollback_restores.

Theorem C12_spec_rollback_restores : forall e s t x S r,
  (sp_max s <? t) = false -> ((t <? sp_min s) && negb ((sp_min s =? 1) && (t =? 0))) = false ->
  (sp_max s =? t) = false -> hist_get s t = Some (S, r) ->
  let '(s', ex) := spec_step e s (Rollback t) x in
  ex = ERes R_ok /\ sp_cur s' = S /\ sp_fl s' = S /\ sp_prev s' = r /\ sp_max s' = t.
Proof. exact spec_rollback_restores. Qed.
Print Assumptions C12_spec_rollback_restores.

(** C12_refused_frame: in every state of the model (any configuration), a rollback to a height above
    the head or below the retained window (except the coded min = 1, target = 0 case) returns the
    corresponding error and leaves the whole state untouched; and these are the only refusals. *)
Theorem C12_refused_frame : forall c m t,
  (s_max m <? t) = true \/ ((t <? s_min m) && negb ((s_min m =? 1) && (t =? 0))) = true ->
  fst (do_rollback c m t) = m /\
  (snd (do_rollback c m t) = ORes R_higher \/ snd (do_rollback c m t) = ORes R_toomuch).
Proof. exact rollback_refused_frame. Qed.
Print Assumptions C12_refused_frame.

Theorem C12_refused_iff : forall c m t,
  (snd (do_rollback c m t) = ORes R_higher <-> s_max m < t) /\
  (snd (do_rollback c m t) = ORes R_toomuch <-> t <= s_max m /\ t < s_min m /\ ~ (s_min m = 1 /\ t = 0)).
Proof. exact rollback_refused_iff. Qed.
Print Assumptions C12_refused_iff.

(** The full ledger (state ledger + chain ledger behind ledger.Ledger.Rollback): the chain half is not
    modelled; the predicate [full_frame_g] is evaluated on implementation traces (checks/C12.py, leg
    "full_ledger").  What a pass means: after a refused rollback the chain half (head, persisted head,
    blockfile length, every block lookup) is what it was; after an accepted one all three heights are the
    target. *)
Theorem C12_full_refused_frame_pred : forall h r t t' c t'' prev i,
  full_frame_g (Rollback h :: t) (ORes r :: t') (c :: t'') prev i = None -> r <> R_ok -> c = prev.
Proof. exact full_frame_refused_step. Qed.
Print Assumptions C12_full_refused_frame_pred.

Theorem C12_full_accepted_pred : forall h t t' c t'' prev i,
  full_frame_g (Rollback h :: t) (ORes R_ok :: t') (c :: t'') prev i = None ->
  exists rest, c = h :: h :: h :: rest.
Proof. exact full_frame_accepted_step. Qed.
Print Assumptions C12_full_accepted_pred.

(** C12_reexec_same_partial: that re-executing the same blocks after a rollback reproduces the same
    roots is shown on a concrete history ([C12_example_reexec]) and follows in general from
    C10_root_function_of_changes once both executions reach states with the same contributions; the
    general relational statement is tied by correspondence (re-execution stream of the check). *)
Example C12_example_reexec :
  let outs := snd (run E0 cfg_fixed st0 h_reexec) in
  nth 5 outs ONone = nth 13 outs ONone /\ nth 8 outs ONone = nth 16 outs ONone /\
  roots_check (flush_recs cfg_fixed [h_reexec]) = 0.
Proof. exact reexec_same_roots. Qed.

(** expected refutation (pinned tree, flag [d_addstate_origin]): AddState on a key that exists in
    the store journals prev = nil; after Rollback the key is deleted instead of restored *)
Theorem C12_addstate_origin_refuted :
  wf_model only_addstate h_addstate_rb = true /\ pb_model false only_addstate h_addstate_rb = Some 7 /\
  pb_model true cfg_fixed h_addstate_rb = None.
Proof. exact (conj (proj1 addstate_rollback_refuted) (conj (proj2 addstate_rollback_refuted) addstate_rollback_fixed)). Qed.
Print Assumptions C12_addstate_origin_refuted.

(** expected refutation (pinned tree, flag [d_rb_head_dirty]): RollbackState(current height)
    returned early and kept the uncommitted in-memory writes *)
Theorem C12_rollback_head_refuted :
  wf_model only_rbhead h_rbhead = true /\ pb_model false only_rbhead h_rbhead = Some 5 /\
  pb_model true cfg_fixed h_rbhead = None.
Proof. exact (conj (proj1 rbhead_refuted) (conj (proj2 rbhead_refuted) rbhead_fixed)). Qed.
Print Assumptions C12_rollback_head_refuted.

(** non-vacuity: a history with creations, overwrites, deletions, a code change, eviction, reopen,
    rollbacks inside and outside the window lies in the domain, and the repaired model agrees with
    the specification on it; refused rollbacks answer with the error codes *)
Example C12_example :
  wf_model cfg_fixed h_example = true /\ pb_model true cfg_fixed h_example = None /\
  map (fun i => nth i (snd (run E0 cfg_fixed st0 h_example)) ONone) [39; 42; 43]%nat =
  [ORes R_ok; ORes R_higher; ORes R_ok].
Proof. exact (conj example_in_domain (conj example_agrees example_rollback_outputs)). Qed.
