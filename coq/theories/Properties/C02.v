(** C02 — IBTPs are accepted in index order, exactly once per ordered service pair.
    Only statements, each closed by [exact].  Model: TxMgr / Interchain / IbtpExec under the repaired
    configuration [cfg_fixed]; [reach] = every history of well-formed blocks (indices below 2^63,
    int64 timeouts, source services on this hub) and restarts, audit on or off, any mix of
    transactions including every public interchain-contract method. *)
From BX Require Import Model.Router Proofs.RouterProofs.
From BX Require Import Base.Prelude Base.Fsm Model.TxFsm Model.TxMgr Model.Interchain Model.IbtpExec Model.IbtpMon Model.IbtpJudge
     Proofs.IbtpIc Proofs.IbtpInv Proofs.IbtpBlock Proofs.IbtpProps Proofs.IbtpFin.
From BX Require Import Proofs.IbtpMonProofs.
Local Open Scope N_scope.

(** in every reachable state, for every ordered pair (f,t): the accepted request indices are exactly
    1..InterchainCounter, the destination mirrors both counters, receipts never run ahead of requests
    and every recorded receipt belongs to a recorded request *)
Theorem C02_counters : forall w st, reach w st ->
  let c := s_ic st in
  (forall f t x, i_req c (f, t, x) <> None <-> 1 <= x <= IC c f t) /\
  (forall f t, SIC c t f = IC c f t) /\ (forall f t, SRC c t f = RC c f t) /\
  (forall f t, RC c f t <= IC c f t) /\
  (forall i, i_rcpt c i <> None -> i_req c i <> None).
Proof. exact c02_counters. Qed.
Print Assumptions C02_counters.

Theorem C02_mirror : forall w st, reach w st ->
  (forall f t, SIC (s_ic st) t f = IC (s_ic st) f t) /\ (forall f t, SRC (s_ic st) t f = RC (s_ic st) f t).
Proof. intros w st R. destruct (c02_counters w st R) as [_ [A [B _]]]. exact (conj A B). Qed.
Print Assumptions C02_mirror.

(** an accepted request carries exactly the next index of its pair; the counter becomes that index,
    no other pair and no receipt counter moves, and the request's transaction is recorded *)
Theorem C02_request_order : forall w st h serial b t' c' r,
  reach w st -> ibtp_wf w b ->
  handle_ibtp cfg_fixed w h serial b (s_tm st) (s_ic st) = Some (t', c', r) ->
  r_ok r = true -> is_request b = true -> is_notification w (s_ic st) b = false ->
  b_idx b = IC (s_ic st) (b_from b) (b_to b) + 1 /\
  IC c' (b_from b) (b_to b) = b_idx b /\
  (forall f t, (f, t) <> (b_from b, b_to b) -> IC c' f t = IC (s_ic st) f t) /\
  (forall f t, RC c' f t = RC (s_ic st) f t) /\
  i_req c' (b_id b) = Some serial.
Proof. exact c02_request_step. Qed.
Print Assumptions C02_request_order.

(** an accepted receipt carries the next receipt index of its pair, belongs to an accepted request
    (its transaction record or its group membership exists) and moves no request counter *)
Theorem C02_receipt_order : forall w st h serial b t' c' r,
  reach w st -> ibtp_wf w b ->
  handle_ibtp cfg_fixed w h serial b (s_tm st) (s_ic st) = Some (t', c', r) ->
  r_ok r = true -> is_request b = false ->
  b_idx b = RC (s_ic st) (b_from b) (b_to b) + 1 /\
  b_idx b <= IC (s_ic st) (b_from b) (b_to b) /\
  i_req (s_ic st) (b_id b) <> None /\
  (tm_rec (s_tm st) (b_id b) <> None \/ tm_child (s_tm st) (b_id b) <> None) /\
  (forall f t, IC c' f t = IC (s_ic st) f t) /\
  i_rcpt c' (b_id b) = Some serial.
Proof. exact c02_receipt_step. Qed.
Print Assumptions C02_receipt_order.

(** ReceiptCounter counts the finalised receipts: among the accepted indices 1..InterchainCounter of a
    pair exactly the first ReceiptCounter ones are finalised ([fin]: the status query reports a final
    status; for a child of a one-to-many transaction that is the group's status) *)
Theorem C02_receipt_count : forall w st f t x,
  reach w st -> 1 <= x <= IC (s_ic st) f t ->
  (x <= RC (s_ic st) f t <-> fin (s_tm st) (f, t, x) = true).
Proof. exact c02_receipt_count. Qed.
Print Assumptions C02_receipt_count.

(** a rejected IBTP (duplicate, future, zero, huge, unknown, unavailable source, wrong type, bad
    proof is rejected before) leaves the whole contract state — counters, index maps, transaction
    records, timeout lists — unchanged and posts no delivery event *)
Theorem C02_reject_frame : forall w st h serial b t' c' r,
  reach w st -> b_idx b < B63 ->
  handle_ibtp cfg_fixed w h serial b (s_tm st) (s_ic st) = Some (t', c', r) ->
  r_ok r = false -> t' = s_tm st /\ c' = s_ic st /\ r_chains r = [].
Proof.
  intros w st h serial b t' c' r R. destruct (reach_sinv _ _ R) as [I _]. exact (reject_frame w h serial b _ _ t' c' r I).
Qed.
Print Assumptions C02_reject_frame.

(** an accepted request is announced, in the event of its own transaction (hence in the Counter of
    the accepting block and of no other block), to its destination: the destination appchain, or
    the union pier for a remote BitXHub; a rejected transaction announces nothing *)
Theorem C02_delivery_once : forall w st h serial b t' c' r sd,
  reach w st -> ibtp_wf w b ->
  handle_ibtp cfg_fixed w h serial b (s_tm st) (s_ic st) = Some (t', c', r) ->
  svc_lookup w (b_to b) = Some sd ->
  (r_ok r = false -> r_chains r = []) /\
  (r_ok r = true -> is_request b = true -> is_notification w (s_ic st) b = false ->
   In (chain_of w (b_to b)) (r_chains r)).
Proof. exact c02_delivery. Qed.
Print Assumptions C02_delivery_once.

(** the block function never leaves the modelled domain on reachable states *)
Theorem C02_total : forall w st ops,
  reach w st -> Forall (op_wf w) ops -> s_h st + 1 < W64 ->
  exists st' bm, exec_block cfg_fixed w st ops = Some (st', bm).
Proof. exact exec_block_total. Qed.
Print Assumptions C02_total.

(** the last hop (internal/router/interchain.go): the Counter a block produces only points at
    transactions of that block, so the router never panics on it and tells each destination's pier
    exactly, block by block and in order, the transactions the Counter lists for it *)
Theorem C02_counter_indices_in_block : forall rs k l e,
  In (k, l) (counter_obs rs) -> In e l -> (N.to_nat (fst (fst e)) < List.length rs)%nat.
Proof. exact counter_indices_in_block. Qed.
Print Assumptions C02_counter_indices_in_block.

Theorem C02_router_never_panics_on_wellformed : forall d b m,
  deliver_block d b m = Crash <-> indices_ok b m = false.
Proof. exact router_crash_iff. Qed.
Print Assumptions C02_router_never_panics_on_wellformed.

Theorem C02_router_delivery_exact : forall d chain,
  forallb (fun bm : block * meta => indices_ok (fst bm) (snd bm)) chain = true ->
  told_txs d chain = listed_txs d chain.
Proof. exact router_delivery_exact. Qed.
Print Assumptions C02_router_delivery_exact.


(** the boolean predicate the judge evaluates on implementation traces is exactly the inductively
    defined trace property [C02_trace] (Proofs/IbtpMonProofs.v) *)
Theorem C02_predicate_reflects : forall w q items tr, c02_b w q items tr = true <-> C02_trace w q 2 c2_init None items tr.
Proof. exact c02_b_spec. Qed.
Print Assumptions C02_predicate_reflects.

(** * witnesses *)
Definition w3 : world :=
  Build_world [Build_svc_info 0 1 true true true []; Build_svc_info 0 2 true true true [];
               Build_svc_info 0 2 false true true []] [] false.
Definition q3 : query := Build_query [(1, 2, 1); (1, 2, 2); (1, 3, 1)] [] [] 3.
Definition req (f t i : N) (T : Z) : op := OIbtp (Build_ibtp f t i 0 T None 0) true.
Definition rcp (f t i k : N) : op := OIbtp (Build_ibtp f t i k 0%Z None 0) true.

(** non-vacuity: indices 1,2 accepted in order; duplicate 1, future 4, zero and 2^64-1 rejected *)
Example C02_example_order :
  option_map (map o_rc) (run cfg_fixed w3 q3 state_init
     [IBlock [req 1 2 1 0; req 1 2 1 0; req 1 2 4 0; req 1 2 2 0; req 1 2 0 0; req 1 2 18446744073709551615 0]])
  = Some [[(1, 0, 0); (0, 2, 0); (0, 3, 0); (1, 0, 0); (0, 2, 0); (0, 3, 0)]].
Proof. vm_compute. reflexivity. Qed.

Example C02_example_predicate :
  prop_on_model 2 cfg_fixed w3 q3
     [IBlock [req 1 2 1 0; req 1 2 1 0; req 1 2 4 0; req 1 2 2 0]; IBlock [rcp 1 2 1 1; rcp 1 2 1 1; rcp 1 2 3 1]] = Some true.
Proof. vm_compute. reflexivity. Qed.

(** Ordered = false destination (behaviour of the code, flag on): the duplicate index 1 is accepted *)
Definition only_unordered : Defects := Build_Defects false false false true false false false false false false false.
Theorem C02_unordered_dst_refuted :
  option_map (map o_rc) (run only_unordered w3 q3 state_init [IBlock [req 1 3 1 0; req 1 3 1 0]])
  = Some [[(1, 0, 2); (1, 0, 2)]] /\
  prop_on_model 2 only_unordered w3 q3 [IBlock [req 1 3 1 0; req 1 3 1 0]] = Some false.
Proof. split; vm_compute; reflexivity. Qed.

(** public DeleteInterchain (flag on): the pair's counters are reset and index 1 is accepted again *)
Definition only_delete : Defects := Build_Defects false false false false false true false false false false false.
Theorem C02_delete_interchain_refuted :
  prop_on_model 2 only_delete w3 q3 [IBlock [req 1 2 1 0]; IBlock [OCall 2 1 0 0 0]; IBlock [req 1 2 1 0]] = Some false.
Proof. vm_compute. reflexivity. Qed.

(** a child that joins a finished group (flag on) is accepted but not announced to its destination *)
Definition w_grp : world :=
  Build_world [Build_svc_info 0 1 true true true []; Build_svc_info 0 2 true true true [];
               Build_svc_info 0 3 true true true []] [] false.
Definition only_late_child : Defects := Build_Defects false false false false false false true false false false false.
Definition greq (f t i : N) (T : Z) (g n : N) : op := OIbtp (Build_ibtp f t i 0 T (Some (g, n)) 0) true.
Theorem C02_late_child_refuted :
  prop_on_model 2 only_late_child w_grp (Build_query [(1, 2, 1); (1, 3, 1)] [(1, 1, 1)] [] 3)
     [IBlock [greq 1 2 1 9 1 1]; IBlock [rcp 1 2 1 1]; IBlock [greq 1 3 1 9 1 1]] = Some false.
Proof. vm_compute. reflexivity. Qed.
