(** C08 — block execution is total.  Only statements, each closed by [exact].

    HONEST LABEL: [C08_total_partial] is totality of the MODELLED control flow of block execution
    (verification goroutines, dispatch by reflection, recover boundaries, revert / fee / event
    harvesting order) under the repaired behaviour and under the hypothesis [lib_ok]: library
    calls (rule engine, signature recovery, protobuf / JSON codecs, EVM) return, and panic only
    where the regenerated inventory [BXGen.Gen_Sites.panics] says.  It is not a proof about the
    Go runtime; the tie to the code is the inventory coverage below plus the hostile-stream
    correspondence run by the check. *)
From Coq Require Import String.
From BX Require Import Base.Prelude Model.Sites Model.Dispatch Proofs.DispatchProofs.
Local Open Scope N_scope.

(** for all blocks (payloads: unmarshalable, empty, unknown contract / method, wrong arity, wrong
    argument kind, unparsable numbers, panicking callee, result that is not a Response, rejected
    proofs, unaffordable fees, unknown transaction types): no Crash, no Hang, one receipt per
    transaction and the receipt at position i is a function of the transaction at position i
    (block order), committed height = height + 1 *)
Theorem C08_total_partial : forall ts h, (forall t, In t ts -> lib_ok t) ->
  exec_block dcfg_fixed h ts = Ret (map receipt_spec ts, h + 1).
Proof. exact total_partial. Qed.
Print Assumptions C08_total_partial.

Theorem C08_total_partial_length : forall ts h, (forall t, In t ts -> lib_ok t) ->
  exists rs, exec_block dcfg_fixed h ts = Ret (rs, h + 1) /\ List.length rs = List.length ts.
Proof. exact total_partial_length. Qed.
Print Assumptions C08_total_partial_length.

(** faithful dispatcher (every flag on allowed): every panic raised inside a BVM invocation that
    neither reaches CrossInvokeEVM nor posts an undecodable event is under Run's recover *)
Theorem C08_bvm_panics_recovered : forall c bc fee sig pf,
  call_wipes c bc = false -> call_bad_event bc = false ->
  exists x, apply_dtx c false {| dt_proof := pf; dt_sig_ok := sig; dt_body := BBvm bc; dt_fee_ok := fee |} = Ret x.
Proof. exact bvm_panics_recovered. Qed.
Print Assumptions C08_bvm_panics_recovered.

(** reflection semantics *)
Theorem C08_arity_mismatch_fails : forall c m args beh evm ks,
  ms_variadic m = false -> parse_args args = Some ks -> List.length ks <> List.length (ms_params m) ->
  invoke c (BcCall m args beh evm) = (false, Some false).
Proof. exact arity_mismatch_fails. Qed.

Theorem C08_unparsable_arg_fails : forall c m args beh evm,
  parse_args args = None -> invoke c (BcCall m args beh evm) = (false, Some false).
Proof. exact unparsable_arg_fails. Qed.

Theorem C08_no_response_runs_then_fails : forall c m args beh evm ks,
  (is_promoted m = false \/ d_promoted_dispatch c = true) ->
  parse_args args = Some ks -> call_shape m ks = true -> ms_response m = false ->
  invoke c (BcCall m args beh evm) = (true, Some false).
Proof. exact no_response_runs_then_fails. Qed.

Theorem C08_promoted_refused_fixed : forall m args beh evm,
  is_promoted m = true -> invoke dcfg_fixed (BcCall m args beh evm) = (false, Some false).
Proof. exact promoted_refused_fixed. Qed.

(** inventory coverage: every [panic(], [go] statement and single-value type assertion of the
    anchored files, and every function installing a recover, is classified in [Model/Sites.v] *)
Theorem C08_panic_sites_covered : panics_covered = true /\ recovers_covered = true /\ non_response_covered = true.
Proof. vm_compute. repeat split; reflexivity. Qed.

(** the undo closures (run under the changer's non re-entrant lock) call only non-journaling setters *)
Theorem C08_reverts_covered : reverts_covered = true.
Proof. vm_compute. reflexivity. Qed.

Theorem C08_total_b_spec : forall k, total_b k = true <->
  exists o, dc_obs k = OReceipts o true true /\ List.length o = List.length (dc_txs k).
Proof. exact total_b_spec. Qed.

(** faithful behaviour of the unchanged code: crash witnesses, one per flag *)
Theorem C08_promoted_event_refuted :
  exec_block with_promoted 7 [plain (BBvm (BcCall sig_post_interchain [AStr] BOk false)) true] = Crash.
Proof. exact promoted_event_refuted. Qed.

Theorem C08_evm_wipes_refuted :
  exec_block with_wipe 7 [plain (BBvm (BcCall sig_invoke_interchain [ABytes] BOk true)) false] = Crash /\
  exec_block with_wipe 7 [plain (BBvm (BcCall sig_invoke_interchain [ABytes] BErr true)) true] = Crash.
Proof. exact evm_wipes_refuted. Qed.

Theorem C08_checkproof_nil_err_refuted :
  exec_block with_nilerr 7 [{| dt_proof := PfRejectedFalse; dt_sig_ok := true; dt_body := BIbtp BOk; dt_fee_ok := true |}] = Crash.
Proof. exact checkproof_nil_err_refuted. Qed.

Theorem C08_nil_validator_refuted :
  exec_block with_nilval 7 [{| dt_proof := PfValidatorNil; dt_sig_ok := true; dt_body := BIbtp BOk; dt_fee_ok := true |}] = Crash.
Proof. exact nil_validator_refuted. Qed.

Theorem C08_code_revert_refuted :
  exec_block with_coderevert 7 [plain (BXvmDeploy true) false] = Hang /\
  exec_block with_coderevert 7 [plain (BXvmDeploy true) true] = Ret ([Some true], 8) /\
  exec_block dcfg_fixed 7 [plain (BXvmDeploy true) false] = Ret ([Some false], 8).
Proof. exact code_revert_refuted. Qed.

Theorem C08_nil_address_refuted :
  exec_block with_niladdr 7 [plain BNilTo true] = Crash /\ exec_block with_niladdr 7 [plain BNilFrom true] = Crash.
Proof. exact nil_address_refuted. Qed.

Theorem C08_evm_interchain_refuted :
  exec_block with_evmic 7 [plain (BEth true true (BcCall sig_init_cache [] BOk false)) true] = Crash.
Proof. exact evm_interchain_refuted. Qed.
Print Assumptions C08_promoted_event_refuted.

(** non-vacuity *)
Example C08_example :
  exec_block dcfg_fixed 7
    [ plain BNilPayload true; plain BBadTxData false; plain (BBvm BcUnknownContract) true;
      plain (BBvm (BcCall sig_post_interchain [AStr] BOk false)) true;
      plain (BBvm (BcCall sig_invoke_interchain [AU64 false] BOk true)) true;
      plain (BBvm (BcCall sig_invoke_interchain [ABytes; AStr] BPanic true)) true;
      plain (BBvm (BcCall sig_init_cache [] BOk false)) true;
      {| dt_proof := PfRejectedFalse; dt_sig_ok := true; dt_body := BIbtp BOk; dt_fee_ok := true |};
      {| dt_proof := PfVerified; dt_sig_ok := true; dt_body := BIbtp BPanic; dt_fee_ok := true |};
      plain (BTransfer (Some true)) true ]
  = Ret ([Some false; Some false; Some false; Some false; Some false; Some false; Some false; Some false; Some false; Some true], 8).
Proof. exact total_example. Qed.
