(** C13 — reads return the latest write through dirty set, cache, database and reopen.
    Only statements, each closed by [exact]. *)
From BX Require Import Base.Prelude Base.Sha256 Model.JsonAcct Model.Merkle Model.StateLedger Model.LedgerSpec
  Proofs.LedgerWitness Proofs.RefineSim Proofs.RefineQuery Proofs.RefineMain Proofs.RefineProps.
Local Open Scope N_scope.

(** Refinement.  For EVERY operation sequence of the operation language (get/set balance and
    nonce, AddBalance, SetCode incl. SetCode(nil) / GetCode, GetState, GetCommittedState, SetState
    incl. deletion, AddState, QueryByPrefix, Snapshot, RevertToSnapshot with nested snapshots,
    Finalise, Clear, FlushDirtyData, Commit, RollbackState, Version, cache evictions, reopen, getter
    dumps, raw dumps), run from the empty ledger on the repaired model, every
    observable agrees with the reference specification (finite maps + snapshot stack + committed
    history) for as long as the sequence stays inside the domain [wf_thm_b]: a commit follows its
    flush directly with the next height; a revert names no snapshot invalidated by AddState /
    Clear / Flush / Rollback; evictions happen between transactions.  Values are compared
    modulo nil = empty; GetCommittedState returns the value as of the block start, and the zero hash
    or nothing when there is none.  Contract code is followed through the dirty object, the code cache, the
    store, the journal's PrevCode and reopen; the two premises say that the code hash function
    never returns the empty string and does not collide (with a collision the code cache, which is
    only refreshed when the code hash of the record changes, would keep the old code). *)
Theorem C13_read_refines : forall (e : env),
  (forall c, e_kec e c <> []) -> (forall c c', e_kec e c = e_kec e c' -> c = c') ->
  forall ops : list op,
  spec_agree_P wf_thm_b false e spec0 ops (snd (run e cfg_fixed st0 ops)).
Proof. exact refine_from_empty. Qed.
Print Assumptions C13_read_refines.

(** the same statement for the boolean predicate the judge evaluates on implementation traces *)
Theorem C13_read_refines_bool : forall (e : env) (ops : list op),
  (forall c, e_kec e c <> []) -> (forall c c', e_kec e c = e_kec e c' -> c = c') ->
  fst (spec_agree_g wf_thm_b false e spec0 ops (snd (run e cfg_fixed st0 ops)) 0) = None.
Proof. exact refine_bool. Qed.
Print Assumptions C13_read_refines_bool.

Theorem C13_predicate_bool_iff : forall gate strict e ops outs s i,
  fst (spec_agree_g gate strict e s ops outs i) = None <-> spec_agree_P gate strict e s ops outs.
Proof. exact spec_agree_iff. Qed.
Print Assumptions C13_predicate_bool_iff.

(** C13_query_live (repaired configuration): in every state related to a specification state, the
    answer of QueryByPrefix, read modulo nil = empty, is exactly the sorted list of the non-empty
    values of the keys with that prefix, one per key; the call changes no view.  (It is also part
    of C13_read_refines; stated separately because the pinned tree refutes it three ways, below.) *)
Theorem C13_query_live : forall (e : env) (m : st) (s : spec) (a : N) (p : bytes),
  Sim e m s -> smap_wf (sp_cur s) ->
  let '(m', x) := step e cfg_fixed m (Query a p) in
  let '(s', ex) := spec_step e s (Query a p) x in
  Sim e m' s' /\ sexp_match false ex x = true /\ s_db m' = s_db m.
Proof. exact step_query. Qed.
Print Assumptions C13_query_live.

(** C13_revert_restores.  In the specification, a snapshot followed by ANY span of reads, journaled
    writes (SetBalance, SetNonce, SetCode, SetState incl. deletion), further (nested) snapshots and
    reverts of those nested snapshots, and then the revert of that snapshot, restores the current map
    to what it was at snapshot time, and that revert lies inside the domain; by C13_read_refines every
    getter of the model after the revert therefore returns the value it had at snapshot time.  Nested
    snapshots revert independently (the span may revert any snapshot taken inside it).  AddState is
    not a span operation: by the property's own wording it is not journaled. *)
Theorem C13_revert_restores : forall e s span outs x0 x1,
  forallb (span_op (sp_next s)) span = true ->
  let s1 := fst (spec_step e s Snap x0) in
  let s2 := spec_run e s1 span outs in
  sp_cur (fst (spec_step e s2 (Revert (sp_next s)) x1)) = sp_cur s /\
  snd (spec_step e s2 (Revert (sp_next s)) x1) = ERes R_ok /\
  wf_op_b s2 (Revert (sp_next s)) = true.
Proof. exact spec_revert_restores. Qed.
Print Assumptions C13_revert_restores.

(** expected refutations of C13_query_live on the pinned tree, one per flag *)
Theorem C13_query_dupkey_refuted :
  wf_model only_dupkey h_query = true /\ pb_model false only_dupkey h_query = Some 6.
Proof. exact query_dupkey_refuted. Qed.
Print Assumptions C13_query_dupkey_refuted.

Theorem C13_query_nil_refuted :
  wf_model only_qnil h_query = true /\ pb_model true only_qnil h_query = Some 6.
Proof. exact query_nil_refuted. Qed.
Print Assumptions C13_query_nil_refuted.

Theorem C13_query_cache_refuted :
  pb_model false only_qcache h_query_cache = Some 2 /\ pb_model true cfg_fixed h_query_cache = None.
Proof. exact (conj query_cache_refuted query_cache_fixed). Qed.
Print Assumptions C13_query_cache_refuted.

(** the answer of the pinned tree on the confirmed input: ["", "v1", "v2", "w1"] instead of ["v2"] *)
Theorem C13_query_pinned_output :
  nth 6 (snd (run E0 cfg_pinned st0 h_query)) ONone = OQuery true [None; v1; v2; w1] /\
  pb_model true cfg_fixed h_query = None.
Proof. exact (conj query_pinned_output query_fixed_ok). Qed.
Print Assumptions C13_query_pinned_output.

(** expected refutation of C13_revert_restores on the pinned tree (flag [d_orphan_changer]):
    after a Finalise in the same block, writes to an already loaded account are not undone *)
Theorem C13_orphan_changer_refuted :
  wf_model only_orphan h_orphan = true /\ pb_model false only_orphan h_orphan = Some 7 /\
  pb_model true cfg_fixed h_orphan = None.
Proof. exact (conj (proj1 orphan_changer_refuted) (conj (proj2 orphan_changer_refuted) orphan_changer_fixed)). Qed.
Print Assumptions C13_orphan_changer_refuted.

(** expected refutation (flag [d_addstate_origin]): AddState(k, nil) is lost by a reopen *)
Theorem C13_addstate_nil_refuted :
  wf_model only_addstate h_addstate_nil = true /\ pb_model false only_addstate h_addstate_nil = Some 8 /\
  pb_model true cfg_fixed h_addstate_nil = None.
Proof. exact (conj (proj1 addstate_nil_refuted) (conj (proj2 addstate_nil_refuted) addstate_nil_fixed)). Qed.
Print Assumptions C13_addstate_nil_refuted.

(** expected refutation (flag [d_setcode_nil], repaired in /repo): SetCode(nil) on an account that
    has code: the old code in the same block, nil from the cache, the old code again after a reopen;
    the repaired model answers the empty code three times and agrees with the specification *)
Theorem C13_setcode_nil_refuted :
  map (fun i => nth i (snd (run E0 only_setcodenil st0 h_setcode_nil)) ONone) [4; 7; 9]%nat =
  [OS (SVal c1); OS (SVal None); OS (SVal c1)] /\
  pb_model false only_setcodenil h_setcode_nil = Some 4 /\
  wf_model cfg_fixed h_setcode_nil = true /\ pb_model true cfg_fixed h_setcode_nil = None.
Proof. exact (conj (proj1 setcode_nil_refuted) (conj (proj2 setcode_nil_refuted) (proj2 setcode_nil_fixed))). Qed.
Print Assumptions C13_setcode_nil_refuted.

(** expected refutation (flag [d_getcommitted], repaired in /repo): GetCommittedState answered the
    zero hash for every committed value; the repaired model returns the value *)
Theorem C13_getcommitted_refuted :
  pb_model false only_getcommitted h_getcommitted = Some 4 /\
  nth 4 (snd (run E0 cfg_fixed st0 h_getcommitted)) ONone = OS (SVal v1) /\
  wf_model cfg_fixed h_getcommitted = true /\ pb_model true cfg_fixed h_getcommitted = None.
Proof. exact (conj getcommitted_refuted getcommitted_fixed). Qed.
Print Assumptions C13_getcommitted_refuted.

(** open finding kept in the model *)

Theorem C13_empty_exists_refuted :
  pb_model false cfg_fixed h_empty = None /\ pb_model true cfg_fixed h_empty = Some 1 /\
  map (fun i => nth i (snd (run E0 cfg_fixed st0 h_empty)) ONone) [1; 4]%nat =
  [OS (SGet true (Some [])); OS (SGet false None)].
Proof. exact empty_exists_refuted. Qed.
Print Assumptions C13_empty_exists_refuted.

(** non-vacuity *)
Example C13_example : wf_model cfg_fixed h_example = true /\ pb_model true cfg_fixed h_example = None.
Proof. exact (conj example_in_domain example_agrees). Qed.
