(** C13 — reads return the latest write through dirty set, cache, database and reopen.
    Only statements, each closed by [exact]. *)
From BX Require Import Base.Prelude Base.Sha256 Model.JsonAcct Model.Merkle Model.StateLedger Model.LedgerSpec
  Proofs.LedgerWitness.
Local Open Scope N_scope.

(** expected refutations of C13_query_live on the pinned tree, one per flag *)
Theorem C13_query_dupkey_refuted :
  wf_model only_dupkey h_query = true /\ pb_model false only_dupkey h_query = Some 6.
Proof. exact query_dupkey_refuted. Qed.
Print Assumptions C13_query_dupkey_refuted.

Theorem C13_query_nil_refuted :
  wf_model only_qnil h_query = true /\ pb_model true only_qnil h_query = Some 6.
Proof. exact query_nil_refuted. Qed.
Print Assumptions C13_query_nil_refuted.

Theorem C13_query_cache_refuted :
  pb_model false only_qcache h_query_cache = Some 2 /\ pb_model true cfg_fixed h_query_cache = None.
Proof. exact (conj query_cache_refuted query_cache_fixed). Qed.
Print Assumptions C13_query_cache_refuted.

(** the answer of the pinned tree on the confirmed input: ["", "v1", "v2", "w1"] instead of ["v2"] *)
Theorem C13_query_pinned_output :
  nth 6 (snd (run E0 cfg_pinned st0 h_query)) ONone = OQuery true [None; v1; v2; w1] /\
  pb_model true cfg_fixed h_query = None.
Proof. exact (conj query_pinned_output query_fixed_ok). Qed.
Print Assumptions C13_query_pinned_output.

(** expected refutation of C13_revert_restores on the pinned tree (flag [d_orphan_changer]):
    after a Finalise in the same block, writes to an already loaded account are not undone *)
Theorem C13_orphan_changer_refuted :
  wf_model only_orphan h_orphan = true /\ pb_model false only_orphan h_orphan = Some 7 /\
  pb_model true cfg_fixed h_orphan = None.
Proof. exact (conj (proj1 orphan_changer_refuted) (conj (proj2 orphan_changer_refuted) orphan_changer_fixed)). Qed.
Print Assumptions C13_orphan_changer_refuted.

(** expected refutation (flag [d_addstate_origin]): AddState(k, nil) is lost by a reopen *)
Theorem C13_addstate_nil_refuted :
  wf_model only_addstate h_addstate_nil = true /\ pb_model false only_addstate h_addstate_nil = Some 8 /\
  pb_model true cfg_fixed h_addstate_nil = None.
Proof. exact (conj (proj1 addstate_nil_refuted) (conj (proj2 addstate_nil_refuted) addstate_nil_fixed)). Qed.
Print Assumptions C13_addstate_nil_refuted.

(** open findings kept in the model *)
Theorem C13_setcode_nil_refuted :
  map (fun i => nth i (snd (run E0 cfg_fixed st0 h_setcode_nil)) ONone) [4; 7; 9]%nat =
  [OS (SVal c1); OS (SVal None); OS (SVal c1)] /\
  pb_model false cfg_fixed h_setcode_nil = Some 4.
Proof. exact setcode_nil_refuted. Qed.
Print Assumptions C13_setcode_nil_refuted.

Theorem C13_getcommitted_refuted : pb_model false cfg_fixed h_getcommitted = Some 4.
Proof. exact getcommitted_refuted. Qed.
Print Assumptions C13_getcommitted_refuted.

Theorem C13_empty_exists_refuted :
  pb_model false cfg_fixed h_empty = None /\ pb_model true cfg_fixed h_empty = Some 1 /\
  map (fun i => nth i (snd (run E0 cfg_fixed st0 h_empty)) ONone) [1; 4]%nat =
  [OS (SGet true (Some [])); OS (SGet false None)].
Proof. exact empty_exists_refuted. Qed.
Print Assumptions C13_empty_exists_refuted.

(** non-vacuity *)
Example C13_example : wf_model cfg_fixed h_example = true /\ pb_model true cfg_fixed h_example = None.
Proof. exact (conj example_in_domain example_agrees). Qed.
