(** C14 — transfers and fees never create value.  Only statements, each closed by [exact].
    All theorems are about the repaired behaviour [fcfg_fixed]; the [_refuted] theorems exhibit
    the violations of the faithful behaviour (one per defect flag). *)
From BX Require Import Base.Prelude Model.Fees Model.ExecFrame Proofs.FeesProofs Proofs.NativeRefineProofs.
Local Open Scope Z_scope.

(** over any block of native transactions (any mix of successes and failures) the sum of the
    balances over every duplicate-free account set containing the admins and the touched accounts
    does not grow by more than the admin grants that took effect; one receipt per transaction *)
Theorem C14_conservation : forall dom e, admins e <> [] -> NoDup dom ->
  forall ts b b' oks g, covers dom e ts ->
  apply_block fcfg_fixed e b ts = (b', oks, g) ->
  conserve dom b b' g /\ length oks = length ts.
Proof. exact block_conservation. Qed.
Print Assumptions C14_conservation.

(** per transaction the books are exact up to the rounding loss of that transaction *)
Theorem C14_tx_accounting : forall dom e b t b' ok g,
  admins e <> [] -> NoDup dom -> incl (admins e) dom -> incl (ntx_accts t) dom ->
  apply_ntx fcfg_fixed e b t = (b', ok, g) ->
  exists loss, 0 <= loss <= Z.of_nat (length (admins e)) - 1 /\ sumb dom b' = sumb dom b + g - loss.
Proof. exact apply_ntx_accounting. Qed.
Print Assumptions C14_tx_accounting.

Theorem C14_fee_rounding : forall e fees, admins e <> [] ->
  0 <= fees - credits e fees <= Z.of_nat (length (admins e)) - 1.
Proof. exact fee_rounding. Qed.
Print Assumptions C14_fee_rounding.

(** a successful transfer moves exactly the amount (nothing when sender = receiver) *)
Theorem C14_transfer_exact : forall b f t v b',
  transfer fcfg_fixed b f t v = Some b' ->
  0 <= v /\ v <= b f \/ v = 0 ->
  (f <> t -> b' f = b f - v /\ b' t = b t + v) /\
  (f = t -> b' f = b f) /\
  (forall x, x <> f -> x <> t -> b' x = b x).
Proof. exact transfer_exact. Qed.
Print Assumptions C14_transfer_exact.

(** success is only possible for zero or a positive affordable amount; failure means a negative
    amount or insufficient funds, and then the transaction body changes nothing (the fee is taken) *)
Theorem C14_transfer_accepts : forall b f t v b',
  transfer fcfg_fixed b f t v = Some b' -> v = 0 \/ 0 < v <= b f.
Proof. exact transfer_some. Qed.
Print Assumptions C14_transfer_accepts.

Theorem C14_transfer_rejects : forall b f t v,
  transfer fcfg_fixed b f t v = None -> v < 0 \/ b f < v.
Proof. exact transfer_none. Qed.
Print Assumptions C14_transfer_rejects.

Theorem C14_failed_transfer_only_fee : forall e b f to amt,
  transfer fcfg_fixed b f to (parse_amount amt) = None ->
  ntx_body fcfg_fixed e b (NTransfer f to amt) = (b, false, GasNormal, 0).
Proof. exact failed_transfer_only_fee. Qed.
Print Assumptions C14_failed_transfer_only_fee.

(** no balance becomes negative; grants are non-negative *)
Theorem C14_nonneg : forall e, env_ok e -> forall ts b b' oks g, nonneg b ->
  apply_block fcfg_fixed e b ts = (b', oks, g) -> nonneg b' /\ 0 <= g.
Proof. exact block_nonneg. Qed.
Print Assumptions C14_nonneg.

(** accounts that are neither touched by the transaction nor admins keep their balance
    (any defect configuration) *)
Theorem C14_frame : forall c e b t b' ok g a, apply_ntx c e b t = (b', ok, g) ->
  ~ In a (ntx_accts t) -> ~ In a (admins e) -> b' a = b a.
Proof. exact apply_ntx_frame. Qed.
Print Assumptions C14_frame.

(** whole-balance fallback *)
Theorem C14_whole_balance_fallback : forall c e b t b1 ok gas g,
  ntx_body c e b t = (b1, ok, gas, g) -> b1 (ntx_from t) < gas * price e ->
  d_fee_after_body c = true \/ b (ntx_from t) < gas * price e ->
  apply_ntx c e b t = (pay_left e b (ntx_from t), false, 0) /\
  (~ In (ntx_from t) (admins e) -> pay_left e b (ntx_from t) (ntx_from t) = 0) /\
  (NoDup (admins e) -> forall a, In a (admins e) -> a <> ntx_from t ->
     pay_left e b (ntx_from t) a = b a + b (ntx_from t) / Z.of_nat (length (admins e))).
Proof. exact whole_balance_fallback. Qed.
Print Assumptions C14_whole_balance_fallback.

(** when only the balance left by the body is too small, exactly the fee is charged *)
Theorem C14_fee_after_revert : forall b t b1 ok gas g e,
  ntx_body fcfg_fixed e b t = (b1, ok, gas, g) -> b1 (ntx_from t) < gas * price e ->
  gas * price e <= b (ntx_from t) ->
  apply_ntx fcfg_fixed e b t =
    (pay_admins e (bset b (ntx_from t) (b (ntx_from t) - gas * price e)) (gas * price e), false, 0).
Proof. exact fee_after_revert. Qed.
Print Assumptions C14_fee_after_revert.

(** the executable ledger model the judge runs ([Model/ExecFrame.v]: undo log, revert, fee phase,
    nonce) computes exactly these balances and receipts on native transactions, for every
    configuration of the transfer / fee flags, provided journal entries are not lost *)
Theorem C14_exec_refines_fees : forall c, d_stale_changer c = false ->
  d_prev_from_memory c = false -> d_revert_drops_tombstone c = false ->
  forall e ts ns idx s b, beq (bal s) b ->
  let '(s', rcs, _) := apply_txs c e idx s (to_txs e ts ns) in
  let '(b', oks, _) := apply_block (x_fees c) e b ts in
  beq (bal s') b' /\ map r_ok rcs = oks.
Proof. exact native_block_refines. Qed.
Print Assumptions C14_exec_refines_fees.

Theorem C14_exec_conservation : forall c e dom ts ns s pre,
  d_stale_changer c = false -> d_prev_from_memory c = false -> d_revert_drops_tombstone c = false ->
  x_fees c = fcfg_fixed ->
  admins e <> [] -> NoDup dom -> covers dom e ts ->
  let '(s', rcs, _) := exec_block c e s pre (to_txs e ts ns) in
  let '(_, _, g) := apply_block fcfg_fixed e (bal s) ts in
  conserve dom (bal s) (bal s') g /\ length rcs = length ts.
Proof. exact exec_block_conservation. Qed.
Print Assumptions C14_exec_conservation.

(** fees reach the admins: over any block, what leaves the books is between 0 and (admins - 1) units
    per transaction - on every fee path, including the whole-balance fallback of a sender who is
    itself a fee-receiving admin (its own share is credited AFTER its account was emptied) *)
Theorem C14_block_accounting : forall dom e, admins e <> [] -> NoDup dom ->
  forall ts b b' oks g, covers dom e ts ->
  apply_block fcfg_fixed e b ts = (b', oks, g) ->
  exists loss, 0 <= loss <= (Z.of_nat (length (admins e)) - 1) * Z.of_nat (length ts) /\
               sumb dom b' = sumb dom b + g - loss.
Proof. exact block_accounting. Qed.
Print Assumptions C14_block_accounting.

Theorem C14_exec_loss_bound : forall c e dom ts ns s pre,
  d_stale_changer c = false -> d_prev_from_memory c = false -> d_revert_drops_tombstone c = false ->
  x_fees c = fcfg_fixed ->
  admins e <> [] -> NoDup dom -> covers dom e ts ->
  let '(s', rcs, _) := exec_block c e s pre (to_txs e ts ns) in
  let '(_, _, g) := apply_block fcfg_fixed e (bal s) ts in
  loss_bound dom (bal s) (bal s') g (length (admins e)) (length ts).
Proof. exact exec_block_loss_bound. Qed.
Print Assumptions C14_exec_loss_bound.

(** the order of the two statements of the fallback matters for an admin sender: emptying the
    account after paying the admins keeps conservation but loses the sender's share (expected
    refutation of that order; the code as it stands empties first) *)
Theorem C14_fallback_admin_sender :
  loss_b [100%N; 101%N; 102%N; 103%N] b_drained (pay_left env4 b_drained 101%N) 0 4 1 = true /\
  pay_left env4 b_drained 101%N 101%N = 197125000.
Proof. exact fallback_admin_sender. Qed.

Theorem C14_zero_last_refuted :
  loss_b [100%N; 101%N; 102%N; 103%N] b_drained (pay_left_zero_last env4 b_drained 101%N) 0 4 1 = false /\
  pay_left_zero_last env4 b_drained 101%N 101%N = 0 /\
  conserve_b [100%N; 101%N; 102%N; 103%N] b_drained (pay_left_zero_last env4 b_drained 101%N) 0 = true.
Proof. exact zero_last_refuted. Qed.
Print Assumptions C14_zero_last_refuted.

(** the boolean predicates the judge evaluates on implementation traces are the propositions above *)
Theorem C14_loss_b_spec : forall dom b b' g n k, loss_b dom b b' g n k = true <-> loss_bound dom b b' g n k.
Proof. exact loss_b_spec. Qed.
Theorem C14_conserve_b_spec : forall dom b b' g, conserve_b dom b b' g = true <-> conserve dom b b' g.
Proof. exact conserve_b_spec. Qed.
Theorem C14_nonneg_b_spec : forall dom b, nonneg_b dom b = true <-> nonneg_on dom b.
Proof. exact nonneg_b_spec. Qed.

(** faithful behaviour of the unchanged code: both flags are refuted by concrete blocks *)
Theorem C14_self_transfer_refuted :
  exists b' oks g, apply_block {| d_self_transfer := true; d_neg_amount := false; d_fee_after_body := false |} env3 b1000
                     [NTransfer 1%N 1%N (ADec 400)] = (b', oks, g) /\
    conserve_b [1%N; 100%N; 101%N; 102%N] b1000 b' g = false.
Proof. exact self_transfer_refuted. Qed.
Print Assumptions C14_self_transfer_refuted.

Theorem C14_neg_amount_refuted :
  exists b' oks g, apply_block {| d_self_transfer := false; d_neg_amount := true; d_fee_after_body := false |} env3 b1000
                     [NTransfer 1%N 2%N (ADec (-30))] = (b', oks, g) /\
    oks = [true] /\ b' 1%N = 1030 /\ b' 2%N = -30 /\
    nonneg_b [1%N; 2%N; 100%N; 101%N; 102%N] b' = false.
Proof. exact neg_amount_refuted. Qed.
Print Assumptions C14_neg_amount_refuted.

(** non-vacuity: a block mixing a success, an unaffordable transfer, a failing call, a grant and a
    transaction whose fee is not affordable, with a fee that does not divide evenly *)
Definition ex_env : fenv := {| admins := [100%N; 101%N; 102%N; 103%N]; price := 3; genesis_bal := 1000000 |}.
Definition ex_b : bals := of_alist [(1%N, 200000); (2%N, 50); (100%N, 900000)].
Example C14_example :
  let '(b', oks, g) := apply_block fcfg_fixed ex_env ex_b
     [NTransfer 1%N 2%N (ADec 1000); NTransfer 1%N 2%N (ADec 999999); NCall 2%N false;
      NGrant 100%N 7%N true; NTransfer 1%N 1%N (ADec 5)] in
  oks = [true; false; false; true; true] /\ g = 1000000 /\
  b' 2%N = 0 /\ b' 7%N = 1000000 /\
  sumb [1%N; 2%N; 7%N; 100%N; 101%N; 102%N; 103%N] b' =
  sumb [1%N; 2%N; 7%N; 100%N; 101%N; 102%N; 103%N] ex_b + g - 2 - 0 - 0.
Proof. vm_compute. repeat split; reflexivity. Qed.
