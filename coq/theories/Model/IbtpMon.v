(** Boolean trace predicates for C02 / C04 / C05 / C06: evaluated by the judge on the
    observations printed by the REAL executor (first), and on the model's own traces.
    A trace is the list of per-block observations [bobs]; the history supplies the operations.
    Definitions only. *)
From BX Require Import Base.Prelude Base.Fsm Model.TxFsm Model.TxMgr Model.Interchain Model.IbtpExec.
From Coq Require Import String.
Local Open Scope N_scope.

(** * helpers *)
Fixpoint alook {V} (i : txid) (l : list (txid * V)) : option V :=
  match l with [] => None | (j, v) :: r => if txid_eqb i j then Some v else alook i r end.
Definition aput {V} (i : txid) (v : V) (l : list (txid * V)) : list (txid * V) :=
  (i, v) :: filter (fun p => negb (txid_eqb (fst p) i)) l.
Definition mem_id (i : txid) (l : list txid) : bool := existsb (txid_eqb i) l.
Fixpoint galook {V} (g : gid) (l : list (gid * V)) : option V :=
  match l with [] => None | (j, v) :: r => if gid_eqb g j then Some v else galook g r end.
Definition gaput {V} (g : gid) (v : V) (l : list (gid * V)) : list (gid * V) :=
  (g, v) :: filter (fun p => negb (gid_eqb (fst p) g)) l.

Definition pair_eqb2 (a b : svc * svc) : bool := (fst a =? fst b) && (snd a =? snd b).
Fixpoint plook (p : svc * svc) (l : list ((svc * svc) * N)) : N :=
  match l with [] => 0 | (q, v) :: r => if pair_eqb2 p q then v else plook p r end.
Definition pput (p : svc * svc) (v : N) (l : list ((svc * svc) * N)) : list ((svc * svc) * N) :=
  (p, v) :: filter (fun x => negb (pair_eqb2 (fst x) p)) l.

Definition ids_in_cmap (m : list (N * list tok)) : list (N * txid) :=
  flat_map (fun p => flat_map (fun t => match t with TTx i => [(fst p, i)] | _ => [] end) (snd p)) m.
Definition cmap_has (m : list (N * list tok)) (k : N) (i : txid) : bool :=
  existsb (fun p => (fst p =? k) && txid_eqb (snd p) i) (ids_in_cmap m).
Definition cnt_has (m : list (N * list (N * N * N))) (k idx : N) : bool :=
  existsb (fun p => (fst p =? k) && existsb (fun e => fst (fst e) =? idx) (snd p)) m.
Definition cnt_any (m : list (N * list (N * N * N))) (idx : N) : bool :=
  existsb (fun p => existsb (fun e => fst (fst e) =? idx) (snd p)) m.

(** no transaction index twice in one chain's Counter list, no id twice in one chain's notification list *)
Fixpoint nodupN (l : list N) : bool :=
  match l with [] => true | x :: r => negb (existsb (N.eqb x) r) && nodupN r end.
Definition cnt_nodup (m : list (N * list (N * N * N))) : bool :=
  forallb (fun p => nodupN (map (fun e : N * N * N => fst (fst e)) (snd p))) m.
(** a chain is told about a child once per role: once as the source's chain, once more only when it is also the
    chain of the child's destination *)
Definition cmap_nodup (w : world) (m : list (N * list tok)) : bool :=
  forallb (fun p : N * list tok =>
             forallb (fun t => match t with
                               | TTx i =>
                                   let n := List.length (filter (tok_eqb t) (snd p)) in
                                   if chain_of w (fst (fst i)) =? chain_of w (snd (fst i)) then Nat.leb n 2 else Nat.leb n 1
                               | _ => true
                               end) (snd p)) m.

Definition rc_ok (r : N * N * N) : bool := fst (fst r) =? 1.
Definition rc_ret (r : N * N * N) : N := snd r.

Definition hubs_differ (w : world) (b : ibtp) : bool :=
  match svc_lookup w (b_from b), svc_lookup w (b_to b) with
  | Some sf, Some sd => negb (sv_hub sf =? sv_hub sd)
  | _, _ => false
  end.

(** observed status of a queried id / gid *)
Fixpoint nth_opt {A} (n : nat) (l : list A) : option A :=
  match l, n with [], _ => None | x :: _, O => Some x | _ :: r, S k => nth_opt k r end.
Fixpoint index_of (i : txid) (l : list txid) (n : nat) : option nat :=
  match l with [] => None | j :: r => if txid_eqb i j then Some n else index_of i r (S n) end.
Fixpoint gindex_of (g : gid) (l : list gid) (n : nat) : option nat :=
  match l with [] => None | j :: r => if gid_eqb g j then Some n else gindex_of g r (S n) end.
Definition obs_st (q : query) (ob : bobs) (i : txid) : option (option N) :=
  match index_of i (q_ids q) O with Some n => nth_opt n (o_st ob) | None => None end.
Definition obs_gst (q : query) (ob : bobs) (g : gid) : option (option N) :=
  match gindex_of g (q_gids q) O with Some n => nth_opt (List.length (q_ids q) + n) (o_st ob) | None => None end.
Definition obs_ch (q : query) (ob : bobs) (g : gid) : option (N * N * N * list (txid * N)) :=
  match gindex_of g (q_gids q) O with
  | Some n => match nth_opt n (o_ch ob) with Some (Some x) => Some x | _ => None end
  | None => None
  end.
Definition obs_ix (q : query) (ob : bobs) (i : txid) : option (option N * option N) :=
  match index_of i (q_ids q) O with Some n => nth_opt n (o_ix ob) | None => None end.
Definition obs_counter (ob : bobs) (f t : svc) (which : N) : N :=
  match nth_opt (N.to_nat (f - 1)) (o_ic ob) with
  | Some (Some rows) =>
      match find (fun r : svc * (N * N * N * N) => fst r =? t) rows with
      | Some (_, (a, b, c, d)) => if which =? 0 then a else if which =? 1 then b else if which =? 2 then c else d
      | None => 0
      end
  | _ => 0
  end.

(** * C04: replay of the accepted events through the generated table; every fired transition must
    also be one of the PROTOCOL's edges ([TxFsm.allowed_edges], written down from the property, not
    generated), so that a transition added to the table in the source is reported *)
Definition edge_ok (s s' : N) : bool :=
  existsb (fun e : string * string => String.eqb (fst e) (status_name s) && String.eqb (snd e) (status_name s')) allowed_edges.
Definition fire (s : N) (ev : string) : option N :=
  match set_fsm s ev with
  | Some s' => if edge_ok s s' then Some s' else None
  | None => None
  end.

Record c4s := { c4_st : list (txid * N); c4_kids : list txid }.
Definition c4_init : c4s := Build_c4s [] [].

Definition c4_tx (w : world) (acc : option c4s) (o : op) (r : N * N * N) : option c4s :=
  match acc, o with
  | None, _ => None
  | Some a, OIbtp b _ =>
      if negb (rc_ok r) then Some a
      else if is_request b then
        match alook (b_id b) (c4_st a) with
        | None =>
            if (match b_grp b with Some _ => true | None => false end) && negb (hubs_differ w b)
            then Some (Build_c4s (c4_st a) (b_id b :: c4_kids a))
            else if mem_id (b_id b) (c4_kids a) then None
            else Some (Build_c4s (aput (b_id b) (if rc_ret r =? 1 then ST_BEGIN_FAILURE else ST_BEGIN) (c4_st a)) (c4_kids a))
        | Some s =>
            match fire s (event_of_txstatus (b_xst b)) with
            | Some s' => if hubs_differ w b then Some (Build_c4s (aput (b_id b) s' (c4_st a)) (c4_kids a)) else None
            | None => None
            end
        end
      else
        match alook (b_id b) (c4_st a) with
        | Some s =>
            match fire s (event_of_receipt (b_typ b)) with
            | Some s' => Some (Build_c4s (aput (b_id b) s' (c4_st a)) (c4_kids a))
            | None => None
            end
        | None => if mem_id (b_id b) (c4_kids a) then Some a else None
        end
  | Some a, _ => Some a
  end.

Fixpoint c4_txs (w : world) (acc : option c4s) (ops : list op) (rs : list (N * N * N)) : option c4s :=
  match ops, rs with
  | o :: ops', r :: rs' => c4_txs w (c4_tx w acc o r) ops' rs'
  | [], [] => acc
  | _, _ => None
  end.

(** ids announced as timed out: tracked one-to-one ids must be BEGIN and become BEGIN_ROLLBACK *)
Fixpoint dedup_ids (l : list txid) : list txid :=
  match l with [] => [] | i :: r => if mem_id i r then dedup_ids r else i :: dedup_ids r end.
Definition c4_timeouts (acc : option c4s) (ob : bobs) : option c4s :=
  fold_left (fun acc i =>
               match acc with
               | None => None
               | Some a =>
                   match alook i (c4_st a) with
                   | Some s => if s =? ST_BEGIN then Some (Build_c4s (aput i ST_BEGIN_ROLLBACK (c4_st a)) (c4_kids a)) else None
                   | None => if mem_id i (c4_kids a) then Some a else None
                   end
               end) (dedup_ids (map snd (ids_in_cmap (o_to ob)))) acc.

Definition c4_check (q : query) (a : c4s) (ob : bobs) : bool :=
  forallb (fun i =>
             match obs_st q ob i with
             | None => true
             | Some os =>
                 match alook i (c4_st a) with
                 | Some s => option_eqb N.eqb os (Some s)
                 | None => if mem_id i (c4_kids a) then true else option_eqb N.eqb os None
                 end
             end) (q_ids q).

(** * C02: index order, counters, delivery *)
Record c2s := {
  c2_nreq : list ((svc * svc) * N);          (* accepted requests per pair *)
  c2_acc : list (txid * N);                  (* accepted request ids with the serial of their transaction *)
  c2_rcpt : list txid                        (* ids with an accepted receipt / notice *)
}.
Definition c2_init : c2s := Build_c2s [] [] [].

Definition c2_tx (w : world) (h : N) (prev : option bobs) (ob : bobs) (acc : option (c2s * N)) (o : op) (r : N * N * N)
  : option (c2s * N) :=
  match acc with
  | None => None
  | Some (a, idx) =>
      let next := Some (a, idx + 1) in
      match o with
      | OIbtp b _ =>
          if negb (rc_ok r) then (if cnt_any (o_cnt ob) idx then None else next)
          else
            let p := (b_from b, b_to b) in
            let known := match alook (b_id b) (c2_acc a) with Some _ => true | None => false end in
            if is_request b && negb (known && hubs_differ w b) then
              (* a plain request: next index of its pair, announced to its destination in this block *)
              if (b_idx b =? plook p (c2_nreq a) + 1) && negb known && cnt_has (o_cnt ob) (chain_of w (b_to b)) idx
              then Some (Build_c2s (pput p (b_idx b) (c2_nreq a)) ((b_id b, 1000 * h + idx) :: c2_acc a) (c2_rcpt a), idx + 1)
              else None
            else
              (* a receipt (or the destination hub's notice): only for an accepted request, not yet finalised *)
              let rc_prev := match prev with Some pb => obs_counter pb (b_from b) (b_to b) 1 | None => 0 end in
              if known && (rc_prev <? b_idx b) && (b_idx b <=? plook p (c2_nreq a))
              then Some (Build_c2s (c2_nreq a) (c2_acc a) (b_id b :: c2_rcpt a), idx + 1)
              else None
      | _ => if cnt_any (o_cnt ob) idx then None else next
      end
  end.

Fixpoint c2_txs (w : world) (h : N) (prev : option bobs) (ob : bobs) (acc : option (c2s * N)) (ops : list op) (rs : list (N * N * N))
  : option (c2s * N) :=
  match ops, rs with
  | o :: ops', r :: rs' => c2_txs w h prev ob (c2_tx w h prev ob acc o r) ops' rs'
  | [], [] => acc
  | _, _ => None
  end.

Fixpoint seqN1 (n : nat) (from : N) : list N := match n with O => [] | S k => from :: seqN1 k (from + 1) end.

Definition c2_check (w : world) (q : query) (a : c2s) (prev : option bobs) (ob : bobs) : bool :=
  let svcs := seqN1 (N.to_nat (q_nsvc q)) 1 in
  (* delivered once: a transaction is listed at most once per chain in Counter *)
  cnt_nodup (o_cnt ob) &&
  forallb (fun f => forallb (fun t =>
     let ic := obs_counter ob f t 0 in
     let rc := obs_counter ob f t 1 in
     (ic =? plook (f, t) (c2_nreq a)) &&                           (* counter = accepted requests *)
     (obs_counter ob t f 2 =? ic) && (obs_counter ob t f 3 =? rc) && (* mirrored at the destination *)
     (rc <=? ic) &&
     (match prev with Some pb => obs_counter pb f t 1 <=? rc | None => true end)) svcs) svcs &&
  forallb (fun i =>
     match obs_ix q ob i with
     | None => true
     | Some (rq, rcp) =>
         option_eqb N.eqb rq (alook i (c2_acc a)) &&
         (match rcp with Some _ => mem_id i (c2_rcpt a) | None => true end)
     end) (q_ids q).

Fixpoint c02_go (w : world) (q : query) (h : N) (a : c2s) (prev : option bobs) (items : list item) (tr : list bobs) : bool :=
  match items with
  | [] => match tr with [] => true | _ => false end
  | IRestart :: r => c02_go w q h a prev r tr
  | IBlock ops :: r =>
      match tr with
      | [] => false
      | ob :: tr' =>
          match c2_txs w (h + 1) prev ob (Some (a, 0)) ops (o_rc ob) with
          | None => false
          | Some (a', _) => c2_check w q a' prev ob && c02_go w q (h + 1) a' (Some ob) r tr'
          end
      end
  end.
Definition c02_b (w : world) (q : query) (items : list item) (tr : list bobs) : bool := c02_go w q 2 c2_init None items tr.

(** * C05: one-to-many groups, from the observed group records *)
Definition in_fail_family (s : N) : bool :=
  (s =? ST_BEGIN_FAILURE) || (s =? ST_FAILURE) || (s =? ST_BEGIN_ROLLBACK) || (s =? ST_ROLLBACK).
Definition g_ok_b (a b : option N) : bool :=
  option_eqb N.eqb a b ||
  match a, b with
  | None, _ => true
  | Some x, Some y =>
      (x =? ST_BEGIN) || ((x =? ST_BEGIN_FAILURE) && (y =? ST_FAILURE)) || ((x =? ST_BEGIN_ROLLBACK) && (y =? ST_ROLLBACK))
  | Some _, None => false
  end.

(** children of [g] whose failing begin / failure receipt was accepted in this block *)
Definition c5_triggers (g : gid) (kids : list txid) (ops : list op) (rs : list (N * N * N)) : list txid :=
  flat_map (fun p : op * (N * N * N) =>
              match fst p with
              | OIbtp b _ =>
                  if rc_ok (snd p) then
                    if is_request b then
                      (if option_eqb gid_eqb (group_gid b) (Some g) && (rc_ret (snd p) =? 1) then [b_id b] else [])
                    else (if (b_typ b =? 2) && mem_id (b_id b) kids then [b_id b] else [])
                  else []
              | _ => []
              end) (combine ops rs).

(** the requests of the whole history that carry group [g] (its declared members as far as the history shows them) *)
Definition c5_declared (all : list item) (g : gid) : list txid :=
  flat_map (fun it => match it with
                      | IBlock ops =>
                          flat_map (fun o => match o with
                                             | OIbtp b _ => if is_request b && option_eqb gid_eqb (group_gid b) (Some g) then [b_id b] else []
                                             | _ => []
                                             end) ops
                      | IRestart => []
                      end) all.

Definition c5_check (w : world) (q : query) (all : list item) (bh : N) (ops : list op) (prev : option bobs) (ob : bobs) (g : gid) : bool :=
  match obs_ch q ob g with
  | None => true
  | Some (gs, hh, cnt, kids) =>
      let pch := match prev with Some pb => obs_ch q pb g | None => None end in
      let pgs := match pch with Some (x, _, _, _) => Some x | None => None end in
      let pkids := match pch with Some (_, _, _, k) => k | None => [] end in
      (* the record the group is filed under holds only this group's own children (two declared groups never
         share a record) *)
      forallb (fun k => mem_id (fst k) (c5_declared all g)) kids &&
      (* every chain is told about a child at most once per block *)
      cmap_nodup w (o_mt ob) && cmap_nodup w (o_to ob) &&
      (* SUCCESS only with every declared child SUCCESS *)
      (if gs =? ST_SUCCESS then (N.of_nat (List.length kids) =? cnt) && forallb (fun k => snd k =? ST_SUCCESS) kids else true) &&
      (* after a failure / timeout every child is in a failure or rollback status *)
      (if in_fail_family gs then forallb (fun k => in_fail_family (snd k)) kids else true) &&
      (* never SUCCESS once failed *)
      g_ok_b pgs (Some gs) &&
      (* the group times out: from the block of its recorded timeout height on it is not BEGIN any more
         (so, by the previous line, it can become SUCCESS afterwards only if it already was) *)
      negb ((hh <=? bh) && (gs =? ST_BEGIN)) &&
      (* the block in which the group leaves BEGIN for a failure status *)
      (if (match pgs with Some x => x =? ST_BEGIN | None => false end) && in_fail_family gs then
         let src := chain_of w (fst (fst g)) in
         let trig := c5_triggers g (map fst kids) ops (o_rc ob) in
         let by_timeout := cmap_has (o_to ob) src (match kids with k :: _ => fst k | [] => (0, 0, 0) end)
                           && match trig with [] => true | _ => false end in
         if by_timeout then
           forallb (fun k => cmap_has (o_to ob) src (fst k)) kids &&
           forallb (fun k => if snd k =? ST_SUCCESS then cmap_has (o_to ob) (chain_of w (snd (fst (fst k)))) (fst k) else true) pkids
         else
           forallb (fun k => mem_id (fst k) trig || cmap_has (o_mt ob) src (fst k)) pkids &&
           (* every child that had succeeded — the reporting child included — is announced to its destination *)
           forallb (fun k => if snd k =? ST_SUCCESS
                             then cmap_has (o_mt ob) (chain_of w (snd (fst (fst k)))) (fst k) else true) pkids
       else true)
  end.

Fixpoint c05_go (w : world) (q : query) (all : list item) (h : N) (prev : option bobs) (items : list item) (tr : list bobs) : bool :=
  match items with
  | [] => match tr with [] => true | _ => false end
  | IRestart :: r => c05_go w q all h prev r tr
  | IBlock ops :: r =>
      match tr with
      | [] => false
      | ob :: tr' => forallb (c5_check w q all (h + 1) ops prev ob) (q_gids q) && c05_go w q all (h + 1) (Some ob) r tr'
      end
  end.
Definition c05_b (w : world) (q : query) (items : list item) (tr : list bobs) : bool := c05_go w q items 2 None items tr.

(** * C06: an id is announced as timed out exactly at H+T, iff no receipt was accepted by then *)
Record c6e := { c6_exp : N; c6_rcv : bool }.
Record c6s := {
  c6_tx : list (txid * c6e);        (* registered one-to-one ids *)
  c6_never : list txid;             (* accepted one-to-one ids that must never time out *)
  c6_kids : list (txid * gid);      (* group children *)
  c6_grp : list (gid * N)           (* group -> expiry height (0 = never) *)
}.
Definition c6_init : c6s := Build_c6s [] [] [] [].

Definition valid_T (h : N) (b : ibtp) : bool :=
  negb ((b_T b <=? 0)%Z || (MAXU64 - h <=? u64_of_Z (b_T b))).

Definition c6_txstep (w : world) (h : N) (a : c6s) (o : op) (r : N * N * N) : c6s :=
  match o with
  | OIbtp b _ =>
      if negb (rc_ok r) then a
      else if is_request b then
        match alook (b_id b) (c6_tx a), mem_id (b_id b) (c6_never a) with
        | None, false =>
            if hubs_differ w b then Build_c6s (c6_tx a) (b_id b :: c6_never a) (c6_kids a) (c6_grp a)
            else match group_gid b with
                 | Some g =>
                     let grp := match galook g (c6_grp a) with
                                | Some _ => c6_grp a
                                | None => gaput g (if (rc_ret r =? 1) || negb (valid_T h b)
                                                   then 0 else h + u64_of_Z (b_T b)) (c6_grp a)
                                end in
                     Build_c6s (c6_tx a) (c6_never a) ((b_id b, g) :: c6_kids a) grp
                 | None =>
                     if (rc_ret r =? 1) || negb (valid_T h b) then Build_c6s (c6_tx a) (b_id b :: c6_never a) (c6_kids a) (c6_grp a)
                     else Build_c6s (aput (b_id b) (Build_c6e (h + u64_of_Z (b_T b)) false) (c6_tx a)) (c6_never a) (c6_kids a) (c6_grp a)
                 end
        | _, _ => a
        end
      else
        match alook (b_id b) (c6_tx a) with
        | Some e => Build_c6s (aput (b_id b) (Build_c6e (c6_exp e) true) (c6_tx a)) (c6_never a) (c6_kids a) (c6_grp a)
        | None => a
        end
  | _ => a
  end.

Fixpoint c6_txs (w : world) (h : N) (a : c6s) (ops : list op) (rs : list (N * N * N)) : c6s :=
  match ops, rs with
  | o :: ops', r :: rs' => c6_txs w h (c6_txstep w h a o r) ops' rs'
  | _, _ => a
  end.

Definition listed_in (ob : bobs) (i : txid) : nat :=
  List.length (filter (fun p => txid_eqb (snd p) i) (ids_in_cmap (o_to ob))).

Definition c6_check (w : world) (q : query) (h : N) (a : c6s) (prev : option bobs) (ob : bobs) : bool :=
  (* registered one-to-one ids: listed (once, under the source chain) exactly at their expiry without a receipt *)
  forallb (fun p : txid * c6e =>
             let i := fst p in let e := snd p in
             if (c6_exp e =? h) && negb (c6_rcv e)
             then Nat.eqb (listed_in ob i) 1 && cmap_has (o_to ob) (chain_of w (fst (fst i))) i
                  && match obs_st q ob i with Some os => option_eqb N.eqb os (Some ST_BEGIN_ROLLBACK) | None => true end
             else Nat.eqb (listed_in ob i) 0) (c6_tx a) &&
  (* ids that must never time out *)
  forallb (fun i => Nat.eqb (listed_in ob i) 0) (c6_never a) &&
  (* everything listed is known *)
  forallb (fun p : N * txid =>
             match alook (snd p) (c6_tx a) with
             | Some _ => true
             | None => match alook (snd p) (c6_kids a) with Some _ => true | None => false end
             end) (ids_in_cmap (o_to ob)) &&
  (* groups: children are listed only at the group's expiry, and a group that reaches its expiry does not stay BEGIN *)
  forallb (fun p : txid * gid =>
             let i := fst p in let g := snd p in
             let e := match galook g (c6_grp a) with Some x => x | None => 0 end in
             (if Nat.eqb (listed_in ob i) 0 then true else (e =? h) && negb (e =? 0))) (c6_kids a) &&
  forallb (fun p : gid * N =>
             if (snd p =? h) && negb (snd p =? 0)
             then match obs_gst q ob (fst p) with
                  | Some (Some s) => negb (s =? ST_BEGIN)
                  | Some None => false          (* a group whose child was accepted exists *)
                  | None => true
                  end &&
                  (* rolled back as a whole: every child, the already answered ones included *)
                  match obs_ch q ob (fst p) with
                  | Some (gs, _, _, kids) =>
                      if gs =? ST_BEGIN_ROLLBACK then forallb (fun k : txid * N => snd k =? ST_BEGIN_ROLLBACK) kids else true
                  | None => true
                  end
             else true) (c6_grp a).

Fixpoint c06_go (w : world) (q : query) (h : N) (a : c6s) (prev : option bobs) (items : list item) (tr : list bobs) : bool :=
  match items with
  | [] => match tr with [] => true | _ => false end
  | IRestart :: r => c06_go w q h a prev r tr
  | IBlock ops :: r =>
      match tr with
      | [] => false
      | ob :: tr' =>
          let a' := c6_txs w (h + 1) a ops (o_rc ob) in
          c6_check w q (h + 1) a' prev ob && c06_go w q (h + 1) a' (Some ob) r tr'
      end
  end.
Definition c06_b (w : world) (q : query) (items : list item) (tr : list bobs) : bool := c06_go w q 2 c6_init None items tr.

(** * C04, continued: the expiry of a registered request is an event of the history whether or not the
    implementation announces it: the registrations are those of the C06 monitor ([c6_txs]); a registered id
    that reaches its height without an accepted receipt and is still BEGIN takes the [timeout] transition *)
Definition c4_expiries (h : N) (e : c6s) (acc : option c4s) : option c4s :=
  fold_left (fun acc p =>
               match acc with
               | None => None
               | Some a =>
                   let i := fst (p : txid * c6e) in
                   if (c6_exp (snd p) =? h) && negb (c6_rcv (snd p)) then
                     match alook i (c4_st a) with
                     | Some s => if s =? ST_BEGIN then Some (Build_c4s (aput i ST_BEGIN_ROLLBACK (c4_st a)) (c4_kids a)) else Some a
                     | None => Some a
                     end
                   else Some a
               end) (c6_tx e) acc.

Fixpoint c04_go (w : world) (q : query) (h : N) (a : c4s) (e : c6s) (items : list item) (tr : list bobs) : bool :=
  match items with
  | [] => match tr with [] => true | _ => false end
  | IRestart :: r => c04_go w q h a e r tr
  | IBlock ops :: r =>
      match tr with
      | [] => false
      | ob :: tr' =>
          let e' := c6_txs w (h + 1) e ops (o_rc ob) in
          match c4_expiries (h + 1) e' (c4_timeouts (c4_txs w (Some a) ops (o_rc ob)) ob) with
          | None => false
          | Some a' => c4_check q a' ob && c04_go w q (h + 1) a' e' r tr'
          end
      end
  end.
Definition c04_b (w : world) (q : query) (items : list item) (tr : list bobs) : bool := c04_go w q 2 c4_init c6_init items tr.

(** * Prop-level readings of the four predicates (the same recursions; see Proofs/IbtpMonProofs.v for
    the equivalences) *)
Definition C02_holds (w : world) (q : query) (items : list item) (tr : list bobs) : Prop := c02_b w q items tr = true.
Definition C04_holds (w : world) (q : query) (items : list item) (tr : list bobs) : Prop := c04_b w q items tr = true.
Definition C05_holds (w : world) (q : query) (items : list item) (tr : list bobs) : Prop := c05_b w q items tr = true.
Definition C06_holds (w : world) (q : query) (items : list item) (tr : list bobs) : Prop := c06_b w q items tr = true.
