(** Byte-level encoding of [ledger.InnerAccount] exactly as Go's [json.Marshal] produces it
    (eth-kit/ledger/inner_account.go):

      {"nonce":<uint64 decimal>,"balance":<big.Int decimal>,"code_hash":null | "<base64 std, padded>"}

    [*big.Int] marshals as a bare decimal number ("-" sign for negatives); [[]byte] marshals as a
    base64 string, a nil slice as [null].  None of the characters produced needs JSON escaping.
    Definitions only. *)
From BX Require Import Base.Prelude.
Local Open Scope N_scope.

Definition bytes := list N.

(** ASCII of a string literal is avoided: byte lists are written directly *)
Definition ch_digit (d : N) : N := 48 + d.

Fixpoint dec_digits (fuel : nat) (n : N) (acc : bytes) : bytes :=
  match fuel with
  | O => acc
  | S k => let acc' := ch_digit (n mod 10) :: acc in
           if n / 10 =? 0 then acc' else dec_digits k (n / 10) acc'
  end.

(** decimal text of a natural number; fuel = number of bits + 1 is always enough *)
Definition dec_N (n : N) : bytes := dec_digits (S (N.to_nat (N.size n))) n [].

Definition dec_Z (z : Z) : bytes :=
  match z with
  | Z0 => [48]
  | Zpos p => dec_N (Npos p)
  | Zneg p => 45 :: dec_N (Npos p)
  end.

(** base64, standard alphabet, '=' padding *)
Definition b64_char (i : N) : N :=
  if i <? 26 then 65 + i
  else if i <? 52 then 97 + (i - 26)
  else if i <? 62 then 48 + (i - 52)
  else if i =? 62 then 43 else 47.

Fixpoint b64 (bs : bytes) : bytes :=
  match bs with
  | [] => []
  | [a] => [b64_char (a / 4); b64_char ((a mod 4) * 16); 61; 61]
  | [a; b] => [b64_char (a / 4); b64_char ((a mod 4) * 16 + b / 16); b64_char ((b mod 16) * 4); 61]
  | a :: b :: c :: t =>
      b64_char (a / 4) :: b64_char ((a mod 4) * 16 + b / 16) ::
      b64_char ((b mod 16) * 4 + c / 64) :: b64_char (c mod 64) :: b64 t
  end.

(** {"nonce": *)
Definition js_nonce : bytes := [123; 34; 110; 111; 110; 99; 101; 34; 58].
(** ,"balance": *)
Definition js_balance : bytes := [44; 34; 98; 97; 108; 97; 110; 99; 101; 34; 58].
(** ,"code_hash": *)
Definition js_codehash : bytes := [44; 34; 99; 111; 100; 101; 95; 104; 97; 115; 104; 34; 58].
Definition js_null : bytes := [110; 117; 108; 108].

Definition json_acct (nonce : N) (bal : Z) (ch : option bytes) : bytes :=
  js_nonce ++ dec_N nonce ++ js_balance ++ dec_Z bal ++ js_codehash ++
  match ch with
  | None => js_null
  | Some h => 34 :: b64 h ++ [34]
  end ++ [125].
