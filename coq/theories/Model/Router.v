(** Model of [internal/router/interchain.go]: [classify], [GetInterchainTxWrappers] and
    [PutBlockAndMeta] — how the per-block delivery metadata (Counter / TimeoutCounter /
    MultiTxCounter of C02, C05, C06) is turned into what an appchain's pier is actually told.
    Definitions only.  Destinations, transaction ids and IBTP ids are [N]. *)
From BX Require Import Base.Prelude.
Local Open Scope N_scope.

(** one [pb.VerifiedIndex] *)
Record vindex := { vi_index : N; vi_valid : bool; vi_batch : bool }.

Record meta := {
  m_counter : list (N * list vindex);      (* Counter: destination -> verified indices      *)
  m_timeout : list (N * list N);           (* TimeoutCounter: destination -> ibtp ids        *)
  m_multi   : list (N * list N);           (* MultiTxCounter: destination -> ibtp ids        *)
  m_tl2     : bool                         (* TimeoutL2Roots non-empty                       *)
}.

Record block := { b_height : N; b_txs : list N }.     (* tx ids in block order *)

Record vtx := { vt_tx : N; vt_valid : bool; vt_batch : bool }.
Record wrapper := {
  w_height  : N;
  w_txs     : list vtx;
  w_timeout : list N;
  w_multi   : list N;
  w_tl2     : bool          (* wrapper carries the TimeoutL2Roots *)
}.

(** Go maps have unique keys; the harness feeds association lists with unique keys
    ([keys_unique]).  [Transactions[vi.Index]] panics when the index is out of range. *)
Definition keys {V} (l : list (N * V)) : list N := map fst l.
Fixpoint nodupb (l : list N) : bool :=
  match l with
  | [] => true
  | x :: t => negb (existsb (N.eqb x) t) && nodupb t
  end.
Definition meta_wf (m : meta) : bool :=
  nodupb (keys (m_counter m)) && nodupb (keys (m_timeout m)) && nodupb (keys (m_multi m)).

Definition indices_ok (b : block) (m : meta) : bool :=
  forallb (fun kv : N * list vindex =>
             forallb (fun vi => N.to_nat (vi_index vi) <? length (b_txs b))%nat (snd kv))
          (m_counter m).

Fixpoint verified_txs (txs : list N) (vs : list vindex) : option (list vtx) :=
  match vs with
  | [] => Some []
  | vi :: t =>
      match nth_error txs (N.to_nat (vi_index vi)), verified_txs txs t with
      | Some tx, Some r => Some ({| vt_tx := tx; vt_valid := vi_valid vi; vt_batch := vi_batch vi |} :: r)
      | _, _ => None                      (* index out of range: Go panics *)
      end
  end.

(** txsM: every destination of Counter with its verified transactions; None = panic *)
Fixpoint build_txsM (txs : list N) (c : list (N * list vindex)) : option (list (N * list vtx)) :=
  match c with
  | [] => Some []
  | (d, vs) :: t =>
      match verified_txs txs vs, build_txsM txs t with
      | Some v, Some r => Some ((d, v) :: r)
      | _, _ => None
      end
  end.

Definition lookupN {V} (d : N) (l : list (N * V)) : option V := alookup N.eqb d l.

(** the wrapper [classify] builds for destination [d] (None = no entry in the result map) *)
Definition wrapper_for (h : N) (tl2 : bool) (txsM : list (N * list vtx)) (m : meta) (d : N) : option wrapper :=
  match lookupN d (m_timeout m), lookupN d (m_multi m), lookupN d txsM with
  | None, None, None => None
  | ot, om, otx =>
      Some {| w_height := h;
              w_txs := match otx with Some l => l | None => [] end;
              w_timeout := match ot with Some l => l | None => [] end;
              w_multi := match om with Some l => l | None => [] end;
              (* only the wrapper created in the TimeoutCounter loop carries TimeoutL2Roots *)
              w_tl2 := match ot with Some _ => tl2 | None => false end |}
  end.

Inductive outcome (A : Type) := Crash | Ok (a : A).
Arguments Crash {A}. Arguments Ok {A} a.

Definition empty_wrapper (h : N) : wrapper :=
  {| w_height := h; w_txs := []; w_timeout := []; w_multi := []; w_tl2 := false |}.

(** what [GetInterchainTxWrappers] / [PutBlockAndMeta] send to pier [d] for one block *)
Definition deliver_block (d : N) (b : block) (m : meta) : outcome wrapper :=
  match build_txsM (b_txs b) (m_counter m) with
  | None => Crash
  | Some txsM =>
      match wrapper_for (b_height b) (m_tl2 m) txsM m d with
      | Some w => Ok w
      | None => Ok (empty_wrapper (b_height b))
      end
  end.

(** [GetInterchainTxWrappers(d, begin, end)] over a stored chain (height h = nth (h-1));
    a missing block ends the stream with an error: the wrappers sent so far stay sent. *)
Fixpoint deliver_range (d : N) (chain : list (block * meta)) : list (outcome wrapper) :=
  match chain with
  | [] => []
  | (b, m) :: t => deliver_block d b m :: deliver_range d t
  end.

(** ---- the property side: what a pier must be told ---------------------------------- *)

(** every transaction listed for [d] in Counter, in order, with its flags *)
Definition expected_txs (d : N) (b : block) (m : meta) : list (N * bool * bool) :=
  match lookupN d (m_counter m) with
  | None => []
  | Some vs => map (fun vi => (nth (N.to_nat (vi_index vi)) (b_txs b) 0, vi_valid vi, vi_batch vi)) vs
  end.
Definition expected_timeout (d : N) (m : meta) : list N :=
  match lookupN d (m_timeout m) with Some l => l | None => [] end.
Definition expected_multi (d : N) (m : meta) : list N :=
  match lookupN d (m_multi m) with Some l => l | None => [] end.

Definition vtx_proj (v : vtx) : N * bool * bool := (vt_tx v, vt_valid v, vt_batch v).

Definition trip_eqb (a b : N * bool * bool) : bool :=
  let '(a1, a2, a3) := a in let '(b1, b2, b3) := b in (a1 =? b1) && Bool.eqb a2 b2 && Bool.eqb a3 b3.

(** boolean property predicate evaluated on the IMPLEMENTATION's wrapper *)
Definition wrapper_faithful_b (d : N) (b : block) (m : meta) (w : wrapper) : bool :=
  (w_height w =? b_height b)
  && list_eqb trip_eqb (map vtx_proj (w_txs w)) (expected_txs d b m)
  && list_eqb N.eqb (w_timeout w) (expected_timeout d m)
  && list_eqb N.eqb (w_multi w) (expected_multi d m).

Definition wrapper_eqb (a b : wrapper) : bool :=
  (w_height a =? w_height b)
  && list_eqb trip_eqb (map vtx_proj (w_txs a)) (map vtx_proj (w_txs b))
  && list_eqb N.eqb (w_timeout a) (w_timeout b)
  && list_eqb N.eqb (w_multi a) (w_multi b)
  && Bool.eqb (w_tl2 a) (w_tl2 b).

(** judge: one case = destination, chain, and what the implementation sent per block
    (None = the call panicked on that block) *)
Fixpoint judge_blocks (d : N) (chain : list (block * meta)) (obs : list (option wrapper)) (i : N) : verdict :=
  match chain, obs with
  | [], [] => V_ok
  | (b, m) :: ct, o :: ot =>
      if negb (meta_wf m) then V_domain i
      else
        match o with
        | None =>
            (* a panic is a property failure unless the metadata itself is ill-formed
               (an index beyond the block): then the model must crash too *)
            if indices_ok b m then V_propfalse i
            else match deliver_block d b m with Crash => judge_blocks d ct ot (i + 1) | Ok _ => V_mismatch i end
        | Some w =>
            if indices_ok b m && negb (wrapper_faithful_b d b m w) then V_propfalse i
            else match deliver_block d b m with
                 | Ok mw => if wrapper_eqb mw w then judge_blocks d ct ot (i + 1) else V_mismatch i
                 | Crash => V_mismatch i
                 end
        end
  | _, _ => V_mismatch i
  end.

Definition judge_router (c : N * list (block * meta) * list (option wrapper)) : verdict :=
  let '(d, chain, obs) := c in judge_blocks d chain obs 0.
