(** Balances, native transfers and fee payment of [internal/executor/handle.go]
    ([transfer], [payGasFee], [payLeftAsGasFee], [payAdmins]) and the admin grant of
    [contracts/role.go: register].  Balances are [Z] (Go [big.Int]); accounts are [N].
    Definitions only.

    Defect flags (faithful behaviour of the unchanged code when [true]):
    - [d_self_transfer]: [transfer] reads the receiver balance before the debit is written,
      so [from = to] credits the amount without debiting it;
    - [d_neg_amount]: the amount string is parsed by [big.Int.SetString] and never sign-checked,
      so ["-30"] passes the balance check and moves value from the receiver to the sender;
    - [d_fee_after_body]: the fee is checked against the balance left by the transaction body; when
      that cannot pay, the body is reverted and the WHOLE original balance is taken even though it
      could have covered the fee (repaired: after the revert the fee is charged if affordable). *)
From BX Require Import Base.Prelude.
From BXGen Require Import Gen_Sites.
Local Open Scope Z_scope.

Definition acct := N.
Definition bals := acct -> Z.

Definition bset (b : bals) (a : acct) (v : Z) : bals :=
  fun x => if (x =? a)%N then v else b x.

Fixpoint sumb (dom : list acct) (b : bals) : Z :=
  match dom with
  | [] => 0
  | a :: t => b a + sumb t b
  end.

Record fcfg := { d_self_transfer : bool; d_neg_amount : bool; d_fee_after_body : bool }.
Definition fcfg_fixed : fcfg := {| d_self_transfer := false; d_neg_amount := false; d_fee_after_body := false |}.
Definition fcfg_faithful : fcfg := {| d_self_transfer := true; d_neg_amount := true; d_fee_after_body := true |}.

(** the [Amount] field is a string; [big.Int.SetString(s, 10)] accepts an optional sign followed
    by decimal digits, anything else (including the empty string) makes the executor use 0 *)
Inductive amount :=
| ADec (z : Z)
| ANonNumeric
| AEmpty.

Definition parse_amount (a : amount) : Z :=
  match a with ADec z => z | ANonNumeric => 0 | AEmpty => 0 end.

(** [transfer]: [None] = error "not sufficient funds" (or, repaired, "negative amount") *)
Definition transfer (c : fcfg) (b : bals) (from to : acct) (v : Z) : option bals :=
  if v =? 0 then Some b
  else if (v <? 0) && negb (d_neg_amount c) then None
  else if b from <? v then None
  else if d_self_transfer c then
         let fv := b from in
         let tv := b to in
         Some (bset (bset b from (fv - v)) to (tv + v))
       else
         let b1 := bset b from (b from - v) in
         Some (bset b1 to (b1 to + v)).

Record fenv := { admins : list acct; price : Z; genesis_bal : Z }.

Fixpoint pay_each (b : bals) (adm : list acct) (fee : Z) : bals :=
  match adm with
  | [] => b
  | a :: t => pay_each (bset b a (b a + fee)) t fee
  end.

(** [payAdmins]: integer (Euclidean = floor for a positive divisor) division over |admins| *)
Definition pay_admins (e : fenv) (b : bals) (fees : Z) : bals :=
  pay_each b (admins e) (fees / Z.of_nat (length (admins e))).

Definition pay_gas_fee (e : fenv) (b : bals) (from : acct) (gas : Z) : option bals :=
  let fees := gas * price e in
  if b from <? fees then None
  else Some (pay_admins e (bset b from (b from - fees)) fees).

Definition pay_left (e : fenv) (b : bals) (from : acct) : bals :=
  pay_admins e (bset b from 0) (b from).

(** the ORDER matters when the sender is itself an admin: emptying the account after the admins
    were paid (not what the code does) wipes the share the sender was just credited *)
Definition pay_left_zero_last (e : fenv) (b : bals) (from : acct) : bals :=
  bset (pay_admins e b (b from)) from 0.

(** total credited to the admins by one [payAdmins] call *)
Definition credits (e : fenv) (fees : Z) : Z :=
  Z.of_nat (length (admins e)) * (fees / Z.of_nat (length (admins e))).

(** native transactions as far as balances are concerned *)
Inductive ntx :=
| NTransfer (from to : acct) (amt : amount)
| NCall (from : acct) (ok : bool)                     (* contract call: no balance effect of its own *)
| NGrant (from : acct) (newadmin : acct) (ok : bool)  (* the call that approves a governance / audit admin *)
| NInvalid (from : acct).                             (* rejected before execution / undecodable *)

Definition ntx_from (t : ntx) : acct :=
  match t with NTransfer f _ _ => f | NCall f _ => f | NGrant f _ _ => f | NInvalid f => f end.

(** gas constants regenerated from [handle.go] on every run *)
Definition GasNormal : Z := Z.of_N gas_normal_tx.
Definition GasFailed : Z := Z.of_N gas_failed_tx.
Definition GasBVM : Z := Z.of_N gas_bvm_tx.

(** body of the transaction: (balances after the body and its own revert, success, gas, grant) *)
Definition ntx_body (c : fcfg) (e : fenv) (b : bals) (t : ntx) : bals * bool * Z * Z :=
  match t with
  | NTransfer from to amt =>
      match transfer c b from to (parse_amount amt) with
      | Some b' => (b', true, GasNormal, 0)
      | None => (b, false, GasNormal, 0)
      end
  | NCall _ ok => (b, ok, GasBVM, 0)
  | NGrant _ na ok =>
      if ok then (bset b na (b na + genesis_bal e), true, GasBVM, genesis_bal e)
      else (b, false, GasBVM, 0)
  | NInvalid _ => (b, false, GasFailed, 0)
  end.

(** one transaction: body, then the fee against the balance the body left; if that cannot pay,
    the body is reverted and the fee is charged against the restored balance, or the whole balance
    is taken when even that cannot cover it.  Result: balances, SUCCESS?, grant that took effect *)
Definition apply_ntx (c : fcfg) (e : fenv) (b : bals) (t : ntx) : bals * bool * Z :=
  let '(b1, ok, gas, g) := ntx_body c e b t in
  match pay_gas_fee e b1 (ntx_from t) gas with
  | Some b2 => (b2, ok, g)
  | None =>
      match (if d_fee_after_body c then None else pay_gas_fee e b (ntx_from t) gas) with
      | Some b2 => (b2, false, 0)
      | None => (pay_left e b (ntx_from t), false, 0)
      end
  end.

Fixpoint apply_block (c : fcfg) (e : fenv) (b : bals) (ts : list ntx) : bals * list bool * Z :=
  match ts with
  | [] => (b, [], 0)
  | t :: r =>
      let '(b1, ok, g) := apply_ntx c e b t in
      let '(b2, oks, gs) := apply_block c e b1 r in
      (b2, ok :: oks, g + gs)
  end.

(** accounts a transaction can touch *)
Definition ntx_accts (t : ntx) : list acct :=
  match t with
  | NTransfer f to _ => [f; to]
  | NCall f _ => [f]
  | NGrant f na _ => [f; na]
  | NInvalid f => [f]
  end.

Definition covers (dom : list acct) (e : fenv) (ts : list ntx) : Prop :=
  incl (admins e) dom /\ forall t, In t ts -> incl (ntx_accts t) dom.

(** property predicates (boolean, evaluated on implementation traces by the judge) *)
Definition conserve_b (dom : list acct) (b b' : bals) (grants : Z) : bool :=
  sumb dom b' <=? sumb dom b + grants.
Definition nonneg_b (dom : list acct) (b : bals) : bool :=
  forallb (fun a => 0 <=? b a) dom.
(** fees reach the admins: what leaves the books of a block ([ntx] transactions, [n] admins) is at
    most the rounding loss of its transactions, n - 1 units each - on every fee path, the
    whole-balance fallback of a sender who is itself an admin included *)
Definition loss_b (dom : list acct) (b b' : bals) (grants : Z) (n ntx : nat) : bool :=
  sumb dom b + grants - sumb dom b' <=? (Z.of_nat n - 1) * Z.of_nat ntx.

Definition conserve (dom : list acct) (b b' : bals) (grants : Z) : Prop :=
  sumb dom b' <= sumb dom b + grants.
Definition nonneg_on (dom : list acct) (b : bals) : Prop :=
  forall a, In a dom -> 0 <= b a.
Definition loss_bound (dom : list acct) (b b' : bals) (grants : Z) (n ntx : nat) : Prop :=
  sumb dom b + grants - sumb dom b' <= (Z.of_nat n - 1) * Z.of_nat ntx.

(** ------------------------------------------------------------------------------------
    judge: one block of an implementation trace.
    [init]  balances of the tracked accounts before the block (association list, others 0)
    [obs]   balances of the same accounts after the block as observed on the implementation
    [stats] receipt status per transaction as observed (true = SUCCESS) *)
Definition of_alist (l : list (acct * Z)) : bals :=
  fun a => match alookup N.eqb a l with Some v => v | None => 0 end.

Definition zlist_eqb := list_eqb Z.eqb.
Definition blist_eqb := list_eqb Bool.eqb.

Definition grants_of (e : fenv) (ts : list ntx) (stats : list bool) : Z :=
  fold_left Z.add
    (map (fun p : ntx * bool => match fst p with NGrant _ _ _ => if snd p then genesis_bal e else 0 | _ => 0 end)
         (combine ts stats)) 0.

Record fcase := {
  fc_cfgs : list fcfg;              (* allowed defect configurations, most repaired first *)
  fc_env : fenv;
  fc_init : list (acct * Z);
  fc_txs : list ntx;
  fc_stats : list bool;
  fc_obs : list (acct * Z)
}.

Definition model_matches (c : fcfg) (k : fcase) : bool :=
  let '(b', oks, _) := apply_block c (fc_env k) (of_alist (fc_init k)) (fc_txs k) in
  blist_eqb oks (fc_stats k) &&
  forallb (fun p : acct * Z => b' (fst p) =? snd p) (fc_obs k).

(** 1-based index of the first allowed configuration the implementation agrees with, 0 = none *)
Fixpoint match_idx (cs : list fcfg) (k : fcase) (i : N) : N :=
  match cs with
  | [] => 0%N
  | c :: t => if model_matches c k then i else match_idx t k (N.succ i)
  end.

(** verdicts: (2, 100*p + i) property predicate p (1 conservation, 2 non-negativity) false on the
    implementation's own balances, i = matching configuration (0 none); (0, i) fine; (1, 0) the
    implementation satisfies the property on this block but agrees with no allowed configuration *)
Definition judge_fees (k : fcase) : verdict :=
  let dom := map fst (fc_obs k) in
  let b0 := of_alist (fc_init k) in
  let b1 := of_alist (fc_obs k) in
  let i := match_idx (fc_cfgs k) k 1%N in
  if negb (conserve_b dom b0 b1 (grants_of (fc_env k) (fc_txs k) (fc_stats k))) then V_propfalse (100 + i)%N
  else if negb (nonneg_b dom b1) && nonneg_b dom b0 then V_propfalse (200 + i)%N
  else if (i =? 0)%N then V_mismatch 0 else (0%N, i).
