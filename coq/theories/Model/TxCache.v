(** The intake cache in front of the pool ([pkg/order/mempool/tx_cache.go]): accepted transactions
    are queued in RecvTxC, the ListenEvent goroutine collects them into a buffer and hands over a
    SET - an immutable list - on TxSetC when the buffer reaches txSetSize or the set timer fires;
    the hand-over blocks until the consumer takes the set.  Definitions only.

    The goroutine runs eagerly: between two operations of the environment it has consumed
    everything it can ([normalize]).  [CTick] is one timer event delivered to the loop (it posts
    whatever the buffer holds, also nothing). *)
From BX Require Import Base.Prelude Model.Mempool.
Local Open Scope N_scope.

Record cstate := mkCS {
  c_q : list tx;                 (* RecvTxC *)
  c_buf : list tx;               (* tc.txSet *)
  c_pend : option (list tx)      (* the set being handed over: postTxSet blocked on TxSetC *)
}.
Definition cs0 : cstate := mkCS [] [] None.

Definition set_size (k : N) : N := if k =? 0 then 10 else k.     (* DefaultTxSetSize *)

(** appendTx for every queued transaction until a set is full *)
Fixpoint absorb (size : N) (q buf : list tx) : cstate :=
  match q with
  | [] => mkCS [] buf None
  | t :: q' => let buf' := buf ++ [t] in
               if size <=? len buf' then mkCS q' [] (Some buf') else absorb size q' buf'
  end.

Definition normalize (size : N) (st : cstate) : cstate :=
  match c_pend st with Some _ => st | None => absorb size (c_q st) (c_buf st) end.

Inductive cop := CRecv (txs : list tx) | CTake | CTick.
Inductive cout := OutRecv | OutTake (s : option (list tx)) | OutTick (ok : bool).

Definition cstep (size : N) (st : cstate) (o : cop) : cstate * cout :=
  match o with
  | CRecv txs => (normalize size (mkCS (c_q st ++ txs) (c_buf st) (c_pend st)), OutRecv)
  | CTake => match c_pend st with
             | Some s => (normalize size (mkCS (c_q st) (c_buf st) None), OutTake (Some s))
             | None => (st, OutTake None)
             end
  | CTick => match c_pend st with
             | Some _ => (st, OutTick false)
             | None => (mkCS (c_q st) [] (Some (c_buf st)), OutTick true)
             end
  end.

Fixpoint crun (size : N) (st : cstate) (ops : list cop) : cstate * list cout :=
  match ops with
  | [] => (st, [])
  | o :: r => let '(st1, out) := cstep size st o in
              let '(st2, outs) := crun size st1 r in (st2, out :: outs)
  end.

Definition received (ops : list cop) : list tx :=
  flat_map (fun o => match o with CRecv txs => txs | _ => [] end) ops.
Definition delivered (outs : list cout) : list (list tx) :=
  flat_map (fun o => match o with OutTake (Some s) => [s] | _ => [] end) outs.
Definition inflight (st : cstate) : list tx :=
  (match c_pend st with Some s => s | None => [] end) ++ c_buf st ++ c_q st.

(** the operations that empty the cache: take what is offered, let the timer fire, take again *)
Definition flush_ops (n : nat) : list cop := repeat CTake n ++ [CTick; CTake].

(* ------------------------------------------------------------------------- judge *)

(** what the driver reports per operation: for a take also the previously taken set as it looks now *)
Inductive istep := IRecv | ITake (s : option (list tx)) (prev : option (list tx)) | ITick (ok : bool).

Definition E_set_mutated : N := 21.    (* C19: a set handed to the consumer changed afterwards *)
Definition E_intake_order : N := 22.   (* C19: the sets delivered are not a prefix of the accepted transactions (drained: not all of them) *)
Definition E_intake_pool : N := 23.    (* C19: an accepted, delivered transaction is not in the pool after all sets were processed *)
Definition intake_codes : list N := [21; 22; 23].

Definition txs_eqb := list_eqb tx_eqb.
Definition taken (steps : list istep) : list (list tx) :=
  flat_map (fun s => match s with ITake (Some l) _ => [l] | _ => [] end) steps.

(** every re-inspection shows the set as it was when it was taken *)
Fixpoint prev_ok (last : option (list tx)) (steps : list istep) : bool :=
  match steps with
  | [] => true
  | ITake (Some l) pv :: r =>
      (match last, pv with
       | Some a, Some b => txs_eqb a b
       | None, None => true
       | _, _ => false
       end) && prev_ok (Some l) r
  | _ :: r => prev_ok last r
  end.

Fixpoint is_prefix (a b : list tx) : bool :=
  match a, b with
  | [], _ => true
  | x :: a', y :: b' => tx_eqb x y && is_prefix a' b'
  | _ :: _, [] => false
  end.

(** the trace ends with: nothing offered, timer fired, take, nothing offered - the cache is empty *)
Definition drained (steps : list istep) : bool :=
  match rev steps with
  | ITake None _ :: ITake _ _ :: ITick true :: ITake None _ :: _ => true
  | _ => false
  end.

(** compact cases: transactions are 0-based indices into the frame *)
Definition txn (univ : list tx) (i : N) : tx := nth (N.to_nat i) univ nil_tx.

Inductive jop := JORecv (ixs : list N) | JOTake | JOTick.
Inductive jstep := JRecv | JTake (s : option (list N)) (prev : option (list N)) | JTick (ok : bool).

Record icase := mkICase {
  i_size : N; i_univ : list tx; i_ops : list jop; i_steps : list jstep;
  i_end : list (list N);          (* every taken set re-read at the end *)
  i_held : list bool              (* per frame transaction: in the pool after all sets were processed *)
}.

Definition dec_op (univ : list tx) (o : jop) : cop :=
  match o with JORecv ixs => CRecv (map (txn univ) ixs) | JOTake => CTake | JOTick => CTick end.
Definition dec_step (univ : list tx) (s : jstep) : istep :=
  match s with
  | JRecv => IRecv
  | JTake a b => ITake (option_map (map (txn univ)) a) (option_map (map (txn univ)) b)
  | JTick ok => ITick ok
  end.

Definition out_step_eqb (o : cout) (s : istep) : bool :=
  match o, s with
  | OutRecv, IRecv => true
  | OutTake a, ITake b _ => option_eqb txs_eqb a b
  | OutTick a, ITick b => Bool.eqb a b
  | _, _ => false
  end.

Fixpoint first_diff2 {A B} (eqb : A -> B -> bool) (l1 : list A) (l2 : list B) (i : N) : option N :=
  match l1, l2 with
  | [], [] => None
  | x :: t1, y :: t2 => if eqb x y then first_diff2 eqb t1 t2 (N.succ i) else Some i
  | _, _ => Some i
  end.

Definition intake_fails (ops : list cop) (steps : list istep) (endsets : list (list tx)) (held : tx -> bool) : list N :=
  (if list_eqb txs_eqb (taken steps) endsets && prev_ok None steps then [] else [E_set_mutated])
  ++ (if is_prefix (concat endsets) (received ops) &&
         (negb (drained steps) || txs_eqb (concat endsets) (received ops)) then [] else [E_intake_order])
  ++ (if negb (drained steps) || forallb held (received ops) then [] else [E_intake_pool]).

(** the predicates on the IMPLEMENTATION's observations first, then the correspondence with the model *)
Definition judge_intake (c : icase) : verdict :=
  let univ := i_univ c in
  let ops := map (dec_op univ) (i_ops c) in
  let steps := map (dec_step univ) (i_steps c) in
  let endsets := map (map (txn univ)) (i_end c) in
  let held t := match alookup tx_eqb t (combine univ (i_held c)) with Some b => b | None => false end in
  match intake_fails ops steps endsets held with
  | code :: _ => V_propfalse code
  | [] =>
      match first_diff2 out_step_eqb (snd (crun (set_size (i_size c)) cs0 ops)) steps 0 with
      | Some i => V_mismatch i
      | None => V_ok
      end
  end.
