(** C17 - the dispatch surface of the bolt VM.

    [BXGen.Gen_Surface.surface] is regenerated from the sources on every run: every exported
    method in the method set of every contract registered in executor.registerBoltContracts
    (own methods, methods promoted from the embedded boltvm.Stub interface, methods promoted
    from the embedded bitxhub-core manager structs), its parameter kinds, whether its first
    result is *boltvm.Response, and the syntactic guard at the top of its body.

    This file: (1) the class of a method as *derived* from what the generator saw; (2) the
    *intended* class of every own method, written down by hand ([intended]); (3) the dispatcher
    ([invoke]: boltvm.InvokeBVM + reflect.Value.Call + executor revert), parameterised by the
    bodies of the methods; (4) the boolean property predicate evaluated on observations of the
    real executor and the judge.  Definitions only. *)
From BX Require Import Base.Prelude.
From BXGen Require Import Gen_Surface.
From Coq Require Import String.
Local Open Scope string_scope.

(** * Reading the generated table *)
Definition m_contract (m : method_t) : string := let '(c, _, _, _, _, _, _) := m in c.
Definition m_name (m : method_t) : string := let '(_, n, _, _, _, _, _) := m in n.
Definition m_origin (m : method_t) : string := let '(_, _, o, _, _, _, _) := m in o.
Definition m_params (m : method_t) : list string := let '(_, _, _, p, _, _, _) := m in p.
Definition m_nres (m : method_t) : N := let '(_, _, _, _, n, _, _) := m in n.
Definition m_resp (m : method_t) : bool := let '(_, _, _, _, _, r, _) := m in r.
Definition m_guard (m : method_t) : guard_t := let '(_, _, _, _, _, _, g) := m in g.
Definition g_kind (g : guard_t) : string := let '(k, _, _, _, _, _, _, _, _) := g in k.
Definition g_impl (g : guard_t) : string := let '(_, i, _, _, _, _, _, _, _) := g in i.
Definition g_perms (g : guard_t) : list string := let '(_, _, p, _, _, _, _, _, _) := g in p.
Definition g_specific (g : guard_t) : list string := let '(_, _, _, s, _, _, _, _, _) := g in s.
Definition g_regulator (g : guard_t) : string := let '(_, _, _, _, _, r, _, _, _) := g in r.
Definition g_pre (g : guard_t) : list string := let '(_, _, _, _, _, _, _, p, _) := g in p.

Definition find_method (c n : string) : option method_t :=
  find (fun m => String.eqb (m_contract m) c && String.eqb (m_name m) n) surface.

Definition strs_eqb : list string -> list string -> bool := list_eqb String.eqb.
Definition mem_str (s : string) (l : list string) : bool := existsb (String.eqb s) l.

(** * Classes *)
Inductive cls :=
| Query                         (* reads only *)
| Internal (S : list string)    (* contract-to-contract entry point; S = address constants of the designated callers *)
| AdminOnly                     (* available governance admin *)
| ChainAdminOnly                (* PermissionSelf of an appchain-scoped manager: an admin of the target appchain *)
| ChainAdminOrAdmin
| SelfOnly                      (* PermissionSelf where the target is an account: the role / node / proposal owner / dapp owner itself *)
| SelfOrAdmin
| OwnerOnly                     (* owner of the name-service domain *)
| OpenWrite                     (* open to every account by design; writes only its own records *)
| StubPromoted                  (* promoted from the embedded boltvm.Stub interface *)
| CorePromoted                  (* promoted from an embedded bitxhub-core manager struct *)
| NonResponse                   (* own method whose first result is not *boltvm.Response *)
| Uncallable                    (* a parameter no transaction argument can have *)
| NoGuard.                      (* derived only: a *Response method without a recognised guard *)

Definition cls_eqb (a b : cls) : bool :=
  match a, b with
  | Query, Query | AdminOnly, AdminOnly | ChainAdminOnly, ChainAdminOnly | ChainAdminOrAdmin, ChainAdminOrAdmin
  | SelfOnly, SelfOnly | SelfOrAdmin, SelfOrAdmin | OwnerOnly, OwnerOnly | OpenWrite, OpenWrite
  | StubPromoted, StubPromoted | CorePromoted, CorePromoted | NonResponse, NonResponse | Uncallable, Uncallable
  | NoGuard, NoGuard => true
  | Internal s, Internal t => strs_eqb s t
  | _, _ => false
  end.

(** functions the statements before a guard may call: they only read *)
Definition pure_pre : list string :=
  ["GovernancePre"; "governancePre"; "GetObject"; "DappKey"; "CrossInvoke:GetMasterRule"; "Unmarshal"; "HexDecodeString"; "Caller";
   "checkNameAvailable"; "checkBxhAddress"; "checkResolverAddress"; "isAvailableAdmin"].

Definition chain_scoped (impl : string) : bool := mem_str impl ["AppchainManager"; "ServiceManager"; "RuleManager"].

Definition has_prefix (p s : string) : bool := String.prefix p s.

(** the class the code gives a method, as far as syntax shows *)
Definition derived (m : method_t) : option cls :=
  let g := m_guard m in
  if String.eqb (m_origin m) "stub" then Some StubPromoted
  else if has_prefix "core:" (m_origin m) then (if m_resp m then None else Some CorePromoted)
  else if negb (String.eqb (m_origin m) "own") then None
  else if existsb (has_prefix "other:") (m_params m) then Some Uncallable
  else if negb (m_resp m) then Some NonResponse
  else if negb (forallb (fun f => mem_str f pure_pre) (g_pre g)) then None
  else if String.eqb (g_kind g) "perm" then
    if negb (String.eqb (g_regulator g) "CurrentCaller") then None
    else if strs_eqb (g_perms g) ["PermissionSpecific"] then Some (Internal (g_specific g))
    else if strs_eqb (g_perms g) ["PermissionAdmin"] then Some AdminOnly
    else if strs_eqb (g_perms g) ["PermissionSelf"] then Some (if chain_scoped (g_impl g) then ChainAdminOnly else SelfOnly)
    else if strs_eqb (g_perms g) ["PermissionSelf"; "PermissionAdmin"] || strs_eqb (g_perms g) ["PermissionAdmin"; "PermissionSelf"]
         then Some (if chain_scoped (g_impl g) then ChainAdminOrAdmin else SelfOrAdmin)
    else None
  else if String.eqb (g_kind g) "callerIs" then Some (Internal (g_specific g))
  else if String.eqb (g_kind g) "callerAdmin" then Some AdminOnly
  else if String.eqb (g_kind g) "owner" then Some OwnerOnly
  else if String.eqb (g_kind g) "none" then Some NoGuard
  else None.

(** * The intended class of every own method (hand-written, reviewed against the sources)

    [I c]: the method is meant to have class c.  [Defect n c]: the method is meant to have class c
    but the code carries no guard; n names the listed defect. *)
Inductive icls := I (c : cls) | Defect (n : N) (c : cls).

Definition intended : list (string * string * icls) :=
  [
   ("InterchainManager", "DeleteInterchain", Defect 10 (Internal []));
   ("InterchainManager", "GetAllServiceIDs", I Query);
   ("InterchainManager", "GetBitXHubID", I Query);
   ("InterchainManager", "GetIBTPByID", I Query);
   ("InterchainManager", "GetInterchain", I Query);
   ("InterchainManager", "GetServiceCache", I Query);
   ("InterchainManager", "HandleIBTP", I Uncallable);
   ("InterchainManager", "HandleIBTPData", Defect 12 (Internal ["InterBrokerContractAddr"]));
   ("InterchainManager", "InitServiceCache", I NonResponse);
   ("InterchainManager", "ProcessIBTP", I Uncallable);
   ("InterchainManager", "Register", Defect 11 (Internal ["ServiceMgrContractAddr"]));
   ("Store", "Get", I Query);
   ("Store", "Set", I OpenWrite);
   ("RuleManager", "ClearRule", I (Internal ["AppchainMgrContractAddr"]));
   ("RuleManager", "CountAvailableRules", I Query);
   ("RuleManager", "CountRules", I Query);
   ("RuleManager", "GetAllRules", I Query);
   ("RuleManager", "GetMasterRule", I Query);
   ("RuleManager", "GetRuleByAddr", I Query);
   ("RuleManager", "HasMasterRule", I Query);
   ("RuleManager", "IsAvailableRule", I Query);
   ("RuleManager", "LogoutRule", I ChainAdminOnly);
   ("RuleManager", "Manage", I (Internal ["GovernanceContractAddr"]));
   ("RuleManager", "RegisterRule", I ChainAdminOnly);
   ("RuleManager", "RegisterRuleFirst", I (Internal ["AppchainMgrContractAddr"]));
   ("RuleManager", "Rules", I Query);
   ("RuleManager", "UpdateMasterRule", I ChainAdminOnly);
   ("RoleManager", "ActivateRole", I SelfOrAdmin);
   ("RoleManager", "BindRole", I AdminOnly);
   ("RoleManager", "CheckOccupiedAccount", I Query);
   ("RoleManager", "FreeAccount", I (Internal ["AppchainMgrContractAddr"; "NodeManagerContractAddr"]));
   ("RoleManager", "FreezeRole", I AdminOnly);
   ("RoleManager", "GetAllRoles", I Query);
   ("RoleManager", "GetAppchainAdmin", I Query);
   ("RoleManager", "GetRole", I Query);
   ("RoleManager", "GetRoleByAddr", I Query);
   ("RoleManager", "GetRoleInfoById", I Query);
   ("RoleManager", "GetRoleWeight", I Query);
   ("RoleManager", "GetRolesByType", I Query);
   ("RoleManager", "IsAnyAdmin", I Query);
   ("RoleManager", "IsAnyAvailableAdmin", I Query);
   ("RoleManager", "IsAppchainAdmin", I Query);
   ("RoleManager", "LogoutRole", I SelfOrAdmin);
   ("RoleManager", "Manage", I (Internal ["GovernanceContractAddr"]));
   ("RoleManager", "OccupyAccount", I (Internal ["AppchainMgrContractAddr"; "NodeManagerContractAddr"]));
   ("RoleManager", "PauseAuditAdmin", I (Internal ["NodeManagerContractAddr"]));
   ("RoleManager", "PauseAuditAdminBinding", I (Internal ["NodeManagerContractAddr"]));
   ("RoleManager", "RegisterRole", I AdminOnly);
   ("RoleManager", "RestoreAuditAdminBinding", I (Internal ["NodeManagerContractAddr"]));
   ("RoleManager", "UpdateAppchainAdmin", I (Internal ["AppchainMgrContractAddr"]));
   ("AppchainManager", "ActivateAppchain", I ChainAdminOrAdmin);
   ("AppchainManager", "Appchains", I Query);
   ("AppchainManager", "CountAppchains", I Query);
   ("AppchainManager", "CountAvailableAppchains", I Query);
   ("AppchainManager", "FreezeAppchain", I AdminOnly);
   ("AppchainManager", "GetAdminByChainId", I Query);
   ("AppchainManager", "GetAppchain", I Query);
   ("AppchainManager", "GetAppchainByName", I Query);
   ("AppchainManager", "GetBitXHubChainIDs", I Query);
   ("AppchainManager", "GetPubKeyByChainID", I Query);
   ("AppchainManager", "IsAvailable", I Query);
   ("AppchainManager", "IsAvailableBitxhub", I Query);
   ("AppchainManager", "LogoutAppchain", I ChainAdminOnly);
   ("AppchainManager", "Manage", I (Internal ["GovernanceContractAddr"]));
   ("AppchainManager", "PauseAppchain", I (Internal ["RuleManagerContractAddr"]));
   ("AppchainManager", "RegisterAppchain", I OpenWrite);
   ("AppchainManager", "UnPauseAppchain", I (Internal ["RuleManagerContractAddr"]));
   ("AppchainManager", "UpdateAppchain", I ChainAdminOnly);
   ("TransactionManager", "Begin", I (Internal ["InterchainContractAddr"]));
   ("TransactionManager", "BeginInterBitXHub", I (Internal ["InterchainContractAddr"]));
   ("TransactionManager", "BeginMultiTXs", I (Internal ["InterchainContractAddr"]));
   ("TransactionManager", "GetStatus", I Query);
   ("TransactionManager", "Report", I (Internal ["InterchainContractAddr"]));
   ("Governance", "EndObjProposal", I (Internal ["RuleManagerContractAddr"; "RoleContractAddr"; "ServiceMgrContractAddr"]));
   ("Governance", "GetAgainst", I Query);
   ("Governance", "GetAgainstNum", I Query);
   ("Governance", "GetApprove", I Query);
   ("Governance", "GetApproveNum", I Query);
   ("Governance", "GetAvailableElectorateNum", I Query);
   ("Governance", "GetBallot", I Query);
   ("Governance", "GetNotClosedProposals", I Query);
   ("Governance", "GetPrimaryElectorateNum", I Query);
   ("Governance", "GetProposal", I Query);
   ("Governance", "GetProposalsByFrom", I Query);
   ("Governance", "GetProposalsByObjId", I Query);
   ("Governance", "GetProposalsByObjIdInCreateTimeOrder", I Query);
   ("Governance", "GetProposalsByStatus", I Query);
   ("Governance", "GetProposalsByTyp", I Query);
   ("Governance", "GetUnvote", I Query);
   ("Governance", "GetUnvoteNum", I Query);
   ("Governance", "GetVoted", I Query);
   ("Governance", "GetVotedNum", I Query);
   ("Governance", "LockLowPriorityProposal", I (Internal ["ServiceMgrContractAddr"; "RoleContractAddr"; "RuleManagerContractAddr"]));
   ("Governance", "SubmitProposal", I (Internal ["AppchainMgrContractAddr"; "RuleManagerContractAddr"; "NodeManagerContractAddr"; "RoleContractAddr"; "DappMgrContractAddr"; "ServiceMgrContractAddr"; "GovernanceContractAddr"; "ProposalStrategyMgrContractAddr"; "ServiceRegistryContractAddr"]));
   ("Governance", "UnLockLowPriorityProposal", I (Internal ["ServiceMgrContractAddr"; "RoleContractAddr"; "RuleManagerContractAddr"]));
   ("Governance", "UpdateAvailableElectorateNum", I (Internal ["RoleContractAddr"]));
   ("Governance", "Vote", I AdminOnly);
   ("Governance", "WithdrawProposal", I SelfOnly);
   ("Governance", "ZeroPermission", Defect 13 (Internal ["AppchainMgrContractAddr"; "RuleManagerContractAddr"; "NodeManagerContractAddr"; "RoleContractAddr"; "DappMgrContractAddr"; "ServiceMgrContractAddr"; "ProposalStrategyMgrContractAddr"]));
   ("EthHeaderManager", "CurrentBlockHeader", I Query);
   ("EthHeaderManager", "GetBlockHeader", I Query);
   ("EthHeaderManager", "GetEscrowAddr", I Query);
   ("EthHeaderManager", "GetInterchainSwapAddr", I Query);
   ("EthHeaderManager", "GetPrefixedHash", I Query);
   ("EthHeaderManager", "GetProxyAddr", I Query);
   ("EthHeaderManager", "InsertBlockHeaders", I OpenWrite);
   ("EthHeaderManager", "Mint", I OpenWrite);
   ("EthHeaderManager", "SetEscrowAddr", I OpenWrite);
   ("EthHeaderManager", "SetInterchainSwapAddr", I OpenWrite);
   ("EthHeaderManager", "SetProxyAddr", I OpenWrite);
   ("NodeManager", "BindNode", I (Internal ["RoleContractAddr"]));
   ("NodeManager", "CountAvailableNodes", I Query);
   ("NodeManager", "CountNodes", I Query);
   ("NodeManager", "GetNextVpID", I Query);
   ("NodeManager", "GetNode", I Query);
   ("NodeManager", "GetNvpNodeByName", I Query);
   ("NodeManager", "GetVpNodeByPid", I Query);
   ("NodeManager", "GetVpNodeByVpId", I Query);
   ("NodeManager", "IsAvailable", I Query);
   ("NodeManager", "LogoutNode", I AdminOnly);
   ("NodeManager", "Manage", I (Internal ["GovernanceContractAddr"]));
   ("NodeManager", "ManageBindNode", I (Internal ["RoleContractAddr"]));
   ("NodeManager", "Nodes", I Query);
   ("NodeManager", "RegisterNode", I AdminOnly);
   ("NodeManager", "UnbindNode", I (Internal ["RoleContractAddr"]));
   ("NodeManager", "UpdateNode", I SelfOrAdmin);
   ("InterBroker", "EmitInterchain", Defect 14 (Internal []));
   ("InterBroker", "GetCallbackMeta", I Query);
   ("InterBroker", "GetInMessage", I Query);
   ("InterBroker", "GetInMeta", I Query);
   ("InterBroker", "GetOutMessage", I Query);
   ("InterBroker", "GetOutMeta", I Query);
   ("InterBroker", "InvokeInterchain", Defect 15 (Internal ["InterchainContractAddr"]));
   ("InterBroker", "InvokeReceipt", Defect 16 (Internal ["InterchainContractAddr"]));
   ("ServiceManager", "ActivateService", I ChainAdminOrAdmin);
   ("ServiceManager", "ClearChainService", I (Internal ["AppchainMgrContractAddr"]));
   ("ServiceManager", "EvaluateService", I OpenWrite);
   ("ServiceManager", "FreezeService", I AdminOnly);
   ("ServiceManager", "GetAllServices", I Query);
   ("ServiceManager", "GetPermissionServices", I Query);
   ("ServiceManager", "GetServiceByName", I Query);
   ("ServiceManager", "GetServiceInfo", I Query);
   ("ServiceManager", "GetServicesByAppchainID", I Query);
   ("ServiceManager", "GetServicesByType", I Query);
   ("ServiceManager", "IsAvailable", I Query);
   ("ServiceManager", "LogoutService", I ChainAdminOnly);
   ("ServiceManager", "Manage", I (Internal ["GovernanceContractAddr"]));
   ("ServiceManager", "PauseChainService", I (Internal ["AppchainMgrContractAddr"]));
   ("ServiceManager", "RecordInvokeService", I (Internal ["InterchainContractAddr"]));
   ("ServiceManager", "RegisterService", I ChainAdminOnly);
   ("ServiceManager", "UnPauseChainService", I (Internal ["AppchainMgrContractAddr"]));
   ("ServiceManager", "UpdateService", I ChainAdminOnly);
   ("DappManager", "ActivateDapp", I SelfOrAdmin);
   ("DappManager", "ConfirmTransfer", I SelfOnly);
   ("DappManager", "EvaluateDapp", I OpenWrite);
   ("DappManager", "FreezeDapp", I AdminOnly);
   ("DappManager", "GetAllDapps", I Query);
   ("DappManager", "GetDapp", I Query);
   ("DappManager", "GetDappByName", I Query);
   ("DappManager", "GetDappsByOwner", I Query);
   ("DappManager", "GetPermissionAvailableDapps", I Query);
   ("DappManager", "GetPermissionDapps", I Query);
   ("DappManager", "IsAvailable", I Query);
   ("DappManager", "Manage", I (Internal ["GovernanceContractAddr"]));
   ("DappManager", "RegisterDapp", I OpenWrite);
   ("DappManager", "TransferDapp", I SelfOnly);
   ("DappManager", "UpdateDapp", I SelfOnly);
   ("GovStrategy", "GetAllProposalStrategy", I Query);
   ("GovStrategy", "GetProposalStrategy", I Query);
   ("GovStrategy", "Manage", I (Internal ["GovernanceContractAddr"]));
   ("GovStrategy", "UpdateAllProposalStrategy", I AdminOnly);
   ("GovStrategy", "UpdateProposalStrategy", I AdminOnly);
   ("GovStrategy", "UpdateProposalStrategyByRolesChange", I (Internal ["RoleContractAddr"]));
   ("ServiceRegistry", "AllocateSubDomain", I OwnerOnly);
   ("ServiceRegistry", "DeleteSecondDomain", I OwnerOnly);
   ("ServiceRegistry", "GetAllDomains", I Query);
   ("ServiceRegistry", "GetDomainExpires", I Query);
   ("ServiceRegistry", "GetPriceLevel", I Query);
   ("ServiceRegistry", "GetSubDomain", I Query);
   ("ServiceRegistry", "GetTokenPrice", I Query);
   ("ServiceRegistry", "IsApproved", I Query);
   ("ServiceRegistry", "Manage", Defect 17 (Internal ["GovernanceContractAddr"]));
   ("ServiceRegistry", "Owner", I Query);
   ("ServiceRegistry", "RecordExists", I Query);
   ("ServiceRegistry", "Register", I OpenWrite);
   ("ServiceRegistry", "Renew", I OpenWrite);
   ("ServiceRegistry", "Resolver", I Query);
   ("ServiceRegistry", "SetPriceLevel", I AdminOnly);
   ("ServiceRegistry", "SetTokenPrice", I AdminOnly);
   ("ServiceResolver", "DeleteServDomainData", I OwnerOnly);
   ("ServiceResolver", "GetReverseName", I Query);
   ("ServiceResolver", "GetServDomainData", I Query);
   ("ServiceResolver", "GetServiceName", I Query);
   ("ServiceResolver", "SetAddr", I OwnerOnly);
   ("ServiceResolver", "SetDids", I OwnerOnly);
   ("ServiceResolver", "SetReverse", I OwnerOnly);
   ("ServiceResolver", "SetServDomainData", I OwnerOnly);
   ("ServiceResolver", "SetServiceDes", I OwnerOnly);
   ("ServiceResolver", "SetServiceName", I OwnerOnly)].

Definition intended_of (c n : string) : option icls :=
  match find (fun e : string * string * icls => String.eqb (fst (fst e)) c && String.eqb (snd (fst e)) n) intended with
  | Some e => Some (snd e)
  | None => None
  end.

(** a derived class d agrees with the intention i *)
Definition consistent (d : cls) (i : icls) : bool :=
  match i with
  | I Query => cls_eqb d NoGuard
  | I OpenWrite => cls_eqb d NoGuard
  | I c => cls_eqb d c
  | Defect _ c => cls_eqb d NoGuard || cls_eqb d c      (* still unguarded, or repaired meanwhile *)
  end.

Definition classified_b (m : method_t) : bool :=
  match derived m with
  | None => false
  | Some d =>
      if String.eqb (m_origin m) "own" then
        match intended_of (m_contract m) (m_name m) with
        | Some i => consistent d i
        | None => false
        end
      else true
  end.

(** the class used for judging: promoted methods by origin, own methods by intention *)
Definition class_of (m : method_t) : option cls :=
  if String.eqb (m_origin m) "own" then
    match intended_of (m_contract m) (m_name m) with
    | Some (I c) => Some c
    | Some (Defect _ c) => Some c
    | None =>
        (* a method the table does not know (it appeared after the table was written): judged by what its
           syntax shows, an unguarded one as read-only - so that a new unguarded entry point that changes
           state yields a concrete failing call; [surface_classified] fails in any case *)
        match derived m with
        | Some NoGuard => Some Query
        | d => d
        end
    end
  else derived m.

Definition defect_of (m : method_t) : option N :=
  if String.eqb (m_origin m) "own" then
    match intended_of (m_contract m) (m_name m), derived m with
    | Some (Defect n _), Some NoGuard => Some n
    | _, _ => None
    end
  else None.

(** pinned implementations of the guard functions (hash of the printed syntax tree) *)
Definition pinned_guard_impls : list (string * string) :=
  [("AppchainManager.checkPermission", "f812129a71027bdc");
   ("DappManager.checkPermission", "17af7f6776cef1ae");
   ("NodeManager.checkPermission", "07862261d64c77ca");
   ("RoleManager.checkPermission", "9fe92a4eb646b316");
   ("RuleManager.checkPermission", "a5b4b529f690c649");
   ("ServiceManager.checkPermission", "64e428c49ea9de5b");
   ("ServiceRegistry.authorised", "023e789d13d81533");
   ("ServiceResolver.authorised", "e0038304753e0b03");
   ("TransactionManager.checkCurrentCaller", "a3e7c664df7afe22");
   ("common.checkPermission", "75ba063adf654d23")].

Definition guard_impls_pinned_b : bool :=
  forallb (fun p : string * string =>
             if has_prefix "boltvm." (fst p) then true
             else match alookup String.eqb (fst p) pinned_guard_impls with
                  | Some h => String.eqb h (snd p)
                  | None => false
                  end) guard_impl_hashes.

(** the registered (process-wide) contract objects are created empty: no field set.  The unguarded
    contract-to-contract entry points HandleIBTPData / EmitInterchain / InvokeReceipt (Defect rows 12, 14, 16) are
    unreachable only because the registered InterchainManager has NO service cache (the lookup dies, the call is
    reverted); an object registered with its fields wired re-opens them *)
Definition registered_plain_b : bool :=
  forallb (fun e : string * list (string * string) => match snd e with [] => true | _ => false end) contract_inits.

(** * Defect flags *)
Record cfg := {
  d_dispatch_all : bool;      (* InvokeBVM dispatches every method of the reflect method set: promoted ones and ones without *Response *)
  d_add_unjournaled : bool;   (* Stub.Add / AddObject write through AddState, which bypasses the undo log *)
  d_unguarded : list N;       (* unguarded internal entry points present (numbers of [Defect]) *)
  d_guard_memo : list string  (* contracts whose caller check remembers, in a field of the registered (process-wide)
                                 contract object, that it once succeeded - not the case in the code as it is; the flag
                                 exists to state what the theorems exclude and for the refutation witness *)
}.
Definition cfg_fixed : cfg := {| d_dispatch_all := false; d_add_unjournaled := false; d_unguarded := []; d_guard_memo := [] |}.
Definition all_unguarded : list N := [10; 11; 12; 13; 14; 15; 16; 17]%N.
Definition cfg_faithful : cfg := {| d_dispatch_all := true; d_add_unjournaled := true; d_unguarded := all_unguarded; d_guard_memo := [] |}.
Definition memN (n : N) (l : list N) : bool := existsb (N.eqb n) l.

(** * Dispatcher *)
Inductive wkind := WString | WBytes | WU64 | WI32 | WI64 | WBool | WF64.   (* what boltvm.parseArgs produces *)

Definition accepts (p : string) (w : wkind) : bool :=
  String.eqb p "any" ||
  match w with
  | WString => String.eqb p "string" | WBytes => String.eqb p "bytes" | WU64 => String.eqb p "u64"
  | WI32 => String.eqb p "i32" | WI64 => String.eqb p "i64" | WBool => String.eqb p "bool" | WF64 => String.eqb p "f64"
  end.

(** reflect.Value.Call: exact arity (a variadic tail of *pb.Arg accepts no wire value), every argument assignable *)
Fixpoint args_ok (ps : list string) (ws : list wkind) : bool :=
  match ps, ws with
  | [], [] => true
  | [p], [] => has_prefix "variadic:" p
  | p :: ps', w :: ws' => accepts p w && args_ok ps' ws'
  | _, _ => false
  end.

(** an external caller, described relative to the call: is it an available governance admin; is it "self"
    for the target of the call (admin of the target appchain / the role, node, proposal or dapp owner named
    by the arguments / owner of the domain).  An external account is never a contract address. *)
Record caller := { x_id : N; x_admin : bool; x_self : bool }.

Definition allowed (c : cls) (x : caller) : bool :=
  match c with
  | Query | OpenWrite => true
  | Internal _ => false
  | AdminOnly => x_admin x
  | ChainAdminOnly | SelfOnly | OwnerOnly => x_self x
  | ChainAdminOrAdmin | SelfOrAdmin => x_self x || x_admin x
  | StubPromoted | CorePromoted | NonResponse | Uncallable => false
  | NoGuard => true
  end.

(** what the guard found by the generator lets through *)
Definition guard_passes (m : method_t) (x : caller) : bool :=
  match derived m with
  | Some d => match d with
              | StubPromoted | CorePromoted | NonResponse | Uncallable => true   (* no guard at all *)
              | _ => allowed d x
              end
  | None => true
  end.

(** with the defect flag of an unguarded entry point off, the intended guard is in place *)
Definition effective_guard (f : cfg) (m : method_t) (x : caller) : bool :=
  match defect_of m with
  | Some n => if memN n (d_unguarded f) then true
              else match class_of m with Some c => allowed c x | None => true end
  | None => guard_passes m x
  end.

Definition dispatchable (f : cfg) (m : method_t) : bool :=
  d_dispatch_all f || (String.eqb (m_origin m) "own" && m_resp m).

(** state: the log of writes that took effect (contract address constant, key) *)
Definition write := (string * string * bool)%type.       (* contract, key, journaled? *)
Definition state := list (string * string).
Inductive outcome := Ok | Fail (e : N).
Definition E_NO_METHOD := 1%N.
Definition E_NO_PERMISSION := 2%N.
Definition E_PANIC := 3%N.
Definition E_OTHER := 4%N.
Definition E_NOT_OWNER := 5%N.
Definition E_CRASH := 9%N.

Definition commit (ws : list write) (st : state) : state := (map (fun w : write => (fst (fst w), snd (fst w))) ws ++ st)%list.
Definition leak (f : cfg) (ws : list write) (st : state) : state :=
  if d_add_unjournaled f then commit (filter (fun w : write => negb (snd w)) ws) st else st.

Record call := { k_contract : string; k_method : string; k_args : list wkind; k_caller : caller; k_audit : bool }.

Section Dispatch.
  (** the bodies: given the call and the state, whether the body reports success and what it writes *)
  Variable body : call -> state -> bool * list write.

  Definition invoke (f : cfg) (st : state) (k : call) : outcome * state :=
    match find_method (k_contract k) (k_method k) with
    | None => (Fail E_NO_METHOD, st)
    | Some m =>
        if negb (dispatchable f m) then (Fail E_NO_METHOD, st)
        else if negb (args_ok (m_params m) (k_args k)) then (Fail E_PANIC, st)
        else if negb (effective_guard f m (k_caller k)) then (Fail E_NO_PERMISSION, st)
        else let '(ok, ws) := body k st in
             if m_resp m && ok then (Ok, commit ws st)
             else (Fail (if m_resp m then E_OTHER else E_PANIC), leak f ws st)
    end.
End Dispatch.

(** ** The node: ledger state plus what the registered contract objects keep in their own fields.
    The contract objects are created once per process (executor.registerBoltContracts) and only their Stub is
    re-injected per invocation; anything else they store survives from one transaction to the next and is
    outside the ledger.  [n_memo] lists the contracts whose caller check has succeeded at least once. *)
Record nstate := { n_led : state; n_memo : list string }.

(** a call as it reaches a contract: from an external account ([nc_from] = None) or cross-invoked by the
    contract whose address constant is given (CurrentCaller = that contract) *)
Record ncall := { nc_call : call; nc_from : option string }.

Definition designated (m : method_t) (from : option string) : bool :=
  match from, class_of m with
  | Some c, Some (Internal callers) => mem_str c callers
  | _, _ => false
  end.

Section NodeDispatch.
  Variable body : call -> state -> bool * list write.

  Definition invoke_n (f : cfg) (ns : nstate) (nc : ncall) : outcome * nstate :=
    let k := nc_call nc in
    match find_method (k_contract k) (k_method k) with
    | None => (Fail E_NO_METHOD, ns)
    | Some m =>
        if negb (dispatchable f m) then (Fail E_NO_METHOD, ns)
        else if negb (args_ok (m_params m) (k_args k)) then (Fail E_PANIC, ns)
        else
          let memo_on := mem_str (k_contract k) (d_guard_memo f) in
          let remembered := memo_on && mem_str (k_contract k) (n_memo ns) && (match class_of m with Some (Internal _) => true | _ => false end) in
          let pass := match nc_from nc with
                      | Some _ => designated m (nc_from nc) || match class_of m with Some (Internal _) => false | _ => true end
                      | None => effective_guard f m (k_caller k)
                      end in
          if negb (pass || remembered) then (Fail E_NO_PERMISSION, ns)
          else
            let memo' := if memo_on && designated m (nc_from nc) then k_contract k :: n_memo ns else n_memo ns in
            let '(ok, ws) := body k (n_led ns) in
            if m_resp m && ok then (Ok, {| n_led := commit ws (n_led ns); n_memo := memo' |})
            else (Fail (if m_resp m then E_OTHER else E_PANIC), {| n_led := leak f ws (n_led ns); n_memo := memo' |})
    end.

  Fixpoint run_ncalls (f : cfg) (ns : nstate) (h : list ncall) : nstate :=
    match h with
    | [] => ns
    | c :: t => run_ncalls f (snd (invoke_n f ns c)) t
    end.
End NodeDispatch.

(** the regions no open method may touch: interchain counters and index records, transaction records, broker counters *)
Definition protected : list string := ["InterchainContractAddr"; "TransactionMgrContractAddr"; "InterBrokerContractAddr"].
Definition protected_part (st : state) : state := filter (fun e : string * string => mem_str (fst e) protected) st.

(** declared write footprint (contracts) of the methods that are open by design *)
Definition footprint : list (string * string * list string) :=
  [("Store", "Set", ["StoreContractAddr"]);
   ("AppchainManager", "RegisterAppchain", ["AppchainMgrContractAddr"; "RoleContractAddr"; "GovernanceContractAddr"]);
   ("ServiceManager", "EvaluateService", ["ServiceMgrContractAddr"]);
   ("DappManager", "EvaluateDapp", ["DappMgrContractAddr"]);
   ("DappManager", "RegisterDapp", ["DappMgrContractAddr"; "GovernanceContractAddr"]);
   ("ServiceRegistry", "Register", ["ServiceRegistryContractAddr"; "ServiceResolverContractAddr"]);
   ("ServiceRegistry", "Renew", ["ServiceRegistryContractAddr"]);
   ("EthHeaderManager", "SetEscrowAddr", ["EthHeaderMgrContractAddr"]);
   ("EthHeaderManager", "SetInterchainSwapAddr", ["EthHeaderMgrContractAddr"]);
   ("EthHeaderManager", "SetProxyAddr", ["EthHeaderMgrContractAddr"]);
   ("EthHeaderManager", "InsertBlockHeaders", ["EthHeaderMgrContractAddr"]);
   ("EthHeaderManager", "Mint", ["EthHeaderMgrContractAddr"])].
Definition footprint_of (c n : string) : list string :=
  match find (fun e : string * string * list string => String.eqb (fst (fst e)) c && String.eqb (snd (fst e)) n) footprint with
  | Some e => snd e
  | None => []
  end.
Definition within_footprint (k : call) (ws : list write) : bool :=
  forallb (fun w : write => mem_str (fst (fst w)) (footprint_of (k_contract k) (k_method k))) ws.

(** a concrete instance of the bodies for witnesses: the Stub primitives and the unguarded entry points write what the code writes *)
Definition addr_of (typ : string) : string :=
  match find (fun e : string * string * string => String.eqb (snd (fst e)) typ) contracts with
  | Some e => fst (fst e)
  | None => typ
  end.

Definition std_body (k : call) (st : state) : bool * list write :=
  let c := k_contract k in let n := k_method k in
  if String.eqb n "Add" || String.eqb n "AddObject" then (true, [(addr_of c, "key", false)])
  else if String.eqb n "Set" || String.eqb n "SetObject" || String.eqb n "Delete" then (true, [(addr_of c, "key", true)])
  else if String.eqb c "InterchainManager" && String.eqb n "DeleteInterchain" then (negb (k_audit k), [("InterchainContractAddr", "service-id", true)])
  else if String.eqb c "InterchainManager" && String.eqb n "Register" then (true, [("InterchainContractAddr", "service-id", true)])
  else if String.eqb c "InterchainManager" && String.eqb n "InitServiceCache" then (true, [("MEMORY", "InterchainManager.ServiceCache", false)])
  else if String.eqb c "Store" && String.eqb n "Set" then (true, [("StoreContractAddr", "key", true)])
  else (true, []).

(** * Observations of the real executor and the judge *)
Record obs := {
  o_ok : bool; o_err : N;
  o_diff : list string;      (* contracts whose state changed (one entry per changed key) *)
  o_acct : N;                (* number of account-level changes other than the sender's nonce *)
  o_mem : bool; o_cache : bool; o_crash : bool;
  o_foreign : list (string * string) }.
  (* (contract, key prefix) of every EXISTING record changed or deleted whose key names - in the canonical spelling the
     contracts use for their own records - another party than the caller, or an object of another party *)

Definition unchanged (o : obs) : bool :=
  match o_diff o with [] => (o_acct o =? 0)%N && negb (o_mem o) && negb (o_cache o) && negb (o_crash o) | _ => false end.

(** records of other parties that a method open to everybody may change by design (a score, an evaluation) *)
Definition open_foreign : list (string * string * (string * string)) :=
  [("ServiceManager", "EvaluateService", ("ServiceMgrContractAddr", "service-"));
   ("DappManager", "EvaluateDapp", ("DappMgrContractAddr", "dapp-"))].
Definition foreign_ok (cm : string * string) (e : string * string) : bool :=
  existsb (fun a : string * string * (string * string) =>
             String.eqb (fst (fst a)) (fst cm) && String.eqb (snd (fst a)) (snd cm) &&
             String.eqb (fst (snd a)) (fst e) && String.eqb (snd (snd a)) (snd e)) open_foreign.

(** an operation reserved to a chain's admin / the object itself may, through the cascades, pause, restore or end
    proposals that OTHERS submitted about that object: proposal records are keyed by their sponsor *)
Definition foreign_ok_priv (cm : string * string) (e : string * string) : bool :=
  foreign_ok cm e || (String.eqb (fst e) "GovernanceContractAddr" && String.eqb (snd e) "proposal-").

(** the property on one observed call: cm = (contract, method), c = intended class, x = caller *)
Definition P_call_cm (cm : string * string) (c : cls) (x : caller) (o : obs) : bool :=
  if negb (allowed c x) then negb (o_ok o) && unchanged o
  else match c with
       | Query => unchanged o
       | OpenWrite => negb (o_crash o) && negb (o_mem o) && forallb (fun d => negb (mem_str d protected)) (o_diff o)
                      && forallb (foreign_ok cm) (o_foreign o)
       | _ => negb (o_crash o) && (x_admin x || forallb (foreign_ok_priv cm) (o_foreign o))
       end.
Definition P_call (c : cls) (x : caller) (o : obs) : bool := P_call_cm ("", "") c x o.

(** how far a listed finding explains an observation: the entry points listed as "succeeds without effect" explain
    only that; the others only changes of the records they are known to touch *)
Definition finding_explains (n : N) (o : obs) : bool :=
  if (n =? 13)%N then unchanged o
  else if (n =? 10)%N || (n =? 11)%N then forallb (fun d => String.eqb d "InterchainContractAddr") (o_diff o) && negb (o_crash o) && negb (o_mem o)
  else if (n =? 15)%N then forallb (fun d => String.eqb d "InterBrokerContractAddr") (o_diff o) && negb (o_crash o) && negb (o_mem o)
  else true.

(** which listed defect explains a failed [P_call] (0 = none) *)
Definition stub_family (n : string) : N :=
  if mem_str n ["Add"; "AddObject"] then 1
  else if mem_str n ["CrossInvoke"; "CrossInvokeEVM"] then 2
  else if mem_str n ["PostInterchainEvent"] then 3
  else 0.

Definition explaining_flag (f : cfg) (m : method_t) : N :=
  match class_of m with
  | Some StubPromoted => if d_dispatch_all f then stub_family (m_name m) else 0
  | Some NonResponse => if d_dispatch_all f then 4 else 0
  | _ => match defect_of m with
         | Some n => if memN n (d_unguarded f) then n else 0
         | None => 0
         end
  end%N.

(** what the model (under the flags f) admits as observation *)
Definition admits (f : cfg) (m : method_t) (typed : bool) (x : caller) (o : obs) : bool :=
  if negb (dispatchable f m) then negb (o_ok o) && unchanged o
  else if negb typed then negb (o_ok o) && unchanged o && (o_err o =? E_PANIC)%N
  else match class_of m with
       | None => false
       | Some c =>
           match c with
           | Uncallable => negb (o_ok o) && unchanged o && (o_err o =? E_PANIC)%N
           | CorePromoted => negb (o_ok o) && unchanged o && (o_err o =? E_PANIC)%N
           | NonResponse => negb (o_ok o) && (o_err o =? E_PANIC)%N && (match o_diff o with [] => true | _ => false end)
           | StubPromoted =>
               match stub_family (m_name m) with
               | 1%N => negb (o_ok o) && (o_err o =? E_PANIC)%N && negb (o_crash o)
                        && (d_add_unjournaled f || unchanged o)
               | 2%N => negb (o_crash o)
               | 3%N => negb (o_ok o)
               | _ => negb (o_ok o) && unchanged o && (o_err o =? E_PANIC)%N
               end
           | _ =>
               if negb (effective_guard f m x) then
                 negb (o_ok o) && unchanged o &&
                 (* the error class is determined only when nothing can fail before the guard *)
                 (if mem_str (g_kind (m_guard m)) ["perm"; "callerIs"] && (match g_pre (m_guard m) with [] => true | _ => false end)
                  then (o_err o =? E_NO_PERMISSION)%N || (o_err o =? E_PANIC)%N (* evaluating the guard's arguments may panic *) else true)
               else negb (o_crash o)
           end
       end.

(** the flag sets below f that matter for method m (a repaired defect makes the implementation
    behave like the model with that flag off: the check stays silent) *)
Definition sub_cfgs (f : cfg) (m : method_t) : list cfg :=
  let opts (x : bool) := if x then [true; false] else [false] in
  let ug := match defect_of m with
            | Some n => if memN n (d_unguarded f) then [d_unguarded f; filter (fun x => negb (x =? n)%N) (d_unguarded f)] else [d_unguarded f]
            | None => [d_unguarded f]
            end in
  flat_map (fun a => flat_map (fun b => map (fun u => {| d_dispatch_all := a; d_add_unjournaled := b; d_unguarded := u; d_guard_memo := d_guard_memo f |}) ug)
                              (opts (d_add_unjournaled f))) (opts (d_dispatch_all f)).

(** one case: the call as issued (contract, method, audit, arguments well typed?, caller relation bits) and what was observed *)
Record case := { c_contract : string; c_method : string; c_typed : bool; c_caller : caller; c_obs : obs }.

(** verdict: (0,_) fine; (2,n) the property fails on the observation, n = explaining listed defect or 0;
    (1,_) property holds but the model does not admit the observation; (3,_) method unknown to the generated surface *)
Definition judge_call (f : cfg) (k : case) : verdict :=
  match find_method (c_contract k) (c_method k) with
  | None => if negb (o_ok (c_obs k)) && unchanged (c_obs k) && (o_err (c_obs k) =? E_NO_METHOD)%N then V_ok else V_domain 0
  | Some m =>
      match class_of m with
      | None => V_domain 1
      | Some c =>
          if negb (P_call_cm (c_contract k, c_method k) c (c_caller k) (c_obs k))
          then V_propfalse (let n := explaining_flag f m in if finding_explains n (c_obs k) then n else 0%N)
          else if existsb (fun f' => admits f' m (c_typed k) (c_caller k) (c_obs k)) (sub_cfgs f m) then V_ok
          else V_mismatch 0
      end
  end.

(** * Account reservations and the spelling of addresses
    The role contract keeps one reservation record per account under the key occupy-account-<address as spelled>.
    An address argument is a party together with the spelling the caller chose; spelling 0 is the canonical
    (checksummed) one, which is the spelling of every record a party got through its own transactions.
    RegisterAppchain / UpdateAppchain (open to everybody / to a chain's admin) check every listed admin account with
    CheckOccupiedAccount, reserve them with OccupyAccount, and release them with FreeAccount when the proposal is
    rejected or withdrawn - all three under the spelling supplied.  [canon] = OccupyAccount / FreeAccount canonicalise
    the spelling while the check does not (not the case in the code as it is). *)
Record acct := { ac_who : N; ac_sp : N }.
Definition acct_eqb (a b : acct) : bool := (ac_who a =? ac_who b)%N && (ac_sp a =? ac_sp b)%N.
Definition reservations := list (acct * string).
Definition rget (a : acct) (r : reservations) : option string := alookup acct_eqb a r.
Definition occ_key (canon : bool) (a : acct) : acct := if canon then {| ac_who := ac_who a; ac_sp := 0 |} else a.

Definition register_res (canon : bool) (c : N) (admins : list acct) (r : reservations) : option reservations :=
  if negb (existsb (acct_eqb {| ac_who := c; ac_sp := 0 |}) admins) then None            (* the admin list must contain the caller *)
  else if existsb (fun a => match rget a r with Some _ => true | None => false end) admins then None   (* CheckOccupiedAccount *)
  else Some (fold_left (fun acc a => aset acct_eqb (occ_key canon a) "appchainAdmin" acc) admins r).

Definition free_res (canon : bool) (admins : list acct) (r : reservations) : reservations :=
  fold_left (fun acc a => aremove acct_eqb (occ_key canon a) acc) admins r.

(** * Whose service is it?  Ids that contain the separator
    Appchain ids are free-form (RegisterAppchain refuses only ""), a service id is <appchain id>:<service id>.  The
    PermissionSelf checks of the service manager take the appchain from the STORED service record; taking the text
    before the first ':' instead ([by_segment]) names another appchain as soon as an appchain id contains ':'. *)
Definition colon : Ascii.ascii := Ascii.ascii_of_nat 58.
Fixpoint first_seg (s : string) : string :=
  match s with
  | EmptyString => EmptyString
  | String c t => if Ascii.eqb c colon then EmptyString else String c (first_seg t)
  end.
Fixpoint has_colon (s : string) : bool :=
  match s with EmptyString => false | String c t => Ascii.eqb c colon || has_colon t end.

(** stored service records: service id -> appchain id; admins: appchain id -> its admin *)
Definition self_chain (by_segment : bool) (recs : list (string * string)) (sid : string) : option string :=
  match alookup String.eqb sid recs with
  | None => None                                   (* no such service: refused before the check *)
  | Some ch => Some (if by_segment then first_seg sid else ch)
  end.
Definition passes_self (by_segment : bool) (recs : list (string * string)) (admins : list (string * N)) (sid : string) (caller : N) : bool :=
  match self_chain by_segment recs sid with
  | None => false
  | Some ch => match alookup String.eqb ch admins with Some a => (a =? caller)%N | None => false end
  end.
