(** Model of [internal/executor/contracts/interchain.go] (HandleIBTP: checkIBTP, begin/report,
    notifySrcDst, ProcessIBTP, handleMultiIbtpInterchain, and the public methods GetInterchain,
    GetIBTPByID, DeleteInterchain, Register).  Definitions only. *)
From BX Require Import Base.Prelude Base.Fsm Model.TxFsm Model.TxMgr.
From Coq Require Import String.
Local Open Scope N_scope.

(** * the world: which services exist (contract state of the service / appchain managers, which
    the histories considered here never change) *)
Record svc_info := {
  sv_hub : N;            (* 0 = this relay chain, k>0 = remote BitXHub k *)
  sv_chain : N;          (* appchain number *)
  sv_ordered : bool;
  sv_avail : bool;       (* status available *)
  sv_reg : bool;         (* registered in the service manager *)
  sv_bl : list svc       (* Permission: callers that are NOT allowed *)
}.
Record world := {
  w_svcs : list svc_info;          (* service k is entry k-1 *)
  w_hubs : list (N * bool);        (* remote hub -> registered as available relay-chain appchain *)
  w_audit : bool
}.
Definition svc_lookup (w : world) (k : svc) : option svc_info :=
  if k =? 0 then None else nth_error (w_svcs w) (N.to_nat (k - 1)).
Definition hub_avail (w : world) (k : N) : bool :=
  match alookup N.eqb k (w_hubs w) with Some b => b | None => false end.
Definition UNION_PIER : N := 99.
Definition chain_of (w : world) (k : svc) : N :=
  match svc_lookup w k with
  | Some s => if sv_hub s =? 0 then sv_chain s else UNION_PIER
  | None => 0
  end.
Definition is_local (s : svc_info) : bool := sv_hub s =? 0.

(** decimal digits, most significant first *)
Fixpoint digits_aux (fuel : nat) (n : N) (acc : list N) : list N :=
  match fuel with
  | O => acc
  | S f => if n <? 10 then n :: acc else digits_aux f (n / 10) (n mod 10 :: acc)
  end.
Definition digits (n : N) : list N := digits_aux 21 n [].
Fixpoint lex_cmp (a b : list N) : comparison :=
  match a, b with
  | [], [] => Eq
  | [], _ => Lt
  | _, [] => Gt
  | x :: s, y :: t => match x ?= y with Eq => lex_cmp s t | c => c end
  end.
(** textual order of full service ids "hub:chainX:svcK" inside an id "from-to-index": hub numbers have four
    digits, the chain is one letter; the service number K is followed by '-', which sorts before every digit,
    so "svc1-" < "svc11-" < "svc2-": the digit strings compare lexicographically, a proper prefix first *)
Definition svc_key (w : world) (k : svc) : N * N * N :=
  match svc_lookup w k with Some s => (sv_hub s, sv_chain s, k) | None => (0, 0, k) end.
Definition triple_cmp (a b : N * N * N) : comparison :=
  let '(a1, a2, a3) := a in let '(b1, b2, b3) := b in
  match a1 ?= b1 with Eq => match a2 ?= b2 with Eq => lex_cmp (digits a3) (digits b3) | c => c end | c => c end.
(** [sort.Strings] order of "from-to-index" *)
Definition id_cmp (w : world) (a b : txid) : comparison :=
  let '(af, at_, ai) := a in let '(bf, bt, bi) := b in
  match triple_cmp (svc_key w af) (svc_key w bf) with
  | Eq => match triple_cmp (svc_key w at_) (svc_key w bt) with
          | Eq => lex_cmp (digits ai) (digits bi)
          | c => c
          end
  | c => c
  end.
Definition id_leb (w : world) (a b : txid) : bool :=
  match id_cmp w a b with Gt => false | _ => true end.
Fixpoint id_insert (w : world) (x : txid) (l : list txid) : list txid :=
  match l with
  | [] => [x]
  | y :: t => if id_leb w x y then x :: l else y :: id_insert w x t
  end.
Definition id_sort (w : world) (l : list txid) : list txid := fold_right (id_insert w) [] l.

(** * contract state *)
Record icrec := {
  ic_IC : svc -> N;        (* InterchainCounter *)
  ic_RC : svc -> N;        (* ReceiptCounter *)
  ic_SIC : svc -> N;       (* SourceInterchainCounter *)
  ic_SRC : svc -> N        (* SourceReceiptCounter *)
}.
Definition icrec_zero : icrec := Build_icrec (fun _ => 0) (fun _ => 0) (fun _ => 0) (fun _ => 0).

Record ichain := {
  i_rec : svc -> option icrec;          (* service-<full id> *)
  i_req : txid -> option N;             (* index-tx-<id>: serial of the carrying transaction *)
  i_rcpt : txid -> option N;            (* index-receipt-tx-<id> *)
  i_multi : N -> option (N -> list txid) (* multitx-<height>: chain -> ids *)
}.
Definition ichain_init : ichain :=
  Build_ichain (fun _ => None) (fun _ => None) (fun _ => None) (fun _ => None).

Definition get_rec (c : ichain) (k : svc) : icrec :=
  match i_rec c k with Some r => r | None => icrec_zero end.
Definition put_rec (c : ichain) (k : svc) (r : icrec) : ichain :=
  Build_ichain (upd N.eqb (i_rec c) k (Some r)) (i_req c) (i_rcpt c) (i_multi c).
Definition del_rec (c : ichain) (k : svc) : ichain :=
  Build_ichain (upd N.eqb (i_rec c) k None) (i_req c) (i_rcpt c) (i_multi c).
Definition put_req (c : ichain) (i : txid) (s : N) : ichain :=
  Build_ichain (i_rec c) (upd txid_eqb (i_req c) i (Some s)) (i_rcpt c) (i_multi c).
Definition put_rcpt (c : ichain) (i : txid) (s : N) : ichain :=
  Build_ichain (i_rec c) (i_req c) (upd txid_eqb (i_rcpt c) i (Some s)) (i_multi c).
Definition get_multi (c : ichain) (h : N) : N -> list txid :=
  match i_multi c h with Some m => m | None => fun _ => [] end.
Definition put_multi (c : ichain) (h : N) (m : N -> list txid) : ichain :=
  Build_ichain (i_rec c) (i_req c) (i_rcpt c) (upd N.eqb (i_multi c) h (Some m)).

(** * the IBTP as the contract sees it *)
Record ibtp := {
  b_from : svc;
  b_to : svc;
  b_idx : N;
  b_typ : N;              (* 0 INTERCHAIN, 1 RECEIPT_SUCCESS, 2 RECEIPT_FAILURE, 3 RECEIPT_ROLLBACK, 4 RECEIPT_ROLLBACK_END *)
  b_T : Z;                (* TimeoutHeight, an int64 *)
  b_grp : option (N * N); (* group tag, declared count *)
  b_xst : N               (* TxStatus of the BxhProof in ibtp.Extra (0 when Extra is empty) *)
}.
Definition b_id (b : ibtp) : txid := (b_from b, b_to b, b_idx b).
Definition is_request (b : ibtp) : bool := b_typ b =? 0.
Definition is_response (b : ibtp) : bool := (1 <=? b_typ b) && (b_typ b <=? 3).
Definition u64_of_Z (z : Z) : N := Z.to_N (z mod 18446744073709551616)%Z.

(** error classes in receipts (shared numbering with the driver) *)
Definition E_PROOF := 1.
Definition E_IDX_EXISTS := 2.
Definition E_IDX_WRONG := 3.
Definition E_SRC_UNAVAIL := 4.
Definition E_ILLEGAL_TYPE := 5.
Definition E_NOT_IN_BXH := 6.
Definition E_SRC_HUB := 7.
Definition E_AUDIT := 14.
Definition E_OTHER := 15.
Definition E_PARSE := 16.
Definition E_NO_METHOD := 17.
Definition E_NO_INTERCHAIN := 18.
Definition E_NO_IBTP := 19.
Definition E_TM_PERM := 20.
Definition E_NO_GLOBAL_ID := 22.

Definition check_index (exp cur : N) : option N :=
  if cur <? exp then Some E_IDX_EXISTS else if exp <? cur then Some E_IDX_WRONG else None.

(** [checkTxStatusForSourceBxh] *)
Definition is_notification (w : world) (c : ichain) (b : ibtp) : bool :=
  match svc_lookup w (b_from b), svc_lookup w (b_to b) with
  | Some sf, Some st =>
      negb (sv_hub sf =? sv_hub st) && is_request b &&
      match i_req c (b_id b) with Some _ => (b_xst b =? 1) || (b_xst b =? 2) | None => false end
  | _, _ => false
  end.

(** [checkTargetAvailability] for an INTERCHAIN ibtp: (isBatch, target error?) *)
Definition check_target (cfg : Defects) (w : world) (src : svc) (sd : svc_info) : bool * bool :=
  if is_local sd then
    if negb (sv_reg sd) then (false, true)
    else if negb (sv_avail sd) then (false, true)
    else if existsb (N.eqb src) (sv_bl sd) then (false, true)
    else (negb (sv_ordered sd) && d_unordered cfg, false)
  else
    if hub_avail w (sv_hub sd) then (false, false) else (false, true).

Inductive chk := ChkOk (isBatch targetErr notif : bool) | ChkErr (e : N).

(** [checkIBTP] *)
Definition check_ibtp (cfg : Defects) (w : world) (c : ichain) (b : ibtp) : chk :=
  match svc_lookup w (b_from b), svc_lookup w (b_to b) with
  | None, _ => ChkErr E_PARSE
  | _, None => ChkErr E_PARSE
  | Some sf, Some sd =>
      let rec := get_rec c (b_from b) in
      let notif := is_notification w c b in
      if is_request b && negb notif then
        if is_local sf then
          if negb (sv_reg sf && sv_avail sf) then ChkErr E_SRC_UNAVAIL
          else
            let '(batch, terr) := check_target cfg w (b_from b) sd in
            if batch then ChkOk batch terr false
            else match check_index (wrap64 (ic_IC rec (b_to b) + 1)) (b_idx b) with
                 | Some e => ChkErr e
                 | None => ChkOk batch terr false
                 end
        else
          if negb (is_local sd) then ChkErr E_NOT_IN_BXH
          else if negb (hub_avail w (sv_hub sf)) then ChkErr E_SRC_HUB
          else
            let '(batch, terr) := check_target cfg w (b_from b) sd in
            if batch then ChkOk batch terr false
            else match check_index (wrap64 (ic_IC rec (b_to b) + 1)) (b_idx b) with
                 | Some e => ChkErr e
                 | None => ChkOk batch terr false
                 end
      else if is_response b || notif then
        if is_local sf then
          if negb (sv_reg sf) then ChkErr E_OTHER        (* nil service dereferenced: recovered panic *)
          else
            match check_index (wrap64 (ic_RC rec (b_to b) + 1)) (b_idx b) with
            | Some e => ChkErr e
            | None => ChkOk (negb (sv_ordered sf) && d_unordered cfg) false notif
            end
        else
          if negb (is_local sd) then ChkErr E_NOT_IN_BXH
          else match check_index (wrap64 (ic_RC rec (b_to b) + 1)) (b_idx b) with
               | Some e => ChkErr e
               | None => ChkOk false false notif
               end
      else ChkErr E_ILLEGAL_TYPE
  end.

(** [StatusChange.NotifyFlags] *)
Definition notify_flags (ch : change) : bool * bool :=
  if option_eqb N.eqb (c_prev ch) (Some (c_cur ch)) then (false, false)
  else
    let cur := c_cur ch in
    if cur =? ST_BEGIN then (false, true)
    else if cur =? ST_BEGIN_FAILURE then (true, true)
    else if cur =? ST_BEGIN_ROLLBACK then (true, true)
    else if cur =? ST_SUCCESS then (true, false)
    else if cur =? ST_FAILURE then
      (option_eqb N.eqb (c_prev ch) (Some ST_BEGIN), false)
    else if cur =? ST_ROLLBACK then
      (match c_prev ch with None => true | Some p => p =? ST_BEGIN end, false)
    else (false, false).

(** the chain a child id is filed under by [addToMultiTxNotifyMap]: [ParseIBTPID] uses
    [strconv.Atoi] on the index, so an index >= 2^63 yields the empty chain id *)
Definition atoi_ok (i : txid) : bool := snd i <? 9223372036854775808.
Definition notify_chain_src (w : world) (i : txid) : N :=
  if atoi_ok i then match svc_lookup w (fst (fst i)) with Some s => sv_chain s | None => 0 end else 0.
Definition notify_chain_dst (w : world) (i : txid) : N :=
  if atoi_ok i then match svc_lookup w (snd (fst i)) with Some s => sv_chain s | None => 0 end else 0.

Definition add_multi (cfg : Defects) (w : world) (c : ichain) (h : N) (ids : list txid) (toSrc : bool) : ichain :=
  match ids with
  | [] => c
  | first :: _ =>
      let m := get_multi c h in
      let m' :=
        if toSrc then
          let k := notify_chain_src w first in upd N.eqb m k (m k ++ ids)
        else
          fold_left (fun mm i =>
                       let k := notify_chain_dst w (if d_multitx_dst_first cfg then first else i) in
                       upd N.eqb mm k (mm k ++ [i])) ids m in
      put_multi c h m'
  end.

(** [notifySrcDst]: the posted event (set of chains, kept as a duplicate-free list) and the
    multi-tx notify map *)
Definition add_chain (k : N) (l : list N) : list N := if existsb (N.eqb k) l then l else l ++ [k].
Definition notify_src_dst (cfg : Defects) (w : world) (c : ichain) (h : N) (sf sd : svc_info) (ch : change)
  : ichain * list N :=
  let '(nsrc, ndst) := notify_flags ch in
  let '(c1, m1) :=
    if nsrc then
      if is_local sf then (add_multi cfg w c h (c_nsrc ch) true, add_chain (sv_chain sf) [])
      else (c, add_chain UNION_PIER [])
    else (c, []) in
  if ndst then
    if is_local sd then
      (add_multi cfg w c1 h (c_ndst ch) false,
       if c_failchild ch then m1 else add_chain (sv_chain sd) m1)
    else (c1, add_chain UNION_PIER m1)
  else (c1, m1).

(** [setDestInterchain] *)
Definition set_dest (c : ichain) (from to idx : N) (rf : icrec) : ichain :=
  let rf' := Build_icrec (ic_IC rf) (upd N.eqb (ic_RC rf) to idx) (ic_SIC rf) (ic_SRC rf) in
  let c1 := put_rec c from rf' in
  let rt := get_rec c1 to in
  put_rec c1 to (Build_icrec (ic_IC rt) (ic_RC rt) (ic_SIC rt) (upd N.eqb (ic_SRC rt) from idx)).

(** [handleMultiIbtpInterchain]: false = stopped on an unparsable child id *)
Fixpoint handle_multi (c : ichain) (kids : list txid) : ichain * bool :=
  match kids with
  | [] => (c, true)
  | i :: r =>
      if atoi_ok i then
        let '(f, t, x) := i in handle_multi (set_dest c f t x (get_rec c f)) r
      else (c, false)
  end.

(** [ProcessIBTP]: new state and the return class (0 nil, 1 "begin_failure", 2 "batch_ibtp") *)
Definition process_ibtp (w : world) (c : ichain) (b : ibtp) (rec : icrec) (serial : N)
           (notif targetFail batch : bool) (cur : N) (kids : list txid) : ichain * N :=
  let tail := if batch then 2 else if targetFail then 1 else 0 in
  if is_request b && negb notif then
    let rf := Build_icrec (upd N.eqb (ic_IC rec) (b_to b) (wrap64 (ic_IC rec (b_to b) + 1)))
                          (ic_RC rec) (ic_SIC rec) (ic_SRC rec) in
    let c1 := put_req (put_rec c (b_from b) rf) (b_id b) serial in
    let rt := get_rec c1 (b_to b) in
    (put_rec c1 (b_to b) (Build_icrec (ic_IC rt) (ic_RC rt) (upd N.eqb (ic_SIC rt) (b_from b) (b_idx b)) (ic_SRC rt)), tail)
  else
    if is_final cur then
      match kids with
      | [] => (put_rcpt (set_dest c (b_from b) (b_to b) (b_idx b) rec) (b_id b) serial, tail)
      | _ => let '(c1, ok) := handle_multi c kids in
             if ok then (put_rcpt c1 (b_id b) serial, tail) else (c1, 0)
      end
    else (put_rcpt c (b_id b) serial, tail).

(** result of one IBTP transaction *)
Record txres := {
  r_ok : bool;
  r_err : N;
  r_ret : N;
  r_chains : list N;          (* keys of the posted interchain event *)
  r_batch : bool              (* EventWrapper.IsBatch *)
}.
Definition res_err (e : N) : txres := Build_txres false e 0 [] false.

Definition group_gid (b : ibtp) : option gid :=
  match b_grp b with Some (g, n) => Some (b_from b, g, n) | None => None end.

(** [beginTransaction] / [reportTransaction]: the call into the transaction manager *)
Definition tm_step (cfg : Defects) (w : world) (h : N) (b : ibtp) (sf sd : svc_info) (terr : bool) (t : txm)
  : option tmres :=
  if is_request b then
    if negb (sv_hub sf =? sv_hub sd) then
      let T := if sv_hub sf =? 0 then 0 else u64_of_Z (b_T b) in
      Some (tm_begin_interbxh cfg t h (b_id b) T (b_xst b) terr)
    else
      match group_gid b with
      | None => Some (tm_begin t h (b_id b) (u64_of_Z (b_T b)) terr)
      | Some g => tm_begin_multi cfg (id_sort w) t h g (b_id b) (u64_of_Z (b_T b)) terr (snd g)
      end
  else tm_report cfg (id_sort w) t (b_id b) (b_typ b).

Definition rec_missing (c : ichain) (k : svc) : bool :=
  match i_rec c k with None => true | Some _ => false end.

(** [HandleIBTP] on the pair (transaction manager, interchain) state; [None] = outside the domain *)
Definition handle_ibtp (cfg : Defects) (w : world) (h serial : N) (b : ibtp) (t : txm) (c : ichain)
  : option (txm * ichain * txres) :=
  match check_ibtp cfg w c b with
  | ChkErr e => Some (t, c, res_err e)
  | ChkOk batch terr notif =>
      match svc_lookup w (b_from b), svc_lookup w (b_to b) with
      | Some sf, Some sd =>
          match tm_step cfg w h b sf sd terr t with
          | None => None
          | Some (TmErr e) => Some (t, c, res_err e)
          | Some (TmOk t' ch) =>
              let nc := notify_src_dst cfg w c h sf sd ch in
              let pc := process_ibtp w (fst nc) b (get_rec c (b_from b)) serial notif terr batch (c_cur ch) (c_child ch) in
              if w_audit w && (rec_missing (fst pc) (b_from b) || rec_missing (fst pc) (b_to b))
              then Some (t', fst pc, Build_txres false E_AUDIT 0 (snd nc) batch)
              else Some (t', fst pc, Build_txres true 0 (snd pc) (snd nc) batch)
          end
      | _, _ => None
      end
  end.

(** * public methods reachable by any account through a plain BVM transaction.  A failing BVM
    transaction is reverted by the executor, so these return the new state only on success. *)
Definition call_get_interchain (c : ichain) (k : svc) : bool :=
  match i_rec c k with Some _ => true | None => false end.
Definition call_get_ibtp (c : ichain) (i : txid) (isReq : bool) : bool :=
  match (if isReq then i_req c i else i_rcpt c i) with Some _ => true | None => false end.
(** [DeleteInterchain]: with audit on the audit event cannot be built for the deleted record, the
    call fails and the executor reverts it (since the ledger's change log is reset in place —
    repaired by the state-ledger work package — the revert is complete whatever ran before in the
    block; [touched] is kept only for the signature). *)
Definition call_delete (cfg : Defects) (w : world) (c : ichain) (k : svc) (touched : bool) : ichain * option N :=
  if d_delete_interchain cfg then
    if w_audit w then (c, Some E_AUDIT) else (del_rec c k, None)
  else (c, Some E_TM_PERM).
(** [Register] of a local service *)
Definition call_register (w : world) (c : ichain) (k : svc) : ichain * option N :=
  match svc_lookup w k with
  | Some s =>
      if is_local s then
        match i_rec c k with Some _ => (c, None) | None => (put_rec c k icrec_zero, None) end
      else (c, None)
  | None => if w_audit w then (c, Some E_AUDIT) else (c, None)
  end.
